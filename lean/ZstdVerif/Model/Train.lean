/-
Dictionary training, the parts that are a contract rather than a heuristic (lib/dictBuilder):
 * ZDICT_finalizeDictionary's layout arithmetic (header, zero padding up to the largest start repcode, content shrunk to fit) and
   the dictionary-ID rule;
 * COVER_checkParameters / FASTCOVER_checkParameters;
 * the shared result holder of the parameter optimisers (COVER_best_t: liveJobs counter + best candidate under one mutex) as an LTS.
-/
import ZstdVerif.Gen.Consts
import ZstdVerif.Gen.Tables
namespace ZstdVerif.Train
open ZstdVerif.Gen

/-- ZDICT_maxRep(repStartValue) -/
def minContentSize : Nat := repStartValue.foldl max 0

/-- (dictSize, padding, content bytes kept) or `none` = dstSize_tooSmall; hSize = 8 + entropy tables -/
def finalizeLayout (hSize contentIn cap : Nat) : Option (Nat × Nat × Nat) :=
  if cap < contentIn then none
  else if cap < ZDICT_DICTSIZE_MIN then none
  else
    let kept := if hSize + contentIn > cap then cap - hSize else contentIn
    if kept < minContentSize then
      if hSize + minContentSize > cap then none else some (hSize + (minContentSize - kept) + kept, minContentSize - kept, kept)
    else some (hSize + kept, 0, kept)

/-- dictionary ID chosen when the caller gives none: XXH64 of the content folded into the 'compliant' range -/
def compliantID (xxh : Nat) : Nat := xxh % (2 ^ 31 - 32768) + 32768

/-- COVER_checkParameters(k, d, splitPoint as a rational num/den, maxDictSize) -/
def coverParamsOk (k d : Nat) (splitNum splitDen : Int) (maxDictSize : Nat) : Bool :=
  !(d == 0 || k == 0) && !(decide (k > maxDictSize)) && !(decide (d > k)) && !(decide (splitNum ≤ 0) || decide (splitNum > splitDen))

/-- FASTCOVER_checkParameters: additionally d ∈ {6, 8}, 0 < f ≤ 31, 0 < accel ≤ 10 -/
def fastCoverParamsOk (k d : Nat) (splitNum splitDen : Int) (maxDictSize f accel : Nat) : Bool :=
  coverParamsOk k d splitNum splitDen maxDictSize && (d == 6 || d == 8) && decide (0 < f) && decide (f ≤ 31) && decide (0 < accel) && decide (accel ≤ 10)

/-! ### the optimisers' shared result holder -/

structure Best where
  live : Nat := 0
  /-- compressed size of the best candidate so far (none = (size_t)-1) and the job that produced it -/
  best : Option (Nat × Nat) := none
  dispatched : List Nat := []
  finished : List (Nat × Nat) := []       -- (job, size) in finishing order
deriving Repr, DecidableEq

inductive BEv where
  /-- the dispatcher calls COVER_best_start and hands job j to the pool (or runs it itself) -/
  | dispatch (j : Nat)
  /-- job j calls COVER_best_finish with the total compressed size its candidate achieved -/
  | finish (j size : Nat)
  /-- COVER_best_wait returns -/
  | waitReturn
deriving Repr, DecidableEq

def bstep (s : Best) : BEv → Option Best
  | .dispatch j => if j ∈ s.dispatched then none else some { s with live := s.live + 1, dispatched := j :: s.dispatched }
  | .finish j size =>
    if j ∈ s.dispatched ∧ j ∉ s.finished.map (·.1) ∧ 0 < s.live then
      let better := match s.best with
        | none => true
        | some (b, _) => decide (size < b)
      some { s with live := s.live - 1, finished := s.finished ++ [(j, size)], best := if better then some (size, j) else s.best }
    else none
  | .waitReturn => if s.live = 0 then some s else none

def brun (s : Best) : List BEv → Option Best
  | [] => some s
  | e :: es => match bstep s e with
    | some s' => brun s' es
    | none => none

end ZstdVerif.Train
