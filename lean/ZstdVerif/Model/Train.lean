/-
Dictionary training, the parts that are a contract rather than a heuristic (lib/dictBuilder):
 * ZDICT_finalizeDictionary's layout arithmetic (header, zero padding up to the largest start repcode, content shrunk to fit) and
   the dictionary-ID rule;
 * COVER_checkParameters / FASTCOVER_checkParameters;
 * the shared result holder of the parameter optimisers (COVER_best_t: liveJobs counter + best candidate under one mutex) as an LTS.
-/
import ZstdVerif.Gen.Consts
import ZstdVerif.Gen.Tables
namespace ZstdVerif.Train
open ZstdVerif.Gen

/-- ZDICT_maxRep(repStartValue) -/
def minContentSize : Nat := repStartValue.foldl max 0

/-- (dictSize, padding, content bytes kept) or `none` = dstSize_tooSmall; hSize = 8 + entropy tables -/
def finalizeLayout (hSize contentIn cap : Nat) : Option (Nat × Nat × Nat) :=
  if cap < contentIn then none
  else if cap < ZDICT_DICTSIZE_MIN then none
  else
    let kept := if hSize + contentIn > cap then cap - hSize else contentIn
    if kept < minContentSize then
      if hSize + minContentSize > cap then none else some (hSize + (minContentSize - kept) + kept, minContentSize - kept, kept)
    else some (hSize + kept, 0, kept)

/-- dictionary ID chosen when the caller gives none: XXH64 of the content folded into the 'compliant' range -/
def compliantID (xxh : Nat) : Nat := xxh % (2 ^ 31 - 32768) + 32768

/-- COVER_checkParameters(k, d, splitPoint as a rational num/den, maxDictSize) -/
def coverParamsOk (k d : Nat) (splitNum splitDen : Int) (maxDictSize : Nat) : Bool :=
  !(d == 0 || k == 0) && !(decide (k > maxDictSize)) && !(decide (d > k)) && !(decide (splitNum ≤ 0) || decide (splitNum > splitDen))

/-- FASTCOVER_checkParameters: additionally d ∈ {6, 8}, 0 < f ≤ 31, 0 < accel ≤ 10 -/
def fastCoverParamsOk (k d : Nat) (splitNum splitDen : Int) (maxDictSize f accel : Nat) : Bool :=
  coverParamsOk k d splitNum splitDen maxDictSize && (d == 6 || d == 8) && decide (0 < f) && decide (f ≤ 31) && decide (0 < accel) && decide (accel ≤ 10)

/-! ### epochs of the build loops (COVER_computeEpochs) and the d-mer count they are cut from -/

/-- COVER_computeEpochs(maxDictSize, nbDmers, k, passes) = (epochs.num, epochs.size); `none` where the C code divides by zero
(k = 0, passes = 0, or no d-mer at all: `nbDmers / MIN(k*10, nbDmers)`).  U32 arithmetic: faithful while k*10 < 2^32. -/
def computeEpochs (maxDictSize nbDmers k passes : Nat) : Option (Nat × Nat) :=
  if k = 0 ∨ passes = 0 then none
  else
    let num := max 1 (maxDictSize / k / passes)
    let size := nbDmers / num
    if k * 10 ≤ size then some (num, size)
    else
      let size2 := min (k * 10) nbDmers
      if size2 = 0 then none else some (nbDmers / size2, size2)

/-- number of d-mer positions of a training part of `trainSize` bytes, as the build loops need it (≥ 1): `none` = too small.
COVER_ctx_init / FASTCOVER_ctx_init compute `trainSize - MAX(d,8) + 1` in size_t after a size check. -/
def dmerCount (trainSize d : Nat) : Option Nat :=
  if trainSize < max d 8 then none else some (trainSize - max d 8 + 1)

/-- what COVER_ctx_init / FASTCOVER_ctx_init must answer for the build loops to be safe: the d-mer count of the TRAINING part, or `none` =
srcSize_wrong (whole set below max(d,8) bytes or not below 2^32-1, fewer than 5 training samples, no test sample, training part too small) -/
def ctxInit (total trainSize nbTrain nbTest d : Nat) : Option Nat :=
  if total < max d 8 ∨ 2 ^ 32 - 1 ≤ total then none
  else if nbTrain < 5 ∨ nbTest < 1 then none
  else dmerCount trainSize d

/-! ### the legacy trainer's table of candidate segments (zdict.c: dictItem table, ZDICT_insertDictItem) -/

/-- one candidate segment: which one (`id` stands for its position / length in the sample buffer) and the savings it is ranked by -/
structure DictItem where
  id : Nat
  savings : Nat
deriving Repr, DecidableEq, Inhabited

/-- the insertion loop of ZDICT_insertDictItem, seen from the END of the used slots (`rev` = slots nextElt-1, nextElt-2, .. 1): every entry ranked strictly
lower than the new one moves one slot down, the new one lands behind the first entry that is not (slot 0 carries savings = (U32)-1 and stops the loop) -/
def insertFromEnd (e : DictItem) : (rev : List DictItem) → List DictItem
  | [] => [e]
  | x :: rest => if x.savings < e.savings then x :: insertFromEnd e rest else e :: x :: rest

/-- ZDICT_insertDictItem for a candidate that merges with no entry.  `t` = the used slots 1 .. pos-1 in rank order (table->pos = t.length + 1), `maxSize` = number
of slots of the table, slot 0 included.  `nextElt = pos`, clamped to `maxSize - 1` when the table is full: then the lowest-ranked entry is dropped, so that the
highest slot written is `maxSize - 1`; afterwards table->pos = nextElt + 1. -/
def insertItem (maxSize : Nat) (t : List DictItem) (e : DictItem) : List DictItem :=
  (insertFromEnd e (t.take (maxSize - 2)).reverse).reverse

/-- a whole run of insertions into the table ZDICT_initDictItem leaves (no used slot) -/
def insertAll (maxSize : Nat) (es : List DictItem) : List DictItem := es.foldl (insertItem maxSize) []

/-! ### the optimisers' shared result holder -/

structure Best where
  live : Nat := 0
  /-- compressed size of the best candidate so far (none = (size_t)-1) and the job that produced it -/
  best : Option (Nat × Nat) := none
  dispatched : List Nat := []
  finished : List (Nat × Nat) := []       -- (job, size) in finishing order
deriving Repr, DecidableEq

inductive BEv where
  /-- the dispatcher calls COVER_best_start and hands job j to the pool (or runs it itself) -/
  | dispatch (j : Nat)
  /-- job j calls COVER_best_finish with the total compressed size its candidate achieved -/
  | finish (j size : Nat)
  /-- COVER_best_wait returns -/
  | waitReturn
deriving Repr, DecidableEq

def bstep (s : Best) : BEv → Option Best
  | .dispatch j => if j ∈ s.dispatched then none else some { s with live := s.live + 1, dispatched := j :: s.dispatched }
  | .finish j size =>
    if j ∈ s.dispatched ∧ j ∉ s.finished.map (·.1) ∧ 0 < s.live then
      let better := match s.best with
        | none => true
        | some (b, _) => decide (size < b)
      some { s with live := s.live - 1, finished := s.finished ++ [(j, size)], best := if better then some (size, j) else s.best }
    else none
  | .waitReturn => if s.live = 0 then some s else none

def brun (s : Best) : List BEv → Option Best
  | [] => some s
  | e :: es => match bstep s e with
    | some s' => brun s' es
    | none => none

end ZstdVerif.Train
