/-
32-bit index rebasing of the compressor (zstd_compress_internal.h: ZSTD_window_canOverflowCorrect /
ZSTD_window_needOverflowCorrection / ZSTD_window_correctOverflow; zstd_compress.c: ZSTD_reduceTable_internal).
Indices are U32: arithmetic is modulo 2^32 exactly where the C code's is.
-/
import ZstdVerif.Gen.Consts
namespace ZstdVerif.Window
open ZstdVerif.Gen

def U32 : Nat := 4294967296

structure Win where
  lowLimit : Nat
  dictLimit : Nat
  nbOverflowCorrections : Nat
deriving DecidableEq, Repr

/-- the index the current position gets after a correction -/
def newCurrentOf (cycleLog maxDist curr : Nat) : Nat :=
  curr % 2 ^ cycleLog + (if curr % 2 ^ cycleLog < ZSTD_WINDOW_START_INDEX then max (2 ^ cycleLog) ZSTD_WINDOW_START_INDEX else 0) +
    max maxDist (2 ^ cycleLog)

/-- `correction = curr - newCurrent` in U32 arithmetic -/
def correctionOf (cycleLog maxDist curr : Nat) : Nat := (curr + U32 - newCurrentOf cycleLog maxDist curr) % U32

/-- how lowLimit / dictLimit are rebased -/
def limitUpdate (lim corr : Nat) : Nat :=
  if lim < (corr + ZSTD_WINDOW_START_INDEX) % U32 then ZSTD_WINDOW_START_INDEX else (lim + U32 - corr) % U32     -- U32 arithmetic as in C

/-- ZSTD_window_correctOverflow: returns (correction, newCurrent, window') for `curr = src - base` -/
def correctOverflow (w : Win) (cycleLog maxDist curr : Nat) : Nat × Nat × Win :=
  let corr := correctionOf cycleLog maxDist curr
  (corr, newCurrentOf cycleLog maxDist curr,
   { lowLimit := limitUpdate w.lowLimit corr, dictLimit := limitUpdate w.dictLimit corr, nbOverflowCorrections := w.nbOverflowCorrections + 1 })

/-- ZSTD_window_canOverflowCorrect (used when ZSTD_WINDOW_OVERFLOW_CORRECT_FREQUENTLY) -/
def canOverflowCorrect (w : Win) (cycleLog maxDist loadedDictEnd curr : Nat) : Bool :=
  let cycleSize := 2 ^ cycleLog
  let minIdx := (cycleSize + max maxDist cycleSize + ZSTD_WINDOW_START_INDEX) % U32
  let adjusted := max ((minIdx * (w.nbOverflowCorrections + 1)) % U32) minIdx
  decide (curr > adjusted) && decide (curr > (maxDist + loadedDictEnd) % U32)

/-- ZSTD_window_needOverflowCorrection -/
def needOverflowCorrection (frequently : Bool) (w : Win) (cycleLog maxDist loadedDictEnd currStart currEnd : Nat) : Bool :=
  (frequently && canOverflowCorrect w cycleLog maxDist loadedDictEnd currStart) || decide (currEnd > ZSTD_CURRENT_MAX)

/-- one cell of ZSTD_reduceTable_internal -/
def reduceCell (preserveMark : Bool) (reducer v : Nat) : Nat :=
  if preserveMark && v == ZSTD_DUBT_UNSORTED_MARK then ZSTD_DUBT_UNSORTED_MARK
  else if v < (reducer + ZSTD_WINDOW_START_INDEX) % U32 then 0
  else v - reducer

end ZstdVerif.Window
