/-
ENCODER side of the sequences bit stream of a compressed block (lib/compress/zstd_compress_sequences.c: ZSTD_encodeSequences_body,
lib/compress/zstd_compress.c: ZSTD_seqToCodes, lib/compress/fse_compress.c: FSE_buildCTable_rle).

Three FSE states (match length, offset, literal length) are interleaved with the extra bits of every sequence.  The sequences are
encoded LAST ONE FIRST, the decoder (Model/Block.lean: `Block.decodeSeqs`, i.e. ZSTD_decodeSequence) pops the fields in the opposite
order: the bit stream is a stack.  `Lemmas/SeqRT.lean` proves that `Block.decodeSeqs` reads back exactly what is written here.

What is mirrored: the 64-bit path.  `MEM_32bits()` is false, so none of the conditional BIT_flushBits calls changes the stream (flushes
never do: `BitW.flush_irrelevant`), and `longOffsets` is 0: ZSTD_seqToCodes returns `longOffsets = 1` only under `MEM_32bits()`, and the
other caller computes it as `windowLog >= STREAM_ACCUMULATOR_MIN` (= 57 on 64-bit, above every legal windowLog).  Even with
`longOffsets = 1` the 64-bit code would write the same bits: `extraBits = ofBits - MIN(ofBits, 56) = 0` for `ofBits ≤ 31`.
-/
import ZstdVerif.Model.FSEEnc
import ZstdVerif.Model.BitW
import ZstdVerif.Model.Rep
namespace ZstdVerif.SeqEnc
open ZstdVerif.Gen ZstdVerif.FSE

/-- one sequence as the seqStore holds it (`seqDef`, zstd_compress_internal.h): `offBase` (U32: 1..3 = repeat codes, offset + 3 otherwise),
`litLength`, `mlBase = matchLength - MINMATCH`.  The two lengths are the FULL values: in C the fields are U16 and the single sequence of a
block that may exceed 65535 (`longLengthType` / `longLengthPos`) is stored minus 0x10000; ZSTD_seqToCodes then forces its code to
MaxLL = 35 (resp. MaxML = 52), which is what ZSTD_LLcode / ZSTD_MLcode give on the full value (`highbit = 16`), and BIT_addBits writes the
low 16 bits of the stored field, which are the low 16 bits of the full value. -/
structure SeqIn where
  litLength : Nat
  mlBase : Nat
  offBase : Nat
deriving DecidableEq, Repr, Inhabited

/-- the three symbols of a sequence (`llCodeTable[n]`, `ofCodeTable[n]`, `mlCodeTable[n]`) -/
structure Codes where
  ll : Nat
  of : Nat
  ml : Nat
deriving DecidableEq, Repr, Inhabited

/-- ZSTD_seqToCodes (zstd_compress.c), one sequence: `llCode = ZSTD_LLcode(litLength)`, `ofCode = ZSTD_highbit32(offBase)`,
`mlCode = ZSTD_MLcode(mlBase)` -/
def codesOf (s : SeqIn) : Codes :=
  { ll := Rep.llCode s.litLength, of := highbit s.offBase, ml := Rep.mlCode s.mlBase }

/-- FSE_buildCTable_rle (fse_compress.c; ZSTD_buildCTable's `set_rle` case): `tableLog = 0`, `tableU16[0] = tableU16[1] = 0`,
`symbolTT[symbolValue] = { deltaFindState = 0, deltaNbBits = 0 }` (the entries of the other symbols are not written in C; 0 here).
With this table FSE_initCState2 / FSE_encodeSymbol keep the state at 0 and every field they push is 0 bits wide. -/
def rleCTable (symbol : Nat) : CTable :=
  { tableLog := 0, stateTable := #[0, 0], symbolTT := Array.replicate (symbol + 1) { deltaFindState := 0, deltaNbBits := 0 } }

/-- the three `FSE_CState_t.value`s: stateLitLength, stateOffsetBits, stateMatchLength -/
structure States where
  ll : Nat
  of : Nat
  ml : Nat
deriving DecidableEq, Repr, Inhabited

/-- the extra-bits fields of one sequence on top of `stack`, in push order
`BIT_addBits(litLength, LL_bits[llCode]); BIT_addBits(mlBase, ML_bits[mlCode]); BIT_addBits(offBase, ofCode)`
(BIT_addBits masks the value to the width; the fields keep the unmasked value, `BitW.addBits` masks) -/
def pushExtra (s : SeqIn) (stack : List (Nat × Nat)) : List (Nat × Nat) :=
  let c := codesOf s
  (s.offBase, c.of) :: (s.mlBase, ML_bits.getD c.ml 0) :: (s.litLength, LL_bits.getD c.ll 0) :: stack

/-- one iteration of the loop `for (n = nbSeq-2; n < nbSeq; n--)` of ZSTD_encodeSequences_body:
`FSE_encodeSymbol(stateOffsetBits, ofCode); FSE_encodeSymbol(stateMatchLength, mlCode); FSE_encodeSymbol(stateLitLength, llCode);`
then the three extra-bits fields.  Everything is pushed on `stack` (top = last pushed). -/
def encodeStep (ctLL ctOF ctML : CTable) (st : States) (stack : List (Nat × Nat)) (s : SeqIn) : States × List (Nat × Nat) :=
  let c := codesOf s
  let eOF := encodeSymbol ctOF st.of c.of
  let eML := encodeSymbol ctML st.ml c.ml
  let eLL := encodeSymbol ctLL st.ll c.ll
  ({ ll := eLL.1, of := eOF.1, ml := eML.1 }, pushExtra s (eLL.2 :: eML.2 :: eOF.2 :: stack))

/-- the loop over the sequences that remain (`rev` = sequences `nbSeq-2, .., 0`, in that order) -/
def encodeSeqLoop (ctLL ctOF ctML : CTable) : List SeqIn → States → List (Nat × Nat) → States × List (Nat × Nat)
  | [], st, stack => (st, stack)
  | s :: rev, st, stack =>
    let r := encodeStep ctLL ctOF ctML st stack s
    encodeSeqLoop ctLL ctOF ctML rev r.1 r.2

/-- ZSTD_encodeSequences_body as a STACK of bit fields (top = last field written = first field the decoder reads):
* `FSE_initCState2` for ML, OF, LL with the codes of the LAST sequence (no bits), then its extra bits (LL, ML, OF);
* the loop `encodeSeqLoop` over the other sequences, last to first;
* `FSE_flushCState` for ML, OF, LL.
`seqs = []` is not a case of the C function (`nbSeq ≥ 1`: `mlCodeTable[nbSeq-1]`); the model then writes nothing. -/
def encodeSeqStack (ctLL ctOF ctML : CTable) (seqs : List SeqIn) : List (Nat × Nat) :=
  match seqs.reverse with
  | [] => []
  | last :: rev =>
    let c := codesOf last
    let st0 : States := { ll := initCState2 ctLL c.ll, of := initCState2 ctOF c.of, ml := initCState2 ctML c.ml }
    let r := encodeSeqLoop ctLL ctOF ctML rev st0 (pushExtra last [])
    flushCState ctLL r.1.ll :: flushCState ctOF r.1.of :: flushCState ctML r.1.ml :: r.2

/-- the bit fields `(value, width)` of ZSTD_encodeSequences_body in the order the C code appends them to the stream -/
def encodeSeqFields (ctLL ctOF ctML : CTable) (seqs : List SeqIn) : List (Nat × Nat) :=
  (encodeSeqStack ctLL ctOF ctML seqs).reverse

/-- the bytes ZSTD_encodeSequences produces: BIT_initCStream, the fields, BIT_closeCStream -/
def encodeSeqBytes (ctLL ctOF ctML : CTable) (seqs : List SeqIn) : Bytes :=
  BitW.ofFields (encodeSeqFields ctLL ctOF ctML seqs)

end ZstdVerif.SeqEnc
