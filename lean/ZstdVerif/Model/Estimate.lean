/-
Model of the compression-context sizing (zstd_compress.c): ZSTD_sizeof_matchState, ZSTD_estimateCCtxSize_usingCCtxParams_internal
(the routine shared by the public estimates and by ZSTD_resetCCtx_internal) and `reserveSeq`, the exact sequence of workspace
reservations ZSTD_initStaticCCtx / ZSTD_resetCCtx_internal / ZSTD_reset_matchState perform for resolved parameters.
Struct sizes and constants come from Gen/Consts (dumped by the C compiler from the current tree).
-/
import ZstdVerif.Gen.Consts
import ZstdVerif.Model.Cwksp
import ZstdVerif.Model.Bound
namespace ZstdVerif.Estimate
open ZstdVerif.Gen ZstdVerif.Cwksp

/-- fully resolved parameters, as ZSTD_resetCCtx_internal sees them -/
structure RP where
  windowLog : Nat
  chainLog : Nat
  hashLog : Nat
  minMatch : Nat
  strategy : Nat
  /-- resolved row-match-finder switch (ZSTD_ps_enable) -/
  useRow : Bool
  ldm : Bool
  ldmHashLog : Nat
  ldmBucketSizeLog : Nat
  ldmMinMatch : Nat
  extSeq : Bool
  /-- resolved (non-zero) maxBlockSize -/
  maxBlockSize : Nat
  isStatic : Bool
  buffIn : Nat
  buffOut : Nat
  /-- pledged source size; unknown = 2^64-1 -/
  pledged : Nat
deriving Repr, DecidableEq

def a64 (n : Nat) : Nat := align n 64

def rowSupported (strategy : Nat) : Bool := decide (3 ≤ strategy) && decide (strategy ≤ 5)
def rowUsed (p : RP) : Bool := rowSupported p.strategy && p.useRow
/-- ZSTD_allocateChainTable with forDDSDict = 0 -/
def chainAllocated (p : RP) : Bool := decide (p.strategy ≠ 1) && !rowUsed p

def windowSize (p : RP) : Nat := max 1 (min (2 ^ p.windowLog) p.pledged)
def blockSize (p : RP) : Nat := min p.maxBlockSize (windowSize p)
def maxNbSeq (p : RP) : Nat := blockSize p / (if p.minMatch = 3 ∨ p.extSeq then 3 else 4)
def chainSize (p : RP) : Nat := if chainAllocated p then 2 ^ p.chainLog else 0
def hSize (p : RP) : Nat := 2 ^ p.hashLog
def hashLog3 (p : RP) : Nat := if p.minMatch = 3 then min ZSTD_HASHLOG3_MAX p.windowLog else 0
def h3Size (p : RP) : Nat := if hashLog3 p = 0 then 0 else 2 ^ hashLog3 p
def isOpt (p : RP) : Bool := decide (p.strategy ≥ 7)
def sequenceBound (n : Nat) : Nat := n / ZSTD_MINMATCH_MIN + 1 + (n / ZSTD_BLOCKSIZE_MAX_MIN + 1)
def ldmHSize (p : RP) : Nat := 2 ^ p.ldmHashLog
def ldmBuckets (p : RP) : Nat := 2 ^ (p.ldmHashLog - min p.ldmBucketSizeLog p.ldmHashLog)
def maxNbLdmSeq (p : RP) : Nat := if p.ldm then blockSize p / p.ldmMinMatch else 0

def optSpace : Nat :=
  a64 ((MaxML + 1) * 4) + a64 ((MaxLL + 1) * 4) + a64 ((MaxOff + 1) * 4) + a64 (2 ^ Litbits * 4) +
  a64 (ZSTD_OPT_SIZE * sizeof_ZSTD_match_t) + a64 (ZSTD_OPT_SIZE * sizeof_ZSTD_optimal_t)

/-- ZSTD_sizeof_matchState (forCCtx = 1, no dedicated dict search) -/
def sizeofMatchState (p : RP) : Nat :=
  (chainSize p * 4 + hSize p * 4 + h3Size p * 4) + (if isOpt p then optSpace else 0) + cwksp_slack +
  (if rowUsed p then a64 (hSize p) else 0)

/-- ZSTD_estimateCCtxSize_usingCCtxParams_internal -/
def estimate (p : RP) : Nat :=
  let tokenSpace := (WILDCOPY_OVERLENGTH + blockSize p) + a64 (maxNbSeq p * sizeof_seqDef) + 3 * maxNbSeq p
  let ldmSpace := if p.ldm then ldmBuckets p + ldmHSize p * sizeof_ldmEntry else 0
  let ldmSeqSpace := if p.ldm then a64 (maxNbLdmSeq p * sizeof_rawSeq) else 0
  let cctxSpace := if p.isStatic then sizeof_ZSTD_CCtx else 0
  let extSpace := if p.extSeq then a64 (sequenceBound (blockSize p) * sizeof_ZSTD_Sequence) else 0
  cctxSpace + TMP_WORKSPACE_SIZE + 2 * sizeof_blockState + ldmSpace + ldmSeqSpace + sizeofMatchState p + tokenSpace +
    (p.buffIn + p.buffOut) + extSpace

/-- the objects reserved once, when the workspace is created (ZSTD_initStaticCCtx, or the resize branch of the reset) -/
def objectReqs (p : RP) : List Req :=
  (if p.isStatic then [Req.object sizeof_ZSTD_CCtx] else []) ++
  [Req.object sizeof_blockState, Req.object sizeof_blockState, Req.object TMP_WORKSPACE_SIZE]

/-- reservations of ZSTD_reset_matchState followed by those of ZSTD_resetCCtx_internal, in source order -/
def sessionReqs (p : RP) : List Req :=
  [Req.table (hSize p * 4), Req.table (chainSize p * 4), Req.table (h3Size p * 4)] ++
  (if rowUsed p then [Req.aligned (hSize p) true] else []) ++
  (if isOpt p then [Req.aligned (2 ^ Litbits * 4) false, Req.aligned ((MaxLL + 1) * 4) false, Req.aligned ((MaxML + 1) * 4) false,
                    Req.aligned ((MaxOff + 1) * 4) false, Req.aligned (ZSTD_OPT_SIZE * sizeof_ZSTD_match_t) false,
                    Req.aligned (ZSTD_OPT_SIZE * sizeof_ZSTD_optimal_t) false] else []) ++
  [Req.aligned (maxNbSeq p * sizeof_seqDef) false] ++
  (if p.ldm then [Req.aligned (ldmHSize p * sizeof_ldmEntry) false, Req.aligned (maxNbLdmSeq p * sizeof_rawSeq) false] else []) ++
  (if p.extSeq then [Req.aligned (sequenceBound (blockSize p) * sizeof_ZSTD_Sequence) false] else []) ++
  [Req.buffer (blockSize p + WILDCOPY_OVERLENGTH), Req.buffer p.buffIn, Req.buffer p.buffOut] ++
  (if p.ldm then [Req.buffer (ldmBuckets p)] else []) ++
  [Req.buffer (maxNbSeq p), Req.buffer (maxNbSeq p), Req.buffer (maxNbSeq p)]

def reserveSeq (p : RP) : List Req := objectReqs p ++ sessionReqs p

/-! ### the public estimates from explicit compression parameters -/

def unknownSize : Nat := 2 ^ 64 - 1

/-- the row-hash cap of ZSTD_adjustCParams_internal (source size unknown, no dictionary): the only adjustment that applies to
valid cParams on this path -/
def capRowHash (hashLog searchLog : Nat) : Nat :=
  let rowLog := max 4 (min searchLog 6)
  min hashLog (24 + rowLog)

/-- ZSTD_resolveEnableLdm (auto): strategy ≥ btopt and windowLog ≥ 27 -/
def ldmAuto (c : CPar) : Bool := decide (c.strategy ≥ 7) && decide (c.windowLog ≥ 27)

/-- resolved parameters for ZSTD_estimateCCtxSize_usingCCtxParams on params made from cParams `c` with the given row switch;
`stream` adds the streaming buffers -/
def rpOfCParams (c : CPar) (useRow : Bool) (stream : Bool) : RP :=
  let hashLog := if useRow && rowSupported c.strategy then capRowHash c.hashLog c.searchLog else c.hashLog
  let ldm := ldmAuto c
  let lh := max ZSTD_HASHLOG_MIN (c.windowLog - LDM_HASH_RLOG)
  let blk := min ZSTD_BLOCKSIZE_MAX (2 ^ c.windowLog)
  { windowLog := c.windowLog, chainLog := c.chainLog, hashLog := hashLog, minMatch := c.minMatch, strategy := c.strategy,
    useRow := useRow, ldm := ldm, ldmHashLog := if ldm then lh else 0, ldmBucketSizeLog := if ldm then min LDM_BUCKET_SIZE_LOG lh else 0,
    ldmMinMatch := if ldm then LDM_MIN_MATCH_LENGTH else 0, extSeq := false, maxBlockSize := ZSTD_BLOCKSIZE_MAX, isStatic := true,
    buffIn := if stream then 2 ^ c.windowLog + blk else 0, buffOut := if stream then Bound.compressBound blk + 1 else 0,
    pledged := unknownSize }

/-- ZSTD_estimateCCtxSize_usingCParams / ZSTD_estimateCStreamSize_usingCParams: the larger of the two row-finder settings when the
strategy supports it -/
def estimateUsingCParams (c : CPar) (stream : Bool) : Nat :=
  if rowSupported c.strategy then max (estimate (rpOfCParams c false stream)) (estimate (rpOfCParams c true stream))
  else estimate (rpOfCParams c false stream)

/-! ### the public estimates from a parameter set (ZSTD_estimate{CCtx,CStream}Size_usingCCtxParams) whose cParams are all given -/

/-- ZSTD_c_useRowMatchFinder as the caller left it in the parameter set -/
inductive RowMode where
  | auto | enable | disable
deriving DecidableEq, Repr

/-- window log above which ZSTD_resolveRowMatchFinderMode turns the automatic mode on (SIMD build: 14; the tie compares the
estimates of the real build with this model, so another build would show up as a difference) -/
def rowAutoWindowLog : Nat := 14

/-- ZSTD_resolveRowMatchFinderMode on (unadjusted) cParams -/
def resolveRow (m : RowMode) (c : CPar) : Bool :=
  match m with
  | .enable => true
  | .disable => false
  | .auto => rowSupported c.strategy && decide (c.windowLog > rowAutoWindowLog)

/-- parameters the sizing routine is called with for match-finder flavour `useRow`: ZSTD_getCParamsFromCCtxParams (source size unknown)
caps the hash log for the row finder unless the mode is explicitly disabled (automatic counts as enabled there); the long-distance
switch, left automatic in such a parameter set, is resolved on these parameters (ZSTD_resolveEnableLdm: strategy ≥ btopt and
windowLog ≥ 27, /repo 3f7e135) and its defaults filled in (ZSTD_ldm_adjustParameters), as in `rpOfCParams` -/
def rpOfCCtxParams (c : CPar) (mode : RowMode) (useRow : Bool) (stream : Bool) : RP :=
  let capped := decide (mode ≠ RowMode.disable) && rowSupported c.strategy
  { rpOfCParams c useRow stream with
    hashLog := if capped then capRowHash c.hashLog c.searchLog else c.hashLog }

/-- ZSTD_estimateCCtxSize_usingCCtxParams (`stream = false`): with the mode left automatic and a strategy that has a row finder, the
larger of the two flavours (the compressor resolves the automatic mode on parameters ADJUSTED to the source size, so either can be
the one it uses); otherwise the flavour the mode resolves to.  ZSTD_estimateCStreamSize_usingCCtxParams (`stream = true`) sizes the
flavour resolved on the unadjusted parameters only. -/
def estimateUsingCCtxParams (c : CPar) (mode : RowMode) (stream : Bool) : Nat :=
  if mode = RowMode.auto ∧ stream = false ∧ rowSupported c.strategy = true then
    max (estimate (rpOfCCtxParams c mode true stream)) (estimate (rpOfCCtxParams c mode false stream))
  else estimate (rpOfCCtxParams c mode (resolveRow mode c) stream)

/-- the match-finder flavours a budget of `estimateUsingCCtxParams c mode stream` is made for -/
def flavourCovered (c : CPar) (mode : RowMode) (stream : Bool) (useRow : Bool) : Bool :=
  (decide (mode = RowMode.auto) && !stream && rowSupported c.strategy) || (useRow == resolveRow mode c)

/-! ### the estimates by compression level -/

def rowAt (tier level : Nat) : CPar := (adjRows.getD tier []).getD level ⟨0, 0, 0, 0, 0, 0, 0⟩

/-- ZSTD_estimateCCtxSize_internal(level): the largest need over the four source-size tiers -/
def estLevelInternal (level : Nat) : Nat :=
  (List.range 4).foldl (fun acc t => max acc (estimateUsingCParams (rowAt t level) false)) 0

/-- ZSTD_maxCLevel() (`ZSTD_MAX_CLEVEL`, regenerated from clevels.h: `Gen.maxCLevel`) -/
def maxCLevel : Nat := Gen.maxCLevel.toNat

/-- ZSTD_estimateCCtxSize(L) for L ≥ 1: the largest need over the levels 1..min(L, ZSTD_maxCLevel()) (a level beyond the maximum compresses
like the maximum, and the loop stops there) -/
def estLevel (L : Nat) : Nat :=
  (List.range (min L maxCLevel)).foldl (fun acc k => max acc (estLevelInternal (k + 1))) 0

/-- ZSTD_estimateCStreamSize(L) for L ≥ 1 (unknown-size tier only) -/
def estStreamLevel (L : Nat) : Nat :=
  (List.range (min L maxCLevel)).foldl (fun acc k => max acc (estimateUsingCParams (rowAt 3 (k + 1)) true)) 0

/-! ### domination test used at run time (hypothesis of `Props.C14.usingCParams_covers` / `level_covers`) -/

/-- decidable form of `Estimate.Le` (Lemmas/Estimate.lean): same kind of job, smaller logs / pledged size / buffers, no long-distance matching -/
def leB (p q : RP) : Bool :=
  decide (p.windowLog ≤ q.windowLog) && decide (p.chainLog ≤ q.chainLog) && decide (p.hashLog ≤ q.hashLog) && decide (p.pledged ≤ q.pledged) &&
  decide (p.minMatch = q.minMatch) && decide (p.strategy = q.strategy) && decide (p.useRow = q.useRow) && decide (p.ldm = false) &&
  decide (p.extSeq = q.extSeq) && decide (p.maxBlockSize ≤ q.maxBlockSize) && decide (p.isStatic = q.isStatic) &&
  decide (p.buffIn ≤ q.buffIn) && decide (p.buffOut ≤ q.buffOut)

/-- domination test for jobs WITH long-distance matching: same switch, bucket log and minimum match, hash log not larger, everything else dominated as in `leB` -/
def leLB (p q : RP) : Bool :=
  leB { p with ldm := false } { q with ldm := false } && decide (p.ldm = q.ldm) && decide (p.ldmHashLog ≤ q.ldmHashLog) &&
  decide (p.ldmBucketSizeLog = q.ldmBucketSizeLog) && decide (p.ldmMinMatch = q.ldmMinMatch)

end ZstdVerif.Estimate
