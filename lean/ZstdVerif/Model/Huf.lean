/-
Huffman side of the literals section: HUF_readStats_body (weights, direct or FSE-compressed), the
single-symbol decoding table of HUF_readDTableX1_wksp, 1-stream and 4-stream decoding.
-/
import ZstdVerif.Model.FSE
namespace ZstdVerif.Huf

structure Table where
  log : Nat
  /-- 2^log cells: (symbol, nbBits) -/
  cells : Array (Nat × Nat)
deriving Inhabited

structure Stats where
  weights : Array Nat       -- including the implied last weight
  tableLog : Nat
  used : Nat                -- bytes read from the source
deriving Inhabited

/-- HUF_readStats_body on `src[start, start+srcSize)`; `hufLogMax` = HUF_TABLELOG_MAX (12 in the library) -/
def readStats (src : Bytes) (start srcSize : Nat) (hufLogMax : Nat := Gen.HUF_TABLELOG_MAX) : R Stats := do
  if srcSize = 0 then throw .srcSizeWrong
  let hb := src.u8 start
  let mut ws : Array Nat := #[]
  let mut iSize := hb
  if hb ≥ 128 then
    let oSize := hb - 127
    iSize := (oSize + 1) / 2
    if iSize + 1 > srcSize then throw .srcSizeWrong
    if oSize ≥ 256 then throw .corruption
    for n in [0:oSize] do
      let byte := src.u8 (start + 1 + n / 2)
      ws := ws.push (if n % 2 == 0 then byte >>> 4 else byte &&& 15)
  else
    if iSize + 1 > srcSize then throw .srcSizeWrong
    ws ← FSE.decompressWeights src (start + 1) iSize 255
  let mut total := 0
  let mut rank1 := 0
  for w in ws do
    if w > hufLogMax then throw .corruption
    if w == 1 then rank1 := rank1 + 1
    total := total + ((1 <<< w) >>> 1)
  if total == 0 then throw .corruption
  let tableLog := highbit total + 1
  if tableLog > hufLogMax then throw .corruption
  let rest := (1 <<< tableLog) - total
  let verif := 1 <<< highbit rest
  if verif != rest then throw .corruption
  let last := highbit rest + 1
  if last == 1 then rank1 := rank1 + 1
  if rank1 < 2 || rank1 % 2 == 1 then throw .corruption
  return { weights := ws.push last, tableLog := tableLog, used := iSize + 1 }

/-- HUF_readDTableX1_wksp: weight-w symbols (in symbol order) occupy (1<<w)>>1 consecutive cells, weights ascending -/
def buildTable (st : Stats) : Table := Id.run do
  let size := 1 <<< st.tableLog
  let mut cells : Array (Nat × Nat) := Array.replicate size (0, 0)
  let mut pos := 0
  for w in [1:st.tableLog + 1] do
    let len := (1 <<< w) >>> 1
    let nb := st.tableLog + 1 - w
    for s in [0:st.weights.size] do
      if st.weights[s]! == w then
        for k in [0:len] do
          cells := cells.set! (pos + k) (s, nb)
        pos := pos + len
  return { log := st.tableLog, cells := cells }

/-- HUF_decompress1X: exactly `n` symbols, then the stream must be exactly exhausted -/
def decode1 (t : Table) (src : Bytes) (start len n : Nat) (out : ByteArray) : R ByteArray := do
  let mut r ← match BitR.init src start len with
    | .ok r => pure r
    | .error _ => throw .corruption
  let mut o := out
  for _ in [0:n] do
    let idx := r.peek t.log
    let (sym, nb) := t.cells[idx]!
    r := r.skip nb
    o := o.push (UInt8.ofNat sym)
  if !r.atEnd then throw .corruption
  return o

/-- HUF_decompress4X: 6-byte jump table, four streams, segment size (n+3)/4 -/
def decode4 (t : Table) (src : Bytes) (start len n : Nat) (out : ByteArray) : R ByteArray := do
  if len < 10 then throw .corruption
  if n < 6 then throw .corruption
  let l1 := src.le16 start
  let l2 := src.le16 (start + 2)
  let l3 := src.le16 (start + 4)
  if 6 + l1 + l2 + l3 > len then throw .corruption
  let l4 := len - (6 + l1 + l2 + l3)
  let seg := (n + 3) / 4
  if 3 * seg > n then throw .corruption
  let s1 := start + 6
  let o1 ← decode1 t src s1 l1 seg out
  let o2 ← decode1 t src (s1 + l1) l2 seg o1
  let o3 ← decode1 t src (s1 + l1 + l2) l3 seg o2
  decode1 t src (s1 + l1 + l2 + l3) l4 (n - 3 * seg) o3

end ZstdVerif.Huf
