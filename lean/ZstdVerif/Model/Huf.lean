/-
Huffman side of the literals section: HUF_readStats_body (weights, direct or FSE-compressed), the
single-symbol decoding table of HUF_readDTableX1_wksp, 1-stream and 4-stream decoding.
-/
import ZstdVerif.Model.FSE
namespace ZstdVerif.Huf

structure Table where
  log : Nat
  /-- 2^log cells: (symbol, nbBits) -/
  cells : Array (Nat × Nat)
deriving Inhabited

structure Stats where
  weights : Array Nat       -- including the implied last weight
  tableLog : Nat
  used : Nat                -- bytes read from the source
deriving Inhabited

/-- HUF_readStats_body on `src[start, start+srcSize)`; `hufLogMax` = HUF_TABLELOG_MAX (12 in the library) -/
def readStats (src : Bytes) (start srcSize : Nat) (hufLogMax : Nat := Gen.HUF_TABLELOG_MAX) : R Stats := do
  if srcSize = 0 then throw (.srcSizeWrongAt "Huf:22")
  let hb := src.u8 start
  let mut ws : Array Nat := #[]
  let mut iSize := hb
  if hb ≥ 128 then
    let oSize := hb - 127
    iSize := (oSize + 1) / 2
    if iSize + 1 > srcSize then throw (.srcSizeWrongAt "Huf:29")
    if oSize ≥ 256 then throw (.corruptionAt "Huf:30")
    for n in [0:oSize] do
      let byte := src.u8 (start + 1 + n / 2)
      ws := ws.push (if n % 2 == 0 then byte >>> 4 else byte &&& 15)
  else
    if iSize + 1 > srcSize then throw (.srcSizeWrongAt "Huf:35")
    ws ← FSE.decompressWeights src (start + 1) iSize 255
  let mut total := 0
  let mut rank1 := 0
  for w in ws do
    if w > hufLogMax then throw (.corruptionAt "Huf:40")
    if w == 1 then rank1 := rank1 + 1
    total := total + ((1 <<< w) >>> 1)
  if total == 0 then throw (.corruptionAt "Huf:43")
  let tableLog := highbit total + 1
  if tableLog > hufLogMax then throw (.corruptionAt "Huf:45")
  let rest := (1 <<< tableLog) - total
  let verif := 1 <<< highbit rest
  if verif != rest then throw (.corruptionAt "Huf:48")
  let last := highbit rest + 1
  if last == 1 then rank1 := rank1 + 1
  if rank1 < 2 || rank1 % 2 == 1 then throw (.corruptionAt "Huf:51")
  return { weights := ws.push last, tableLog := tableLog, used := iSize + 1 }

/-- the cells of rank `w` in HUF_readDTableX1_wksp: the symbols of weight `w`, in symbol order, each occupy `(1<<w)>>1` consecutive
cells holding (symbol, nbBits = tableLog + 1 - w) -/
def rankCells (weights : List Nat) (log w : Nat) : List (Nat × Nat) :=
  weights.zipIdx.flatMap fun (x, s) =>
    if x == w then List.replicate ((1 <<< w) >>> 1) (s, log + 1 - w) else []

/-- the cells written by HUF_readDTableX1_wksp, in table order: ranks (weights) 1..tableLog ascending -/
def tableCells (weights : List Nat) (log : Nat) : List (Nat × Nat) :=
  (List.range' 1 log).flatMap (rankCells weights log)

/-- HUF_readDTableX1_wksp: weight-w symbols (in symbol order) occupy (1<<w)>>1 consecutive cells, weights ascending.
The table has exactly `1 << tableLog` cells; for weights accepted by `readStats` (Kraft equality) `tableCells` fills it exactly
(Lemmas/HufRT.lean `tableCells_length`), otherwise missing cells stay (0, 0) and writes beyond the end are dropped, as in the
array-filling loop this definition replaces. -/
def buildTable (st : Stats) : Table :=
  let size := 1 <<< st.tableLog
  let l := tableCells st.weights.toList st.tableLog
  { log := st.tableLog, cells := ((l ++ List.replicate (size - l.length) (0, 0)).take size).toArray }

/-- HUF_decompress1X: exactly `n` symbols, then the stream must be exactly exhausted -/
def decode1 (t : Table) (src : Bytes) (start len n : Nat) (out : ByteArray) (fastPathPossible : Bool := false) : R ByteArray := do
  let mut r ← match BitR.init src start len with
    | .ok r => pure r
    | .error _ => throw (.corruptionAt "Huf:73")
  let mut o := out
  let mut overEarly := false
  for i in [0:n] do
    let idx := r.peek t.log
    let (sym, nb) := t.cells[idx]!
    r := r.skip nb
    if r.over && i + 1 < n then overEarly := true
    o := o.push (UInt8.ofNat sym)
  -- 4-stream literals whose streams are all >= 8 bytes go through HUF_decompress4X?_usingDTable_internal_fast (C loop or asm),
  -- which validates only the produced LENGTH of each stream, not that the bitstream ended exactly
  if fastPathPossible && (r.over || r.left != 0) then throw (.lax "4-stream huffman literals: stream end not validated by the fast decoding loop")
  if overEarly then throw (.corruptionAt "Huf:overread")
  -- an over-read by the LAST symbol only: rejected by the single-symbol decoder, forgiven by HUF_decodeLastSymbolX2
  -- (`if (bitsConsumed > 64) bitsConsumed = 64`)
  if r.over then throw (.lax "last huffman symbol reads past the stream start (accepted by the X2 decoder only)")
  -- leftover bits: the single-symbol decoder rejects; the double-symbol decoder's last-symbol step (HUF_decodeLastSymbolX2)
  -- clamps the consumption of a 2-symbol cell to the end of the stream and so tolerates up to one code length of trailing bits
  if r.left != 0 then
    if r.left ≤ Gen.HUF_TABLELOG_MAX then throw (.lax "huffman stream ends with spare bits (accepted by the X2 decoder only)")
    else throw (.corruptionAt "Huf:leftover")
  return o

/-- HUF_decompress4X: 6-byte jump table, four streams, segment size (n+3)/4 -/
def decode4 (t : Table) (src : Bytes) (start len n : Nat) (out : ByteArray) : R ByteArray := do
  if len < 10 then throw (.corruptionAt "Huf:85")
  if n < 6 then throw (.corruptionAt "Huf:86")
  let l1 := src.le16 start
  let l2 := src.le16 (start + 2)
  let l3 := src.le16 (start + 4)
  if 6 + l1 + l2 + l3 > len then throw (.corruptionAt "Huf:90")
  let l4 := len - (6 + l1 + l2 + l3)
  let seg := (n + 3) / 4
  if 3 * seg > n then throw (.corruptionAt "Huf:93")
  let s1 := start + 6
  let fast := l1 ≥ 8 && l2 ≥ 8 && l3 ≥ 8 && l4 ≥ 8
  let o1 ← decode1 t src s1 l1 seg out fast
  let o2 ← decode1 t src (s1 + l1) l2 seg o1 fast
  let o3 ← decode1 t src (s1 + l1 + l2) l3 seg o2 fast
  decode1 t src (s1 + l1 + l2 + l3) l4 (n - 3 * seg) o3 fast

end ZstdVerif.Huf
