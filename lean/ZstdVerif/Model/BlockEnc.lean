/-
WRITER of a whole COMPRESSED BLOCK and of frames that contain compressed blocks (lib/compress/zstd_compress.c:
ZSTD_entropyCompressSeqStore_internal = literals section, sequences-section header, the RLE table descriptions, the sequence bit
stream; ZSTD_compressBlock_internal / ZSTD_compress_frameChunk = the 3-byte block header in front of it).

The compressor's match finders are an ORACLE here: they hand over a parse of the block (a literals buffer and a list of sequences);
the functions below say which bytes are emitted for that parse once the entropy DECISIONS are taken (literals mode - raw, RLE,
Huffman with a new table, Huffman with the table of the previous block = treeless -, table mode per symbol type).  `Lemmas/BlockRT.lean` proves that the decoder model (`Block.decodeBlock`, `Frame.decompressAll`) maps these bytes back
to the block content for EVERY valid parse (`block_roundtrip`, `frame_roundtrip_compressed`).

Table modes: all four of `symbolEncodingType_e`: `set_basic` (predefined tables), `set_rle`, `set_compressed` (a table described in the
block by FSE_writeNCount, Model/NCountW.lean; the NORMALISED COUNTS are a decision handed to the serializer: FSE_normalizeCount is a
heuristic, not modelled) and `set_repeat` (the table of the previous compressed block that had sequences; the previous decisions are an
extra, optional argument `prev` of the functions below, threaded by `serializeBlocks2` the way the repeat-offset history is).
Core imports only.
-/
import ZstdVerif.Model.LitEnc
import ZstdVerif.Model.SeqEnc
import ZstdVerif.Model.Serialize
import ZstdVerif.Model.NCountW
namespace ZstdVerif.BlockEnc
open ZstdVerif.Gen ZstdVerif.FSE ZstdVerif.SeqEnc ZstdVerif.LitEnc ZstdVerif.Serialize

/-- the symbol-compression mode of one of the three sequence tables (`symbolEncodingType_e`): `set_basic` | `set_rle` with the one
symbol every sequence of the block uses | `set_compressed` with the normalised counts `norm` (one per symbol up to the last one used)
and their table log | `set_repeat`: the table the previous block with sequences used -/
inductive SeqTableChoice where
  | predefined
  | rle (sym : Nat)
  | fse (norm : Array Int) (log : Nat)
  | repeat
deriving Repr, DecidableEq, Inhabited

/-- the value written into the compression-modes byte: set_basic = 0, set_rle = 1, set_compressed = 2, set_repeat = 3 -/
def SeqTableChoice.mode : SeqTableChoice → Nat
  | .predefined => set_basic
  | .rle _ => set_rle
  | .fse _ _ => set_compressed
  | .repeat => set_repeat

/-- ZSTD_buildCTable (zstd_compress_sequences.c), the written part: `set_rle`: FSE_buildCTable_rle, then `*op = codeTable[0]` (one byte);
`set_basic`: FSE_buildCTable_wksp from the default distribution, nothing written; `set_compressed`: (FSE_normalizeCount,) FSE_writeNCount
of the normalised counts; `set_repeat`: `ZSTD_memcpy(nextCTable, prevCTable, prevCTableSize)`, nothing written. -/
def SeqTableChoice.descr : SeqTableChoice → ByteArray
  | .predefined => ByteArray.empty
  | .rle sym => le sym 1
  | .fse norm log => NCountW.writeNCount norm log
  | .repeat => ByteArray.empty

/-- `set_repeat` stands for the (resolved) choice of the previous block -/
def SeqTableChoice.resolve (c prev : SeqTableChoice) : SeqTableChoice :=
  match c with
  | .repeat => prev
  | c => c

/-- ZSTD_buildCTable, the table part, of a RESOLVED choice (`norm` / `log` = the default distribution of the symbol type):
`set_compressed`: FSE_buildCTable_wksp of the normalised counts.  (An unresolved `.repeat` never reaches this function through
`ctLL` / `ctOF` / `ctML` when `prev` is resolved; it is given the default table.) -/
def SeqTableChoice.ctable (norm : List Int) (log : Nat) : SeqTableChoice → CTable
  | .predefined => buildCTable norm.toArray log
  | .rle sym => rleCTable sym
  | .fse n l => buildCTable n l
  | .repeat => buildCTable norm.toArray log

/-- the three decisions of ZSTD_buildSequencesStatistics (`stats.LLtype`, `stats.Offtype`, `stats.MLtype`) -/
structure Tables where
  ll : SeqTableChoice := .predefined
  of : SeqTableChoice := .predefined
  ml : SeqTableChoice := .predefined
deriving Repr, DecidableEq, Inhabited

/-- the three decisions with `set_repeat` replaced by what the previous block (`prev`, resolved) used -/
def Tables.resolve (prev t : Tables) : Tables :=
  { ll := t.ll.resolve prev.ll, of := t.of.resolve prev.of, ml := t.ml.resolve prev.ml }

/-- the Huffman table a later block of the frame may re-use (`prevCBlock->entropy.huf`: `CTable` with
`repeatMode != HUF_repeat_none`): the weights of symbols `0 .. maxSymbolValue` and the table depth -/
abbrev HufTab := Array Nat × Nat

/-- what ZSTD_compressLiterals does with the literals: ZSTD_noCompressLiterals | ZSTD_compressRleLiteralsBlock | Huffman with a new
table whose weights are `ws ++ [last]` (depth `tableLog`), described in the direct 4-bit form (`LitEnc.hufLiterals`) | Huffman with
the table of the previous block with Huffman literals, no tree description (`hType = set_repeat`, `LitEnc.treelessLiterals`) |
Huffman with a new table described the way the whole of HUF_writeCTable_wksp describes it: weights FSE-compressed under the normalised
counts `norm` / `nlog` when that is smaller than the direct form (`LitEnc.hufLiteralsFse`) -/
inductive LitChoice where
  | raw
  | rle
  | huffman (ws : List Nat) (last : Nat) (tableLog : Nat)
  | treeless
  | huffmanFse (ws : List Nat) (last : Nat) (tableLog : Nat) (norm : Array Int) (nlog : Nat)
deriving Repr, DecidableEq, Inhabited

/-- the literals as Huffman symbols -/
def symsOf (lits : ByteArray) : List Nat := lits.data.toList.map UInt8.toNat

/-- ZSTD_compressLiterals: the literals section.  When the Huffman path yields nothing (`HUF_compress*` returns 0 or an error) the
C function falls back to ZSTD_noCompressLiterals; so does the model.  `hp` = the table a `treeless` section re-uses (`prevHuf`; only
looked at for `.treeless`; without one HUF_compress*_repeat cannot re-use anything: the model emits the literals raw). -/
def litSection (c : LitChoice) (lits : ByteArray) (hp : Option HufTab := none) : ByteArray :=
  match c with
  | .raw => rawLiterals lits
  | .rle => rleLiterals lits
  | .huffman ws last log =>
    match hufLiterals (ws.toArray.push last) log (symsOf lits) with
    | some sec => sec
    | none => rawLiterals lits
  | .treeless =>
    match hp with
    | some (w, log) =>
      match treelessLiterals w log (symsOf lits) with
      | some sec => sec
      | none => rawLiterals lits
    | none => rawLiterals lits
  | .huffmanFse ws last log norm nlog =>
    match hufLiteralsFse (ws.toArray.push last) log norm nlog (symsOf lits) with
    | some sec => sec
    | none => rawLiterals lits

/-- the Huffman table the NEXT block may re-use (`nextEntropy->huf` after ZSTD_compressLiterals): the function starts with
`ZSTD_memcpy(nextHuf, prevHuf, sizeof(*prevHuf))`; only the path "new table, Huffman output kept" leaves a new table there
(`nextHuf->repeatMode = HUF_repeat_check`); raw and RLE literals, the fallbacks to them (which copy `prevHuf` again) and a re-used
table leave the previous one.  `none` = no block of the frame has written a table yet. -/
def nextHuf (hp : Option HufTab) (c : LitChoice) (lits : ByteArray) : Option HufTab :=
  match c with
  | .huffman ws last log =>
    if (hufLiterals (ws.toArray.push last) log (symsOf lits)).isSome then some (ws.toArray.push last, log) else hp
  | .huffmanFse ws last log norm nlog =>
    if (hufLiteralsFse (ws.toArray.push last) log norm nlog (symsOf lits)).isSome then some (ws.toArray.push last, log) else hp
  | _ => hp

/-- ZSTD_entropyCompressSeqStore_internal, "Sequences Header":
  `if (nbSeq < 128) *op++ = (BYTE)nbSeq;`
  `else if (nbSeq < LONGNBSEQ) { op[0] = (BYTE)((nbSeq>>8) + 0x80); op[1] = (BYTE)nbSeq; op+=2; }`
  `else { op[0]=0xFF; MEM_writeLE16(op+1, (U16)(nbSeq - LONGNBSEQ)); op+=3; }` -/
def nbSeqHeader (nbSeq : Nat) : ByteArray :=
  if nbSeq < 128 then le nbSeq 1
  else if nbSeq < LONGNBSEQ then le ((nbSeq >>> 8) + 0x80) 1 ++ le nbSeq 1
  else le 0xFF 1 ++ le (nbSeq - LONGNBSEQ) 2

/-- `*seqHead = (BYTE)((stats.LLtype<<6) + (stats.Offtype<<4) + (stats.MLtype<<2))` -/
def seqHead (t : Tables) : Nat := (t.ll.mode <<< 6) + (t.of.mode <<< 4) + (t.ml.mode <<< 2)

def ctLL (t : Tables) (prev : Tables := {}) : CTable := (t.ll.resolve prev.ll).ctable LL_defaultNorm LL_DEFAULTNORMLOG
def ctOF (t : Tables) (prev : Tables := {}) : CTable := (t.of.resolve prev.of).ctable OF_defaultNorm OF_DEFAULTNORMLOG
def ctML (t : Tables) (prev : Tables := {}) : CTable := (t.ml.resolve prev.ml).ctable ML_defaultNorm ML_DEFAULTNORMLOG

/-- ZSTD_entropyCompressSeqStore_internal behind the literals: the nbSeq header; for `nbSeq == 0` nothing else (`return op - ostart`);
otherwise the modes byte, the table descriptions in the order LL, OF, ML (ZSTD_buildSequencesStatistics; one byte per RLE table, the
FSE_writeNCount bytes per described table), and the bit stream of ZSTD_encodeSequences.  `prev` = the resolved decisions of the previous
block with sequences (`prevEntropy->fse`); only looked at for `set_repeat`. -/
def seqSection (t : Tables) (seqs : List SeqIn) (prev : Tables := {}) : ByteArray :=
  if seqs.isEmpty then nbSeqHeader 0
  else nbSeqHeader seqs.length ++ le (seqHead t) 1 ++ t.ll.descr ++ t.of.descr ++ t.ml.descr ++
    encodeSeqBytes (ctLL t prev) (ctOF t prev) (ctML t prev) seqs

/-- ZSTD_entropyCompressSeqStore_internal: the body of a compressed block = literals section ++ sequences section.
(`dstCapacity`, and the return value 0 "not compressible" that makes the caller emit a raw block, are decisions: not modelled.) -/
def serializeBlockBody (c : LitChoice) (lits : ByteArray) (t : Tables) (seqs : List SeqIn) (prev : Tables := {})
    (hp : Option HufTab := none) : ByteArray :=
  litSection c lits hp ++ seqSection t seqs prev

/-- the tables the NEXT block may repeat (`nextEntropy->fse` after ZSTD_entropyCompressSeqStore_internal): a block without sequences
returns early after `ZSTD_memcpy(&nextEntropy->fse, &prevEntropy->fse, ..)` and leaves them as they were; `none` = no block with
sequences yet (the decoder's `fseEntropy == 0`: `set_repeat` is not available) -/
def nextTables (prev : Option Tables) (t : Tables) (seqs : List SeqIn) : Option Tables :=
  if seqs.isEmpty then prev else some (Tables.resolve (prev.getD {}) t)

/-! ### from the match finder's view (raw offsets) to the seqStore (offBase), block after block -/

/-- what the match finder found for one sequence: literal length, `matchLength - MINMATCH`, the match distance -/
structure RawSeq where
  litLength : Nat
  mlBase : Nat
  rawOffset : Nat
deriving DecidableEq, Repr, Inhabited

/-- the seqStore entries for a list of raw sequences along the encoder's repeat-offset history:
`offBase = ZSTD_finalizeOffBase(rawOffset, rep, ll0)`, then `ZSTD_updateRep(rep, offBase, ll0)`, `ll0 = (litLength == 0)`;
returns the entries and the history after the block (ZSTD_blockState_confirmRepcodesAndEntropyTables keeps it for the next block).
Same function as `SeqRT.storeAll` (Lemmas/SeqRT.lean), at model level so that the driver can run it. -/
def storeAll (rep : Rep.R) : List RawSeq → List SeqIn × Rep.R
  | [] => ([], rep)
  | q :: qs =>
    let ob := Rep.finalizeOffBase q.rawOffset rep (q.litLength == 0)
    let r := storeAll (Rep.updateRep rep ob (q.litLength == 0)) qs
    ({ litLength := q.litLength, mlBase := q.mlBase, offBase := ob } :: r.1, r.2)

/-- number of content bytes a parse stands for: all literals plus all match lengths -/
def parseLen (lits : ByteArray) (raws : List RawSeq) : Nat := lits.size + (raws.map (fun q => q.mlBase + 3)).sum

/-- how the serializer encodes the next stretch of the input: `Serialize.BlockChoice` plus compressed blocks -/
inductive BlockChoice2 where
  /-- ZSTD_noCompressBlock on the next `len` bytes -/
  | raw (len : Nat)
  /-- ZSTD_rleCompressBlock: the next `count` bytes, all equal to `b` -/
  | rle (b : UInt8) (count : Nat)
  /-- a compressed block for the next `parseLen lits raws` bytes, parsed by the match finder as `(lits, raws)` -/
  | compressed (c : LitChoice) (t : Tables) (lits : ByteArray) (raws : List RawSeq)
deriving Inhabited

def BlockChoice2.len : BlockChoice2 → Nat
  | .raw n => n
  | .rle _ n => n
  | .compressed _ _ lits raws => parseLen lits raws

/-- bt_compressed = 2 -/
def bt_compressed : Nat := 2

/-- ZSTD_compress_frameChunk around ZSTD_compressBlock_internal: `cBlockHeader = lastBlock + (bt_compressed << 1) + (cSize << 3);
MEM_writeLE24(op, cBlockHeader)` in front of the body -/
def compressedBlock (last : Bool) (body : ByteArray) : ByteArray := blockHeader24 last bt_compressed body.size ++ body

/-- `repStartValue` (zstd_internal.h) -/
def repStart : Rep.R := ⟨1, 4, 8⟩

/-- the block loop of ZSTD_compress_frameChunk for a given list of block decisions; `rep` = the encoder's repeat-offset history
(`prevCBlock->rep`), advanced by compressed blocks only: a block emitted raw or RLE leaves the history as it was (the confirm step is
skipped), exactly as the decoder does not touch its history on such blocks.  `prev` = the sequence tables a `set_repeat` refers to
(`prevCBlock->entropy.fse`), threaded the same way (`nextTables`); `hp` = the Huffman table treeless literals re-use
(`prevCBlock->entropy.huf`), threaded the same way (`nextHuf`). -/
def serializeBlocks2 (x : ByteArray) (bs : List BlockChoice2) (pos : Nat) (rep : Rep.R) (prev : Option Tables := none)
    (hp : Option HufTab := none) : ByteArray :=
  match bs with
  | [] => ByteArray.empty
  | .raw n :: rest => noCompressBlock rest.isEmpty x pos n ++ serializeBlocks2 x rest (pos + n) rep prev hp
  | .rle b n :: rest => rleCompressBlock rest.isEmpty b n ++ serializeBlocks2 x rest (pos + n) rep prev hp
  | .compressed c t lits raws :: rest =>
    compressedBlock rest.isEmpty (serializeBlockBody c lits t (storeAll rep raws).1 (prev.getD {}) hp) ++
      serializeBlocks2 x rest (pos + parseLen lits raws) (storeAll rep raws).2 (nextTables prev t (storeAll rep raws).1)
        (nextHuf hp c lits)

/-- a whole frame: ZSTD_writeFrameHeader, the blocks, ZSTD_writeEpilogue (`Serialize.epilogue`) -/
def serializeFrame2 (a : HeaderW.HArgs) (blocks : List BlockChoice2) (x : ByteArray) : ByteArray :=
  ofList (HeaderW.writeHeader a) ++ (serializeBlocks2 x blocks 0 repStart ++ epilogue a blocks.isEmpty x)

end ZstdVerif.BlockEnc
