/-
Model of lib/common/pool.c as a labelled transition system at the granularity of the mutex's
critical sections.  Threads: workers (POOL_thread) and clients (callers of POOL_add / POOL_tryAdd /
POOL_joinJobs / POOL_resize / POOL_free); a job's body may itself post work (add / tryAdd).
The ring buffer (queueHead / queueTail / queueEmpty) is abstracted to a FIFO list `q`; `Ring` below
models the ring itself and `ring_refines_fifo` (Props/C12) connects the two.

Condition variables: a waiting thread has a `woken` flag; `broadcast` sets it for every waiter of the
condition, `signal` for ONE waiter chosen by the step label (any choice is a legal pthread behaviour);
a waiter may also wake spuriously (label `.spurious`).  Safety theorems quantify over all labels;
liveness statements exclude spurious wake-ups.
-/
namespace ZstdVerif.Pool

abbrev Job := Nat

/-- what a job body may do -/
inductive JOp where
  | add (j : Job) | tryAdd (j : Job)
deriving DecidableEq, Repr

/-- client operations -/
inductive COp where
  | add (j : Job) | tryAdd (j : Job) | joinJobs | resize (n : Nat) | free
deriving DecidableEq, Repr

inductive WPc where
  | idle                                  -- at the top of the `for(;;)`/`while` : will lock (or already holds it after a wait) and test
  | waitPop (woken : Bool)                -- inside cond_wait(queuePopCond)
  | run (j : Job) (rest : List JOp)       -- executing job j outside the lock; `rest` = body still to execute
  | runWaitPush (j : Job) (rest : List JOp) (woken : Bool)  -- job body blocked in POOL_add on queuePushCond (head of rest is the add)
  | exited
deriving DecidableEq, Repr

inductive CPc where
  | ready
  | waitPush (woken : Bool)               -- POOL_add or POOL_joinJobs blocked on queuePushCond (op = head of prog)
  | freeBcastPush | freeBcastPop | joining  -- POOL_join after `shutdown = 1; unlock`
  | done
deriving DecidableEq, Repr

structure Client where
  pc : CPc
  prog : List COp
deriving DecidableEq, Repr

structure St where
  size : Nat              -- ctx->queueSize (= requested queueSize + 1)
  q : List Job            -- queued jobs, oldest first
  busy : Nat              -- numThreadsBusy
  limit : Nat             -- threadLimit
  shutdown : Bool
  ws : List WPc           -- workers; ws.length = threadCapacity
  cs : List Client
  -- ghost history
  accepted : List Job     -- every job ever enqueued, in enqueue order
  started : List Job      -- every job ever popped, in pop order
  finished : List Job     -- every job whose function returned, in completion order
  tryRefused : List Job   -- tryAdd returned 0
  tryOk : List Job        -- tryAdd returned 1
deriving DecidableEq, Repr

def init (threads queueSize : Nat) (progs : List (List COp)) : St :=
  { size := queueSize + 1, q := [], busy := 0, limit := threads, shutdown := false,
    ws := List.replicate threads .idle, cs := progs.map (fun p => ⟨.ready, p⟩),
    accepted := [], started := [], finished := [], tryRefused := [], tryOk := [] }

/-- `isQueueFull` -/
def isFull (s : St) : Bool :=
  if s.size > 1 then s.q.length + 1 == s.size
  else (s.busy == s.limit) || !s.q.isEmpty

/-- condition-variable actions performed by a critical section (observable in the trace) -/
inductive Act where
  | signalPop | bcastPop | bcastPush | waitPop | waitPush
deriving DecidableEq, Repr

/-! wake-up helpers -/
def wakeAllPushW : WPc → WPc
  | .runWaitPush j r _ => .runWaitPush j r true
  | w => w
def wakeAllPushC (c : Client) : Client :=
  match c.pc with
  | .waitPush _ => { c with pc := .waitPush true }
  | _ => c
def wakeAllPopW : WPc → WPc
  | .waitPop _ => .waitPop true
  | w => w

def bcastPush (s : St) : St := { s with ws := s.ws.map wakeAllPushW, cs := s.cs.map wakeAllPushC }
def bcastPop (s : St) : St := { s with ws := s.ws.map wakeAllPopW }

/-- `cond_signal(queuePopCond)`: wake the `k`-th worker if it is blocked there (the label carries the choice);
if nobody is blocked the signal is lost -/
def signalPop (s : St) (k : Nat) : St :=
  match s.ws[k]? with
  | some (.waitPop false) => { s with ws := s.ws.set k (.waitPop true) }
  | _ => s

/-- a legal choice for `signal`: the chosen worker is blocked, or nobody is -/
def signalChoiceOk (s : St) (k : Nat) : Bool :=
  (s.ws[k]? == some (.waitPop false)) || s.ws.all (fun w => w != .waitPop false)

/-- `POOL_add_internal` -/
def addInternal (s : St) (j : Job) (k : Nat) : St × List Act :=
  if s.shutdown then (s, [])
  else (signalPop { s with q := s.q ++ [j], accepted := s.accepted ++ [j] } k, [.signalPop])

inductive Label where
  | worker (i : Nat) (sig : Nat)       -- worker i executes its next critical section / job-body op (sig = signal choice)
  | client (i : Nat) (sig : Nat)
  | spuriousW (i : Nat) | spuriousC (i : Nat)
deriving DecidableEq, Repr

/-- one critical section of worker `i` -/
def stepWorker (body : Job → List JOp) (s : St) (i : Nat) (sig : Nat) : Option (St × List Act) :=
  match s.ws[i]? with
  | none => none
  | some .exited => none
  | some (.waitPop false) => none
  | some (.runWaitPush _ _ false) => none
  | some .idle | some (.waitPop true) =>
      if s.q.isEmpty || decide (s.busy ≥ s.limit) then
        if s.shutdown then some ({ s with ws := s.ws.set i .exited }, [])
        else some ({ s with ws := s.ws.set i (.waitPop false) }, [.waitPop])
      else
        match s.q with
        | [] => none
        | j :: rest =>
          some (bcastPush { s with q := rest, busy := s.busy + 1, started := s.started ++ [j],
                                   ws := s.ws.set i (.run j (body j)) }, [.bcastPush])
  | some (.run j []) =>
      -- job function returned: lock; numThreadsBusy--; broadcast(push); unlock
      some (bcastPush { s with busy := s.busy - 1, finished := s.finished ++ [j], ws := s.ws.set i .idle }, [.bcastPush])
  | some (.run j (.add a :: rest)) | some (.runWaitPush j (.add a :: rest) true) =>
      if isFull s && !s.shutdown then some ({ s with ws := s.ws.set i (.runWaitPush j (.add a :: rest) false) }, [.waitPush])
      else
        let (s', acts) := addInternal s a sig
        some ({ s' with ws := s'.ws.set i (.run j rest) }, acts)
  | some (.run j (.tryAdd a :: rest)) =>
      -- POOL_tryAdd: refused when the queue is full OR the pool is shutting down (the job would be dropped: not a success)
      if isFull s || s.shutdown then some ({ s with ws := s.ws.set i (.run j rest), tryRefused := s.tryRefused ++ [a] }, [])
      else
        let (s', acts) := addInternal s a sig
        some ({ s' with ws := s'.ws.set i (.run j rest), tryOk := s'.tryOk ++ [a] }, acts)
  | some (.runWaitPush _ [] true) | some (.runWaitPush _ (.tryAdd _ :: _) true) => none

def setClient (s : St) (i : Nat) (c : Client) : St := { s with cs := s.cs.set i c }

/-- `POOL_resize_internal` + broadcast(pop) + broadcast(push) -/
def resize (s : St) (n : Nat) : St :=
  let s1 :=
    if n ≤ s.ws.length then (if n = 0 then s else { s with limit := n })
    else { s with ws := s.ws ++ List.replicate (n - s.ws.length) .idle, limit := n }
  bcastPush (bcastPop s1)

/-- one critical section of client `i` -/
def stepClient (s : St) (i : Nat) (sig : Nat) : Option (St × List Act) :=
  match s.cs[i]? with
  | none => none
  | some c =>
    match c.pc, c.prog with
    | .done, _ => none
    | .waitPush false, _ => none
    | .ready, [] => some (setClient s i { c with pc := .done }, [])
    | .ready, .add j :: rest | .waitPush true, .add j :: rest =>
        if isFull s && !s.shutdown then some (setClient s i { c with pc := .waitPush false }, [.waitPush])
        else
          let (s', acts) := addInternal s j sig
          some (setClient s' i ⟨.ready, rest⟩, acts)
    | .ready, .tryAdd j :: rest =>
        if isFull s || s.shutdown then some (setClient { s with tryRefused := s.tryRefused ++ [j] } i ⟨.ready, rest⟩, [])
        else
          let (s', acts) := addInternal s j sig
          some (setClient { s' with tryOk := s'.tryOk ++ [j] } i ⟨.ready, rest⟩, acts)
    | .ready, .joinJobs :: rest | .waitPush true, .joinJobs :: rest =>
        if !s.q.isEmpty || decide (s.busy > 0) then some (setClient s i { c with pc := .waitPush false }, [.waitPush])
        else some (setClient s i ⟨.ready, rest⟩, [])
    | .ready, .resize n :: rest => some (setClient (resize s n) i ⟨.ready, rest⟩, [.bcastPop, .bcastPush])
    | .ready, .free :: _ => some (setClient { s with shutdown := true } i { c with pc := .freeBcastPush }, [])
    | .freeBcastPush, _ => some (setClient (bcastPush s) i { c with pc := .freeBcastPop }, [.bcastPush])
    | .freeBcastPop, _ => some (setClient (bcastPop s) i { c with pc := .joining }, [.bcastPop])
    | .joining, _ => if s.ws.all (· == .exited) then some (setClient s i ⟨.done, []⟩, []) else none
    | .waitPush true, _ => none

def spuriousW (s : St) (i : Nat) : Option St :=
  match s.ws[i]? with
  | some (.waitPop false) => some { s with ws := s.ws.set i (.waitPop true) }
  | some (.runWaitPush j r false) => some { s with ws := s.ws.set i (.runWaitPush j r true) }
  | _ => none

def spuriousC (s : St) (i : Nat) : Option St :=
  match s.cs[i]? with
  | some ⟨.waitPush false, p⟩ => some (setClient s i ⟨.waitPush true, p⟩)
  | _ => none

/-- the transition relation: one critical section of one thread (or one spurious wake-up) -/
def step (body : Job → List JOp) (s : St) : Label → Option (St × List Act)
  | .worker i sig => if signalChoiceOk s sig then stepWorker body s i sig else none
  | .client i sig => if signalChoiceOk s sig then stepClient s i sig else none
  | .spuriousW i => (spuriousW s i).map (·, [])
  | .spuriousC i => (spuriousC s i).map (·, [])

/-- reachability by any schedule (any label sequence) -/
inductive Reachable (body : Job → List JOp) (s0 : St) : St → Prop where
  | refl : Reachable body s0 s0
  | step {s s' : St} {l : Label} {a : List Act} : Reachable body s0 s → step body s l = some (s', a) → Reachable body s0 s'

def runLabels (body : Job → List JOp) (s : St) : List Label → Option St
  | [] => some s
  | l :: ls => match step body s l with
    | some (s', _) => runLabels body s' ls
    | none => none

/-! ### the ring buffer itself (queueHead / queueTail / queueEmpty over `queueSize` slots) -/

structure Ring where
  size : Nat
  head : Nat
  tail : Nat
  empty : Bool
  slots : List Job
deriving DecidableEq, Repr

def Ring.init (size : Nat) : Ring := { size := size, head := 0, tail := 0, empty := true, slots := List.replicate size 0 }

/-- the push of `POOL_add_internal` -/
def Ring.push (r : Ring) (j : Job) : Ring :=
  { r with empty := false, slots := r.slots.set r.tail j, tail := (r.tail + 1) % r.size }

/-- the pop of `POOL_thread` -/
def Ring.pop (r : Ring) : Job × Ring :=
  let j := r.slots.getD r.head 0
  let h := (r.head + 1) % r.size
  (j, { r with head := h, empty := (h == r.tail) })

/-- number of queued jobs the ring holds -/
def Ring.count (r : Ring) : Nat :=
  if r.empty then 0 else if r.head < r.tail then r.tail - r.head else r.size - r.head + r.tail

/-- the FIFO contents, oldest first -/
def Ring.toList (r : Ring) : List Job :=
  (List.range r.count).map (fun k => r.slots.getD ((r.head + k) % r.size) 0)

end ZstdVerif.Pool
