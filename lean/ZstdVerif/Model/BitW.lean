/-
Forward bit writer (lib/common/bitstream.h: BIT_initCStream / BIT_addBits / BIT_addBitsFast / BIT_flushBits /
BIT_flushBitsFast / BIT_closeCStream).  The C writer keeps a 64-bit local register `bitContainer`, the number of
bits `bitPos` currently stored in it, and a destination pointer; `flush` stores the whole register little-endian
at `ptr`, advances `ptr` by the `bitPos >> 3` complete bytes and keeps the `bitPos & 7` remaining bits.

What is NOT modelled (and why it is sound to leave out):
* the register is an unbounded `Nat`: every C caller keeps `bitPos + nbBits < 64` (the `assert`s in BIT_addBits /
  BIT_addBitsFast / BIT_flushBits say so: "does not check for register overflow"), under that discipline no bit is
  ever shifted out of the 64-bit register, so `Nat` and `size_t` agree;
* destination capacity (`endPtr` clamp in BIT_flushBits, `return 0` in BIT_closeCStream): the model describes the
  stream that is produced when the destination is large enough;
* the bytes which MEM_writeLEST stores beyond `ptr + nbBytes`: they are overwritten by the next flush or lie
  beyond the size returned by BIT_closeCStream, except the single incomplete last byte that `close` accounts for.
-/
import ZstdVerif.Model.Bytes
namespace ZstdVerif

structure BitW where
  /-- bytes in `[startPtr, ptr)` : flushed so far -/
  out : Bytes
  /-- C: bitContainer -/
  acc : Nat
  /-- C: bitPos, number of bits held in `acc` -/
  bitPos : Nat
deriving Inhabited

namespace BitW

/-- BIT_initCStream (bitstream.h): empty register, `ptr = startPtr` -/
def init : BitW := { out := ByteArray.empty, acc := 0, bitPos := 0 }

/-- BIT_addBits (bitstream.h): `bitContainer |= BIT_getLowerBits(value, nbBits) << bitPos; bitPos += nbBits`
(BIT_getLowerBits is `value & BIT_mask[nbBits]`, i.e. `value & ((1 << nbBits) - 1)`) -/
@[inline] def addBits (w : BitW) (value nbBits : Nat) : BitW :=
  { w with acc := w.acc ||| ((value &&& ((1 <<< nbBits) - 1)) <<< w.bitPos), bitPos := w.bitPos + nbBits }

/-- BIT_addBitsFast (bitstream.h): `bitContainer |= value << bitPos; bitPos += nbBits`; the C function requires a
clean value (`assert((value>>nbBits) == 0)`), nothing is masked -/
@[inline] def addBitsFast (w : BitW) (value nbBits : Nat) : BitW :=
  { w with acc := w.acc ||| (value <<< w.bitPos), bitPos := w.bitPos + nbBits }

/-- the `k` low bytes of `v`, least significant first, appended to `out` (the part of MEM_writeLEST(ptr, v), mem.h,
that stays below the advanced `ptr`) -/
def pushLE (out : Bytes) (v : Nat) : Nat → Bytes
  | 0 => out
  | k + 1 => pushLE (out.push (UInt8.ofNat v)) (v >>> 8) k

/-- BIT_flushBits / BIT_flushBitsFast (bitstream.h): `nbBytes = bitPos >> 3; MEM_writeLEST(ptr, bitContainer);
ptr += nbBytes; bitPos &= 7; bitContainer >>= nbBytes*8` (the two C variants differ only by the `endPtr` clamp) -/
def flush (w : BitW) : BitW :=
  let nbBytes := w.bitPos >>> 3
  { out := pushLE w.out w.acc nbBytes, acc := w.acc >>> (nbBytes * 8), bitPos := w.bitPos &&& 7 }

/-- BIT_closeCStream (bitstream.h): `BIT_addBitsFast(bitC, 1, 1)` (end mark), `BIT_flushBits`, size =
`(ptr - startPtr) + (bitPos > 0)`: when bits remain, the low byte of the register, which the flush has stored at
`ptr`, belongs to the stream -/
def close (w : BitW) : Bytes :=
  let w := (w.addBitsFast 1 1).flush
  if w.bitPos > 0 then w.out.push (UInt8.ofNat w.acc) else w.out

/-- canonical use: every field `(value, nbBits)` in order, a flush after each one, then close -/
def ofFields (fs : List (Nat × Nat)) : Bytes :=
  (fs.foldl (fun w f => (w.addBits f.1 f.2).flush) init).close

/-- one step of an arbitrary writer schedule -/
inductive Op where
  | add (value nbBits : Nat)
  | flush
deriving Repr, Inhabited

def step (w : BitW) : Op → BitW
  | .add v n => w.addBits v n
  | .flush => w.flush

/-- run a schedule from the initial state and close -/
def run (ops : List Op) : Bytes := (ops.foldl step init).close

/-- the `add` fields of a schedule, in order -/
def Op.fields : List Op → List (Nat × Nat)
  | [] => []
  | .add v n :: ops => (v, n) :: Op.fields ops
  | .flush :: ops => Op.fields ops

end BitW
end ZstdVerif
