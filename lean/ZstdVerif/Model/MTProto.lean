/-
The producer / consumer protocol of multithreaded compression (zstdmt_compress.c) as a labelled transition system at the
granularity of its critical sections.  Caller-side: the job ring (doneJobID / nextJobID / jobIDMask) and in-order flushing
(ZSTDMT_createCompressionJob, ZSTDMT_flushProduced).  Worker-side: the serial section ordered by job id
(ZSTDMT_serialState_update / _ensureFinished), publication of consumed / cSize under the job mutex (ZSTDMT_compressionJob).
What a job's bytes ARE is not modelled (oracle); the model tracks who may change which counter when.
-/
namespace ZstdVerif.MTProto

structure Job where
  id : Nat
  srcSize : Nat
  consumed : Nat := 0
  cSize : Nat := 0
  flushed : Nat := 0
  serialDone : Bool := false
  /-- the worker reported an error (cSize is then an error code: nothing more is flushed) -/
  failed : Bool := false
  /-- written by the caller itself (the last empty block): no worker, no serial turn -/
  inline : Bool := false
  /-- the frame checksum still has to be appended to this (last) job's output -/
  ck : Bool := false
deriving Repr, DecidableEq, Inhabited

structure St where
  /-- ring size - 1 -/
  mask : Nat
  done : Nat := 0
  next : Nat := 0
  serialNext : Nat := 0
  /-- live jobs, oldest first: exactly the ids done .. next-1 -/
  jobs : List Job := []
  /-- flush log: (job id, bytes) in the order the caller handed them out -/
  out : List (Nat × Nat) := []
  /-- order in which jobs went through the serial section -/
  serialLog : List Nat := []
deriving Repr, DecidableEq

inductive Ev where
  /-- caller: ZSTDMT_createCompressionJob posts job `next` -/
  | post (srcSize : Nat) (ck : Bool)
  /-- caller: the last empty block, written without a worker (ZSTDMT_writeLastEmptyBlock) -/
  | inline (cSize : Nat) (ck : Bool)
  /-- caller: appends the 4-byte frame checksum to the completed last job -/
  | cksum
  /-- caller: POOL_tryAdd refused the job just prepared (no worker available): it stays unposted -/
  | unpost
  /-- worker of job j leaves the serial section (serial.nextJobID = j → j+1); `wakeAll`: the hand-over wakes every waiter of the one
  condition variable all later jobs wait on (broadcast) rather than one of them (signal) -/
  | serial (j : Nat) (wakeAll : Bool)
  /-- worker of job j publishes progress under the job mutex: new absolute values -/
  | produce (j consumed cSize : Nat)
  /-- worker of job j reports an error -/
  | fail (j : Nat)
  /-- caller copies `bytes` more of job `done` to the output -/
  | flush (bytes : Nat)
  /-- caller: job `done` is entirely consumed and flushed -/
  | retire
deriving Repr, DecidableEq

def findJob (s : St) (j : Nat) : Option Job := s.jobs.find? (·.id == j)
def updJob (s : St) (j : Nat) (f : Job → Job) : St := { s with jobs := s.jobs.map (fun x => if x.id == j then f x else x) }

/-- one step; `none` = the event is not allowed in this state -/
def step (s : St) : Ev → Option St
  | .post n ck =>
    if s.next ≤ s.done + s.mask then some { s with next := s.next + 1, jobs := s.jobs ++ [{ id := s.next, srcSize := n, ck := ck }] } else none
  | .inline z ck =>
    if s.next ≤ s.done + s.mask then some { s with next := s.next + 1, jobs := s.jobs ++ [{ id := s.next, srcSize := 0, cSize := z, inline := true, ck := ck }] } else none
  | .cksum =>
    match s.jobs.head? with
    | some x => if x.id = s.done ∧ x.ck ∧ x.consumed = x.srcSize ∧ !x.failed then some (updJob s x.id (fun y => { y with cSize := y.cSize + 4, ck := false })) else none
    | none => none
  | .unpost =>
    match s.jobs.getLast? with
    | some j => if j.id + 1 = s.next ∧ j.consumed = 0 ∧ j.cSize = 0 ∧ !j.serialDone ∧ !j.inline ∧ s.done < s.next then some { s with next := s.next - 1, jobs := s.jobs.dropLast } else none
    | none => none
  | .serial j wakeAll =>
    match findJob s j with
    -- a single wake-up is only enough when at most one later job can be waiting for its turn
    | some x => if j = s.serialNext ∧ !x.serialDone ∧ !x.inline ∧ (wakeAll ∨ (s.jobs.filter (fun y => decide (j < y.id) && !y.serialDone && !y.inline)).length ≤ 1) then some { (updJob s j (fun y => { y with serialDone := true })) with serialNext := j + 1, serialLog := s.serialLog ++ [j] } else none
    | none => none
  | .produce j c z =>
    match findJob s j with
    | some x => if x.serialDone ∧ !x.failed ∧ !x.inline ∧ x.consumed ≤ c ∧ c ≤ x.srcSize ∧ x.cSize ≤ z then some (updJob s j (fun y => { y with consumed := c, cSize := z })) else none
    | none => none
  | .fail j =>
    match findJob s j with
    | some x => if !x.failed ∧ !x.inline then
        -- an erroring job passes its serial turn on (ZSTDMT_serialState_ensureFinished) and is marked fully consumed
        let s1 := updJob s j (fun y => { y with failed := true, consumed := y.srcSize, serialDone := true })
        some (if s.serialNext ≤ j then { s1 with serialNext := j + 1 } else s1)
      else none
    | none => none
  | .flush b =>
    match s.jobs.head? with
    | some x => if x.id = s.done ∧ !x.failed ∧ 0 < b ∧ x.flushed + b ≤ x.cSize then some { (updJob s x.id (fun y => { y with flushed := y.flushed + b })) with out := s.out ++ [(x.id, b)] } else none
    | none => none
  | .retire =>
    match s.jobs with
    | x :: rest => if x.id = s.done ∧ (x.serialDone ∨ x.inline) ∧ !x.ck ∧ x.consumed = x.srcSize ∧ x.flushed = x.cSize ∧ !x.failed then some { s with done := s.done + 1, jobs := rest } else none
    | [] => none

def run (s : St) : List Ev → Option St
  | [] => some s
  | e :: es => match step s e with
    | some s' => run s' es
    | none => none

/-- index of the first event that is not allowed (for the replay report) -/
def firstBad (s : St) : List Ev → Nat → Option (Nat × St)
  | [], _ => none
  | e :: es, k => match step s e with
    | some s' => firstBad s' es (k + 1)
    | none => some (k, s)

end ZstdVerif.MTProto
