/-
Sequence EXECUTION (zstd_decompress_block.c: ZSTD_execSequence and the tail of ZSTD_decompressSequences_body), separated
from sequence DECODING so that it can be reasoned about on its own (Lemmas/ExecRT.lean):

  copyMatch   the match copy of ZSTD_execSequence (byte by byte, so that overlapping matches replicate; a distance larger
              than what the current frame has produced reaches into the dictionary / external segment)
  step        ZSTD_execSequence for one sequence: the three checks, the literal run, the match
  run         the sequence loop of ZSTD_decompressSequences_body, the end-of-bitstream verdict, the last literal segment

Pure, total, core imports only (ZstdVerif.Model.Bytes has no imports of its own: it supplies `Bytes`, `Err`, `R`).
-/
import ZstdVerif.Model.Bytes
namespace ZstdVerif.Exec

/-- one decoded sequence (`seq_t` of zstd_decompress_block.c plus the offset code as it was read) -/
structure Seq where
  ll : Nat
  ml : Nat
  offset : Nat          -- actual match distance
  ofValue : Nat         -- offBase-style value as coded (offset code semantics before repcode resolution)
deriving Repr, Inhabited, DecidableEq

/-- output under construction: `out` holds everything regenerated so far (all frames), `frameStart` the
offset where the current frame's content begins, `cap` the destination capacity (counted from offset 0 of `out`) -/
structure Out where
  out : ByteArray
  frameStart : Nat
  cap : Nat

/-- the match copy of ZSTD_execSequence: `ml` bytes at distance `off` behind the write position, one byte at a time (an
overlapping match, `off < ml`, therefore replicates its own output: ZSTD_overlapCopy8 / ZSTD_wildcopy with
ZSTD_overlap_src_before_dst); when `off` exceeds what the current frame has produced (`pos`), the byte comes from the end of the
dictionary (`match = dictEnd - (prefixStart - match)`).  Structural recursion on `ml`, tail recursive, `push` on an owned array. -/
def copyMatch (dict : Bytes) (o : ByteArray) (frameStart off : Nat) : Nat → ByteArray
  | 0 => o
  | ml + 1 =>
    let pos := o.size - frameStart
    if off ≤ pos then
      copyMatch dict (o.push (o[o.size - off]!)) frameStart off ml
    else
      copyMatch dict (o.push (dict[dict.size - (off - pos)]!)) frameStart off ml

/-- ZSTD_execSequence (and ZSTD_execSequenceEnd) on the output so far `out` with `litPos` literal bytes already consumed, in the order
of the C checks: `sequenceLength > oend - op` → dstSize_tooSmall; `litLength > litLimit - *litPtr` → corruption_detected;
`offset > oLitEnd - virtualStart` → corruption_detected; then the literal run and the match.  Returns the new output and `litPos`. -/
def step (dict : Bytes) (frameStart cap : Nat) (lits : ByteArray) (out : ByteArray) (litPos : Nat) (s : Seq) : R (ByteArray × Nat) :=
  if s.ll + s.ml > cap - out.size then .error .dstTooSmall
  else if s.ll > lits.size - litPos then .error (.corruptionAt "Block:249")
  else if s.offset > out.size + s.ll - frameStart + dict.size then .error (.corruptionAt "Block:251")
  else .ok (copyMatch dict (out ++ lits.extract litPos (litPos + s.ll)) frameStart s.offset s.ml, litPos + s.ll)

/-- the sequence loop of ZSTD_decompressSequences_body: stops at the first sequence that fails -/
def runSeqs (dict : Bytes) (frameStart cap : Nat) (lits : ByteArray) (out : ByteArray) (litPos : Nat) : List Seq → R (ByteArray × Nat)
  | [] => .ok (out, litPos)
  | s :: rest =>
    match step dict frameStart cap lits out litPos s with
    | .ok (out', litPos') => runSeqs dict frameStart cap lits out' litPos' rest
    | .error e => .error e

/-- the last literal segment (`lastLLSize > oend - op` → dstSize_tooSmall) -/
def lastLiterals (cap : Nat) (lits : ByteArray) (out : ByteArray) (litPos : Nat) : R ByteArray :=
  if lits.size - litPos > cap - out.size then .error .dstTooSmall
  else .ok (out ++ lits.extract litPos lits.size)

/-- tail of ZSTD_decompressSequences_body: execute the sequences in order, then the verdict on the bit stream
(`streamCheck`: `!BIT_endOfDStream` → corruption_detected, supplied by the caller, which owns the bit reader), then the last literals.
The order of these three stages is the order in which the C function can fail. -/
def run (dict : Bytes) (o : Out) (lits : ByteArray) (seqs : List Seq) (streamCheck : R Unit := .ok ()) : R ByteArray :=
  match runSeqs dict o.frameStart o.cap lits o.out 0 seqs with
  | .error e => .error e
  | .ok (out, litPos) =>
    match streamCheck with
    | .error e => .error e
    | .ok () => lastLiterals o.cap lits out litPos

end ZstdVerif.Exec
