/-
Dictionary format and both loaders' acceptance rules:
  decoder  : ZSTD_decompress_insertDictionary / ZSTD_loadDEntropy (zstd_decompress.c)
  compressor : ZSTD_compress_insertDictionary / ZSTD_loadZstdDictionary / ZSTD_loadCEntropy (zstd_compress.c)
plus ZSTD_dictNCountRepeat (table-reuse verdict), whose loop bound is regenerated from the source (Gen/DictRepeat.lean).
-/
import ZstdVerif.Model.Frame
import ZstdVerif.Gen.DictRepeat
namespace ZstdVerif.Dict
open ZstdVerif.Gen

/-- the entropy section of a dictionary as both loaders read it (same readers on both sides) -/
structure Parsed where
  huf : Huf.Stats
  ofN : FSE.NCount
  mlN : FSE.NCount
  llN : FSE.NCount
  reps : List Nat
  contentStart : Nat
  contentSize : Nat
deriving Inhabited

inductive Kind where
  /-- shorter than 8 bytes or no dictionary magic: raw content (ZSTD_dct_auto) -/
  | raw
  | full (p : Parsed)
  /-- dictionary magic followed by an entropy section the readers reject -/
  | corrupted (why : String)
deriving Inhabited

def corrupt {α} (why : String) : Except String α := .error why

/-- structural parse shared by both loaders (they call the same FSE_readNCount / HUF_readStats) -/
def parseEntropy (d : Bytes) : Except String Parsed := do
  if d.size ≤ 8 then corrupt "size<=8"
  let mut p := 8
  let hs ← match Huf.readStats d p (d.size - p) with
    | .ok s => pure s
    | .error _ => corrupt "huf"
  p := p + hs.used
  let ofN ← match FSE.readNCount d p (d.size - p) MaxOff with
    | .ok n => pure n
    | .error _ => corrupt "of-ncount"
  if ofN.tableLog > OffFSELog then corrupt "of-log"
  p := p + ofN.used
  let mlN ← match FSE.readNCount d p (d.size - p) MaxML with
    | .ok n => pure n
    | .error _ => corrupt "ml-ncount"
  if mlN.tableLog > MLFSELog then corrupt "ml-log"
  p := p + mlN.used
  let llN ← match FSE.readNCount d p (d.size - p) MaxLL with
    | .ok n => pure n
    | .error _ => corrupt "ll-ncount"
  if llN.tableLog > LLFSELog then corrupt "ll-log"
  p := p + llN.used
  if p + 12 > d.size then corrupt "reps-truncated"
  let reps := [d.le32 p, d.le32 (p + 4), d.le32 (p + 8)]
  p := p + 12
  return { huf := hs, ofN := ofN, mlN := mlN, llN := llN, reps := reps, contentStart := p, contentSize := d.size - p }

/-- the repeat-offset rule both loaders apply after the entropy section -/
def repsOk (p : Parsed) : Bool := p.reps.all (fun r => r != 0 && decide (r ≤ p.contentSize))

/-- shorter than 8 bytes or no dictionary magic -/
def isRaw (d : Bytes) : Bool := decide (d.size < 8) || d.le32 0 != ZSTD_MAGIC_DICTIONARY

def classify (d : Bytes) : Kind :=
  if isRaw d then .raw
  else match parseEntropy d with
    | .error w => .corrupted w
    | .ok p => if repsOk p then .full p else .corrupted "reps"

/-- the decoding tables and start state a full dictionary installs (ZSTD_loadDEntropy) -/
def fullDict (d : Bytes) (p : Parsed) : Frame.Dict :=
  { id := d.le32 4, content := d.extract p.contentStart d.size,
    ent := { huf := some (Huf.buildTable p.huf),
             of := FSE.buildSeqTable p.ofN.norm p.ofN.tableLog OF_base OF_bits, ofLog := p.ofN.tableLog,
             ml := FSE.buildSeqTable p.mlN.norm p.mlN.tableLog ML_base ML_bits, mlLog := p.mlN.tableLog,
             ll := FSE.buildSeqTable p.llN.norm p.llN.tableLog LL_base LL_bits, llLog := p.llN.tableLog,
             fseValid := true, rep := p.reps.toArray } }

theorem fullDict_id (d : Bytes) (p : Parsed) : (fullDict d p).id = d.le32 4 := rfl

/-- decoder side: ZSTD_decompress_insertDictionary -/
def loadD (d : Bytes) : R Frame.Dict :=
  match classify d with
  | .raw => .ok { id := 0, content := d }
  | .corrupted _ => .error .dictCorrupted
  | .full p => .ok (fullDict d p)

/-- compressor side verdict: accepted (with the dictionary ID it records) or dictionary_corrupted -/
def acceptC (d : Bytes) : Option Nat :=
  match classify d with
  | .raw => some 0
  | .corrupted _ => none
  | .full _ => some (d.le32 4)

/-- ZSTD_getDictID_fromDict -/
def dictIDFromDict (d : Bytes) : Nat :=
  if isRaw d then 0 else d.le32 4

/-! ### table reuse verdict -/

inductive Repeat where | check | valid
deriving DecidableEq, Repr

/-- ZSTD_dictNCountRepeat: `valid` only if the dictionary's table covers every symbol the block coder may need with a non-zero
probability; the set of symbols inspected (`DictRepeat.inspected`) is translated from the loop in the source -/
def dictNCountRepeat (norm : List Int) (dictMaxSymbolValue maxSymbolValue : Nat) : Repeat :=
  if dictMaxSymbolValue < maxSymbolValue then .check
  else if (DictRepeat.inspected maxSymbolValue).all (fun s => norm.getD s 0 != 0) then .valid else .check

/-- largest offset code the compressor may need with this dictionary: ZSTD_highbit32(dictContentSize + 128 KB), capped by MaxOff -/
def offcodeMax (contentSize : Nat) : Nat :=
  let m := Nat.log2 (contentSize + 131072)
  if m > MaxOff then MaxOff else m

/-! ### dictionary ID rule of the decoder (ZSTD_decompressBegin_usingDict + ZSTD_decodeFrameHeader) -/

/-- `none` = frame accepted for decoding with this dictionary; `some e` = refused -/
def dictIDCheck (frameDictID dictID : Nat) : Option Err :=
  if frameDictID != 0 && dictID != frameDictID then some .dictWrong else none

end ZstdVerif.Dict
