/-
Multithreaded streaming compression (zstdmt_compress.c), the parts that are pure bookkeeping:
 * how the caller's bytes are cut into jobs (ZSTDMT_compressStream_generic: the section buffer `inBuff.filled` against
   `targetSectionSize`, flush / end directives) - a function of byte counts and directives only;
 * the job ring (doneJobID / nextJobID / jobIDMask) and in-order flushing.
-/
namespace ZstdVerif.MT

structure Cut where
  /-- sizes of the jobs cut so far, oldest first -/
  jobs : List Nat
  /-- bytes waiting in the section buffer -/
  filled : Nat
deriving DecidableEq, Repr

/-- feed `n` more bytes with directive `continue`: bytes are loaded into the section buffer up to `target`; every time it
is full a job of `target` bytes is cut (ZSTDMT_compressStream_generic's load / ZSTDMT_createCompressionJob loop, in closed
form: the number of jobs is how many times the running total crosses a multiple of `target`) -/
def feed (target : Nat) (c : Cut) (n : Nat) : Cut :=
  { jobs := c.jobs ++ List.replicate ((c.filled + n) / target) target, filled := (c.filled + n) % target }

/-- flush / end: whatever is buffered becomes a job (an `end` also creates a final, possibly empty, job - not counted here) -/
def flush (c : Cut) : Cut := if c.filled = 0 then c else { jobs := c.jobs ++ [c.filled], filled := 0 }

/-! ### job ring -/

structure Ring where
  mask : Nat            -- jobIDMask = ring size - 1
  done : Nat            -- doneJobID : jobs fully flushed
  next : Nat            -- nextJobID : jobs created
  flushedBytes : Nat    -- bytes of job `done` already handed to the caller
deriving DecidableEq, Repr

/-- ZSTDMT_createCompressionJob is refused while the ring is full -/
def canCreate (r : Ring) : Bool := decide (r.next ≤ r.done + r.mask)

def create (r : Ring) : Ring := if canCreate r then { r with next := r.next + 1 } else r

/-- ZSTDMT_flushProduced advances `done` when job `done` is completed and entirely flushed -/
def retire (r : Ring) : Ring := if r.done < r.next then { r with done := r.done + 1, flushedBytes := 0 } else r

def RingInv (r : Ring) : Prop := r.done ≤ r.next ∧ r.next ≤ r.done + r.mask + 1

end ZstdVerif.MT
