/-
Model of the derivation of compression parameters from a RAW compression level (zstd_compress.c: ZSTD_getCParamRowSize,
ZSTD_getCParams_internal, ZSTD_dictAndWindowLog, ZSTD_adjustCParams_internal, ZSTD_overrideCParams, ZSTD_getCParamsFromCCtxParams,
ZSTD_createCDict) and of the parameter interface of a context living in caller-provided memory (ZSTD_initStaticCCtx /
ZSTD_initStaticDCtx).  The level table `clevels`, the level bounds and the numeric limits are REGENERATED from the source (Gen);
the control flow below is written by hand from the functions named above and is tied to the real code by the `derive` / `applied` /
`new s|t` operations of harness/zvh_params.c on directed grids (tools/props/c16.py).
-/
import ZstdVerif.Model.Params

namespace ZstdVerif.LevelParams
open ZstdVerif.Gen ZstdVerif.Params

/-- ZSTD_CONTENTSIZE_UNKNOWN -/
def unknownSize : Nat := 2 ^ 64 - 1

/-- ZSTD_cParamMode_e -/
inductive CPMode where
  | noAttachDict | attachDict | createCDict | unknown
deriving DecidableEq, Repr

/-- the acceleration factor a negative level stands for: `-MAX(ZSTD_minCLevel(), level)` (levels below the documented minimum
behave like the minimum) -/
def accel (level : Int) : Nat := (-(max minCLevel level)).toNat

/-- row of `ZSTD_defaultCParameters[tableID]` a level selects: 0 = default level, negative = row 0, above the maximum = last row -/
def rowOfLevel (level : Int) : Nat :=
  if level = 0 then ZSTD_CLEVEL_DEFAULT.toNat
  else if level < 0 then 0
  else if level > (ZSTD_MAX_CLEVEL : Int) then ZSTD_MAX_CLEVEL
  else level.toNat

/-- ZSTD_getCParamRowSize (U64 arithmetic: an unknown source size plus a dictionary wraps around) -/
def rowSize (src dict0 : Nat) (mode : CPMode) : Nat :=
  let dict := if mode = .attachDict then 0 else dict0
  let unk := decide (src = unknownSize)
  if unk && decide (dict = 0) then unknownSize
  else (src + dict + (if unk && decide (dict > 0) then 500 else 0)) % 2 ^ 64

def tableID (rSize : Nat) : Nat :=
  (if rSize ≤ 256 * 1024 then 1 else 0) + (if rSize ≤ 128 * 1024 then 1 else 0) + (if rSize ≤ 16 * 1024 then 1 else 0)

/-- ZSTD_dictAndWindowLog -/
def dictAndWindowLog (windowLog srcSize dictSize : Nat) : Nat :=
  if dictSize = 0 then windowLog else
  let windowSize := 2 ^ windowLog
  let daw := dictSize + windowSize
  if windowSize ≥ (dictSize + srcSize) % 2 ^ 64 then windowLog
  else if daw ≥ 2 ^ ZSTD_WINDOWLOG_MAX then ZSTD_WINDOWLOG_MAX
  else Nat.log2 (daw % 2 ^ 32 - 1) + 1

def ZSTD_SHORT_CACHE_TAG_BITS : Nat := 8
def ZSTD_ROW_HASH_TAG_BITS : Nat := 8

/-- `srcLog` of ZSTD_adjustCParams_internal: log2 of the total (source + dictionary) size, at least ZSTD_HASHLOG_MIN -/
def srcLogOf (srcSize dictSize : Nat) : Nat :=
  if (srcSize + dictSize) % 2 ^ 32 < 2 ^ ZSTD_HASHLOG_MIN then ZSTD_HASHLOG_MIN else Nat.log2 ((srcSize + dictSize) % 2 ^ 32 - 1) + 1

/-- "resize windowLog if input is small enough, to use less memory" -/
def resizeWindow (wl srcSize dictSize : Nat) : Nat :=
  if srcSize ≤ 2 ^ (ZSTD_WINDOWLOG_MAX - 1) ∧ dictSize ≤ 2 ^ (ZSTD_WINDOWLOG_MAX - 1) then
    (if wl > srcLogOf srcSize dictSize then srcLogOf srcSize dictSize else wl)
  else wl

/-- `if (cPar.hashLog > dictAndWindowLog+1) cPar.hashLog = dictAndWindowLog+1` (source size known) -/
def capHash (hl dawl : Nat) (known : Bool) : Nat := if known && decide (hl > dawl + 1) then dawl + 1 else hl

/-- `if (cycleLog > dictAndWindowLog) cPar.chainLog -= (cycleLog - dictAndWindowLog)` with ZSTD_cycleLog (source size known) -/
def capChain (cl strategy dawl : Nat) (known : Bool) : Nat :=
  if known && decide (cl - (if strategy ≥ 6 then 1 else 0) > dawl) then cl - ((cl - (if strategy ≥ 6 then 1 else 0)) - dawl) else cl

/-- "minimum wlog required for valid frame header" -/
def floorWindow (wl : Nat) : Nat := if wl < ZSTD_WINDOWLOG_ABSOLUTEMIN then ZSTD_WINDOWLOG_ABSOLUTEMIN else wl

/-- short-cache cap of a CDict whose indices are tagged (fast / dfast in ZSTD_cpm_createCDict) -/
def capTagged (v : Nat) (tagged : Bool) : Nat :=
  if tagged && decide (v > 32 - ZSTD_SHORT_CACHE_TAG_BITS) then 32 - ZSTD_SHORT_CACHE_TAG_BITS else v

/-- row-hash cap: `hashLog <= 32 - ZSTD_ROW_HASH_TAG_BITS + rowLog` when the row match finder may be used -/
def capRow (hl searchLog strategy rowMode : Nat) : Nat :=
  if (decide (3 ≤ strategy) && decide (strategy ≤ 5) && (decide (rowMode = 0) || decide (rowMode = 1))) &&
     decide (hl > (32 - ZSTD_ROW_HASH_TAG_BITS) + max 4 (min searchLog 6))
  then (32 - ZSTD_ROW_HASH_TAG_BITS) + max 4 (min searchLog 6) else hl

/-- ZSTD_adjustCParams_internal; `rowMode` is ZSTD_paramSwitch_e (0 auto, 1 enable, 2 disable) -/
def adjust (c : CPar) (srcSize0 dictSize0 : Nat) (mode : CPMode) (rowMode : Nat) : CPar :=
  let srcSize := if mode = .createCDict ∧ dictSize0 ≠ 0 ∧ srcSize0 = unknownSize then 513 else srcSize0
  let dictSize := if mode = .attachDict then 0 else dictSize0
  let wl1 := resizeWindow c.windowLog srcSize dictSize
  let dawl := dictAndWindowLog wl1 srcSize dictSize
  let known := decide (srcSize ≠ unknownSize)
  let tagged := decide (mode = .createCDict) && (decide (c.strategy = 1) || decide (c.strategy = 2))
  { c with windowLog := floorWindow wl1,
           chainLog := capTagged (capChain c.chainLog c.strategy dawl known) tagged,
           hashLog := capRow (capTagged (capHash c.hashLog dawl known) tagged) c.searchLog c.strategy rowMode }

/-- ZSTD_getCParams_internal -/
def getCParamsInternal (level : Int) (src dict : Nat) (mode : CPMode) : CPar :=
  let cp := (clevels.getD (tableID (rowSize src dict mode)) []).getD (rowOfLevel level) ⟨0, 0, 0, 0, 0, 0, 0⟩
  let cp := if level < 0 then { cp with targetLength := accel level } else cp
  adjust cp src dict mode 0

/-- the public ZSTD_getCParams / ZSTD_getParams: a source size of 0 means "unknown" -/
def getCParamsPublic (level : Int) (src dict : Nat) : CPar :=
  getCParamsInternal level (if src = 0 then unknownSize else src) dict .unknown

/-- ZSTD_overrideCParams: every non-zero field of `ov` wins -/
def overrideCParams (c ov : CPar) : CPar :=
  { windowLog := if ov.windowLog ≠ 0 then ov.windowLog else c.windowLog,
    chainLog := if ov.chainLog ≠ 0 then ov.chainLog else c.chainLog,
    hashLog := if ov.hashLog ≠ 0 then ov.hashLog else c.hashLog,
    searchLog := if ov.searchLog ≠ 0 then ov.searchLog else c.searchLog,
    minMatch := if ov.minMatch ≠ 0 then ov.minMatch else c.minMatch,
    targetLength := if ov.targetLength ≠ 0 then ov.targetLength else c.targetLength,
    strategy := if ov.strategy ≠ 0 then ov.strategy else c.strategy }

def noOverride : CPar := ⟨0, 0, 0, 0, 0, 0, 0⟩

/-- ZSTD_getCParamsFromCCtxParams: level, explicit compression parameters `ov` (0 = not set), long-distance matching explicitly
enabled, ZSTD_c_srcSizeHint, ZSTD_c_useRowMatchFinder -/
def fromCCtxParams (level : Int) (ov : CPar) (ldmOn : Bool) (hint : Nat) (src0 dict : Nat) (mode : CPMode) (rowMode : Nat) : CPar :=
  let src := if src0 = unknownSize ∧ hint > 0 then hint else src0
  let c := getCParamsInternal level src dict mode
  let c := if ldmOn then { c with windowLog := ZSTD_LDM_DEFAULT_WINDOW_LOG } else c
  adjust (overrideCParams c ov) src dict mode rowMode

/-- ZSTD_createCDict / ZSTD_createCDict_byReference: parameters of the level for a dictionary of `dictSize` bytes, then handed as
explicit parameters to a parameter set of level 0 (ZSTD_createCDict_advanced -> ZSTD_createCDict_advanced2) -/
def createCDictCParams (level : Int) (dictSize : Nat) : CPar :=
  fromCCtxParams 0 (getCParamsInternal level unknownSize dictSize .createCDict) false 0 unknownSize dictSize .createCDict 0

/-- value a parameter id reads back in a parameter state (0 when absent) -/
def valOf (s : Ctx) (id : Nat) : Int :=
  match indexOf cparams id with
  | some k => (s.vals[k]?).getD 0
  | none => 0

/-- compression parameters ZSTD_compress2 applies to a source of `n` bytes with the parameter state `s` in force and no dictionary
(ZSTD_CCtx_init_compressStream2) -/
def appliedCParams (s : Ctx) (n : Nat) : CPar :=
  let v (id : Nat) : Nat := (valOf s id).toNat
  fromCCtxParams (valOf s 100) ⟨v 101, v 103, v 102, v 104, v 105, v 106, v 107⟩ (decide (valOf s 160 = 1)) (v 1004) n 0 .noAttachDict (v 1011)

/-- ZSTD_CCtx_setParametersUsingCCtxParams: all parameters of the separate object replace the context's, outside a frame only
(no dictionary referenced) -/
def applyParams (s par : Ctx) : Except Err Ctx :=
  if s.started then .error .stage else .ok { s with vals := par.vals }

/-! ### contexts in caller-provided memory (ZSTD_initStaticCCtx / ZSTD_initStaticDCtx)

zstd.h, ZSTD_initStaticCCtx: "static cctx currently not compatible with multi-threading" - the restriction is enforced by the setter
(`ZSTD_CCtx_setParameter`: a non-zero ZSTD_c_nbWorkers is refused with parameter_unsupported, after the stage gate and before anything
is stored); ZSTD_DCtx_setParameter refuses every in-range ZSTD_d_refMultipleDDicts on a static DCtx (the table would be allocated). -/

def idNbWorkers : Nat := 400
def idRefMultipleDDicts : Nat := 1003

/-- `ZSTD_CCtx_setParameter` (isC) / `ZSTD_DCtx_setParameter` on a STATIC context, parameter number `k` -/
def setParamStatic (ps : List PInfo) (isC : Bool) (s : Ctx) (k : Nat) (v : Int) : Except Err Ctx :=
  match ps[k]? with
  | none => .error .unsupported
  | some p =>
    if s.started && !(isC && p.mid) then .error .stage
    else if isC && p.id == idNbWorkers && decide (v ≠ 0) then .error .unsupported
    else match setVal p v with
      | none => .error .outOfBound
      | some w =>
        if !isC && p.id == idRefMultipleDDicts then .error .unsupported
        else .ok { s with vals := s.vals.set k w }

/-- ZSTD_CCtx_setParametersUsingCCtxParams on a STATIC CCtx: after the stage gate, a parameter object that asks for worker threads is
refused as a whole with parameter_unsupported (the same rule as the single-parameter setter; nothing is stored) -/
def applyParamsStatic (ps : List PInfo) (s par : Ctx) : Except Err Ctx :=
  if s.started then .error .stage
  else match ps.findIdx? (·.id == idNbWorkers) with
    | some k => if (par.vals[k]?).getD 0 ≠ 0 then .error .unsupported else .ok { s with vals := par.vals }
    | none => .ok { s with vals := par.vals }

end ZstdVerif.LevelParams
