/-
ZSTD_COMPRESSBOUND / ZSTD_compressBound (zstd.h) and the worst-case frame layout it has to cover.
-/
import ZstdVerif.Gen.Consts
namespace ZstdVerif.Bound
open ZstdVerif.Gen

def BLK : Nat := 131072

/-- `ZSTD_COMPRESSBOUND(srcSize)` for srcSize < ZSTD_MAX_INPUT_SIZE (else 0 = error) -/
def compressBound (n : Nat) : Nat :=
  if n ≥ ZSTD_MAX_INPUT_SIZE then 0
  else n + n / 256 + (if n < BLK then (BLK - n) / 2048 else 0)

/-- number of blocks when the input is cut into full 128 KiB blocks (an empty input still has one block) -/
def nbBlocks (n : Nat) : Nat := if n = 0 then 1 else (n + BLK - 1) / BLK

/-- size of a frame that stores every block raw: max header (18) + 3 per block + content + checksum (4) -/
def rawFrameSize (n : Nat) : Nat := 18 + 3 * nbBlocks n + n + 4

end ZstdVerif.Bound
