/-
FSE: normalised-count header (entropy_common.c: FSE_readNCount_body, transcribed literally: ip / bitCount /
32-bit bitStream), decoding-table construction (fse_decompress.c: FSE_buildDTable_internal and
zstd_decompress_block.c: ZSTD_buildFSETable_body) and the two-state weight decoder
(FSE_decompress_usingDTable_generic).
-/
import ZstdVerif.Model.Bits
import ZstdVerif.Gen.Tables
import ZstdVerif.Gen.Consts
namespace ZstdVerif.FSE

/-- result of FSE_readNCount: normalised counts (length = maxSymbolValue+1), tableLog, bytes read -/
structure NCount where
  norm : Array Int
  tableLog : Nat
  used : Nat
deriving Inhabited

def ctz (x : Nat) : Nat := Id.run do     -- ZSTD_countTrailingZeros32 (x ≠ 0)
  let mut n := 0
  for k in [0:32] do
    if (x >>> k) &&& 1 == 1 then return n
    n := n + 1
  return n

structure RS where        -- loop state of FSE_readNCount_body
  ip : Nat
  bitCount : Int
  bitStream : Nat
  remaining : Int
  threshold : Int
  nbBits : Nat
  charnum : Nat
  previous0 : Bool
  norm : Array Int
  done : Bool

@[inline] def mask32 (x : Nat) : Nat := x &&& 0xFFFFFFFF

/-- the refill of the header reader: `iend` = buffer size (≥ 8) -/
@[inline] def refill (b : Bytes) (iend : Nat) (ip : Nat) (bitCount : Int) : Nat × Int × Nat :=
  -- returns (ip', bitCount', bitStream')
  let bc := bitCount.toNat
  if ip + 7 ≤ iend ∨ ip + (bc >>> 3) + 4 ≤ iend then
    let ip' := ip + (bc >>> 3)
    let bc' := bc &&& 7
    (ip', (bc' : Int), (b.le32 ip') >>> bc')
  else
    let bc1 : Int := bitCount - (8 * ((iend - 4 - ip : Nat) : Int))
    let bc' := (bc1.toNat) &&& 31
    (iend - 4, (bc' : Int), (b.le32 (iend - 4)) >>> bc')

/-- FSE_readNCount_body, the `if (previous0)` part of one turn of the main loop: runs of zero counts are skipped 2 bits at a time
(`repeats`), `charnum` moves past them; `charnum >= maxSV1` is the C `break` out of the main loop (here: `done := true`),
otherwise the bit container is refilled.  The counts of the skipped symbols stay 0 (the array starts zeroed). -/
def skipZeros (b : Bytes) (iend maxSV1 : Nat) (s : RS) : RS := Id.run do
  let mut repeats := (ctz (mask32 (0xFFFFFFFF - s.bitStream) ||| 0x80000000)) >>> 1
  let mut ip := s.ip
  let mut bitCount := s.bitCount
  let mut bitStream := s.bitStream
  let mut charnum := s.charnum
  -- `while (repeats >= 12)`: bounded by the symbol budget
  for _ in [0:maxSV1 / 36 + 2] do
    if repeats < 12 then break
    charnum := charnum + 36
    if ip + 7 ≤ iend then
      ip := ip + 3
    else
      bitCount := bitCount - (8 * (((iend - 7 : Nat) : Int) - (ip : Int)))
      bitCount := ((bitCount.toNat) &&& 31 : Nat)
      ip := iend - 4
    bitStream := (b.le32 ip) >>> bitCount.toNat
    repeats := (ctz (mask32 (0xFFFFFFFF - bitStream) ||| 0x80000000)) >>> 1
  charnum := charnum + 3 * repeats
  bitStream := bitStream >>> (2 * repeats)
  bitCount := bitCount + 2 * repeats
  charnum := charnum + (bitStream &&& 3)
  bitCount := bitCount + 2
  if charnum ≥ maxSV1 then
    return { s with ip := ip, bitCount := bitCount, bitStream := bitStream, charnum := charnum, done := true }
  let (ip', bc', bs') := refill b iend ip bitCount
  return { s with ip := ip', bitCount := bc', bitStream := bs', charnum := charnum }

/-- FSE_readNCount_body, the variable-length field of one count: `max = (2*threshold-1) - remaining`; a value below `max` takes
`nbBits-1` bits, otherwise `nbBits` bits (values `>= threshold` are shifted down by `max`); then `count--` ("extra accuracy": the
stored value is count+1, so -1 = "less than one").  Returns (count, new bitCount). -/
def countField (s : RS) : Int × Int := Id.run do
  let thr := s.threshold.toNat
  let max : Int := (2 * s.threshold - 1) - s.remaining
  let low := s.bitStream &&& (thr - 1)
  let mut count : Int := 0
  let mut bitCount := s.bitCount
  if (low : Int) < max then
    count := low
    bitCount := bitCount + (s.nbBits - 1 : Nat)
  else
    count := ((s.bitStream &&& (2 * thr - 1) : Nat) : Int)
    if count ≥ s.threshold then count := count - max
    bitCount := bitCount + s.nbBits
  count := count - 1
  return (count, bitCount)

/-- FSE_readNCount_body, the second part of one turn of the main loop: read one count (`countField`), book it
(`remaining -= abs(count)`, `normalizedCounter[charnum++] = count`, `previous0 = !count`), shrink `nbBits` / `threshold` while
`remaining < threshold`, stop (`done`) when `remaining <= 1` or `charnum >= maxSV1`, else refill the bit container -/
def readCount (b : Bytes) (iend maxSV1 : Nat) (s : RS) : RS := Id.run do
  let (count, bitCount) := countField s
  let remaining := if count ≥ 0 then s.remaining - count else s.remaining + count
  let norm := if s.charnum < s.norm.size then s.norm.set! s.charnum count else s.norm
  let charnum := s.charnum + 1
  let mut nbBits := s.nbBits
  let mut threshold := s.threshold
  let mut done := false
  if remaining < threshold then
    if remaining ≤ 1 then done := true
    else
      nbBits := highbit remaining.toNat + 1
      threshold := ((1 <<< (nbBits - 1) : Nat) : Int)
  if !done && charnum ≥ maxSV1 then done := true
  if done then
    return { s with bitCount := bitCount, remaining := remaining, norm := norm, charnum := charnum, previous0 := count == 0,
                    nbBits := nbBits, threshold := threshold, done := true }
  else
    let (ip', bc', bs') := refill b iend s.ip bitCount
    return { s with ip := ip', bitCount := bc', bitStream := bs', remaining := remaining, norm := norm, charnum := charnum,
                    previous0 := count == 0, nbBits := nbBits, threshold := threshold }

/-- FSE_readNCount on a buffer of at least 8 bytes (FSE_readNCount_body; one turn of its main loop = `skipZeros` when the previous
count was 0, then `readCount`) -/
def readNCount8 (b : Bytes) (hbSize : Nat) (maxSV : Nat) : R NCount := Id.run do
  let iend := hbSize
  let maxSV1 := maxSV + 1
  let bs0 := b.le32 0
  let tl := (bs0 &&& 0xF) + Gen.FSE_MIN_TABLELOG
  if tl > Gen.FSE_TABLELOG_ABSOLUTE_MAX then return .error .tableLogTooLarge
  let mut s : RS := { ip := 0, bitCount := 4, bitStream := bs0 >>> 4, remaining := ((1 <<< tl) + 1 : Nat), threshold := ((1 <<< tl) : Nat),
                      nbBits := tl + 1, charnum := 0, previous0 := false, norm := Array.replicate maxSV1 0, done := false }
  -- at most maxSV1 symbols are produced, each iteration produces one (or stops)
  for _ in [0:maxSV1 + 2] do
    if s.done then break
    if s.previous0 then
      s := skipZeros b iend maxSV1 s
      if s.done then break
    s := readCount b iend maxSV1 s
  if s.remaining != 1 then return .error (.corruptionAt "FSE:126")
  if s.charnum > maxSV1 then return .error (.corruptionAt "FSE:127")      -- maxSymbolValue_tooSmall
  if s.bitCount > 32 then return .error (.corruptionAt "FSE:128")
  let used := s.ip + ((s.bitCount.toNat + 7) >>> 3)
  return .ok { norm := s.norm.extract 0 s.charnum, tableLog := tl, used := used }

/-- FSE_readNCount(src[start, start+hbSize)) with the < 8 bytes padding rule -/
def readNCount (src : Bytes) (start hbSize : Nat) (maxSV : Nat) : R NCount :=
  if hbSize < 8 then
    let buf := (src.extract start (start + hbSize)) ++ ByteArray.mk (Array.replicate (8 - hbSize) 0)
    match readNCount8 buf 8 maxSV with
    | .error e => .error e
    | .ok r => if r.used > hbSize then .error (.corruptionAt "FSE:138") else .ok r
  else
    readNCount8 (src.extract start (start + hbSize)) hbSize maxSV

/-- one cell of a decoding table -/
structure Cell where
  sym : Nat
  nbBits : Nat
  newState : Nat
deriving Inhabited, DecidableEq, Repr

@[inline] def tableStep (size : Nat) : Nat := (size >>> 1) + (size >>> 3) + 3

/-- number of table cells owned by symbol `s`: its normalised count, 1 for a "less than one" count (-1), 0 for absent (or out-of-range) symbols -/
@[inline] def cnt (norm : Array Int) (s : Nat) : Nat := if norm[s]! == -1 then 1 else norm[s]!.toNat

/-- symbol spreading shared by FSE_buildDTable_internal (fse_decompress.c) and ZSTD_buildFSETable_body (zstd_decompress_block.c)
(the generic branch; `fast_spread_eq_slow` states that the two-stage fast branch lays down the same symbols):
the symbol held by each of the `1 <<< tableLog` positions.  Low-probability symbols (`norm = -1`) go to the top of the table,
the others are laid down by the `step` walk that skips the low-probability area. -/
def spread (norm : Array Int) (tableLog : Nat) : Array Nat := Id.run do
  let size := 1 <<< tableLog
  let mask := size - 1
  let step := tableStep size
  let mut syms : Array Nat := Array.replicate size 0
  let mut high := size - 1
  for s in [0:norm.size] do
    let c := norm[s]!
    if c == -1 then
      syms := syms.set! high s
      high := high - 1
  let mut pos := 0
  for s in [0:norm.size] do
    let c := norm[s]!
    if c > 0 then
      for _ in [0:c.toNat] do
        syms := syms.set! pos s
        pos := (pos + step) &&& mask
        -- `while (position > highThreshold)`: at most `size` skips
        for _ in [0:size] do
          if pos ≤ high then break
          pos := (pos + step) &&& mask
  return syms

/-- `symbolNext[s]` at the start of the state-assignment loop: `normalizedCounter[s]`, 1 for -1 -/
def nextInit (norm : Array Int) : Array Nat := norm.map fun c => if c == -1 then 1 else c.toNat

/-- one iteration of the state-assignment loop (`for u < tableSize`): `nextState = symbolNext[symbol]++`,
`nbBits = tableLog - highbit(nextState)`, `newState = (nextState << nbBits) - tableSize`; the cell of position `u` is pushed -/
@[inline] def cellStep (tableLog : Nat) (st : Array Nat × Array Cell) (sym : Nat) : Array Nat × Array Cell :=
  let ns := st.1[sym]!
  let nb := tableLog - highbit ns
  (st.1.set! sym (ns + 1), st.2.push { sym := sym, nbBits := nb, newState := (ns <<< nb) - (1 <<< tableLog) })

/-- state assignment of FSE_buildDTable_internal / ZSTD_buildFSETable_body given the symbol of every position:
a left-to-right pass over the positions carrying the `symbolNext` counters -/
def cellsOf (syms : Array Nat) (norm : Array Int) (tableLog : Nat) : Array Cell :=
  (syms.foldl (cellStep tableLog) (nextInit norm, Array.mkEmpty syms.size)).2

/-- FSE_buildDTable_internal / ZSTD_buildFSETable_body: symbol spreading, then state assignment -/
def buildCells (norm : Array Int) (tableLog : Nat) : Array Cell := cellsOf (spread norm tableLog) norm tableLog

/-- FSE_decompress_wksp for Huffman weights: header + two interleaved states; at most `maxOut` symbols -/
def decompressWeights (src : Bytes) (start len : Nat) (maxOut : Nat) : R (Array Nat) := do
  let nc ← readNCount src start len 255
  if nc.tableLog > 6 then throw .tableLogTooLarge
  let cells := buildCells nc.norm nc.tableLog
  let r0 ← match BitR.init src (start + nc.used) (len - nc.used) with
    | .ok r => pure r
    | .error _ => throw (.corruptionAt "FSE:195")
  if nc.used > len then throw (.srcSizeWrongAt "FSE:196")
  let (s1, r1) := r0.read nc.tableLog
  let (s2, r2) := r1.read nc.tableLog
  let mut st1 := s1
  let mut st2 := s2
  let mut r := r2
  let mut out : Array Nat := #[]
  -- tail loop of FSE_decompress_usingDTable_generic (the 4-symbols loop is the same function unrolled)
  for _ in [0:maxOut + 2] do
    if out.size + 2 > maxOut then throw .dstTooSmall
    let c1 := cells[st1]!
    out := out.push c1.sym
    let (lo, r') := r.read c1.nbBits
    r := r'
    st1 := c1.newState + lo
    if r.over then
      out := out.push (cells[st2]!).sym
      return out
    if out.size + 2 > maxOut then throw .dstTooSmall
    let c2 := cells[st2]!
    out := out.push c2.sym
    let (lo2, r'') := r.read c2.nbBits
    r := r''
    st2 := c2.newState + lo2
    if r.over then
      out := out.push (cells[st1]!).sym
      return out
  throw .dstTooSmall

/-- ZSTD_buildFSETable: cells carry (nextState, nbAdditionalBits, nbBits, baseValue) -/
def buildSeqTable (norm : Array Int) (tableLog : Nat) (base bits : List Nat) : Array Gen.SeqCell :=
  (buildCells norm tableLog).map fun c =>
    { nextState := c.newState, nbAddBits := bits.getD c.sym 0, nbBits := c.nbBits, baseValue := base.getD c.sym 0 }

/-- ZSTD_buildSeqTable_rle -/
def rleSeqTable (sym : Nat) (base bits : List Nat) : Array Gen.SeqCell :=
  #[{ nextState := 0, nbAddBits := bits.getD sym 0, nbBits := 0, baseValue := base.getD sym 0 }]

end ZstdVerif.FSE
