/-
The frame *walker*: the size-checking skeleton shared by ZSTD_findFrameCompressedSize, ZSTD_decompressFrame and
ZSTD_decompressMultiFrame (magic, frame header size, block headers, block payload extents, checksum field,
skippable frames), written over an abstract byte oracle `get : Nat → Nat` with an explicit input length so that
truncation is "the same oracle with a smaller length".  Every read is preceded by the same length test the C code
makes; block *contents* are not interpreted here (they can only add errors).
Also: the pledged-source-size bookkeeping of the streaming compressor.
-/
import ZstdVerif.Gen.Consts
import ZstdVerif.Gen.Tables
import ZstdVerif.Model.Bytes
namespace ZstdVerif.Walker
open ZstdVerif.Gen

abbrev Get := Nat → Nat

def le24 (g : Get) (i : Nat) : Nat := g i + (g (i+1)) * 256 + (g (i+2)) * 65536
def le32 (g : Get) (i : Nat) : Nat := g i + (g (i+1)) * 256 + (g (i+2)) * 65536 + (g (i+3)) * 16777216

/-- block type, bytes occupied by header + body, last-block flag (ZSTD_getcBlockSize) -/
def bType (h : Nat) : Nat := (h / 2) % 4
def bExtent (h : Nat) : Nat := 3 + (if bType h = 1 then 1 else h / 8)
def bLast (h : Nat) : Bool := h % 2 = 1

theorem bExtent_ge (h : Nat) : 3 ≤ bExtent h := by unfold bExtent; omega

/-- walk the blocks of a frame starting at `ip` with `rem` bytes available; returns the bytes they occupy.
Terminates because every block consumes at least its 3-byte header. -/
def walkBlocks (g : Get) (ip rem : Nat) : R Nat :=
  if rem < 3 then .error .srcSizeWrong else
  if bType (le24 g ip) = 3 then .error .corruption else
  if h : rem < bExtent (le24 g ip) then .error .srcSizeWrong else
  if bLast (le24 g ip) then .ok (bExtent (le24 g ip)) else
  match walkBlocks g (ip + bExtent (le24 g ip)) (rem - bExtent (le24 g ip)) with
  | .ok u => .ok (bExtent (le24 g ip) + u)
  | .error e => .error e
termination_by rem
decreasing_by have := bExtent_ge (le24 g ip); omega



/-- frame header size from the descriptor byte (ZSTD_frameHeaderSize_internal, zstd1 format) -/
def headerSize (fhd : Nat) : Nat :=
  5 + (1 - (fhd / 32) % 2) + ZSTD_did_fieldSize.getD (fhd % 4) 0 + ZSTD_fcs_fieldSize.getD (fhd / 64) 0 +
    (if (fhd / 32) % 2 = 1 ∧ fhd / 64 = 0 then 1 else 0)

theorem headerSize_ge (fhd : Nat) : 5 ≤ headerSize fhd := by unfold headerSize; omega

def isSkippable (magic : Nat) : Prop := magic / 16 = ZSTD_MAGIC_SKIPPABLE_START / 16
instance (m : Nat) : Decidable (isSkippable m) := by unfold isSkippable; infer_instance

/-- size of the checksum field announced by the descriptor -/
def ckSize (fhd : Nat) : Nat := if (fhd / 4) % 2 = 1 then 4 else 0

/-- compressed size of the frame starting at `ip` given `rem` available bytes (ZSTD_findFrameCompressedSize) -/
def frameSize (g : Get) (ip rem : Nat) : R Nat :=
  if rem < 5 then .error .srcSizeWrong else
  if isSkippable (le32 g ip) then
    if rem < 8 then .error .srcSizeWrong else
    if rem < le32 g (ip + 4) + 8 then .error .srcSizeWrong else .ok (le32 g (ip + 4) + 8)
  else if le32 g ip ≠ ZSTD_MAGICNUMBER then .error .prefixUnknown else
  if rem < headerSize (g (ip + 4)) then .error .srcSizeWrong else
  if (g (ip + 4) / 8) % 2 = 1 then .error .unsupported else
  match walkBlocks g (ip + headerSize (g (ip + 4))) (rem - headerSize (g (ip + 4))) with
  | .error e => .error e
  | .ok u =>
    if rem < headerSize (g (ip + 4)) + u + ckSize (g (ip + 4)) then .error .srcSizeWrong
    else .ok (headerSize (g (ip + 4)) + u + ckSize (g (ip + 4)))

/-- walk a whole input made of concatenated frames; succeeds iff the frames tile it exactly (ZSTD_decompressMultiFrame);
returns the list of frame sizes.  `fuel` only bounds the number of frames (any value ≥ rem suffices). -/
def frames (g : Get) : (fuel : Nat) → (ip rem : Nat) → R (List Nat)
  | 0, _, rem => if rem = 0 then .ok [] else .error .srcSizeWrong
  | fuel+1, ip, rem =>
    if rem = 0 then .ok [] else
    match frameSize g ip rem with
    | .error e => .error e
    | .ok n =>
      match frames g fuel (ip + n) (rem - n) with
      | .ok l => .ok (n :: l)
      | .error e => .error e

/-! ### pledged source size (zstd_compress.c: ZSTD_compressContinue_internal / ZSTD_compressEnd_public /
ZSTD_CCtx_init_compressStream2) -/

structure Pledge where
  /-- pledgedSrcSizePlusOne (0 = unknown) -/
  plusOne : Nat
  consumed : Nat
  started : Bool
deriving DecidableEq, Repr

inductive Dir where | cont | flush | end_
deriving DecidableEq, Repr

/-- one `ZSTD_compressStream2(dir)` call consuming `n` bytes (all of the supplied input) -/
def Pledge.call (p : Pledge) (n : Nat) (d : Dir) : Except Unit Pledge :=
  -- first call of the frame with e_end: the pledge is REPLACED by the supplied size (documented upstream behaviour)
  let p := if !p.started ∧ d = .end_ then { p with plusOne := n + 1 } else p
  let p := { p with started := true }
  if p.plusOne ≠ 0 ∧ p.consumed + n + 1 > p.plusOne then .error ()
  else
    let p := { p with consumed := p.consumed + n }
    if d = .end_ ∧ p.plusOne ≠ 0 ∧ p.plusOne ≠ p.consumed + 1 then .error () else .ok p

def Pledge.run (p : Pledge) : List (Nat × Dir) → Except Unit Pledge
  | [] => .ok p
  | (n, d) :: rest => match p.call n d with
    | .ok p' => Pledge.run p' rest
    | .error e => .error e

/-! ### frame epilogue: content size and checksum (ZSTD_decompressFrame tail / ZSTD_decompressContinue) -/

def epilogue (fcs : Option Nat) (regen : Nat) (hasChecksum : Bool) (stored computed : Nat) (ignoreChecksum : Bool) : R Unit :=
  match fcs with
  | some n => if n ≠ regen then .error .corruption else
      if hasChecksum ∧ !ignoreChecksum ∧ stored ≠ computed then .error .checksumWrong else .ok ()
  | none => if hasChecksum ∧ !ignoreChecksum ∧ stored ≠ computed then .error .checksumWrong else .ok ()

end ZstdVerif.Walker
