/-
Conformance predicates evaluated on the decode trace of a frame the compressor emitted (C05):
header truthfulness, block-size limit, window rule per sequence, and the conservative interoperability
rules the compressor observes for old decoders.
-/
import ZstdVerif.Model.Frame
namespace ZstdVerif.Conform
open ZstdVerif.Frame

/-- one sequence respects the window: data within Window_Size, or (while the block still lies inside the first
Window_Size bytes) anywhere in content-so-far ++ dictionary -/
def offsetOk (windowSize dictSize pos blockEnd offset : Nat) : Bool :=
  decide (offset ≥ 1) && decide (offset ≤ pos + dictSize) &&
  (decide (offset ≤ windowSize) || decide (blockEnd ≤ windowSize))

/-- the window rule along the sequences of one block (block number `bi`, for the messages): `p` is the position in the frame content
at which the next sequence's literals start; each match is judged at the position where it starts (`p + ll`).  Returns the violations. -/
def seqViolations (bi windowSize dictSize blockEnd : Nat) : Nat → List Exec.Seq → List String
  | _, [] => []
  | p, sq :: rest =>
    (if !offsetOk windowSize dictSize (p + sq.ll) blockEnd sq.offset then
       [s!"block {bi}: offset {sq.offset} at position {p + sq.ll} violates window {windowSize} (dict {dictSize}, block end {blockEnd})"]
     else []) ++ seqViolations bi windowSize dictSize blockEnd (p + sq.ll + sq.ml) rest

/-- violations of one frame (empty list = conformant) -/
def checkFrame (t : FrameTrace) (dictSize : Nat) (expectDictID : Option Nat) (maxBlockSize : Nat := 0) (subBlocks : Bool := false) : List String := Id.run do
  let mut v : List String := []
  if t.hdr.skippable then return v
  let h := t.hdr
  if h.descriptor &&& 0x08 != 0 then v := v ++ ["reserved bit set"]
  if h.descriptor &&& 0x10 != 0 then v := v ++ ["unused bit set"]
  match h.fcs with
  | some n => if n != t.regenSize then v := v ++ [s!"content size field {n} != regenerated {t.regenSize}"]
  | none => pure ()
  match expectDictID with
  | some d => if h.dictID != d then v := v ++ [s!"dictID {h.dictID} != expected {d}"]
  | none => pure ()
  let bmax := if maxBlockSize != 0 then min h.blockSizeMax maxBlockSize else h.blockSizeMax
  let mut pos := 0
  let mut bi := 0
  for b in t.blocks do
    if b.regen > bmax then v := v ++ [s!"block {bi} regenerates {b.regen} > limit {bmax}"]
    if b.hdr.ty == 1 && bi == 0 then v := v ++ ["first block is RLE"]
    if b.hdr.ty == 2 then
      if b.hdr.cSize ≥ b.regen then v := v ++ [s!"compressed block {bi} of {b.hdr.cSize} bytes regenerates only {b.regen}"]
      match b.tr with
      | some tr =>
        let (mLL, mOF, mML) := tr.modes
        let (u1, u2, u3) := tr.tableSizes
        let lastCount := if mML == 2 then u3 else if mOF == 2 then u2 else if mLL == 2 then u1 else 0
        if tr.nbSeq > 0 && lastCount != 0 && lastCount + tr.bitstreamSize < 4 then
          v := v ++ [s!"block {bi}: last table description + bitstream < 4 bytes"]
        -- sub-block path (ZSTD_c_targetCBlockSize, zstd_compress_superblock.c): decoders <= 1.4.0 reject a sequences section whose body
        -- (compression-modes byte + table descriptions + bit stream) is shorter than 4 bytes; such a sub-block is emitted raw instead
        if subBlocks && tr.nbSeq > 0 && 1 + u1 + u2 + u3 + tr.bitstreamSize < 4 then
          v := v ++ [s!"block {bi}: sub-block sequences section body of {1 + u1 + u2 + u3 + tr.bitstreamSize} bytes (< 4)"]
        v := v ++ seqViolations bi h.windowSize dictSize (pos + b.regen) pos tr.seqs.toList
      | none => pure ()
    pos := pos + b.regen
    bi := bi + 1
  return v

end ZstdVerif.Conform
