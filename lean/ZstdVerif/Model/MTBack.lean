/-
Multithreaded streaming compression under back-pressure (zstdmt_compress.c): a producer that keeps feeding input with `continue` while the
consumer takes (almost) nothing out.  Pure bookkeeping of ZSTDMT_compressStream_generic + ZSTDMT_createCompressionJob on top of the job
ring of Model/MT.lean: bytes are loaded into the section buffer up to the section size; a full section becomes a job only if the ring of job
descriptors has a free slot (`canCreate`); otherwise the section stays where it is and NOTHING more is accepted.  Consequences proved here:
the slot a new job is prepared in never belongs to a job that is still to be flushed, and the input a caller can push while nothing is
flushed is bounded by (slots + 1) sections.
-/
import ZstdVerif.Model.MT
namespace ZstdVerif.MT

/-- size of the table of job descriptors: ZSTDMT_createJobsTable gives `1 << (ZSTD_highbit32(nbWorkers + 2) + 1)` descriptors -/
def ringSlots (nbWorkers : Nat) : Nat := 2 ^ (Nat.log2 (nbWorkers + 2) + 1)

structure Back where
  ring : Ring
  /-- bytes in the section buffer (inBuff.filled) -/
  filled : Nat := 0
  /-- bytes taken from the caller since the frame began -/
  accepted : Nat := 0
deriving DecidableEq, Repr

/-- one `ZSTD_compressStream2(continue)` call offering `n` bytes while no job is retired: load `min n (T - filled)`, then, if the section
is full, create the job when the ring allows it (the buffer is handed to the job and a new, empty section begins) -/
def Back.call (T : Nat) (b : Back) (n : Nat) : Back :=
  let k := min n (T - b.filled)
  let f := b.filled + k
  if T ≤ f ∧ canCreate b.ring = true then { ring := create b.ring, filled := 0, accepted := b.accepted + k }
  else { b with filled := f, accepted := b.accepted + k }

/-- the caller offers `n` bytes again and again (`fuel` calls), re-presenting what was not taken -/
def Back.offer (T : Nat) (b : Back) (n : Nat) : Nat → Back
  | 0 => b
  | fuel + 1 =>
    let b' := b.call T n
    Back.offer T b' (n - (b'.accepted - b.accepted)) fuel

def Back.start (mask : Nat) : Back := { ring := { mask := mask, done := 0, next := 0, flushedBytes := 0 } }

/-- nothing retired yet; the ring is within its capacity; the accepted bytes are the jobs cut plus the section being filled -/
def BackInv (T : Nat) (b : Back) : Prop :=
  b.ring.done = 0 ∧ b.ring.next ≤ b.ring.mask + 1 ∧ b.filled ≤ T ∧ b.accepted = b.ring.next * T + b.filled

theorem backInv_start (T mask : Nat) : BackInv T (Back.start mask) := by
  simp [BackInv, Back.start]

theorem call_mask (T : Nat) (b : Back) (n : Nat) : (b.call T n).ring.mask = b.ring.mask := by
  unfold Back.call create
  simp only
  split
  · split <;> rfl
  · rfl

theorem call_inv (T : Nat) (b : Back) (n : Nat) (h : BackInv T b) : BackInv T (b.call T n) := by
  obtain ⟨hd, hn, hf, ha⟩ := h
  unfold Back.call
  simp only
  split
  · rename_i hc
    obtain ⟨hT, hcc⟩ := hc
    have hcc' : b.ring.next ≤ b.ring.done + b.ring.mask := by
      simpa [canCreate] using hcc
    have hk : b.filled + min n (T - b.filled) = T := by omega
    unfold BackInv create
    rw [if_pos hcc]
    refine ⟨hd, by simp only; omega, Nat.zero_le _, ?_⟩
    simp only
    rw [Nat.add_mul, Nat.one_mul]
    omega
  · unfold BackInv
    refine ⟨hd, hn, by simp only; omega, ?_⟩
    simp only
    omega

theorem offer_inv (T : Nat) (n fuel : Nat) : ∀ (b : Back), BackInv T b → BackInv T (Back.offer T b n fuel) := by
  induction fuel generalizing n with
  | zero => intro b h; exact h
  | succ k ih => intro b h; exact ih _ _ (call_inv T b n h)

theorem offer_mask (T : Nat) (n fuel : Nat) : ∀ (b : Back), (Back.offer T b n fuel).ring.mask = b.ring.mask := by
  induction fuel generalizing n with
  | zero => intro b; rfl
  | succ k ih => intro b; rw [Back.offer, ih, call_mask]

/-- **withheld input is bounded**: while no job has been retired, the bytes accepted never exceed (slots + 1) sections -/
theorem withheld_bounded (T : Nat) (b : Back) (h : BackInv T b) : b.accepted ≤ (b.ring.mask + 2) * T := by
  obtain ⟨_, hn, hf, ha⟩ := h
  have h1 : b.ring.next * T ≤ (b.ring.mask + 1) * T := Nat.mul_le_mul_right T hn
  have h2 : (b.ring.mask + 2) * T = (b.ring.mask + 1) * T + T := by
    rw [show b.ring.mask + 2 = (b.ring.mask + 1) + 1 by omega, Nat.add_mul, Nat.one_mul]
  omega

/-- **a new job never lands on a descriptor that is still in use**: when `canCreate` holds, the slot `next mod slots` differs from the
slot of every job created and not yet retired (`done ≤ j < next`) -/
theorem create_slot_free (r : Ring) (hc : canCreate r = true) (j : Nat) (hj : r.done ≤ j ∧ j < r.next) :
    j % (r.mask + 1) ≠ r.next % (r.mask + 1) := by
  have hcc : r.next ≤ r.done + r.mask := by simpa [canCreate] using hc
  intro heq
  have hz := Nat.sub_mod_eq_zero_of_mod_eq heq.symm
  have hlt : r.next - j < r.mask + 1 := by omega
  rw [Nat.mod_eq_of_lt hlt] at hz
  omega

/-- and a full ring (as many unretired jobs as descriptors) refuses the job: the state is unchanged -/
theorem full_ring_refuses (r : Ring) (h : r.next = r.done + r.mask + 1) : create r = r := by
  unfold create canCreate
  have : ¬ (r.next ≤ r.done + r.mask) := by omega
  simp [this]

end ZstdVerif.MT
