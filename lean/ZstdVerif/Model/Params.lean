/-
Model of the parameter interface (zstd_compress.c: ZSTD_CCtx_setParameter / ZSTD_CCtxParams_setParameter /
ZSTD_CCtx_getParameter / ZSTD_CCtx_reset, zstd_decompress.c: ZSTD_DCtx_setParameter / getParameter / reset).
The per-parameter behaviour (`PInfo.cls`, the bounds actually tested `ulo/uhi`, advertised bounds `lo/hi`,
defaults, mid-frame authorisation) is REGENERATED from the source by tools/gen.py on every run.
-/
import ZstdVerif.Gen.Bounds
import ZstdVerif.Gen.Consts

namespace ZstdVerif.Params
open ZstdVerif.Gen

/-- `ZSTD_cParam_clampBounds` : `if (v < lo) v = lo; if (v > hi) v = hi;` -/
def clampC (lo hi v : Int) : Int :=
  let v1 := if v < lo then lo else v
  if v1 > hi then hi else v1

/-- value stored (= value later read back) by the setter, or `none` when the call is rejected -/
def setVal (p : PInfo) (v : Int) : Option Int :=
  match p.cls with
  | .check => if p.ulo ≤ v ∧ v ≤ p.uhi then some v else none
  | .checkUnless0 => if v = 0 then some 0 else if p.ulo ≤ v ∧ v ≤ p.uhi then some v else none
  | .clamp => some (clampC p.ulo p.uhi v)
  | .boolNorm => some (if v ≠ 0 then 1 else 0)
  | .level =>
      let c := clampC p.ulo p.uhi v
      some (if c = 0 then ZSTD_CLEVEL_DEFAULT else c)
  | .jobSize =>
      let v1 := if v ≠ 0 ∧ v < (ZSTDMT_JOBSIZE_MIN : Int) then (ZSTDMT_JOBSIZE_MIN : Int) else v
      some (clampC p.ulo p.uhi v1)
  | .raiseMinUnless0 =>
      if v = 0 then some 0 else
        let v1 := if v < (ZSTD_TARGETCBLOCKSIZE_MIN : Int) then (ZSTD_TARGETCBLOCKSIZE_MIN : Int) else v
        if p.ulo ≤ v1 ∧ v1 ≤ p.uhi then some v1 else none
  | .zeroDefaultCheck =>
      let v1 := if v = 0 then (ZSTD_WINDOWLOG_LIMIT_DEFAULT : Int) else v
      if p.ulo ≤ v1 ∧ v1 ≤ p.uhi then some v1 else none
  | .unknown => none

/-- the documented normalisation of an in-range value (what `get` must return after `set v`) -/
def normalise (p : PInfo) (v : Int) : Int :=
  match p.cls with
  | .boolNorm => if v ≠ 0 then 1 else 0
  | .level => if v = 0 then ZSTD_CLEVEL_DEFAULT else v
  | .jobSize => if v ≠ 0 ∧ v < (ZSTDMT_JOBSIZE_MIN : Int) then (ZSTDMT_JOBSIZE_MIN : Int) else v
  | .raiseMinUnless0 => if v ≠ 0 ∧ v < (ZSTD_TARGETCBLOCKSIZE_MIN : Int) then (ZSTD_TARGETCBLOCKSIZE_MIN : Int) else v
  | .zeroDefaultCheck => if v = 0 then (ZSTD_WINDOWLOG_LIMIT_DEFAULT : Int) else v
  | _ => v

/-- 0 is documented as "use default" for these setters even when 0 lies outside the advertised range -/
def zeroMeansDefault (p : PInfo) : Bool :=
  match p.cls with
  | .checkUnless0 | .raiseMinUnless0 | .zeroDefaultCheck | .level => true
  | _ => false

/-- static well-formedness of one generated row: the setter tests against the parameter's OWN advertised
bounds, and the class-specific constants lie inside them.  Checked by `decide` over the generated tables. -/
def _root_.ZstdVerif.Gen.PInfo.wf (p : PInfo) : Bool :=
  p.supported && decide (p.ulo = p.lo) && decide (p.uhi = p.hi) && decide (p.lo ≤ p.hi) &&
  (match p.cls with
   | .unknown => false
   | .boolNorm => decide (p.lo = 0) && decide (p.hi = 1)
   | .level => decide (p.lo ≤ ZSTD_CLEVEL_DEFAULT) && decide (ZSTD_CLEVEL_DEFAULT ≤ p.hi) && decide (p.lo ≤ 0) && decide (0 ≤ p.hi)
   | .jobSize => decide (p.lo = 0) && decide ((ZSTDMT_JOBSIZE_MIN : Int) ≤ p.hi)
   | .raiseMinUnless0 => decide (p.lo ≤ (ZSTD_TARGETCBLOCKSIZE_MIN : Int)) && decide ((ZSTD_TARGETCBLOCKSIZE_MIN : Int) ≤ p.hi)
   | .zeroDefaultCheck => decide (p.lo ≤ (ZSTD_WINDOWLOG_LIMIT_DEFAULT : Int)) && decide ((ZSTD_WINDOWLOG_LIMIT_DEFAULT : Int) ≤ p.hi)
   | _ => true)

/-! ### Context state machine -/

inductive Err where
  | outOfBound | stage | unsupported
deriving DecidableEq, Repr

inductive Reset where
  | session | parameters | sessionAndParameters
deriving DecidableEq, Repr

structure Ctx where
  /-- stored values, aligned with the parameter list -/
  vals : List Int
  /-- a frame is in progress: input has been accepted (or output produced) for a frame that is neither complete nor dropped by a session
  reset.  In the code: `streamStage != zcss_init` / `zdss_init`, or - compression side, `ZSTD_c_stableInBuffer` - input reported as consumed
  whose compression is deferred (`stableIn_notConsumed != 0`) -/
  started : Bool
  /-- dictionaries / prefix referenced -/
  hasDict : Bool
deriving DecidableEq, Repr

def defaults (ps : List PInfo) : List Int := ps.map (·.dflt)

def fresh (ps : List PInfo) : Ctx := { vals := defaults ps, started := false, hasDict := false }

/-- `ZSTD_CCtx_setParameter` (isC = true) / `ZSTD_DCtx_setParameter` (isC = false) on parameter number `k` -/
def setParam (ps : List PInfo) (isC : Bool) (s : Ctx) (k : Nat) (v : Int) : Except Err Ctx :=
  match ps[k]? with
  | none => .error .unsupported
  | some p =>
    if s.started && !(isC && p.mid) then .error .stage
    else match setVal p v with
      | none => .error .outOfBound
      | some w => .ok { s with vals := s.vals.set k w }

def getParam (s : Ctx) (k : Nat) : Option Int := s.vals[k]?

/-! ### struct-level setters: ZSTD_CCtx_setCParams / ZSTD_CCtx_setFParams / ZSTD_CCtx_setParams -/

/-- the seven compression parameters in the order ZSTD_CCtx_setCParams stores them, and the three frame parameters of
ZSTD_CCtx_setFParams (public parameter IDs) -/
def cparamIds : List Nat := [101, 103, 102, 104, 105, 106, 107]
def fparamIds : List Nat := [200, 201, 202]

def indexOf (ps : List PInfo) (id : Nat) : Option Nat := ps.findIdx? (·.id == id)

/-- ZSTD_checkCParams on one field: strictly inside the advertised bounds (0 is NOT "default" here) -/
def strictlyInBounds (ps : List PInfo) (id : Nat) (v : Int) : Bool :=
  match indexOf ps id with
  | none => false
  | some k => match ps[k]? with
    | none => false
    | some p => decide (p.lo ≤ v) && decide (v ≤ p.hi)

/-- consecutive single-parameter sets; stops at the first refusal (earlier sets stay) -/
def setSeq (ps : List PInfo) (s : Ctx) : List (Nat × Int) → Except Err Ctx
  | [] => .ok s
  | (id, v) :: rest =>
    match indexOf ps id with
    | none => .error .unsupported
    | some k => match setParam ps true s k v with
      | .error e => .error e
      | .ok s' => setSeq ps s' rest

def checkCParamsStruct (ps : List PInfo) (cp : List Int) : Bool := (cparamIds.zip cp).all (fun (id, v) => strictlyInBounds ps id v)

/-- ZSTD_CCtx_setCParams: "only update if all parameters are valid" -/
def setCParams (ps : List PInfo) (s : Ctx) (cp : List Int) : Except Err Ctx :=
  if !checkCParamsStruct ps cp then .error .outOfBound else setSeq ps s (cparamIds.zip cp)

/-- ZSTD_CCtx_setFParams (contentSizeFlag != 0, checksumFlag != 0, dictIDFlag = !noDictIDFlag) -/
def setFParams (ps : List PInfo) (s : Ctx) (fp : List Int) : Except Err Ctx :=
  match fp with
  | [cs, ck, nd] => setSeq ps s [(200, if cs ≠ 0 then 1 else 0), (201, if ck ≠ 0 then 1 else 0), (202, if nd = 0 then 1 else 0)]
  | _ => .error .unsupported

/-- ZSTD_CCtx_setParams: "first check cParams, because we want to update all or none" -/
def setParamsAll (ps : List PInfo) (s : Ctx) (cp fp : List Int) : Except Err Ctx :=
  if !checkCParamsStruct ps cp then .error .outOfBound
  else match setFParams ps s fp with
    | .error e => .error e
    | .ok s1 => setSeq ps s1 (cparamIds.zip cp)

def startFrame (s : Ctx) : Ctx := { s with started := true }
def endFrame (s : Ctx) : Ctx := { s with started := false }

/-- `ZSTD_CCtx_reset` / `ZSTD_DCtx_reset` -/
def reset (ps : List PInfo) (s : Ctx) (r : Reset) : Except Err Ctx :=
  match r with
  | .session => .ok { s with started := false }
  | .parameters => if s.started then .error .stage else .ok { vals := defaults ps, started := false, hasDict := false }
  | .sessionAndParameters => .ok { vals := defaults ps, started := false, hasDict := false }

def loadDict (s : Ctx) : Except Err Ctx :=
  if s.started then .error .stage else .ok { s with hasDict := true }

/-- a WHOLE frame through an entry point that begins and completes it in one call (`ZSTD_compressSequences`, `ZSTD_compress2`,
`ZSTD_compressStream2(ZSTD_e_end)` returning 0): the context is back in the init stage, parameters and dictionaries untouched -/
def wholeFrame (s : Ctx) : Ctx := endFrame (startFrame s)

/-- the entry points that are legal in the init stage only and store nothing the parameter read-back shows
(`ZSTD_CCtx_setPledgedSrcSize`, `ZSTD_CCtx_refPrefix`, `ZSTD_CCtx_refCDict`, `ZSTD_CCtx_refThreadPool`) -/
def initStageOnly (s : Ctx) : Except Err Ctx :=
  if s.started then .error .stage else .ok s

/-! ### ZSTD_checkCParams on the generated level table -/

def boundsOfId (ps : List PInfo) (id : Nat) : Option (Int × Int) :=
  (ps.find? (·.id == id)).map (fun p => (p.lo, p.hi))

def within (ps : List PInfo) (id : Nat) (v : Nat) : Bool :=
  match boundsOfId ps id with
  | some (lo, hi) => decide (lo ≤ (v : Int)) && decide ((v : Int) ≤ hi)
  | none => false

/-- `ZSTD_checkCParams`: the seven BOUNDCHECKs (parameter ids 101..107) -/
def checkCParams (c : CPar) : Bool :=
  within cparams 101 c.windowLog && within cparams 103 c.chainLog && within cparams 102 c.hashLog &&
  within cparams 104 c.searchLog && within cparams 105 c.minMatch && within cparams 106 c.targetLength &&
  within cparams 107 c.strategy

end ZstdVerif.Params
