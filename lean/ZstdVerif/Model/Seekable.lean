/-
contrib/seekable_format: seek-table layout (writer and loader), cumulative offsets, offsetToFrameIndex binary search,
accessors.
-/
import ZstdVerif.Model.Bytes
import ZstdVerif.Model.XXH64
namespace ZstdVerif.Seekable

def SEEKABLE_MAGIC : Nat := 0x8F92EAB1
def SKIPPABLE_MAGIC_E : Nat := 0x184D2A5E

structure Entry where
  cSize : Nat
  dSize : Nat
  checksum : Nat := 0
deriving DecidableEq, Repr, Inhabited

/-- cumulative offsets: entry i = (cOffset_i, dOffset_i) for i = 0..n (n+1 entries, the last one is the end) -/
def cumulative (es : List Entry) : List (Nat × Nat) :=
  (es.foldl (fun (acc : List (Nat × Nat) × Nat × Nat) e => (acc.1 ++ [(acc.2.1 + e.cSize, acc.2.2 + e.dSize)], acc.2.1 + e.cSize, acc.2.2 + e.dSize)) ([(0, 0)], 0, 0)).1

def le32bytes (n : Nat) : List Nat := [n % 256, (n / 256) % 256, (n / 65536) % 256, (n / 16777216) % 256]

/-- ZSTD_seekable_writeSeekTable: skippable header, entries, footer -/
def serialize (es : List Entry) (checksumFlag : Bool) : List Nat :=
  let per := if checksumFlag then 12 else 8
  le32bytes SKIPPABLE_MAGIC_E ++ le32bytes (es.length * per + 9) ++
  es.flatMap (fun e => le32bytes e.cSize ++ le32bytes e.dSize ++ (if checksumFlag then le32bytes e.checksum else [])) ++
  le32bytes es.length ++ [if checksumFlag then 128 else 0] ++ le32bytes SEEKABLE_MAGIC

/-- the entries of a table of `n` records of `per` bytes whose skippable frame starts at `start` -/
def loadEntries (b : Bytes) (start per n : Nat) (ck : Bool) : List Entry :=
  (List.range n).map (fun i =>
    let p := start + 8 + i * per
    { cSize := b.le32 p, dSize := b.le32 (p + 4), checksum := if ck then b.le32 (p + 8) else 0 })

/-- ZSTD_seekable_loadSeekTable on a whole archive (memory mode), with its 32-bit arithmetic -/
def load (b : Bytes) : R (List Entry × Bool) :=
  let n := b.size
  if n < 9 then .error .generic
  else if b.le32 (n - 4) != SEEKABLE_MAGIC then .error .prefixUnknown
  else
    let sfd := b.u8 (n - 5)
    if (sfd >>> 2) &&& 0x1f != 0 then .error .corruption
    else
      let ck := sfd >>> 7 == 1
      let numFrames := b.le32 (n - 9)
      let per := if ck then 12 else 8
      let tableSize := (per * numFrames) % 4294967296          -- U32 multiplication
      let frameSize := (tableSize + 17) % 4294967296
      if frameSize > n then .error .generic                     -- seek before the beginning fails
      else
        let start := n - frameSize
        if b.le32 start != SKIPPABLE_MAGIC_E then .error .prefixUnknown
        else if (b.le32 (start + 4) + 8) % 4294967296 != frameSize then .error .prefixUnknown
        -- the loader then reads `numFrames` entries; with a wrapped size this runs off the end of the data (I/O error)
        else if per * numFrames + 17 != frameSize then .error .generic
        else .ok (loadEntries b start per numFrames ck, ck)

/-- ZSTD_seekTable_offsetToFrameIndex over the decompressed offsets `d 0 .. d n` -/
def searchLoop (d : Nat → Nat) (pos : Nat) : (fuel : Nat) → (lo hi : Nat) → Nat
  | 0, lo, _ => lo
  | fuel+1, lo, hi =>
    if lo + 1 < hi then
      let mid := lo + (hi - lo) / 2
      if d mid ≤ pos then searchLoop d pos fuel mid hi else searchLoop d pos fuel lo mid
    else lo

def offsetToFrameIndex (d : Nat → Nat) (n : Nat) (pos : Nat) : Nat :=
  if pos ≥ d n then n else searchLoop d pos n 0 n

/-- the checksum field ZSTD_seekable_endFrame logs for a frame (ZSTD_seekable_logFrame): the low 32 bits of XXH64 (seed 0) over the bytes the frame
REGENERATES, i.e. the part of the input the inner compressor consumed for it - `x[off, off+len)` -, 0 without the checksum flag -/
def frameChecksum (x : Bytes) (off len : Nat) (ck : Bool) : Nat :=
  if ck then (XXH64.hashRange x off len).toNat % 4294967296 else 0

/-- the frame log the writer must have produced for content `x` cut into frames of the decompressed sizes `ds` (whatever call history - input chunks,
output windows, explicit endFrame points - produced that cut): the checksum column is a function of the content and the cut alone -/
def expectedChecksums (x : Bytes) (ck : Bool) : (off : Nat) → (ds : List Nat) → List Nat
  | _, [] => []
  | off, d :: rest => frameChecksum x off d ck :: expectedChecksums x ck (off + d) rest

end ZstdVerif.Seekable
