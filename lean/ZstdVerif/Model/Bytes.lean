/-
Byte-level helpers shared by the format models (mem.h little-endian readers, error classes).
-/
namespace ZstdVerif

abbrev Bytes := ByteArray

/-- canonical image of ZSTD_ErrorCode used by the correspondence (classes, not codes) -/
inductive Err where
  | srcSizeWrong | dstTooSmall | corruption | corruptionAt (site : String) | srcSizeWrongAt (site : String) | checksumWrong | dictWrong | dictCorrupted
  | windowTooLarge | unsupported | prefixUnknown | tableLogTooLarge | literalsHeaderWrong | generic
  /-- the input is a legacy (v0.5–v0.7) frame: not modelled -/
  | legacy
  /-- rejected by the specification but known to be tolerated by some library paths (DESIGN Appendix A) -/
  | lax (what : String)
  /-- a checked access inside the model failed: must be unreachable -/
  | modelInternal (what : String)
deriving DecidableEq, Repr, Inhabited

def Err.cls : Err → String
  | .srcSizeWrong => "srcSize_wrong" | .dstTooSmall => "dstSize_tooSmall" | .corruption => "corruption"
  | .corruptionAt _ => "corruption" | .srcSizeWrongAt _ => "srcSize_wrong"
  | .checksumWrong => "checksum_wrong" | .dictWrong => "dictionary_wrong" | .dictCorrupted => "dictionary_corrupted"
  | .windowTooLarge => "window_too_large" | .unsupported => "unsupported" | .prefixUnknown => "prefix_unknown"
  | .tableLogTooLarge => "tableLog_tooLarge" | .literalsHeaderWrong => "literals_headerWrong" | .generic => "generic"
  | .legacy => "legacy" | .lax w => "lax:" ++ w | .modelInternal w => "MODEL-INTERNAL:" ++ w

/-- where the model rejected (debugging aid for the correspondence; not part of the compared class) -/
def Err.site : Err → String
  | .corruptionAt s => s | .srcSizeWrongAt s => s | _ => ""

abbrev R := Except Err

end ZstdVerif

namespace ByteArray
open ZstdVerif

/-- byte at `i` as a Nat (0 when out of range; every caller guards the range) -/
@[inline] def u8 (b : Bytes) (i : Nat) : Nat := if h : i < b.size then (b[i]'h).toNat else 0

@[inline] def le16 (b : Bytes) (i : Nat) : Nat := b.u8 i + (b.u8 (i+1) <<< 8)
@[inline] def le24 (b : Bytes) (i : Nat) : Nat := b.u8 i + (b.u8 (i+1) <<< 8) + (b.u8 (i+2) <<< 16)
@[inline] def le32 (b : Bytes) (i : Nat) : Nat := b.u8 i + (b.u8 (i+1) <<< 8) + (b.u8 (i+2) <<< 16) + (b.u8 (i+3) <<< 24)
@[inline] def le64 (b : Bytes) (i : Nat) : Nat := le32 b i + (le32 b (i+4) <<< 32)

def slice (b : Bytes) (start len : Nat) : Bytes := b.extract start (start + len)

def ofHex (s : String) : Bytes := Id.run do
  let cs := s.toList.toArray
  let mut out := ByteArray.empty
  let hv (c : Char) : Nat :=
    if '0' ≤ c ∧ c ≤ '9' then c.toNat - 48 else if 'a' ≤ c ∧ c ≤ 'f' then c.toNat - 87
    else if 'A' ≤ c ∧ c ≤ 'F' then c.toNat - 55 else 0
  let mut i := 0
  while i + 1 < cs.size do
    out := out.push (UInt8.ofNat (hv cs[i]! * 16 + hv cs[i+1]!))
    i := i + 2
  return out

def hexDigit (n : Nat) : Char := if n < 10 then Char.ofNat (48 + n) else Char.ofNat (87 + n)

def toHex (b : Bytes) : String := Id.run do
  let mut s := ""
  for x in b do
    s := s.push (hexDigit (x.toNat / 16))
    s := s.push (hexDigit (x.toNat % 16))
  return s

end ByteArray

namespace ZstdVerif

/-- position of the highest set bit (ZSTD_highbit32); 0 for 0 -/
def highbit (n : Nat) : Nat := Nat.log2 n

end ZstdVerif
