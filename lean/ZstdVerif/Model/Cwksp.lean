/-
Model of the compression workspace (lib/compress/zstd_cwksp.h): a two-ended bump allocator.
Objects grow up from `lo`; after the object phase the table area starts at the next 64-byte boundary and grows up;
aligned blocks and buffers grow down from `hi` rounded down to 64.  Addresses are absolute (`Nat`), so alignment of the
caller's memory is part of the model.  The non-ASan sizing rule is modelled (ZSTD_cwksp_alloc_size n = n).
-/
namespace ZstdVerif.Cwksp

structure Ws where
  lo : Nat
  hi : Nat
  objectEnd : Nat
  tableEnd : Nat
  allocStart : Nat
  /-- 0 objects, 1 aligned_init_once, 2 aligned, 3 buffers -/
  phase : Nat
  failed : Bool
deriving Repr, DecidableEq

/-- ZSTD_cwksp_align (a is a power of two in the code; the model only needs a > 0) -/
def align (n a : Nat) : Nat := (n + (a - 1)) / a * a

/-- ZSTD_cwksp_initialAllocStart -/
def initialAllocStart (hi : Nat) : Nat := hi - hi % 64

/-- ZSTD_cwksp_init (+ the ZSTD_cwksp_clear it performs) -/
def init (lo size : Nat) : Ws :=
  { lo := lo, hi := lo + size, objectEnd := lo, tableEnd := lo, allocStart := initialAllocStart (lo + size), phase := 0, failed := false }

/-- ZSTD_cwksp_clear: invalidates tables, aligned blocks and buffers; objects stay -/
def clear (w : Ws) : Ws :=
  { w with tableEnd := w.objectEnd, allocStart := initialAllocStart w.hi, failed := false, phase := if w.phase > 1 then 1 else w.phase }

inductive Req where
  | object (n : Nat)
  | table (n : Nat)
  | aligned (n : Nat) (initOnce : Bool)
  | buffer (n : Nat)
deriving Repr, DecidableEq

/-- ZSTD_cwksp_internal_advance_phase; `none` = the alignment step of the table area does not fit (error return) -/
def advance (w : Ws) (phase : Nat) : Option Ws :=
  if phase > w.phase then
    if w.phase < 1 ∧ phase ≥ 1 then
      let oe := w.objectEnd + (64 - w.objectEnd % 64) % 64
      if oe > w.hi then none else some { w with objectEnd := oe, tableEnd := oe, phase := phase }
    else some { w with phase := phase }
  else some w

/-- ZSTD_cwksp_reserve_internal_buffer_space -/
def reserveDown (w : Ws) (bytes : Nat) : Ws × Option (Nat × Nat) :=
  if w.allocStart < w.tableEnd + bytes then ({ w with failed := true }, none)
  else ({ w with allocStart := w.allocStart - bytes }, some (w.allocStart - bytes, bytes))

/-- ZSTD_cwksp_reserve_internal: NULL without `allocFailed` when the phase advance fails or bytes = 0 -/
def reserveInternal (w : Ws) (bytes phase : Nat) : Ws × Option (Nat × Nat) :=
  match advance w phase with
  | none => (w, none)
  | some w1 => if bytes = 0 then (w1, none) else reserveDown w1 bytes

/-- one reservation: new state and the region handed out (start, size), `none` = NULL -/
def step (w : Ws) : Req → Ws × Option (Nat × Nat)
  | .object n =>
      let r := align n 8
      if w.phase ≠ 0 ∨ w.objectEnd + r > w.hi then ({ w with failed := true }, none)
      else ({ w with objectEnd := w.objectEnd + r, tableEnd := w.objectEnd + r }, some (w.objectEnd, r))
  | .table n =>
      match (if w.phase < 1 then advance w 1 else some w) with
      | none => (w, none)
      | some w1 =>
        if w1.tableEnd + n > w1.allocStart then ({ w1 with failed := true }, none)
        else ({ w1 with tableEnd := w1.tableEnd + n }, some (w1.tableEnd, n))
  | .aligned n io => reserveInternal w (align n 64) (if io then 1 else 2)
  | .buffer n => reserveInternal w n 3

/-- bytes a request consumes when it succeeds -/
def Req.bytes : Req → Nat
  | .object n => align n 8
  | .table n => n
  | .aligned n _ => align n 64
  | .buffer n => n

def need (rs : List Req) : Nat := (rs.map Req.bytes).sum

/-- run a reservation sequence; collects the regions handed out; `nulls` counts NULL results for non-empty requests -/
def run (w : Ws) : List Req → Ws × List (Nat × Nat) × Nat
  | [] => (w, [], 0)
  | r :: rs =>
    let (w1, reg) := step w r
    let (w2, regs, nulls) := run w1 rs
    match reg with
    | some g => (w2, g :: regs, nulls)
    | none => (w2, regs, if r.bytes = 0 then nulls else nulls + 1)

/-- ZSTD_cwksp_used -/
def used (w : Ws) : Nat := (w.tableEnd - w.lo) + (w.hi - w.allocStart)

def isObject : Req → Bool
  | .object _ => true
  | _ => false

/-- objects come first (the code reserves them once, right after creating the workspace) -/
def objectsFirst : List Req → Bool
  | [] => true
  | r :: rs => if isObject r then objectsFirst rs else rs.all (fun q => !isObject q)

/-- the order the compressor uses: aligned blocks before plain buffers (a buffer of odd size would un-align what follows) -/
def isBuffer : Req → Bool
  | .buffer _ => true
  | _ => false

end ZstdVerif.Cwksp
