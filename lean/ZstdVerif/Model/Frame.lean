/-
Frame layer (zstd_decompress.c): ZSTD_getFrameHeader_advanced, ZSTD_frameHeaderSize_internal, ZSTD_getcBlockSize,
ZSTD_decompressFrame, ZSTD_decompressMultiFrame, skippable frames, ZSTD_findFrameCompressedSize /
ZSTD_decompressBound walkers.
-/
import ZstdVerif.Model.Block
import ZstdVerif.Model.XXH64
namespace ZstdVerif.Frame
open ZstdVerif.Gen

structure Header where
  skippable : Bool := false
  headerSize : Nat := 0
  windowSize : Nat := 0
  fcs : Option Nat := none          -- frame content size (for skippable: payload size)
  dictID : Nat := 0
  checksum : Bool := false
  singleSegment : Bool := false
  blockSizeMax : Nat := 0
  descriptor : Nat := 0
  windowByte : Option Nat := none
deriving Repr, Inhabited, DecidableEq

inductive HdrResult where
  | ok (h : Header)
  | need (n : Nat)             -- more input needed: total header size wanted
  | err (e : Err)
deriving Repr, Inhabited

def isLegacyMagic (m : Nat) : Bool := m ≥ 0xFD2FB522 && m ≤ 0xFD2FB527

/-- ZSTD_frameHeaderSize_internal (srcSize ≥ minInputSize assumed checked by the caller) -/
def headerSizeOf (fhd : Nat) (magicless : Bool) : Nat :=
  let minIn := if magicless then 1 else 5
  let dictCode := fhd &&& 3
  let single := (fhd >>> 5) &&& 1
  let fcsId := fhd >>> 6
  minIn + (1 - single) + ZSTD_did_fieldSize.getD dictCode 0 + ZSTD_fcs_fieldSize.getD fcsId 0 + (if single == 1 && fcsId == 0 then 1 else 0)

/-- the fields behind the descriptor byte (second half of ZSTD_getFrameHeader_advanced): `pos0` = first byte after the descriptor -/
def parseFields (src : Bytes) (pos0 fhd fh : Nat) : HdrResult :=
  let dictCode := fhd &&& 3
  let checksum := (fhd >>> 2) &&& 1 == 1
  let single := (fhd >>> 5) &&& 1 == 1
  let fcsId := fhd >>> 6
  let wlByte := src.u8 pos0
  let windowLog := (wlByte >>> 3) + ZSTD_WINDOWLOG_ABSOLUTEMIN
  if !single && windowLog > ZSTD_WINDOWLOG_MAX then .err .windowTooLarge
  else
    let ws0 := 1 <<< windowLog
    let ws := ws0 + (ws0 >>> 3) * (wlByte &&& 7)
    let pos1 := if single then pos0 else pos0 + 1
    let dictID := match dictCode with
      | 0 => 0 | 1 => src.u8 pos1 | 2 => src.le16 pos1 | _ => src.le32 pos1
    let pos2 := pos1 + ZSTD_did_fieldSize.getD dictCode 0
    let fcs : Option Nat := match fcsId with
      | 0 => if single then some (src.u8 pos2) else none
      | 1 => some (src.le16 pos2 + 256)
      | 2 => some (src.le32 pos2)
      | _ => some (src.le64 pos2)
    let windowSize := if single then fcs.getD 0 else ws
    .ok { headerSize := fh, windowSize := windowSize, fcs := fcs, dictID := dictID, checksum := checksum, singleSegment := single,
          blockSizeMax := min windowSize ZSTD_BLOCKSIZE_MAX, descriptor := fhd, windowByte := if single then none else some wlByte }

/-- ZSTD_getFrameHeader_advanced on `src[start, start+srcSize)` -/
def getHeader (src : Bytes) (start srcSize : Nat) (magicless : Bool := false) : HdrResult :=
  let minIn := if magicless then 1 else 5
  if srcSize < minIn then
    if srcSize > 0 && !magicless then
      -- partial magic must be a prefix of the zstd magic or of a skippable magic
      let want := ZSTD_MAGICNUMBER
      let okZ := (List.range srcSize).all fun k => src.u8 (start + k) == (want >>> (8 * k)) &&& 0xFF
      let wantS := ZSTD_MAGIC_SKIPPABLE_START
      let okS := (List.range srcSize).all fun k =>
        if k == 0 then (src.u8 start) &&& 0xF0 == wantS &&& 0xF0 else src.u8 (start + k) == (wantS >>> (8 * k)) &&& 0xFF
      if okZ || okS then .need minIn else .err .prefixUnknown
    else .need minIn
  else
    let magic := src.le32 start
    if !magicless && magic != ZSTD_MAGICNUMBER then
      if magic &&& ZSTD_MAGIC_SKIPPABLE_MASK == ZSTD_MAGIC_SKIPPABLE_START then
        if srcSize < ZSTD_SKIPPABLEHEADERSIZE then .need ZSTD_SKIPPABLEHEADERSIZE
        else .ok { skippable := true, headerSize := ZSTD_SKIPPABLEHEADERSIZE, fcs := some (src.le32 (start + 4)), dictID := magic - ZSTD_MAGIC_SKIPPABLE_START }
      else .err .prefixUnknown
    else
      let fhd := src.u8 (start + minIn - 1)
      let fh := headerSizeOf fhd magicless
      if srcSize < fh then .need fh
      else if fhd &&& 0x08 != 0 then .err .unsupported
      else parseFields src (start + minIn) fhd fh

structure BlockHdr where
  last : Bool
  ty : Nat            -- 0 raw, 1 rle, 2 compressed, 3 reserved
  cSize : Nat         -- bytes the block body occupies in the input
  origSize : Nat      -- the 21-bit size field
deriving Repr, Inhabited

/-- ZSTD_getcBlockSize -/
def blockHeader (src : Bytes) (ip remaining : Nat) : R BlockHdr :=
  if remaining < ZSTD_blockHeaderSize then .error .srcSizeWrong
  else
    let h := src.le24 ip
    let ty := (h >>> 1) &&& 3
    let sz := h >>> 3
    if ty == 3 then .error (.corruptionAt "Frame:104")
    else .ok { last := h &&& 1 == 1, ty := ty, cSize := if ty == 1 then 1 else sz, origSize := sz }

structure BlockTrace where
  hdr : BlockHdr
  regen : Nat
  tr : Option Block.Trace
deriving Inhabited

structure FrameTrace where
  hdr : Header
  start : Nat                 -- offset of the frame in the input
  size : Nat                  -- compressed size of the frame
  regenStart : Nat
  regenSize : Nat
  blocks : Array BlockTrace
  storedChecksum : Option Nat
deriving Inhabited

structure Dict where
  id : Nat := 0
  content : Bytes := ByteArray.empty
  ent : Block.Entropy := {}
deriving Inhabited

structure Opts where
  magicless : Bool := false
  ignoreChecksum : Bool := false
  maxBlockSize : Nat := 0        -- ZSTD_d_maxBlockSize (0 = none)

/-- ZSTD_decompressFrame: decodes one zstd frame at `ip`; returns (output, bytes consumed, trace) -/
def decompressFrame (src : Bytes) (ip0 remaining0 : Nat) (dict : Dict) (out0 : ByteArray) (cap : Nat) (o : Opts) :
    R (ByteArray × Nat × FrameTrace) := do
  let minHdr := if o.magicless then 2 else 6
  if remaining0 < minHdr + ZSTD_blockHeaderSize then throw (.srcSizeWrongAt "Frame:138")
  let fhd := src.u8 (ip0 + (if o.magicless then 0 else 4))
  let fhSize := headerSizeOf fhd o.magicless
  if remaining0 < fhSize + ZSTD_blockHeaderSize then throw (.srcSizeWrongAt "Frame:141")
  let h ← match getHeader src ip0 fhSize o.magicless with
    | .ok h => if h.skippable then throw .prefixUnknown else pure h
    | .need _ => throw (.srcSizeWrongAt "Frame:144")
    | .err e => throw e
  if h.dictID != 0 && dict.id != h.dictID then throw .dictWrong
  let blockSizeMax := if o.maxBlockSize != 0 then min h.blockSizeMax o.maxBlockSize else h.blockSizeMax
  let frameStart := out0.size
  let mut ip := ip0 + fhSize
  let mut remaining := remaining0 - fhSize
  let mut out := out0
  let mut ent := dict.ent
  let mut blocks : Array BlockTrace := #[]
  let mut lax : Option String := none
  -- one iteration per block; every block consumes at least its 3-byte header
  for _ in [0:remaining0] do
    let bh ← blockHeader src ip remaining
    ip := ip + ZSTD_blockHeaderSize
    remaining := remaining - ZSTD_blockHeaderSize
    if bh.cSize > remaining then throw (.srcSizeWrongAt "Frame:160")
    let before := out.size
    let mut btr : Option Block.Trace := none
    if bh.ty == 2 then
      let (out', ent', tr) ← Block.decodeBlock src ip bh.cSize ent dict.content { out := out, frameStart := frameStart, cap := cap } blockSizeMax
      out := out'
      ent := ent'
      btr := some tr
    else if bh.ty == 0 then
      if bh.cSize > cap - out.size then throw .dstTooSmall
      out := out ++ src.extract ip (ip + bh.cSize)
    else
      if bh.origSize > cap - out.size then throw .dstTooSmall
      out := out ++ ByteArray.mk (Array.replicate bh.origSize (UInt8.ofNat (src.u8 ip)))
    if out.size - before > blockSizeMax && lax.isNone then
      lax := some "block regenerates more than Block_Maximum_Size"
    blocks := blocks.push { hdr := bh, regen := out.size - before, tr := btr }
    ip := ip + bh.cSize
    remaining := remaining - bh.cSize
    if bh.last then break
  if !((blocks.back?.map (·.hdr.last)).getD false) then throw (.srcSizeWrongAt "Frame:180")
  match h.fcs with
  | some n => if out.size - frameStart != n then throw (.corruptionAt "Frame:182")
  | none => pure ()
  let mut storedCk : Option Nat := none
  if h.checksum then
    if remaining < 4 then throw .checksumWrong
    let rd := src.le32 ip
    storedCk := some rd
    if !o.ignoreChecksum then
      let ck := (XXH64.hashRange out frameStart (out.size - frameStart)).toNat &&& 0xFFFFFFFF
      if rd != ck then throw .checksumWrong
    ip := ip + 4
    remaining := remaining - 4
  match lax with
  | some w => throw (.lax w)
  | none => pure ()
  return (out, ip - ip0, { hdr := h, start := ip0, size := ip - ip0, regenStart := frameStart, regenSize := out.size - frameStart,
                           blocks := blocks, storedChecksum := storedCk })

/-- decode a PREFIX of a single frame that ends on a block boundary (what a completed flush must make decodable):
header + complete blocks; stops cleanly when the input ends at a block boundary (or after the last block + checksum) -/
def decompressPrefix (src : Bytes) (dict : Dict) (cap : Nat) (o : Opts := {}) : R ByteArray := do
  if src.size == 0 then return ByteArray.empty
  let fhd := src.u8 (if o.magicless then 0 else 4)
  let fhSize := headerSizeOf fhd o.magicless
  let h ← match getHeader src 0 src.size o.magicless with
    | .ok h => if h.skippable then throw .prefixUnknown else pure h
    | .need _ => throw .srcSizeWrong
    | .err e => throw e
  let blockSizeMax := if o.maxBlockSize != 0 then min h.blockSizeMax o.maxBlockSize else h.blockSizeMax
  let mut ip := fhSize
  let mut out := ByteArray.empty
  let mut ent := dict.ent
  for _ in [0:src.size] do
    if ip == src.size then break
    let bh ← blockHeader src ip (src.size - ip)
    ip := ip + ZSTD_blockHeaderSize
    if bh.cSize > src.size - ip then throw .srcSizeWrong
    if bh.ty == 2 then
      let (out', ent', _) ← Block.decodeBlock src ip bh.cSize ent dict.content { out := out, frameStart := 0, cap := cap } blockSizeMax
      out := out'
      ent := ent'
    else if bh.ty == 0 then
      if bh.cSize > cap - out.size then throw .dstTooSmall
      out := out ++ src.extract ip (ip + bh.cSize)
    else
      if bh.origSize > cap - out.size then throw .dstTooSmall
      out := out ++ ByteArray.mk (Array.replicate bh.origSize (UInt8.ofNat (src.u8 ip)))
    ip := ip + bh.cSize
    if bh.last then break
  return out

/-- readSkippableFrameSize -/
def skippableSize (src : Bytes) (ip remaining : Nat) : R Nat :=
  if remaining < ZSTD_SKIPPABLEHEADERSIZE then .error .srcSizeWrong
  else
    let sz := src.le32 (ip + 4)
    if sz + ZSTD_SKIPPABLEHEADERSIZE ≥ 4294967296 then .error .unsupported
    else if sz + ZSTD_SKIPPABLEHEADERSIZE > remaining then .error .srcSizeWrong
    else .ok (sz + ZSTD_SKIPPABLEHEADERSIZE)

/-- ZSTD_decompressMultiFrame = ZSTD_decompress / ZSTD_decompress_usingDict / ZSTD_decompressDCtx -/
def decompressAll (src : Bytes) (dict : Dict) (cap : Nat) (o : Opts := {}) : R (ByteArray × Array FrameTrace) := do
  let startLen := if o.magicless then 1 else 5
  let mut ip := 0
  let mut remaining := src.size
  let mut out := ByteArray.empty
  let mut traces : Array FrameTrace := #[]
  let mut more := false
  for _ in [0:src.size + 1] do
    if remaining < startLen then break
    if !o.magicless && remaining ≥ 4 then
      let magic := src.le32 ip
      if isLegacyMagic magic then throw .legacy
      if magic &&& ZSTD_MAGIC_SKIPPABLE_MASK == ZSTD_MAGIC_SKIPPABLE_START then
        let sk ← skippableSize src ip remaining
        traces := traces.push { hdr := { skippable := true, headerSize := 8, fcs := some (sk - 8), dictID := magic - ZSTD_MAGIC_SKIPPABLE_START },
                                start := ip, size := sk, regenStart := out.size, regenSize := 0, blocks := #[], storedChecksum := none }
        ip := ip + sk
        remaining := remaining - sk
        continue
    match decompressFrame src ip remaining dict out cap o with
    | .error .prefixUnknown => if more then throw (.srcSizeWrongAt "Frame:230") else throw .prefixUnknown
    | .error e => throw e
    | .ok (out', used, tr) =>
      out := out'
      ip := ip + used
      remaining := remaining - used
      traces := traces.push tr
      more := true
  if remaining != 0 then throw (.srcSizeWrongAt "Frame:238")
  return (out, traces)

/-- ZSTD_findFrameCompressedSize: walks headers only -/
def findFrameCompressedSize (src : Bytes) (ip0 remaining0 : Nat) (magicless : Bool := false) : R Nat := do
  if !magicless && remaining0 ≥ 4 && isLegacyMagic (src.le32 ip0) then throw .legacy
  if !magicless && remaining0 ≥ 8 && (src.le32 ip0) &&& ZSTD_MAGIC_SKIPPABLE_MASK == ZSTD_MAGIC_SKIPPABLE_START then
    skippableSize src ip0 remaining0
  else
    let h ← match getHeader src ip0 remaining0 magicless with
      | .ok h => pure h
      | .need _ => throw (.srcSizeWrongAt "Frame:248")
      | .err e => throw e
    if h.skippable then throw (.srcSizeWrongAt "Frame:250")
    let mut ip := ip0 + h.headerSize
    let mut remaining := remaining0 - h.headerSize
    let mut doneLast := false
    for _ in [0:remaining0] do
      let bh ← blockHeader src ip remaining
      if ZSTD_blockHeaderSize + bh.cSize > remaining then throw (.srcSizeWrongAt "Frame:256")
      ip := ip + ZSTD_blockHeaderSize + bh.cSize
      remaining := remaining - (ZSTD_blockHeaderSize + bh.cSize)
      if bh.last then
        doneLast := true
        break
    if !doneLast then throw (.srcSizeWrongAt "Frame:262")
    if h.checksum then
      if remaining < 4 then throw (.srcSizeWrongAt "Frame:264")
      ip := ip + 4
    return ip - ip0

end ZstdVerif.Frame
