/-
WRITER of the normalised-count header of an FSE table ("FSE table description"): lib/compress/fse_compress.c,
FSE_writeNCount_generic (called through FSE_writeNCount by ZSTD_buildCTable, zstd_compress_sequences.c, case set_compressed, and by
HUF_compressWeights / ZDICT).  Transcribed literally: the 32-bit bit container `bitStream` / `bitCount`, flushed 16 bits at a time
into `out`; the C `while` loops are recursive functions with a fuel argument that is never exhausted (said at each loop).

Where the C code relies on 32-bit wrap-around (`U32 bitStream`, `bitStream += x << bitCount`) the model reduces `% 2^32` explicitly
(`add32`); `Lemmas/NCountRT.lean` shows that for `tableLog ≤ 12` no reduction ever happens (`bitCount ≤ 32` at every addition).
Not modelled: the destination capacity (`writeIsSafe`, `dstSize_tooSmall`): the model writes into an unbounded buffer, i.e. it is the
function called with `bufferSize ≥ FSE_NCountWriteBound(maxSymbolValue, tableLog)`.
Core imports only.  Reader side: Model/FSE.lean `readNCount`; round trip: Lemmas/NCountRT.lean `ncount_roundtrip`.
-/
import ZstdVerif.Model.Bytes
import ZstdVerif.Gen.Consts
namespace ZstdVerif.NCountW

/-- the bit container of FSE_writeNCount_generic and the bytes it has been flushed into -/
structure BC where
  /-- the bytes written so far (`ostart .. out`) -/
  out : ByteArray
  /-- `U32 bitStream` -/
  bitStream : Nat
  /-- `int bitCount` (never negative) -/
  bitCount : Nat
deriving Inhabited

/-- `bitStream += x` on a `U32`: the one place where the C code relies on 32-bit wrap-around -/
@[inline] def add32 (bitStream x : Nat) : Nat := (bitStream + x) % 2 ^ 32

/-- `bitStream += x << bitCount;` -/
@[inline] def BC.addS (c : BC) (x : Nat) : BC := { c with bitStream := add32 c.bitStream (x <<< c.bitCount) }

/-- `bitCount += n;` -/
@[inline] def BC.incr (c : BC) (n : Nat) : BC := { c with bitCount := c.bitCount + n }

/-- `out[0] = (BYTE)bitStream; out[1] = (BYTE)(bitStream>>8); out += 2; bitStream >>= 16;` -/
@[inline] def BC.flush16 (c : BC) : BC :=
  { c with out := (c.out.push (UInt8.ofNat c.bitStream)).push (UInt8.ofNat (c.bitStream >>> 8)), bitStream := c.bitStream >>> 16 }

/-- `if (bitCount>16) { out[0] = ..; out[1] = ..; out += 2; bitStream >>= 16; bitCount -= 16; }` -/
@[inline] def BC.flushIfOver16 (c : BC) : BC :=
  if c.bitCount > 16 then { c.flush16 with bitCount := c.bitCount - 16 } else c

/-- loop state of FSE_writeNCount_generic -/
structure WS where
  /-- `out`, `bitStream`, `bitCount` -/
  c : BC
  /-- `unsigned symbol` -/
  symbol : Nat
  /-- `int remaining` -/
  remaining : Int
  /-- `int threshold` -/
  threshold : Int
  /-- `int nbBits` (never negative: `threshold == 1 << (nbBits-1)` as long as `threshold ≥ 1`) -/
  nbBits : Nat
  /-- `int previousIs0` -/
  previousIs0 : Bool
deriving Inhabited

/-- `while ((symbol < alphabetSize) && !normalizedCounter[symbol]) symbol++;` (fuel: at most `alphabetSize` steps) -/
def skipZeroCounts (norm : Array Int) (alphabetSize : Nat) : Nat → Nat → Nat
  | 0, symbol => symbol
  | fuel + 1, symbol =>
    if symbol < alphabetSize ∧ norm[symbol]! = 0 then skipZeroCounts norm alphabetSize fuel (symbol + 1) else symbol

/-- `while (symbol >= start+24) { start+=24; bitStream += 0xFFFFU << bitCount; out[0] = ..; out[1] = ..; out+=2; bitStream>>=16; }`
(24 zero counts = eight 2-bit fields `11`; `symbol` is the end of the run; returns the container and `start`; fuel: at most
`symbol / 24` steps) -/
def run24 (symbol : Nat) : Nat → BC → Nat → BC × Nat
  | 0, c, start => (c, start)
  | fuel + 1, c, start =>
    if symbol ≥ start + 24 then run24 symbol fuel (c.addS 0xFFFF).flush16 (start + 24) else (c, start)

/-- `while (symbol >= start+3) { start+=3; bitStream += 3U << bitCount; bitCount += 2; }` (3 zero counts = one 2-bit field `11`;
fuel: at most 7 steps behind `run24`) -/
def run3 (symbol : Nat) : Nat → BC → Nat → BC × Nat
  | 0, c, start => (c, start)
  | fuel + 1, c, start =>
    if symbol ≥ start + 3 then run3 symbol fuel ((c.addS 3).incr 2) (start + 3) else (c, start)

/-- FSE_writeNCount_generic, the `if (previousIs0)` part of one turn of the main loop: the run of zero counts that follows a zero
count.  `none` is the C `break` at `symbol == alphabetSize` ("incorrect distribution": the run reaches the end of the alphabet). -/
def zeroRun (norm : Array Int) (alphabetSize : Nat) (s : WS) : Option WS :=
  let start := s.symbol
  let symbol := skipZeroCounts norm alphabetSize alphabetSize s.symbol
  if symbol == alphabetSize then none else
  let r1 := run24 symbol (symbol / 24 + 1) s.c start
  let r2 := run3 symbol 8 r1.1 r1.2
  -- `bitStream += (symbol-start) << bitCount; bitCount += 2; if (bitCount>16) { flush }`
  some { s with c := ((r2.1.addS (symbol - r2.2)).incr 2).flushIfOver16, symbol := symbol }

/-- `while (remaining<threshold) { nbBits--; threshold>>=1; }` (fuel 32: `threshold` is an `int`) -/
def shrink (remaining : Int) : Nat → Nat → Int → Nat × Int
  | 0, nbBits, threshold => (nbBits, threshold)
  | fuel + 1, nbBits, threshold =>
    if remaining < threshold then shrink remaining fuel (nbBits - 1) (threshold / 2) else (nbBits, threshold)

/-- `int const max = (2*threshold-1) - remaining;` -/
@[inline] def maxOf (s : WS) : Int := (2 * s.threshold - 1) - s.remaining

/-- `count = normalizedCounter[symbol]; count++; if (count>=threshold) count += max;`: the value of the count field -/
@[inline] def countOf (norm : Array Int) (s : WS) : Int :=
  if norm[s.symbol]! + 1 ≥ s.threshold then norm[s.symbol]! + 1 + maxOf s else norm[s.symbol]! + 1

/-- `remaining -= count < 0 ? -count : count;` -/
@[inline] def remOf (norm : Array Int) (s : WS) : Int :=
  s.remaining - (if norm[s.symbol]! < 0 then -norm[s.symbol]! else norm[s.symbol]!)

/-- FSE_writeNCount_generic, the second part of one turn of the main loop: the variable-length field of one count
(`bitStream += (U32)count << bitCount; bitCount += nbBits; bitCount -= (count<max); previousIs0 = (count==1);`).
`none` is `if (remaining<1) return ERROR(GENERIC)`. -/
def writeCount (norm : Array Int) (s : WS) : Option WS :=
  if remOf norm s < 1 then none else
  some { s with c := ((s.c.addS (countOf norm s % 4294967296).toNat).incr
                        (s.nbBits - (if countOf norm s < maxOf s then 1 else 0))).flushIfOver16
                symbol := s.symbol + 1
                remaining := remOf norm s
                previousIs0 := countOf norm s == 1
                nbBits := (shrink (remOf norm s) 32 s.nbBits s.threshold).1
                threshold := (shrink (remOf norm s) 32 s.nbBits s.threshold).2 }

/-- what one turn of the main loop does -/
inductive Turn where
  /-- the turn ran to its end -/
  | next (s : WS)
  /-- `if (symbol == alphabetSize) break;` -/
  | brk (s : WS)
  /-- `return ERROR(GENERIC)` -/
  | err

/-- one turn of `while ((symbol < alphabetSize) && (remaining>1))` -/
def turn (norm : Array Int) (alphabetSize : Nat) (s : WS) : Turn :=
  if s.previousIs0 then
    match zeroRun norm alphabetSize s with
    | none => .brk { s with symbol := alphabetSize }
    | some s1 =>
      match writeCount norm s1 with
      | none => .err
      | some s2 => .next s2
  else
    match writeCount norm s with
    | none => .err
    | some s2 => .next s2

/-- `while ((symbol < alphabetSize) && (remaining>1)) { ... }` (fuel: every turn moves `symbol` forward, at most `alphabetSize`
turns); `none` = `ERROR(GENERIC)` -/
def mainLoop (norm : Array Int) (alphabetSize : Nat) : Nat → WS → Option WS
  | 0, s => some s
  | fuel + 1, s =>
    if s.symbol < alphabetSize ∧ s.remaining > 1 then
      match turn norm alphabetSize s with
      | .next s1 => mainLoop norm alphabetSize fuel s1
      | .brk s1 => some s1
      | .err => none
    else some s

/-- the state in front of the main loop: the 4-bit field `tableLog - FSE_MIN_TABLELOG` (an `unsigned` subtraction), then
`remaining = tableSize+1; threshold = tableSize; nbBits = tableLog+1` -/
def initState (tableLog : Nat) : WS :=
  { c := ((BC.mk ByteArray.empty 0 0).addS ((tableLog + 2 ^ 32 - Gen.FSE_MIN_TABLELOG) % 2 ^ 32)).incr 4
    symbol := 0
    remaining := ((1 <<< tableLog : Nat) : Int) + 1
    threshold := ((1 <<< tableLog : Nat) : Int)
    nbBits := tableLog + 1
    previousIs0 := false }

/-- FSE_writeNCount_generic(header, (large enough), normalizedCounter, maxSymbolValue = alphabetSize - 1, tableLog, writeIsSafe = 1):
`none` = `ERROR(GENERIC)` ("incorrect normalized distribution"), otherwise the `out - ostart` bytes of the description.
The last flush writes two bytes and keeps `(bitCount+7)/8` of them. -/
def writeNCountGeneric (norm : Array Int) (alphabetSize tableLog : Nat) : Option ByteArray :=
  match mainLoop norm alphabetSize alphabetSize (initState tableLog) with
  | none => none
  | some s =>
    if s.remaining != 1 then none else
    some (s.c.flush16.out.extract 0 (s.c.out.size + (s.c.bitCount + 7) / 8))

/-- FSE_writeNCount as ZSTD_buildCTable calls it: `maxSymbolValue` = index of the last count of `norm` (ZSTD_buildCTable passes the `max`
that HIST_countFast_wksp returned: the largest symbol that occurs, whose normalised count is not zero) -/
def writeNCount? (norm : Array Int) (tableLog : Nat) : Option ByteArray := writeNCountGeneric norm norm.size tableLog

/-- the description bytes; empty where the C function returns an error -/
def writeNCount (norm : Array Int) (tableLog : Nat) : ByteArray := (writeNCount? norm tableLog).getD ByteArray.empty

end ZstdVerif.NCountW
