/-
The file-operation protocol of the zstd command-line tool (programs/fileio.c: FIO_compressFilename_srcFile/dstFile,
FIO_decompressSrcFile/DstFile, FIO_openDstFile, FIO_removeFile, the --rm gating of zstdcli.c, the SIGINT handler window),
at the granularity of the system calls that can lose data: open, close, unlink, the handler installation, exit.
Reads and writes are abstracted: a destination becomes `complete` when it is closed after the codec reported success.
-/
namespace ZstdVerif.Cli

inductive Mode where | compress | decompress | test
deriving DecidableEq, Repr

structure Inv where
  mode : Mode
  files : List String
  force : Bool := false
  rm : Bool := false
  toStdout : Bool := false
  outName : Option String := none
  /-- display level: 0 = -qq, 1 = -q, 2 = default, 3 = -v.  It decides whether a question is asked at all (fileio.c:
  FIO_multiFilesConcatWarning, FIO_openDstFile); it must never decide anything else about the files -/
  level : Nat := 1
  /-- the answer read from stdin when a confirmation is asked for ("y" = true; "n", anything else, end of file = false) -/
  confirm : Bool := false
deriving Repr

/-- what the run meets: which paths exist beforehand, and the codec's verdict per source (corrupted / truncated input, …) -/
structure Env where
  dstExists : String → Bool
  srcExists : String → Bool
  codecOk : String → Bool

inductive Op where
  | openR (p : String)
  | openW (p : String)
  /-- close; `completes` = this close finishes a destination whose codec run succeeded -/
  | close (p : String) (completes : Bool)
  | unlink (p : String)
  | sigOn (dst : String)
  | sigOff
  | exit (code : Nat)
deriving DecidableEq, Repr

def stripSuffix (s : String) : Option String :=
  if s.endsWith ".zst" then some ((s.dropEnd 4).toString) else none

/-- destination name, or none when the tool refuses the source (unknown suffix) -/
def dstOf (inv : Inv) (src : String) : Option String :=
  match inv.outName with
  | some o => some o
  | none => match inv.mode with
    | .compress => some (src ++ ".zst")
    | .decompress => stripSuffix src
    | .test => none

/-- several inputs concatenated into the one destination named with -o (FIO_compressMultipleFilenames / FIO_decompressMultipleFilenames,
`outFileName != NULL` with `nbFilesTotal > 1`): the destination is opened once, before the first source, and closed once, after the last -/
def sharedOut (inv : Inv) : Option String :=
  match inv.outName with
  | some o => if inv.files.length > 1 && inv.mode != .test && !inv.toStdout then some o else none
  | none => none

/-- may an existing file be replaced / may a question be answered yes: -f, or the user said "y" at the prompt, which is only shown at
display level >= 2 (at -q / -qq the tool refuses without asking) -/
def overwriteOk (inv : Inv) : Bool := inv.force || (decide (2 ≤ inv.level) && inv.confirm)

/-- source removal is honoured only when the output can stand for the source: never with stdout, in test mode, or when several inputs
share one destination - whatever the display level -/
def rmActive (inv : Inv) : Bool := inv.rm && !inv.toStdout && inv.mode != .test && (sharedOut inv).isNone

/-- operations for one source file, and whether it counts as a success -/
def fileOps (inv : Inv) (env : Env) (src : String) : List Op × Bool :=
  if inv.mode == .test || inv.toStdout then
    ([.openR src, .close src false], env.codecOk src)
  else match dstOf inv src with
    | none => ([], false)
    | some dst =>
      if env.dstExists dst && !overwriteOk inv then ([.openR src, .close src false], false)
      else
        let pre := if env.dstExists dst then [Op.unlink dst] else []
        if env.codecOk src then
          ([.openR src] ++ pre ++ [.openW dst, .sigOn dst, .sigOff, .close dst true, .close src false] ++ (if rmActive inv then [.unlink src] else []), true)
        else
          ([.openR src] ++ pre ++ [.openW dst, .sigOn dst, .sigOff, .close dst false, .unlink dst, .close src false], false)

def allOps (inv : Inv) (env : Env) : List String → List Op × Bool
  | [] => ([], true)
  | f :: fs =>
    let (o1, ok1) := if env.srcExists f then fileOps inv env f else ([], false)
    let (o2, ok2) := allOps inv env fs
    (o1 ++ o2, ok1 && ok2)

/-- the sources of a shared-destination run: each is opened, read and closed; none is ever removed -/
def srcOps (env : Env) : List String → List Op × Bool
  | [] => ([], true)
  | f :: fs =>
    let (o2, ok2) := srcOps env fs
    if env.srcExists f then ([.openR f, .close f false] ++ o2, env.codecOk f && ok2) else (o2, false)

/-- several inputs into one destination `out`: refused before anything is touched unless -f / a "y" at the prompt
(FIO_multiFilesConcatWarning; the same condition lets FIO_openDstFile replace an existing `out`); no SIGINT handler is installed for a
destination opened this way; --rm is switched off -/
def sharedOps (inv : Inv) (env : Env) (out : String) : List Op × Bool :=
  if !overwriteOk inv then ([], false)
  else
    let pre := if env.dstExists out then [Op.unlink out] else []
    let (os, ok) := srcOps env inv.files
    (pre ++ [.openW out] ++ os ++ [.close out ok], ok)

/-- the whole run -/
def program (inv : Inv) (env : Env) : List Op :=
  match sharedOut inv with
  | some out =>
    let (ops, ok) := sharedOps inv env out
    ops ++ [.exit (if ok then 0 else 1)]
  | none =>
    let (ops, ok) := allOps inv env inv.files
    ops ++ [.exit (if ok then 0 else 1)]

/-! ### file system semantics -/

inductive FState where
  | absent
  /-- content that existed before the run (a source file, or somebody's earlier output) -/
  | old
  /-- opened for writing by this run, not yet complete -/
  | partialOut
  /-- written completely by this run and closed after the codec reported success -/
  | done
deriving DecidableEq, Repr

abbrev FS := String → FState

def execOp (fs : FS) : Op → FS
  | .openW p => fun q => if q = p then .partialOut else fs q
  | .close p true => fun q => if q = p then .done else fs q
  | .unlink p => fun q => if q = p then .absent else fs q
  | _ => fs

def exec (fs : FS) (ops : List Op) : FS := ops.foldl execOp fs

/-- paths an operation can change -/
def touches : Op → List String
  | .openW p => [p]
  | .close p true => [p]
  | .unlink p => [p]
  | _ => []

/-- the SIGINT handler, when installed for `dst`, removes `dst` and exits -/
def interruptOps (ops : List Op) : Option String :=
  ops.foldl (fun acc o => match o with
    | .sigOn d => some d
    | .sigOff => none
    | _ => acc) none

end ZstdVerif.Cli
