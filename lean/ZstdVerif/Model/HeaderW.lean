/-
Model of ZSTD_writeFrameHeader (zstd_compress.c): the frame header the compressor emits for resolved parameters, a pledged source
size and a dictionary ID.  Props/C05.lean proves that the decoder-side parser of Model/Frame.lean reads back exactly the fields
that went in (header_roundtrip): what the header announces is what the compressor was given.
-/
import ZstdVerif.Model.Frame
namespace ZstdVerif.HeaderW
open ZstdVerif.Gen

structure HArgs where
  windowLog : Nat
  /-- pledged source size; only looked at when `contentSizeFlag` (ZSTD_resetCCtx_internal clears the flag for unknown sizes) -/
  pledged : Nat
  contentSizeFlag : Bool
  dictID : Nat
  noDictID : Bool
  checksum : Bool
  magicless : Bool
deriving Repr, DecidableEq

def byte (n : Nat) : UInt8 := UInt8.ofNat (n % 256)
def le2 (n : Nat) : List UInt8 := [byte n, byte (n / 256)]
def le4 (n : Nat) : List UInt8 := [byte n, byte (n / 256), byte (n / 65536), byte (n / 16777216)]
def le8 (n : Nat) : List UInt8 := le4 n ++ le4 (n / 4294967296)

def dictCode (a : HArgs) : Nat :=
  if a.noDictID then 0 else (if a.dictID > 0 then 1 else 0) + (if a.dictID ≥ 256 then 1 else 0) + (if a.dictID ≥ 65536 then 1 else 0)
def single (a : HArgs) : Bool := a.contentSizeFlag && decide (2 ^ a.windowLog ≥ a.pledged)
def fcsCode (a : HArgs) : Nat :=
  if a.contentSizeFlag then (if a.pledged ≥ 256 then 1 else 0) + (if a.pledged ≥ 65536 + 256 then 1 else 0) + (if a.pledged ≥ 0xFFFFFFFF then 1 else 0) else 0
def descriptor (a : HArgs) : Nat :=
  dictCode a + (if a.checksum then 4 else 0) + (if single a then 32 else 0) + fcsCode a * 64

/-- ZSTD_writeFrameHeader -/
def writeHeader (a : HArgs) : List UInt8 :=
  (if a.magicless then [] else le4 ZSTD_MAGICNUMBER) ++
  [byte (descriptor a)] ++
  (if single a then [] else [byte ((a.windowLog - ZSTD_WINDOWLOG_ABSOLUTEMIN) * 8)]) ++
  (match dictCode a with
   | 0 => []
   | 1 => [byte a.dictID]
   | 2 => le2 a.dictID
   | _ => le4 a.dictID) ++
  (match fcsCode a with
   | 0 => if single a then [byte a.pledged] else []
   | 1 => le2 (a.pledged - 256)
   | 2 => le4 a.pledged
   | _ => le8 a.pledged)

/-- the accepted argument range (ZSTD_checkCParams bounds on 64-bit targets; U32 dictionary ID; U64 size) -/
def HArgs.wf (a : HArgs) : Prop :=
  ZSTD_WINDOWLOG_ABSOLUTEMIN ≤ a.windowLog ∧ a.windowLog ≤ ZSTD_WINDOWLOG_MAX ∧ a.dictID < 2 ^ 32 ∧ a.pledged < 2 ^ 64

end ZstdVerif.HeaderW
