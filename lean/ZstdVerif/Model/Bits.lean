/-
Backward bit reader (bitstream.h: BIT_initDStream / BIT_readBits / BIT_reloadDStream / BIT_endOfDStream) as an
exact bit list with a sticky overflow flag.  The stream occupies `src[start, start+len)`; bit position `p`
(0 = LSB of the first byte) ; reading proceeds from the top (just below the end mark) downwards.
-/
import ZstdVerif.Model.Bytes
namespace ZstdVerif

structure BitR where
  src : Bytes
  start : Nat
  /-- number of bits not yet consumed -/
  left : Nat
  /-- a read reached below bit 0 (C: BIT_DStream_overflow); the final verdict is then always an error -/
  over : Bool
deriving Inhabited

namespace BitR

/-- value of the `n` bits at positions `[lo, lo+n)` (n ≤ 56) -/
@[inline] def field (src : Bytes) (start lo n : Nat) : Nat :=
  let byte := start + lo / 8
  let sh := lo % 8
  let w := src.le64 byte
  (w >>> sh) &&& ((1 <<< n) - 1)

/-- BIT_initDStream: empty source ⇒ srcSize_wrong; last byte 0 ⇒ no end mark (GENERIC) -/
def init (src : Bytes) (start len : Nat) : R BitR :=
  if len = 0 then .error .srcSizeWrong
  else
    let last := src.u8 (start + len - 1)
    if last = 0 then .error .generic
    else .ok { src := src, start := start, left := (len - 1) * 8 + highbit last, over := false }

/-- BIT_readBits (n ≤ 32): bits below the start of the stream read as 0 and set `over` -/
@[inline] def read (r : BitR) (n : Nat) : Nat × BitR :=
  if n ≤ r.left then
    (field r.src r.start (r.left - n) n, { r with left := r.left - n })
  else
    ((field r.src r.start 0 r.left) <<< (n - r.left), { r with left := 0, over := true })

/-- look at the next `n` bits without consuming them (zero padded below the start) -/
@[inline] def peek (r : BitR) (n : Nat) : Nat :=
  if n ≤ r.left then field r.src r.start (r.left - n) n
  else (field r.src r.start 0 r.left) <<< (n - r.left)

/-- consume `n` bits -/
@[inline] def skip (r : BitR) (n : Nat) : BitR :=
  if n ≤ r.left then { r with left := r.left - n } else { r with left := 0, over := true }

/-- BIT_endOfDStream: every bit consumed, none beyond -/
@[inline] def atEnd (r : BitR) : Bool := r.left == 0 && !r.over

end BitR
end ZstdVerif
