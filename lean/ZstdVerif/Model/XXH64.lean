/-
XXH64 (seed 0 by default), one-shot over a byte array — mirrors lib/common/xxhash.h XXH64_digest.
-/
import ZstdVerif.Model.Bytes
namespace ZstdVerif.XXH64

def P1 : UInt64 := 0x9E3779B185EBCA87
def P2 : UInt64 := 0xC2B2AE3D27D4EB4F
def P3 : UInt64 := 0x165667B19E3779F9
def P4 : UInt64 := 0x85EBCA77C2B2AE63
def P5 : UInt64 := 0x27D4EB2F165667C5

@[inline] def rotl (x : UInt64) (r : UInt64) : UInt64 := (x <<< r) ||| (x >>> (64 - r))
@[inline] def round (acc input : UInt64) : UInt64 := rotl (acc + input * P2) 31 * P1
@[inline] def mergeRound (acc v : UInt64) : UInt64 := (acc ^^^ round 0 v) * P1 + P4

@[inline] def rd64 (b : Bytes) (i : Nat) : UInt64 := UInt64.ofNat (b.le64 i)
@[inline] def rd32 (b : Bytes) (i : Nat) : UInt64 := UInt64.ofNat (b.le32 i)

def avalanche (h : UInt64) : UInt64 :=
  let h := (h ^^^ (h >>> 33)) * P2
  let h := (h ^^^ (h >>> 29)) * P3
  h ^^^ (h >>> 32)

/-- hash of `b[start, start+len)` -/
def hashRange (b : Bytes) (start len : Nat) (seed : UInt64 := 0) : UInt64 := Id.run do
  let stop := start + len
  let mut p := start
  let mut h : UInt64 := 0
  if len ≥ 32 then
    let mut v1 := seed + P1 + P2
    let mut v2 := seed + P2
    let mut v3 := seed
    let mut v4 := seed - P1
    while p + 32 ≤ stop do
      v1 := round v1 (rd64 b p)
      v2 := round v2 (rd64 b (p+8))
      v3 := round v3 (rd64 b (p+16))
      v4 := round v4 (rd64 b (p+24))
      p := p + 32
    h := rotl v1 1 + rotl v2 7 + rotl v3 12 + rotl v4 18
    h := mergeRound h v1
    h := mergeRound h v2
    h := mergeRound h v3
    h := mergeRound h v4
  else
    h := seed + P5
  h := h + UInt64.ofNat len
  while p + 8 ≤ stop do
    h := rotl (h ^^^ round 0 (rd64 b p)) 27 * P1 + P4
    p := p + 8
  if p + 4 ≤ stop then
    h := rotl (h ^^^ (rd32 b p * P1)) 23 * P2 + P3
    p := p + 4
  while p < stop do
    h := rotl (h ^^^ (UInt64.ofNat (b.u8 p) * P5)) 11 * P1
    p := p + 1
  return avalanche h

def hash (b : Bytes) : UInt64 := hashRange b 0 b.size

def toHex16 (h : UInt64) : String :=
  String.mk ((List.range 16).map (fun k => ByteArray.hexDigit ((h.toNat >>> (4 * (15 - k))) % 16)))

end ZstdVerif.XXH64
