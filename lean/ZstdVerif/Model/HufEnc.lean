/-
Encoder side of the Huffman literal coding (lib/compress/huf_compress.c), as far as the FORMAT is concerned: the assignment of code
values once the code lengths are known (HUF_buildCTableFromTree / HUF_readCTable), the order in which the symbols' codes are appended
to the bit stream (HUF_compress1X_usingCTable_internal_body) and the 4-stream layout (HUF_compress4X_usingCTable_internal).
The choice of the code LENGTHS (HUF_buildTree / HUF_setMaxHeight) is the compressor's heuristic and deliberately not modelled.
Core imports only.
-/
namespace ZstdVerif.HufEnc

/-- HUF_readCTable, "fill nbBits": `HUF_setNbBits(ct + n, (BYTE)(tableLog + 1 - w) & -(w != 0))` -/
def nbBitsOfWeight (log w : Nat) : Nat := if w = 0 then 0 else log + 1 - w

/-- HUF_writeCTable_wksp, "convert to weight": `bitsToWeight[0] = 0; bitsToWeight[n] = huffLog + 1 - n` for 1 ≤ n ≤ huffLog -/
def weightOfNbBits (log nb : Nat) : Nat := if nb = 0 then 0 else log + 1 - nb

/-- HUF_readStats_body's sum `weightTotal += (1 << w) >> 1` over all symbols (the implied last one included) -/
def kraftSum : List Nat → Nat
  | [] => 0
  | w :: ws => ((1 <<< w) >>> 1) + kraftSum ws

/-- what HUF_readStats_body guarantees about the weights it returns (Bool version; `WeightsOK` in Lemmas/HufRT.lean):
1 ≤ tableLog, every weight ≤ tableLog, Σ_{w>0} 2^(w-1) = 2^tableLog -/
def weightsOK (weights : Array Nat) (log : Nat) : Bool :=
  decide (1 ≤ log) && weights.toList.all (fun w => decide (w ≤ log)) && kraftSum weights.toList == 1 <<< log

/-- HUF_buildCTableFromTree / HUF_readCTable, "determine starting value per rank": the value of `min` after `k` turns of
`for (n = tableLog; n > 0; n--) { valPerRank[n] = min; min += nbPerRank[n]; min >>= 1; }`, i.e. when ranks tableLog, ..,
tableLog-k+1 have been processed.  (`min` is a U16 in C; with at most 256 symbols it never exceeds 256.) -/
def minAfter (nbPerRank : Nat → Nat) (log : Nat) : Nat → Nat
  | 0 => 0
  | k + 1 => (minAfter nbPerRank log k + nbPerRank (log - k)) >>> 1

/-- `valPerRank[n]` after that loop: the first code value of rank (code length) `n`; entries outside 1..tableLog stay 0 -/
def valPerRank (nbPerRank : Nat → Nat) (log n : Nat) : Nat :=
  if 1 ≤ n ∧ n ≤ log then minAfter nbPerRank log (log - n) else 0

/-- "assign value within rank, symbol order": `for (n = 0; n < alphabetSize; n++) HUF_setValue(ct + n, valPerRank[HUF_getNbBits(ct[n])]++)`
over the per-symbol code lengths; `vpr` is the current content of `valPerRank`.  HUF_setValue leaves the value 0 when nbBits = 0. -/
def assignVals : List Nat → (Nat → Nat) → List (Nat × Nat)
  | [], _ => []
  | nb :: rest, vpr =>
    (if nb = 0 then 0 else vpr nb, nb) :: assignVals rest (fun r => if r = nb then vpr r + 1 else vpr r)

/-- the (val, nbBits) pair of every symbol given the code lengths: common rule of HUF_buildCTableFromTree (lengths from the tree,
`nbPerRank` counted over the symbols that occur) and HUF_readCTable (lengths from the weights); `nbPerRank[0]` is never read -/
def codesOfNbBits (nbs : List Nat) (log : Nat) : List (Nat × Nat) :=
  assignVals nbs (valPerRank (fun n => nbs.count n) log)

/-- HUF_readCTable after HUF_readStats: (val, nbBits) per symbol from the weights; equally what HUF_buildCTableFromTree produced
before HUF_writeCTable_wksp turned its code lengths into these weights (weight = nbBits ? tableLog + 1 - nbBits : 0) -/
def codesOf (weights : Array Nat) (tableLog : Nat) : Array (Nat × Nat) :=
  (codesOfNbBits (weights.toList.map (nbBitsOfWeight tableLog)) tableLog).toArray

/-- HUF_compress1X_usingCTable_internal_body(_loop): `HUF_encodeSymbol(bitC, ip[--n], ct, ..)` for n = srcSize down to 1 (the unrolled
variants keep this order): the (val, nbBits) fields in the order they are appended to the forward bit writer, last symbol first.
HUF_closeCStream then appends the end mark (1, 1). -/
def encode1 (codes : Array (Nat × Nat)) (lits : List Nat) : List (Nat × Nat) :=
  lits.reverse.map fun s => codes[s]!

/-- HUF_compress4X_usingCTable_internal: `segmentSize = (srcSize+3)/4` for the first three segments, the fourth gets the rest -/
def segments (lits : List α) : List α × List α × List α × List α :=
  let seg := (lits.length + 3) / 4
  (lits.take seg, (lits.drop seg).take seg, (lits.drop (2 * seg)).take seg, lits.drop (3 * seg))

def le16 (n : Nat) : ByteArray := (ByteArray.empty.push (UInt8.ofNat (n % 256))).push (UInt8.ofNat (n / 256 % 256))

/-- HUF_compress4X_usingCTable_internal over the four compressed streams: 6-byte jump table (three little-endian 16-bit sizes), then
the streams; `none` = the C function returns 0 ("not compressible": a stream could not be produced or is larger than 65535 bytes) -/
def layout4 (c1 c2 c3 c4 : ByteArray) : Option ByteArray :=
  if c1.size = 0 ∨ c1.size > 65535 then none else
  if c2.size = 0 ∨ c2.size > 65535 then none else
  if c3.size = 0 ∨ c3.size > 65535 then none else
  if c4.size = 0 ∨ c4.size > 65535 then none else
  some (le16 c1.size ++ le16 c2.size ++ le16 c3.size ++ c1 ++ c2 ++ c3 ++ c4)

/-- HUF_compress4X_usingCTable_internal; `writer` = HUF_initCStream .. HUF_closeCStream on a list of fields (abstract here; an empty
result stands for the 0 returned when the destination is too small).  `srcSize < 12` is refused ("no saving possible") -/
def compress4 (writer : List (Nat × Nat) → ByteArray) (codes : Array (Nat × Nat)) (lits : List Nat) : Option ByteArray :=
  if lits.length < 12 then none else
  let (s1, s2, s3, s4) := segments lits
  layout4 (writer (encode1 codes s1)) (writer (encode1 codes s2)) (writer (encode1 codes s3)) (writer (encode1 codes s4))

end ZstdVerif.HufEnc
