/-
Deterministic executable model of the streaming decompressor (lib/decompress/zstd_decompress.c):
`ZSTD_decompressStream` (stages zdss_init / zdss_loadHeader / zdss_read / zdss_load / zdss_flush) and, under it, the
`ZSTD_decompressContinue` stage machine with `ZSTD_nextSrcSizeToDecompress`, `ZSTD_nextSrcSizeToDecompressWithInputSize`,
`ZSTD_nextInputType`.

Block decoding is abstract: the model is parameterised by the PARSED stream, a list of frame descriptions `FrameD` (what the bytes
contain: header size, per block its type / cSize / regenerated size / last flag, checksum flag, content size, window size), which
the driver obtains from `Frame.decompressAll`'s traces on the same bytes.  Everything the real function decides from sizes and
stages is mirrored call by call: how many bytes a call consumes and produces, and its return value.

Inside the model: buffered output mode (ZSTD_bm_buffered), format zstd1, no dictionary, valid streams (possibly truncated: the
caller may stop feeding anywhere).  Not modelled: ZSTD_d_stableOutBuffer, legacy frames, dictionaries / DDict selection, the
magicless format, ZSTD_d_maxBlockSize, static contexts, allocation failure, corrupt input (only the window-size refusal and the
no-forward-progress errors are error outcomes of the model).
-/
import ZstdVerif.Model.DBuf
import ZstdVerif.Model.Stream
namespace ZstdVerif.DStream
open ZstdVerif.Gen

/-! ## the parsed stream -/

inductive BType where
  | raw | rle | compressed
deriving DecidableEq, Repr, Inhabited

/-- one block as `ZSTD_getcBlockSize` and the block decoder see it -/
structure BlockD where
  ty : BType
  cSize : Nat          -- bytes the body occupies in the input (rle: 1)
  regen : Nat          -- bytes the block regenerates (raw: cSize, rle: the size field, compressed: what the block decoder returns)
  last : Bool
deriving DecidableEq, Repr, Inhabited

/-- one frame as `ZSTD_getFrameHeader_advanced` and the block headers describe it -/
structure FrameD where
  skippable : Bool
  headerSize : Nat               -- zstd frame: 6..18 ; skippable: 8
  blocks : List BlockD           -- zstd frame: at least one, the final one carries the last flag ; skippable: none
  checksum : Bool
  fcs : Option Nat               -- frame content size when the header declares it ; skippable: the payload size
  windowSize : Nat               -- as ZSTD_getFrameHeader reports it (skippable: 0)
  blockSizeMax : Nat             -- min(windowSize, 128 KB) (skippable: 0)
  payload : Nat := 0             -- skippable: payload size
deriving DecidableEq, Repr, Inhabited

def blocksSize : List BlockD → Nat
  | [] => 0
  | b :: bs => ZSTD_blockHeaderSize + b.cSize + blocksSize bs

def blocksRegen : List BlockD → Nat
  | [] => 0
  | b :: bs => b.regen + blocksRegen bs

def ckSize (ck : Bool) : Nat := if ck then 4 else 0

/-- compressed size of the frame = what `ZSTD_findFrameCompressedSize` returns at its first byte -/
def frameSize (f : FrameD) : Nat :=
  if f.skippable then ZSTD_SKIPPABLEHEADERSIZE + f.payload else f.headerSize + blocksSize f.blocks + ckSize f.checksum

def regenOf (f : FrameD) : Nat := blocksRegen f.blocks

/-! ## ZSTD_decompressContinue -/

/-- `ZSTD_dStage` -/
inductive DStage where
  | getFrameHeaderSize | decodeFrameHeader | decodeBlockHeader | decompressBlock | decompressLastBlock | checkChecksum
  | decodeSkippableHeader | skipFrame
deriving DecidableEq, Repr, Inhabited

/-- the fields of `ZSTD_DCtx` the stage machine reads and writes -/
structure DCtx where
  stage : DStage := .getFrameHeaderSize
  expected : Nat := 0
  bType : BType := .raw
  /-- `rleSize` for rle blocks; for compressed blocks the value `ZSTD_decompressBlock_internal` is going to return (oracle) -/
  curRegen : Nat := 0
  decodedSize : Nat := 0
  headerSize : Nat := 0
  fcs : Option Nat := none            -- fParams.frameContentSize (none = ZSTD_CONTENTSIZE_UNKNOWN)
  checksum : Bool := false            -- fParams.checksumFlag
  blockSizeMax : Nat := 0             -- fParams.blockSizeMax
  windowSize : Nat := 0               -- fParams.windowSize
deriving DecidableEq, Repr, Inhabited

/-- `ZSTD_decompressBegin`: expected = ZSTD_startingInputLength(zstd1) = 5 -/
def DCtx.begin (_ : DCtx) : DCtx := { stage := .getFrameHeaderSize, expected := 5 }

/-- `ZSTD_nextSrcSizeToDecompress` -/
def DCtx.nextSrcSize (d : DCtx) : Nat := d.expected

/-- `ZSTD_nextSrcSizeToDecompressWithInputSize`: only raw blocks may be taken piecewise, BOUNDED(1, inputSize, expected) -/
def DCtx.nextSrcSizeWithInput (d : DCtx) (inputSize : Nat) : Nat :=
  if !(d.stage == .decompressBlock || d.stage == .decompressLastBlock) then d.expected
  else if d.bType != .raw then d.expected
  else max 1 (min inputSize d.expected)

/-- `ZSTD_nextInputType(zds) == ZSTDnit_block` -/
def DCtx.nextIsBlock (d : DCtx) : Bool := d.stage == .decompressBlock

/-- `ZSTD_isSkipFrame` -/
def DCtx.isSkipFrame (d : DCtx) : Bool := d.stage == .skipFrame

/-- what the end of the last block leads to (both the empty-last-block and the decoded-last-block paths) -/
def DCtx.endOfBlocks (d : DCtx) : DCtx :=
  if d.checksum then { d with expected := 4, stage := .checkChecksum }
  else { d with expected := 0, stage := .getFrameHeaderSize }

/-- stage ZSTDds_getFrameHeaderSize (buffer-less API only: the streaming layer loads headers itself) -/
def DCtx.stGetFrameHeaderSize (d : DCtx) (f : FrameD) (srcSize : Nat) : DCtx × Nat :=
  if f.skippable then ({ d with expected := ZSTD_SKIPPABLEHEADERSIZE - srcSize, stage := .decodeSkippableHeader }, 0)
  else ({ d with headerSize := f.headerSize, expected := f.headerSize - srcSize, stage := .decodeFrameHeader }, 0)

/-- `ZSTD_decodeFrameHeader` as far as the stage machine is concerned: fParams -/
def DCtx.setFrame (d : DCtx) (f : FrameD) : DCtx :=
  { d with fcs := f.fcs, checksum := f.checksum, blockSizeMax := f.blockSizeMax, windowSize := f.windowSize }

/-- stage ZSTDds_decodeFrameHeader -/
def DCtx.stDecodeFrameHeader (d : DCtx) (f : FrameD) : DCtx × Nat :=
  ({ d.setFrame f with expected := ZSTD_blockHeaderSize, stage := .decodeBlockHeader }, 0)

/-- stage ZSTDds_decodeBlockHeader: `b` is the block whose 3-byte header is being read -/
def DCtx.stDecodeBlockHeader (d : DCtx) (b : BlockD) : DCtx × Nat :=
  let d1 := { d with expected := b.cSize, bType := b.ty, curRegen := b.regen }
  if b.cSize ≠ 0 then ({ d1 with stage := if b.last then .decompressLastBlock else .decompressBlock }, 0)
  else if b.last then (d1.endOfBlocks, 0)
  else ({ d1 with expected := ZSTD_blockHeaderSize, stage := .decodeBlockHeader }, 0)

/-- what decoding `srcSize` bytes of the current block regenerates -/
def DCtx.blockOut (d : DCtx) (srcSize : Nat) : Nat :=
  match d.bType with
  | .raw => srcSize
  | _ => d.curRegen

/-- stages ZSTDds_decompressBlock / ZSTDds_decompressLastBlock -/
def DCtx.stDecompressBlock (d : DCtx) (srcSize : Nat) : DCtx × Nat :=
  let rSize := d.blockOut srcSize
  let exp := match d.bType with
    | .raw => d.expected - rSize
    | _ => 0
  let d1 := { d with expected := exp, decodedSize := d.decodedSize + rSize }
  if exp > 0 then (d1, rSize)                      -- stay on the same stage until the raw block is finished
  else if d.stage == .decompressLastBlock then (d1.endOfBlocks, rSize)
  else ({ d1 with stage := .decodeBlockHeader, expected := ZSTD_blockHeaderSize }, rSize)

/-- `ZSTD_decompressContinue` on a valid stream: new context and the number of bytes written to `dst`.
`f` is the frame being decoded, `b` the block whose header is in `src` (only read in stage decodeBlockHeader). -/
def DCtx.continue (d : DCtx) (f : FrameD) (b : BlockD) (srcSize : Nat) : DCtx × Nat :=
  match d.stage with
  | .getFrameHeaderSize => d.stGetFrameHeaderSize f srcSize
  | .decodeFrameHeader => d.stDecodeFrameHeader f
  | .decodeBlockHeader => d.stDecodeBlockHeader b
  | .decompressBlock => d.stDecompressBlock srcSize
  | .decompressLastBlock => d.stDecompressBlock srcSize
  | .checkChecksum => ({ d with expected := 0, stage := .getFrameHeaderSize }, 0)
  | .decodeSkippableHeader => ({ d with expected := f.payload, stage := .skipFrame }, 0)
  | .skipFrame => ({ d with expected := 0, stage := .getFrameHeaderSize }, 0)

/-! ## ZSTD_decompressStream -/

/-- `ZSTD_dStreamStage` -/
inductive SStage where
  | init | loadHeader | read | load | flush
deriving DecidableEq, Repr, Inhabited

inductive ErrClass where
  | windowTooLarge | noForwardProgressDestFull | noForwardProgressInputEmpty | corruption | generic
deriving DecidableEq, Repr, Inhabited

def ErrClass.name : ErrClass → String
  | .windowTooLarge => "window_too_large"
  | .noForwardProgressDestFull => "noForwardProgress_destFull"
  | .noForwardProgressInputEmpty => "noForwardProgress_inputEmpty"
  | .corruption => "corruption"
  | .generic => "generic"

inductive Ret where
  | err (e : ErrClass)
  | hint (n : Nat)
deriving DecidableEq, Repr, Inhabited

def ZSTD_NO_FORWARD_PROGRESS_MAX : Nat := 16
def ZSTD_FRAMEHEADERSIZE_MIN : Nat := 6
def ZSTD_FRAMEHEADERSIZE_PREFIX : Nat := 5
/-- ZSTD_MAXWINDOWSIZE_DEFAULT = (1 << ZSTD_WINDOWLOG_LIMIT_DEFAULT) + 1 -/
def ZSTD_MAXWINDOWSIZE_DEFAULT : Nat := 2 ^ 27 + 1

/-- the fields of `ZSTD_DStream` the function reads and writes, the parsed stream still ahead, and ghost totals -/
structure State where
  ss : SStage := .init
  lhSize : Nat := 0
  inPos : Nat := 0
  inBuffSize : Nat := 0
  outBuffSize : Nat := 0
  outStart : Nat := 0
  outEnd : Nat := 0
  hostage : Bool := false
  noFwd : Nat := 0
  oversized : Nat := 0
  maxWindowSize : Nat := ZSTD_MAXWINDOWSIZE_DEFAULT
  d : DCtx := {}
  /-- frames whose header has not been completely loaded yet (head = the one `headerBuffer` is being filled for) -/
  frames : List FrameD := []
  /-- the frame whose header was loaded last -/
  cur : FrameD := default
  /-- blocks of `cur` whose header has not been read yet -/
  blocks : List BlockD := []
  /-- ghost: bytes consumed / produced as reported to the caller over all calls so far -/
  totalIn : Nat := 0
  totalOut : Nat := 0
  /-- ghost: the last byte of the frame is currently withheld from the caller (`input->pos--` done, `input->pos++` not yet) -/
  held : Bool := false
  /-- ghost: `outStart` at the moment of the last restart of the ring (0 = no restart in this frame) -/
  segEnd : Nat := 0
deriving DecidableEq, Repr, Inhabited

/-- position inside the current call: `ip - istart`, `op - ostart` -/
structure Loc where
  ip : Nat := 0
  op : Nat := 0
deriving DecidableEq, Repr, Inhabited

/-- outcome of one turn of the `while (someMoreWork) switch (zds->streamStage)` loop -/
inductive Out where
  | cont (s : State) (l : Loc)                      -- `break` out of the switch, someMoreWork still 1
  | stop (s : State) (l : Loc)                      -- someMoreWork = 0: on to the result computation
  | ret (s : State) (consumed : Nat) (r : Ret)      -- `return` from inside the loop (`consumed` = input->pos; output->pos untouched)
deriving Repr, Inhabited

/-- what `ZSTD_getFrameHeader_advanced(headerBuffer, lhSize)` answers for the header of frame `f`: 0 = complete, else the size wanted -/
def hdrNeed (f : Option FrameD) (lh : Nat) : Nat :=
  match f with
  | none => ZSTD_FRAMEHEADERSIZE_PREFIX
  | some f => if lh < ZSTD_FRAMEHEADERSIZE_PREFIX then ZSTD_FRAMEHEADERSIZE_PREFIX else if lh < f.headerSize then f.headerSize else 0

/-- stage zdss_init (falls through to zdss_loadHeader) -/
def stInit (s : State) : State :=
  { s with ss := .loadHeader, lhSize := 0, inPos := 0, outStart := 0, outEnd := 0, hostage := false, segEnd := 0 }

/-- zdss_loadHeader, "need more input" branch with too little input: everything offered goes to `headerBuffer`, direct return of a hint -/
def hdrShort (s : State) (l : Loc) (inAvail hSize : Nat) : Out :=
  let lh := s.lhSize + (inAvail - l.ip)
  let skip := match s.frames.head? with
    | some f => f.skippable
    | none => false
  let hint := if lh ≥ 4 && skip then hSize - lh
              else (max ZSTD_FRAMEHEADERSIZE_MIN hSize - lh) + ZSTD_blockHeaderSize
  .ret { s with lhSize := lh } inAvail (.hint hint)

/-- the single-pass shortcut of zdss_loadHeader: content size known, the caller's output room holds it, and the whole frame lies in
this call's input.  `ZSTD_findFrameCompressedSize` is run on `istart`, which is the first byte of the frame only when all header
bytes were loaded in this very call (`l.ip = s.lhSize`); started anywhere else inside a frame header it is taken to fail. -/
def singlePass (s : State) (l : Loc) (inAvail outCap : Nat) (f : FrameD) : Bool :=
  match f.fcs with
  | some n => !f.skippable && decide (n ≤ outCap - l.op) && decide (l.ip = s.lhSize) && decide (frameSize f ≤ inAvail)
  | none => false

/-- "Adapt buffer sizes to frame header instructions" (with ZSTD_DCtx_updateOversizedDuration / ZSTD_DCtx_isOversizedTooLong) -/
def adaptBuffers (s : State) (neededIn neededOut : Nat) : State :=
  let over := decide (s.inBuffSize + s.outBuffSize ≥ (neededIn + neededOut) * ZSTD_WORKSPACETOOLARGE_FACTOR)
  let dur := if over then s.oversized + 1 else 0
  let tooSmall := decide (s.inBuffSize < neededIn) || decide (s.outBuffSize < neededOut)
  let tooLarge := decide (dur ≥ ZSTD_WORKSPACETOOLARGE_MAXDURATION)
  if tooSmall || tooLarge then { s with oversized := dur, inBuffSize := neededIn, outBuffSize := neededOut }
  else { s with oversized := dur }

/-- "Consume header": `ZSTD_decompressBegin_usingDDict`, then the stage the header leads to; the frame leaves `frames` -/
def consumeHeader (s : State) (f : FrameD) : State :=
  let d0 := s.d.begin
  let d1 := if f.skippable then { d0.setFrame f with expected := f.payload, stage := .skipFrame }
            else { d0.setFrame f with expected := ZSTD_blockHeaderSize, stage := .decodeBlockHeader }
  { s with d := { d1 with windowSize := DBuf.effectiveWindow f.windowSize }, frames := s.frames.tail, cur := f, blocks := f.blocks }

/-! the stage functions below are mutually dependent exactly as the `ZSTD_FALLTHROUGH`s are: loadHeader → read → load -/

/-- `ZSTD_decompressContinueStream` (buffered mode): one `ZSTD_decompressContinue` into `outBuff + outStart` -/
def continueStream (s : State) (srcSize : Nat) : State :=
  let isSkip := s.d.isSkipFrame
  let r := s.d.continue s.cur (s.blocks.head?.getD default) srcSize      -- (new context, decodedSize)
  let rest := if s.d.stage == .decodeBlockHeader then s.blocks.tail else s.blocks
  if r.2 = 0 && !isSkip then { s with d := r.1, blocks := rest, ss := .read }
  else { s with d := r.1, blocks := rest, outEnd := s.outStart + r.2, ss := .flush }

/-- stage zdss_load -/
def stLoad (s : State) (l : Loc) (inAvail : Nat) : Out :=
  let neededInSize := s.d.nextSrcSize
  let toLoad := neededInSize - s.inPos
  if !s.d.isSkipFrame && toLoad > s.inBuffSize - s.inPos then .ret s 0 (.err .corruption)
  else
    let loaded := min toLoad (inAvail - l.ip)
    let s1 := { s with inPos := s.inPos + loaded }
    let l1 := { l with ip := l.ip + loaded }
    if loaded < toLoad then .stop s1 l1
    else .cont (continueStream { s1 with inPos := 0 } neededInSize) l1

/-- stage zdss_read (falls through to zdss_load when a non-empty input does not hold the whole stage) -/
def stRead (s : State) (l : Loc) (inAvail : Nat) : Out :=
  let avail := inAvail - l.ip
  let neededInSize := s.d.nextSrcSizeWithInput avail
  if neededInSize = 0 then .stop { s with ss := .init } l                    -- end of frame
  else if avail ≥ neededInSize then .cont (continueStream s neededInSize) { l with ip := l.ip + neededInSize }
  else if avail = 0 then .stop s l
  else stLoad { s with ss := .load } l inAvail

/-- zdss_loadHeader once `ZSTD_getFrameHeader_advanced` reports a complete header (falls through to zdss_read) -/
def hdrComplete (s : State) (l : Loc) (inAvail outCap : Nat) (f : FrameD) : Out :=
  if singlePass s l inAvail outCap f then
    .stop { s with d := { s.d.begin.setFrame f with expected := 0 }, ss := .init, frames := s.frames.tail, cur := f, blocks := [] }
          { ip := frameSize f, op := l.op + regenOf f }
  else
    let s1 := consumeHeader s f
    if s1.d.windowSize > s.maxWindowSize then .ret s1 0 (.err .windowTooLarge)
    else
      let neededIn := max s1.d.blockSizeMax 4
      let neededOut := DBuf.decodingBufferSize s1.d.windowSize s1.d.fcs s1.d.blockSizeMax
      stRead { adaptBuffers s1 neededIn neededOut with ss := .read } l inAvail

/-- stage zdss_loadHeader -/
def stLoadHeader (s : State) (l : Loc) (inAvail outCap : Nat) : Out :=
  let hSize := hdrNeed s.frames.head? s.lhSize
  if hSize ≠ 0 then
    let toLoad := hSize - s.lhSize
    if toLoad > inAvail - l.ip then hdrShort s l inAvail hSize
    else .cont { s with lhSize := hSize } { l with ip := l.ip + toLoad }
  else
    match s.frames.head? with
    | some f => hdrComplete s l inAvail outCap f
    | none => .stop s l                                                     -- unreachable: hdrNeed none ≠ 0

/-- stage zdss_flush, with the restart rule of the ring -/
def stFlush (s : State) (l : Loc) (outCap : Nat) : Out :=
  let toFlush := s.outEnd - s.outStart
  let flushed := min (outCap - l.op) toFlush
  let l1 := { l with op := l.op + flushed }
  let s1 := { s with outStart := s.outStart + flushed }
  if flushed = toFlush then
    let small := match s.d.fcs with
      | some n => decide (s.outBuffSize < n)
      | none => true
    if small && decide (s1.outStart + s.d.blockSizeMax > s.outBuffSize) then
      .cont { s1 with ss := .read, segEnd := s1.outStart, outStart := 0, outEnd := 0 } l1
    else .cont { s1 with ss := .read } l1
  else .stop s1 l1

/-- one turn of the loop -/
def micro (s : State) (l : Loc) (inAvail outCap : Nat) : Out :=
  match s.ss with
  | .init => stLoadHeader (stInit s) l inAvail outCap
  | .loadHeader => stLoadHeader s l inAvail outCap
  | .read => stRead s l inAvail
  | .load => stLoad s l inAvail
  | .flush => stFlush s l outCap

/-- the loop.  Fuel: a turn that neither stops nor returns either takes at least one input byte (header bytes, a stage's input)
or is a flush turn, and a flush turn is always followed by a reading turn; so there are at most `2 * inAvail + 3` turns and
`loopFuel` is never exhausted (exhaustion is reported as the error GENERIC, the `default:` arm of the switch). -/
def loop : Nat → State → Loc → Nat → Nat → Out
  | 0, s, _, _, _ => .ret s 0 (.err .generic)
  | fuel + 1, s, l, inAvail, outCap =>
    match micro s l inAvail outCap with
    | .cont s1 l1 => loop fuel s1 l1 inAvail outCap
    | o => o

def loopFuel (inAvail : Nat) : Nat := 2 * inAvail + 4

/-- one observed call -/
structure CallResult where
  consumed : Nat
  produced : Nat
  /-- the produced bytes are `content[producedAt, producedAt + produced)` -/
  producedAt : Nat
  ret : Ret
deriving DecidableEq, Repr, Inhabited

/-- the `nextSrcSizeHint` computation at the end of `ZSTD_decompressStream`, after the no-forward-progress test;
returns the state, `input->pos` and the return value -/
def result (s : State) (l : Loc) (inAvail : Nat) : State × Nat × Ret :=
  if s.d.nextSrcSize = 0 then                                       -- frame fully decoded
    if s.outEnd = s.outStart then                                   -- output fully flushed
      if s.hostage then
        if l.ip ≥ inAvail then ({ s with ss := .read }, l.ip, .hint 1)      -- can't release hostage (not present)
        else ({ s with held := false }, l.ip + 1, .hint 0)          -- release hostage
      else (s, l.ip, .hint 0)
    else if !s.hostage then ({ s with hostage := true, held := true }, l.ip - 1, .hint 1)  -- keep the last byte as hostage
    else (s, l.ip, .hint 1)
  else
    (s, l.ip, .hint (s.d.nextSrcSize + (if s.d.nextIsBlock then ZSTD_blockHeaderSize else 0) - s.inPos))

/-- the tail of `ZSTD_decompressStream` after the loop: no-forward-progress counter, then `result` -/
def finish (s : State) (l : Loc) (inAvail outCap : Nat) : State × CallResult :=
  let noProg := decide (l.ip = 0) && decide (l.op = 0)
  let nf := if noProg then s.noFwd + 1 else 0
  let s1 := { s with noFwd := nf }
  if noProg && decide (nf ≥ ZSTD_NO_FORWARD_PROGRESS_MAX) && decide (l.op = outCap) then
    (s1, ⟨0, 0, s.totalOut, .err .noForwardProgressDestFull⟩)
  else if noProg && decide (nf ≥ ZSTD_NO_FORWARD_PROGRESS_MAX) && decide (l.ip = inAvail) then
    (s1, ⟨0, 0, s.totalOut, .err .noForwardProgressInputEmpty⟩)
  else
    let (s2, consumed, r) := result s1 l inAvail
    ({ s2 with totalIn := s2.totalIn + consumed, totalOut := s2.totalOut + l.op }, ⟨consumed, l.op, s.totalOut, r⟩)

/-- what a `return` from inside the loop reports: `output->pos` is left as it was -/
def returned (s : State) (consumed : Nat) (r : Ret) : State × CallResult :=
  ({ s with totalIn := s.totalIn + consumed }, ⟨consumed, 0, s.totalOut, r⟩)

/-- **one call of `ZSTD_decompressStream`** with `inAvail` bytes of input (`input->size - input->pos`, the next bytes of the stream)
and `outCap` bytes of output room -/
def step (s : State) (inAvail outCap : Nat) : State × CallResult :=
  match loop (loopFuel inAvail) s {} inAvail outCap with
  | .ret s1 consumed r => returned s1 consumed r
  | .stop s1 l => finish s1 l inAvail outCap
  | .cont s1 l => finish s1 l inAvail outCap

/-- a fresh decoding context (`ZSTD_createDCtx`) about to decode the stream `frames` -/
def State.start (frames : List FrameD) : State := { frames := frames }

/-! ## validity of a parsed stream (what the theorems assume and the driver checks on every stream it is given) -/

def lastOk : List BlockD → Bool
  | [] => false
  | [b] => b.last
  | b :: rest => !b.last && lastOk rest

def BlockD.ok (bsMax : Nat) (b : BlockD) : Bool :=
  decide (b.cSize ≤ bsMax) && decide (b.regen ≤ bsMax) &&
  (match b.ty with
   | .raw => decide (b.regen = b.cSize)
   | .rle => decide (b.cSize = 1)
   | .compressed => decide (0 < b.cSize))

def FrameD.ok (f : FrameD) : Bool :=
  if f.skippable then
    decide (f.headerSize = ZSTD_SKIPPABLEHEADERSIZE) && f.blocks.isEmpty && decide (f.fcs = some f.payload) && !f.checksum &&
      decide (f.blockSizeMax = 0) && decide (f.windowSize = 0)
  else
    decide (ZSTD_FRAMEHEADERSIZE_MIN ≤ f.headerSize) && lastOk f.blocks && f.blocks.all (·.ok f.blockSizeMax) &&
      (match f.fcs with
       | some n => decide (n = regenOf f)
       | none => true) &&
      decide (f.blockSizeMax = min f.windowSize ZSTD_BLOCKSIZE_MAX) && decide (f.payload = 0)

/-- the frame as the pacing specification sees it -/
def FrameD.shape (f : FrameD) : Stream.FrameShape :=
  if f.skippable then ⟨true, f.headerSize, [0], false, f.payload⟩
  else ⟨false, f.headerSize, f.blocks.map (·.cSize), f.checksum, 0⟩

/-- per frame (end offset in the compressed stream, end offset in the content), starting at `(ci, co)` -/
def endsFrom (ci co : Nat) : List FrameD → List (Nat × Nat)
  | [] => []
  | f :: fs => (ci + frameSize f, co + regenOf f) :: endsFrom (ci + frameSize f) (co + regenOf f) fs

/-- the streaming specification the model is to refine -/
def specOf (frames : List FrameD) (content : List Nat) : Stream.DSpec := ⟨content, endsFrom 0 0 frames⟩

/-- the observation of a call the specification judges -/
def CallResult.toDCall (c : CallResult) (content : List Nat) (inAvail outCap : Nat) : Stream.DCall :=
  ⟨inAvail, outCap, c.consumed, (content.drop c.producedAt).take c.produced, c.ret == .hint 0⟩

end ZstdVerif.DStream
