/-
WRITER of the literals section of a compressed block (lib/compress/zstd_compress_literals.c): raw literals
(ZSTD_noCompressLiterals), RLE literals (ZSTD_compressRleLiteralsBlock) and Huffman-compressed literals (the "Build header" part of
ZSTD_compressLiterals around the output of HUF_compress1X_repeat / HUF_compress4X_repeat: tree description written by
HUF_writeCTable_wksp, then one or four streams written by HUF_compress1X_usingCTable / HUF_compress4X_usingCTable).

What is NOT modelled: the compressor's DECISIONS (ZSTD_minLiteralsToCompress, ZSTD_minGain, which code lengths, whether the previous
table is reused (when it is: `treelessLiterals`, `hType = set_repeat`), the normalised counts HUF_compressWeights works with).  The functions below say
which bytes are emitted once those decisions are taken; `Block.decodeLiterals` reads them back (Lemmas/LitRT.lean).
Core imports only.
-/
import ZstdVerif.Model.BitW
import ZstdVerif.Model.HufEnc
import ZstdVerif.Model.FSEEnc
import ZstdVerif.Model.NCountW
namespace ZstdVerif.LitEnc

/-- MEM_writeLE16 / MEM_writeLE24 / MEM_writeLE32 (mem.h) seen from the output: the `k` low bytes of `v`, least significant first.
The C casts `(BYTE)`, `(U16)`, `(U32)` in front of the stores drop the same high bits that taking `k` bytes drops. -/
def le (v k : Nat) : ByteArray := BitW.pushLE ByteArray.empty v k

/-- symbolEncodingType_e (zstd_internal.h) -/
def set_basic : Nat := 0
def set_rle : Nat := 1
def set_compressed : Nat := 2
def set_repeat : Nat := 3

/-- ZSTD_noCompressLiterals / ZSTD_compressRleLiteralsBlock: `flSize = 1 + (srcSize>31) + (srcSize>4095)` -/
def flSize (srcSize : Nat) : Nat := 1 + (if srcSize > 31 then 1 else 0) + (if srcSize > 4095 then 1 else 0)

/-- the `switch(flSize)` of ZSTD_noCompressLiterals / ZSTD_compressRleLiteralsBlock with `ty` = set_basic / set_rle:
  case 1 (2 - 1 - 5)  : `ostart[0] = (BYTE)(ty + (srcSize<<3))`
  case 2 (2 - 2 - 12) : `MEM_writeLE16(ostart, (U16)(ty + (1<<2) + (srcSize<<4)))`
  case 3 (2 - 2 - 20) : `MEM_writeLE32(ostart, (U32)(ty + (3<<2) + (srcSize<<4)))`; the fourth byte of that store is overwritten by
                        what follows (`memcpy(ostart + flSize, ..)` / `ostart[flSize] = ..`), so three bytes remain -/
def basicHeader (ty srcSize : Nat) : ByteArray :=
  if srcSize ≤ 31 then le (ty + (srcSize <<< 3)) 1
  else if srcSize ≤ 4095 then le (ty + (1 <<< 2) + (srcSize <<< 4)) 2
  else le (ty + (3 <<< 2) + (srcSize <<< 4)) 3

/-- ZSTD_noCompressLiterals (zstd_compress_literals.c): header, then the literals themselves (`dstCapacity` not modelled: the C
function returns dstSize_tooSmall instead of writing when `srcSize + flSize > dstCapacity`) -/
def rawLiterals (src : ByteArray) : ByteArray := basicHeader set_basic src.size ++ src

/-- ZSTD_compressRleLiteralsBlock (zstd_compress_literals.c): header, then `ostart[flSize] = *(const BYTE*)src`; the C function
asserts that all `srcSize ≥ 1` bytes are identical -/
def rleLiterals (src : ByteArray) : ByteArray := (basicHeader set_rle src.size).push src[0]!

/-- ZSTD_compressLiterals: `lhSize = 3 + (srcSize >= 1 KB) + (srcSize >= 16 KB)` -/
def lhSize (srcSize : Nat) : Nat := 3 + (if srcSize ≥ 1024 then 1 else 0) + (if srcSize ≥ 16384 then 1 else 0)

/-- ZSTD_compressLiterals, "Build header", `switch(lhSize)`:
  case 3 (2 - 2 - 10 - 10) : `lhc = hType + ((U32)(!singleStream) << 2) + ((U32)srcSize<<4) + ((U32)cLitSize<<14); MEM_writeLE24(ostart, lhc)`
  case 4 (2 - 2 - 14 - 14) : `lhc = hType + (2 << 2) + ((U32)srcSize<<4) + ((U32)cLitSize<<18); MEM_writeLE32(ostart, lhc)`
  case 5 (2 - 2 - 18 - 18) : `lhc = hType + (3 << 2) + ((U32)srcSize<<4) + ((U32)cLitSize<<22); MEM_writeLE32(ostart, lhc);
                             ostart[4] = (BYTE)(cLitSize >> 10)`
(`singleStream` is only looked at by case 3; cases 4 and 5 `assert(srcSize >= MIN_LITERALS_FOR_4_STREAMS)` and announce 4 streams) -/
def compressedHeader (hType : Nat) (single : Bool) (srcSize cLitSize : Nat) : ByteArray :=
  if srcSize < 1024 then le (hType + ((if single then 0 else 1) <<< 2) + (srcSize <<< 4) + (cLitSize <<< 14)) 3
  else if srcSize < 16384 then le (hType + (2 <<< 2) + (srcSize <<< 4) + (cLitSize <<< 18)) 4
  else le (hType + (3 <<< 2) + (srcSize <<< 4) + (cLitSize <<< 22)) 4 ++ le (cLitSize >>> 10) 1

/-- ZSTD_compressLiterals when the Huffman output is kept: `ostart + lhSize` holds what HUF_compress{1,4}X_repeat produced, i.e.
the tree description `weightsHeader` (HUF_writeCTable_wksp; empty when the previous table is reused, `hType = set_repeat`) followed
by the stream(s); `cLitSize` is their total size and the header goes in front.  `litSize` = srcSize (regenerated size). -/
def compressedLiterals (single : Bool) (weightsHeader streams : ByteArray) (litSize : Nat) (hType : Nat := set_compressed) : ByteArray :=
  compressedHeader hType single litSize (weightsHeader.size + streams.size) ++ weightsHeader ++ streams

/-- HUF_writeCTable_wksp, the loop `for (n=0; n<maxSymbolValue; n+=2) op[(n/2)+1] = (BYTE)((huffWeight[n] << 4) + huffWeight[n+1])`
(with `huffWeight[maxSymbolValue] = 0` behind an odd number of weights) -/
def packNibbles : List Nat → List UInt8
  | [] => []
  | [a] => [UInt8.ofNat ((a <<< 4) + 0)]
  | a :: b :: rest => UInt8.ofNat ((a <<< 4) + b) :: packNibbles rest

/-- HUF_writeCTable_wksp (huf_compress.c), the DIRECT form "write raw values as 4-bits": `huffWeight` are the weights of symbols
`0 .. maxSymbolValue-1` (the weight of the last symbol is implied); `op[0] = (BYTE)(128 + (maxSymbolValue-1))`, then the packed
nibbles, `((maxSymbolValue+1)/2) + 1` bytes in all; `none` = `ERROR(GENERIC)` for `maxSymbolValue > 128`.
The C function first tries HUF_compressWeights and prefers its output when that is more than 1 and less than `maxSymbolValue/2`
bytes: that FSE-compressed form is `fseWeights` above (`Block.decodeLiterals` reads it, via `FSE.decompressWeights`); the literals
writer `hufLiterals` below uses the direct form only. -/
def directWeights (huffWeight : List Nat) : Option ByteArray :=
  if huffWeight.length > 128 then none
  else some ((ByteArray.empty.push (UInt8.ofNat (128 + huffWeight.length - 1))) ++ (packNibbles huffWeight).toByteArray)

/-- HUF_compressWeights (huf_compress.c): the weights `weightTable` (symbols 0 .. maxSymbolValue-1 of the Huffman alphabet; each
≤ HUF_TABLELOG_MAX) FSE-compressed: FSE_writeNCount of the normalised counts, then FSE_compress_usingCTable under the table built from
them.  The normalised counts `norm` (one per weight value up to the largest one present) and `tableLog` (≤ 6 =
MAX_FSE_TABLELOG_FOR_HUFF_HEADER) are a DECISION handed to the model: FSE_optimalTableLog / FSE_normalizeCount are heuristics, not
modelled (as for the sequence tables, Model/BlockEnc.lean).  `none` = the C function returns 0 or 1, "not compressible" / "rle", which the
caller does not use: `wtSize <= 1`; `maxCount == wtSize` (one weight value only); `maxCount == 1` (every value at most once);
FSE_compress_usingCTable returned 0 (`wtSize <= 2`). -/
def compressWeights (norm : Array Int) (tableLog : Nat) (weightTable : List Nat) : Option ByteArray :=
  if weightTable.length ≤ 1 then none else
  let maxCount := ((List.range (Gen.HUF_TABLELOG_MAX + 1)).map (fun w => weightTable.count w)).foldl max 0
  if maxCount = weightTable.length then none else
  if maxCount = 1 then none else
  match FSE.compressFields (FSE.buildCTable norm tableLog) weightTable with
  | some fields => some (NCountW.writeNCount norm tableLog ++ BitW.ofFields fields)
  | none => none

/-- HUF_writeCTable_wksp (huf_compress.c), the FSE-COMPRESSED form, tried first: `hSize = HUF_compressWeights(op+1, ..., huffWeight,
maxSymbolValue)`; `if ((hSize>1) & (hSize < maxSymbolValue/2)) { op[0] = (BYTE)hSize; return hSize+1; }`.  `none` = the condition fails:
the C function goes on to the direct form (`directWeights`). -/
def fseWeights (norm : Array Int) (tableLog : Nat) (huffWeight : List Nat) : Option ByteArray :=
  match compressWeights norm tableLog huffWeight with
  | some h =>
    if h.size > 1 ∧ h.size < huffWeight.length / 2 then some ((ByteArray.empty.push (UInt8.ofNat h.size)) ++ h) else none
  | none => none

/-- HUF_compress1X_usingCTable / HUF_compress4X_usingCTable (huf_compress.c) with the byte-level bit writer: the stream(s) of the
literals `lits` under the code table `codes`; `none` = the C function returns 0 -/
def hufStreams (single : Bool) (codes : Array (Nat × Nat)) (lits : List Nat) : Option ByteArray :=
  if single then some (BitW.ofFields (HufEnc.encode1 codes lits))
  else HufEnc.compress4 BitW.ofFields codes lits

/-- ZSTD_compressLiterals on the path "new table, direct tree description, Huffman output kept" with no valid previous table
(`singleStream = srcSize < 256`): `weights` are the weights of symbols `0 .. maxSymbolValue` (as `Huf.readStats` returns them),
`tableLog` the depth HUF_buildCTable_wksp settled on -/
def hufLiterals (weights : Array Nat) (tableLog : Nat) (lits : List Nat) : Option ByteArray :=
  let single := decide (lits.length < 256)
  match directWeights weights.toList.dropLast, hufStreams single (HufEnc.codesOf weights tableLog) lits with
  | some hdr, some streams => some (compressedLiterals single hdr streams lits.length)
  | _, _ => none

/-- HUF_writeCTable_wksp as a whole: the FSE-compressed form when HUF_compressWeights pays (`fseWeights`), else the direct form
(`directWeights`); `norm` / `nlog` = the normalised counts of the weight values handed to HUF_compressWeights (a decision, see there) -/
def treeDescr (norm : Array Int) (nlog : Nat) (huffWeight : List Nat) : Option ByteArray :=
  match fseWeights norm nlog huffWeight with
  | some h => some h
  | none => directWeights huffWeight

/-- `hufLiterals` with the tree description written by the whole of HUF_writeCTable_wksp (`treeDescr`: FSE-compressed weights when
that is smaller); with it alphabets beyond symbol 128 can be described -/
def hufLiteralsFse (weights : Array Nat) (tableLog : Nat) (norm : Array Int) (nlog : Nat) (lits : List Nat) : Option ByteArray :=
  let single := decide (lits.length < 256)
  match treeDescr norm nlog weights.toList.dropLast, hufStreams single (HufEnc.codesOf weights tableLog) lits with
  | some hdr, some streams => some (compressedLiterals single hdr streams lits.length)
  | _, _ => none

/-- ZSTD_compressLiterals on the path "the table of the previous block is re-used, Huffman output kept" (TREELESS literals):
HUF_compress{1,4}X_repeat is handed `prevHuf->CTable` with `*repeat = prevHuf->repeatMode != HUF_repeat_none`; HUF_compress_internal
keeps that table (HUF_validateCTable passed; `HUF_flags_preferRepeat`, or the old table is estimated not larger than a new table plus
its description) and returns what HUF_compressCTable_internal writes with `oldHufTable`: the stream(s) only, NO tree description;
`*repeat` stays set, so `hType = set_repeat`.  `weights` / `tableLog` = the table of that previous block (as in `hufLiterals`).
`singleStream = srcSize < 256`: inside a frame the previous table is in mode HUF_repeat_check; the widening
`if (repeat == HUF_repeat_valid && lhSize == 3) singleStream = 1` only applies to a dictionary's table. -/
def treelessLiterals (weights : Array Nat) (tableLog : Nat) (lits : List Nat) : Option ByteArray :=
  let single := decide (lits.length < 256)
  match hufStreams single (HufEnc.codesOf weights tableLog) lits with
  | some streams => some (compressedLiterals single ByteArray.empty streams lits.length set_repeat)
  | none => none

end ZstdVerif.LitEnc
