/-
Frame-level serializer for frames made of raw and RLE blocks: the "total fallback" of the compressor (every block can always be
emitted raw).  Mirrors lib/compress/zstd_compress.c:
  ZSTD_writeFrameHeader (Model/HeaderW.writeHeader), ZSTD_noCompressBlock, ZSTD_rleCompressBlock, ZSTD_compress_frameChunk (how the
  input is cut into blocks and which block carries the last-block flag), ZSTD_writeEpilogue (empty last block for a frame without
  blocks, 32-bit content checksum).
Lemmas/FrameRT.lean proves that the decoder model of Model/Frame.lean maps every such frame back to its content
(frame_roundtrip_raw, frame_roundtrip_blocks, multi_frame_roundtrip).
-/
import ZstdVerif.Model.HeaderW
namespace ZstdVerif.Serialize
open ZstdVerif.Gen ZstdVerif.HeaderW

/-- how the serializer encodes the next stretch of the input -/
inductive BlockChoice where
  /-- the next `len` bytes as a raw block (ZSTD_noCompressBlock) -/
  | raw (len : Nat)
  /-- the next `count` bytes, all equal to `b`, as an RLE block (ZSTD_rleCompressBlock) -/
  | rle (b : UInt8) (count : Nat)
deriving Repr, DecidableEq, Inhabited

/-- number of content bytes a block stands for -/
def BlockChoice.len : BlockChoice → Nat
  | .raw n => n
  | .rle _ n => n

/-- a byte list as a byte array -/
def ofList (l : List UInt8) : ByteArray := ByteArray.mk l.toArray

/-- the value of the 3-byte block header: `lastBlock + (blockType << 1) + (srcSize << 3)` (bt_raw = 0, bt_rle = 1) -/
def blockHeaderVal (last : Bool) (ty size : Nat) : Nat := (if last then 1 else 0) + (ty <<< 1) + (size <<< 3)

/-- MEM_writeLE24 of the block header (low 16 bits, then the byte above) -/
def blockHeader24 (last : Bool) (ty size : Nat) : ByteArray :=
  let h := blockHeaderVal last ty size
  ofList [byte h, byte (h >>> 8), byte (h >>> 16)]

/-- ZSTD_noCompressBlock: `MEM_writeLE24(dst, lastBlock + (bt_raw<<1) + (srcSize<<3))`, then the `srcSize` bytes themselves
(here `x[pos, pos+n)`) -/
def noCompressBlock (last : Bool) (x : ByteArray) (pos n : Nat) : ByteArray :=
  blockHeader24 last 0 n ++ x.extract pos (pos + n)

/-- ZSTD_rleCompressBlock: `MEM_writeLE24(dst, lastBlock + (bt_rle<<1) + (srcSize<<3))`, then the repeated byte -/
def rleCompressBlock (last : Bool) (b : UInt8) (n : Nat) : ByteArray :=
  blockHeader24 last 1 n ++ ofList [b]

/-- the block loop of ZSTD_compress_frameChunk (called with lastFrameChunk = 1) for a given list of block decisions: block after
block from position `pos` of the input; the block that exhausts the list carries the last-block flag -/
def serializeBlocks (x : ByteArray) : List BlockChoice → Nat → ByteArray
  | [], _ => ByteArray.empty
  | .raw n :: rest, pos => noCompressBlock rest.isEmpty x pos n ++ serializeBlocks x rest (pos + n)
  | .rle b n :: rest, pos => rleCompressBlock rest.isEmpty b n ++ serializeBlocks x rest (pos + n)

/-- ZSTD_writeEpilogue: a frame that has no block yet (stage ≠ ZSTDcs_ending) gets one empty raw block flagged last
(`cBlockHeader24 = 1 + (bt_raw<<1) + 0`); then the low 32 bits of the XXH64 of the content when the checksum flag is set -/
def epilogue (a : HArgs) (noBlockYet : Bool) (x : ByteArray) : ByteArray :=
  (if noBlockYet then blockHeader24 true 0 0 else ByteArray.empty) ++
  (if a.checksum then ofList (le4 ((XXH64.hashRange x 0 x.size).toNat &&& 0xFFFFFFFF)) else ByteArray.empty)

/-- a whole frame: ZSTD_writeFrameHeader, the blocks (ZSTD_compress_frameChunk emits nothing for an empty list), ZSTD_writeEpilogue -/
def serializeFrame (a : HArgs) (blocks : List BlockChoice) (x : ByteArray) : ByteArray :=
  ofList (writeHeader a) ++ (serializeBlocks x blocks 0 ++ epilogue a blocks.isEmpty x)

/-- the cutting loop of ZSTD_compress_frameChunk: `while (remaining) { blockSize = MIN(blockSizeMax, remaining); … }`
(`fuel` ≥ number of blocks; every block takes at least one byte when `bsz ≥ 1`) -/
def rawBlocksFuel (bsz : Nat) : Nat → Nat → List BlockChoice
  | 0, _ => []
  | fuel + 1, remaining =>
    if remaining = 0 then [] else .raw (min bsz remaining) :: rawBlocksFuel bsz fuel (remaining - min bsz remaining)

/-- raw blocks of `bsz` bytes covering `n` bytes (the last one shorter); no block at all for an empty input -/
def rawBlocks (bsz n : Nat) : List BlockChoice := rawBlocksFuel bsz n n

/-- the block size the compressor works with (ZSTD_resetCCtx_internal: `windowSize = MAX(1, MIN(1 << windowLog, pledgedSrcSize))`,
`blockSize = MIN(ZSTD_BLOCKSIZE_MAX, windowSize)`; an unknown size counts as 2^64-1).  `HArgs` carries the pledged size only together
with the content-size flag; a known but unannounced size gives the same blocks, since a block never exceeds what is left. -/
def blockSize (a : HArgs) : Nat :=
  min ZSTD_BLOCKSIZE_MAX (max 1 (min (2 ^ a.windowLog) (if a.contentSizeFlag then a.pledged else 2 ^ 64 - 1)))

/-- the frame with every block emitted raw, blocks of `bsz` bytes -/
def rawFrameWith (a : HArgs) (bsz : Nat) (x : ByteArray) : ByteArray := serializeFrame a (rawBlocks bsz x.size) x

/-- the canonical total fallback: every block raw, cut like ZSTD_compress_frameChunk cuts (blocks of `blockSize a` bytes, the last
one flagged; one empty raw last block for an empty input).  The content size is written truthfully when `a.pledged = x.size`. -/
def rawFrame (a : HArgs) (x : ByteArray) : ByteArray := rawFrameWith a (blockSize a) x

/-- a skippable frame: magic 0x184D2A50 + variant, 32-bit payload size, payload (ZSTD_writeSkippableFrame) -/
def skippableFrame (variant : Nat) (payload : ByteArray) : ByteArray :=
  ofList (le4 (ZSTD_MAGIC_SKIPPABLE_START + variant) ++ le4 payload.size) ++ payload

end ZstdVerif.Serialize
