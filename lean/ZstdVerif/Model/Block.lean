/-
Compressed-block decoding (zstd_decompress_block.c): literals section, sequences section header with the
three table modes, the interleaved FSE sequence bitstream (ZSTD_decodeSequence), and sequence execution over
the history `dict ++ output so far` (ZSTD_execSequence checks; the execution itself lives in Model/Exec.lean).
-/
import ZstdVerif.Model.Huf
import ZstdVerif.Model.Rep
import ZstdVerif.Model.Exec
namespace ZstdVerif.Block
open ZstdVerif.Gen

-- `Seq` (one decoded sequence), `Out` (output under construction) and `copyMatch` are defined in Model/Exec.lean
export ZstdVerif.Exec (Seq Out copyMatch)

/-- entropy state carried from block to block (and loaded from a dictionary) -/
structure Entropy where
  huf : Option Huf.Table := none                 -- litEntropy
  ll : Array SeqCell := #[]
  llLog : Nat := 0
  of : Array SeqCell := #[]
  ofLog : Nat := 0
  ml : Array SeqCell := #[]
  mlLog : Nat := 0
  fseValid : Bool := false                       -- fseEntropy
  rep : Array Nat := #[1, 4, 8]
deriving Inhabited

inductive LitMode where | raw | rle | compressed | treeless
deriving DecidableEq, Repr, Inhabited

/-- what the decoder saw in one block (decode trace; consumed by Conform / Serialize) -/
structure Trace where
  litMode : LitMode := .raw
  litStreams : Nat := 1
  litSize : Nat := 0
  nbSeq : Nat := 0
  modes : Nat × Nat × Nat := (0, 0, 0)       -- LL, OF, ML symbol-compression modes
  seqs : Array Seq := #[]
  tableSizes : Nat × Nat × Nat := (0, 0, 0)  -- bytes of the LL, OF, ML table descriptions
  bitstreamSize : Nat := 0
deriving Inhabited

structure LitResult where
  lits : ByteArray
  used : Nat
  ent : Entropy
  mode : LitMode
  streams : Nat

/-- ZSTD_decodeLiteralsBlock on `src[start, start+srcSize)`; `blockSizeMax` from the frame, `dstCap` = remaining output room -/
def decodeLiterals (src : Bytes) (start srcSize : Nat) (ent : Entropy) (blockSizeMax dstCap : Nat) : R LitResult := do
  if srcSize < MIN_CBLOCK_SIZE then throw (.corruptionAt "Block:54")
  let b0 := src.u8 start
  let ty := b0 &&& 3
  let lhl := (b0 >>> 2) &&& 3
  let expected := min blockSizeMax dstCap
  if ty == 2 || ty == 3 then
    if ty == 3 && ent.huf.isNone then throw .dictCorrupted
    if srcSize < 5 then throw (.corruptionAt "Block:61")
    let lhc := src.le32 start
    let (single, lhSize, litSize, litCSize) :=
      if lhl == 0 || lhl == 1 then (lhl == 0, 3, (lhc >>> 4) &&& 0x3FF, (lhc >>> 14) &&& 0x3FF)
      else if lhl == 2 then (false, 4, (lhc >>> 4) &&& 0x3FFF, lhc >>> 18)
      else (false, 5, (lhc >>> 4) &&& 0x3FFFF, (lhc >>> 22) + (src.u8 (start + 4) <<< 10))
    if litSize > blockSizeMax then throw (.corruptionAt "Block:67")
    if !single && litSize < MIN_LITERALS_FOR_4_STREAMS then throw .literalsHeaderWrong
    if litCSize + lhSize > srcSize then throw (.corruptionAt "Block:69")
    if expected < litSize then throw .dstTooSmall
    let mut table : Huf.Table := default
    let mut hstart := start + lhSize
    let mut hlen := litCSize
    if ty == 3 then
      table := ent.huf.getD default
    else
      let st ← match Huf.readStats src hstart hlen with
        | .ok s => pure s
        | .error er => throw (.corruptionAt ("Block:79<" ++ er.site))
      table := Huf.buildTable st
      if st.used > hlen then throw (.corruptionAt "Block:81")
      hstart := hstart + st.used
      hlen := hlen - st.used
    let lits ← match (if single then Huf.decode1 table src hstart hlen litSize ByteArray.empty
                      else Huf.decode4 table src hstart hlen litSize ByteArray.empty) with
      | .ok l => pure l
      | .error (.lax w) => throw (.lax w)
      | .error er => throw (.corruptionAt ("Block:87<" ++ er.site))
    return { lits := lits, used := litCSize + lhSize, ent := { ent with huf := some table },
             mode := if ty == 2 then .compressed else .treeless, streams := if single then 1 else 4 }
  else
    let (lhSize, litSize) ←
      if lhl == 0 || lhl == 2 then pure (1, b0 >>> 3)
      else if lhl == 1 then
        (if ty == 1 && srcSize < 3 then throw (.corruptionAt "Block:94") else pure (2, src.le16 start >>> 4))
      else
        (if srcSize < (if ty == 1 then 4 else 3) then throw (.corruptionAt "Block:96") else pure (3, src.le24 start >>> 4))
    if litSize > blockSizeMax then throw (.corruptionAt "Block:97")
    if expected < litSize then throw .dstTooSmall
    if ty == 0 then
      if litSize + lhSize > srcSize then throw (.corruptionAt "Block:100")
      return { lits := src.extract (start + lhSize) (start + lhSize + litSize), used := lhSize + litSize, ent := ent, mode := .raw, streams := 1 }
    else
      let byte := UInt8.ofNat (src.u8 (start + lhSize))
      return { lits := ByteArray.mk (Array.replicate litSize byte), used := lhSize + 1, ent := ent, mode := .rle, streams := 1 }

/-- ZSTD_buildSeqTable for one of LL / OF / ML; returns (table, log, bytes used) -/
def buildSeqTable (mode : Nat) (src : Bytes) (ip iend : Nat) (maxSym maxLog : Nat) (base bits : List Nat)
    (dflt : List SeqCell) (dfltLog : Nat) (prev : Array SeqCell) (prevLog : Nat) (fseValid : Bool) :
    R (Array SeqCell × Nat × Nat) := do
  if mode == 1 then
    if ip ≥ iend then throw (.srcSizeWrongAt "Block:111")
    let sym := src.u8 ip
    if sym > maxSym then throw (.corruptionAt "Block:113")
    return (FSE.rleSeqTable sym base bits, 0, 1)
  else if mode == 0 then
    return (dflt.toArray, dfltLog, 0)
  else if mode == 3 then
    if !fseValid then throw (.corruptionAt "Block:118")
    return (prev, prevLog, 0)
  else
    let nc ← match FSE.readNCount src ip (iend - ip) maxSym with
      | .ok n => pure n
      | .error er => throw (.corruptionAt ("Block:123<" ++ er.site))
    if nc.tableLog > maxLog then throw (.corruptionAt "Block:124")
    return (FSE.buildSeqTable nc.norm nc.tableLog base bits, nc.tableLog, nc.used)

/-- result of the sequence decoding loop: the sequences, the bit reader after the last one, the repeat-offset history after the last one -/
structure SeqDec where
  seqs : Array Seq
  r : BitR
  rep : Array Nat

/-- the DECODING half of the loop of ZSTD_decompressSequences_body: `nbSeq` times ZSTD_decodeSequence (offset code and its extra
bits with the repeat-offset resolution, match length, literal length, then the three FSE state updates except after the last
sequence).  Nothing in here can fail: table lookups are total and `BitR.read` never throws - reading below the start of the stream
only sets the sticky `over` flag, which is looked at once, after the loop (`BitR.atEnd`). -/
def decodeSeqs (llT ofT mlT : Array SeqCell) (nbSeq : Nat) (sLL0 sOF0 sML0 : Nat) (r0 : BitR) (rep0 : Array Nat) : SeqDec := Id.run do
  let mut sLL := sLL0
  let mut sOF := sOF0
  let mut sML := sML0
  let mut r := r0
  let mut rep := rep0
  let mut seqs : Array Seq := Array.mkEmpty nbSeq
  for k in [0:nbSeq] do
    let cLL := llT[sLL]!
    let cOF := ofT[sOF]!
    let cML := mlT[sML]!
    let ofBits := cOF.nbAddBits
    let ll0 := if cLL.baseValue == 0 then 1 else 0
    let mut offset := 0
    let mut ofValue := 0
    -- Offset_Value as coded: offset + 3, or 1..3 for the repeat codes; the history update is Rep.resolve (theorem C01.rep_lockstep)
    if ofBits > 1 then
      let (x, r') := r.read ofBits
      r := r'
      ofValue := cOF.baseValue + x + 3
    else if ofBits == 0 then
      ofValue := cOF.baseValue + 1
    else
      let (x, r') := r.read 1
      r := r'
      ofValue := cOF.baseValue + x + 1
    let (off', rep') := Rep.resolve ⟨rep[0]!, rep[1]!, rep[2]!⟩ ofValue ll0
    offset := off'
    rep := #[rep'.r0, rep'.r1, rep'.r2]
    let mut mlen := cML.baseValue
    if cML.nbAddBits > 0 then
      let (x, r') := r.read cML.nbAddBits
      r := r'
      mlen := mlen + x
    let mut llen := cLL.baseValue
    if cLL.nbAddBits > 0 then
      let (x, r') := r.read cLL.nbAddBits
      r := r'
      llen := llen + x
    if k + 1 != nbSeq then
      let (x, r') := r.read cLL.nbBits
      sLL := cLL.nextState + x
      let (y, r'') := r'.read cML.nbBits
      sML := cML.nextState + y
      let (z, r''') := r''.read cOF.nbBits
      sOF := cOF.nextState + z
      r := r'''
    seqs := seqs.push { ll := llen, ml := mlen, offset := offset, ofValue := ofValue }
  return { seqs := seqs, r := r, rep := rep }

/-- everything ZSTD_decompressBlock_internal has decoded before the first output byte of the block is written -/
structure Prepared where
  lits : ByteArray
  /-- entropy state after the block (tables of this block, repeat offsets after its last sequence) -/
  ent : Entropy
  tr : Trace
  seqs : Array Seq
  /-- verdict on the sequence bit stream: `!BIT_endOfDStream` → corruption_detected (`.ok ()` when the block has no sequences) -/
  streamCheck : R Unit

/-- first half of ZSTD_decompressBlock_internal on the block body `src[start, start+cSize)`: ZSTD_decodeLiteralsBlock,
ZSTD_decodeSeqHeaders, and the DECODING of all sequences (`dstCap` = remaining output room; used by the literals and by the
`dstCapacity == 0 && nbSeq > 0` check only).

Order of errors.  The C loop interleaves `ZSTD_decodeSequence` (k) / `ZSTD_execSequence` (k).  Decoding a sequence cannot fail
(`decodeSeqs`) and does not depend on the output, so decoding ALL sequences here and executing them afterwards (`finish`) reports
the same first error as the interleaved loop: the first failing `Exec.step` in sequence order, else the end-of-stream verdict,
else the last-literals capacity check.  A block without sequences is the degenerate case: no `Exec.step`, no bit stream, and the
whole literals buffer is the last literal segment (`lits.size > dstCap` → dstSize_tooSmall in `Exec.lastLiterals`). -/
def prepare (src : Bytes) (start cSize : Nat) (ent : Entropy) (blockSizeMax dstCap : Nat) : R Prepared := do
  if cSize > blockSizeMax then throw (.srcSizeWrongAt "Block:148")
  let lr ← decodeLiterals src start cSize ent blockSizeMax dstCap
  let mut ip := start + lr.used
  let iend := start + cSize
  let mut tr : Trace := { litMode := lr.mode, litStreams := lr.streams, litSize := lr.lits.size }
  -- ZSTD_decodeSeqHeaders
  if iend - ip < MIN_SEQUENCES_SIZE then throw (.srcSizeWrongAt "Block:155")
  let mut nbSeq := src.u8 ip
  ip := ip + 1
  if nbSeq > 0x7F then
    if nbSeq == 0xFF then
      if ip + 2 > iend then throw (.srcSizeWrongAt "Block:160")
      nbSeq := src.le16 ip + LONGNBSEQ
      ip := ip + 2
    else
      if ip ≥ iend then throw (.srcSizeWrongAt "Block:164")
      nbSeq := ((nbSeq - 0x80) <<< 8) + src.u8 ip
      ip := ip + 1
  tr := { tr with nbSeq := nbSeq }
  let mut e := lr.ent
  if nbSeq == 0 then
    if ip != iend then throw (.corruptionAt "Block:171")
    return { lits := lr.lits, ent := e, tr := tr, seqs := #[], streamCheck := .ok () }
  if ip + 1 > iend then throw (.srcSizeWrongAt "Block:174")
  let mb := src.u8 ip
  if mb &&& 3 != 0 then throw (.corruptionAt "Block:176")
  ip := ip + 1
  let (llT, llLog, u1) ← buildSeqTable (mb >>> 6) src ip iend MaxLL LLFSELog LL_base LL_bits LL_defaultDTable LL_DEFAULTNORMLOG e.ll e.llLog e.fseValid
  ip := ip + u1
  let (ofT, ofLog, u2) ← buildSeqTable ((mb >>> 4) &&& 3) src ip iend MaxOff OffFSELog OF_base OF_bits OF_defaultDTable OF_DEFAULTNORMLOG e.of e.ofLog e.fseValid
  ip := ip + u2
  let (mlT, mlLog, u3) ← buildSeqTable ((mb >>> 2) &&& 3) src ip iend MaxML MLFSELog ML_base ML_bits ML_defaultDTable ML_DEFAULTNORMLOG e.ml e.mlLog e.fseValid
  ip := ip + u3
  tr := { tr with modes := (mb >>> 6, (mb >>> 4) &&& 3, (mb >>> 2) &&& 3), tableSizes := (u1, u2, u3), bitstreamSize := iend - ip }
  e := { e with ll := llT, llLog := llLog, of := ofT, ofLog := ofLog, ml := mlT, mlLog := mlLog, fseValid := true }
  if dstCap == 0 then throw .dstTooSmall
  -- ZSTD_decompressSequences
  let r0 ← match BitR.init src ip (iend - ip) with
    | .ok r => pure r
    | .error er => throw (.corruptionAt ("Block:190<" ++ er.site))
  let (sLL0, r1) := r0.read llLog
  let (sOF0, r2) := r1.read ofLog
  let (sML0, r3) := r2.read mlLog
  let sd := decodeSeqs llT ofT mlT nbSeq sLL0 sOF0 sML0 r3 e.rep
  return { lits := lr.lits, ent := { e with rep := sd.rep }, tr := { tr with seqs := sd.seqs }, seqs := sd.seqs,
           streamCheck := if !sd.r.atEnd then .error (.corruptionAt "Block:256") else .ok () }

/-- second half of ZSTD_decompressBlock_internal: execute the decoded sequences on the output (Exec.run: ZSTD_execSequence in
sequence order, then the end-of-stream verdict, then the last literals).  The entropy state and the trace are handed out only on success. -/
def finish (dict : Bytes) (o : Out) (p : Prepared) : R (ByteArray × Entropy × Trace) :=
  match Exec.run dict o p.lits p.seqs.toList p.streamCheck with
  | .ok out => .ok (out, p.ent, p.tr)
  | .error e => .error e

/-- ZSTD_decompressBlock_internal on the block body `src[start, start+cSize)` -/
def decodeBlock (src : Bytes) (start cSize : Nat) (ent : Entropy) (dict : Bytes) (o : Out) (blockSizeMax : Nat) :
    R (ByteArray × Entropy × Trace) :=
  prepare src start cSize ent blockSizeMax (o.cap - o.out.size) >>= finish dict o

end ZstdVerif.Block
