/-
FSE (tANS) ENCODER side: compression-table construction (lib/compress/fse_compress.c: FSE_buildCTable_wksp) and the encoder state
machine (lib/common/fse.h: FSE_initCState, FSE_initCState2, FSE_encodeSymbol, FSE_flushCState).

The encoder walks the symbols in REVERSE order and pushes bit fields; the decoder pops them in forward order: the bit stream is a stack.
`encodeAll` is the way ZSTD_encodeSequences (lib/compress/zstd_compress_sequences.c) drives ONE table (no extra bits).
`Lemmas/FSERT.lean` proves that the decoding table `FSE.cellsOf` (Model/FSE.lean) inverts this encoder.

Integer types.  `deltaNbBits` is a U32 in C: it is kept here as the (non-negative) value of that U32 (`u32` reduces modulo 2^32 where the C
arithmetic is unsigned 32-bit).  `deltaFindState` is an `int`, the encoder state `value` a `ptrdiff_t` (64-bit): plain integers.
`tableU16[]` entries are U16 (`% 65536`).  `cumul[]` is U16 in C; its entries are at most `tableSize + 1 ≤ 2^15 + 1` (the C code asserts
`tableLog < 16` and "no overflow"), so no reduction is applied to them.  Symbols are `FSE_FUNCTION_TYPE = BYTE` in `tableSymbol[]`: the
model takes alphabets of at most 256 symbols.  Counts below -1 are excluded by a C `assert`; the model reads them as 0 occurrences.
-/
import ZstdVerif.Model.FSE
namespace ZstdVerif.FSE

/-- value of a C expression computed in unsigned 32-bit arithmetic -/
@[inline] def u32 (x : Int) : Int := x % 4294967296

/-- FSE_symbolCompressionTransform (fse.h): `{ int deltaFindState; U32 deltaNbBits; }` -/
structure SymTT where
  deltaFindState : Int
  deltaNbBits : Int
deriving Inhabited, DecidableEq, Repr

/-- FSE_CTable: header (tableLog), `tableU16[tableSize]` (next-state values sorted by symbol), `symbolTT[maxSymbolValue+1]` -/
structure CTable where
  tableLog : Nat
  stateTable : Array Nat
  symbolTT : Array SymTT
deriving Inhabited, DecidableEq, Repr

/-- FSE_buildCTable_wksp, "symbol start positions": `cumul[0] = 0; cumul[u] = cumul[u-1] + (normalizedCounter[u-1] == -1 ? 1 : normalizedCounter[u-1])`
for `u = 1..maxSV1`, then `cumul[maxSV1] = tableSize + 1` -/
def cumulOf (norm : Array Int) (tableLog : Nat) : Array Nat :=
  let cum := (List.range norm.size).foldl (fun (cum : Array Nat) u => cum.push (cum[u]! + cnt norm u)) #[0]
  cum.set! norm.size ((1 <<< tableLog) + 1)

/-- FSE_buildCTable_wksp, "Spread symbols" (the ENCODER's own copy of the spreading code): the symbol of every table position.
* low-probability symbols (count -1) are laid down from the top (`tableSymbol[highThreshold--] = u-1`, in the `cumul` loop);
* no low-probability symbol (`highThreshold == tableSize-1`): the symbols are first laid down consecutively in `spread[]` by 8-byte writes
  (`MEM_write64(spread + pos + i, sv)` for `i = 0, 8, .. < n`, at least once; `spread[]` has `tableSize + 8` bytes), then dealt to
  `tableSymbol[(position + u*step) & tableMask]`, two per iteration;
* otherwise: the `position = (position + step) & tableMask` walk that skips the low-probability area. -/
def spreadEnc (norm : Array Int) (tableLog : Nat) : Array Nat := Id.run do
  let tableSize := 1 <<< tableLog
  let tableMask := tableSize - 1
  let step := tableStep tableSize
  let mut tableSymbol : Array Nat := Array.replicate tableSize 0
  let mut highThreshold := tableSize - 1
  for s in [0:norm.size] do
    if norm[s]! == -1 then
      tableSymbol := tableSymbol.set! highThreshold s
      highThreshold := highThreshold - 1
  if highThreshold == tableSize - 1 then
    let mut spread : Array Nat := Array.replicate (tableSize + 8) 0
    let mut pos := 0
    for s in [0:norm.size] do
      let n := norm[s]!.toNat
      for j in [0:8] do
        spread := spread.set! (pos + j) s
      for i in [8:n:8] do
        for j in [0:8] do
          spread := spread.set! (pos + i + j) s
      pos := pos + n
    let mut position := 0
    for s in [0:tableSize:2] do
      for u in [0:2] do
        let uPosition := (position + u * step) &&& tableMask
        tableSymbol := tableSymbol.set! uPosition spread[s + u]!
      position := (position + 2 * step) &&& tableMask
  else
    let mut position := 0
    for symbol in [0:norm.size] do
      let freq := norm[symbol]!
      for _ in [0:freq.toNat] do
        tableSymbol := tableSymbol.set! position symbol
        position := (position + step) &&& tableMask
        -- `while (position > highThreshold)`: at most `tableSize` skips
        for _ in [0:tableSize] do
          if position ≤ highThreshold then break
          position := (position + step) &&& tableMask
  return tableSymbol

/-- occurrences of every symbol `< n` among the table positions -/
def histOf (n : Nat) (syms : Array Nat) : Array Nat :=
  syms.foldl (fun (h : Array Nat) s => h.set! s (h[s]! + 1)) (Array.replicate n 0)

/-- run-time check of `SpreadOK` (Lemmas/FSERT.lean: `spreadOK_iff`): `syms` has `2^tableLog` positions, every position holds a symbol
of the alphabet, and every symbol occurs exactly as often as its normalised count says (once for -1, never for 0) -/
def spreadOK (syms : Array Nat) (norm : Array Int) (tableLog : Nat) : Bool :=
  syms.size == 2 ^ tableLog && syms.all (· < norm.size) && histOf norm.size syms == nextInit norm

/-- FSE_buildCTable_wksp, one iteration of "Build table": `s = tableSymbol[u]; tableU16[cumul[s]++] = (U16)(tableSize + u)`.
State: (u, cumul, tableU16). -/
@[inline] def stStep (tableSize : Nat) (st : Nat × Array Nat × Array Nat) (s : Nat) : Nat × Array Nat × Array Nat :=
  let c := st.2.1[s]!
  (st.1 + 1, st.2.1.set! s (c + 1), st.2.2.set! c ((tableSize + st.1) % 65536))

/-- FSE_buildCTable_wksp, "Build table": `tableU16[]`, sorted by symbol order; gives the next state value -/
def stateTableOf (syms : Array Nat) (cumul : Array Nat) (tableLog : Nat) : Array Nat :=
  (syms.foldl (stStep (1 <<< tableLog)) (0, cumul, Array.replicate (1 <<< tableLog) 0)).2.2

/-- FSE_buildCTable_wksp, body of "Build Symbol Transformation Table" for symbol `s` (`total` = cells of the earlier symbols):
* count 0: `deltaNbBits = ((tableLog+1) << 16) - (1 << tableLog)` (deltaFindState is left unwritten in C; 0 here)
* count -1 or 1: `deltaNbBits = (tableLog << 16) - (1 << tableLog)`, `deltaFindState = total - 1`
* default: `maxBitsOut = tableLog - highbit32(count-1)`, `minStatePlus = count << maxBitsOut`,
  `deltaNbBits = (maxBitsOut << 16) - minStatePlus`, `deltaFindState = total - count` -/
def symTTOf (norm : Array Int) (tableLog : Nat) (total : Nat) (s : Nat) : SymTT :=
  let c := norm[s]!
  if c == 0 then
    { deltaNbBits := u32 ((((tableLog + 1) <<< 16 : Nat) : Int) - ((1 <<< tableLog : Nat) : Int)), deltaFindState := 0 }
  else if c == -1 || c == 1 then
    { deltaNbBits := u32 (((tableLog <<< 16 : Nat) : Int) - ((1 <<< tableLog : Nat) : Int)), deltaFindState := (total : Int) - 1 }
  else
    let maxBitsOut := tableLog - highbit (c.toNat - 1)
    let minStatePlus := c.toNat <<< maxBitsOut
    { deltaNbBits := u32 (((maxBitsOut <<< 16 : Nat) : Int) - (minStatePlus : Int)), deltaFindState := (total : Int) - (c.toNat : Int) }

/-- one iteration of "Build Symbol Transformation Table": state (total, symbolTT so far); `total` grows by the cells of the symbol -/
@[inline] def ttStep (norm : Array Int) (tableLog : Nat) (st : Nat × Array SymTT) (s : Nat) : Nat × Array SymTT :=
  (st.1 + cnt norm s, st.2.push (symTTOf norm tableLog st.1 s))

def symbolTTOf (norm : Array Int) (tableLog : Nat) : Array SymTT :=
  ((List.range norm.size).foldl (ttStep norm tableLog) (0, Array.mkEmpty norm.size)).2

/-- FSE_buildCTable_wksp given the symbol of every table position (`tableSymbol[]`) -/
def ctableOf (syms : Array Nat) (norm : Array Int) (tableLog : Nat) : CTable :=
  { tableLog := tableLog
    stateTable := stateTableOf syms (cumulOf norm tableLog) tableLog
    symbolTT := symbolTTOf norm tableLog }

/-- FSE_buildCTable_wksp (maxSymbolValue = norm.size - 1) -/
def buildCTable (norm : Array Int) (tableLog : Nat) : CTable := ctableOf (spreadEnc norm tableLog) norm tableLog

/-- FSE_initCState: `value = 1 << tableLog` -/
def initCState (ct : CTable) : Nat := 1 <<< ct.tableLog

/-- FSE_initCState2: the first symbol to include (the last one read by the decoder) takes the smallest state value possible.
`nbBitsOut = (U32)((deltaNbBits + (1<<15)) >> 16); value = (nbBitsOut << 16) - deltaNbBits;
 value = stateTable[(value >> nbBitsOut) + deltaFindState]` -/
def initCState2 (ct : CTable) (symbol : Nat) : Nat :=
  let tt := ct.symbolTT[symbol]!
  let nbBitsOut := ((u32 (tt.deltaNbBits + ((1 <<< 15 : Nat) : Int))) >>> 16).toNat
  let value : Int := u32 (((nbBitsOut <<< 16 : Nat) : Int) - tt.deltaNbBits)
  ct.stateTable[((value >>> nbBitsOut) + tt.deltaFindState).toNat]!

/-- FSE_encodeSymbol: `nbBitsOut = (U32)((value + deltaNbBits) >> 16); BIT_addBits(bitC, value, nbBitsOut);
 value = stateTable[(value >> nbBitsOut) + deltaFindState]`.
Returns the new state and the pushed field (its value: the low `nbBitsOut` bits of the state, as BIT_addBits masks it; its width). -/
def encodeSymbol (ct : CTable) (value : Nat) (symbol : Nat) : Nat × (Nat × Nat) :=
  let tt := ct.symbolTT[symbol]!
  let nbBitsOut := (u32 (((value : Int) + tt.deltaNbBits) >>> 16)).toNat
  (ct.stateTable[(((value : Int) >>> nbBitsOut) + tt.deltaFindState).toNat]!, (value % 2 ^ nbBitsOut, nbBitsOut))

/-- FSE_flushCState: `BIT_addBits(bitC, value, stateLog)` pushes the low `tableLog` bits of the state -/
def flushCState (ct : CTable) (value : Nat) : Nat × Nat := (value % 2 ^ ct.tableLog, ct.tableLog)

/-- the encoder loop over the symbols that remain (`rev` = the symbols still to encode, in encoding order = reverse stream order):
every FSE_encodeSymbol pushes its field on top of `stack` -/
def encodeLoop (ct : CTable) : List Nat → Nat → List (Nat × Nat) → Nat × List (Nat × Nat)
  | [], value, stack => (value, stack)
  | s :: rev, value, stack =>
    let r := encodeSymbol ct value s
    encodeLoop ct rev r.1 (r.2 :: stack)

/-- One table driven as ZSTD_encodeSequences (zstd_compress_sequences.c) drives each of its three tables, without the extra bits:
`FSE_initCState2(&state, ct, codes[n-1]); for (k = n-2; k < n; k--) FSE_encodeSymbol(&bits, &state, codes[k]); FSE_flushCState(&bits, &state)`.
The result is the stack of (value, width) bit fields, top (= last pushed = first popped by the decoder) first.  `codes = []` is not a
case of the C function (nbSeq ≥ 1); the model then pushes nothing. -/
def encodeAll (ct : CTable) (codes : List Nat) : List (Nat × Nat) :=
  match codes.reverse with
  | [] => []
  | last :: rev =>
    let r := encodeLoop ct rev (initCState2 ct last) []
    flushCState ct r.1 :: r.2

/-! ### two interleaved states: FSE_compress_usingCTable (used for the Huffman weights, HUF_compressWeights) -/

/-- FSE_compress_usingCTable_generic (fse_compress.c) behind the initialisation: the symbols that remain (`rev`, in encoding order =
reverse source order; an even number of them) go alternately to CState2 and to CState1 - `FSE_encodeSymbol(&bitC, &CState2, *--ip);
FSE_encodeSymbol(&bitC, &CState1, *--ip);` is what the "join to mod 4" step does once and the main loop once or twice per turn.  The
FSE_FLUSHBITS calls in between do not change the bytes (Lemmas/BitsRT.lean `flush_irrelevant`).  Every field is pushed on top of `stack`. -/
def encodePairs (ct : CTable) : List Nat → Nat → Nat → List (Nat × Nat) → Nat × Nat × List (Nat × Nat)
  | a :: b :: rev, s1, s2, stack =>
    let r2 := encodeSymbol ct s2 a
    let r1 := encodeSymbol ct s1 b
    encodePairs ct rev r1.1 r2.1 (r1.2 :: r2.2 :: stack)
  | _, s1, s2, stack => (s1, s2, stack)

/-- FSE_compress_usingCTable_generic: the stack of (value, width) bit fields, top (= last pushed) first; `none` = the C function returns 0
(`srcSize <= 2`).  Initialisation: `if (srcSize & 1) { FSE_initCState2(&CState1, ct, *--ip); FSE_initCState2(&CState2, ct, *--ip);
FSE_encodeSymbol(&bitC, &CState1, *--ip); } else { FSE_initCState2(&CState2, ct, *--ip); FSE_initCState2(&CState1, ct, *--ip); }`;
end: `FSE_flushCState(&bitC, &CState2); FSE_flushCState(&bitC, &CState1)` (BIT_closeCStream: the end mark, added by `BitW.ofFields`). -/
def compressStack (ct : CTable) (src : List Nat) : Option (List (Nat × Nat)) :=
  if src.length ≤ 2 then none else
  match src.reverse with
  | x0 :: x1 :: rev =>
    let r :=
      if src.length % 2 = 1 then
        match rev with
        | x2 :: rev2 =>
          let e := encodeSymbol ct (initCState2 ct x0) x2
          encodePairs ct rev2 e.1 (initCState2 ct x1) [e.2]
        | [] => encodePairs ct [] (initCState2 ct x0) (initCState2 ct x1) []
      else encodePairs ct rev (initCState2 ct x1) (initCState2 ct x0) []
    some (flushCState ct r.1 :: flushCState ct r.2.1 :: r.2.2)
  | _ => none

/-- the fields in the order they are appended to the forward bit writer -/
def compressFields (ct : CTable) (src : List Nat) : Option (List (Nat × Nat)) := (compressStack ct src).map List.reverse

end ZstdVerif.FSE
