/-
The sparse writer of the CLI (programs/fileio_asyncio.c: AIO_fwriteSparse / AIO_fwriteSparseEnd): runs of zero bytes are skipped
with a relative seek instead of being written; 8-byte words, 32 KiB segments, a byte-wise tail, and a final explicit zero.
A file is its materialised content; a seek of n followed by a write materialises n zeros first (a hole reads as zeros).
-/
namespace ZstdVerif.Sparse

abbrev Bytes := List UInt8

inductive IoOp where
  | seek (n : Nat)
  | write (n : Nat)
deriving DecidableEq, Repr

/-- content materialised so far, pending (not yet materialised) zero bytes = storedSkips, operations issued -/
structure St where
  content : Bytes := []
  skips : Nat := 0
  ops : List IoOp := []
deriving Repr

def wordSize : Nat := 8
def segmentSize : Nat := 32768

/-- number of leading all-zero 8-byte words (full words only) -/
def zeroWords (b : Bytes) : Nat :=
  if h : b.length ≥ 8 ∧ (b.take 8).all (· == 0) then 1 + zeroWords (b.drop 8) else 0
termination_by b.length
decreasing_by simp [List.length_drop]; omega

/-- LONG_SEEK(storedSkips) then fwrite(data): the skipped bytes become zeros of the file -/
def seekWrite (s : St) (data : Bytes) : St :=
  { content := s.content ++ List.replicate s.skips 0 ++ data, skips := 0, ops := s.ops ++ [.seek s.skips, .write data.length] }

/-- one segment of whole words -/
def segment (s : St) (seg : Bytes) : St :=
  let nb0 := zeroWords seg
  if 8 * nb0 = seg.length then { s with skips := s.skips + 8 * nb0 }
  else seekWrite { s with skips := s.skips + 8 * nb0 } (seg.drop (8 * nb0))

/-- the whole-word part of a buffer, 32 KiB at a time -/
def body (s : St) (b : Bytes) : St :=
  if h : b = [] then s else body (segment s (b.take segmentSize)) (b.drop segmentSize)
termination_by b.length
decreasing_by
  have : 0 < b.length := List.length_pos_iff.mpr h
  simp [List.length_drop, segmentSize]; omega

/-- the last partial word (bufferSize not a multiple of 8) -/
def tail (s : St) (rest : Bytes) : St :=
  if rest = [] then s else
  let z := (rest.takeWhile (· == 0)).length
  if z = rest.length then { s with skips := s.skips + z }
  else seekWrite { s with skips := s.skips + z } (rest.drop z)

/-- AIO_fwriteSparse on one buffer -/
def writeBuf (s : St) (buf : Bytes) : St :=
  let n := 8 * (buf.length / 8)
  tail (body s (buf.take n)) (buf.drop n)

/-- AIO_fwriteSparseEnd: the last zero is written explicitly so that the skipped ones exist -/
def finish (s : St) : St :=
  if s.skips > 0 then { content := s.content ++ List.replicate (s.skips - 1) 0 ++ [0], skips := 0, ops := s.ops ++ [.seek (s.skips - 1), .write 1] } else s

def writeAll (bufs : List Bytes) : St := finish (bufs.foldl writeBuf {})

end ZstdVerif.Sparse
