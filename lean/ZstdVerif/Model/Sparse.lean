/-
The sparse writer of the CLI (programs/fileio_asyncio.c: AIO_fwriteSparse / AIO_fwriteSparseEnd): runs of zero bytes are skipped
with a relative seek instead of being written; 8-byte words, 32 KiB segments, a byte-wise tail, and a final explicit zero.
A file is its materialised content; a seek of n followed by a write materialises n zeros first (a hole reads as zeros).
-/
namespace ZstdVerif.Sparse

abbrev Bytes := List UInt8

inductive IoOp where
  | seek (n : Nat)
  | write (n : Nat)
deriving DecidableEq, Repr

/-- content materialised so far, pending (not yet materialised) zero bytes = storedSkips, operations issued -/
structure St where
  content : Bytes := []
  skips : Nat := 0
  ops : List IoOp := []
deriving Repr

def wordSize : Nat := 8
def segmentSize : Nat := 32768

/-- number of leading all-zero 8-byte words (full words only) -/
def zeroWords (b : Bytes) : Nat :=
  if h : b.length ≥ 8 ∧ (b.take 8).all (· == 0) then 1 + zeroWords (b.drop 8) else 0
termination_by b.length
decreasing_by simp [List.length_drop]; omega

/-- LONG_SEEK(storedSkips) then fwrite(data): the skipped bytes become zeros of the file -/
def seekWrite (s : St) (data : Bytes) : St :=
  { content := s.content ++ List.replicate s.skips 0 ++ data, skips := 0, ops := s.ops ++ [.seek s.skips, .write data.length] }

/-- one segment of whole words -/
def segment (s : St) (seg : Bytes) : St :=
  let nb0 := zeroWords seg
  if 8 * nb0 = seg.length then { s with skips := s.skips + 8 * nb0 }
  else seekWrite { s with skips := s.skips + 8 * nb0 } (seg.drop (8 * nb0))

/-- the whole-word part of a buffer, 32 KiB at a time -/
def body (s : St) (b : Bytes) : St :=
  if h : b = [] then s else body (segment s (b.take segmentSize)) (b.drop segmentSize)
termination_by b.length
decreasing_by
  have : 0 < b.length := List.length_pos_iff.mpr h
  simp [List.length_drop, segmentSize]; omega

/-- the last partial word (bufferSize not a multiple of 8) -/
def tail (s : St) (rest : Bytes) : St :=
  if rest = [] then s else
  let z := (rest.takeWhile (· == 0)).length
  if z = rest.length then { s with skips := s.skips + z }
  else seekWrite { s with skips := s.skips + z } (rest.drop z)

/-- AIO_fwriteSparse on one buffer -/
def writeBuf (s : St) (buf : Bytes) : St :=
  let n := 8 * (buf.length / 8)
  tail (body s (buf.take n)) (buf.drop n)

/-- AIO_fwriteSparseEnd: the last zero is written explicitly so that the skipped ones exist -/
def finish (s : St) : St :=
  if s.skips > 0 then { content := s.content ++ List.replicate (s.skips - 1) 0 ++ [0], skips := 0, ops := s.ops ++ [.seek (s.skips - 1), .write 1] } else s

def writeAll (bufs : List Bytes) : St := finish (bufs.foldl writeBuf {})


/-! ### length view: the same writer with the file reduced to its size

Zero runs of many GiB cannot be materialised as a `List UInt8`.  The seek / write calls and the pending-skip count do not depend on the
bytes already in the file, only on their number; `LSt` keeps just that.  `storedSkips` is an unbounded `Nat` here: whatever the width of the
C accumulator, the calls must add up to these (Props/C19.lean: `abs_writeAll`, `writeBufL_zeros`, `zerosL_eq`). -/

structure LSt where
  size : Nat := 0
  skips : Nat := 0
  ops : List IoOp := []
deriving DecidableEq, Repr

def St.abs (s : St) : LSt := { size := s.content.length, skips := s.skips, ops := s.ops }

def seekWriteL (l : LSt) (n : Nat) : LSt :=
  { size := l.size + l.skips + n, skips := 0, ops := l.ops ++ [.seek l.skips, .write n] }

def segmentL (l : LSt) (seg : Bytes) : LSt :=
  let nb0 := zeroWords seg
  if 8 * nb0 = seg.length then { l with skips := l.skips + 8 * nb0 }
  else seekWriteL { l with skips := l.skips + 8 * nb0 } (seg.length - 8 * nb0)

def bodyL (l : LSt) (b : Bytes) : LSt :=
  if h : b = [] then l else bodyL (segmentL l (b.take segmentSize)) (b.drop segmentSize)
termination_by b.length
decreasing_by
  have : 0 < b.length := List.length_pos_iff.mpr h
  simp [List.length_drop, segmentSize]; omega

def tailL (l : LSt) (rest : Bytes) : LSt :=
  if rest = [] then l else
  let z := (rest.takeWhile (· == 0)).length
  if z = rest.length then { l with skips := l.skips + z }
  else seekWriteL { l with skips := l.skips + z } (rest.length - z)

def writeBufL (l : LSt) (buf : Bytes) : LSt :=
  let n := 8 * (buf.length / 8)
  tailL (bodyL l (buf.take n)) (buf.drop n)

def finishL (l : LSt) : LSt :=
  if l.skips > 0 then { size := l.size + l.skips, skips := 0, ops := l.ops ++ [.seek (l.skips - 1), .write 1] } else l

/-- `count` consecutive buffers of `n` zero bytes each: nothing is issued, the pending skip grows (proved equal to the fold of `writeBufL`
over those buffers: `zerosL_eq`) -/
def zerosL (l : LSt) (n count : Nat) : LSt := { l with skips := l.skips + n * count }

/-- a buffer sequence with run-length coded zero buffers -/
inductive Item where
  | data (b : Bytes)
  | zeros (n count : Nat)

def Item.expand : Item → List Bytes
  | .data b => [b]
  | .zeros n count => List.replicate count (List.replicate n 0)

def writeItemL (l : LSt) : Item → LSt
  | .data b => writeBufL l b
  | .zeros n count => zerosL l n count

def writeAllL (items : List Item) : LSt := finishL (items.foldl writeItemL {})

end ZstdVerif.Sparse
