/-
What a long-lived context decides about its own memory at the start of every frame (C15: a context must not wear out).

Compression: the workspace policy of ZSTD_resetCCtx_internal (zstd_compress.c) with ZSTD_cwksp_check_too_large /
ZSTD_cwksp_bump_oversized_duration / ZSTD_cwksp_check_wasteful (zstd_cwksp.h): a heap context counts the frames for which its
workspace is oversized and re-allocates it when it has been wasteful for more than ZSTD_WORKSPACETOOLARGE_MAXDURATION frames; a
static context can never resize, so it must never count.

Decompression: the buffer policy of ZSTD_decompressStream's zdss_loadHeader stage (zstd_decompress.c) with ZSTD_DCtx_isOverflow /
ZSTD_DCtx_updateOversizedDuration / ZSTD_DCtx_isOversizedTooLong.

The counters are `Nat` here; the compressor's is a C `int` (see the assumption recorded in tools/props/c15.py).
-/
import ZstdVerif.Gen.Consts
namespace ZstdVerif.Wear
open ZstdVerif.Gen

/-! ### compression workspace -/

/-- ZSTD_cwksp_check_too_large: `avail` = ZSTD_cwksp_available_space at the time of the reset (what the previous frame left free) -/
def tooLarge (avail needed : Nat) : Bool := decide (avail ≥ needed * ZSTD_WORKSPACETOOLARGE_FACTOR)

/-- ZSTD_cwksp_bump_oversized_duration -/
def bump (dur avail needed : Nat) : Nat := if tooLarge avail needed then dur + 1 else 0

/-- ZSTD_cwksp_check_wasteful -/
def wasteful (dur avail needed : Nat) : Bool := tooLarge avail needed && decide (dur > ZSTD_WORKSPACETOOLARGE_MAXDURATION)

/-- the workspace of a compression context between two frames -/
structure CWs where
  size : Nat
  avail : Nat
  dur : Nat
deriving DecidableEq, Repr

inductive COutcome where
  /-- the workspace is kept; the oversized-duration counter afterwards -/
  | keep (dur : Nat)
  /-- freed and re-created with exactly `size` bytes (ZSTD_cwksp_create zeroes the counter) -/
  | resize (size : Nat)
  /-- ZSTD_error_memory_allocation ("static cctx : no resize") -/
  | memory
deriving DecidableEq, Repr

/-- ZSTD_resetCCtx_internal, from `neededSpace` to the resize decision.  A heap context bumps its counter with a needed space
of 0 (as the code does), i.e. on every reset. -/
def cReset (isStatic : Bool) (w : CWs) (needed : Nat) : COutcome :=
  let dur := if isStatic then w.dur else bump w.dur w.avail 0
  if decide (w.size < needed) || wasteful dur w.avail needed then
    (if isStatic then .memory else .resize needed)
  else .keep dur

/-- a history of frames through one context: per frame the space it needs and what the frame before it left available
(the latter is decided by the match finder's table sizes: an oracle) -/
def cRun (isStatic : Bool) (size dur : Nat) : List (Nat × Nat) → List COutcome
  | [] => []
  | (needed, avail) :: rest =>
    let o := cReset isStatic ⟨size, avail, dur⟩ needed
    match o with
    | .keep d => o :: cRun isStatic size d rest
    | .resize s => o :: cRun isStatic s 0 rest
    | .memory => o :: cRun isStatic size dur rest

/-! ### streaming decoder buffers -/

structure DBufs where
  inSize : Nat
  outSize : Nat
  dur : Nat
deriving DecidableEq, Repr

/-- ZSTD_DCtx_isOverflow -/
def dOverflow (b : DBufs) (needIn needOut : Nat) : Bool :=
  decide (b.inSize + b.outSize ≥ (needIn + needOut) * ZSTD_WORKSPACETOOLARGE_FACTOR)

/-- ZSTD_DCtx_updateOversizedDuration -/
def dBump (b : DBufs) (needIn needOut : Nat) : Nat := if dOverflow b needIn needOut then b.dur + 1 else 0

inductive DOutcome where
  | keep (b : DBufs)
  /-- buffers laid out again with exactly the needed sizes (in place for a static context, free + malloc for a heap one) -/
  | relayout (b : DBufs)
  /-- ZSTD_error_memory_allocation: a static context whose room after the context structure cannot hold the two buffers -/
  | memory (b : DBufs)
deriving DecidableEq, Repr

/-- zdss_loadHeader, "Adapt buffer sizes to frame header instructions"; `room` = staticSize - sizeof(ZSTD_DCtx) for a static
context, `none` for a heap context -/
def dReset (room : Option Nat) (b : DBufs) (needIn needOut : Nat) : DOutcome :=
  let dur := dBump b needIn needOut
  let tooSmall := decide (b.inSize < needIn) || decide (b.outSize < needOut)
  let tooLarge := decide (dur ≥ ZSTD_WORKSPACETOOLARGE_MAXDURATION)
  if tooSmall || tooLarge then
    match room with
    | some r => if needIn + needOut > r then .memory { b with dur := dur } else .relayout ⟨needIn, needOut, dur⟩
    | none => .relayout ⟨needIn, needOut, dur⟩
  else .keep { b with dur := dur }

def DOutcome.bufs : DOutcome → DBufs
  | .keep b => b
  | .relayout b => b
  | .memory b => b

def dRun (room : Option Nat) (b : DBufs) : List (Nat × Nat) → List DOutcome
  | [] => []
  | (needIn, needOut) :: rest =>
    let o := dReset room b needIn needOut
    o :: dRun room o.bufs rest

end ZstdVerif.Wear
