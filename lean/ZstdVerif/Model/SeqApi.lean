/-
Sequence-level compression (zstd_compress.c): ZSTD_validateSequence, the explicit-delimiter block structure
(blockSize_explicitDelimiter / determine_blockSize) and the accept / reject decision of ZSTD_compressSequences with
ZSTD_c_validateSequences = 1.  The position at which offsets are validated is REGENERATED from the source (Gen/SeqVal.lean).
-/
import ZstdVerif.Gen.SeqVal
import ZstdVerif.Gen.Consts
namespace ZstdVerif.SeqApi
open ZstdVerif.Gen

structure Seq where
  offset : Nat
  ll : Nat
  ml : Nat
deriving DecidableEq, Repr

/-- `ZSTD_validateSequence` on a raw offset (offBase = offset + 3) -/
def validSeq (offset ml minMatch pos windowSize dictSize : Nat) : Bool :=
  let bound := if pos > windowSize then windowSize else pos + dictSize
  let mlMin := if minMatch = 3 then 3 else 4
  decide (offset ≤ bound) && decide (mlMin ≤ ml)

structure Cfg where
  blockLimit : Nat      -- cctx->blockSize = min(maxBlockSize, 1 << windowLog)
  windowSize : Nat
  dictSize : Nat
  minMatch : Nat

/-- consume one explicit-delimiter block starting at sequence list `s`; returns (block size, remaining sequences, position after) -/
def explicitBlock (c : Cfg) : (fuel : Nat) → List Seq → (pos acc : Nat) → Option (Nat × List Seq × Nat)
  | 0, _, _, _ => none
  | _, [], _, _ => none                                  -- no delimiter before the end of the array
  | fuel+1, s :: rest, pos, acc =>
    if s.offset = 0 then
      -- a block delimiter is recognised by offset == 0; its match length must be 0 too ("delimiter format error"); its literals end the block
      (if s.ml = 0 then some (acc + s.ll, rest, pos + s.ll) else none)
    else if validSeq s.offset s.ml c.minMatch (SeqVal.posAtValidationExplicit pos s.ll s.ml) c.windowSize c.dictSize
      then explicitBlock c fuel rest (pos + s.ll + s.ml) (acc + s.ll + s.ml)
      else none

/-- ZSTD_compressSequences, explicit delimiters, validation on: accepted? -/
def acceptExplicit (c : Cfg) : (fuel : Nat) → List Seq → (pos remaining : Nat) → Bool
  | 0, _, _, _ => false
  | fuel+1, seqs, pos, remaining =>
    if remaining = 0 then true
    else match explicitBlock c (seqs.length + 1) seqs pos 0 with
      | none => false
      | some (bs, rest, pos') =>
        if bs > c.blockLimit ∨ bs > remaining then false      -- (an empty block, i.e. a bare delimiter, is accepted)
        else acceptExplicit c fuel rest pos' (remaining - bs)

end ZstdVerif.SeqApi
