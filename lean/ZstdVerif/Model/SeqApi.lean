/-
Sequence-level compression (zstd_compress.c): ZSTD_validateSequence, the explicit-delimiter block structure
(blockSize_explicitDelimiter / determine_blockSize) and the accept / reject decision of ZSTD_compressSequences with
ZSTD_c_validateSequences = 1.  The position at which offsets are validated is REGENERATED from the source (Gen/SeqVal.lean).
-/
import ZstdVerif.Gen.SeqVal
import ZstdVerif.Gen.Consts
import ZstdVerif.Model.Rep
namespace ZstdVerif.SeqApi
open ZstdVerif.Gen

structure Seq where
  offset : Nat
  ll : Nat
  ml : Nat
deriving DecidableEq, Repr

/-- `ZSTD_validateSequence` on a raw offset (offBase = offset + 3) -/
def validSeq (offset ml minMatch pos windowSize dictSize : Nat) : Bool :=
  let bound := if pos > windowSize then windowSize else pos + dictSize
  let mlMin := if minMatch = 3 then 3 else 4
  decide (offset ≤ bound) && decide (mlMin ≤ ml)

structure Cfg where
  blockLimit : Nat      -- cctx->blockSize = min(maxBlockSize, 1 << windowLog)
  windowSize : Nat
  dictSize : Nat
  minMatch : Nat

/-- consume one explicit-delimiter block starting at sequence list `s`; returns (block size, remaining sequences, position after) -/
def explicitBlock (c : Cfg) : (fuel : Nat) → List Seq → (pos acc : Nat) → Option (Nat × List Seq × Nat)
  | 0, _, _, _ => none
  | _, [], _, _ => none                                  -- no delimiter before the end of the array
  | fuel+1, s :: rest, pos, acc =>
    if s.offset = 0 then
      -- a block delimiter is recognised by offset == 0; its match length must be 0 too ("delimiter format error"); its literals end the block
      (if s.ml = 0 then some (acc + s.ll, rest, pos + s.ll) else none)
    else if validSeq s.offset s.ml c.minMatch (SeqVal.posAtValidationExplicit pos s.ll s.ml) c.windowSize c.dictSize
      then explicitBlock c fuel rest (pos + s.ll + s.ml) (acc + s.ll + s.ml)
      else none

/-- ZSTD_compressSequences, explicit delimiters, validation on: accepted? -/
def acceptExplicit (c : Cfg) : (fuel : Nat) → List Seq → (pos remaining : Nat) → Bool
  | 0, _, _, _ => false
  | fuel+1, seqs, pos, remaining =>
    if remaining = 0 then true
    else match explicitBlock c (seqs.length + 1) seqs pos 0 with
      | none => false
      | some (bs, rest, pos') =>
        if bs > c.blockLimit ∨ bs > remaining then false      -- (an empty block, i.e. a bare delimiter, is accepted)
        else acceptExplicit c fuel rest pos' (remaining - bs)

/-! ### repeat-offset history across explicit-delimiter blocks, and the block-level sequence producer

`ZSTD_copySequencesToSeqStoreExplicitBlockDelim` is also the transcriber of what a registered sequence producer returns
(ZSTD_buildSeqStore).  Besides the seqStore entries it leaves `nextCBlock->rep`, the history the NEXT block starts from - read by the
transcriber of the next block when repcode search is on, and by the internal parser when the producer fails on a later block and
ZSTD_c_enableSeqProducerFallback hands that block over. -/

/-- ZSTD_resolveExternalRepcodeSearch: ZSTD_c_searchForExternalRepcodes (0 auto, 1 enable, 2 disable) and the compression level -/
def repSearchOn (value : Nat) (level : Int) : Bool :=
  if value = 1 then true else if value = 2 then false else decide (10 ≤ level)

/-- the tail of the transcriber when repcode search is OFF (every offset was stored raw): the history after the block, by the three cases
of the code - three or more sequences, exactly two, exactly one (`seqs` = the block's sequences without the delimiter) -/
def endRepOff (rep : Rep.R) (seqs : List Seq) : Rep.R :=
  match seqs.reverse with
  | [] => rep
  | [a] => ⟨a.offset, rep.r0, rep.r1⟩
  | [b, a] => ⟨b.offset, a.offset, rep.r0⟩
  | c :: b :: a :: _ => ⟨c.offset, b.offset, a.offset⟩

/-- repcode search ON: ZSTD_finalizeOffBase / ZSTD_updateRep along the block; returns the offBases stored and the history after -/
def storeOn (rep : Rep.R) : List Seq → List Nat × Rep.R
  | [] => ([], rep)
  | s :: rest =>
    let ob := Rep.finalizeOffBase s.offset rep (s.ll == 0)
    let r := storeOn (Rep.updateRep rep ob (s.ll == 0)) rest
    (ob :: r.1, r.2)

/-- the transcriber on one block: offBases stored (OFFSET_TO_OFFBASE = offset + 3 when search is off) and `nextCBlock->rep` -/
def storeExplicit (search : Bool) (rep : Rep.R) (seqs : List Seq) : List Nat × Rep.R :=
  if search then storeOn rep seqs else (seqs.map (fun s => s.offset + 3), endRepOff rep seqs)

/-- the sequences of the first block of an array: everything before the first delimiter (offset = 0 and matchLength = 0, the loop
condition of the transcriber), and the delimiter itself if there is one -/
def splitAtDelim : List Seq → List Seq × Option Seq
  | [] => ([], none)
  | s :: rest => if s.offset = 0 ∧ s.ml = 0 then ([], some s) else let r := splitAtDelim rest; (s :: r.1, r.2)

/-- what ZSTD_buildSeqStore does with one answer of a registered producer -/
inductive ProducerOutcome where
  | stored (offBases : List Nat) (lastLits : Nat) (rep : Rep.R)   -- block transcribed: seqStore offBases, last literals, nextCBlock->rep
  | fallback                                                     -- internal parser takes the block
  | failed                                                       -- sequenceProducer_failed
  | invalid                                                      -- externalSequences_invalid
deriving DecidableEq, Repr

/-- ZSTD_c_validateSequences on a producer's block: every sequence before the delimiter passes ZSTD_validateSequence at its match start;
positions restart at 0 in every block (a fresh ZSTD_sequencePosition), `dictSize` = content size of the dictionary / prefix the context
holds, match-length floor 3 (useSequenceProducer) -/
def validBody (windowSize dictSize : Nat) : List Seq → Nat → Bool
  | [], _ => true
  | s :: rest, pos =>
    validSeq s.offset s.ml 3 (SeqVal.posAtValidationExplicit pos s.ll s.ml) windowSize dictSize && validBody windowSize dictSize rest (pos + s.ll + s.ml)

/-- ZSTD_postProcessSequenceProducerResult + the fallback switch + ZSTD_fastSequenceLengthSum check + transcription.
`ret` = the producer's return value, `buf` = the first `min ret cap` entries it wrote, `cap` = outSeqsCapacity, `srcSize` > 0. -/
def producerBlock (search fallbackOn validate : Bool) (windowSize dictSize : Nat) (rep : Rep.R) (srcSize cap ret : Nat) (buf : List Seq) : ProducerOutcome :=
  let err := if fallbackOn then ProducerOutcome.fallback else ProducerOutcome.failed
  if ret > cap then err
  else if ret = 0 then err
  else
    let last := buf.getLast?.getD ⟨0, 0, 0⟩
    if ¬(last.offset = 0 ∧ last.ml = 0) ∧ ret = cap then err
    else
      -- a delimiter is appended when the last entry is not one; the length sum runs over ALL entries
      let sum := buf.foldl (fun n s => n + s.ll + s.ml) 0
      if sum > srcSize then .invalid
      else
        let (body, delim) := splitAtDelim buf
        let lastLits := (delim.map (·.ll)).getD 0
        let used := body.foldl (fun n s => n + s.ll + s.ml) 0 + lastLits
        if validate && !validBody windowSize dictSize body 0 then .invalid
        else if used ≠ srcSize then .invalid       -- "Blocksize doesn't agree with block delimiter!"
        else
          let st := storeExplicit search rep body
          .stored st.1 lastLits st.2

/-! ### ZSTD_mergeBlockDelimiters

The in-place loop of the library drops every block delimiter (offset = 0 and matchLength = 0) and adds its literals to the entry that
follows it - which may be another delimiter: the literals of a RUN of delimiters (blocks without any sequence, empty blocks) all end up on the
next real sequence.  The literals of the trailing run (nothing follows) are dropped: they are the frame's last literals.
(Literal lengths are `unsigned`: the model is exact as long as the lengths of the array sum below 2^32, i.e. for any parse of a source
below 4 GiB.) -/

def isDelim (s : Seq) : Bool := s.offset == 0 && s.ml == 0

/-- `carry` = literals of the delimiters seen since the last real sequence; returns the merged list and the literals left over at the end -/
def mergeGo : Nat → List Seq → List Seq × Nat
  | carry, [] => ([], carry)
  | carry, s :: rest =>
    if isDelim s then mergeGo (carry + s.ll) rest
    else let r := mergeGo 0 rest; (⟨s.offset, s.ll + carry, s.ml⟩ :: r.1, r.2)

/-- the first `ZSTD_mergeBlockDelimiters(seqs, n)` entries of the array after the call -/
def mergeDelims (l : List Seq) : List Seq := (mergeGo 0 l).1

/-- the literals that are in no entry any more (trailing delimiters): the last literals of the frame -/
def mergeDropped (l : List Seq) : Nat := (mergeGo 0 l).2

/-- bytes described by a list -/
def total : List Seq → Nat
  | [] => 0
  | s :: rest => s.ll + s.ml + total rest

end ZstdVerif.SeqApi
