/-
ZSTD_window_update (zstd_compress_internal.h): how a new input segment enters the compressor's window.
Addresses are integers (the C code does pointer arithmetic that may leave the object, ZSTD_ALLOW_POINTER_OVERFLOW_ATTR:
`base = ip - distanceFromBase`), indices are naturals.

  * a segment that starts where the previous one ended (and no forced split) extends the prefix;
  * otherwise the prefix becomes the external dictionary (older ext-dict content is forgotten), unless it is shorter than
    HASH_READ_SIZE, and the new segment starts a new prefix at the same INDEX (indices keep growing);
  * finally, if the new segment's bytes [ip, ip+n) and the external dictionary's bytes
    [dictBase+lowLimit, dictBase+dictLimit) have a byte in common, the dictionary is cut down to what lies above the segment.
    Half-open intervals: a segment that ends exactly where the dictionary starts, or starts exactly where it ends, shares
    nothing with it.
-/
namespace ZstdVerif.WindowUpdate

def HASH_READ_SIZE : Nat := 8

structure WinP where
  base : Int
  dictBase : Int
  nextSrc : Int
  lowLimit : Nat
  dictLimit : Nat
deriving DecidableEq, Repr

/-- the "not contiguous" branch: the current prefix becomes the external dictionary -/
def newSegment (w : WinP) (ip : Int) : WinP :=
  let dist : Nat := (w.nextSrc - w.base).toNat
  { base := ip - dist, dictBase := w.base, nextSrc := w.nextSrc,
    lowLimit := if dist - w.dictLimit < HASH_READ_SIZE then dist else w.dictLimit,
    dictLimit := dist }

/-- the overlap rule -/
def cutDict (w : WinP) (ip : Int) (n : Nat) : WinP :=
  if ip + n > w.dictBase + w.lowLimit ∧ ip < w.dictBase + w.dictLimit then
    let high : Int := ip + n - w.dictBase
    { w with lowLimit := if high > w.dictLimit then w.dictLimit else high.toNat }
  else w

/-- ZSTD_window_update: returns the new window and `contiguous` -/
def update (w : WinP) (ip : Int) (n : Nat) (force : Bool) : WinP × Bool :=
  if n = 0 then (w, true) else
  let split := decide (ip ≠ w.nextSrc) || force
  let w1 := if split then newSegment w ip else w
  let w2 := { w1 with nextSrc := ip + n }
  (cutDict w2 ip n, !split)

end ZstdVerif.WindowUpdate
