/-
Ledger of a caller-supplied allocator (ZSTD_customMem) that can be told to fail: the semantics against which "every pointer handed
out is freed exactly once through the custom free" is decided.  Freed blocks are quarantined by the harness (addresses are never
recycled within a run), so "freed before" is exactly "double free".
Also: the workspace ownership protocol of a compression context (ZSTD_cwksp_free / ZSTD_cwksp_create inside
ZSTD_resetCCtx_internal, ZSTD_freeCCtx), parameterised by whether ZSTD_cwksp_free clears the descriptor - regenerated from source.
-/
namespace ZstdVerif.Ledger

inductive Ev where
  | alloc (addr size : Nat)
  | free (addr : Nat)
  /-- a request answered NULL -/
  | fail (size : Nat)
deriving Repr, DecidableEq

structure St where
  live : List Nat := []
  freed : List Nat := []
  doubleFrees : List Nat := []
  foreignFrees : List Nat := []
  fails : Nat := 0
deriving Repr, DecidableEq

def step (s : St) : Ev → St
  | .alloc a _ => { s with live := a :: s.live }
  | .free a =>
    if a ∈ s.live then { s with live := s.live.erase a, freed := a :: s.freed }
    else if a ∈ s.freed then { s with doubleFrees := a :: s.doubleFrees }
    else { s with foreignFrees := a :: s.foreignFrees }
  | .fail _ => { s with fails := s.fails + 1 }

def run (s : St) (evs : List Ev) : St := evs.foldl step s

def Clean (s : St) : Prop := s.live = [] ∧ s.doubleFrees = [] ∧ s.foreignFrees = []

instance (s : St) : Decidable (Clean s) := by unfold Clean; exact inferInstance

/-- bytes still held per leaked block, for reports -/
def sizeOf (evs : List Ev) (a : Nat) : Nat :=
  match evs.reverse.find? (fun e => match e with | .alloc b _ => b == a | _ => false) with
  | some (.alloc _ n) => n
  | _ => 0

/-! ### workspace ownership of a compression context -/

/-- what the context believes it owns: the address in its workspace descriptor -/
structure Owner where
  ws : Option Nat
deriving Repr, DecidableEq

/-- ZSTD_cwksp_free followed by ZSTD_cwksp_create (the resize branch of ZSTD_resetCCtx_internal).  `clears` = ZSTD_cwksp_free
resets the descriptor after handing the block back; `newAddr` = what the allocator answers (none = NULL). -/
def resize (clears : Bool) (o : Owner) (size : Nat) (newAddr : Option Nat) : Owner × List Ev :=
  let evFree := match o.ws with
    | some a => [Ev.free a]
    | none => []
  let afterFree : Owner := if clears then { ws := none } else o
  match newAddr with
  | some b => ({ ws := some b }, evFree ++ [Ev.alloc b size])
  | none => (afterFree, evFree ++ [Ev.fail size])

/-- ZSTD_freeCCtx: hands back whatever the descriptor names -/
def release (o : Owner) : List Ev :=
  match o.ws with
  | some a => [Ev.free a]
  | none => []

/-- a history of resizes (each with the allocator's answer), then the release -/
def history (clears : Bool) : Owner → List (Nat × Option Nat) → List Ev
  | o, [] => release o
  | o, (size, ans) :: rest =>
    let (o', evs) := resize clears o size ans
    evs ++ history clears o' rest

/-! ### objects the caller still owns while a context only references them

A thread pool attached with ZSTD_CCtx_refThreadPool, a CDict / DDict attached with ZSTD_CCtx_refCDict / ZSTD_DCtx_refDDict (also the
members of the multi-DDict hash set), the buffer behind ZSTD_CCtx_refPrefix / loadDictionary_byReference: the library holds a
reference, the caller keeps the object and hands it back itself.  The harness interleaves the caller's declarations with the
allocator's events: `own a` = block `a` belongs to such an object, `disown a` = the caller starts releasing it.  A block handed back
through the custom free while it is declared owned was released by somebody who only had a reference: `stolen`. -/

inductive OEv where
  | ev (e : Ev)
  | own (addr : Nat)
  | disown (addr : Nat)
deriving Repr, DecidableEq

structure OSt where
  base : St := {}
  owned : List Nat := []
  /-- owned blocks handed back while the caller still owned them -/
  stolen : List Nat := []
deriving Repr, DecidableEq

def stolenBy (owned : List Nat) : Ev → List Nat
  | .free a => if a ∈ owned then [a] else []
  | _ => []

def ostep (s : OSt) : OEv → OSt
  | .ev e => { s with base := step s.base e, stolen := stolenBy s.owned e ++ s.stolen }
  | .own a => { s with owned := a :: s.owned }
  | .disown a => { s with owned := s.owned.filter (fun x => x != a) }

def orun (s : OSt) (evs : List OEv) : OSt := evs.foldl ostep s

def OwnedIntact (s : OSt) : Prop := s.stolen = []

instance (s : OSt) : Decidable (OwnedIntact s) := by unfold OwnedIntact; exact inferInstance

/-- the allocator's own events of an annotated log -/
def baseLog (evs : List OEv) : List Ev :=
  evs.filterMap (fun e => match e with | .ev e => some e | _ => none)

/-- whole life of a constructor that only REFERENCES caller-owned blocks `refs`: the caller creates and declares them, the
constructor acquires `as`, meets a failed request, unwinds by handing back `bs`, the caller then releases its objects -/
def refLifecycle (refs as : List (Nat × Nat)) (failed : Nat) (bs : List Nat) : List OEv :=
  (refs.map (fun p => Ev.alloc p.1 p.2)).map OEv.ev ++ (refs.map (·.1)).map OEv.own
  ++ (as.map (fun p => Ev.alloc p.1 p.2) ++ [Ev.fail failed] ++ bs.map Ev.free).map OEv.ev
  ++ (refs.map (·.1)).map OEv.disown ++ ((refs.map (·.1)).map Ev.free).map OEv.ev

/-- ZSTDMT_createCCtx_advanced_internal on a caller-provided thread pool followed, on failure, by ZSTDMT_freeCCtx.  `pool` = the blocks
of the caller's pool, `parts` = what the constructor acquired itself before the failed request.  ZSTDMT_freeCCtx releases the factory
unless `providedFactory` is set; `flagBeforeCheck` = the flag is recorded before the combined failure check (it is 0 from calloc
until then). -/
def mtCtorOnProvidedPool (flagBeforeCheck : Bool) (pool : List Nat) (parts : List (Nat × Nat)) (failed : Nat) : List OEv :=
  (parts.map (fun p => Ev.alloc p.1 p.2) ++ [Ev.fail failed]
    ++ (if flagBeforeCheck then [] else pool.map Ev.free)
    ++ parts.map (fun p => Ev.free p.1)).map OEv.ev

end ZstdVerif.Ledger
