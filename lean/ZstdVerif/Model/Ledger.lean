/-
Ledger of a caller-supplied allocator (ZSTD_customMem) that can be told to fail: the semantics against which "every pointer handed
out is freed exactly once through the custom free" is decided.  Freed blocks are quarantined by the harness (addresses are never
recycled within a run), so "freed before" is exactly "double free".
Also: the workspace ownership protocol of a compression context (ZSTD_cwksp_free / ZSTD_cwksp_create inside
ZSTD_resetCCtx_internal, ZSTD_freeCCtx), parameterised by whether ZSTD_cwksp_free clears the descriptor - regenerated from source.
-/
namespace ZstdVerif.Ledger

inductive Ev where
  | alloc (addr size : Nat)
  | free (addr : Nat)
  /-- a request answered NULL -/
  | fail (size : Nat)
deriving Repr, DecidableEq

structure St where
  live : List Nat := []
  freed : List Nat := []
  doubleFrees : List Nat := []
  foreignFrees : List Nat := []
  fails : Nat := 0
deriving Repr, DecidableEq

def step (s : St) : Ev → St
  | .alloc a _ => { s with live := a :: s.live }
  | .free a =>
    if a ∈ s.live then { s with live := s.live.erase a, freed := a :: s.freed }
    else if a ∈ s.freed then { s with doubleFrees := a :: s.doubleFrees }
    else { s with foreignFrees := a :: s.foreignFrees }
  | .fail _ => { s with fails := s.fails + 1 }

def run (s : St) (evs : List Ev) : St := evs.foldl step s

def Clean (s : St) : Prop := s.live = [] ∧ s.doubleFrees = [] ∧ s.foreignFrees = []

instance (s : St) : Decidable (Clean s) := by unfold Clean; exact inferInstance

/-- bytes still held per leaked block, for reports -/
def sizeOf (evs : List Ev) (a : Nat) : Nat :=
  match evs.reverse.find? (fun e => match e with | .alloc b _ => b == a | _ => false) with
  | some (.alloc _ n) => n
  | _ => 0

/-! ### workspace ownership of a compression context -/

/-- what the context believes it owns: the address in its workspace descriptor -/
structure Owner where
  ws : Option Nat
deriving Repr, DecidableEq

/-- ZSTD_cwksp_free followed by ZSTD_cwksp_create (the resize branch of ZSTD_resetCCtx_internal).  `clears` = ZSTD_cwksp_free
resets the descriptor after handing the block back; `newAddr` = what the allocator answers (none = NULL). -/
def resize (clears : Bool) (o : Owner) (size : Nat) (newAddr : Option Nat) : Owner × List Ev :=
  let evFree := match o.ws with
    | some a => [Ev.free a]
    | none => []
  let afterFree : Owner := if clears then { ws := none } else o
  match newAddr with
  | some b => ({ ws := some b }, evFree ++ [Ev.alloc b size])
  | none => (afterFree, evFree ++ [Ev.fail size])

/-- ZSTD_freeCCtx: hands back whatever the descriptor names -/
def release (o : Owner) : List Ev :=
  match o.ws with
  | some a => [Ev.free a]
  | none => []

/-- a history of resizes (each with the allocator's answer), then the release -/
def history (clears : Bool) : Owner → List (Nat × Option Nat) → List Ev
  | o, [] => release o
  | o, (size, ans) :: rest =>
    let (o', evs) := resize clears o size ans
    evs ++ history clears o' rest

end ZstdVerif.Ledger
