/-
WRITER of frames compressed WITH A DICTIONARY (lib/compress/zstd_compress.c): the frame serializer of Model/BlockEnc.lean started
from the repeat-offset history the dictionary installs.

  ZSTD_compress_insertDictionary   raw-content dictionary (ZSTD_dct_auto without magic, or shorter than 8 bytes): the content is
                                   referenced, `prevCBlock->rep` keeps `repStartValue` = {1, 4, 8} (ZSTD_reset_compressedBlockState)
  ZSTD_loadZstdDictionary / ZSTD_loadCEntropy   formatted dictionary: `bs->rep[0..2] = MEM_readLE32(dictPtr + 0 / 4 / 8)` behind the
                                   entropy tables, each checked `!= 0` and `<= dictContentSize`; the function returns the dictID
                                   (`MEM_readLE32(dictPtr + 4)`, or 0 under noDictIDFlag) that ZSTD_writeFrameHeader then announces

The match finders stay an ORACLE (a parse per block, see Model/BlockEnc.lean); with a dictionary their matches may reach into the
dictionary content, and the first sequences may use the dictionary's repeat offsets.  The dictionary's entropy TABLES are not used
by `serializeFrameFrom` / `serializeFrameDict` (`serializeFrameDictTables` at the end of this file does offer them): it emits `set_basic` / `set_rle` / `set_compressed` tables, `set_repeat` only of a table an earlier block of the SAME
frame used (`serializeBlocks2` starts from `prev = none`), and fresh Huffman trees only (the scope of Model/BlockEnc.lean), never
treeless literals, so nothing but the repeat offsets and the content of the dictionary matters for the bytes.
`Lemmas/DictRT.lean` proves that `Frame.decompressAll` with the same dictionary (as loaded by `Dict.loadD`) maps these frames back to
their input (`dict_roundtrip`).  Core imports only.
-/
import ZstdVerif.Model.BlockEnc
import ZstdVerif.Model.Dict
namespace ZstdVerif.DictEnc
open ZstdVerif.Gen ZstdVerif.Serialize ZstdVerif.BlockEnc

/-- a whole frame whose first block starts from the repeat-offset history `rep0` (`cctx->blockState.prevCBlock->rep` as
ZSTD_compressBegin_internal leaves it: `repStartValue`, or the dictionary's three offsets): ZSTD_writeFrameHeader, the block loop of
ZSTD_compress_frameChunk (`BlockEnc.serializeBlocks2`), ZSTD_writeEpilogue.  `BlockEnc.serializeFrame2` is the instance `repStart`. -/
def serializeFrameFrom (rep0 : Rep.R) (a : HeaderW.HArgs) (blocks : List BlockChoice2) (x : ByteArray) : ByteArray :=
  ofList (HeaderW.writeHeader a) ++ (serializeBlocks2 x blocks 0 rep0 ++ epilogue a blocks.isEmpty x)

/-- the repeat-offset history a loaded dictionary carries (`entropy.rep[0..2]`; {1, 4, 8} for a raw-content dictionary) -/
def dictRep (D : Frame.Dict) : Rep.R := ⟨D.ent.rep[0]!, D.ent.rep[1]!, D.ent.rep[2]!⟩

/-- ZSTD_compress_usingDict / ZSTD_compress_usingCDict, serializer part: the frame for block decisions `blocks` with the dictionary
`D` loaded (`a.dictID` is what ZSTD_writeFrameHeader gets: `D.id`, or anything under `a.noDictID`) -/
def serializeFrameDict (D : Frame.Dict) (a : HeaderW.HArgs) (blocks : List BlockChoice2) (x : ByteArray) : ByteArray :=
  serializeFrameFrom (dictRep D) a blocks x

/-! ### the dictionary's entropy TABLES offered to the first block(s) (ZSTD_loadCEntropy)

The definitions above are unchanged (and so are the theorems about them).  The writer below additionally starts from the ENTROPY state a
formatted dictionary installs in `cctx->blockState.prevCBlock->entropy` (ZSTD_loadCEntropy, zstd_compress.c):

  `HUF_readCTable((HUF_CElt*)bs->entropy.huf.CTable, &maxSymbolValue, dictPtr, ..)`, `bs->entropy.huf.repeatMode = HUF_repeat_check`
       (`HUF_repeat_valid` when all 256 symbols have a weight): ZSTD_compressLiterals may emit TREELESS literals (`hType = set_repeat`) in the
       first block, after HUF_validateCTable found a code for every literal
  `FSE_readNCount(offcodeNCount, ..)`, `FSE_buildCTable_wksp(bs->entropy.fse.offcodeCTable, offcodeNCount, MaxOff, offcodeLog, ..)`, the same
       for matchlength and litlength; `*_repeatMode = ZSTD_dictNCountRepeat(..)` (`FSE_repeat_check` / `FSE_repeat_valid`):
       ZSTD_selectEncodingType may answer `set_repeat` for the first block with sequences, the table being the one built from the
       dictionary's normalised counts

i.e. the previous decisions are "three described tables with the dictionary's counts" and "the Huffman table with the dictionary's
weights".  `Lemmas/DictTablesRT.lean` proves that the decoder-side loader (`Dict.loadD`, ZSTD_loadDEntropy: `litEntropy = fseEntropy = 1`)
installs exactly the decoding tables of these decisions, and the round trip of the frames written from them. -/

/-- `serializeFrameFrom` with the block loop started from previous sequence-table decisions `prev0` and a previous Huffman table `hp0`
(`prevCBlock->entropy.fse` / `.huf` as ZSTD_compressBegin_internal leaves them).  `serializeFrameFrom rep0` is the instance `none`, `none`. -/
def serializeFrameFromT (rep0 : Rep.R) (prev0 : Option Tables) (hp0 : Option HufTab) (a : HeaderW.HArgs) (blocks : List BlockChoice2)
    (x : ByteArray) : ByteArray :=
  ofList (HeaderW.writeHeader a) ++ (serializeBlocks2 x blocks 0 rep0 prev0 hp0 ++ epilogue a blocks.isEmpty x)

/-- the sequence-table decisions a formatted dictionary stands for (ZSTD_loadCEntropy: `FSE_buildCTable_wksp` of the counts FSE_readNCount
returned, for litlength / offcode / matchlength) -/
def dictTables (p : Dict.Parsed) : Tables :=
  { ll := .fse p.llN.norm p.llN.tableLog, of := .fse p.ofN.norm p.ofN.tableLog, ml := .fse p.mlN.norm p.mlN.tableLog }

/-- the Huffman table a formatted dictionary stands for (ZSTD_loadCEntropy: `HUF_readCTable`): the weights HUF_readStats returned
(implied last weight included) and the table depth -/
def dictHuf (p : Dict.Parsed) : HufTab := (p.huf.weights, p.huf.tableLog)

/-- the entropy start state of the compressor for the dictionary bytes `d` (ZSTD_compress_insertDictionary): the dictionary's tables for a
formatted dictionary (ZSTD_loadZstdDictionary / ZSTD_loadCEntropy), nothing for raw content (ZSTD_reset_compressedBlockState:
`repeatMode = FSE_repeat_none` / `HUF_repeat_none`) or a refused dictionary -/
def dictStart (d : Bytes) : Option Tables × Option HufTab :=
  match Dict.classify d with
  | .full p => (some (dictTables p), some (dictHuf p))
  | _ => (none, none)

/-- ZSTD_compress_usingDict / ZSTD_compress_usingCDict, serializer part, with the dictionary's entropy tables on offer: the frame for block
decisions `blocks` with the dictionary bytes `d` loaded (`D` = what the decoder-side loader makes of `d`; only its repeat offsets are looked
at, as in `serializeFrameDict`).  The first block with sequences may say `set_repeat` (the dictionary's table), the first block with
literals may be treeless (the dictionary's Huffman table). -/
def serializeFrameDictTables (d : Bytes) (D : Frame.Dict) (a : HeaderW.HArgs) (blocks : List BlockChoice2) (x : ByteArray) : ByteArray :=
  serializeFrameFromT (dictRep D) (dictStart d).1 (dictStart d).2 a blocks x

end ZstdVerif.DictEnc
