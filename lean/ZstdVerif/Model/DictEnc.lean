/-
WRITER of frames compressed WITH A DICTIONARY (lib/compress/zstd_compress.c): the frame serializer of Model/BlockEnc.lean started
from the repeat-offset history the dictionary installs.

  ZSTD_compress_insertDictionary   raw-content dictionary (ZSTD_dct_auto without magic, or shorter than 8 bytes): the content is
                                   referenced, `prevCBlock->rep` keeps `repStartValue` = {1, 4, 8} (ZSTD_reset_compressedBlockState)
  ZSTD_loadZstdDictionary / ZSTD_loadCEntropy   formatted dictionary: `bs->rep[0..2] = MEM_readLE32(dictPtr + 0 / 4 / 8)` behind the
                                   entropy tables, each checked `!= 0` and `<= dictContentSize`; the function returns the dictID
                                   (`MEM_readLE32(dictPtr + 4)`, or 0 under noDictIDFlag) that ZSTD_writeFrameHeader then announces

The match finders stay an ORACLE (a parse per block, see Model/BlockEnc.lean); with a dictionary their matches may reach into the
dictionary content, and the first sequences may use the dictionary's repeat offsets.  The dictionary's entropy TABLES are not used
by this writer: it emits `set_basic` / `set_rle` / `set_compressed` tables, `set_repeat` only of a table an earlier block of the SAME
frame used (`serializeBlocks2` starts from `prev = none`), and fresh Huffman trees only (the scope of Model/BlockEnc.lean), never
treeless literals, so nothing but the repeat offsets and the content of the dictionary matters for the bytes.
`Lemmas/DictRT.lean` proves that `Frame.decompressAll` with the same dictionary (as loaded by `Dict.loadD`) maps these frames back to
their input (`dict_roundtrip`).  Core imports only.
-/
import ZstdVerif.Model.BlockEnc
import ZstdVerif.Model.Dict
namespace ZstdVerif.DictEnc
open ZstdVerif.Gen ZstdVerif.Serialize ZstdVerif.BlockEnc

/-- a whole frame whose first block starts from the repeat-offset history `rep0` (`cctx->blockState.prevCBlock->rep` as
ZSTD_compressBegin_internal leaves it: `repStartValue`, or the dictionary's three offsets): ZSTD_writeFrameHeader, the block loop of
ZSTD_compress_frameChunk (`BlockEnc.serializeBlocks2`), ZSTD_writeEpilogue.  `BlockEnc.serializeFrame2` is the instance `repStart`. -/
def serializeFrameFrom (rep0 : Rep.R) (a : HeaderW.HArgs) (blocks : List BlockChoice2) (x : ByteArray) : ByteArray :=
  ofList (HeaderW.writeHeader a) ++ (serializeBlocks2 x blocks 0 rep0 ++ epilogue a blocks.isEmpty x)

/-- the repeat-offset history a loaded dictionary carries (`entropy.rep[0..2]`; {1, 4, 8} for a raw-content dictionary) -/
def dictRep (D : Frame.Dict) : Rep.R := ⟨D.ent.rep[0]!, D.ent.rep[1]!, D.ent.rep[2]!⟩

/-- ZSTD_compress_usingDict / ZSTD_compress_usingCDict, serializer part: the frame for block decisions `blocks` with the dictionary
`D` loaded (`a.dictID` is what ZSTD_writeFrameHeader gets: `D.id`, or anything under `a.noDictID`) -/
def serializeFrameDict (D : Frame.Dict) (a : HeaderW.HArgs) (blocks : List BlockChoice2) (x : ByteArray) : ByteArray :=
  serializeFrameFrom (dictRep D) a blocks x

end ZstdVerif.DictEnc
