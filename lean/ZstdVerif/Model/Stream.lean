/-
Specification-level model of the streaming APIs (what C02 / C10 demand of ANY call history), as a labelled transition
system over observable call effects.  A decoder call is observed as (bytes consumed, bytes produced, returned 0?);
a compressor call as (directive, consumed, produced, returned 0?).  The real code is tied to this spec by trace inclusion:
every observed call must be a legal step.
-/
namespace ZstdVerif.Stream

/-- the valid stream being decoded: `content` is what single-call decoding yields; `frameEnds` lists, per frame,
(end offset in the compressed stream, end offset in the content) -/
structure DSpec where
  content : List Nat
  frameEnds : List (Nat × Nat)

structure DState where
  consumed : Nat := 0
  produced : Nat := 0
  output : List Nat := []
deriving Repr

/-- one observed `ZSTD_decompressStream` call -/
structure DCall where
  inAvail : Nat
  outCap : Nat
  consumed : Nat
  produced : List Nat
  retZero : Bool

/-- a call is legal iff it stays inside its buffers, emits exactly the next bytes of the specified content, and reports
completion (returns 0) exactly when THIS call consumed a frame's last byte / flushed the last of its output -/
def DLegal (sp : DSpec) (s : DState) (c : DCall) : Prop :=
  c.consumed ≤ c.inAvail ∧ c.produced.length ≤ c.outCap ∧
  c.produced = (sp.content.drop s.produced).take c.produced.length ∧
  s.produced + c.produced.length ≤ sp.content.length ∧
  (c.retZero = true ↔ ((s.consumed + c.consumed, s.produced + c.produced.length) ∈ sp.frameEnds ∧ (0 < c.consumed ∨ 0 < c.produced.length)))

def DState.step (s : DState) (c : DCall) : DState :=
  { consumed := s.consumed + c.consumed, produced := s.produced + c.produced.length, output := s.output ++ c.produced }

/-- a whole history is legal when each call is legal in the state reached by the previous ones -/
def DLegalRun (sp : DSpec) : DState → List DCall → Prop
  | _, [] => True
  | s, c :: cs => DLegal sp s c ∧ DLegalRun sp (s.step c) cs

/-- the numeric part of `DLegal` (positions and the completion report), as evaluated by the driver on real traces;
the byte part is checked through the hash of the whole output -/
def dlegalNum (ends : List (Nat × Nat)) (total : Nat) (cons prod : Nat) (inAvail outCap c p : Nat) (zero : Bool) : Bool :=
  decide (c ≤ inAvail) && decide (p ≤ outCap) && decide (prod + p ≤ total) &&
  (zero == (ends.contains (cons + c, prod + p) && (decide (0 < c) || decide (0 < p))))

def DState.run (s : DState) (cs : List DCall) : DState := cs.foldl DState.step s

end ZstdVerif.Stream

namespace ZstdVerif.Stream

/-- shape of one frame as far as input pacing is concerned -/
structure FrameShape where
  skippable : Bool
  headerSize : Nat            -- zstd frame: 6..18 ; skippable: 8
  blocks : List Nat           -- body sizes (cSize) of the blocks, in order (zstd frames: at least one)
  checksum : Bool
  payload : Nat := 0          -- skippable frames: content size
deriving Repr

/-- the sequence of input sizes `ZSTD_decompressStream` asks for when it is always given exactly what it asked for
(zstd_decompress.c: startingInputLength = 5, then the rest of the header + the first block header, then each block body
together with the NEXT block header, the last block body alone, then the 4 checksum bytes if any; skippable: 5, 3, payload) -/
def hints (f : FrameShape) : List Nat :=
  if f.skippable then [5, f.headerSize - 5] ++ (if f.payload = 0 then [] else [f.payload])
  else
    let rec go : List Nat → List Nat
      | [] => []
      | [c] => (if c = 0 then [] else [c]) ++ (if f.checksum then [4] else [])   -- last block body, then the checksum on its own
      | c :: rest => (c + 3) :: go rest
    [5, f.headerSize - 5 + 3] ++ go f.blocks

def frameSize (f : FrameShape) : Nat :=
  if f.skippable then f.headerSize + f.payload
  else f.headerSize + (f.blocks.map (· + 3)).sum + (if f.checksum then 4 else 0)

end ZstdVerif.Stream
