/-
Repeat-offset bookkeeping on both sides and the length codes.
  decoder : the offset resolution of ZSTD_decodeSequence (zstd_decompress_block.c) as used by Model/Block.lean
  encoder : ZSTD_finalizeOffBase (zstd_compress.c) and ZSTD_updateRep (zstd_compress_internal.h)
  codes   : ZSTD_LLcode / ZSTD_MLcode against LL_base / LL_bits / ML_base / ML_bits (Gen/Tables, dumped from the source)
-/
import ZstdVerif.Gen.Tables
import ZstdVerif.Gen.Consts
namespace ZstdVerif.Rep
open ZstdVerif.Gen

structure R where
  r0 : Nat
  r1 : Nat
  r2 : Nat
deriving DecidableEq, Repr

/-- decoder: `v` = Offset_Value (1, 2, 3 = repeat codes; > 3 = offset + 3), `ll0` = 1 iff the literal length is 0.
Returns the match offset and the updated history.  `temp -= !temp`: a zero taken from the history (only possible in a corrupted
stream) becomes 2^64-1, which the executor rejects. -/
def resolve (r : R) (v ll0 : Nat) : Nat × R :=
  if v > 3 then (v - 3, ⟨v - 3, r.r0, r.r1⟩)
  else if v ≤ 1 then
    -- offset code 0: no extra bit, no zero correction
    if ll0 == 0 then (r.r0, r) else (r.r1, ⟨r.r1, r.r0, r.r2⟩)
  else
    let idx := v - 1 + ll0
    let t0 := if idx == 3 then r.r0 - 1 else (if idx == 1 then r.r1 else r.r2)
    let t := if t0 == 0 then 0xFFFFFFFFFFFFFFFF else t0
    if idx != 1 then (t, ⟨t, r.r0, r.r1⟩) else (t, ⟨t, r.r0, r.r2⟩)

/-- encoder: ZSTD_finalizeOffBase - the offBase the compressor stores for a raw offset given its history -/
def finalizeOffBase (raw : Nat) (r : R) (ll0 : Bool) : Nat :=
  if !ll0 && raw == r.r0 then 1
  else if raw == r.r1 then 2 - (if ll0 then 1 else 0)
  else if raw == r.r2 then 3 - (if ll0 then 1 else 0)
  else if ll0 && raw == r.r0 - 1 then 3
  else raw + 3

/-- encoder: ZSTD_updateRep -/
def updateRep (r : R) (offBase : Nat) (ll0 : Bool) : R :=
  if offBase > 3 then ⟨offBase - 3, r.r0, r.r1⟩
  else
    let repCode := offBase - 1 + (if ll0 then 1 else 0)
    if repCode > 0 then
      let cur := if repCode == 3 then r.r0 - 1 else (if repCode == 1 then r.r1 else r.r2)
      ⟨cur, r.r0, if repCode ≥ 2 then r.r1 else r.r2⟩
    else r

/-! ### length codes -/

/-- ZSTD_LLcode -/
def llCode (ll : Nat) : Nat := if ll > 63 then Nat.log2 ll + LL_deltaCode else LL_Code.getD ll 0
/-- ZSTD_MLcode on mlBase = matchLength - MINMATCH -/
def mlCode (mlBase : Nat) : Nat := if mlBase > 127 then Nat.log2 mlBase + ML_deltaCode else ML_Code.getD mlBase 0

end ZstdVerif.Rep
