/-
The multi-DDict hash set of zstd_decompress.c (open addressing, linear probing, table size a power of two).
The probe step and the expansion condition are REGENERATED from the source (Gen/DDictHS.lean).
A table is modelled as a function slot → Option dictID on [0, size).
-/
import ZstdVerif.Gen.DDictHS
namespace ZstdVerif.DDictHS
open ZstdVerif.Gen.DDictHS

structure HS where
  /-- log2 of the table size -/
  k : Nat
  slots : List (Option Nat)      -- length = 2^k
  count : Nat
deriving Repr

def HS.size (h : HS) : Nat := 2 ^ h.k
def HS.mask (h : HS) : Nat := h.size - 1

/-- ZSTD_DDictHashSet_getDDict: index reached after at most `fuel` probe steps (stops on the id or on an empty slot) -/
def probeGet (h : HS) (id : Nat) : (fuel : Nat) → (idx : Nat) → Option Nat
  | 0, _ => none                       -- did not terminate within the fuel
  | fuel+1, idx =>
    match h.slots.getD idx none with
    | none => some idx
    | some d => if d = id then some idx else probeGet h id fuel (probeNextGet idx h.mask)

/-- ZSTD_DDictHashSet_addDDict's decision + the count after the insertion of a NEW id -/
def afterAdd (count size : Nat) : Nat × Nat :=
  if expandCond count size then (count + 1, size * DDICT_HASHSET_RESIZE_FACTOR) else (count + 1, size)

end ZstdVerif.DDictHS
