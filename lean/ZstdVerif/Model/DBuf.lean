/-
Streaming-decoder memory budget (zstd_decompress.c): ZSTD_decodingBufferSize_internal, ZSTD_estimateDStreamSize (without the
fixed sizeof(ZSTD_DCtx) part), the buffer sizing and the window-limit test of the zdss_loadHeader stage.
-/
import ZstdVerif.Gen.Consts
namespace ZstdVerif.DBuf
open ZstdVerif.Gen

/-- ZSTD_decodingBufferSize_internal (the size_t overflow test is irrelevant below 2^63) -/
def decodingBufferSize (windowSize : Nat) (fcs : Option Nat) (blockSizeMax : Nat) : Nat :=
  let blockSize := min (min windowSize ZSTD_BLOCKSIZE_MAX) blockSizeMax
  let needed := windowSize + blockSize * 2 + WILDCOPY_OVERLENGTH * 2
  match fcs with
  | some n => min n needed
  | none => needed

/-- ZSTD_estimateDStreamSize(windowSize) minus ZSTD_estimateDCtxSize() -/
def estimateBuffers (windowSize : Nat) : Nat :=
  min windowSize ZSTD_BLOCKSIZE_MAX + decodingBufferSize windowSize none ZSTD_BLOCKSIZE_MAX

/-- the window the stream decoder works with: at least 2^ZSTD_WINDOWLOG_ABSOLUTEMIN -/
def effectiveWindow (headerWindow : Nat) : Nat := max headerWindow (2 ^ ZSTD_WINDOWLOG_ABSOLUTEMIN)

/-- zdss_loadHeader: refused iff the (clamped) window exceeds the configured maximum -/
def windowAccepted (headerWindow maxWindowSize : Nat) : Bool := decide (effectiveWindow headerWindow ≤ maxWindowSize)

/-- buffers (re)allocated for a frame in buffered mode: input buffer + output ring -/
def neededBuffers (headerWindow : Nat) (fcs : Option Nat) (blockSizeMax : Nat) : Nat :=
  max blockSizeMax 4 + decodingBufferSize (effectiveWindow headerWindow) fcs blockSizeMax

/-- what the zdss_loadHeader stage decides for a frame -/
inductive Verdict where
  /-- content size known, the caller's output room holds it and the whole frame is in this call's input: decoded by the
  single-call decoder straight into the caller's buffer, no internal buffer involved, the window limit is not consulted -/
  | singlePass
  | buffered (inBuff outBuff : Nat)
  | refused
deriving DecidableEq, Repr

def singlePassOk (fcs : Option Nat) (outAvail : Nat) (wholeFrameInInput : Bool) : Bool :=
  match fcs with
  | some n => decide (n ≤ outAvail) && wholeFrameInInput
  | none => false

def loadHeader (headerWindow : Nat) (fcs : Option Nat) (blockSizeMax maxWindowSize outAvail : Nat) (whole : Bool) : Verdict :=
  if singlePassOk fcs outAvail whole then .singlePass
  else if windowAccepted headerWindow maxWindowSize then
    .buffered (max blockSizeMax 4) (decodingBufferSize (effectiveWindow headerWindow) fcs blockSizeMax)
  else .refused

/-- bytes of internal buffers held after the decision -/
def held : Verdict → Nat
  | .buffered a b => a + b
  | _ => 0

/-- the two stream buffers a decoding context holds between frames -/
structure Bufs where
  inSize : Nat := 0
  outSize : Nat := 0
deriving DecidableEq, Repr

/-- zdss_loadHeader, buffered mode: the buffers are re-laid-out when EITHER of them is too small for the frame about to be decoded
(the 'too large for too long' shrink, after 128 frames, is not modelled) -/
def nextBufs (cur : Bufs) (needIn needOut : Nat) : Bufs :=
  if cur.inSize < needIn ∨ cur.outSize < needOut then ⟨needIn, needOut⟩ else cur

/-- buffer sizes after each frame of a sequence decoded through one context; `none` = the frame takes the single-pass shortcut -/
def bufSeq (cur : Bufs) : List (Option (Nat × Nat)) → List Bufs
  | [] => []
  | none :: rest => cur :: bufSeq cur rest
  | some (a, b) :: rest => nextBufs cur a b :: bufSeq (nextBufs cur a b) rest

end ZstdVerif.DBuf
