/-
Deterministic executable model of the streaming COMPRESSOR buffer machine (lib/compress/zstd_compress.c):
`ZSTD_compressStream2` (transparent initialisation through `ZSTD_CCtx_init_compressStream2`, then `ZSTD_compressStream_generic`
with its stages zcss_load / zcss_flush), `ZSTD_compressStream` (= `ZSTD_compressStream2(e_continue)` answering
`ZSTD_nextInputSizeHint`), `ZSTD_compressBound`, and the buffer sizes `ZSTD_resetCCtx_internal` derives from the window.

The per-chunk compressor is an ORACLE: the model is parameterised by `co : Nat → Nat`, the SIZE `ZSTD_compressContinue_public` /
`ZSTD_compressEnd_public` return for the i-th chunk the machine hands them (i counts over the whole life of the context).  The bytes
are abstract: a byte of input is identified by its position in the input the caller has delivered so far, a byte of output by its
position in the concatenation of all chunk outputs; positions and sizes are exact.  Everything the real function decides from sizes
and stages is mirrored call by call: bytes consumed, bytes produced, the return value, which chunks are compressed and from where.

Inside the model: single-threaded (nbWorkers = 0), buffered input and output (ZSTD_bm_buffered), no dictionary / prefix, explicit
windowLog, optional ZSTD_c_maxBlockSize, optional pledged source size (also the automatic pledge of a first call with e_end),
several frames on one context.  Not modelled: ZSTD_c_stableInBuffer / ZSTD_c_stableOutBuffer (and the stability checks),
multithreading, dictionaries, parameter changes in mid-frame, failures of the chunk compressor (a wrong pledge, a workspace that
cannot be allocated), `ZSTD_compressBound` overflowing (inputs ≥ ZSTD_MAX_INPUT_SIZE are handled as the code does, never exercised).
-/
import ZstdVerif.Model.Bound
namespace ZstdVerif.CStream
open ZstdVerif.Gen

/-- `ZSTD_EndDirective` -/
inductive EndOp where
  | eContinue | eFlush | eEnd
deriving DecidableEq, Repr, Inhabited

/-- `ZSTD_cStreamStage` -/
inductive Stage where
  | init | load | flush
deriving DecidableEq, Repr, Inhabited

/-- `ERROR(srcSize_wrong)` as a size_t -/
def errSrcSizeWrong : Nat := 2 ^ 64 - 72

/-- `ZSTD_compressBound` (the macro ZSTD_COMPRESSBOUND answers 0 for sizes ≥ ZSTD_MAX_INPUT_SIZE, turned into an error code) -/
def compressBound (n : Nat) : Nat :=
  let r := Bound.compressBound n
  if r = 0 then errSrcSizeWrong else r

/-- `ZSTD_resolveMaxBlockSize` -/
def resolveMaxBlockSize (m : Nat) : Nat := if m = 0 then ZSTD_BLOCKSIZE_MAX else m

/-- ghost record of what happened inside a call, in order -/
inductive Event where
  /-- the `idx`-th chunk: input bytes `[srcAt, srcAt+srcSize)` went to `ZSTD_compressContinue_public` (`last = false`) or
  `ZSTD_compressEnd_public` (`last = true`), which returned `cSize`; its output is `[outAt, outAt+cSize)` of the chunk-output stream;
  `buffered`: the source is a section of `inBuff` (else the caller's own buffer: the single-pass shortcut) -/
  | chunk (idx srcAt srcSize outAt cSize : Nat) (last : Bool) (buffered : Bool)
  /-- bytes `[at, at+len)` of the chunk-output stream were written to the caller's output -/
  | emit (pos len : Nat)
  /-- input bytes `[at, at+len)` were copied from the caller's input into `inBuff` -/
  | take (pos len : Nat)
deriving DecidableEq, Repr, Inhabited

/-- the fields of `ZSTD_CCtx` the buffer machine reads and writes, the oracle cursor, and ghost totals -/
structure State where
  /-- requestedParams.cParams.windowLog (explicitly set) -/
  windowLog : Nat := 17
  /-- requestedParams.maxBlockSize (0 = not set) -/
  maxBlockSize : Nat := 0
  pledgedSrcSizePlusOne : Nat := 0
  streamStage : Stage := .init
  blockSize : Nat := 0
  inBuffSize : Nat := 0
  outBuffSize : Nat := 0
  inToCompress : Nat := 0
  inBuffPos : Nat := 0
  inBuffTarget : Nat := 0
  outBuffContentSize : Nat := 0
  outBuffFlushedSize : Nat := 0
  frameEnded : Bool := false
  /-- number of chunk compressions so far = index of the next one in the oracle -/
  nbChunks : Nat := 0
  /-- ghost: bytes consumed / produced as reported to the caller over all calls so far -/
  totalIn : Nat := 0
  totalOut : Nat := 0
  /-- ghost: input bytes handed to the chunk compressor so far; length of the chunk-output stream so far -/
  srcDone : Nat := 0
  outDone : Nat := 0
  /-- ghost: position in the chunk-output stream of `outBuff[0]` -/
  outBase : Nat := 0
  /-- ghost: position in the input of `inBuff[inToCompress]` (set when a byte is loaded into an empty `inBuff` section) -/
  inBase : Nat := 0
deriving DecidableEq, Repr, Inhabited

/-- position inside the current call: `ip - istart`, `op - ostart`, and the ghost events so far -/
structure Loc where
  ip : Nat := 0
  op : Nat := 0
  events : List Event := []
deriving DecidableEq, Repr, Inhabited

inductive Ret where
  | err
  | val (n : Nat)
deriving DecidableEq, Repr, Inhabited

/-- outcome of one turn of the `while (someMoreWork) switch (zcs->streamStage)` loop -/
inductive Out where
  | cont (s : State) (l : Loc)       -- `break` out of the switch, someMoreWork still 1
  | stop (s : State) (l : Loc)       -- someMoreWork = 0
  | fail (s : State) (l : Loc)       -- RETURN_ERROR (zcss_init inside the loop: init_missing; never reached through compressStream2)
deriving Repr, Inhabited

/-- `ZSTD_CCtx_reset(zcs, ZSTD_reset_session_only)` -/
def resetSession (s : State) : State := { s with streamStage := .init, pledgedSrcSizePlusOne := 0 }

/-- the source size `ZSTD_CCtx_init_compressStream2` works with: `cctx->pledgedSrcSizePlusOne - 1` as an U64
(0 - 1 = ZSTD_CONTENTSIZE_UNKNOWN) -/
def pledgedOf (plusOne : Nat) : Nat := if plusOne = 0 then 2 ^ 64 - 1 else plusOne - 1

/-- `ZSTD_CCtx_init_compressStream2` with `ZSTD_compressBegin_internal` → `ZSTD_resetCCtx_internal` as far as sizes go:
windowSize = MAX(1, MIN(1 << windowLog, pledgedSrcSize)), blockSize = MIN(maxBlockSize, windowSize),
inBuffSize = windowSize + blockSize, outBuffSize = ZSTD_compressBound(blockSize) + 1,
inBuffTarget = blockSize + (blockSize == pledgedSrcSize).
(`ZSTD_adjustCParams_internal` may lower windowLog for a known source size, but never below the source size, so
MIN(1 << windowLog, pledgedSrcSize) is the same with the requested and the applied windowLog.) -/
def initStream (s : State) (endOp : EndOp) (inSize : Nat) : State :=
  let plusOne := if endOp = .eEnd then inSize + 1 else s.pledgedSrcSizePlusOne      -- auto-determine pledgedSrcSize
  let pledged := pledgedOf plusOne
  let windowSize := max 1 (min (2 ^ s.windowLog) pledged)
  let blockSize := min (resolveMaxBlockSize s.maxBlockSize) windowSize
  { s with pledgedSrcSizePlusOne := plusOne, blockSize := blockSize, inBuffSize := windowSize + blockSize,
           outBuffSize := compressBound blockSize + 1, inToCompress := 0, inBuffPos := 0,
           inBuffTarget := blockSize + (if blockSize = pledged then 1 else 0),
           outBuffContentSize := 0, outBuffFlushedSize := 0, streamStage := .load, frameEnded := false }

/-- `ZSTD_nextInputSizeHint` (buffered mode) -/
def nextInputSizeHint (s : State) : Nat :=
  let hintInSize := s.inBuffTarget - s.inBuffPos
  if hintInSize = 0 then s.blockSize else hintInSize

/-- stage zcss_flush -/
def stFlush (s : State) (l : Loc) (outSize : Nat) : Out :=
  let toFlush := s.outBuffContentSize - s.outBuffFlushedSize
  let flushed := min (outSize - l.op) toFlush                                   -- ZSTD_limitCopy
  let l1 := { l with op := l.op + flushed, events := l.events ++ [.emit (s.outBase + s.outBuffFlushedSize) flushed] }
  let s1 := { s with outBuffFlushedSize := s.outBuffFlushedSize + flushed }
  if toFlush ≠ flushed then .stop s1 l1                                         -- flush not fully completed: dst is too small
  else
    let s2 := { s1 with outBuffContentSize := 0, outBuffFlushedSize := 0 }
    if s.frameEnded then .stop (resetSession s2) l1                             -- frame completed on flush
    else .cont { s2 with streamStage := .load } l1

/-- "prepare next block": the new (inBuffPos, inBuffTarget) -/
def nextBlock (s : State) : Nat × Nat :=
  let tgt := s.inBuffPos + s.blockSize
  if tgt > s.inBuffSize then (0, s.blockSize) else (s.inBuffPos, tgt)

/-- zcss_load, "compress current block": the section `inBuff[inToCompress, inBuffPos)` goes to the chunk compressor, whose
output lands in the caller's buffer when `ZSTD_compressBound(iSize)` fits there, else in `outBuff` (falls through to zcss_flush) -/
def compressChunk (co : Nat → Nat) (s : State) (l : Loc) (inSize outSize : Nat) (flushMode : EndOp) : Out :=
  let oSize := outSize - l.op
  let iSize := s.inBuffPos - s.inToCompress
  let direct := decide (oSize ≥ compressBound iSize)
  let lastBlock := decide (flushMode = .eEnd) && decide (l.ip = inSize)
  let cSize := co s.nbChunks
  let nb := nextBlock s
  let ev := Event.chunk s.nbChunks s.inBase iSize s.outDone cSize lastBlock true
  let s1 := { s with frameEnded := lastBlock, inBuffTarget := nb.2, inBuffPos := nb.1, inToCompress := nb.1,
                     nbChunks := s.nbChunks + 1, srcDone := s.srcDone + iSize, outDone := s.outDone + cSize,
                     inBase := s.inBase + iSize }
  if direct then                                                                 -- no need to flush
    let l1 := { l with op := l.op + cSize, events := l.events ++ [ev, .emit s.outDone cSize] }
    if lastBlock then .stop (resetSession s1) l1 else .cont s1 l1
  else
    stFlush { s1 with outBuffContentSize := cSize, outBuffFlushedSize := 0, streamStage := .flush, outBase := s.outDone }
            { l with events := l.events ++ [ev] } outSize

/-- zcss_load, the "complete frame in one pass" shortcut: `ZSTD_compressEnd_public` straight from the caller's input into the
caller's output -/
def shortcut (co : Nat → Nat) (s : State) (l : Loc) (inSize : Nat) : Out :=
  let iSize := inSize - l.ip
  let cSize := co s.nbChunks
  let pos := s.totalIn + l.ip
  let s1 := { s with frameEnded := true, nbChunks := s.nbChunks + 1, srcDone := s.srcDone + iSize, outDone := s.outDone + cSize,
                     inBase := pos + iSize }
  .stop (resetSession s1)
        { ip := inSize, op := l.op + cSize,
          events := l.events ++ [.chunk s.nbChunks pos iSize s.outDone cSize true false, .emit s.outDone cSize] }

/-- stage zcss_load -/
def stLoad (co : Nat → Nat) (s : State) (l : Loc) (inSize outSize : Nat) (flushMode : EndOp) : Out :=
  if flushMode = .eEnd ∧ outSize - l.op ≥ compressBound (inSize - l.ip) ∧ s.inBuffPos = 0 then
    shortcut co s l inSize
  else
    -- complete loading into inBuffer
    let toLoad := s.inBuffTarget - s.inBuffPos
    let loaded := min toLoad (inSize - l.ip)                                    -- ZSTD_limitCopy
    let s1 := { s with inBuffPos := s.inBuffPos + loaded,
                       inBase := if s.inBuffPos = s.inToCompress then s.totalIn + l.ip else s.inBase }
    let l1 := { l with ip := l.ip + loaded, events := l.events ++ [.take (s.totalIn + l.ip) loaded] }
    if flushMode = .eContinue ∧ s1.inBuffPos < s1.inBuffTarget then .stop s1 l1   -- not enough input to fill full block
    else if flushMode = .eFlush ∧ s1.inBuffPos = s1.inToCompress then .stop s1 l1  -- empty
    else compressChunk co s1 l1 inSize outSize flushMode

/-- one turn of the loop -/
def micro (co : Nat → Nat) (s : State) (l : Loc) (inSize outSize : Nat) (flushMode : EndOp) : Out :=
  match s.streamStage with
  | .init => .fail s l                                                           -- "call ZSTD_initCStream() first!"
  | .load => stLoad co s l inSize outSize flushMode
  | .flush => stFlush s l outSize

/-- the loop.  Every turn that does not stop compresses a chunk or completes a flush; `Lemmas/CStreamRT.lean` (`loop_ok`,
`step_spec`, `step_ret`) proves that `loopFuel` turns are always enough.  Exhaustion is reported as an error (never taken). -/
def loop (co : Nat → Nat) : Nat → State → Loc → Nat → Nat → EndOp → Out
  | 0, s, l, _, _, _ => .fail s l
  | fuel + 1, s, l, inSize, outSize, flushMode =>
    match micro co s l inSize outSize flushMode with
    | .cont s1 l1 => loop co fuel s1 l1 inSize outSize flushMode
    | o => o

def loopFuel (inSize : Nat) : Nat := 2 * inSize + 4

/-- one observed call -/
structure CallResult where
  consumed : Nat
  produced : Nat
  /-- what `ZSTD_compressStream2` returns: `outBuffContentSize - outBuffFlushedSize`, the bytes still to flush -/
  ret : Ret
  /-- what `ZSTD_compressStream` returns after the same call: `ZSTD_nextInputSizeHint` -/
  hint : Nat
  /-- what `ZSTD_compressStream_generic` returned: 0 when the frame is ended, else the hint -/
  genericRet : Nat
  /-- the call went through `ZSTD_CCtx_init_compressStream2` -/
  inited : Bool
  events : List Event
deriving DecidableEq, Repr, Inhabited

/-- the tail of `ZSTD_compressStream_generic` and of `ZSTD_compressStream2` -/
def finish (s : State) (l : Loc) (inited : Bool) : State × CallResult :=
  ({ s with totalIn := s.totalIn + l.ip, totalOut := s.totalOut + l.op },
   { consumed := l.ip, produced := l.op, ret := .val (s.outBuffContentSize - s.outBuffFlushedSize),
     hint := nextInputSizeHint s, genericRet := if s.frameEnded then 0 else nextInputSizeHint s,
     inited := inited, events := l.events })

/-- **one call of `ZSTD_compressStream2`** with `inSize` bytes of input (`input->size - input->pos`, the next bytes of the source),
`outSize` bytes of output room and the directive `endOp`; `co` is the chunk-size oracle -/
def step (co : Nat → Nat) (s : State) (inSize outSize : Nat) (endOp : EndOp) : State × CallResult :=
  let inited := decide (s.streamStage = .init)
  let s0 := if inited then initStream s endOp inSize else s                     -- transparent initialization stage
  match loop co (loopFuel inSize) s0 {} inSize outSize endOp with
  | .stop s1 l => finish s1 l inited
  | .cont s1 l => finish s1 l inited                                             -- not a possible outcome of `loop`
  | .fail s1 l => (s1, { consumed := 0, produced := 0, ret := .err, hint := 0, genericRet := 0, inited := inited, events := l.events })

/-- what `ZSTD_endStream` adds, in single-thread mode, to the value of its `ZSTD_compressStream2(e_end)` call: while the frame is not ended the
last block header (3 bytes) and the checksum (4 bytes when enabled) are still to come -/
def endStreamRet (s1 : State) (ret : Nat) (cksum : Bool) : Nat :=
  ret + (if s1.frameEnded then 0 else 3) + (if s1.frameEnded then 0 else if cksum then 4 else 0)

/-- **one call of `ZSTD_endStream`** (legacy end directive, single thread): an `e_end` call that offers no input -/
def endStream (co : Nat → Nat) (s : State) (outSize : Nat) (cksum : Bool) : State × CallResult × Ret :=
  let r := step co s 0 outSize .eEnd
  (r.1, r.2, match r.2.ret with
             | .val v => .val (endStreamRet r.1 v cksum)
             | .err => .err)

/-- a fresh context (`ZSTD_createCCtx`) with the requested parameters -/
def State.start (windowLog maxBlockSize : Nat) (pledged : Option Nat) : State :=
  { windowLog := windowLog, maxBlockSize := maxBlockSize,
    pledgedSrcSizePlusOne := match pledged with | some n => n + 1 | none => 0 }

/-- a whole history -/
def run (co : Nat → Nat) : State → List (Nat × Nat × EndOp) → State × List CallResult
  | s, [] => (s, [])
  | s, (i, o, d) :: cs =>
    let r := step co s i o d
    let rest := run co r.1 cs
    (rest.1, r.2 :: rest.2)

end ZstdVerif.CStream
