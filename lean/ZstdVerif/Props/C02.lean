/-
C02 — streaming round trip under any call history and buffer segmentation.
(1) the specification LTS of streaming decoding (Model/Stream.lean) and what every legal history satisfies;
(2) the deterministic model of ZSTD_decompressStream / ZSTD_decompressContinue (Model/DStream.lean, tied call by call to the real code:
    consumed, produced and the exact return value of every call of every history) refines that specification.
-/
import ZstdVerif.Lemmas.StreamSpec
import ZstdVerif.Lemmas.DStreamRT
import ZstdVerif.Lemmas.DStreamTotal
import ZstdVerif.Lemmas.CStreamRT
import ZstdVerif.Model.MTBack
namespace ZstdVerif.Props.C02
open ZstdVerif.Stream

/-- invariant of every legal run: the output so far is exactly the first `produced` bytes of the specified content -/
theorem output_is_content_prefix (sp : DSpec) (s : DState) (cs : List DCall)
    (hinv : s.output = sp.content.take s.produced ∧ s.produced ≤ sp.content.length ∧ s.output.length = s.produced)
    (h : DLegalRun sp s cs) :
    (s.run cs).output = sp.content.take (s.run cs).produced ∧ (s.run cs).produced ≤ sp.content.length :=
  StreamSpec.output_is_content_prefix sp s cs hinv h

/-- **any segmentation = one-shot**: a legal history that has produced as many bytes as the content holds has produced
exactly the content single-call decoding yields — whatever the chunk sizes were -/
theorem any_segmentation_eq_oneShot (sp : DSpec) (cs : List DCall) (h : DLegalRun sp {} cs)
    (hdone : (({} : DState).run cs).produced = sp.content.length) : (({} : DState).run cs).output = sp.content :=
  StreamSpec.any_segmentation_eq_oneShot sp cs h hdone

/-- **completion is reported exactly at frame ends**: in a legal history, a call returns 0 iff right after it the
consumed / produced totals sit on a frame boundary -/
theorem zero_iff_frameEnd (sp : DSpec) (s : DState) (c : DCall) (h : DLegal sp s c) :
    c.retZero = true ↔ (((s.step c).consumed, (s.step c).produced) ∈ sp.frameEnds ∧ (0 < c.consumed ∨ 0 < c.produced.length)) :=
  StreamSpec.zero_iff_frameEnd sp s c h

/-! ### the model of the real decoder refines the specification -/

open DStream in
/-- **dstream_step_legal**: for every well-formed parsed stream `all` (frames, blocks, skippable frames), every reachable state of the model of
ZSTD_decompressStream and every call `(inAvail, outCap)` within the stream, the call the model makes is a LEGAL step of the specification:
within its buffers, emitting exactly the next bytes of the one-shot content, returning 0 exactly when this call completes a frame;
and unless it reports an error the invariant is re-established (so the statement holds along every history) -/
theorem dstream_step_legal (all : List FrameD) (content : List Nat) (hok : AllOk all) (hlen : content.length = regenAll all)
    (s : State) (hinv : Inv all s) (inAvail outCap : Nat) (hlim : s.totalIn + inAvail ≤ sizeAll all)
    (ds : DState) (hds : ds.consumed = s.totalIn ∧ ds.produced = s.totalOut) :
    DLegal (specOf all content) ds ((step s inAvail outCap).2.toDCall content inAvail outCap) ∧
    ((∀ e, (step s inAvail outCap).2.ret ≠ .err e) →
      Inv all (step s inAvail outCap).1 ∧
      (ds.step ((step s inAvail outCap).2.toDCall content inAvail outCap)).consumed = (step s inAvail outCap).1.totalIn ∧
      (ds.step ((step s inAvail outCap).2.toDCall content inAvail outCap)).produced = (step s inAvail outCap).1.totalOut) :=
  DStream.step_legal all content hok hlen s hinv inAvail outCap hlim ds hds

open DStream in
/-- **dstream_any_segmentation_eq_oneShot**: under ANY segmentation of input and output (one `(input size, output room)` pair per call, sizes down
to 0 or 1 byte), a history of the model that has produced as many bytes as the content holds has produced exactly the one-shot content -/
theorem dstream_any_segmentation_eq_oneShot (all : List FrameD) (content : List Nat) (hok : AllOk all)
    (hlen : content.length = regenAll all) (io : List (Nat × Nat)) (hf : Feasible all (State.start all) io)
    (hdone : (({} : DState).run (calls content (State.start all) io)).produced = content.length) :
    (({} : DState).run (calls content (State.start all) io)).output = content :=
  DStream.model_any_segmentation_eq_oneShot all content hok hlen io hf hdone

open DStream in
/-- **dstream_any_offered_segmentation_eq_oneShot**: the same without any hypothesis on the calls' outcomes.  On a well-formed stream whose
windows the decoder accepts (`WindowsOk`: (clamped) window ≤ ZSTD_MAXWINDOWSIZE_DEFAULT), under ANY segmentation that offers at least one byte
of input (within the stream: `Within`) and one byte of output room per call, NO call of the model reports an error (`Feasible`), and a history
that has produced as many bytes as the content holds has produced exactly the one-shot content -/
theorem dstream_any_offered_segmentation_eq_oneShot (all : List FrameD) (content : List Nat) (hok : AllOk all)
    (hwin : WindowsOk all ZSTD_MAXWINDOWSIZE_DEFAULT) (hlen : content.length = regenAll all) (io : List (Nat × Nat))
    (hw : Within all (State.start all) io) (hoff : Offered io)
    (hdone : (({} : DState).run (calls content (State.start all) io)).produced = content.length) :
    Feasible all (State.start all) io ∧ (({} : DState).run (calls content (State.start all) io)).output = content :=
  DStream.model_any_offered_segmentation_eq_oneShot all content hok hwin hlen io hw hoff hdone

open DStream in
/-- **dstream_zero_iff_frame_end**: the model's return value is 0 exactly when the totals after the call sit on a frame end and the call made
progress (so 0 is never returned in the middle of a frame, and a truncated stream never ends with 0) -/
theorem dstream_zero_iff_frame_end (all : List FrameD) (hok : AllOk all) (s : State) (hinv : Inv all s) (inAvail outCap : Nat)
    (hlim : s.totalIn + inAvail ≤ sizeAll all) :
    (step s inAvail outCap).2.ret = .hint 0 ↔
      ((s.totalIn + (step s inAvail outCap).2.consumed, s.totalOut + (step s inAvail outCap).2.produced) ∈ endsFrom 0 0 all ∧
       (0 < (step s inAvail outCap).2.consumed ∨ 0 < (step s inAvail outCap).2.produced)) :=
  DStream.zero_iff_frame_end all hok s hinv inAvail outCap hlim

/-! ### compression side: the model of ZSTD_compressStream2 / ZSTD_compressStream_generic (Model/CStream.lean, tied call by call to the real code)

The per-chunk compressor is an oracle (`co i` = size of what ZSTD_compressContinue / ZSTD_compressEnd returns for the i-th chunk); byte
POSITIONS are exact: `emittedAll` = positions of the output stream handed to the caller, `chunkOutAll` = positions written by the chunk
compressor, `chunkSrcAll` = source positions handed to it. -/

open CStream in
/-- **cstream_output_eq_chunks**: for EVERY call history `cs` (input size, output room, directive per call) from a fresh context: the bytes
handed to the caller plus what still waits in the output buffer are exactly, in order, the concatenation of the chunk outputs; the source
bytes handed to the chunk compressor plus what still waits in the input buffer are exactly, in order, the input consumed: nothing lost,
duplicated or reordered, whatever the segmentation.  Composed with the per-chunk round trip this is `decode(stream) = consumed input`. -/
theorem cstream_output_eq_chunks (co : Nat → Nat) (w m : Nat) (p : Option Nat) (cs : List (Nat × Nat × EndOp)) :
    let r := run co (State.start w m p) cs
    emittedAll r.2 ++ pendingOut r.1 = chunkOutAll r.2 ∧ chunkSrcAll r.2 ++ pendingIn r.1 = List.range' 0 r.1.totalIn ∧
    emittedAll r.2 = List.range' 0 r.1.totalOut ∧ chunkOutAll r.2 = List.range' 0 r.1.outDone :=
  CStream.output_eq_chunks co w m p cs

open CStream in
/-- the invariant behind it holds initially and is preserved by every call -/
theorem cstream_inv (co : Nat → Nat) (w m : Nat) (p : Option Nat) (s : State) (inSize outSize : Nat) (endOp : EndOp) (h : Inv s) :
    Inv (State.start w m p) ∧ Inv (step co s inSize outSize endOp).1 :=
  ⟨CStream.inv_start w m p, CStream.step_inv co s inSize outSize endOp h⟩

example : DLegalRun ⟨[1, 2, 3], [(9, 3)]⟩ {} [⟨4, 2, 4, [1, 2], false⟩, ⟨5, 8, 5, [3], true⟩] := by
  simp [DLegalRun, DLegal, DState.step]

/-! ### multithreaded compression under back-pressure (Model/MTBack.lean; tied to the real code by the withheld-output histories of tools/props/c02.py:
bytes accepted while nothing was emitted = `Back.offer`, and the emitted stream round-trips) -/

open MT in
/-- **mt_job_slot_never_in_use**: whenever ZSTDMT_createCompressionJob is allowed to prepare a job (`canCreate`), the descriptor it writes
(`nextJobID & jobIDMask`) is not the descriptor of any job created and not yet entirely flushed (`doneJobID ≤ j < nextJobID`): a producer
running ahead of a slow consumer can never overwrite output that is still to be handed to the caller -/
theorem mt_job_slot_never_in_use (r : Ring) (hc : canCreate r = true) (j : Nat) (hj : r.done ≤ j ∧ j < r.next) :
    j % (r.mask + 1) ≠ r.next % (r.mask + 1) :=
  MT.create_slot_free r hc j hj

open MT in
/-- **mt_withheld_input_bounded**: however the caller slices its input (`n` bytes offered `fuel` times), as long as no job has been retired
the bytes accepted are at most (descriptors + 1) sections: the ring invariant holds along the whole history and a full ring refuses the job -/
theorem mt_withheld_input_bounded (T mask n fuel : Nat) :
    (Back.offer T (Back.start mask) n fuel).accepted ≤ (mask + 2) * T ∧ BackInv T (Back.offer T (Back.start mask) n fuel) := by
  have hi := MT.offer_inv T n fuel (Back.start mask) (MT.backInv_start T mask)
  have hb := MT.withheld_bounded T _ hi
  rw [MT.offer_mask] at hb
  exact ⟨hb, hi⟩

open MT in
theorem mt_full_ring_refuses (r : Ring) (h : r.next = r.done + r.mask + 1) : create r = r := MT.full_ring_refuses r h

example : MT.ringSlots 1 = 4 ∧ MT.ringSlots 2 = 8 ∧ MT.ringSlots 5 = 8 ∧ MT.ringSlots 6 = 16 := by decide

end ZstdVerif.Props.C02
