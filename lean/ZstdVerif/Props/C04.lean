/-
C04 — every decoding path yields the specified output for every valid frame.
The hard-coded default sequence decoding tables of zstd_decompress_block.c (regenerated into Gen/Tables.lean) are exactly
what the generic table builder produces from the default distributions: a decoder using the shortcut tables and one
building them from the specification's distributions agree.
-/
import ZstdVerif.Model.FSE
namespace ZstdVerif.Props.C04
open ZstdVerif ZstdVerif.Gen

theorem default_LL_table_eq :
    (FSE.buildSeqTable LL_defaultNorm.toArray LL_DEFAULTNORMLOG LL_base LL_bits).toList = LL_defaultDTable := by decide +kernel

theorem default_OF_table_eq :
    (FSE.buildSeqTable OF_defaultNorm.toArray OF_DEFAULTNORMLOG OF_base OF_bits).toList = OF_defaultDTable := by decide +kernel

theorem default_ML_table_eq :
    (FSE.buildSeqTable ML_defaultNorm.toArray ML_DEFAULTNORMLOG ML_base ML_bits).toList = ML_defaultDTable := by decide +kernel

/-- the default distributions are valid normalised counts: they sum to the table size (−1 counts as one cell) -/
theorem default_norms_sum :
    (LL_defaultNorm.map (fun c => if c = -1 then 1 else c)).sum = 2 ^ LL_DEFAULTNORMLOG ∧
    (OF_defaultNorm.map (fun c => if c = -1 then 1 else c)).sum = 2 ^ OF_DEFAULTNORMLOG ∧
    (ML_defaultNorm.map (fun c => if c = -1 then 1 else c)).sum = 2 ^ ML_DEFAULTNORMLOG := by decide

/-- every cell of the default tables keeps the FSE state inside the table: nextState + 2^nbBits ≤ tableSize -/
theorem default_tables_state_inbounds :
    LL_defaultDTable.all (fun c => c.nextState + 2 ^ c.nbBits ≤ 2 ^ LL_DEFAULTNORMLOG) = true ∧
    OF_defaultDTable.all (fun c => c.nextState + 2 ^ c.nbBits ≤ 2 ^ OF_DEFAULTNORMLOG) = true ∧
    ML_defaultDTable.all (fun c => c.nextState + 2 ^ c.nbBits ≤ 2 ^ ML_DEFAULTNORMLOG) = true := by decide

end ZstdVerif.Props.C04
