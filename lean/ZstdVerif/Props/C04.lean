/-
C04 — every decoding path yields the specified output for every valid frame.
The hard-coded default sequence decoding tables of zstd_decompress_block.c (regenerated into Gen/Tables.lean) are exactly
what the generic table builder produces from the default distributions: a decoder using the shortcut tables and one
building them from the specification's distributions agree.
-/
import ZstdVerif.Model.FSE
import ZstdVerif.Lemmas.DStreamRT
import ZstdVerif.Lemmas.TableSafe
namespace ZstdVerif.Props.C04
open ZstdVerif ZstdVerif.Gen

theorem default_LL_table_eq :
    (FSE.buildSeqTable LL_defaultNorm.toArray LL_DEFAULTNORMLOG LL_base LL_bits).toList = LL_defaultDTable := by decide +kernel

theorem default_OF_table_eq :
    (FSE.buildSeqTable OF_defaultNorm.toArray OF_DEFAULTNORMLOG OF_base OF_bits).toList = OF_defaultDTable := by decide +kernel

theorem default_ML_table_eq :
    (FSE.buildSeqTable ML_defaultNorm.toArray ML_DEFAULTNORMLOG ML_base ML_bits).toList = ML_defaultDTable := by decide +kernel

/-- the default distributions are valid normalised counts: they sum to the table size (−1 counts as one cell) -/
theorem default_norms_sum :
    (LL_defaultNorm.map (fun c => if c = -1 then 1 else c)).sum = 2 ^ LL_DEFAULTNORMLOG ∧
    (OF_defaultNorm.map (fun c => if c = -1 then 1 else c)).sum = 2 ^ OF_DEFAULTNORMLOG ∧
    (ML_defaultNorm.map (fun c => if c = -1 then 1 else c)).sum = 2 ^ ML_DEFAULTNORMLOG := by decide

/-- every cell of the default tables keeps the FSE state inside the table: nextState + 2^nbBits ≤ tableSize -/
theorem default_tables_state_inbounds :
    LL_defaultDTable.all (fun c => c.nextState + 2 ^ c.nbBits ≤ 2 ^ LL_DEFAULTNORMLOG) = true ∧
    OF_defaultDTable.all (fun c => c.nextState + 2 ^ c.nbBits ≤ 2 ^ OF_DEFAULTNORMLOG) = true ∧
    ML_defaultDTable.all (fun c => c.nextState + 2 ^ c.nbBits ≤ 2 ^ ML_DEFAULTNORMLOG) = true := by decide


/-! ### decoding paths -/

open DStream Stream in
/-- **streaming_path_eq_oneShot**: the streaming decoding path (model of ZSTD_decompressStream over ZSTD_decompressContinue: internal input / output
buffers, output ring with restarts, single-pass shortcut, hostage byte) yields, under ANY segmentation of input and output, exactly the content
the one-shot path yields for the same frames; the model is compared with the real code on every call of every generated history -/
theorem streaming_path_eq_oneShot (all : List FrameD) (content : List Nat) (hok : AllOk all)
    (hlen : content.length = regenAll all) (io : List (Nat × Nat)) (hf : Feasible all (State.start all) io)
    (hdone : (({} : DState).run (calls content (State.start all) io)).produced = content.length) :
    (({} : DState).run (calls content (State.start all) io)).output = content :=
  DStream.model_any_segmentation_eq_oneShot all content hok hlen io hf hdone

open TableSafe in
/-- the predefined decoding tables (dumped from the source on every run) keep every FSE state inside the table -/
theorem default_tables_closed :
    SeqClosed Gen.LL_defaultDTable.toArray Gen.LL_DEFAULTNORMLOG ∧ SeqClosed Gen.OF_defaultDTable.toArray Gen.OF_DEFAULTNORMLOG ∧
    SeqClosed Gen.ML_defaultDTable.toArray Gen.ML_DEFAULTNORMLOG :=
  TableSafe.default_tables_closed

end ZstdVerif.Props.C04
