/-
C04 — every decoding path yields the specified output for every valid frame.
The hard-coded default sequence decoding tables of zstd_decompress_block.c (regenerated into Gen/Tables.lean) are exactly
what the generic table builder produces from the default distributions: a decoder using the shortcut tables and one
building them from the specification's distributions agree.
-/
import ZstdVerif.Model.FSE
import ZstdVerif.Lemmas.DStreamRT
import ZstdVerif.Lemmas.TableSafe
import ZstdVerif.Lemmas.SpreadRT
namespace ZstdVerif.Props.C04
open ZstdVerif ZstdVerif.Gen

theorem default_LL_table_eq :
    (FSE.buildSeqTable LL_defaultNorm.toArray LL_DEFAULTNORMLOG LL_base LL_bits).toList = LL_defaultDTable := by decide +kernel

theorem default_OF_table_eq :
    (FSE.buildSeqTable OF_defaultNorm.toArray OF_DEFAULTNORMLOG OF_base OF_bits).toList = OF_defaultDTable := by decide +kernel

theorem default_ML_table_eq :
    (FSE.buildSeqTable ML_defaultNorm.toArray ML_DEFAULTNORMLOG ML_base ML_bits).toList = ML_defaultDTable := by decide +kernel

/-- the default distributions are valid normalised counts: they sum to the table size (−1 counts as one cell) -/
theorem default_norms_sum :
    (LL_defaultNorm.map (fun c => if c = -1 then 1 else c)).sum = 2 ^ LL_DEFAULTNORMLOG ∧
    (OF_defaultNorm.map (fun c => if c = -1 then 1 else c)).sum = 2 ^ OF_DEFAULTNORMLOG ∧
    (ML_defaultNorm.map (fun c => if c = -1 then 1 else c)).sum = 2 ^ ML_DEFAULTNORMLOG := by decide

/-- every cell of the default tables keeps the FSE state inside the table: nextState + 2^nbBits ≤ tableSize -/
theorem default_tables_state_inbounds :
    LL_defaultDTable.all (fun c => c.nextState + 2 ^ c.nbBits ≤ 2 ^ LL_DEFAULTNORMLOG) = true ∧
    OF_defaultDTable.all (fun c => c.nextState + 2 ^ c.nbBits ≤ 2 ^ OF_DEFAULTNORMLOG) = true ∧
    ML_defaultDTable.all (fun c => c.nextState + 2 ^ c.nbBits ≤ 2 ^ ML_DEFAULTNORMLOG) = true := by decide


/-! ### decoding paths -/

open DStream Stream in
/-- **streaming_path_eq_oneShot**: the streaming decoding path (model of ZSTD_decompressStream over ZSTD_decompressContinue: internal input / output
buffers, output ring with restarts, single-pass shortcut, hostage byte) yields, under ANY segmentation of input and output, exactly the content
the one-shot path yields for the same frames; the model is compared with the real code on every call of every generated history -/
theorem streaming_path_eq_oneShot (all : List FrameD) (content : List Nat) (hok : AllOk all)
    (hlen : content.length = regenAll all) (io : List (Nat × Nat)) (hf : Feasible all (State.start all) io)
    (hdone : (({} : DState).run (calls content (State.start all) io)).produced = content.length) :
    (({} : DState).run (calls content (State.start all) io)).output = content :=
  DStream.model_any_segmentation_eq_oneShot all content hok hlen io hf hdone

open TableSafe in
/-- the predefined decoding tables (dumped from the source on every run) keep every FSE state inside the table -/
theorem default_tables_closed :
    SeqClosed Gen.LL_defaultDTable.toArray Gen.LL_DEFAULTNORMLOG ∧ SeqClosed Gen.OF_defaultDTable.toArray Gen.OF_DEFAULTNORMLOG ∧
    SeqClosed Gen.ML_defaultDTable.toArray Gen.ML_DEFAULTNORMLOG :=
  TableSafe.default_tables_closed

/-! ### decoding tables built from a description -/

/-- **fse_spread_complete** (FSE_buildDTable_internal, lib/common/fse_decompress.c / ZSTD_buildFSETable_body,
lib/decompress/zstd_decompress_block.c, the symbol spreading): for EVERY normalised distribution and `4 ≤ tableLog` the table has `2^L`
positions, each holding a symbol of the alphabet, every symbol as often as its normalised count says (once for "less than one") - the
`step` walk visits every free position exactly once -/
theorem fse_spread_complete {norm : Array Int} {L : Nat} (hN : FSE.NormOK norm L) (hL : 4 ≤ L) : FSE.SpreadOK (FSE.spread norm L) norm L :=
  FSE.spread_ok hN hL

/-- **fse_spread_agree**: the table construction of the compressor (FSE_buildCTable_wksp, lib/compress/fse_compress.c) spreads the
symbols exactly as the decoder's does, for EVERY normalised distribution -/
theorem fse_spread_agree {norm : Array Int} {L : Nat} (hN : FSE.NormOK norm L) : FSE.spreadEnc norm L = FSE.spread norm L :=
  FSE.spreadEnc_eq_spread hN

open TableSafe in
/-- **described_tables_closed** (ZSTD_buildSeqTable, all four modes): whatever the bytes, a table `Block.buildSeqTable` returns keeps every
FSE state inside the table - the hypothesis `SpreadOK (spread …)` of `TableSafe.block_buildSeqTable_closed` is discharged by
`FSE.spread_ok` on what `FSE.readNCount` accepts (`readNCount_normOK`: normalised, `5 ≤ tableLog`) -/
theorem described_tables_closed {mode : Nat} {src : Bytes} {ip iend maxSym maxLog : Nat} {base bits : List Nat}
    {dflt : List Gen.SeqCell} {dfltLog : Nat} {prev : Array Gen.SeqCell} {prevLog : Nat} {fseValid : Bool}
    {T : Array Gen.SeqCell} {log used : Nat}
    (h : Block.buildSeqTable mode src ip iend maxSym maxLog base bits dflt dfltLog prev prevLog fseValid = .ok (T, log, used))
    (hd : SeqClosed dflt.toArray dfltLog) (hp : fseValid = true → SeqClosed prev prevLog) : SeqClosed T log :=
  TableSafe.block_buildSeqTable_closed h hd hp (fun nc hr => by
    obtain ⟨hN, _, h5, _⟩ := TableSafe.readNCount_normOK _ _ _ _ nc hr
    exact FSE.spread_ok hN (by omega))

end ZstdVerif.Props.C04
