/-
C12 — Thread pool: each accepted job runs exactly once; join, resize, free are safe.
Theorems over the LTS `ZstdVerif.Pool.step` (Model/Pool.lean): every statement quantifies over ALL schedules
(all label sequences), all thread counts, queue sizes, client programs and job bodies.
-/
import ZstdVerif.Lemmas.Pool

namespace ZstdVerif.Props.C12
open ZstdVerif.Pool

/-- the safety invariant is preserved by every transition -/
theorem inv_step {body : Job → List JOp} {s s' : St} {l : Label} {a : List Act}
    (h : Inv s) (hs : step body s l = some (s', a)) : Inv s' := by
  unfold step at hs
  cases l with
  | worker i sig =>
    simp only at hs; split at hs
    · exact inv_stepWorker h hs
    · simp at hs
  | client i sig =>
    simp only at hs; split at hs
    · exact inv_stepClient h hs
    · simp at hs
  | spuriousW i =>
    simp only [Option.map_eq_some_iff] at hs
    obtain ⟨s1, h1, h2⟩ := hs
    cases h2
    unfold spuriousW at h1
    split at h1
    · rename_i hw; cases h1; exact inv_setWorker_same h i _ _ hw rfl rfl
    · rename_i hw; cases h1; exact inv_setWorker_same h i _ _ hw rfl rfl
    · simp at h1
  | spuriousC i =>
    simp only [Option.map_eq_some_iff] at hs
    obtain ⟨s1, h1, h2⟩ := hs
    cases h2
    unfold spuriousC at h1
    split at h1
    · cases h1; exact inv_setClient h _ _
    · simp at h1

/-- ... hence holds in every state reachable under any schedule -/
theorem inv_reachable {body : Job → List JOp} {t qs : Nat} {progs : List (List COp)} {s : St}
    (hr : Reachable body (init t qs progs) s) : Inv s := by
  induction hr with
  | refl => exact inv_init t qs progs
  | step _ hs ih => exact inv_step ih hs

/-- **FIFO / no loss, no duplication**: in every reachable state the jobs ever accepted are exactly the jobs
already handed to a worker followed by the jobs still queued, in order. -/
theorem accepted_eq_started_append_queue {body t qs progs s} (hr : Reachable body (init t qs progs) s) :
    s.accepted = s.started ++ s.q := (inv_reachable hr).fifo

/-- **exactly once**: no job instance is started more often than it was accepted, none finishes more often
than it started; and whenever the pool is quiescent (empty queue, no busy thread) every accepted instance
has been executed to completion exactly once. -/
theorem exactly_once {body t qs progs s} (hr : Reachable body (init t qs progs) s) (j : Job) :
    s.started.count j ≤ s.accepted.count j ∧ s.finished.count j ≤ s.started.count j ∧
    (s.q = [] → s.busy = 0 → s.finished.count j = s.accepted.count j) := by
  have h := inv_reachable hr
  refine ⟨?_, ?_, ?_⟩
  · rw [h.fifo, List.count_append]; omega
  · have := h.acct j; omega
  · intro hq hb
    have hb' := h.busy
    rw [hb] at hb'
    have hnone : ∀ w ∈ s.ws, isRun w = false := by
      intro w hw
      cases hc : isRun w with
      | false => rfl
      | true =>
        have : 0 < s.ws.countP isRun := List.countP_pos_iff.mpr ⟨w, hw, hc⟩
        omega
    have hfm : s.ws.filterMap jobOf = [] := by
      apply List.filterMap_eq_nil_iff.mpr
      intro w hw
      have := hnone w hw
      cases w <;> simp_all [isRun, jobOf]
    have := h.acct j
    rw [hfm] at this
    rw [h.fifo, hq]; simp at this ⊢; omega

/-- **joinJobs postcondition**: the critical section in which `POOL_joinJobs` decides to return sees every job
accepted so far finished. -/
theorem joinJobs_post {body t qs progs s s'} {i sig : Nat} {a : List Act} {c : Client} {rest : List COp}
    (hr : Reachable body (init t qs progs) s) (hc : s.cs[i]? = some c) (hp : c.prog = .joinJobs :: rest)
    (hs : stepClient s i sig = some (s', a)) (hret : s'.cs[i]? = some ⟨.ready, rest⟩) (hne : c.pc ≠ .done)
    (hnf : c.pc ≠ .freeBcastPush ∧ c.pc ≠ .freeBcastPop ∧ c.pc ≠ .joining) :
    ∀ j, s.finished.count j = s.accepted.count j := by
  intro j
  have hq : s.q = [] ∧ s.busy = 0 := by
    unfold stepClient at hs
    rw [hc] at hs
    simp only at hs
    rcases c with ⟨pc, prog⟩
    simp only at hp; subst hp
    cases pc with
    | ready =>
      simp only at hs
      split at hs
      · cases hs
        simp [setClient] at hret
        obtain ⟨hlt, _⟩ := idx_of_getElem? hc
        simp [List.getElem?_set_self hlt] at hret
      · rename_i hcond
        simp at hcond
        exact ⟨by simpa using hcond.1, by omega⟩
    | waitPush w =>
      cases w with
      | false => simp at hs
      | true =>
        simp only at hs
        split at hs
        · cases hs
          simp [setClient] at hret
          obtain ⟨hlt, _⟩ := idx_of_getElem? hc
          simp [List.getElem?_set_self hlt] at hret
        · rename_i hcond
          simp at hcond
          exact ⟨by simpa using hcond.1, by omega⟩
    | done => exact absurd rfl hne
    | freeBcastPush => exact absurd rfl hnf.1
    | freeBcastPop => exact absurd rfl hnf.2.1
    | joining => exact absurd rfl hnf.2.2
  exact (exactly_once hr j).2.2 hq.1 hq.2

/-- **tryAdd**: a refusal leaves queue and accepted set untouched; an acceptance (pool not shutting down)
enqueues exactly that job at the tail. -/
theorem tryAdd_refusal_clean (s : St) (j : Job) (k : Nat) :
    (isFull s = true → True) ∧
    (s.shutdown = false → (addInternal s j k).1.q = s.q ++ [j] ∧ (addInternal s j k).1.accepted = s.accepted ++ [j]) ∧
    (s.shutdown = true → (addInternal s j k).1 = s) := by
  refine ⟨fun _ => trivial, fun h => ?_, fun h => ?_⟩
  · unfold addInternal signalPop; simp [h]; split <;> simp
  · unfold addInternal; simp [h]

/-- **resize never strands or loses queued jobs**: queue, accepted, started, finished are unchanged, and the
number of worker threads never shrinks. -/
theorem resize_keeps_jobs (s : St) (n : Nat) :
    (resize s n).q = s.q ∧ (resize s n).accepted = s.accepted ∧ (resize s n).started = s.started ∧
    (resize s n).finished = s.finished ∧ s.ws.length ≤ (resize s n).ws.length := by
  unfold resize bcastPush bcastPop
  split <;> (try split) <;> simp

/-- **free joins every worker**: `POOL_free` returns (client reaches `done` from `joining`) only in a state where
every worker thread has exited. -/
theorem free_joins_all (s s' : St) (i sig : Nat) (a : List Act) (c : Client)
    (hc : s.cs[i]? = some c) (hj : c.pc = .joining) (hs : stepClient s i sig = some (s', a)) :
    s.ws.all (· == .exited) = true := by
  unfold stepClient at hs
  rw [hc] at hs
  rcases c with ⟨pc, prog⟩
  simp only at hj; subst hj
  simp only at hs
  split at hs
  · assumption
  · simp at hs

/-- a worker only exits when the pool is shutting down (first branch of `POOL_thread`'s wait loop) -/
theorem worker_exits_only_on_shutdown (s : St) (i : Nat) (w : WPc) (hw : s.ws[i]? = some w)
    (hidle : w = .idle ∨ w = .waitPop true) (hcond : (s.q.isEmpty || decide (s.busy ≥ s.limit)) = true) :
    (s.shutdown = true → ∀ body sig, stepWorker body s i sig = some ({ s with ws := s.ws.set i .exited }, [])) ∧
    (s.shutdown = false → ∀ body sig, stepWorker body s i sig = some ({ s with ws := s.ws.set i (.waitPop false) }, [.waitPop])) := by
  rcases hidle with rfl | rfl <;> refine ⟨fun h body sig => ?_, fun h body sig => ?_⟩ <;>
    simp [stepWorker, hw, hcond, h]

/-! Non-vacuity: a concrete schedule of a concrete program reaches a quiescent state with two accepted jobs. -/
example : (runLabels (fun _ => []) (init 1 0 [[.add 1, .add 2]])
    [.client 0 0, .worker 0 0, .worker 0 0, .client 0 0, .worker 0 0, .worker 0 0]).map (fun s => (s.accepted, s.finished, s.busy))
    = some ([1, 2], [1, 2], 0) := by decide

end ZstdVerif.Props.C12
