/-
C12 — Thread pool: each accepted job runs exactly once; join, resize, free are safe.
Theorems over the LTS `ZstdVerif.Pool.step` (Model/Pool.lean): every statement quantifies over ALL schedules
(all label sequences), all thread counts, queue sizes, client programs and job bodies.
-/
import ZstdVerif.Lemmas.Pool
import ZstdVerif.Lemmas.PoolLive
import ZstdVerif.Lemmas.PoolTry

namespace ZstdVerif.Props.C12
open ZstdVerif.Pool

/-- the safety invariant is preserved by every transition -/
theorem inv_step {body : Job → List JOp} {s s' : St} {l : Label} {a : List Act}
    (h : Inv s) (hs : step body s l = some (s', a)) : Inv s' := by
  unfold step at hs
  cases l with
  | worker i sig =>
    simp only at hs; split at hs
    · exact inv_stepWorker h hs
    · simp at hs
  | client i sig =>
    simp only at hs; split at hs
    · exact inv_stepClient h hs
    · simp at hs
  | spuriousW i =>
    simp only [Option.map_eq_some_iff] at hs
    obtain ⟨s1, h1, h2⟩ := hs
    cases h2
    unfold spuriousW at h1
    split at h1
    · rename_i hw; cases h1; exact inv_setWorker_same h i _ _ hw rfl rfl
    · rename_i hw; cases h1; exact inv_setWorker_same h i _ _ hw rfl rfl
    · simp at h1
  | spuriousC i =>
    simp only [Option.map_eq_some_iff] at hs
    obtain ⟨s1, h1, h2⟩ := hs
    cases h2
    unfold spuriousC at h1
    split at h1
    · cases h1; exact inv_setClient h _ _
    · simp at h1

/-- ... hence holds in every state reachable under any schedule -/
theorem inv_reachable {body : Job → List JOp} {t qs : Nat} {progs : List (List COp)} {s : St}
    (hr : Reachable body (init t qs progs) s) : Inv s := by
  induction hr with
  | refl => exact inv_init t qs progs
  | step _ hs ih => exact inv_step ih hs

/-- **FIFO / no loss, no duplication**: in every reachable state the jobs ever accepted are exactly the jobs
already handed to a worker followed by the jobs still queued, in order. -/
theorem accepted_eq_started_append_queue {body t qs progs s} (hr : Reachable body (init t qs progs) s) :
    s.accepted = s.started ++ s.q := (inv_reachable hr).fifo

/-- **exactly once**: no job instance is started more often than it was accepted, none finishes more often
than it started; and whenever the pool is quiescent (empty queue, no busy thread) every accepted instance
has been executed to completion exactly once. -/
theorem exactly_once {body t qs progs s} (hr : Reachable body (init t qs progs) s) (j : Job) :
    s.started.count j ≤ s.accepted.count j ∧ s.finished.count j ≤ s.started.count j ∧
    (s.q = [] → s.busy = 0 → s.finished.count j = s.accepted.count j) := by
  have h := inv_reachable hr
  refine ⟨?_, ?_, ?_⟩
  · rw [h.fifo, List.count_append]; omega
  · have := h.acct j; omega
  · intro hq hb
    have hb' := h.busy
    rw [hb] at hb'
    have hnone : ∀ w ∈ s.ws, isRun w = false := by
      intro w hw
      cases hc : isRun w with
      | false => rfl
      | true =>
        have : 0 < s.ws.countP isRun := List.countP_pos_iff.mpr ⟨w, hw, hc⟩
        omega
    have hfm : s.ws.filterMap jobOf = [] := by
      apply List.filterMap_eq_nil_iff.mpr
      intro w hw
      have := hnone w hw
      cases w <;> simp_all [isRun, jobOf]
    have := h.acct j
    rw [hfm] at this
    rw [h.fifo, hq]; simp at this ⊢; omega

/-- **joinJobs postcondition**: the critical section in which `POOL_joinJobs` decides to return sees every job
accepted so far finished. -/
theorem joinJobs_post {body t qs progs s s'} {i sig : Nat} {a : List Act} {c : Client} {rest : List COp}
    (hr : Reachable body (init t qs progs) s) (hc : s.cs[i]? = some c) (hp : c.prog = .joinJobs :: rest)
    (hs : stepClient s i sig = some (s', a)) (hret : s'.cs[i]? = some ⟨.ready, rest⟩) (hne : c.pc ≠ .done)
    (hnf : c.pc ≠ .freeBcastPush ∧ c.pc ≠ .freeBcastPop ∧ c.pc ≠ .joining) :
    ∀ j, s.finished.count j = s.accepted.count j := by
  intro j
  have hq : s.q = [] ∧ s.busy = 0 := by
    unfold stepClient at hs
    rw [hc] at hs
    simp only at hs
    rcases c with ⟨pc, prog⟩
    simp only at hp; subst hp
    cases pc with
    | ready =>
      simp only at hs
      split at hs
      · cases hs
        simp [setClient] at hret
        obtain ⟨hlt, _⟩ := idx_of_getElem? hc
        simp [List.getElem?_set_self hlt] at hret
      · rename_i hcond
        simp at hcond
        exact ⟨by simpa using hcond.1, by omega⟩
    | waitPush w =>
      cases w with
      | false => simp at hs
      | true =>
        simp only at hs
        split at hs
        · cases hs
          simp [setClient] at hret
          obtain ⟨hlt, _⟩ := idx_of_getElem? hc
          simp [List.getElem?_set_self hlt] at hret
        · rename_i hcond
          simp at hcond
          exact ⟨by simpa using hcond.1, by omega⟩
    | done => exact absurd rfl hne
    | freeBcastPush => exact absurd rfl hnf.1
    | freeBcastPop => exact absurd rfl hnf.2.1
    | joining => exact absurd rfl hnf.2.2
  exact (exactly_once hr j).2.2 hq.1 hq.2

/-- **tryAdd**: a refusal leaves queue and accepted set untouched; an acceptance (pool not shutting down)
enqueues exactly that job at the tail. -/
theorem tryAdd_refusal_clean (s : St) (j : Job) (k : Nat) :
    (isFull s = true → True) ∧
    (s.shutdown = false → (addInternal s j k).1.q = s.q ++ [j] ∧ (addInternal s j k).1.accepted = s.accepted ++ [j]) ∧
    (s.shutdown = true → (addInternal s j k).1 = s) := by
  refine ⟨fun _ => trivial, fun h => ?_, fun h => ?_⟩
  · unfold addInternal signalPop; simp [h]; split <;> simp
  · unfold addInternal; simp [h]

/-- **a successful tryAdd is an accepted job** (all schedules): in every reachable state, each post that `POOL_tryAdd` answered
with 1 has really been enqueued - also when it raced with `POOL_free` (a pool that is shutting down answers 0). -/
theorem tryAdd_success_accepted {body t qs progs s} (hr : Reachable body (init t qs progs) s) (j : Job) :
    s.tryOk.count j ≤ s.accepted.count j := by
  induction hr with
  | refl => simp [init]
  | step _ hs ih => exact tryStep_count (tryStep_step hs) j ih

/-- ... hence runs: once the pool is quiescent, every post answered with 1 has been executed to completion. -/
theorem tryAdd_success_runs {body t qs progs s} (hr : Reachable body (init t qs progs) s) (j : Job)
    (hq : s.q = []) (hb : s.busy = 0) : s.tryOk.count j ≤ s.finished.count j := by
  have h := (exactly_once hr j).2.2 hq hb
  have h2 := tryAdd_success_accepted hr j
  omega

/-- **resize never strands or loses queued jobs**: queue, accepted, started, finished are unchanged, and the
number of worker threads never shrinks. -/
theorem resize_keeps_jobs (s : St) (n : Nat) :
    (resize s n).q = s.q ∧ (resize s n).accepted = s.accepted ∧ (resize s n).started = s.started ∧
    (resize s n).finished = s.finished ∧ s.ws.length ≤ (resize s n).ws.length := by
  unfold resize bcastPush bcastPop
  split <;> (try split) <;> simp

/-- **free joins every worker**: `POOL_free` returns (client reaches `done` from `joining`) only in a state where
every worker thread has exited. -/
theorem free_joins_all (s s' : St) (i sig : Nat) (a : List Act) (c : Client)
    (hc : s.cs[i]? = some c) (hj : c.pc = .joining) (hs : stepClient s i sig = some (s', a)) :
    s.ws.all (· == .exited) = true := by
  unfold stepClient at hs
  rw [hc] at hs
  rcases c with ⟨pc, prog⟩
  simp only at hj; subst hj
  simp only at hs
  split at hs
  · assumption
  · simp at hs

/-- a worker only exits when the pool is shutting down (first branch of `POOL_thread`'s wait loop) -/
theorem worker_exits_only_on_shutdown (s : St) (i : Nat) (w : WPc) (hw : s.ws[i]? = some w)
    (hidle : w = .idle ∨ w = .waitPop true) (hcond : (s.q.isEmpty || decide (s.busy ≥ s.limit)) = true) :
    (s.shutdown = true → ∀ body sig, stepWorker body s i sig = some ({ s with ws := s.ws.set i .exited }, [])) ∧
    (s.shutdown = false → ∀ body sig, stepWorker body s i sig = some ({ s with ws := s.ws.set i (.waitPop false) }, [.waitPop])) := by
  rcases hidle with rfl | rfl <;> refine ⟨fun h body sig => ?_, fun h body sig => ?_⟩ <;>
    simp [stepWorker, hw, hcond, h]


/-! ## Liveness: no wake-up is ever lost (Lemmas/PoolLive.lean: `Live`), hence no deadlock that the pool itself causes -/

/-- the "no lost wake-up" invariant is preserved by every transition taken with a legal signal choice -/
theorem live_step {body : Job → List JOp} {s s' : St} {l : Label} {a : List Act}
    (hl : Live s) (hi : Inv s) (hs : step body s l = some (s', a)) : Live s' := by
  unfold step at hs
  cases l with
  | worker i sig =>
    simp only at hs; split at hs
    · rename_i hok; exact live_stepWorker hl hok hs
    · simp at hs
  | client i sig =>
    simp only at hs; split at hs
    · rename_i hok; exact live_stepClient hl hi hok hs
    · simp at hs
  | spuriousW i =>
    simp only [Option.map_eq_some_iff] at hs
    obtain ⟨s1, h1, h2⟩ := hs
    cases h2
    exact live_spuriousW hl h1
  | spuriousC i =>
    simp only [Option.map_eq_some_iff] at hs
    obtain ⟨s1, h1, h2⟩ := hs
    cases h2
    exact live_spuriousC hl h1

/-- ... hence it holds in every state reachable under any schedule of a pool created with at least one thread
(POOL_create refuses 0 threads) -/
theorem live_reachable {body : Job → List JOp} {t qs : Nat} {progs : List (List COp)} {s : St} (ht : 0 < t)
    (hr : Reachable body (init t qs progs) s) : Live s := by
  induction hr with
  | refl => exact live_init t qs progs ht
  | step hr' hs ih => exact live_step ih (inv_reachable hr') hs

/-- **a queued job that may be started is never stranded**: whenever the queue is non-empty and the thread limit is not
reached, some worker is awake - about to test the queue, or running a job after which it tests the queue - in every state
reachable under any schedule, any client programs, any resizes. -/
theorem job_never_stranded {body t qs progs s} (ht : 0 < t) (hr : Reachable body (init t qs progs) s)
    (hq : s.q ≠ []) (hb : s.busy < s.limit) : ∃ w ∈ s.ws, activeW w = true := by
  have := (live_reachable ht hr).core.pop hq hb
  exact List.any_eq_true.mp this

/-- **a blocked POOL_add is blocked for a reason**: a client asleep inside POOL_add sees a full queue of a pool that is not
shutting down, or POOL_free has set `shutdown` and still owes the broadcast on the push condition -/
theorem blocked_add_justified {body t qs progs s} (ht : 0 < t) (hr : Reachable body (init t qs progs) s)
    (c : Client) (hc : c ∈ s.cs) (hpc : c.pc = .waitPush false) (j : Job) (rest : List COp) (hp : c.prog = .add j :: rest) :
    (isFull s = true ∧ s.shutdown = false) ∨ ∃ c' ∈ s.cs, c'.pc = .freeBcastPush := by
  have hs : s.cs.any sleepAddC = true := List.any_eq_true.mpr ⟨c, hc, by simp [sleepAddC, hpc, hp, headAdd]⟩
  rcases (live_reachable ht hr).push.pushAdd hs with h | h
  · exact Or.inl h
  · obtain ⟨c', hc', hp'⟩ := List.any_eq_true.mp h
    refine Or.inr ⟨c', hc', ?_⟩
    rcases c' with ⟨pc, pr⟩
    cases pc <;> simp_all [pendPushC]

/-- same for a job body blocked inside POOL_add -/
theorem blocked_worker_add_justified {body t qs progs s} (ht : 0 < t) (hr : Reachable body (init t qs progs) s)
    (j : Job) (r : List JOp) (hw : WPc.runWaitPush j r false ∈ s.ws) :
    (isFull s = true ∧ s.shutdown = false) ∨ ∃ c' ∈ s.cs, c'.pc = .freeBcastPush := by
  have hs : s.ws.any sleepPushW = true := List.any_eq_true.mpr ⟨_, hw, rfl⟩
  rcases (live_reachable ht hr).push.pushW hs with h | h
  · exact Or.inl h
  · obtain ⟨c', hc', hp'⟩ := List.any_eq_true.mp h
    refine Or.inr ⟨c', hc', ?_⟩
    rcases c' with ⟨pc, pr⟩
    cases pc <;> simp_all [pendPushC]

/-- **POOL_joinJobs sleeps only while work remains**: a client asleep inside POOL_joinJobs sees a non-empty queue or a busy
thread (the last completion broadcasts, so it cannot sleep through quiescence) -/
theorem blocked_join_justified {body t qs progs s} (ht : 0 < t) (hr : Reachable body (init t qs progs) s)
    (c : Client) (hc : c ∈ s.cs) (hpc : c.pc = .waitPush false) (rest : List COp) (hp : c.prog = .joinJobs :: rest) :
    s.q ≠ [] ∨ 0 < s.busy := by
  have hs : s.cs.any sleepJoinC = true := List.any_eq_true.mpr ⟨c, hc, by simp [sleepJoinC, hpc, hp, headJoin]⟩
  exact (live_reachable ht hr).push.pushJoin hs

/-- **progress while work is pending** (partial: stated for states in which no job body is itself blocked inside a POOL_add on
the pool that runs it - a client program that does that can deadlock the real pool as well): if a job is queued or running, some
worker has an enabled critical section, under every schedule. Together with `exactly_once` this is "every accepted job is
eventually executed" for every fair schedule. -/
theorem work_pending_progress_partial {body t qs progs s} (ht : 0 < t) (hr : Reachable body (init t qs progs) s)
    (hwork : s.q ≠ [] ∨ 0 < s.busy) (hnb : s.ws.any sleepPushW = false) :
    ∃ i sig, (step body s (.worker i sig)).isSome = true := by
  have hl := live_reachable ht hr
  have hi := inv_reachable hr
  obtain ⟨sig, hsig⟩ := exists_sig s
  -- an awake worker exists
  have hact : s.ws.any activeW = true := by
    by_cases hb : 0 < s.busy
    · have hb' := hi.busy
      have : 0 < s.ws.countP isRun := by omega
      obtain ⟨w, hw, hrun⟩ := List.countP_pos_iff.mp this
      exact List.any_eq_true.mpr ⟨w, hw, active_of_isRun hrun⟩
    · rcases hwork with hq | hb'
      · exact hl.core.pop hq (by have := hl.core.lim; omega)
      · exact absurd hb' hb
  obtain ⟨w, hw, ha⟩ := List.any_eq_true.mp hact
  obtain ⟨i, hi'⟩ := List.mem_iff_getElem?.mp hw
  have hp : sleepPushW w = false := by
    cases hx : sleepPushW w with
    | false => rfl
    | true => have : s.ws.any sleepPushW = true := List.any_eq_true.mpr ⟨w, hw, hx⟩; rw [hnb] at this; cases this
  have hrw : rwpOk w = true := List.all_eq_true.mp hl.core.rwp w hw
  refine ⟨i, sig, ?_⟩
  unfold step
  simp only [hsig, if_true]
  exact stepWorker_enabled body s i sig w hi' ha hp hrw

/-- **POOL_free cannot hang on the pool's account**: after `shutdown` is set, as long as some worker has not exited, either a
worker has an enabled critical section, or the freeing client still owes a broadcast (its next step), or a job body is blocked in
its own POOL_add. When every worker has exited the joining client's step is enabled (`free_joins_all`). -/
theorem shutdown_progress {body t qs progs s} (ht : 0 < t) (hr : Reachable body (init t qs progs) s)
    (hsh : s.shutdown = true) (w : WPc) (hw : w ∈ s.ws) (hne : isExited w = false) :
    (∃ i sig, (step body s (.worker i sig)).isSome = true) ∨ s.cs.any pendFreeC = true ∨ s.ws.any sleepPushW = true := by
  have hl := live_reachable ht hr
  obtain ⟨sig, hsig⟩ := exists_sig s
  by_cases hp : sleepPushW w = true
  · exact Or.inr (Or.inr (List.any_eq_true.mpr ⟨w, hw, hp⟩))
  · by_cases hsl : sleepPop w = true
    · exact Or.inr (Or.inl (hl.core.popShut hsh (List.any_eq_true.mpr ⟨w, hw, hsl⟩)))
    · have ha : activeW w = true := by
        cases w with
        | waitPop b => cases b <;> simp_all [sleepPop, activeW]
        | exited => simp [isExited] at hne
        | _ => rfl
      obtain ⟨i, hi'⟩ := List.mem_iff_getElem?.mp hw
      refine Or.inl ⟨i, sig, ?_⟩
      unfold step
      simp only [hsig, if_true]
      exact stepWorker_enabled body s i sig w hi' ha (by simpa using hp) (List.all_eq_true.mp hl.core.rwp w hw)

/-- the premises of the liveness theorems are met by real states: a client asleep in POOL_add on a full queue -/
example : ∃ s, runLabels (fun _ => []) (init 1 0 [[.add 1, .add 2]]) [.client 0 0, .client 0 0] = some s ∧
    s.cs.any sleepAddC = true ∧ isFull s = true := by
  refine ⟨_, rfl, by decide, by decide⟩

/-! Non-vacuity: a concrete schedule of a concrete program reaches a quiescent state with two accepted jobs. -/
example : (runLabels (fun _ => []) (init 1 0 [[.add 1, .add 2]])
    [.client 0 0, .worker 0 0, .worker 0 0, .client 0 0, .worker 0 0, .worker 0 0]).map (fun s => (s.accepted, s.finished, s.busy))
    = some ([1, 2], [1, 2], 0) := by decide

end ZstdVerif.Props.C12
