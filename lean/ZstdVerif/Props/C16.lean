/-
C16 — Parameter interface contract: bounds, stickiness, reset and stage rules.
Property theorems only.  All quantify over EVERY parameter row regenerated from the source
(`Gen.cparams ++ Gen.dparams`) and over EVERY integer value `v` (no grid).
-/
import ZstdVerif.Model.Params
import ZstdVerif.Model.LevelParams
import ZstdVerif.Lemmas.LevelParamsValid

namespace ZstdVerif.Props.C16
open ZstdVerif ZstdVerif.Gen ZstdVerif.Params

/-- Every generated row is well formed: its setter tests against its OWN advertised bounds and the
constants its class uses lie inside those bounds.  (Fails e.g. when a setter clamps with another
parameter's bounds.)  Finite table ⇒ `decide` is exhaustive. -/
theorem all_rows_wf : (cparams ++ dparams).all PInfo.wf = true := by decide

theorem wf_of_mem {p : PInfo} (h : p ∈ cparams ++ dparams) : p.wf = true :=
  List.all_eq_true.mp all_rows_wf p h

/-- (a) values inside the advertised bounds are accepted and read back as the documented normalised value -/
theorem set_in_bounds {p : PInfo} (hp : p ∈ cparams ++ dparams) (v : Int) (hlo : p.lo ≤ v) (hhi : v ≤ p.hi) :
    setVal p v = some (normalise p v) := by
  have hw := wf_of_mem hp
  unfold PInfo.wf at hw
  unfold setVal normalise clampC
  cases hc : p.cls <;> simp [hc] at hw ⊢ <;> (try split) <;> (try split) <;> (try split) <;> simp_all <;> omega

/-- (b) values outside the advertised bounds are rejected, or (clamping / boolean setters, and the
documented "0 = use default") stored as a value INSIDE the advertised bounds or as 0 = default marker -/
theorem set_out_of_bounds {p : PInfo} (hp : p ∈ cparams ++ dparams) (v : Int) (hout : v < p.lo ∨ p.hi < v) :
    setVal p v = none ∨
    (∃ w, setVal p v = some w ∧ ((p.lo ≤ w ∧ w ≤ p.hi) ∨ (zeroMeansDefault p = true ∧ v = 0 ∧ w = 0))) := by
  have hw := wf_of_mem hp
  unfold PInfo.wf at hw
  unfold setVal clampC zeroMeansDefault
  cases hc : p.cls <;> simp [hc] at hw ⊢ <;> (try split) <;> (try split) <;> (try split) <;> simp_all <;> omega

/-- the advertised bounds themselves are accepted (bounds are tight) -/
theorem bounds_are_tight {p : PInfo} (hp : p ∈ cparams ++ dparams) :
    (setVal p p.lo).isSome ∧ (setVal p p.hi).isSome := by
  have hw := wf_of_mem hp
  have hle : p.lo ≤ p.hi := by
    unfold PInfo.wf at hw; simp at hw; omega
  constructor
  · rw [set_in_bounds hp p.lo (Int.le_refl _) hle]; rfl
  · rw [set_in_bounds hp p.hi hle (Int.le_refl _)]; rfl

/-- (c) a rejected call changes nothing: `set` returns either an error (and there is no new state) or a state
that differs from the old one only at position `k` -/
theorem rejected_changes_nothing (ps : List PInfo) (isC : Bool) (s : Ctx) (k : Nat) (v : Int) :
    (∃ e, setParam ps isC s k v = .error e) ∨
    (∃ w, setParam ps isC s k v = .ok { s with vals := s.vals.set k w }) := by
  unfold setParam
  split
  · exact Or.inl ⟨_, rfl⟩
  · split
    · exact Or.inl ⟨_, rfl⟩
    · split
      · exact Or.inl ⟨_, rfl⟩
      · exact Or.inr ⟨_, rfl⟩

/-- no cross-talk: setting parameter `k` does not change what any other parameter reads back -/
theorem get_set_other (ps : List PInfo) (isC : Bool) (s s' : Ctx) (k j : Nat) (v : Int)
    (h : setParam ps isC s k v = .ok s') (hne : k ≠ j) : getParam s' j = getParam s j := by
  rcases rejected_changes_nothing ps isC s k v with ⟨e, he⟩ | ⟨w, hw⟩
  · rw [he] at h; cases h
  · rw [hw] at h; cases h
    simp [getParam, List.getElem?_set_ne hne]

/-- read-back: after an accepted `set k v` on an in-range value, `get k` returns the normalised value -/
theorem get_set_same (ps : List PInfo) (isC : Bool) (s s' : Ctx) (k : Nat) (v : Int) (p : PInfo)
    (hk : ps[k]? = some p) (hlen : k < s.vals.length) (hp : p ∈ cparams ++ dparams)
    (hlo : p.lo ≤ v) (hhi : v ≤ p.hi) (h : setParam ps isC s k v = .ok s') : getParam s' k = some (normalise p v) := by
  unfold setParam at h
  rw [hk] at h
  simp only [set_in_bounds hp v hlo hhi] at h
  split at h
  · cases h
  · cases h
    simp [getParam, hlen]

/-- (d) stickiness: starting a frame, ending it, and a session-only reset leave every stored value unchanged -/
theorem sticky (ps : List PInfo) (s : Ctx) :
    (startFrame s).vals = s.vals ∧ (endFrame s).vals = s.vals ∧
    (∃ s', reset ps s .session = .ok s' ∧ s'.vals = s.vals ∧ s'.started = false) := by
  exact ⟨rfl, rfl, ⟨_, rfl, rfl, rfl⟩⟩

/-- (e) a parameter reset restores every default and drops dictionaries; it is refused mid-frame -/
theorem reset_params_defaults (ps : List PInfo) (s : Ctx) :
    (s.started = false → reset ps s .parameters = .ok (fresh ps)) ∧
    (s.started = true → reset ps s .parameters = .error .stage) ∧
    reset ps s .sessionAndParameters = .ok (fresh ps) := by
  refine ⟨fun h => ?_, fun h => ?_, rfl⟩ <;> simp [reset, h, fresh]

/-- (f) mid-frame gate: during a frame, a parameter that is not update-authorised (and every
decompression parameter) is refused with a stage error — and, by `rejected_changes_nothing`, changes nothing -/
theorem midframe_gate (ps : List PInfo) (isC : Bool) (s : Ctx) (k : Nat) (v : Int) (p : PInfo)
    (hk : ps[k]? = some p) (hs : s.started = true) (hna : (isC && p.mid) = false) :
    setParam ps isC s k v = .error .stage := by
  unfold setParam; rw [hk]; simp [hs, hna]

/-- (f') a whole frame through a one-call entry point (`ZSTD_compressSequences`, `ZSTD_compress2`, …) leaves the context in the init
stage with every parameter and the dictionaries as they were: whatever was legal before the frame is legal after it -/
theorem wholeFrame_returns_to_init (s : Ctx) :
    (wholeFrame s).started = false ∧ (wholeFrame s).vals = s.vals ∧ (wholeFrame s).hasDict = s.hasDict := ⟨rfl, rfl, rfl⟩

theorem set_after_wholeFrame (ps : List PInfo) (isC : Bool) (s : Ctx) (k : Nat) (v : Int) (hs : s.started = false) :
    setParam ps isC (wholeFrame s) k v = setParam ps isC s k v := by
  have : wholeFrame s = s := by cases s; simp_all [wholeFrame, endFrame, startFrame]
  rw [this]

/-- (f'') once input has been accepted for a frame (`startFrame`: also the deferred start of stable-input mode), every init-stage-only
entry point is refused, and a refusal stores nothing -/
theorem initStageOnly_gate (s : Ctx) :
    (s.started = true → initStageOnly s = .error .stage ∧ loadDict s = .error .stage) ∧
    (s.started = false → initStageOnly s = .ok s) ∧ initStageOnly (startFrame s) = .error .stage := by
  refine ⟨fun h => ?_, fun h => ?_, rfl⟩ <;> simp [initStageOnly, loadDict, h]

/-- every row of `ZSTD_defaultCParameters[4][23]` (regenerated from clevels.h) passes `ZSTD_checkCParams` -/
theorem clevels_rows_valid : clevels.all (fun row => row.all checkCParams) = true := by decide

/-! Non-vacuity: the hypotheses are met by concrete rows / states. -/
example : (cparams ++ dparams).length = 45 := by decide
example : ∃ p ∈ cparams ++ dparams, p.name = "ZSTD_c_rsyncable" ∧ setVal p 5 = some 1 := by
  refine ⟨cparams[20], by decide, by decide, by decide⟩
example : ∃ p ∈ cparams ++ dparams, p.name = "ZSTD_c_windowLog" ∧ setVal p 9 = none ∧ setVal p 0 = some 0 := by
  refine ⟨cparams[1], by decide, by decide, by decide, by decide⟩
example : setParam cparams true (startFrame (fresh cparams)) 1 20 = .error .stage := by rfl


/-! ### struct-level setters (ZSTD_CCtx_setCParams / setFParams / setParams): all or nothing -/

/-- a parameter structure with any compression field outside its bounds is refused as a whole by ZSTD_CCtx_setParams - before the
frame parameters are touched: the model returns no new state at all (the driver keeps the old one, and the correspondence compares
the implementation's full parameter dump after the refused call with it) -/
theorem setParams_bad_cparams_rejected (ps : List PInfo) (s : Ctx) (cp fp : List Int) (h : checkCParamsStruct ps cp = false) :
    setParamsAll ps s cp fp = .error .outOfBound := by
  unfold setParamsAll; simp [h]

theorem setCParams_bad_rejected (ps : List PInfo) (s : Ctx) (cp : List Int) (h : checkCParamsStruct ps cp = false) :
    setCParams ps s cp = .error .outOfBound := by
  unfold setCParams; simp [h]

/-- whatever a sequence of single-parameter sets does, it never changes the frame-in-progress flag or the dictionary flag -/
theorem setSeq_keeps_stage (ps : List PInfo) (kvs : List (Nat × Int)) (s s' : Ctx) (h : setSeq ps s kvs = .ok s') :
    s'.started = s.started ∧ s'.hasDict = s.hasDict := by
  induction kvs generalizing s with
  | nil => simp [setSeq] at h; cases h; exact ⟨rfl, rfl⟩
  | cons kv rest ih =>
    rcases kv with ⟨id, v⟩
    unfold setSeq at h
    split at h
    · cases h
    · rename_i k hk
      split at h
      · cases h
      · rename_i s1 h1
        have := ih s1 h
        unfold setParam at h1
        split at h1
        · cases h1
        · split at h1
          · cases h1
          · split at h1
            · cases h1
            · cases h1; exact this

example : checkCParamsStruct cparams [0, 10, 10, 1, 4, 1, 1] = false ∧ checkCParamsStruct cparams [17, 10, 10, 1, 4, 1, 1] = true := by decide


/-! ### contexts in caller-provided memory (ZSTD_initStaticCCtx / ZSTD_initStaticDCtx) -/

/-- (c) on a static context too a rejected call changes nothing: an error (no new state), or the old state changed at position `k` only -/
theorem static_rejected_changes_nothing (ps : List PInfo) (isC : Bool) (s : Ctx) (k : Nat) (v : Int) :
    (∃ e, LevelParams.setParamStatic ps isC s k v = .error e) ∨
    (∃ w, LevelParams.setParamStatic ps isC s k v = .ok { s with vals := s.vals.set k w }) := by
  unfold LevelParams.setParamStatic
  split
  · exact Or.inl ⟨_, rfl⟩
  · split
    · exact Or.inl ⟨_, rfl⟩
    · split
      · exact Or.inl ⟨_, rfl⟩
      · split
        · exact Or.inl ⟨_, rfl⟩
        · split
          · exact Or.inl ⟨_, rfl⟩
          · exact Or.inr ⟨_, rfl⟩

/-- a static CCtx refuses every non-zero ZSTD_c_nbWorkers AT THE SETTER (outside a frame: parameter_unsupported; inside: the stage gate
answers first) - whatever the value, in or out of the advertised bounds; by `static_rejected_changes_nothing` nothing is stored, so no
later frame can meet a worker count the context cannot serve -/
theorem static_nbWorkers_refused (ps : List PInfo) (s : Ctx) (k : Nat) (p : PInfo) (v : Int)
    (hk : ps[k]? = some p) (hid : p.id = LevelParams.idNbWorkers) (hv : v ≠ 0) :
    LevelParams.setParamStatic ps true s k v = .error (if s.started && !p.mid then .stage else .unsupported) := by
  unfold LevelParams.setParamStatic
  rw [hk]
  cases hs : (s.started && !p.mid) <;> simp_all

/-- every other compression parameter behaves on a static CCtx exactly as on a heap CCtx (same acceptance, same stored value, same error) -/
theorem static_cctx_agrees_elsewhere (ps : List PInfo) (s : Ctx) (k : Nat) (p : PInfo) (v : Int)
    (hk : ps[k]? = some p) (hid : p.id ≠ LevelParams.idNbWorkers ∨ v = 0) :
    LevelParams.setParamStatic ps true s k v = setParam ps true s k v := by
  have hcond : (true && p.id == LevelParams.idNbWorkers && decide (v ≠ 0)) = false := by
    rcases hid with h | h
    · have : (p.id == LevelParams.idNbWorkers) = false := by simpa using h
      simp [this]
    · simp [h]
  unfold LevelParams.setParamStatic setParam
  rw [hk]
  simp only [hcond]
  cases hst : (s.started && !(true && p.mid))
  · cases hsv : setVal p v <;> simp
  · simp

example : ∃ k p, cparams[k]? = some p ∧ p.id = LevelParams.idNbWorkers ∧
    LevelParams.setParamStatic cparams true (fresh cparams) k 2 = .error .unsupported ∧ (∃ c, setParam cparams true (fresh cparams) k 2 = .ok c) := by
  refine ⟨17, cparams[17], by decide, by decide, by rfl, ⟨_, rfl⟩⟩

/-! ### raw compression levels (entry points that do not go through the setter's clamp) -/

/-- however small a negative raw level is (down to INT_MIN and beyond), the acceleration factor it stands for lies inside the advertised
bounds of ZSTD_c_targetLength -/
theorem accel_in_bounds (level : Int) (h : level < 0) : within cparams 106 (LevelParams.accel level) = true := by
  have hb : boundsOfId cparams 106 = some ((ZSTD_TARGETLENGTH_MIN : Int), (ZSTD_TARGETLENGTH_MAX : Int)) := by decide
  have hm : minCLevel = -((ZSTD_TARGETLENGTH_MAX : Nat) : Int) := by decide
  unfold within
  rw [hb]
  simp only [LevelParams.accel, hm, ZSTD_TARGETLENGTH_MIN, ZSTD_TARGETLENGTH_MAX]
  simp
  omega

/-- levels outside [ZSTD_minCLevel(), ZSTD_maxCLevel()] stand for the nearest bound: same table row, same acceleration -/
theorem level_below_min_is_min (level : Int) (h : level ≤ minCLevel) :
    LevelParams.rowOfLevel level = LevelParams.rowOfLevel minCLevel ∧ LevelParams.accel level = LevelParams.accel minCLevel := by
  have hm : minCLevel < 0 := by decide
  constructor
  · unfold LevelParams.rowOfLevel
    have h1 : level < 0 := by omega
    have h2 : level ≠ 0 := by omega
    have h3 : minCLevel ≠ 0 := by omega
    simp [h1, h2, h3, hm]
  · unfold LevelParams.accel
    rw [Int.max_eq_left h, Int.max_self]

theorem level_above_max_is_max (level : Int) (h : (ZSTD_MAX_CLEVEL : Int) ≤ level) :
    LevelParams.rowOfLevel level = ZSTD_MAX_CLEVEL := by
  unfold LevelParams.rowOfLevel
  have h0 : (0 : Int) < (ZSTD_MAX_CLEVEL : Int) := by decide
  have h1 : ¬ level < 0 := by omega
  have h2 : level ≠ 0 := by omega
  by_cases h3 : level > (ZSTD_MAX_CLEVEL : Int)
  · simp [h1, h2, h3]
  · have : level = (ZSTD_MAX_CLEVEL : Int) := by omega
    subst this
    decide

/-- the row a raw level selects always exists in the 23-row level tables -/
theorem rowOfLevel_in_table (level : Int) : LevelParams.rowOfLevel level ≤ ZSTD_MAX_CLEVEL := by
  unfold LevelParams.rowOfLevel
  have hd : ZSTD_CLEVEL_DEFAULT.toNat ≤ ZSTD_MAX_CLEVEL := by decide
  split
  · exact hd
  · split
    · exact Nat.zero_le _
    · split
      · exact Nat.le_refl _
      · omega

/-- "level -> parameter tables and adjustment never produce out-of-range values": ZSTD_adjustCParams_internal keeps a structure that
passes ZSTD_checkCParams valid, for every source size, dictionary size, mode and row-finder switch -/
theorem adjust_preserves_valid (c : CPar) (src dict : Nat) (mode : LevelParams.CPMode) (rowMode : Nat) (h : checkCParams c = true) :
    checkCParams (LevelParams.adjust c src dict mode rowMode) = true :=
  (LevelParams.check_iff _).2 (LevelParams.adjust_preserves_valid c src dict mode rowMode ((LevelParams.check_iff _).1 h))

/-- ZSTD_getCParams_internal (behind ZSTD_compress, ZSTD_compressCCtx, ZSTD_compress_usingDict, ZSTD_compressBegin[_usingDict], ZSTD_estimate*):
EVERY integer level - INT_MIN, below ZSTD_minCLevel(), above ZSTD_maxCLevel() included - with every source and dictionary size derives
compression parameters that pass ZSTD_checkCParams -/
theorem raw_level_derivation_valid (level : Int) (src dict : Nat) (mode : LevelParams.CPMode) :
    checkCParams (LevelParams.getCParamsInternal level src dict mode) = true :=
  (LevelParams.check_iff _).2 (LevelParams.getCParamsInternal_inBounds level src dict mode)

/-- the public ZSTD_getCParams / ZSTD_getParams -/
theorem public_getCParams_valid (level : Int) (src dict : Nat) : checkCParams (LevelParams.getCParamsPublic level src dict) = true :=
  raw_level_derivation_valid level _ dict .unknown

/-- ZSTD_getCParamsFromCCtxParams (every advanced / streaming frame start): any stored level, explicit parameters as the setters leave them -/
theorem cctxParams_derivation_valid (level : Int) (ov : CPar) (ldmOn : Bool) (hint src dict : Nat) (mode : LevelParams.CPMode) (rowMode : Nat)
    (ho : LevelParams.OvOk ov) : checkCParams (LevelParams.fromCCtxParams level ov ldmOn hint src dict mode rowMode) = true :=
  (LevelParams.check_iff _).2 (LevelParams.fromCCtxParams_inBounds level ov ldmOn hint src dict mode rowMode ho)

/-- ZSTD_createCDict / ZSTD_createCDict_byReference -/
theorem createCDict_derivation_valid (level : Int) (dictSize : Nat) : checkCParams (LevelParams.createCDictCParams level dictSize) = true :=
  (LevelParams.check_iff _).2 (LevelParams.createCDict_inBounds level dictSize)

example : LevelParams.OvOk LevelParams.noOverride := by
  refine ⟨Or.inl rfl, Or.inl rfl, Or.inl rfl, Or.inl rfl, Or.inl rfl, by decide, Or.inl rfl⟩
example : (LevelParams.getCParamsPublic (-2147483648) 0 0).targetLength = 131072 ∧ (LevelParams.getCParamsPublic 3 0 0).windowLog = 21 := by decide

example : LevelParams.accel (-2147483648) = 131072 ∧ LevelParams.accel (-5) = 5 ∧ LevelParams.rowOfLevel 2147483647 = 22 := by decide

end ZstdVerif.Props.C16
