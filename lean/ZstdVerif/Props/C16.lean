/-
C16 — Parameter interface contract: bounds, stickiness, reset and stage rules.
Property theorems only.  All quantify over EVERY parameter row regenerated from the source
(`Gen.cparams ++ Gen.dparams`) and over EVERY integer value `v` (no grid).
-/
import ZstdVerif.Model.Params

namespace ZstdVerif.Props.C16
open ZstdVerif ZstdVerif.Gen ZstdVerif.Params

/-- Every generated row is well formed: its setter tests against its OWN advertised bounds and the
constants its class uses lie inside those bounds.  (Fails e.g. when a setter clamps with another
parameter's bounds.)  Finite table ⇒ `decide` is exhaustive. -/
theorem all_rows_wf : (cparams ++ dparams).all PInfo.wf = true := by decide

theorem wf_of_mem {p : PInfo} (h : p ∈ cparams ++ dparams) : p.wf = true :=
  List.all_eq_true.mp all_rows_wf p h

/-- (a) values inside the advertised bounds are accepted and read back as the documented normalised value -/
theorem set_in_bounds {p : PInfo} (hp : p ∈ cparams ++ dparams) (v : Int) (hlo : p.lo ≤ v) (hhi : v ≤ p.hi) :
    setVal p v = some (normalise p v) := by
  have hw := wf_of_mem hp
  unfold PInfo.wf at hw
  unfold setVal normalise clampC
  cases hc : p.cls <;> simp [hc] at hw ⊢ <;> (try split) <;> (try split) <;> (try split) <;> simp_all <;> omega

/-- (b) values outside the advertised bounds are rejected, or (clamping / boolean setters, and the
documented "0 = use default") stored as a value INSIDE the advertised bounds or as 0 = default marker -/
theorem set_out_of_bounds {p : PInfo} (hp : p ∈ cparams ++ dparams) (v : Int) (hout : v < p.lo ∨ p.hi < v) :
    setVal p v = none ∨
    (∃ w, setVal p v = some w ∧ ((p.lo ≤ w ∧ w ≤ p.hi) ∨ (zeroMeansDefault p = true ∧ v = 0 ∧ w = 0))) := by
  have hw := wf_of_mem hp
  unfold PInfo.wf at hw
  unfold setVal clampC zeroMeansDefault
  cases hc : p.cls <;> simp [hc] at hw ⊢ <;> (try split) <;> (try split) <;> (try split) <;> simp_all <;> omega

/-- the advertised bounds themselves are accepted (bounds are tight) -/
theorem bounds_are_tight {p : PInfo} (hp : p ∈ cparams ++ dparams) :
    (setVal p p.lo).isSome ∧ (setVal p p.hi).isSome := by
  have hw := wf_of_mem hp
  have hle : p.lo ≤ p.hi := by
    unfold PInfo.wf at hw; simp at hw; omega
  constructor
  · rw [set_in_bounds hp p.lo (Int.le_refl _) hle]; rfl
  · rw [set_in_bounds hp p.hi hle (Int.le_refl _)]; rfl

/-- (c) a rejected call changes nothing: `set` returns either an error (and there is no new state) or a state
that differs from the old one only at position `k` -/
theorem rejected_changes_nothing (ps : List PInfo) (isC : Bool) (s : Ctx) (k : Nat) (v : Int) :
    (∃ e, setParam ps isC s k v = .error e) ∨
    (∃ w, setParam ps isC s k v = .ok { s with vals := s.vals.set k w }) := by
  unfold setParam
  split
  · exact Or.inl ⟨_, rfl⟩
  · split
    · exact Or.inl ⟨_, rfl⟩
    · split
      · exact Or.inl ⟨_, rfl⟩
      · exact Or.inr ⟨_, rfl⟩

/-- no cross-talk: setting parameter `k` does not change what any other parameter reads back -/
theorem get_set_other (ps : List PInfo) (isC : Bool) (s s' : Ctx) (k j : Nat) (v : Int)
    (h : setParam ps isC s k v = .ok s') (hne : k ≠ j) : getParam s' j = getParam s j := by
  rcases rejected_changes_nothing ps isC s k v with ⟨e, he⟩ | ⟨w, hw⟩
  · rw [he] at h; cases h
  · rw [hw] at h; cases h
    simp [getParam, List.getElem?_set_ne hne]

/-- read-back: after an accepted `set k v` on an in-range value, `get k` returns the normalised value -/
theorem get_set_same (ps : List PInfo) (isC : Bool) (s s' : Ctx) (k : Nat) (v : Int) (p : PInfo)
    (hk : ps[k]? = some p) (hlen : k < s.vals.length) (hp : p ∈ cparams ++ dparams)
    (hlo : p.lo ≤ v) (hhi : v ≤ p.hi) (h : setParam ps isC s k v = .ok s') : getParam s' k = some (normalise p v) := by
  unfold setParam at h
  rw [hk] at h
  simp only [set_in_bounds hp v hlo hhi] at h
  split at h
  · cases h
  · cases h
    simp [getParam, hlen]

/-- (d) stickiness: starting a frame, ending it, and a session-only reset leave every stored value unchanged -/
theorem sticky (ps : List PInfo) (s : Ctx) :
    (startFrame s).vals = s.vals ∧ (endFrame s).vals = s.vals ∧
    (∃ s', reset ps s .session = .ok s' ∧ s'.vals = s.vals ∧ s'.started = false) := by
  exact ⟨rfl, rfl, ⟨_, rfl, rfl, rfl⟩⟩

/-- (e) a parameter reset restores every default and drops dictionaries; it is refused mid-frame -/
theorem reset_params_defaults (ps : List PInfo) (s : Ctx) :
    (s.started = false → reset ps s .parameters = .ok (fresh ps)) ∧
    (s.started = true → reset ps s .parameters = .error .stage) ∧
    reset ps s .sessionAndParameters = .ok (fresh ps) := by
  refine ⟨fun h => ?_, fun h => ?_, rfl⟩ <;> simp [reset, h, fresh]

/-- (f) mid-frame gate: during a frame, a parameter that is not update-authorised (and every
decompression parameter) is refused with a stage error — and, by `rejected_changes_nothing`, changes nothing -/
theorem midframe_gate (ps : List PInfo) (isC : Bool) (s : Ctx) (k : Nat) (v : Int) (p : PInfo)
    (hk : ps[k]? = some p) (hs : s.started = true) (hna : (isC && p.mid) = false) :
    setParam ps isC s k v = .error .stage := by
  unfold setParam; rw [hk]; simp [hs, hna]

/-- every row of `ZSTD_defaultCParameters[4][23]` (regenerated from clevels.h) passes `ZSTD_checkCParams` -/
theorem clevels_rows_valid : clevels.all (fun row => row.all checkCParams) = true := by decide

/-! Non-vacuity: the hypotheses are met by concrete rows / states. -/
example : (cparams ++ dparams).length = 45 := by decide
example : ∃ p ∈ cparams ++ dparams, p.name = "ZSTD_c_rsyncable" ∧ setVal p 5 = some 1 := by
  refine ⟨cparams[20], by decide, by decide, by decide⟩
example : ∃ p ∈ cparams ++ dparams, p.name = "ZSTD_c_windowLog" ∧ setVal p 9 = none ∧ setVal p 0 = some 0 := by
  refine ⟨cparams[1], by decide, by decide, by decide, by decide⟩
example : setParam cparams true (startFrame (fresh cparams)) 1 20 = .error .stage := by rfl


/-! ### struct-level setters (ZSTD_CCtx_setCParams / setFParams / setParams): all or nothing -/

/-- a parameter structure with any compression field outside its bounds is refused as a whole by ZSTD_CCtx_setParams - before the
frame parameters are touched: the model returns no new state at all (the driver keeps the old one, and the correspondence compares
the implementation's full parameter dump after the refused call with it) -/
theorem setParams_bad_cparams_rejected (ps : List PInfo) (s : Ctx) (cp fp : List Int) (h : checkCParamsStruct ps cp = false) :
    setParamsAll ps s cp fp = .error .outOfBound := by
  unfold setParamsAll; simp [h]

theorem setCParams_bad_rejected (ps : List PInfo) (s : Ctx) (cp : List Int) (h : checkCParamsStruct ps cp = false) :
    setCParams ps s cp = .error .outOfBound := by
  unfold setCParams; simp [h]

/-- whatever a sequence of single-parameter sets does, it never changes the frame-in-progress flag or the dictionary flag -/
theorem setSeq_keeps_stage (ps : List PInfo) (kvs : List (Nat × Int)) (s s' : Ctx) (h : setSeq ps s kvs = .ok s') :
    s'.started = s.started ∧ s'.hasDict = s.hasDict := by
  induction kvs generalizing s with
  | nil => simp [setSeq] at h; cases h; exact ⟨rfl, rfl⟩
  | cons kv rest ih =>
    rcases kv with ⟨id, v⟩
    unfold setSeq at h
    split at h
    · cases h
    · rename_i k hk
      split at h
      · cases h
      · rename_i s1 h1
        have := ih s1 h
        unfold setParam at h1
        split at h1
        · cases h1
        · split at h1
          · cases h1
          · split at h1
            · cases h1
            · cases h1; exact this

example : checkCParamsStruct cparams [0, 10, 10, 1, 4, 1, 1] = false ∧ checkCParamsStruct cparams [17, 10, 10, 1, 4, 1, 1] = true := by decide

end ZstdVerif.Props.C16
