/-
C10 — streaming calls always progress, and a completed flush is decodable.
(c) the decoder's input pacing: fed exactly what it asks for, it asks for exactly the frame, never beyond it.
-/
import ZstdVerif.Model.Stream
import ZstdVerif.Lemmas.DStreamRT
namespace ZstdVerif.Props.C10
open ZstdVerif.Stream

theorem go_sum (ck : Bool) (bs : List Nat) (h : bs ≠ []) :
    (hints.go ⟨false, 0, [], ck, 0⟩ bs).sum = (bs.map (· + 3)).sum - 3 + (if ck then 4 else 0) := by
  induction bs with
  | nil => exact absurd rfl h
  | cons c rest ih =>
    cases rest with
    | nil => cases ck <;> by_cases hc : c = 0 <;> simp [hints.go, hc]
    | cons d rest' =>
      have := ih (by simp)
      simp only [hints.go, List.sum_cons, List.map_cons] at this ⊢
      omega

/-- the helper does not depend on the frame fields other than the checksum flag -/
theorem go_congr (f : FrameShape) (bs : List Nat) : hints.go f bs = hints.go ⟨false, 0, [], f.checksum, 0⟩ bs := by
  induction bs with
  | nil => rfl
  | cons c rest ih =>
    cases rest with
    | nil => simp [hints.go]
    | cons d r => simp only [hints.go]; rw [ih]

/-- **(c) following the hints consumes exactly the frame**: the requested sizes add up to the compressed size of the
frame (zstd frames with at least one block and a header of at least 5 bytes; skippable frames with their 8-byte header) -/
theorem hints_sum_eq_frameSize (f : FrameShape) (hb : f.blocks ≠ []) (hh : 5 ≤ f.headerSize) (hs : f.skippable = true → f.headerSize = 8) :
    (hints f).sum = frameSize f := by
  unfold hints frameSize
  split
  · rename_i hsk
    have := hs hsk
    split <;> simp <;> omega
  · rw [go_congr]
    simp only [List.sum_append, List.sum_cons, List.sum_nil]
    rw [go_sum f.checksum f.blocks hb]
    have : 3 ≤ (f.blocks.map (· + 3)).sum := by
      cases hbl : f.blocks with
      | nil => exact absurd hbl hb
      | cons c r => simp; omega
    omega

theorem take_sum_le (l : List Nat) (k : Nat) : (l.take k).sum ≤ l.sum := by
  induction l generalizing k with
  | nil => simp
  | cons a t ih =>
    cases k with
    | zero => simp
    | succ k => simp only [List.take_succ_cons, List.sum_cons]; have := ih k; omega

/-- **never beyond the frame**: every request, counted from the start of the frame, ends inside the frame — a consequence of
the sum law, stated for every prefix of the request sequence -/
theorem hints_within_frame (f : FrameShape) (hb : f.blocks ≠ []) (hh : 5 ≤ f.headerSize) (hs : f.skippable = true → f.headerSize = 8)
    (k : Nat) : ((hints f).take k).sum ≤ frameSize f := by
  rw [← hints_sum_eq_frameSize f hb hh hs]
  exact take_sum_le (hints f) k

example : hints ⟨false, 7, [845], true, 0⟩ = [5, 5, 845, 4] := by decide
example : hints ⟨true, 8, [0], false, 0⟩ = [5, 3] := by decide


/-! ### (a) every decoding call makes progress (model of ZSTD_decompressStream, tied call by call to the real code) -/

open DStream in
/-- **dstream_progress**: a call that is offered input and output room, on a well-formed stream, consumes or produces at least one byte
unless it reports an error -/
theorem dstream_progress (all : List FrameD) (hok : AllOk all) (s : State) (hinv : Inv all s) (inAvail outCap : Nat)
    (hlim : s.totalIn + inAvail ≤ sizeAll all) (hi : 0 < inAvail) (ho : 0 < outCap)
    (hne : ∀ e, (step s inAvail outCap).2.ret ≠ .err e) :
    0 < (step s inAvail outCap).2.consumed ∨ 0 < (step s inAvail outCap).2.produced :=
  DStream.progress_input all hok s hinv inAvail outCap hlim hi ho hne

open DStream in
/-- **dstream_no_livelock**: such a call strictly decreases the remaining work `(input left) + (output left)` ... -/
theorem dstream_no_livelock (all : List FrameD) (hok : AllOk all) (s : State) (hinv : Inv all s) (inAvail outCap : Nat)
    (hlim : s.totalIn + inAvail ≤ sizeAll all) (hi : 0 < inAvail) (ho : 0 < outCap)
    (hne : ∀ e, (step s inAvail outCap).2.ret ≠ .err e) :
    slack all (step s inAvail outCap).1 < slack all s :=
  DStream.no_livelock all hok s hinv inAvail outCap hlim hi ho hne

open DStream in
/-- ... hence ANY history of such calls is at most `compressed size + content size` calls long: the decoder cannot be kept busy forever -/
theorem dstream_calls_bounded (all : List FrameD) (hok : AllOk all) (io : List (Nat × Nat)) (s : State) (hinv : Inv all s)
    (hf : Feasible all s io) (hoff : Offered io) : io.length ≤ slack all s :=
  DStream.calls_bounded all hok io s hinv hf hoff

end ZstdVerif.Props.C10
