/-
C10 — streaming calls always progress, and a completed flush is decodable.
(c) the decoder's input pacing: fed exactly what it asks for, it asks for exactly the frame, never beyond it
    (`hints_sum_eq_frameSize` on the pacing specification; `dstream_hint_exact`, `dstream_hint_never_beyond_frame` on the model of the real function).
-/
import ZstdVerif.Model.Stream
import ZstdVerif.Lemmas.DStreamRT
import ZstdVerif.Lemmas.DStreamHint
import ZstdVerif.Lemmas.DStreamRing
import ZstdVerif.Lemmas.DStreamTotal
import ZstdVerif.Lemmas.CStreamRT
namespace ZstdVerif.Props.C10
open ZstdVerif.Stream

theorem go_sum (ck : Bool) (bs : List Nat) (h : bs ≠ []) :
    (hints.go ⟨false, 0, [], ck, 0⟩ bs).sum = (bs.map (· + 3)).sum - 3 + (if ck then 4 else 0) := by
  induction bs with
  | nil => exact absurd rfl h
  | cons c rest ih =>
    cases rest with
    | nil => cases ck <;> by_cases hc : c = 0 <;> simp [hints.go, hc]
    | cons d rest' =>
      have := ih (by simp)
      simp only [hints.go, List.sum_cons, List.map_cons] at this ⊢
      omega

/-- the helper does not depend on the frame fields other than the checksum flag -/
theorem go_congr (f : FrameShape) (bs : List Nat) : hints.go f bs = hints.go ⟨false, 0, [], f.checksum, 0⟩ bs := by
  induction bs with
  | nil => rfl
  | cons c rest ih =>
    cases rest with
    | nil => simp [hints.go]
    | cons d r => simp only [hints.go]; rw [ih]

/-- **(c) following the hints consumes exactly the frame**: the requested sizes add up to the compressed size of the
frame (zstd frames with at least one block and a header of at least 5 bytes; skippable frames with their 8-byte header) -/
theorem hints_sum_eq_frameSize (f : FrameShape) (hb : f.blocks ≠ []) (hh : 5 ≤ f.headerSize) (hs : f.skippable = true → f.headerSize = 8) :
    (hints f).sum = frameSize f := by
  unfold hints frameSize
  split
  · rename_i hsk
    have := hs hsk
    split <;> simp <;> omega
  · rw [go_congr]
    simp only [List.sum_append, List.sum_cons, List.sum_nil]
    rw [go_sum f.checksum f.blocks hb]
    have : 3 ≤ (f.blocks.map (· + 3)).sum := by
      cases hbl : f.blocks with
      | nil => exact absurd hbl hb
      | cons c r => simp; omega
    omega

theorem take_sum_le (l : List Nat) (k : Nat) : (l.take k).sum ≤ l.sum := by
  induction l generalizing k with
  | nil => simp
  | cons a t ih =>
    cases k with
    | zero => simp
    | succ k => simp only [List.take_succ_cons, List.sum_cons]; have := ih k; omega

/-- **never beyond the frame**: every request, counted from the start of the frame, ends inside the frame — a consequence of
the sum law, stated for every prefix of the request sequence -/
theorem hints_within_frame (f : FrameShape) (hb : f.blocks ≠ []) (hh : 5 ≤ f.headerSize) (hs : f.skippable = true → f.headerSize = 8)
    (k : Nat) : ((hints f).take k).sum ≤ frameSize f := by
  rw [← hints_sum_eq_frameSize f hb hh hs]
  exact take_sum_le (hints f) k

example : hints ⟨false, 7, [845], true, 0⟩ = [5, 5, 845, 4] := by decide
example : hints ⟨true, 8, [0], false, 0⟩ = [5, 3] := by decide


/-! ### (a) every decoding call makes progress (model of ZSTD_decompressStream, tied call by call to the real code) -/

open DStream in
/-- **dstream_progress**: a call that is offered input and output room, on a well-formed stream, consumes or produces at least one byte
unless it reports an error -/
theorem dstream_progress (all : List FrameD) (hok : AllOk all) (s : State) (hinv : Inv all s) (inAvail outCap : Nat)
    (hlim : s.totalIn + inAvail ≤ sizeAll all) (hi : 0 < inAvail) (ho : 0 < outCap)
    (hne : ∀ e, (step s inAvail outCap).2.ret ≠ .err e) :
    0 < (step s inAvail outCap).2.consumed ∨ 0 < (step s inAvail outCap).2.produced :=
  DStream.progress_input all hok s hinv inAvail outCap hlim hi ho hne

open DStream in
/-- **dstream_no_livelock**: such a call strictly decreases the remaining work `(input left) + (output left)` ... -/
theorem dstream_no_livelock (all : List FrameD) (hok : AllOk all) (s : State) (hinv : Inv all s) (inAvail outCap : Nat)
    (hlim : s.totalIn + inAvail ≤ sizeAll all) (hi : 0 < inAvail) (ho : 0 < outCap)
    (hne : ∀ e, (step s inAvail outCap).2.ret ≠ .err e) :
    slack all (step s inAvail outCap).1 < slack all s :=
  DStream.no_livelock all hok s hinv inAvail outCap hlim hi ho hne

open DStream in
/-- ... hence ANY history of such calls is at most `compressed size + content size` calls long: the decoder cannot be kept busy forever -/
theorem dstream_calls_bounded (all : List FrameD) (hok : AllOk all) (io : List (Nat × Nat)) (s : State) (hinv : Inv all s)
    (hf : Feasible all s io) (hoff : Offered io) : io.length ≤ slack all s :=
  DStream.calls_bounded all hok io s hinv hf hoff


open DStream in
/-- **dstream_progress_output**: a call made while decoded output is pending (stage zdss_flush, `outStart < outEnd`) and with at least one byte
of output room hands over at least one byte unless it reports an error - even when NO input is offered (`inAvail = 0`): pending output never
waits for more input.  (With `outCap = 0` a call may report consumed = 0 although it took a byte: the last byte of a frame is withheld,
`hostageByte`, until the output is flushed - hence `0 < outCap`.) -/
theorem dstream_progress_output (all : List FrameD) (hok : AllOk all) (s : State) (hinv : Inv all s) (inAvail outCap : Nat)
    (hlim : s.totalIn + inAvail ≤ sizeAll all) (hss : s.ss = .flush) (hpend : s.outStart < s.outEnd) (ho : 0 < outCap)
    (hne : ∀ e, (step s inAvail outCap).2.ret ≠ .err e) : 0 < (step s inAvail outCap).2.produced :=
  DStream.progress_output all hok s hinv inAvail outCap hlim hss hpend ho hne

open DStream in
/-- non-vacuity: on the 35-byte stream `[exFrame]`, a first call with 3 bytes of output room leaves 2 bytes of the first block pending in
zdss_flush; the next call, offered no input at all, produces them -/
example : (step (step (State.start [exFrame]) 35 3).1 0 10).2.produced = 2 := by decide +kernel

open DStream in
/-- **dstream_no_internal_error**: on a well-formed stream a call never reports CORRUPTION (stage zdss_load: the stage's input would not fit the
input buffer - `inBuff` is sized max(blockSizeMax, 4) and every stage of a well-formed frame fits it) nor GENERIC (the model's loop fuel
`2 * inAvail + 4` is never exhausted: every turn of the loop takes input, or is a flush turn followed by one that does); the invariant
`BufInv` it needs holds at the start (`buf_start`) and is kept by every call, hence after every feasible history (`buf_reachable`) -/
theorem dstream_no_internal_error (all : List FrameD) (hok : AllOk all) (s : State) (hinv : Inv all s) (bi : BufInv s)
    (inAvail outCap : Nat) (hlim : s.totalIn + inAvail ≤ sizeAll all) :
    BufInv (step s inAvail outCap).1 ∧ (step s inAvail outCap).2.ret ≠ .err .corruption ∧
    (step s inAvail outCap).2.ret ≠ .err .generic :=
  DStream.step_total all hok s hinv bi inAvail outCap hlim

open DStream in
/-- **dstream_no_error**: on a well-formed stream whose windows the decoder accepts, a call that is offered at least one byte of input (within the
stream) and one byte of output room reports NO error at all: the "unless it reports an error" clauses of `dstream_progress`, `dstream_no_livelock`
are vacuous for such calls (the no-forward-progress errors need an idle call, the window refusal a window beyond the limit) -/
theorem dstream_no_error (all : List FrameD) (hok : AllOk all) (m : Nat) (hwin : WindowsOk all m) (s : State) (hinv : Inv all s)
    (bi : BufInv s) (hmw : s.maxWindowSize = m) (inAvail outCap : Nat) (hlim : s.totalIn + inAvail ≤ sizeAll all)
    (hi : 0 < inAvail) (ho : 0 < outCap) : ∀ e, (step s inAvail outCap).2.ret ≠ .err e :=
  DStream.step_no_error all hok m hwin s hinv bi hmw inAvail outCap hlim hi ho

open DStream in
/-- **dstream_calls_bounded_offered**: hence, from a fresh context, ANY session whose calls each offer input (within the stream) and output room
is at most `compressed size + content size` calls long - no hypothesis on the calls' outcomes -/
theorem dstream_calls_bounded_offered (all : List FrameD) (hok : AllOk all) (hwin : WindowsOk all ZSTD_MAXWINDOWSIZE_DEFAULT)
    (io : List (Nat × Nat)) (hw : Within all (State.start all) io) (hoff : Offered io) :
    io.length ≤ sizeAll all + regenAll all :=
  DStream.calls_bounded_offered all hok hwin io hw hoff

open DStream in
/-- **dstream_progress_output_total**: `dstream_progress_output` without its "unless it reports an error" clause - in a state reached by a
feasible history (`Inv`, `BufInv`), a call made while output is pending, with output room, hands over at least one byte AND reports no error -/
theorem dstream_progress_output_total (all : List FrameD) (hok : AllOk all) (s : State) (hinv : Inv all s) (bi : BufInv s)
    (inAvail outCap : Nat) (hlim : s.totalIn + inAvail ≤ sizeAll all) (hss : s.ss = .flush) (hpend : s.outStart < s.outEnd)
    (ho : 0 < outCap) : 0 < (step s inAvail outCap).2.produced ∧ ∀ e, (step s inAvail outCap).2.ret ≠ .err e :=
  DStream.progress_output_total all hok s hinv bi inAvail outCap hlim hss hpend ho

open DStream in
/-- non-vacuity of `dstream_progress_output_total`: its hypotheses hold in the state `[exFrame]` is left in by a first call with 3 bytes of room -/
example : 0 < (step (after (State.start [exFrame]) [(35, 3)]) 0 10).2.produced ∧
    ∀ e, (step (after (State.start [exFrame]) [(35, 3)]) 0 10).2.ret ≠ .err e := by
  have hok : AllOk [exFrame] := fun f hf => by
    have : f = exFrame := by simpa using hf
    subst this; decide
  have hf : Feasible [exFrame] (State.start [exFrame]) [(35, 3)] :=
    ⟨by decide, (fun e h => by rw [show (step (State.start [exFrame]) 35 3).2.ret = .hint 3 by decide +kernel] at h; cases h), trivial⟩
  obtain ⟨hi, hb⟩ := buf_reachable [exFrame] hok [(35, 3)] hf
  exact dstream_progress_output_total [exFrame] hok _ hi hb 0 10 (by decide +kernel) (by decide +kernel) (by decide +kernel) (by decide)

open DStream in
/-- **dstream_hint_exact** - (c) for the model of the real function: the return value of `ZSTD_decompressStream` is a truthful input-size hint.
On a well-formed single frame `f` whose window the decoder accepts (`windowSize ≤ ZSTD_MAXWINDOWSIZE_DEFAULT` = 2^27 + 1; a larger window
makes the second call fail with `frameParameter_windowTooLarge`, see `bigWindowFrame` in Lemmas/DStreamHint.lean), every call having room
for a whole block, the run that offers each call exactly the number of bytes the previous call returned (5 = `ZSTD_startingInputLength` at
the start) returns exactly the request sequence `Stream.hints f.shape` (after its leading 5), closed by the 0 that reports the frame end -/
theorem dstream_hint_exact (f : FrameD) (hok : f.ok = true) (room : Nat) (hroom : f.blockSizeMax ≤ room)
    (hwin : f.windowSize ≤ ZSTD_MAXWINDOWSIZE_DEFAULT) :
    hintedRets (2 * f.blocks.length + 8) (State.start [f]) 5 room = (Stream.hints f.shape).tail ++ [0] :=
  DStream.hint_exact f hok room hroom hwin

open DStream in
example : hintedRets (2 * exFrame.blocks.length + 8) (State.start [exFrame]) 5 1024 = [4, 8, 13, 1, 4, 0] := by
  rw [dstream_hint_exact exFrame (by decide) 1024 (by decide) (by decide)]
  decide

open DStream in
/-- **dstream_hint_never_beyond_frame**: ... and therefore the function never asks for bytes beyond the end of the current frame: the sizes
offered in such a run (5, then every return value), added up over any number of calls, stay within the compressed size of the frame, and
over the whole run they add up to exactly the frame -/
theorem dstream_hint_never_beyond_frame (f : FrameD) (hok : f.ok = true) (room : Nat) (hroom : f.blockSizeMax ≤ room)
    (hwin : f.windowSize ≤ ZSTD_MAXWINDOWSIZE_DEFAULT) :
    (∀ k, ((5 :: hintedRets (2 * f.blocks.length + 8) (State.start [f]) 5 room).take k).sum ≤ DStream.frameSize f) ∧
    (5 :: hintedRets (2 * f.blocks.length + 8) (State.start [f]) 5 room).sum = DStream.frameSize f := by
  obtain ⟨h1, h2, h3⟩ := shape_facts f hok
  have hs := hints_sum_eq_frameSize f.shape h1 h2 h3
  rw [shape_frameSize f hok] at hs
  have he : 5 :: hintedRets (2 * f.blocks.length + 8) (State.start [f]) 5 room = hints f.shape ++ [0] := by
    rw [dstream_hint_exact f hok room hroom hwin, ← List.cons_append, ← hints_head]
  rw [he]
  have hsum : (hints f.shape ++ [0]).sum = DStream.frameSize f := by simp [hs]
  exact ⟨fun k => hsum ▸ take_sum_le _ k, hsum⟩


open DStream in
/-- **dstream_ring_keeps_window**: the output ring of the buffered decoder (stage zdss_flush: "restart the ring when the next block would not
fit").  After ANY feasible history of calls on a well-formed stream, whenever the decoder waits between two calls (zdss_read) for a block
header, a block body or the checksum: (1) there is room for a whole block behind `outStart`, or the ring holds the whole declared content
(and is then never restarted); (2) if the ring has been restarted in this frame, the restart happened at `segEnd ≥ blockSizeMax + windowSize`,
so the block about to be written at `[outStart, outStart + blockSizeMax)` ends before the history the window still reaches from before the
restart, `[segEnd - (windowSize - outStart), segEnd)`.  (`DStream.ring_step`: every call keeps the underlying invariant `RingInv`.) -/
theorem dstream_ring_keeps_window (all : List FrameD) (hok : AllOk all) (io : List (Nat × Nat)) (hf : Feasible all (State.start all) io)
    (hss : (after (State.start all) io).ss = .read)
    (hst : (after (State.start all) io).d.stage = .decodeBlockHeader ∨ (after (State.start all) io).d.stage = .decompressBlock ∨
      (after (State.start all) io).d.stage = .decompressLastBlock ∨ (after (State.start all) io).d.stage = .checkChecksum) :
    ((after (State.start all) io).outStart + (after (State.start all) io).d.blockSizeMax ≤ (after (State.start all) io).outBuffSize ∨
      ∃ n, (after (State.start all) io).d.fcs = some n ∧ n ≤ (after (State.start all) io).outBuffSize) ∧
    ((after (State.start all) io).segEnd ≠ 0 →
      (after (State.start all) io).d.blockSizeMax + (after (State.start all) io).d.windowSize ≤ (after (State.start all) io).segEnd) :=
  DStream.ring_keeps_window all hok io hf hss hst


/-! ### (a), (b) compression side: model of ZSTD_compressStream2 (Model/CStream.lean, tied call by call to the real code) -/

open CStream in
/-- **cstream_progress**: a call with output room makes progress - consumes or produces at least one byte - whenever there is something to do
(input offered, output pending, a frame to end, or buffered input to flush); chunk outputs are non-empty (`co i > 0`: every block costs its header) -/
theorem cstream_progress (co : Nat → Nat) (s : State) (inSize outSize : Nat) (endOp : EndOp) (h : Inv s) (hco : ∀ i, 0 < co i)
    (hout : 0 < outSize)
    (hw : 0 < inSize ∨ s.streamStage = .flush ∨ endOp = .eEnd ∨
          (endOp = .eFlush ∧ s.streamStage = .load ∧ s.inToCompress < s.inBuffPos)) :
    0 < (step co s inSize outSize endOp).2.consumed + (step co s inSize outSize endOp).2.produced :=
  CStream.progress co s inSize outSize endOp h hco hout hw

open CStream in
/-- **cstream_flush_complete**: when a flush / end call returns 0, nothing is left inside the context: the input buffer is fully compressed, the
output buffer fully handed over, everything the chunk compressor wrote has been emitted and everything consumed has been compressed -/
theorem cstream_flush_complete (co : Nat → Nat) (s : State) (inSize outSize : Nat) (endOp : EndOp) (h : Inv s)
    (hd : endOp ≠ .eContinue) (hz : (step co s inSize outSize endOp).2.ret = .val 0) :
    let r := step co s inSize outSize endOp
    r.1.inBuffPos = r.1.inToCompress ∧ r.1.outBuffContentSize = 0 ∧ r.1.outBuffFlushedSize = 0 ∧
    r.1.totalOut = r.1.outDone ∧ r.1.srcDone = r.1.totalIn ∧
    (r.2.consumed = inSize ∨ (s.streamStage = .flush ∧ s.frameEnded = true)) :=
  CStream.flush_complete co s inSize outSize endOp h hd hz

open CStream in
/-- **cstream_flush_point**: after ANY history, a flush / end call that returns 0 leaves the emitted stream equal to the concatenation of the
chunk outputs for exactly the input consumed so far: the bytes a caller holds at a completed flush cover all the input it supplied -/
theorem cstream_flush_point (co : Nat → Nat) (w m : Nat) (p : Option Nat) (cs : List (Nat × Nat × EndOp)) (i o : Nat) (d : EndOp)
    (hd : d ≠ .eContinue) (hz : (step co (run co (State.start w m p) cs).1 i o d).2.ret = .val 0) :
    let r := run co (State.start w m p) cs
    let c := step co r.1 i o d
    emittedAll (r.2 ++ [c.2]) = chunkOutAll (r.2 ++ [c.2]) ∧ chunkSrcAll (r.2 ++ [c.2]) = List.range' 0 c.1.totalIn :=
  CStream.flush_point co w m p cs i o d hd hz

open CStream in
/-- the return value is truthful: 0 iff everything written by the chunk compressor has been handed to the caller; for `e_end`, 0 iff the frame
(epilogue included) is complete and the context is back in its initial stage -/
theorem cstream_return_value (co : Nat → Nat) (s : State) (inSize outSize : Nat) (endOp : EndOp) (h : Inv s) :
    ((step co s inSize outSize endOp).2.ret = .val 0 ↔
      (step co s inSize outSize endOp).1.totalOut = (step co s inSize outSize endOp).1.outDone) ∧
    ((step co s inSize outSize .eEnd).2.ret = .val 0 ↔
      ((step co s inSize outSize .eEnd).1.streamStage = .init ∧ (step co s inSize outSize .eEnd).1.frameEnded = true)) :=
  ⟨CStream.ret_zero_iff_all_emitted co s inSize outSize endOp h, CStream.end_zero_iff_frame_complete co s inSize outSize h⟩

open CStream in
/-- **cstream_endStream_completion**: the legacy end directive `ZSTD_endStream` reports completion (returns 0) exactly when its `e_end` call
does - i.e. (by `cstream_return_value`) exactly when the frame, epilogue included, has been handed to the caller and the context is back in its
initial stage; in particular once the frame is complete the next answer is 0, whatever path completed it (buffered or straight into the
caller's buffer), and a non-zero answer means bytes of this frame are still owed -/
theorem cstream_endStream_completion (co : Nat → Nat) (s : State) (outSize : Nat) (cksum : Bool) (h : Inv s) :
    ((endStream co s outSize cksum).2.2 = .val 0 ↔ (step co s 0 outSize .eEnd).2.ret = .val 0) ∧
    ((endStream co s outSize cksum).2.2 = .val 0 ↔
      ((endStream co s outSize cksum).1.streamStage = .init ∧ (endStream co s outSize cksum).1.frameEnded = true)) := by
  have hz := CStream.end_zero_iff_frame_complete co s 0 outSize h
  have key : (endStream co s outSize cksum).2.2 = .val 0 ↔ (step co s 0 outSize .eEnd).2.ret = .val 0 := by
    unfold endStream
    constructor
    · intro he
      cases hr : (step co s 0 outSize .eEnd).2.ret with
      | err => simp [hr] at he
      | val v =>
        simp only [hr] at he
        have hv : endStreamRet (step co s 0 outSize .eEnd).1 v cksum = 0 := by injection he
        unfold endStreamRet at hv
        have : v = 0 := by omega
        rw [this]
    · intro hr
      have hf := (hz.mp hr).2
      simp [hr, endStreamRet, hf]
  exact ⟨key, key.trans hz⟩

end ZstdVerif.Props.C10
