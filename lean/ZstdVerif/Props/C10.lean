/-
C10 — streaming calls always progress, and a completed flush is decodable.
(c) the decoder's input pacing: fed exactly what it asks for, it asks for exactly the frame, never beyond it.
-/
import ZstdVerif.Model.Stream
import ZstdVerif.Lemmas.DStreamRT
import ZstdVerif.Lemmas.CStreamRT
namespace ZstdVerif.Props.C10
open ZstdVerif.Stream

theorem go_sum (ck : Bool) (bs : List Nat) (h : bs ≠ []) :
    (hints.go ⟨false, 0, [], ck, 0⟩ bs).sum = (bs.map (· + 3)).sum - 3 + (if ck then 4 else 0) := by
  induction bs with
  | nil => exact absurd rfl h
  | cons c rest ih =>
    cases rest with
    | nil => cases ck <;> by_cases hc : c = 0 <;> simp [hints.go, hc]
    | cons d rest' =>
      have := ih (by simp)
      simp only [hints.go, List.sum_cons, List.map_cons] at this ⊢
      omega

/-- the helper does not depend on the frame fields other than the checksum flag -/
theorem go_congr (f : FrameShape) (bs : List Nat) : hints.go f bs = hints.go ⟨false, 0, [], f.checksum, 0⟩ bs := by
  induction bs with
  | nil => rfl
  | cons c rest ih =>
    cases rest with
    | nil => simp [hints.go]
    | cons d r => simp only [hints.go]; rw [ih]

/-- **(c) following the hints consumes exactly the frame**: the requested sizes add up to the compressed size of the
frame (zstd frames with at least one block and a header of at least 5 bytes; skippable frames with their 8-byte header) -/
theorem hints_sum_eq_frameSize (f : FrameShape) (hb : f.blocks ≠ []) (hh : 5 ≤ f.headerSize) (hs : f.skippable = true → f.headerSize = 8) :
    (hints f).sum = frameSize f := by
  unfold hints frameSize
  split
  · rename_i hsk
    have := hs hsk
    split <;> simp <;> omega
  · rw [go_congr]
    simp only [List.sum_append, List.sum_cons, List.sum_nil]
    rw [go_sum f.checksum f.blocks hb]
    have : 3 ≤ (f.blocks.map (· + 3)).sum := by
      cases hbl : f.blocks with
      | nil => exact absurd hbl hb
      | cons c r => simp; omega
    omega

theorem take_sum_le (l : List Nat) (k : Nat) : (l.take k).sum ≤ l.sum := by
  induction l generalizing k with
  | nil => simp
  | cons a t ih =>
    cases k with
    | zero => simp
    | succ k => simp only [List.take_succ_cons, List.sum_cons]; have := ih k; omega

/-- **never beyond the frame**: every request, counted from the start of the frame, ends inside the frame — a consequence of
the sum law, stated for every prefix of the request sequence -/
theorem hints_within_frame (f : FrameShape) (hb : f.blocks ≠ []) (hh : 5 ≤ f.headerSize) (hs : f.skippable = true → f.headerSize = 8)
    (k : Nat) : ((hints f).take k).sum ≤ frameSize f := by
  rw [← hints_sum_eq_frameSize f hb hh hs]
  exact take_sum_le (hints f) k

example : hints ⟨false, 7, [845], true, 0⟩ = [5, 5, 845, 4] := by decide
example : hints ⟨true, 8, [0], false, 0⟩ = [5, 3] := by decide


/-! ### (a) every decoding call makes progress (model of ZSTD_decompressStream, tied call by call to the real code) -/

open DStream in
/-- **dstream_progress**: a call that is offered input and output room, on a well-formed stream, consumes or produces at least one byte
unless it reports an error -/
theorem dstream_progress (all : List FrameD) (hok : AllOk all) (s : State) (hinv : Inv all s) (inAvail outCap : Nat)
    (hlim : s.totalIn + inAvail ≤ sizeAll all) (hi : 0 < inAvail) (ho : 0 < outCap)
    (hne : ∀ e, (step s inAvail outCap).2.ret ≠ .err e) :
    0 < (step s inAvail outCap).2.consumed ∨ 0 < (step s inAvail outCap).2.produced :=
  DStream.progress_input all hok s hinv inAvail outCap hlim hi ho hne

open DStream in
/-- **dstream_no_livelock**: such a call strictly decreases the remaining work `(input left) + (output left)` ... -/
theorem dstream_no_livelock (all : List FrameD) (hok : AllOk all) (s : State) (hinv : Inv all s) (inAvail outCap : Nat)
    (hlim : s.totalIn + inAvail ≤ sizeAll all) (hi : 0 < inAvail) (ho : 0 < outCap)
    (hne : ∀ e, (step s inAvail outCap).2.ret ≠ .err e) :
    slack all (step s inAvail outCap).1 < slack all s :=
  DStream.no_livelock all hok s hinv inAvail outCap hlim hi ho hne

open DStream in
/-- ... hence ANY history of such calls is at most `compressed size + content size` calls long: the decoder cannot be kept busy forever -/
theorem dstream_calls_bounded (all : List FrameD) (hok : AllOk all) (io : List (Nat × Nat)) (s : State) (hinv : Inv all s)
    (hf : Feasible all s io) (hoff : Offered io) : io.length ≤ slack all s :=
  DStream.calls_bounded all hok io s hinv hf hoff


/-! ### (a), (b) compression side: model of ZSTD_compressStream2 (Model/CStream.lean, tied call by call to the real code) -/

open CStream in
/-- **cstream_progress**: a call with output room makes progress - consumes or produces at least one byte - whenever there is something to do
(input offered, output pending, a frame to end, or buffered input to flush); chunk outputs are non-empty (`co i > 0`: every block costs its header) -/
theorem cstream_progress (co : Nat → Nat) (s : State) (inSize outSize : Nat) (endOp : EndOp) (h : Inv s) (hco : ∀ i, 0 < co i)
    (hout : 0 < outSize)
    (hw : 0 < inSize ∨ s.streamStage = .flush ∨ endOp = .eEnd ∨
          (endOp = .eFlush ∧ s.streamStage = .load ∧ s.inToCompress < s.inBuffPos)) :
    0 < (step co s inSize outSize endOp).2.consumed + (step co s inSize outSize endOp).2.produced :=
  CStream.progress co s inSize outSize endOp h hco hout hw

open CStream in
/-- **cstream_flush_complete**: when a flush / end call returns 0, nothing is left inside the context: the input buffer is fully compressed, the
output buffer fully handed over, everything the chunk compressor wrote has been emitted and everything consumed has been compressed -/
theorem cstream_flush_complete (co : Nat → Nat) (s : State) (inSize outSize : Nat) (endOp : EndOp) (h : Inv s)
    (hd : endOp ≠ .eContinue) (hz : (step co s inSize outSize endOp).2.ret = .val 0) :
    let r := step co s inSize outSize endOp
    r.1.inBuffPos = r.1.inToCompress ∧ r.1.outBuffContentSize = 0 ∧ r.1.outBuffFlushedSize = 0 ∧
    r.1.totalOut = r.1.outDone ∧ r.1.srcDone = r.1.totalIn ∧
    (r.2.consumed = inSize ∨ (s.streamStage = .flush ∧ s.frameEnded = true)) :=
  CStream.flush_complete co s inSize outSize endOp h hd hz

open CStream in
/-- **cstream_flush_point**: after ANY history, a flush / end call that returns 0 leaves the emitted stream equal to the concatenation of the
chunk outputs for exactly the input consumed so far: the bytes a caller holds at a completed flush cover all the input it supplied -/
theorem cstream_flush_point (co : Nat → Nat) (w m : Nat) (p : Option Nat) (cs : List (Nat × Nat × EndOp)) (i o : Nat) (d : EndOp)
    (hd : d ≠ .eContinue) (hz : (step co (run co (State.start w m p) cs).1 i o d).2.ret = .val 0) :
    let r := run co (State.start w m p) cs
    let c := step co r.1 i o d
    emittedAll (r.2 ++ [c.2]) = chunkOutAll (r.2 ++ [c.2]) ∧ chunkSrcAll (r.2 ++ [c.2]) = List.range' 0 c.1.totalIn :=
  CStream.flush_point co w m p cs i o d hd hz

open CStream in
/-- the return value is truthful: 0 iff everything written by the chunk compressor has been handed to the caller; for `e_end`, 0 iff the frame
(epilogue included) is complete and the context is back in its initial stage -/
theorem cstream_return_value (co : Nat → Nat) (s : State) (inSize outSize : Nat) (endOp : EndOp) (h : Inv s) :
    ((step co s inSize outSize endOp).2.ret = .val 0 ↔
      (step co s inSize outSize endOp).1.totalOut = (step co s inSize outSize endOp).1.outDone) ∧
    ((step co s inSize outSize .eEnd).2.ret = .val 0 ↔
      ((step co s inSize outSize .eEnd).1.streamStage = .init ∧ (step co s inSize outSize .eEnd).1.frameEnded = true)) :=
  ⟨CStream.ret_zero_iff_all_emitted co s inSize outSize endOp h, CStream.end_zero_iff_frame_complete co s inSize outSize h⟩

open CStream in
/-- **cstream_endStream_completion**: the legacy end directive `ZSTD_endStream` reports completion (returns 0) exactly when its `e_end` call
does - i.e. (by `cstream_return_value`) exactly when the frame, epilogue included, has been handed to the caller and the context is back in its
initial stage; in particular once the frame is complete the next answer is 0, whatever path completed it (buffered or straight into the
caller's buffer), and a non-zero answer means bytes of this frame are still owed -/
theorem cstream_endStream_completion (co : Nat → Nat) (s : State) (outSize : Nat) (cksum : Bool) (h : Inv s) :
    ((endStream co s outSize cksum).2.2 = .val 0 ↔ (step co s 0 outSize .eEnd).2.ret = .val 0) ∧
    ((endStream co s outSize cksum).2.2 = .val 0 ↔
      ((endStream co s outSize cksum).1.streamStage = .init ∧ (endStream co s outSize cksum).1.frameEnded = true)) := by
  have hz := CStream.end_zero_iff_frame_complete co s 0 outSize h
  have key : (endStream co s outSize cksum).2.2 = .val 0 ↔ (step co s 0 outSize .eEnd).2.ret = .val 0 := by
    unfold endStream
    constructor
    · intro he
      cases hr : (step co s 0 outSize .eEnd).2.ret with
      | err => simp [hr] at he
      | val v =>
        simp only [hr] at he
        have hv : endStreamRet (step co s 0 outSize .eEnd).1 v cksum = 0 := by injection he
        unfold endStreamRet at hv
        have : v = 0 := by omega
        rw [this]
    · intro hr
      have hf := (hz.mp hr).2
      simp [hr, endStreamRet, hf]
  exact ⟨key, key.trans hz⟩

end ZstdVerif.Props.C10
