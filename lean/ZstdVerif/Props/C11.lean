/-
C11 — the producer / consumer protocol of multithreaded compression, for EVERY interleaving of caller and workers
(every path of the LTS Model/MTProto.lean): the job ring never overflows and its live slots are distinct, the serial section
is entered in job order, the caller hands out job outputs in job order and never beyond what a worker has published, and
while no job has failed some participant can always move (no deadlock of the protocol).
-/
import ZstdVerif.Model.MTProto
import ZstdVerif.Model.MT
import ZstdVerif.Lemmas.ListAux
namespace ZstdVerif.Props.C11
open ZstdVerif ZstdVerif.MTProto

/-- ids of the live jobs are exactly done, done+1, …, next-1 (oldest first); the ring holds at most mask+1 of them -/
def RingInv (s : St) : Prop :=
  s.done ≤ s.next ∧ s.next ≤ s.done + s.mask + 1 ∧ s.jobs.map (·.id) = List.range' s.done (s.next - s.done)

/-- the serial log is strictly increasing and below serialNext; the flush log is non-decreasing in job id and never ahead of `done` -/
def OrderInv (s : St) : Prop :=
  s.serialLog.Pairwise (· < ·) ∧ (∀ j ∈ s.serialLog, j < s.serialNext) ∧
  (s.out.map (·.1)).Pairwise (· ≤ ·) ∧ (∀ p ∈ s.out, p.1 ≤ s.done)

theorem map_id_updJob (s : St) (j : Nat) (f : Job → Job) (hf : ∀ y, (f y).id = y.id) :
    (updJob s j f).jobs.map (·.id) = s.jobs.map (·.id) := by
  unfold updJob
  simp only [List.map_map]
  apply List.map_congr_left
  intro x _
  simp only [Function.comp]
  split <;> simp [hf]

theorem updJob_fields (s : St) (j : Nat) (f : Job → Job) :
    (updJob s j f).done = s.done ∧ (updJob s j f).next = s.next ∧ (updJob s j f).mask = s.mask ∧
    (updJob s j f).serialNext = s.serialNext ∧ (updJob s j f).out = s.out ∧ (updJob s j f).serialLog = s.serialLog := by
  unfold updJob; simp

/-- **ring_safe (one step)** -/
theorem ring_step (s s' : St) (e : Ev) (h : RingInv s) (hs : step s e = some s') : RingInv s' := by
  obtain ⟨h1, h2, h3⟩ := h
  cases e with
  | post n ck =>
    simp only [step] at hs
    split at hs
    · rename_i hc
      cases hs
      refine ⟨by simp; omega, by simp; omega, ?_⟩
      simp only [List.map_append, List.map_cons, List.map_nil, h3]
      have : s.next + 1 - s.done = (s.next - s.done) + 1 := by omega
      rw [this, List.range'_concat]; simp; omega
    · cases hs
  | inline z ck =>
    simp only [step] at hs
    split at hs
    · rename_i hc
      cases hs
      refine ⟨by simp; omega, by simp; omega, ?_⟩
      simp only [List.map_append, List.map_cons, List.map_nil, h3]
      have : s.next + 1 - s.done = (s.next - s.done) + 1 := by omega
      rw [this, List.range'_concat]; simp; omega
    · cases hs
  | cksum =>
    simp only [step] at hs
    split at hs
    · rename_i x hx
      split at hs
      · cases hs
        obtain ⟨f1, f2, f3, _⟩ := updJob_fields s x.id (fun y => { y with cSize := y.cSize + 4, ck := false })
        refine ⟨by rw [f1, f2]; omega, by rw [f1, f2, f3]; omega, ?_⟩
        rw [f1, f2, map_id_updJob _ _ _ (by intro y; rfl)]; exact h3
      · cases hs
    · cases hs
  | unpost =>
    simp only [step] at hs
    split at hs
    · rename_i j hj
      split at hs
      · rename_i hc
        cases hs
        refine ⟨by simp; omega, by simp; omega, ?_⟩
        simp only [List.map_dropLast, h3]
        have : s.next - s.done = (s.next - 1 - s.done) + 1 := by omega
        rw [this, List.range'_concat, List.dropLast_concat]
      · cases hs
    · cases hs
  | serial j wa =>
    simp only [step] at hs
    split at hs
    · split at hs
      · cases hs
        obtain ⟨f1, f2, f3, _⟩ := updJob_fields s j (fun y => { y with serialDone := true })
        refine ⟨by simp [f1, f2]; omega, by simp [f1, f2, f3]; omega, ?_⟩
        simp only [f1, f2]
        rw [map_id_updJob _ _ _ (by intro y; rfl)]; exact h3
      · cases hs
    · cases hs
  | produce j c z =>
    simp only [step] at hs
    split at hs
    · split at hs
      · cases hs
        obtain ⟨f1, f2, f3, _⟩ := updJob_fields s j (fun y => { y with consumed := c, cSize := z })
        refine ⟨by rw [f1, f2]; omega, by rw [f1, f2, f3]; omega, ?_⟩
        rw [f1, f2, map_id_updJob _ _ _ (by intro y; rfl)]; exact h3
      · cases hs
    · cases hs
  | fail j =>
    simp only [step] at hs
    split at hs
    · split at hs
      · cases hs
        obtain ⟨f1, f2, f3, _⟩ := updJob_fields s j (fun y => { y with failed := true, consumed := y.srcSize, serialDone := true })
        have hm := map_id_updJob s j (fun y => { y with failed := true, consumed := y.srcSize, serialDone := true }) (by intro y; rfl)
        split
        · refine ⟨by simp [f1, f2]; omega, by simp [f1, f2, f3]; omega, ?_⟩
          simp only [f1, f2]; rw [hm]; exact h3
        · refine ⟨by rw [f1, f2]; omega, by rw [f1, f2, f3]; omega, ?_⟩
          rw [f1, f2, hm]; exact h3
      · cases hs
    · cases hs
  | flush b =>
    simp only [step] at hs
    split at hs
    · rename_i x hx
      split at hs
      · cases hs
        obtain ⟨f1, f2, f3, _⟩ := updJob_fields s x.id (fun y => { y with flushed := y.flushed + b })
        refine ⟨by simp [f1, f2]; omega, by simp [f1, f2, f3]; omega, ?_⟩
        simp only [f1, f2]
        rw [map_id_updJob _ _ _ (by intro y; rfl)]; exact h3
      · cases hs
    · cases hs
  | retire =>
    simp only [step] at hs
    split at hs
    · rename_i x rest hj
      split at hs
      · rename_i hc
        cases hs
        rw [hj] at h3
        simp only [List.map_cons] at h3
        have hlt : s.done < s.next := by
          by_cases hh : s.done < s.next
          · exact hh
          · have : s.next - s.done = 0 := by omega
            rw [this] at h3; simp at h3
        have : s.next - s.done = (s.next - (s.done + 1)) + 1 := by omega
        rw [this, List.range'_succ] at h3
        refine ⟨by simp; omega, by simp; omega, ?_⟩
        simp only
        exact (List.cons.inj h3).2
      · cases hs
    · cases hs

/-- **ring_safe**: on every path of the protocol, from a state satisfying the invariant -/
theorem ring_safe (evs : List Ev) : ∀ (s s' : St), RingInv s → run s evs = some s' → RingInv s' := by
  induction evs with
  | nil => intro s s' h hr; simp [run] at hr; exact hr ▸ h
  | cons e es ih =>
    intro s s' h hr
    simp only [run] at hr
    split at hr
    · rename_i s1 h1
      exact ih s1 s' (ring_step s s1 e h h1) hr
    · cases hr

/-- **slots_distinct**: two live jobs never share a ring slot (jobID & jobIDMask with mask+1 slots) -/
theorem slots_distinct (s : St) (h : RingInv s) (x y : Job) (hx : x ∈ s.jobs) (hy : y ∈ s.jobs)
    (hslot : x.id % (s.mask + 1) = y.id % (s.mask + 1)) : x.id = y.id := by
  obtain ⟨h1, h2, h3⟩ := h
  have hxi : x.id ∈ s.jobs.map (·.id) := List.mem_map_of_mem hx
  have hyi : y.id ∈ s.jobs.map (·.id) := List.mem_map_of_mem hy
  rw [h3] at hxi hyi
  simp only [List.mem_range'_1] at hxi hyi
  -- both ids lie in [done, done + mask + 1): equal residues force equality
  have hx1 := Nat.div_add_mod x.id (s.mask + 1)
  have hy1 := Nat.div_add_mod y.id (s.mask + 1)
  have hmx := Nat.mod_lt x.id (Nat.succ_pos s.mask)
  by_cases hq : x.id / (s.mask + 1) = y.id / (s.mask + 1)
  · rw [hq, hslot] at hx1; omega
  · exfalso
    rcases Nat.lt_or_gt_of_ne hq with hlt | hgt
    · have : (s.mask + 1) * (x.id / (s.mask + 1) + 1) ≤ (s.mask + 1) * (y.id / (s.mask + 1)) := Nat.mul_le_mul_left _ hlt
      rw [Nat.mul_add, Nat.mul_one] at this
      omega
    · have : (s.mask + 1) * (y.id / (s.mask + 1) + 1) ≤ (s.mask + 1) * (x.id / (s.mask + 1)) := Nat.mul_le_mul_left _ hgt
      rw [Nat.mul_add, Nat.mul_one] at this
      omega

/-- **order (one step)** -/
theorem order_step (s s' : St) (e : Ev) (h : OrderInv s) (hs : step s e = some s') : OrderInv s' := by
  obtain ⟨h1, h2, h3, h4⟩ := h
  cases e with
  | post n ck =>
    simp only [step] at hs
    split at hs <;> cases hs
    exact ⟨h1, h2, h3, h4⟩
  | inline z ck =>
    simp only [step] at hs
    split at hs <;> cases hs
    exact ⟨h1, h2, h3, h4⟩
  | cksum =>
    simp only [step] at hs
    split at hs
    · rename_i x hx
      split at hs
      · cases hs
        obtain ⟨f1, f2, f3, f4, f5, f6⟩ := updJob_fields s x.id (fun y => { y with cSize := y.cSize + 4, ck := false })
        exact ⟨by rw [f6]; exact h1, by rw [f6, f4]; exact h2, by rw [f5]; exact h3, by rw [f5, f1]; exact h4⟩
      · cases hs
    · cases hs
  | unpost =>
    simp only [step] at hs
    split at hs
    · split at hs <;> cases hs
      exact ⟨h1, h2, h3, h4⟩
    · cases hs
  | serial j wa =>
    simp only [step] at hs
    split at hs
    · split at hs
      · rename_i hc
        cases hs
        obtain ⟨f1, f2, f3, f4, f5, f6⟩ := updJob_fields s j (fun y => { y with serialDone := true })
        refine ⟨?_, ?_, by simp only [f5]; exact h3, by simp only [f5, f1]; exact h4⟩
        · simp only [f6]
          rw [List.pairwise_append]
          refine ⟨h1, by simp, ?_⟩
          intro a ha b hb
          simp at hb; subst hb
          have := h2 a ha; omega
        · simp only [f6]
          intro a ha
          rw [List.mem_append] at ha
          rcases ha with ha | ha
          · have := h2 a ha; omega
          · simp at ha; omega
      · cases hs
    · cases hs
  | produce j c z =>
    simp only [step] at hs
    split at hs
    · split at hs
      · cases hs
        obtain ⟨f1, f2, f3, f4, f5, f6⟩ := updJob_fields s j (fun y => { y with consumed := c, cSize := z })
        exact ⟨by rw [f6]; exact h1, by rw [f6, f4]; exact h2, by rw [f5]; exact h3, by rw [f5, f1]; exact h4⟩
      · cases hs
    · cases hs
  | fail j =>
    simp only [step] at hs
    split at hs
    · split at hs
      · cases hs
        obtain ⟨f1, f2, f3, f4, f5, f6⟩ := updJob_fields s j (fun y => { y with failed := true, consumed := y.srcSize, serialDone := true })
        split
        · rename_i hle
          refine ⟨by simp only [f6]; exact h1, ?_, by simp only [f5]; exact h3, by simp only [f5, f1]; exact h4⟩
          simp only [f6]; intro a ha; have := h2 a ha; omega
        · exact ⟨by rw [f6]; exact h1, by rw [f6, f4]; exact h2, by rw [f5]; exact h3, by rw [f5, f1]; exact h4⟩
      · cases hs
    · cases hs
  | flush b =>
    simp only [step] at hs
    split at hs
    · rename_i x hx
      split at hs
      · rename_i hc
        cases hs
        obtain ⟨f1, f2, f3, f4, f5, f6⟩ := updJob_fields s x.id (fun y => { y with flushed := y.flushed + b })
        refine ⟨by simp only [f6]; exact h1, by simp only [f6, f4]; exact h2, ?_, ?_⟩
        · simp only [f5, List.map_append, List.map_cons, List.map_nil]
          rw [List.pairwise_append]
          refine ⟨h3, by simp, ?_⟩
          intro a ha c hc'
          simp at hc'; subst hc'
          obtain ⟨p, hp, rfl⟩ := List.mem_map.mp ha
          have := h4 p hp; omega
        · simp only [f5, f1]
          intro p hp
          rw [List.mem_append] at hp
          rcases hp with hp | hp
          · exact h4 p hp
          · simp at hp; subst hp; simp; omega
      · cases hs
    · cases hs
  | retire =>
    simp only [step] at hs
    split at hs
    · split at hs
      · cases hs
        refine ⟨h1, h2, h3, ?_⟩
        intro p hp; have := h4 p hp; simp; omega
      · cases hs
    · cases hs

/-- **serial_in_order / output_in_order**: on every path, the serial section is entered in strictly increasing job order and the
caller hands out job outputs in non-decreasing job order, never ahead of the oldest unfinished job -/
theorem order_safe (evs : List Ev) : ∀ (s s' : St), OrderInv s → run s evs = some s' → OrderInv s' := by
  induction evs with
  | nil => intro s s' h hr; simp [run] at hr; exact hr ▸ h
  | cons e es ih =>
    intro s s' h hr
    simp only [run] at hr
    split at hr
    · rename_i s1 h1
      exact ih s1 s' (order_step s s1 e h h1) hr
    · cases hr

/-- what every live job satisfies while no job has failed -/
def ProgInv (s : St) : Prop :=
  s.done ≤ s.serialNext ∧
  ∀ x ∈ s.jobs, x.failed = false ∧ (x.inline = false → (x.serialDone = true ↔ x.id < s.serialNext)) ∧ x.flushed ≤ x.cSize ∧ x.consumed ≤ x.srcSize ∧
    (x.inline = true → x.consumed = x.srcSize)

/-- **no_deadlock_partial** (no job has failed): whenever a job is outstanding, some participant - the worker of the oldest job or
the caller - has an enabled step that makes progress: enter the serial section, publish the rest of the job, flush, or retire.
(With a failed job the caller abandons the frame: ZSTDMT_flushProduced's error path, outside this LTS.) -/
theorem no_deadlock_partial (s : St) (hr : RingInv s) (hp : ProgInv s) (hlive : s.done < s.next) :
    ∃ e, (match e with | .post _ _ => False | .inline _ _ => False | .unpost => False | .fail _ => False | _ => True) ∧ (step s e).isSome = true := by
  obtain ⟨r1, r2, r3⟩ := hr
  obtain ⟨p0, p1⟩ := hp
  -- the oldest live job
  have hlen : s.next - s.done = (s.next - s.done - 1) + 1 := by omega
  rw [hlen, List.range'_succ] at r3
  cases hj : s.jobs with
  | nil => rw [hj] at r3; simp at r3
  | cons x rest =>
    rw [hj] at r3
    simp only [List.map_cons] at r3
    have hxid : x.id = s.done := (List.cons.inj r3).1
    have hxm : x ∈ s.jobs := by rw [hj]; exact List.mem_cons_self ..
    obtain ⟨q1, q2, q3, q4, q5⟩ := p1 x hxm
    have hfind : findJob s s.done = some x := by
      unfold findJob; rw [hj]; simp [List.find?, hxid]
    -- the caller's moves once the job is complete: checksum, flush, retire
    have callerMoves : x.consumed = x.srcSize → (x.serialDone = true ∨ x.inline = true) →
        ∃ e, (match e with | .post _ _ => False | .inline _ _ => False | .unpost => False | .fail _ => False | _ => True) ∧ (step s e).isSome = true := by
      intro hc hsi
      by_cases hk : x.ck = true
      · refine ⟨.cksum, trivial, ?_⟩
        simp [step, hj, hxid, hk, hc, q1]
      · by_cases hf : x.flushed = x.cSize
        · refine ⟨.retire, trivial, ?_⟩
          have hk' : x.ck = false := by simpa using hk
          rcases hsi with h | h <;> simp [step, hj, hxid, h, hc, hf, q1, hk']
        · refine ⟨.flush (x.cSize - x.flushed), trivial, ?_⟩
          have : 0 < x.cSize - x.flushed := by omega
          simp [step, hj, hxid, q1, this]
          omega
    by_cases hin : x.inline = true
    · exact callerMoves (q5 hin) (Or.inr hin)
    · have hin' : x.inline = false := by simpa using hin
      by_cases hsd : x.serialDone = true
      · by_cases hc : x.consumed = x.srcSize
        · exact callerMoves hc (Or.inl hsd)
        · refine ⟨.produce s.done x.srcSize x.cSize, trivial, ?_⟩
          simp [step, hfind, hsd, q1, q4, hin']
      · refine ⟨.serial s.done true, trivial, ?_⟩
        have hns : ¬ x.id < s.serialNext := fun h => hsd ((q2 hin').mpr h)
        have : s.done = s.serialNext := by omega
        simp [step, hfind, this.symm, hsd, hin']

/-! ### the progress invariant is inductive (runs without worker errors and without the caller-written last block) -/

/-- the hypothesis of `no_deadlock_partial`, strengthened so that it is preserved by every step -/
def ProgInv0 (s : St) : Prop :=
  s.done ≤ s.serialNext ∧ s.serialNext ≤ s.next ∧
  ∀ x ∈ s.jobs, x.failed = false ∧ x.inline = false ∧ (x.serialDone = true ↔ x.id < s.serialNext) ∧ x.flushed ≤ x.cSize ∧ x.consumed ≤ x.srcSize

def plain : Ev → Bool
  | .fail _ => false
  | .inline _ _ => false
  | _ => true

theorem mem_updJob (s : St) (j : Nat) (f : Job → Job) (y : Job) (hy : y ∈ (updJob s j f).jobs) :
    ∃ y0 ∈ s.jobs, y = if y0.id == j then f y0 else y0 := by
  unfold updJob at hy
  simp only [List.mem_map] at hy
  obtain ⟨y0, h0, rfl⟩ := hy
  exact ⟨y0, h0, rfl⟩

theorem ids_of_ring (s : St) (h : RingInv s) (x : Job) (hx : x ∈ s.jobs) : s.done ≤ x.id ∧ x.id < s.next := by
  obtain ⟨h1, h2, h3⟩ := h
  have : x.id ∈ s.jobs.map (·.id) := List.mem_map_of_mem hx
  rw [h3] at this
  simp only [List.mem_range'_1] at this
  omega

theorem findJob_mem (s : St) (j : Nat) (x : Job) (h : findJob s j = some x) : x ∈ s.jobs ∧ x.id = j := by
  unfold findJob at h
  have h1 := List.mem_of_find?_eq_some h
  have h2 := List.find?_some h
  exact ⟨h1, by simpa using h2⟩

theorem prog_step (s s' : St) (e : Ev) (hr : RingInv s) (hp : ProgInv0 s) (he : plain e = true) (hs : step s e = some s') : ProgInv0 s' := by
  obtain ⟨p1, p2, p3⟩ := hp
  cases e with
  | fail j => simp [plain] at he
  | inline z ck => simp [plain] at he
  | post n ck =>
    simp only [step] at hs
    split at hs
    · cases hs
      refine ⟨p1, by simp; omega, ?_⟩
      intro x hx
      simp only [List.mem_append, List.mem_cons, List.not_mem_nil, or_false] at hx
      rcases hx with hx | rfl
      · exact p3 x hx
      · simp; omega
    · cases hs
  | unpost =>
    simp only [step] at hs
    split at hs
    · rename_i j hj
      split at hs
      · rename_i hc
        cases hs
        have hjm : j ∈ s.jobs := List.mem_of_getLast? hj
        obtain ⟨_, _, q3, _, _⟩ := p3 j hjm
        have hns : j.serialDone = false := by simpa using hc.2.2.2.1
        have : ¬ j.id < s.serialNext := fun h => by rw [q3.mpr h] at hns; cases hns
        refine ⟨p1, by simp; omega, ?_⟩
        intro x hx
        exact p3 x ((List.dropLast_sublist s.jobs).subset hx)
      · cases hs
    · cases hs
  | serial j wa =>
    simp only [step] at hs
    split at hs
    · rename_i x hx
      split at hs
      · rename_i hc
        cases hs
        obtain ⟨hxm, hxid⟩ := findJob_mem s j x hx
        obtain ⟨b1, b2⟩ := ids_of_ring s hr x hxm
        obtain ⟨f1, f2, f3, f4, f5, f6⟩ := updJob_fields s j (fun y => { y with serialDone := true })
        refine ⟨by simp [f1]; omega, by simp [f2]; omega, ?_⟩
        intro y hy
        obtain ⟨y0, hy0, rfl⟩ := mem_updJob s j _ y hy
        obtain ⟨q1, q2, q3, q4, q5⟩ := p3 y0 hy0
        by_cases hid : y0.id = j
        · simp [hid, q1, q2, q4, q5]
        · have hb : (y0.id == j) = false := by simpa using hid
          simp only [hb, Bool.false_eq_true, if_false]
          refine ⟨q1, q2, ?_, q4, q5⟩
          rw [q3, hc.1]
          omega
      · cases hs
    · cases hs
  | produce j c z =>
    simp only [step] at hs
    split at hs
    · rename_i x hx
      split at hs
      · rename_i hc
        cases hs
        obtain ⟨hxm, hxid⟩ := findJob_mem s j x hx
        obtain ⟨f1, f2, f3, f4, f5, f6⟩ := updJob_fields s j (fun y => { y with consumed := c, cSize := z })
        refine ⟨by rw [f1, f4]; exact p1, by rw [f2, f4]; exact p2, ?_⟩
        intro y hy
        obtain ⟨y0, hy0, rfl⟩ := mem_updJob s j _ y hy
        obtain ⟨q1, q2, q3, q4, q5⟩ := p3 y0 hy0
        rw [f4]
        by_cases hid : y0.id = j
        · -- the ring has one job per id: y0 is the job the guard spoke about
          have : y0 = x := by
            have hx' := p3 x hxm
            have hnd : (s.jobs.map (·.id)).Nodup := by rw [hr.2.2]; exact List.nodup_range'
            exact List.eq_of_nodup_map (·.id) s.jobs y0 x hnd hy0 hxm (by rw [hid, hxid])
          subst this
          have hb : (y0.id == j) = true := by simpa using hid
          simp only [hb, if_true]
          exact ⟨q1, q2, q3, by omega, by omega⟩
        · have hb : (y0.id == j) = false := by simpa using hid
          simp only [hb]
          exact ⟨q1, q2, q3, q4, q5⟩
      · cases hs
    · cases hs
  | cksum =>
    simp only [step] at hs
    split at hs
    · rename_i x hx
      split at hs
      · cases hs
        obtain ⟨f1, f2, f3, f4, f5, f6⟩ := updJob_fields s x.id (fun y => { y with cSize := y.cSize + 4, ck := false })
        refine ⟨by rw [f1, f4]; exact p1, by rw [f2, f4]; exact p2, ?_⟩
        intro y hy
        obtain ⟨y0, hy0, rfl⟩ := mem_updJob s x.id _ y hy
        obtain ⟨q1, q2, q3, q4, q5⟩ := p3 y0 hy0
        rw [f4]
        by_cases hid : (y0.id == x.id) = true
        · simp only [hid, if_true]; exact ⟨q1, q2, q3, by omega, q5⟩
        · simp only [hid]; exact ⟨q1, q2, q3, q4, q5⟩
      · cases hs
    · cases hs
  | flush b =>
    simp only [step] at hs
    split at hs
    · rename_i x hx
      split at hs
      · rename_i hc
        cases hs
        have hxm : x ∈ s.jobs := List.mem_of_mem_head? hx
        obtain ⟨f1, f2, f3, f4, f5, f6⟩ := updJob_fields s x.id (fun y => { y with flushed := y.flushed + b })
        refine ⟨by simp only [f1, f4]; exact p1, by simp only [f2, f4]; exact p2, ?_⟩
        intro y hy
        simp only at hy
        obtain ⟨y0, hy0, rfl⟩ := mem_updJob s x.id _ y hy
        obtain ⟨q1, q2, q3, q4, q5⟩ := p3 y0 hy0
        simp only [f4]
        by_cases hid : y0.id = x.id
        · have : y0 = x := by
            have hnd : (s.jobs.map (·.id)).Nodup := by rw [hr.2.2]; exact List.nodup_range'
            exact List.eq_of_nodup_map (·.id) s.jobs y0 x hnd hy0 hxm hid
          subst this
          simp only [beq_self_eq_true, if_true]
          exact ⟨q1, q2, q3, by omega, q5⟩
        · have hb : (y0.id == x.id) = false := by simpa using hid
          simp only [hb]
          exact ⟨q1, q2, q3, q4, q5⟩
      · cases hs
    · cases hs
  | retire =>
    simp only [step] at hs
    split at hs
    · rename_i x rest hj
      split at hs
      · rename_i hc
        cases hs
        have hxm : x ∈ s.jobs := by rw [hj]; exact List.mem_cons_self ..
        obtain ⟨q1, q2, q3, q4, q5⟩ := p3 x hxm
        have hsd : x.serialDone = true := by
          rcases hc.2.1 with h | h
          · exact h
          · rw [q2] at h; cases h
        have := q3.mp hsd
        refine ⟨by simp; omega, p2, ?_⟩
        intro y hy
        exact p3 y (by rw [hj]; exact List.mem_cons_of_mem _ hy)
      · cases hs
    · cases hs

/-- **no_deadlock**: on every path of the protocol made of caller and worker steps (no worker error, no caller-written last block),
starting from an empty ring, whenever a job is outstanding some participant has an enabled step that makes progress -/
theorem no_deadlock (evs : List Ev) (hpl : ∀ e ∈ evs, plain e = true) (m : Nat) (s : St) (hr : run { mask := m } evs = some s)
    (hlive : s.done < s.next) :
    ∃ e, (match e with | .post _ _ => False | .inline _ _ => False | .unpost => False | .fail _ => False | _ => True) ∧ (step s e).isSome = true := by
  -- both invariants hold along the path
  have key : ∀ (evs : List Ev) (s0 s1 : St), (∀ e ∈ evs, plain e = true) → RingInv s0 → ProgInv0 s0 → run s0 evs = some s1 → RingInv s1 ∧ ProgInv0 s1 := by
    intro evs
    induction evs with
    | nil => intro s0 s1 _ h1 h2 hr; simp [run] at hr; subst hr; exact ⟨h1, h2⟩
    | cons e es ih =>
      intro s0 s1 hpl h1 h2 hr
      simp only [run] at hr
      split at hr
      · rename_i sm hsm
        exact ih sm s1 (fun e he => hpl e (List.mem_cons_of_mem _ he)) (ring_step s0 sm e h1 hsm)
          (prog_step s0 sm e h1 h2 (hpl e (List.mem_cons_self ..)) hsm) hr
      · cases hr
  obtain ⟨r, p⟩ := key evs { mask := m } s hpl (by simp [RingInv]) (by simp [ProgInv0]) hr
  refine no_deadlock_partial s r ?_ hlive
  obtain ⟨p1, p2, p3⟩ := p
  refine ⟨p1, ?_⟩
  intro x hx
  obtain ⟨q1, q2, q3, q4, q5⟩ := p3 x hx
  exact ⟨q1, fun _ => q3, q4, q5, fun h => by rw [q2] at h; cases h⟩

example : RingInv { mask := 3 } := by simp [RingInv]
example : (run { mask := 1 } [.post 10 false, .post 20 false, .serial 0 true, .produce 0 10 7, .serial 1 true, .flush 7, .retire, .post 5 true, .produce 1 20 3]).isSome = true := by decide
example : run { mask := 3 } [.post 10 false, .post 20 false, .post 30 false, .serial 0 false] = none := by decide   -- one signal, two possible waiters
example : run { mask := 1 } [.post 10 false, .post 20 false, .post 30 false] = none := by decide        -- ring of 2 is full
example : run { mask := 1 } [.post 10 false, .post 20 false, .serial 1 true] = none := by decide       -- serial section out of order

end ZstdVerif.Props.C11
