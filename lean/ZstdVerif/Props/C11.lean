/-
C11 — the producer / consumer protocol of multithreaded compression, for EVERY interleaving of caller and workers
(every path of the LTS Model/MTProto.lean): the job ring never overflows and its live slots are distinct, the serial section
is entered in job order, the caller hands out job outputs in job order and never beyond what a worker has published, and
while no job has failed some participant can always move (no deadlock of the protocol).
-/
import ZstdVerif.Model.MTProto
import ZstdVerif.Model.MT
namespace ZstdVerif.Props.C11
open ZstdVerif ZstdVerif.MTProto

/-- ids of the live jobs are exactly done, done+1, …, next-1 (oldest first); the ring holds at most mask+1 of them -/
def RingInv (s : St) : Prop :=
  s.done ≤ s.next ∧ s.next ≤ s.done + s.mask + 1 ∧ s.jobs.map (·.id) = List.range' s.done (s.next - s.done)

/-- the serial log is strictly increasing and below serialNext; the flush log is non-decreasing in job id and never ahead of `done` -/
def OrderInv (s : St) : Prop :=
  s.serialLog.Pairwise (· < ·) ∧ (∀ j ∈ s.serialLog, j < s.serialNext) ∧
  (s.out.map (·.1)).Pairwise (· ≤ ·) ∧ (∀ p ∈ s.out, p.1 ≤ s.done)

theorem map_id_updJob (s : St) (j : Nat) (f : Job → Job) (hf : ∀ y, (f y).id = y.id) :
    (updJob s j f).jobs.map (·.id) = s.jobs.map (·.id) := by
  unfold updJob
  simp only [List.map_map]
  apply List.map_congr_left
  intro x _
  simp only [Function.comp]
  split <;> simp [hf]

theorem updJob_fields (s : St) (j : Nat) (f : Job → Job) :
    (updJob s j f).done = s.done ∧ (updJob s j f).next = s.next ∧ (updJob s j f).mask = s.mask ∧
    (updJob s j f).serialNext = s.serialNext ∧ (updJob s j f).out = s.out ∧ (updJob s j f).serialLog = s.serialLog := by
  unfold updJob; simp

/-- **ring_safe (one step)** -/
theorem ring_step (s s' : St) (e : Ev) (h : RingInv s) (hs : step s e = some s') : RingInv s' := by
  obtain ⟨h1, h2, h3⟩ := h
  cases e with
  | post n ck =>
    simp only [step] at hs
    split at hs
    · rename_i hc
      cases hs
      refine ⟨by simp; omega, by simp; omega, ?_⟩
      simp only [List.map_append, List.map_cons, List.map_nil, h3]
      have : s.next + 1 - s.done = (s.next - s.done) + 1 := by omega
      rw [this, List.range'_concat]; simp; omega
    · cases hs
  | inline z ck =>
    simp only [step] at hs
    split at hs
    · rename_i hc
      cases hs
      refine ⟨by simp; omega, by simp; omega, ?_⟩
      simp only [List.map_append, List.map_cons, List.map_nil, h3]
      have : s.next + 1 - s.done = (s.next - s.done) + 1 := by omega
      rw [this, List.range'_concat]; simp; omega
    · cases hs
  | cksum =>
    simp only [step] at hs
    split at hs
    · rename_i x hx
      split at hs
      · cases hs
        obtain ⟨f1, f2, f3, _⟩ := updJob_fields s x.id (fun y => { y with cSize := y.cSize + 4, ck := false })
        refine ⟨by rw [f1, f2]; omega, by rw [f1, f2, f3]; omega, ?_⟩
        rw [f1, f2, map_id_updJob _ _ _ (by intro y; rfl)]; exact h3
      · cases hs
    · cases hs
  | unpost =>
    simp only [step] at hs
    split at hs
    · rename_i j hj
      split at hs
      · rename_i hc
        cases hs
        refine ⟨by simp; omega, by simp; omega, ?_⟩
        simp only [List.map_dropLast, h3]
        have : s.next - s.done = (s.next - 1 - s.done) + 1 := by omega
        rw [this, List.range'_concat, List.dropLast_concat]
      · cases hs
    · cases hs
  | serial j wa =>
    simp only [step] at hs
    split at hs
    · split at hs
      · cases hs
        obtain ⟨f1, f2, f3, _⟩ := updJob_fields s j (fun y => { y with serialDone := true })
        refine ⟨by simp [f1, f2]; omega, by simp [f1, f2, f3]; omega, ?_⟩
        simp only [f1, f2]
        rw [map_id_updJob _ _ _ (by intro y; rfl)]; exact h3
      · cases hs
    · cases hs
  | produce j c z =>
    simp only [step] at hs
    split at hs
    · split at hs
      · cases hs
        obtain ⟨f1, f2, f3, _⟩ := updJob_fields s j (fun y => { y with consumed := c, cSize := z })
        refine ⟨by rw [f1, f2]; omega, by rw [f1, f2, f3]; omega, ?_⟩
        rw [f1, f2, map_id_updJob _ _ _ (by intro y; rfl)]; exact h3
      · cases hs
    · cases hs
  | fail j =>
    simp only [step] at hs
    split at hs
    · split at hs
      · cases hs
        obtain ⟨f1, f2, f3, _⟩ := updJob_fields s j (fun y => { y with failed := true, consumed := y.srcSize, serialDone := true })
        have hm := map_id_updJob s j (fun y => { y with failed := true, consumed := y.srcSize, serialDone := true }) (by intro y; rfl)
        split
        · refine ⟨by simp [f1, f2]; omega, by simp [f1, f2, f3]; omega, ?_⟩
          simp only [f1, f2]; rw [hm]; exact h3
        · refine ⟨by rw [f1, f2]; omega, by rw [f1, f2, f3]; omega, ?_⟩
          rw [f1, f2, hm]; exact h3
      · cases hs
    · cases hs
  | flush b =>
    simp only [step] at hs
    split at hs
    · rename_i x hx
      split at hs
      · cases hs
        obtain ⟨f1, f2, f3, _⟩ := updJob_fields s x.id (fun y => { y with flushed := y.flushed + b })
        refine ⟨by simp [f1, f2]; omega, by simp [f1, f2, f3]; omega, ?_⟩
        simp only [f1, f2]
        rw [map_id_updJob _ _ _ (by intro y; rfl)]; exact h3
      · cases hs
    · cases hs
  | retire =>
    simp only [step] at hs
    split at hs
    · rename_i x rest hj
      split at hs
      · rename_i hc
        cases hs
        rw [hj] at h3
        simp only [List.map_cons] at h3
        have hlt : s.done < s.next := by
          by_cases hh : s.done < s.next
          · exact hh
          · have : s.next - s.done = 0 := by omega
            rw [this] at h3; simp at h3
        have : s.next - s.done = (s.next - (s.done + 1)) + 1 := by omega
        rw [this, List.range'_succ] at h3
        refine ⟨by simp; omega, by simp; omega, ?_⟩
        simp only
        exact (List.cons.inj h3).2
      · cases hs
    · cases hs

/-- **ring_safe**: on every path of the protocol, from a state satisfying the invariant -/
theorem ring_safe (evs : List Ev) : ∀ (s s' : St), RingInv s → run s evs = some s' → RingInv s' := by
  induction evs with
  | nil => intro s s' h hr; simp [run] at hr; exact hr ▸ h
  | cons e es ih =>
    intro s s' h hr
    simp only [run] at hr
    split at hr
    · rename_i s1 h1
      exact ih s1 s' (ring_step s s1 e h h1) hr
    · cases hr

/-- **slots_distinct**: two live jobs never share a ring slot (jobID & jobIDMask with mask+1 slots) -/
theorem slots_distinct (s : St) (h : RingInv s) (x y : Job) (hx : x ∈ s.jobs) (hy : y ∈ s.jobs)
    (hslot : x.id % (s.mask + 1) = y.id % (s.mask + 1)) : x.id = y.id := by
  obtain ⟨h1, h2, h3⟩ := h
  have hxi : x.id ∈ s.jobs.map (·.id) := List.mem_map_of_mem hx
  have hyi : y.id ∈ s.jobs.map (·.id) := List.mem_map_of_mem hy
  rw [h3] at hxi hyi
  simp only [List.mem_range'_1] at hxi hyi
  -- both ids lie in [done, done + mask + 1): equal residues force equality
  have hx1 := Nat.div_add_mod x.id (s.mask + 1)
  have hy1 := Nat.div_add_mod y.id (s.mask + 1)
  have hmx := Nat.mod_lt x.id (Nat.succ_pos s.mask)
  by_cases hq : x.id / (s.mask + 1) = y.id / (s.mask + 1)
  · rw [hq, hslot] at hx1; omega
  · exfalso
    rcases Nat.lt_or_gt_of_ne hq with hlt | hgt
    · have : (s.mask + 1) * (x.id / (s.mask + 1) + 1) ≤ (s.mask + 1) * (y.id / (s.mask + 1)) := Nat.mul_le_mul_left _ hlt
      rw [Nat.mul_add, Nat.mul_one] at this
      omega
    · have : (s.mask + 1) * (y.id / (s.mask + 1) + 1) ≤ (s.mask + 1) * (x.id / (s.mask + 1)) := Nat.mul_le_mul_left _ hgt
      rw [Nat.mul_add, Nat.mul_one] at this
      omega

/-- **order (one step)** -/
theorem order_step (s s' : St) (e : Ev) (h : OrderInv s) (hs : step s e = some s') : OrderInv s' := by
  obtain ⟨h1, h2, h3, h4⟩ := h
  cases e with
  | post n ck =>
    simp only [step] at hs
    split at hs <;> cases hs
    exact ⟨h1, h2, h3, h4⟩
  | inline z ck =>
    simp only [step] at hs
    split at hs <;> cases hs
    exact ⟨h1, h2, h3, h4⟩
  | cksum =>
    simp only [step] at hs
    split at hs
    · rename_i x hx
      split at hs
      · cases hs
        obtain ⟨f1, f2, f3, f4, f5, f6⟩ := updJob_fields s x.id (fun y => { y with cSize := y.cSize + 4, ck := false })
        exact ⟨by rw [f6]; exact h1, by rw [f6, f4]; exact h2, by rw [f5]; exact h3, by rw [f5, f1]; exact h4⟩
      · cases hs
    · cases hs
  | unpost =>
    simp only [step] at hs
    split at hs
    · split at hs <;> cases hs
      exact ⟨h1, h2, h3, h4⟩
    · cases hs
  | serial j wa =>
    simp only [step] at hs
    split at hs
    · split at hs
      · rename_i hc
        cases hs
        obtain ⟨f1, f2, f3, f4, f5, f6⟩ := updJob_fields s j (fun y => { y with serialDone := true })
        refine ⟨?_, ?_, by simp only [f5]; exact h3, by simp only [f5, f1]; exact h4⟩
        · simp only [f6]
          rw [List.pairwise_append]
          refine ⟨h1, by simp, ?_⟩
          intro a ha b hb
          simp at hb; subst hb
          have := h2 a ha; omega
        · simp only [f6]
          intro a ha
          rw [List.mem_append] at ha
          rcases ha with ha | ha
          · have := h2 a ha; omega
          · simp at ha; omega
      · cases hs
    · cases hs
  | produce j c z =>
    simp only [step] at hs
    split at hs
    · split at hs
      · cases hs
        obtain ⟨f1, f2, f3, f4, f5, f6⟩ := updJob_fields s j (fun y => { y with consumed := c, cSize := z })
        exact ⟨by rw [f6]; exact h1, by rw [f6, f4]; exact h2, by rw [f5]; exact h3, by rw [f5, f1]; exact h4⟩
      · cases hs
    · cases hs
  | fail j =>
    simp only [step] at hs
    split at hs
    · split at hs
      · cases hs
        obtain ⟨f1, f2, f3, f4, f5, f6⟩ := updJob_fields s j (fun y => { y with failed := true, consumed := y.srcSize, serialDone := true })
        split
        · rename_i hle
          refine ⟨by simp only [f6]; exact h1, ?_, by simp only [f5]; exact h3, by simp only [f5, f1]; exact h4⟩
          simp only [f6]; intro a ha; have := h2 a ha; omega
        · exact ⟨by rw [f6]; exact h1, by rw [f6, f4]; exact h2, by rw [f5]; exact h3, by rw [f5, f1]; exact h4⟩
      · cases hs
    · cases hs
  | flush b =>
    simp only [step] at hs
    split at hs
    · rename_i x hx
      split at hs
      · rename_i hc
        cases hs
        obtain ⟨f1, f2, f3, f4, f5, f6⟩ := updJob_fields s x.id (fun y => { y with flushed := y.flushed + b })
        refine ⟨by simp only [f6]; exact h1, by simp only [f6, f4]; exact h2, ?_, ?_⟩
        · simp only [f5, List.map_append, List.map_cons, List.map_nil]
          rw [List.pairwise_append]
          refine ⟨h3, by simp, ?_⟩
          intro a ha c hc'
          simp at hc'; subst hc'
          obtain ⟨p, hp, rfl⟩ := List.mem_map.mp ha
          have := h4 p hp; omega
        · simp only [f5, f1]
          intro p hp
          rw [List.mem_append] at hp
          rcases hp with hp | hp
          · exact h4 p hp
          · simp at hp; subst hp; simp; omega
      · cases hs
    · cases hs
  | retire =>
    simp only [step] at hs
    split at hs
    · split at hs
      · cases hs
        refine ⟨h1, h2, h3, ?_⟩
        intro p hp; have := h4 p hp; simp; omega
      · cases hs
    · cases hs

/-- **serial_in_order / output_in_order**: on every path, the serial section is entered in strictly increasing job order and the
caller hands out job outputs in non-decreasing job order, never ahead of the oldest unfinished job -/
theorem order_safe (evs : List Ev) : ∀ (s s' : St), OrderInv s → run s evs = some s' → OrderInv s' := by
  induction evs with
  | nil => intro s s' h hr; simp [run] at hr; exact hr ▸ h
  | cons e es ih =>
    intro s s' h hr
    simp only [run] at hr
    split at hr
    · rename_i s1 h1
      exact ih s1 s' (order_step s s1 e h h1) hr
    · cases hr

/-- what every live job satisfies while no job has failed -/
def ProgInv (s : St) : Prop :=
  s.done ≤ s.serialNext ∧
  ∀ x ∈ s.jobs, x.failed = false ∧ (x.inline = false → (x.serialDone = true ↔ x.id < s.serialNext)) ∧ x.flushed ≤ x.cSize ∧ x.consumed ≤ x.srcSize ∧
    (x.inline = true → x.consumed = x.srcSize)

/-- **no_deadlock_partial** (no job has failed): whenever a job is outstanding, some participant - the worker of the oldest job or
the caller - has an enabled step that makes progress: enter the serial section, publish the rest of the job, flush, or retire.
(With a failed job the caller abandons the frame: ZSTDMT_flushProduced's error path, outside this LTS.) -/
theorem no_deadlock_partial (s : St) (hr : RingInv s) (hp : ProgInv s) (hlive : s.done < s.next) :
    ∃ e, (match e with | .post _ _ => False | .inline _ _ => False | .unpost => False | .fail _ => False | _ => True) ∧ (step s e).isSome = true := by
  obtain ⟨r1, r2, r3⟩ := hr
  obtain ⟨p0, p1⟩ := hp
  -- the oldest live job
  have hlen : s.next - s.done = (s.next - s.done - 1) + 1 := by omega
  rw [hlen, List.range'_succ] at r3
  cases hj : s.jobs with
  | nil => rw [hj] at r3; simp at r3
  | cons x rest =>
    rw [hj] at r3
    simp only [List.map_cons] at r3
    have hxid : x.id = s.done := (List.cons.inj r3).1
    have hxm : x ∈ s.jobs := by rw [hj]; exact List.mem_cons_self ..
    obtain ⟨q1, q2, q3, q4, q5⟩ := p1 x hxm
    have hfind : findJob s s.done = some x := by
      unfold findJob; rw [hj]; simp [List.find?, hxid]
    -- the caller's moves once the job is complete: checksum, flush, retire
    have callerMoves : x.consumed = x.srcSize → (x.serialDone = true ∨ x.inline = true) →
        ∃ e, (match e with | .post _ _ => False | .inline _ _ => False | .unpost => False | .fail _ => False | _ => True) ∧ (step s e).isSome = true := by
      intro hc hsi
      by_cases hk : x.ck = true
      · refine ⟨.cksum, trivial, ?_⟩
        simp [step, hj, hxid, hk, hc, q1]
      · by_cases hf : x.flushed = x.cSize
        · refine ⟨.retire, trivial, ?_⟩
          have hk' : x.ck = false := by simpa using hk
          rcases hsi with h | h <;> simp [step, hj, hxid, h, hc, hf, q1, hk']
        · refine ⟨.flush (x.cSize - x.flushed), trivial, ?_⟩
          have : 0 < x.cSize - x.flushed := by omega
          simp [step, hj, hxid, q1, this]
          omega
    by_cases hin : x.inline = true
    · exact callerMoves (q5 hin) (Or.inr hin)
    · have hin' : x.inline = false := by simpa using hin
      by_cases hsd : x.serialDone = true
      · by_cases hc : x.consumed = x.srcSize
        · exact callerMoves hc (Or.inl hsd)
        · refine ⟨.produce s.done x.srcSize x.cSize, trivial, ?_⟩
          simp [step, hfind, hsd, q1, q4, hin']
      · refine ⟨.serial s.done true, trivial, ?_⟩
        have hns : ¬ x.id < s.serialNext := fun h => hsd ((q2 hin').mpr h)
        have : s.done = s.serialNext := by omega
        simp [step, hfind, this.symm, hsd, hin']

example : RingInv { mask := 3 } := by simp [RingInv]
example : (run { mask := 1 } [.post 10 false, .post 20 false, .serial 0 true, .produce 0 10 7, .serial 1 true, .flush 7, .retire, .post 5 true, .produce 1 20 3]).isSome = true := by decide
example : run { mask := 3 } [.post 10 false, .post 20 false, .post 30 false, .serial 0 false] = none := by decide   -- one signal, two possible waiters
example : run { mask := 1 } [.post 10 false, .post 20 false, .post 30 false] = none := by decide        -- ring of 2 is full
example : run { mask := 1 } [.post 10 false, .post 20 false, .serial 1 true] = none := by decide       -- serial section out of order

end ZstdVerif.Props.C11
