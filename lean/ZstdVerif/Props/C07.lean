/-
C07 — compressed output is a pure function of input, parameters, dictionary and calls.
Mechanisms that make it so, as theorems: (1) job boundaries in multithreaded mode depend only on the byte counts fed, not on
how much each call manages to load before the ring / workers make room (partial acceptance = splitting a call);
(2) after a context reset every index a previous frame left in the match tables lies below the new lowLimit, so it can
never be used.
-/
import ZstdVerif.Model.MT
import ZstdVerif.Model.Window
import ZstdVerif.Model.WindowUpdate
namespace ZstdVerif.Props.C07
open ZstdVerif ZstdVerif.MT

theorem div_split (x b T : Nat) (hT : 0 < T) : (x + b) / T = x / T + (x % T + b) / T := by
  have hx := Nat.div_add_mod x T
  have : x + b = T * (x / T) + (x % T + b) := by omega
  rw [this, Nat.mul_add_div hT]

theorem mod_split (x b T : Nat) : (x + b) % T = (x % T + b) % T := by
  rw [Nat.add_mod, Nat.add_mod (x % T) b, Nat.mod_mod]

/-- **job boundaries do not depend on how a call's bytes were accepted**: feeding a bytes and then b bytes (because the
ring or the workers made room only later - a schedule-dependent event) cuts exactly the same jobs and leaves the same
number of buffered bytes as feeding a + b bytes at once -/
theorem jobCuts_split_invariant (T : Nat) (hT : 0 < T) (c : Cut) (a b : Nat) :
    feed T (feed T c a) b = feed T c (a + b) := by
  unfold feed
  simp only
  have h1 := div_split (c.filled + a) b T hT
  have h2 := mod_split (c.filled + a) b T
  rw [show c.filled + (a + b) = c.filled + a + b by omega, h1, h2, List.append_assoc, List.replicate_append_replicate]

/-- hence any way of slicing the same byte stream into calls gives the same jobs -/
theorem jobCuts_any_slicing (T : Nat) (hT : 0 < T) (c : Cut) (a : Nat) (slices : List Nat) :
    slices.foldl (feed T) (feed T c a) = feed T c (a + slices.sum) := by
  induction slices generalizing a with
  | nil => simp
  | cons b t ih => rw [List.foldl_cons, jobCuts_split_invariant T hT, ih, List.sum_cons, Nat.add_assoc]

/-- every job cut by `feed` is exactly one section long, and fewer than a section stays buffered -/
theorem feed_jobs_full (T : Nat) (hT : 0 < T) (c : Cut) (n : Nat) :
    (feed T c n).filled < T ∧ ∀ j ∈ (feed T c n).jobs, j ∈ c.jobs ∨ j = T := by
  unfold feed
  refine ⟨Nat.mod_lt _ hT, ?_⟩
  intro j hj
  simp only [List.mem_append, List.mem_replicate] at hj
  rcases hj with h | h
  · exact Or.inl h
  · exact Or.inr h.2

/-! ### (2) stale table entries are unreachable after a reset -/

/-- ZSTD_window_clear (used by ZSTD_invalidateMatchState in continue-mode resets): both limits jump to the end of what was
ever indexed -/
def windowClear (nextSrcIdx : Nat) : Window.Win → Window.Win := fun w => { w with lowLimit := nextSrcIdx, dictLimit := nextSrcIdx }

/-- every index a previous frame could have stored (all < nextSrc - base) is below the new lowLimit: whatever the match
tables contain - including values written by failed or aborted operations - no stale entry passes the `index >= lowLimit`
test of the match finders -/
theorem reset_unreachable_stale (w : Window.Win) (nextSrcIdx idx : Nat) (h : idx < nextSrcIdx) :
    idx < (windowClear nextSrcIdx w).lowLimit ∧ idx < (windowClear nextSrcIdx w).dictLimit := ⟨h, h⟩

example : feed 100 ⟨[], 30⟩ 250 = ⟨[100, 100], 80⟩ := by decide

/-! ### (3) where the caller's buffer lies does not matter (ZSTD_window_update) -/

open ZstdVerif.WindowUpdate in
theorem cutDict_dictLimit (w : WinP) (ip : Int) (n : Nat) : (cutDict w ip n).dictLimit = w.dictLimit := by
  unfold cutDict; split <;> rfl

open ZstdVerif.WindowUpdate in
/-- a segment that shares no byte with the external dictionary leaves it alone - in particular one that ends exactly where
the dictionary starts or starts exactly where it ends (half-open intervals) -/
theorem cutDict_disjoint (w : WinP) (ip : Int) (n : Nat)
    (h : ip + n ≤ w.dictBase + w.lowLimit ∨ w.dictBase + w.dictLimit ≤ ip) : cutDict w ip n = w := by
  unfold cutDict
  rw [if_neg]
  omega

open ZstdVerif.WindowUpdate in
theorem cutDict_emptyDict (w : WinP) (ip : Int) (n : Nat) (h : w.lowLimit = w.dictLimit) :
    (cutDict w ip n).lowLimit = w.lowLimit := by
  unfold cutDict
  split
  · rename_i hc
    have : ip + ↑n - w.dictBase > ↑w.dictLimit := by omega
    simp only [this, if_true, h]
  · rfl

/-- the segment [ip, ip+n) shares no byte with the current prefix [base+dictLimit, nextSrc) -/
def SegDisjoint (w : WindowUpdate.WinP) (ip : Int) (n : Nat) : Prop := ip + n ≤ w.base + w.dictLimit ∨ w.nextSrc ≤ ip

open ZstdVerif.WindowUpdate in
/-- a segment that starts a new run (not contiguous, or contiguity switched off) and does not overwrite the previous run gets
limits that are a function of the window alone: the WHOLE previous run becomes the dictionary (or none of it when it is
shorter than HASH_READ_SIZE), wherever the segment lies -/
theorem update_newRun_limits (w : WinP) (ip : Int) (n : Nat) (force : Bool) (hn : n ≠ 0) (hw : w.base + w.dictLimit ≤ w.nextSrc)
    (hsplit : ip ≠ w.nextSrc ∨ force = true) (hd : SegDisjoint w ip n) :
    (update w ip n force).1.lowLimit = (newSegment w 0).lowLimit ∧ (update w ip n force).1.dictLimit = (newSegment w 0).dictLimit
      ∧ (update w ip n force).2 = false := by
  have hs : (decide (ip ≠ w.nextSrc) || force) = true := by
    rcases hsplit with h | h
    · simp [h]
    · simp [h]
  unfold update
  simp only [hn, if_false, hs, if_true, Bool.not_true]
  refine ⟨?_, ?_, trivial⟩
  · by_cases hsz : (w.nextSrc - w.base).toNat - w.dictLimit < HASH_READ_SIZE
    · rw [cutDict_emptyDict]
      · simp only [newSegment, hsz, if_true]
      · simp only [newSegment, hsz, if_true]
    · rw [cutDict_disjoint]
      · simp only [newSegment, hsz, if_false]
      · unfold SegDisjoint at hd
        simp only [newSegment, hsz, if_false]
        omega
  · rw [cutDict_dictLimit]
    simp only [newSegment]

open ZstdVerif.WindowUpdate in
/-- **placement independence**: two placements of the same new run, neither overwriting the previous run, give the same
limits and the same `contiguous` answer -/
theorem update_placement_independent (w : WinP) (ip ip' : Int) (n : Nat) (force : Bool) (hn : n ≠ 0)
    (hw : w.base + w.dictLimit ≤ w.nextSrc) (h1 : ip ≠ w.nextSrc ∨ force = true) (h2 : ip' ≠ w.nextSrc ∨ force = true)
    (hd : SegDisjoint w ip n) (hd' : SegDisjoint w ip' n) :
    (update w ip n force).1.lowLimit = (update w ip' n force).1.lowLimit
      ∧ (update w ip n force).1.dictLimit = (update w ip' n force).1.dictLimit
      ∧ (update w ip n force).2 = (update w ip' n force).2 := by
  have a := update_newRun_limits w ip n force hn hw h1 hd
  have b := update_newRun_limits w ip' n force hn hw h2 hd'
  exact ⟨a.1.trans b.1.symm, a.2.1.trans b.2.1.symm, a.2.2.trans b.2.2.symm⟩

open ZstdVerif.WindowUpdate in
/-- in particular the placement ZSTD_c_deterministicRefPrefix exists for: the input directly behind the prefix, contiguity
switched off - the prefix stays the dictionary exactly as if the input were anywhere else -/
theorem forced_adjacent_keeps_dictionary (w : WinP) (n : Nat) (hn : n ≠ 0) (hw : w.base + w.dictLimit ≤ w.nextSrc) :
    (update w w.nextSrc n true).1.lowLimit = (newSegment w 0).lowLimit
      ∧ (update w w.nextSrc n true).1.dictLimit = (newSegment w 0).dictLimit := by
  have a := update_newRun_limits w w.nextSrc n true hn hw (Or.inr rfl) (Or.inr (Int.le_refl _))
  exact ⟨a.1, a.2.1⟩

end ZstdVerif.Props.C07
