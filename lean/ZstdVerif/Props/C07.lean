/-
C07 — compressed output is a pure function of input, parameters, dictionary and calls.
Mechanisms that make it so, as theorems: (1) job boundaries in multithreaded mode depend only on the byte counts fed, not on
how much each call manages to load before the ring / workers make room (partial acceptance = splitting a call);
(2) after a context reset every index a previous frame left in the match tables lies below the new lowLimit, so it can
never be used.
-/
import ZstdVerif.Model.MT
import ZstdVerif.Model.Window
namespace ZstdVerif.Props.C07
open ZstdVerif ZstdVerif.MT

theorem div_split (x b T : Nat) (hT : 0 < T) : (x + b) / T = x / T + (x % T + b) / T := by
  have hx := Nat.div_add_mod x T
  have : x + b = T * (x / T) + (x % T + b) := by omega
  rw [this, Nat.mul_add_div hT]

theorem mod_split (x b T : Nat) : (x + b) % T = (x % T + b) % T := by
  rw [Nat.add_mod, Nat.add_mod (x % T) b, Nat.mod_mod]

/-- **job boundaries do not depend on how a call's bytes were accepted**: feeding a bytes and then b bytes (because the
ring or the workers made room only later - a schedule-dependent event) cuts exactly the same jobs and leaves the same
number of buffered bytes as feeding a + b bytes at once -/
theorem jobCuts_split_invariant (T : Nat) (hT : 0 < T) (c : Cut) (a b : Nat) :
    feed T (feed T c a) b = feed T c (a + b) := by
  unfold feed
  simp only
  have h1 := div_split (c.filled + a) b T hT
  have h2 := mod_split (c.filled + a) b T
  rw [show c.filled + (a + b) = c.filled + a + b by omega, h1, h2, List.append_assoc, List.replicate_append_replicate]

/-- hence any way of slicing the same byte stream into calls gives the same jobs -/
theorem jobCuts_any_slicing (T : Nat) (hT : 0 < T) (c : Cut) (a : Nat) (slices : List Nat) :
    slices.foldl (feed T) (feed T c a) = feed T c (a + slices.sum) := by
  induction slices generalizing a with
  | nil => simp
  | cons b t ih => rw [List.foldl_cons, jobCuts_split_invariant T hT, ih, List.sum_cons, Nat.add_assoc]

/-- every job cut by `feed` is exactly one section long, and fewer than a section stays buffered -/
theorem feed_jobs_full (T : Nat) (hT : 0 < T) (c : Cut) (n : Nat) :
    (feed T c n).filled < T ∧ ∀ j ∈ (feed T c n).jobs, j ∈ c.jobs ∨ j = T := by
  unfold feed
  refine ⟨Nat.mod_lt _ hT, ?_⟩
  intro j hj
  simp only [List.mem_append, List.mem_replicate] at hj
  rcases hj with h | h
  · exact Or.inl h
  · exact Or.inr h.2

/-! ### (2) stale table entries are unreachable after a reset -/

/-- ZSTD_window_clear (used by ZSTD_invalidateMatchState in continue-mode resets): both limits jump to the end of what was
ever indexed -/
def windowClear (nextSrcIdx : Nat) : Window.Win → Window.Win := fun w => { w with lowLimit := nextSrcIdx, dictLimit := nextSrcIdx }

/-- every index a previous frame could have stored (all < nextSrc - base) is below the new lowLimit: whatever the match
tables contain - including values written by failed or aborted operations - no stale entry passes the `index >= lowLimit`
test of the match finders -/
theorem reset_unreachable_stale (w : Window.Win) (nextSrcIdx idx : Nat) (h : idx < nextSrcIdx) :
    idx < (windowClear nextSrcIdx w).lowLimit ∧ idx < (windowClear nextSrcIdx w).dictLimit := ⟨h, h⟩

example : feed 100 ⟨[], 30⟩ 250 = ⟨[100, 100], 80⟩ := by decide

end ZstdVerif.Props.C07
