/-
C03 — decoding untrusted bytes is memory-safe, bounded and terminating.
Theorems on the pieces whose safety is an arithmetic fact of the code (regenerated from the source):
the DDict hash-set probe (the frame header's dictID is attacker-controlled) and the bit reader.
-/
import ZstdVerif.Model.DDictHS
import ZstdVerif.Model.Bits
namespace ZstdVerif.Props.C03
open ZstdVerif ZstdVerif.DDictHS ZstdVerif.Gen.DDictHS

/-- **the probe never leaves the table**: whatever the current index, the next index of either probe loop is < size
(false of the original code, whose step was `(idx &&& mask) + 1`). -/
theorem probe_inbounds (k idx : Nat) :
    probeNextGet idx (2 ^ k - 1) < 2 ^ k ∧ probeNextEmplace idx (2 ^ k - 1) < 2 ^ k := by
  have hp : 0 < 2 ^ k := Nat.two_pow_pos k
  unfold probeNextGet probeNextEmplace
  constructor <;> (have := @Nat.and_le_right (idx + 1) (2 ^ k - 1); omega)

/-- the probe walks the table cyclically: its step is `+1 mod size` -/
theorem probe_is_cyclic (k idx : Nat) : probeNextGet idx (2 ^ k - 1) = (idx + 1) % 2 ^ k := by
  unfold probeNextGet
  exact Nat.and_two_pow_sub_one_eq_mod (idx + 1) k

/-- **the table never fills**: if at most half of the slots are used before an insertion, at most half are used after it
(the table is expanded first whenever the regenerated load-factor condition holds).  Hence there is always an empty slot. -/
theorem add_keeps_half_empty (count size : Nat) (hs : 2 ≤ size) (hinv : count * 2 ≤ size) :
    (afterAdd count size).1 * 2 ≤ (afterAdd count size).2 := by
  unfold afterAdd expandCond DDICT_HASHSET_RESIZE_FACTOR
  split
  · simp; omega
  · rename_i hc
    simp at hc
    simp
    have : count * 4 / size = 0 := by
      rcases Nat.eq_zero_or_pos (count * 4 / size) with h | h
      · exact h
      · exfalso; have := Nat.mul_pos h (by decide : 0 < 3); omega
    have hlt : count * 4 < size := by
      have := (Nat.div_eq_zero_iff (b := size) (a := count * 4)).mp this
      omega
    omega

/-- **the lookup terminates**: a cyclic probe from any start index reaches any given empty slot within `size` steps,
so `ZSTD_DDictHashSet_getDDict` returns for every (attacker-chosen) dictID as long as one slot is empty. -/
theorem cyclic_probe_reaches (size idx0 e : Nat) (hi : idx0 < size) (he : e < size) :
    ∃ j, j < size ∧ (idx0 + j) % size = e := by
  by_cases h : idx0 ≤ e
  · exact ⟨e - idx0, by omega, by rw [show idx0 + (e - idx0) = e by omega]; exact Nat.mod_eq_of_lt he⟩
  · refine ⟨e + size - idx0, by omega, ?_⟩
    rw [show idx0 + (e + size - idx0) = e + size by omega, Nat.add_mod_right]
    exact Nat.mod_eq_of_lt he

/-! bit reader: an over-read is sticky and is never reported as a clean end (also used by C01) -/
theorem bitreader_overread_is_error (r : BitR) (n : Nat) (h : r.left < n) : ((r.read n).2).atEnd = false := by
  unfold BitR.read BitR.atEnd
  rw [if_neg (by omega)]
  simp

example : (afterAdd 16 64) = (17, 128) := by decide
example : probeGet { k := 2, slots := [some 5, some 9, none, some 1], count := 3 } 7 4 0 = some 2 := by decide

end ZstdVerif.Props.C03
