/-
C03 — decoding untrusted bytes is memory-safe, bounded and terminating.
Theorems on the pieces whose safety is an arithmetic fact of the code (regenerated from the source):
the DDict hash-set probe (the frame header's dictID is attacker-controlled) and the bit reader.
-/
import ZstdVerif.Model.DDictHS
import ZstdVerif.Model.Bits
import ZstdVerif.Lemmas.ExecRT
import ZstdVerif.Lemmas.TableSafe
import ZstdVerif.Lemmas.SpreadRT
namespace ZstdVerif.Props.C03
open ZstdVerif ZstdVerif.DDictHS ZstdVerif.Gen.DDictHS

/-- **the probe never leaves the table**: whatever the current index, the next index of either probe loop is < size
(false of the original code, whose step was `(idx &&& mask) + 1`). -/
theorem probe_inbounds (k idx : Nat) :
    probeNextGet idx (2 ^ k - 1) < 2 ^ k ∧ probeNextEmplace idx (2 ^ k - 1) < 2 ^ k := by
  have hp : 0 < 2 ^ k := Nat.two_pow_pos k
  unfold probeNextGet probeNextEmplace
  constructor <;> (have := @Nat.and_le_right (idx + 1) (2 ^ k - 1); omega)

/-- the probe walks the table cyclically: its step is `+1 mod size` -/
theorem probe_is_cyclic (k idx : Nat) : probeNextGet idx (2 ^ k - 1) = (idx + 1) % 2 ^ k := by
  unfold probeNextGet
  exact Nat.and_two_pow_sub_one_eq_mod (idx + 1) k

/-- **the table never fills**: if at most half of the slots are used before an insertion, at most half are used after it
(the table is expanded first whenever the regenerated load-factor condition holds).  Hence there is always an empty slot. -/
theorem add_keeps_half_empty (count size : Nat) (hs : 2 ≤ size) (hinv : count * 2 ≤ size) :
    (afterAdd count size).1 * 2 ≤ (afterAdd count size).2 := by
  unfold afterAdd expandCond DDICT_HASHSET_RESIZE_FACTOR
  split
  · simp; omega
  · rename_i hc
    simp at hc
    simp
    have : count * 4 / size = 0 := by
      rcases Nat.eq_zero_or_pos (count * 4 / size) with h | h
      · exact h
      · exfalso; have := Nat.mul_pos h (by decide : 0 < 3); omega
    have hlt : count * 4 < size := by
      have := (Nat.div_eq_zero_iff (b := size) (a := count * 4)).mp this
      omega
    omega

/-- **the lookup terminates**: a cyclic probe from any start index reaches any given empty slot within `size` steps,
so `ZSTD_DDictHashSet_getDDict` returns for every (attacker-chosen) dictID as long as one slot is empty. -/
theorem cyclic_probe_reaches (size idx0 e : Nat) (hi : idx0 < size) (he : e < size) :
    ∃ j, j < size ∧ (idx0 + j) % size = e := by
  by_cases h : idx0 ≤ e
  · exact ⟨e - idx0, by omega, by rw [show idx0 + (e - idx0) = e by omega]; exact Nat.mod_eq_of_lt he⟩
  · refine ⟨e + size - idx0, by omega, ?_⟩
    rw [show idx0 + (e + size - idx0) = e + size by omega, Nat.add_mod_right]
    exact Nat.mod_eq_of_lt he

/-! bit reader: an over-read is sticky and is never reported as a clean end (also used by C01) -/
theorem bitreader_overread_is_error (r : BitR) (n : Nat) (h : r.left < n) : ((r.read n).2).atEnd = false := by
  unfold BitR.read BitR.atEnd
  rw [if_neg (by omega)]
  simp

example : (afterAdd 16 64) = (17, 128) := by decide
example : probeGet { k := 2, slots := [some 5, some 9, none, some 1], count := 3 } 7 4 0 = some 2 := by decide


/-! ### the decoder model, on ANY bytes: result within the capacity, earlier output never rewritten, no out-of-range access in the executor

`Frame.decompressAll` is the model of ZSTD_decompress / ZSTD_decompressDCtx / _usingDict (tied to them on every mutant of every run).
The theorems below hold for every byte string, dictionary and capacity - no validity hypothesis. -/

/-- **decompress_within_capacity**: whatever the input, a successful single-call decode returns at most `cap` bytes -/
theorem decompress_within_capacity {src : Bytes} {dict : Frame.Dict} {cap : Nat} {o : Frame.Opts} {res : ByteArray × Array Frame.FrameTrace}
    (h : Frame.decompressAll src dict cap o = .ok res) : res.1.size ≤ cap :=
  Frame.decompressAll_within_capacity h

/-- one frame: the result stays within the capacity and extends the output that was already there (nothing behind the write
position of an earlier frame is ever rewritten) -/
theorem decompressFrame_within_capacity {src : Bytes} {ip0 rem : Nat} {dict : Frame.Dict} {out0 : ByteArray} {cap : Nat} {o : Frame.Opts}
    {res : ByteArray × Nat × Frame.FrameTrace}
    (h : Frame.decompressFrame src ip0 rem dict out0 cap o = .ok res) (h0 : out0.size ≤ cap) :
    res.1.size ≤ cap ∧ ∃ t : ByteArray, res.1 = out0 ++ t :=
  Frame.decompressFrame_within_capacity h h0

/-- one compressed block (ZSTD_decompressBlock_internal), any bytes, any entropy state -/
theorem decodeBlock_within_capacity {src : Bytes} {start cSize : Nat} {ent : Block.Entropy} {dict : Bytes} {o : Block.Out} {bsm : Nat}
    {out : ByteArray} {e : Block.Entropy} {tr : Block.Trace}
    (h : Block.decodeBlock src start cSize ent dict o bsm = .ok (out, e, tr)) :
    out.size ≤ max o.cap o.out.size ∧ ∃ t : ByteArray, out = o.out ++ t :=
  Block.decodeBlock_within_capacity h

/-- a decodable prefix of a frame (what a completed flush exposes) likewise -/
theorem decompressPrefix_within_capacity {src : Bytes} {dict : Frame.Dict} {cap : Nat} {o : Frame.Opts} {out : ByteArray}
    (h : Frame.decompressPrefix src dict cap o = .ok out) : out.size ≤ cap :=
  Frame.decompressPrefix_within_capacity h

/-- **exec_no_oob**: the three checks of ZSTD_execSequence (room for literals + match, literals available, offset within history +
dictionary) are sufficient: with them, the executor that FAILS on any out-of-range read of the output, the dictionary or the literals
never fails - it computes exactly what the unchecked executor computes - for every sequence list with non-zero offsets ... -/
theorem exec_no_oob (dict lits : ByteArray) (o : Exec.Out) (seqs : List Exec.Seq) (chk : R Unit) (h1 : ∀ s ∈ seqs, 1 ≤ s.offset) :
    Exec.runChecked dict o lits seqs chk = some (Exec.run dict o lits seqs chk) :=
  Exec.exec_no_oob dict lits o seqs chk h1

/-- ... and the sequence decoder only ever produces non-zero offsets from a non-zero repeat-offset history (a zero taken from a
corrupted history becomes 2^64-1, which the executor's offset check refuses), so the hypothesis of `exec_no_oob` is met by
whatever bit stream and tables the block carries -/
theorem exec_decoded_no_oob (dict lits : ByteArray) (o : Exec.Out) (chk : R Unit)
    (llT ofT mlT : Array Gen.SeqCell) (nbSeq sLL0 sOF0 sML0 : Nat) (r0 : BitR) (rep0 : Array Nat)
    (h0 : 1 ≤ rep0[0]!) (h1 : 1 ≤ rep0[1]!) (h2 : 1 ≤ rep0[2]!) :
    Exec.runChecked dict o lits (Block.decodeSeqs llT ofT mlT nbSeq sLL0 sOF0 sML0 r0 rep0).seqs.toList chk =
      some (Exec.run dict o lits (Block.decodeSeqs llT ofT mlT nbSeq sLL0 sOF0 sML0 r0 rep0).seqs.toList chk) :=
  Block.exec_decoded_no_oob dict lits o chk llT ofT mlT nbSeq sLL0 sOF0 sML0 r0 rep0 h0 h1 h2


/-! ### entropy tables: no index leaves its table, whatever the bit stream says

The model writes every table access `t[i]!`; each theorem below says that the twin which FAILS on an out-of-range index never fails. -/

open TableSafe FSE in
/-- **readNCount_normOK** (FSE_readNCount): whatever bytes a table description consists of, an ACCEPTED description is a normalised
distribution: counts ≥ -1 summing to 2^tableLog, at most maxSymbolValue+1 symbols, 5 ≤ tableLog ≤ 15 -/
theorem readNCount_normOK (src : Bytes) (start n maxSV : Nat) (nc : NCount) (h : FSE.readNCount src start n maxSV = .ok nc) :
    NormOK nc.norm nc.tableLog ∧ nc.norm.size ≤ maxSV + 1 ∧ 5 ≤ nc.tableLog ∧ nc.tableLog ≤ 15 :=
  TableSafe.readNCount_normOK src start n maxSV nc h

open TableSafe FSE in
/-- **fse_cells_closed** (FSE_buildDTable / ZSTD_buildFSETable): for a normalised distribution and a spreading that respects its counts, every
cell keeps the state inside the table: `newState + 2^nbBits ≤ 2^tableLog`, `nbBits ≤ tableLog`, symbol inside the alphabet -/
theorem fse_cells_closed {syms : Array Nat} {norm : Array Int} {L : Nat} (hN : NormOK norm L) (hS : SpreadOK syms norm L) :
    (cellsOf syms norm L).size = 2 ^ L ∧ ∀ u, u < 2 ^ L →
      ((cellsOf syms norm L)[u]!).nbBits ≤ L ∧
      ((cellsOf syms norm L)[u]!).newState + 2 ^ ((cellsOf syms norm L)[u]!).nbBits ≤ 2 ^ L ∧
      ((cellsOf syms norm L)[u]!).sym < norm.size :=
  TableSafe.cell_closed hN hS

open TableSafe in
/-- the three predefined tables and every RLE table are closed -/
theorem default_and_rle_tables_closed (sym : Nat) (base bits : List Nat) :
    SeqClosed Gen.LL_defaultDTable.toArray Gen.LL_DEFAULTNORMLOG ∧ SeqClosed Gen.OF_defaultDTable.toArray Gen.OF_DEFAULTNORMLOG ∧
    SeqClosed Gen.ML_defaultDTable.toArray Gen.ML_DEFAULTNORMLOG ∧ SeqClosed (FSE.rleSeqTable sym base bits) 0 :=
  ⟨default_tables_closed.1, default_tables_closed.2.1, default_tables_closed.2.2, rleSeqTable_closed sym base bits⟩

open TableSafe in
/-- every table `Block.buildSeqTable` (ZSTD_buildSeqTable: predefined / RLE / FSE-described / repeat) hands to the sequence decoder is closed,
given that the previous block's table was and that the spreading of an accepted description respects its counts (decidable; evaluated by the
driver on every table of every run, proved for the predefined distributions) -/
theorem block_tables_closed {mode : Nat} {src : Bytes} {ip iend maxSym maxLog : Nat} {base bits : List Nat}
    {dflt : List Gen.SeqCell} {dfltLog : Nat} {prev : Array Gen.SeqCell} {prevLog : Nat} {fseValid : Bool}
    {T : Array Gen.SeqCell} {log used : Nat}
    (h : Block.buildSeqTable mode src ip iend maxSym maxLog base bits dflt dfltLog prev prevLog fseValid = .ok (T, log, used))
    (hd : SeqClosed dflt.toArray dfltLog) (hp : fseValid = true → SeqClosed prev prevLog)
    (hspread : ∀ nc, FSE.readNCount src ip (iend - ip) maxSym = .ok nc → FSE.SpreadOK (FSE.spread nc.norm nc.tableLog) nc.norm nc.tableLog) :
    SeqClosed T log :=
  TableSafe.block_buildSeqTable_closed h hd hp hspread

open TableSafe in
/-- **block_tables_closed_any_bytes**: `block_tables_closed` with its spreading hypothesis PROVED (`FSE.spread_ok`, Lemmas/SpreadRT.lean: for
every normalised distribution with `4 ≤ tableLog` the spreading of FSE_buildDTable_internal / ZSTD_buildFSETable_body respects the
counts; `readNCount_normOK`: what FSE_readNCount accepts is normalised with `5 ≤ tableLog`): whatever the bytes, every table
ZSTD_buildSeqTable hands to the sequence decoder keeps the FSE states inside the table, given only that the previous block's did -/
theorem block_tables_closed_any_bytes {mode : Nat} {src : Bytes} {ip iend maxSym maxLog : Nat} {base bits : List Nat}
    {dflt : List Gen.SeqCell} {dfltLog : Nat} {prev : Array Gen.SeqCell} {prevLog : Nat} {fseValid : Bool}
    {T : Array Gen.SeqCell} {log used : Nat}
    (h : Block.buildSeqTable mode src ip iend maxSym maxLog base bits dflt dfltLog prev prevLog fseValid = .ok (T, log, used))
    (hd : SeqClosed dflt.toArray dfltLog) (hp : fseValid = true → SeqClosed prev prevLog) : SeqClosed T log :=
  TableSafe.block_buildSeqTable_closed h hd hp (fun nc hr => by
    obtain ⟨hN, _, h5, _⟩ := TableSafe.readNCount_normOK _ _ _ _ nc hr
    exact FSE.spread_ok hN (by omega))

open TableSafe in
/-- **seq_states_inbounds** (ZSTD_decodeSequence / ZSTD_updateFseStateWithDInfo): with closed tables, for ANY reader state (any bytes) and any
number of sequences, the three FSE state indices stay inside their tables in every iteration - the initial states being read exactly as
`Block.prepare` reads them -/
theorem seq_states_inbounds (llT ofT mlT : Array Gen.SeqCell) (llLog ofLog mlLog : Nat) (hLL : SeqClosed llT llLog)
    (hOF : SeqClosed ofT ofLog) (hML : SeqClosed mlT mlLog) (nbSeq : Nat) (r0 : BitR) (rep0 : Array Nat) :
    decodeSeqsChecked llT ofT mlT nbSeq (r0.read llLog).1 ((r0.read llLog).2.read ofLog).1
        (((r0.read llLog).2.read ofLog).2.read mlLog).1 (((r0.read llLog).2.read ofLog).2.read mlLog).2 rep0 =
      some (Block.decodeSeqs llT ofT mlT nbSeq (r0.read llLog).1 ((r0.read llLog).2.read ofLog).1
        (((r0.read llLog).2.read ofLog).2.read mlLog).1 (((r0.read llLog).2.read ofLog).2.read mlLog).2 rep0) :=
  TableSafe.decodeSeqs_from_stream_inbounds llT ofT mlT llLog ofLog mlLog hLL hOF hML nbSeq r0 rep0

open TableSafe Huf HufRT in
/-- **huf_lookup_inbounds** (HUF_readStats → HUF_readDTableX1 → HUF_decodeSymbolX1): whatever bytes a Huffman tree description consists of, if it
is ACCEPTED the weights are complete (Kraft), the table has exactly 2^tableLog cells, and every lookup of the one-stream and four-stream
decoders is inside it, for any stream bytes -/
theorem huf_lookup_inbounds (src : Bytes) (start n hmax : Nat) (st : Stats) (h : readStats src start n hmax = .ok st) :
    WeightsOK st.weights st.tableLog ∧
    (tableCells st.weights.toList st.tableLog).length = 2 ^ st.tableLog ∧
    (buildTable st).cells = (tableCells st.weights.toList st.tableLog).toArray ∧
    (∀ (src2 : Bytes) (start2 len k : Nat) (out : ByteArray) (fp : Bool),
      decode1Checked (buildTable st) src2 start2 len k out fp = lift (decode1 (buildTable st) src2 start2 len k out fp)) ∧
    (∀ (src2 : Bytes) (start2 len k : Nat) (out : ByteArray),
      decode4Checked (buildTable st) src2 start2 len k out = lift (decode4 (buildTable st) src2 start2 len k out)) :=
  TableSafe.huf_lookup_inbounds_readStats src start n hmax st h

open TableSafe in
/-- a bit read of `n` bits is `< 2^n` in every reader state, over-reads included -/
theorem read_lt (r : BitR) (n : Nat) : (r.read n).1 < 2 ^ n := TableSafe.read_lt r n

end ZstdVerif.Props.C03
