/-
C14 — memory budgets: the streaming decoder never holds buffers larger than the documented function of its window limit,
and refuses frames that need more.
-/
import ZstdVerif.Model.DBuf
namespace ZstdVerif.Props.C14
open ZstdVerif ZstdVerif.DBuf ZstdVerif.Gen

/-- **dstream_buffers_le**: for every frame whose (clamped) window is within the limit W (W ≥ 1 KiB), whatever its content size
field and block-size limit (≤ min(window, 128 KiB) as ZSTD_getFrameHeader computes it), the buffers the decoder allocates fit in
ZSTD_estimateDStreamSize(W) − sizeof(DCtx): a static DStream sized by the estimate never needs more, a heap one never holds more. -/
theorem dstream_buffers_le (hw W : Nat) (fcs : Option Nat) (b : Nat)
    (hacc : windowAccepted hw W = true) (hb : b ≤ min hw ZSTD_BLOCKSIZE_MAX) :
    neededBuffers hw fcs b ≤ estimateBuffers W := by
  unfold windowAccepted effectiveWindow at hacc
  simp only [decide_eq_true_eq] at hacc
  unfold neededBuffers estimateBuffers decodingBufferSize effectiveWindow
  unfold ZSTD_WINDOWLOG_ABSOLUTEMIN at *
  unfold ZSTD_BLOCKSIZE_MAX WILDCOPY_OVERLENGTH at *
  have h10 : (2 : Nat) ^ 10 = 1024 := by decide
  rw [h10] at *
  cases fcs with
  | none => simp only; omega
  | some n => simp only; omega

/-- **dstream_window_refused**: a frame whose window exceeds the limit is refused, before any buffer is sized; windows below
1 KiB are treated as 1 KiB -/
theorem dstream_window_refused (hw W : Nat) : windowAccepted hw W = false ↔ W < max hw (2 ^ ZSTD_WINDOWLOG_ABSOLUTEMIN) := by
  unfold windowAccepted effectiveWindow
  simp [Nat.not_le]

/-- the estimate is monotone in the window limit: a larger limit never budgets less -/
theorem estimate_monotone (a b : Nat) (h : a ≤ b) : estimateBuffers a ≤ estimateBuffers b := by
  unfold estimateBuffers decodingBufferSize
  unfold ZSTD_BLOCKSIZE_MAX WILDCOPY_OVERLENGTH
  simp only
  omega

/-- a known content size can only shrink the output buffer -/
theorem fcs_shrinks (w : Nat) (n b : Nat) : decodingBufferSize w (some n) b ≤ decodingBufferSize w none b := by
  unfold decodingBufferSize; simp only; omega

example : estimateBuffers (1 <<< 17) = 131072 + (131072 + 262144 + 64) := by decide
example : windowAccepted 1048576 32768 = false ∧ windowAccepted 5 1024 = true := by decide

end ZstdVerif.Props.C14
