/-
C14 — memory budgets.
(1) compression side: the workspace allocator never fails on a reservation sequence that fits (two alignment gaps of < 64 bytes);
    the reservation sequence of ZSTD_resetCCtx_internal for ANY resolved parameters fits in the estimate computed by the shared
    sizing routine; hence a static context of the estimated size, at any 8-byte-aligned address, serves the session without a
    failed reservation - the first time and after every ZSTD_cwksp_clear.
(2) decompression side: the streaming decoder never holds buffers larger than the documented function of its window limit,
    and refuses frames that need more.
-/
import ZstdVerif.Model.DBuf
import ZstdVerif.Model.Estimate
import ZstdVerif.Lemmas.Cwksp
import ZstdVerif.Lemmas.Estimate
set_option linter.unusedSimpArgs false
namespace ZstdVerif.Props.C14
open ZstdVerif ZstdVerif.DBuf ZstdVerif.Gen ZstdVerif.Cwksp ZstdVerif.Estimate

/-! ### compression workspace -/

/-- the object sizes the code reserves are already multiples of sizeof(void*): reserve_object's rounding adds nothing -/
theorem object_sizes_rounded :
    align sizeof_ZSTD_CCtx 8 = sizeof_ZSTD_CCtx ∧ align sizeof_blockState 8 = sizeof_blockState ∧
    align TMP_WORKSPACE_SIZE 8 = TMP_WORKSPACE_SIZE := by decide

/-- **estimate_covers_reset**: for ANY resolved parameters (every window / hash / chain log, strategy, row finder, LDM,
external sequences, block size, buffers, pledged size), the rounded sizes of everything ZSTD_resetCCtx_internal reserves,
plus the alignment slack, are within what the shared sizing routine returns.  Needs ldm hashLog ≥ 3 (the setter's minimum is 6):
the estimate sizes the LDM hash table unrounded. -/
theorem estimate_covers_reset (p : RP) (hldm : p.ldm = true → 3 ≤ p.ldmHashLog) :
    need (reserveSeq p) + cwksp_slack ≤ estimate p := by
  obtain ⟨hc, hb, ht⟩ := object_sizes_rounded
  have hl : p.ldm = true → align (ldmHSize p * sizeof_ldmEntry) 64 = ldmHSize p * sizeof_ldmEntry := by
    intro h; exact ldm_table_aligned _ (hldm h)
  unfold reserveSeq objectReqs sessionReqs estimate sizeofMatchState optSpace a64
  cases hst : p.isStatic <;> cases hr : rowUsed p <;> cases ho : isOpt p <;> cases hx : p.extSeq <;> cases hm : p.ldm <;>
    simp only [need, if_true, if_false, Bool.false_eq_true, List.map_nil, List.sum_nil, Req.bytes, List.map_cons, List.sum_cons,
      List.nil_append, List.cons_append, List.map_append, List.sum_append, hb, ht, hc] <;>
    (try rw [hl hm]) <;> omega

/-- **static_never_fails**: a workspace of at least the estimated size, at any address, serves the whole reservation sequence:
no reservation fails, none returns NULL for a non-empty request (so the 'static cctx: no resize' branch is never needed). -/
theorem static_never_fails (p : RP) (lo size : Nat) (hldm : p.ldm = true → 3 ≤ p.ldmHashLog) (hsz : estimate p ≤ size) :
    Clean (run (init lo size) (reserveSeq p)) := by
  have h := estimate_covers_reset p hldm
  apply init_run_clean
  · unfold reserveSeq objectReqs sessionReqs
    cases p.isStatic <;> cases rowUsed p <;> cases isOpt p <;> cases p.extSeq <;> cases p.ldm <;> rfl
  · have : cwksp_slack = 128 := rfl
    omega

/-- **level_covers**: ZSTD_estimateCCtxSize(L) budgets enough for every job whose resolved parameters are dominated by one of the rows
the estimate looks at - level l with 1 ≤ l ≤ L (a level beyond ZSTD_maxCLevel() uses the row of the maximum, and the estimate stops
looking there: `estLevel` folds over the levels 1..min(L, maxCLevel)), any of the four source-size tiers, either row-finder setting, any smaller window /
hash / chain log and any pledged size (which is what ZSTD_adjustCParams produces for a smaller source: checked at run time on the
applied parameters of every static-context run). -/
theorem level_covers (L l t : Nat) (h1 : 1 ≤ l) (h2 : l ≤ L) (ht : t < 4) (p : RP)
    (hle : Le p (rpOfCParams (rowAt t (min l Estimate.maxCLevel)) p.useRow false)) : estimate p ≤ estLevel L :=
  Nat.le_trans (estimate_mono p _ hle)
    (Nat.le_trans (estimate_le_usingCParams (rowAt t (min l Estimate.maxCLevel)) p.useRow false)
      (Nat.le_trans (estLevelInternal_ge t (min l Estimate.maxCLevel) ht) (estLevel_ge L l h1 h2)))

/-- the estimate saturates: every level from ZSTD_maxCLevel() up (INT_MAX included) gets the budget of the maximum, in bounded time -/
theorem level_estimate_saturates (L : Nat) (h : Estimate.maxCLevel ≤ L) :
    estLevel L = estLevel Estimate.maxCLevel ∧ estStreamLevel L = estStreamLevel Estimate.maxCLevel := by
  unfold estLevel estStreamLevel
  rw [Nat.min_eq_right h, Nat.min_self]
  exact ⟨rfl, rfl⟩

/-- with `static_never_fails`: a static context of ZSTD_estimateCCtxSize(L) bytes never fails a reservation for such a job -/
theorem level_static_never_fails (L l t : Nat) (h1 : 1 ≤ l) (h2 : l ≤ L) (ht : t < 4) (p : RP)
    (hle : Le p (rpOfCParams (rowAt t (min l Estimate.maxCLevel)) p.useRow false)) (lo size : Nat) (hsz : estLevel L ≤ size) :
    Clean (run (init lo size) (reserveSeq p)) :=
  static_never_fails p lo size (by intro h; rw [hle.l1] at h; cases h) (Nat.le_trans (level_covers L l t h1 h2 ht p hle) hsz)

example : Le (rpOfCParams (rowAt 1 5) true false) (rpOfCParams (rowAt 1 5) true false) :=
  ⟨Nat.le_refl _, Nat.le_refl _, Nat.le_refl _, Nat.le_refl _, rfl, rfl, rfl, by decide, rfl, Nat.le_refl _, rfl, Nat.le_refl _, Nat.le_refl _⟩

/-- **usingCParams_covers**: ZSTD_estimateCCtxSize_usingCParams(c) / ZSTD_estimateCStreamSize_usingCParams(c) budget enough for every job
whose resolved parameters are dominated by c under EITHER setting of the row match finder - whichever the library resolves after
ZSTD_adjustCParams shrank the logs to the source size (the resolution is made on the SHRUNK window log, so it can differ from what c
alone would select), or whichever the caller selected with ZSTD_c_useRowMatchFinder.  The domination hypothesis is evaluated
(`Estimate.leB`, `leB_sound`) on the applied parameters of every static-context run sized by these estimates. -/
theorem usingCParams_covers (c : CPar) (stream : Bool) (p : RP) (hle : Le p (rpOfCParams c p.useRow stream)) :
    estimate p ≤ estimateUsingCParams c stream :=
  Nat.le_trans (estimate_mono p _ hle) (estimate_le_usingCParams c p.useRow stream)

/-- with `static_never_fails`: a static context of ZSTD_estimate*_usingCParams(c) bytes never fails a reservation for such a job -/
theorem usingCParams_static_never_fails (c : CPar) (stream : Bool) (p : RP) (hle : Le p (rpOfCParams c p.useRow stream))
    (lo size : Nat) (hsz : estimateUsingCParams c stream ≤ size) : Clean (run (init lo size) (reserveSeq p)) :=
  static_never_fails p lo size (by intro h; rw [hle.l1] at h; cases h) (Nat.le_trans (usingCParams_covers c stream p hle) hsz)

/-- the budget of chain-table-heavy lazy parameters covers the hash-chain finder a 16 KB source falls back to, and the row finder alike -/
example : leB { rpOfCParams ⟨15, 15, 8, 4, 4, 0, 5⟩ false false with windowLog := 14, chainLog := 14, pledged := 16000 } (rpOfCParams ⟨15, 15, 8, 4, 4, 0, 5⟩ false false) = true := by decide

/-- **usingCCtxParams_covers**: ZSTD_estimateCCtxSize_usingCCtxParams / ZSTD_estimateCStreamSize_usingCCtxParams on a parameter set with
cParams c and row-finder mode `mode` budget enough for every job whose resolved parameters are dominated by c and whose match-finder
flavour is one the budget is made for (`flavourCovered`): the flavour the caller selected; with the mode left automatic, EITHER
flavour for the one-shot estimate (the compressor resolves the automatic mode after ZSTD_adjustCParams shrank the window to the
source, which can cross the row finder's threshold), the flavour of the unadjusted parameters for the streaming estimate.
Both hypotheses are evaluated on the applied parameters of every static-context run sized by these estimates. -/
theorem usingCCtxParams_covers (c : CPar) (mode : RowMode) (stream : Bool) (p : RP) (hf : flavourCovered c mode stream p.useRow = true)
    (hle : Le p (rpOfCCtxParams c mode p.useRow stream)) : estimate p ≤ estimateUsingCCtxParams c mode stream :=
  Nat.le_trans (estimate_mono p _ hle) (estimate_le_usingCCtxParams c mode stream p.useRow hf)

/-- one-shot, mode left automatic, strategy with a row finder: whatever flavour the compressor ends up with is covered -/
theorem usingCCtxParams_auto_covers (c : CPar) (p : RP) (hs : rowSupported c.strategy = true)
    (hle : Le p (rpOfCCtxParams c RowMode.auto p.useRow false)) : estimate p ≤ estimateUsingCCtxParams c RowMode.auto false :=
  usingCCtxParams_covers c RowMode.auto false p (by simp [flavourCovered, hs]) hle

/-- with `static_never_fails`: a static context of that size never fails a reservation for such a job -/
theorem usingCCtxParams_static_never_fails (c : CPar) (mode : RowMode) (stream : Bool) (p : RP) (hf : flavourCovered c mode stream p.useRow = true)
    (hle : Le p (rpOfCCtxParams c mode p.useRow stream)) (lo size : Nat) (hsz : estimateUsingCCtxParams c mode stream ≤ size) :
    Clean (run (init lo size) (reserveSeq p)) :=
  static_never_fails p lo size (by intro h; rw [hle.l1] at h; cases h) (Nat.le_trans (usingCCtxParams_covers c mode stream p hf hle) hsz)

/-- windowLog 15, lazy2, chain table much larger than the hash table, mode automatic: the one-shot budget is the hash-chain one (the
flavour a 16 KB source falls back to), not the row-finder one the unadjusted parameters select -/
example : estimateUsingCCtxParams ⟨15, 15, 8, 4, 4, 0, 5⟩ RowMode.auto false = estimate (rpOfCCtxParams ⟨15, 15, 8, 4, 4, 0, 5⟩ RowMode.auto false false) ∧
          estimate (rpOfCCtxParams ⟨15, 15, 8, 4, 4, 0, 5⟩ RowMode.auto true false) < estimateUsingCCtxParams ⟨15, 15, 8, 4, 4, 0, 5⟩ RowMode.auto false := by decide

/-- ZSTD_estimate*_usingCParams likewise covers jobs in which long-distance matching came on by itself (ZSTD_makeCCtxParamsFromCParams resolves it) -/
theorem usingCParams_covers_ldm (c : CPar) (stream : Bool) (p : RP) (hle : LeL p (rpOfCParams c p.useRow stream)) :
    estimate p ≤ estimateUsingCParams c stream :=
  Nat.le_trans (estimate_mono_ldm p _ hle) (estimate_le_usingCParams c p.useRow stream)

/-- **usingCCtxParams_covers_ldm**: the same for jobs in which the library switched long-distance matching on by itself (strategy ≥ btopt,
window log ≥ 27 after adjustment to the source): the estimates resolve the automatic switch on the parameter set's cParams and budget the
long-distance tables (defect repaired in /repo 3f7e135: they used to size them only when the switch was set explicitly, so a static
CStream of exactly the estimated size failed on its first call) -/
theorem usingCCtxParams_covers_ldm (c : CPar) (mode : RowMode) (stream : Bool) (p : RP) (hf : flavourCovered c mode stream p.useRow = true)
    (hle : LeL p (rpOfCCtxParams c mode p.useRow stream)) : estimate p ≤ estimateUsingCCtxParams c mode stream :=
  Nat.le_trans (estimate_mono_ldm p _ hle) (estimate_le_usingCCtxParams c mode stream p.useRow hf)

/-- the long-distance table the estimates size has at least 2^ZSTD_HASHLOG_MIN entries -/
theorem rpOfCCtxParams_ldmHashLog (c : CPar) (mode : RowMode) (u stream : Bool) (h : (rpOfCCtxParams c mode u stream).ldm = true) :
    3 ≤ (rpOfCCtxParams c mode u stream).ldmHashLog := by
  unfold rpOfCCtxParams rpOfCParams at h ⊢
  simp only at h ⊢
  rw [h]
  simp only [if_true]
  have : ZSTD_HASHLOG_MIN = 6 := rfl
  omega

/-- with `static_never_fails`: a static context of the estimated size never fails a reservation for a job with automatic long-distance matching
(ZSTD_ldm_adjustParameters never leaves a hash log below ZSTD_HASHLOG_MIN = 6) -/
theorem usingCCtxParams_ldm_static_never_fails (c : CPar) (mode : RowMode) (stream : Bool) (p : RP) (hf : flavourCovered c mode stream p.useRow = true)
    (hle : LeL p (rpOfCCtxParams c mode p.useRow stream)) (hl3 : p.ldm = true → 3 ≤ p.ldmHashLog) (lo size : Nat)
    (hsz : estimateUsingCCtxParams c mode stream ≤ size) : Clean (run (init lo size) (reserveSeq p)) :=
  static_never_fails p lo size hl3 (Nat.le_trans (usingCCtxParams_covers_ldm c mode stream p hf hle) hsz)

/-- windowLog 27, btopt, nothing said about long-distance matching: the streaming budget contains the 2^20-entry long-distance table -/
example : (rpOfCCtxParams ⟨27, 6, 6, 1, 4, 0, 7⟩ RowMode.auto false true).ldm = true ∧ (rpOfCCtxParams ⟨27, 6, 6, 1, 4, 0, 7⟩ RowMode.auto false true).ldmHashLog = 20 ∧
          (rpOfCCtxParams ⟨26, 6, 6, 1, 4, 0, 7⟩ RowMode.auto false true).ldm = false ∧ (rpOfCCtxParams ⟨27, 6, 6, 1, 4, 0, 6⟩ RowMode.auto false true).ldm = false := by decide

/-! ### streaming decoder -/

/-- **dstream_buffers_le**: for every frame whose (clamped) window is within the limit W (W ≥ 1 KiB), whatever its content size
field and block-size limit (≤ min(window, 128 KiB) as ZSTD_getFrameHeader computes it), the buffers the decoder allocates fit in
ZSTD_estimateDStreamSize(W) − sizeof(DCtx): a static DStream sized by the estimate never needs more, a heap one never holds more. -/
theorem dstream_buffers_le (hw W : Nat) (fcs : Option Nat) (b : Nat)
    (hacc : windowAccepted hw W = true) (hb : b ≤ min hw ZSTD_BLOCKSIZE_MAX) :
    neededBuffers hw fcs b ≤ estimateBuffers W := by
  unfold windowAccepted effectiveWindow at hacc
  simp only [decide_eq_true_eq] at hacc
  unfold neededBuffers estimateBuffers decodingBufferSize effectiveWindow
  unfold ZSTD_WINDOWLOG_ABSOLUTEMIN at *
  unfold ZSTD_BLOCKSIZE_MAX WILDCOPY_OVERLENGTH at *
  have h10 : (2 : Nat) ^ 10 = 1024 := by decide
  rw [h10] at *
  cases fcs with
  | none => simp only; omega
  | some n => simp only; omega

/-- **dstream_window_refused**: a frame whose window exceeds the limit is refused, before any buffer is sized; windows below
1 KiB are treated as 1 KiB -/
theorem dstream_window_refused (hw W : Nat) : windowAccepted hw W = false ↔ W < max hw (2 ^ ZSTD_WINDOWLOG_ABSOLUTEMIN) := by
  unfold windowAccepted effectiveWindow
  simp [Nat.not_le]

/-- **never_holds_more**: whatever the stage decides (single pass, buffered, refused), the internal buffers it holds are within
the documented function of the limit -/
theorem never_holds_more (hw W : Nat) (fcs : Option Nat) (b out : Nat) (whole : Bool) (hb : b ≤ min hw ZSTD_BLOCKSIZE_MAX) :
    held (loadHeader hw fcs b W out whole) ≤ estimateBuffers W := by
  unfold loadHeader
  split
  · simp [held]
  · split
    · rename_i h
      simpa [held, neededBuffers] using dstream_buffers_le hw W fcs b h hb
    · simp [held]

/-- **refused_iff**: a frame is refused exactly when it cannot be decoded without internal buffers and its (clamped) window
exceeds the limit -/
theorem refused_iff (hw W : Nat) (fcs : Option Nat) (b out : Nat) (whole : Bool) :
    loadHeader hw fcs b W out whole = .refused ↔ (singlePassOk fcs out whole = false ∧ W < max hw (2 ^ ZSTD_WINDOWLOG_ABSOLUTEMIN)) := by
  unfold loadHeader
  cases hs : singlePassOk fcs out whole <;> cases ha : windowAccepted hw W <;> simp
  · exact (dstream_window_refused hw W).mp ha
  · unfold windowAccepted effectiveWindow at ha
    simpa using ha

/-- **huge_window_refused**: every limit a caller can configure is at most 2^ZSTD_WINDOWLOG_MAX (ZSTD_d_windowLogMax,
ZSTD_DCtx_setMaxWindowSize); a frame announcing a window of 2^32 bytes or more - only a single-segment frame can, through its 8-byte
content-size field - is refused under every such limit, whatever its low 32 bits, unless the single-pass shortcut applies -/
theorem huge_window_refused (hw W : Nat) (fcs : Option Nat) (b out : Nat) (whole : Bool) (hW : W ≤ 2 ^ ZSTD_WINDOWLOG_MAX) (hh : 2 ^ 32 ≤ hw)
    (hs : singlePassOk fcs out whole = false) : loadHeader hw fcs b W out whole = .refused := by
  apply (refused_iff hw W fcs b out whole).mpr
  refine ⟨hs, ?_⟩
  have h31 : (2 : Nat) ^ ZSTD_WINDOWLOG_MAX < 2 ^ 32 := by decide
  have : hw ≤ max hw (2 ^ ZSTD_WINDOWLOG_ABSOLUTEMIN) := Nat.le_max_left _ _
  omega

/-- the verdict depends on the whole window value, not on its low 32 bits -/
example : loadHeader (2 ^ 32 + 512) (some (2 ^ 32 + 512)) 131072 1500 4194304 false = .refused ∧
          loadHeader 512 (some 512) 512 1500 100 false = .buffered 512 512 ∧
          loadHeader (3 * 2 ^ 32 + 1000000) (some (3 * 2 ^ 32 + 1000000)) 131072 1048576 4194304 true = .refused := by decide

/-- **bufs_sufficient**: whatever buffers the context kept from earlier frames, after the sizing step EACH of them is at least as
large as the frame about to be decoded needs - a later frame can never meet an input buffer smaller than its largest block -/
theorem bufs_sufficient (cur : Bufs) (a b : Nat) : a ≤ (nextBufs cur a b).inSize ∧ b ≤ (nextBufs cur a b).outSize := by
  unfold nextBufs
  split <;> simp_all <;> omega

/-- the estimate is monotone in the window limit: a larger limit never budgets less -/
theorem estimate_monotone (a b : Nat) (h : a ≤ b) : estimateBuffers a ≤ estimateBuffers b := by
  unfold estimateBuffers decodingBufferSize
  unfold ZSTD_BLOCKSIZE_MAX WILDCOPY_OVERLENGTH
  simp only
  omega

/-- a known content size can only shrink the output buffer -/
theorem fcs_shrinks (w : Nat) (n b : Nat) : decodingBufferSize w (some n) b ≤ decodingBufferSize w none b := by
  unfold decodingBufferSize; simp only; omega

example : estimateBuffers (1 <<< 17) = 131072 + (131072 + 262144 + 64) := by decide
example : windowAccepted 1048576 32768 = false ∧ windowAccepted 5 1024 = true := by decide
example : loadHeader 1048576 (some 300) 131072 1024 1000 true = .singlePass ∧ loadHeader 1048576 (some 300) 131072 1024 1000 false = .refused := by decide

end ZstdVerif.Props.C14
