/-
C15 — correctness does not wear out: the index rebasing keeps what the match finders rely on, for every
32-bit index state it can be invoked on.
-/
import ZstdVerif.Model.Window
import ZstdVerif.Model.Wear
namespace ZstdVerif.Props.C15
open ZstdVerif ZstdVerif.Window ZstdVerif.Gen

theorem pow_dvd_max (a b : Nat) : 2 ^ a ∣ max (2 ^ b) (2 ^ a) := by
  rcases Nat.le_total a b with h | h
  · rw [Nat.max_eq_left (Nat.pow_le_pow_right (by decide) h)]; exact Nat.pow_dvd_pow 2 h
  · rw [Nat.max_eq_right (Nat.pow_le_pow_right (by decide) h)]; exact Nat.dvd_refl _

/-- **the low cycleLog bits survive the correction** (chains / binary trees are indexed by them): the new current index is
congruent to the old one modulo the cycle size, for every window log and cycle log -/
theorem correct_low_bits (w : Win) (cycleLog wlog curr : Nat) :
    (correctOverflow w cycleLog (2 ^ wlog) curr).2.1 % 2 ^ cycleLog = curr % 2 ^ cycleLog := by
  unfold correctOverflow newCurrentOf
  simp only
  have hd := pow_dvd_max cycleLog wlog
  obtain ⟨k, hk⟩ := hd
  rw [hk]
  split
  · -- currentCycle < START_INDEX : add max(cycleSize, 2), a multiple of the cycle size
    have h2 : 2 ^ cycleLog ∣ max (2 ^ cycleLog) ZSTD_WINDOW_START_INDEX := by
      unfold ZSTD_WINDOW_START_INDEX
      rcases Nat.eq_zero_or_pos cycleLog with h | h
      · subst h; simp
      · have : 2 ≤ 2 ^ cycleLog := by
          have := Nat.pow_le_pow_right (n := 2) (by decide) h
          simpa using this
        rw [Nat.max_eq_left this]; exact Nat.dvd_refl _
    obtain ⟨j, hj⟩ := h2
    rw [hj]
    have : curr % 2 ^ cycleLog + 2 ^ cycleLog * j + 2 ^ cycleLog * k = curr % 2 ^ cycleLog + 2 ^ cycleLog * (j + k) := by
      rw [Nat.mul_add]; omega
    rw [this, Nat.add_mul_mod_self_left, Nat.mod_mod]
  · simp only [Nat.add_zero]
    rw [Nat.add_mul_mod_self_left, Nat.mod_mod]

/-- **the whole window stays addressable**: after the correction the current index is at least maxDist + START_INDEX, so every
position up to maxDist back still has a valid (≥ START_INDEX) index -/
theorem correct_window_kept (w : Win) (cycleLog maxDist curr : Nat) :
    maxDist + ZSTD_WINDOW_START_INDEX ≤ (correctOverflow w cycleLog maxDist curr).2.1 := by
  unfold correctOverflow newCurrentOf
  simp only
  split <;> omega

theorem correction_eq (cycleLog maxDist curr : Nat) (hcur : curr < U32) (hpre : newCurrentOf cycleLog maxDist curr ≤ curr) :
    correctionOf cycleLog maxDist curr = curr - newCurrentOf cycleLog maxDist curr := by
  unfold correctionOf
  generalize newCurrentOf cycleLog maxDist curr = nc at *
  unfold U32 at *
  rw [show curr + 4294967296 - nc = (curr - nc) + 4294967296 by omega, Nat.add_mod_right]
  exact Nat.mod_eq_of_lt (by omega)

theorem limitUpdate_bounds (lim corr curr nc : Nat) (hc : corr = curr - nc) (hnc : nc ≤ curr) (hl : lim ≤ curr) (hcur : curr < U32)
    (h2 : ZSTD_WINDOW_START_INDEX ≤ nc) : ZSTD_WINDOW_START_INDEX ≤ limitUpdate lim corr ∧ limitUpdate lim corr ≤ nc := by
  unfold limitUpdate
  unfold ZSTD_WINDOW_START_INDEX U32 at *
  have h1 : (corr + 2) % 4294967296 = corr + 2 := Nat.mod_eq_of_lt (by omega)
  rw [h1]
  split
  · omega
  · rename_i hge
    have : (lim + 4294967296 - corr) % 4294967296 = lim - corr := by
      rw [show lim + 4294967296 - corr = (lim - corr) + 4294967296 by omega, Nat.add_mod_right]
      exact Nat.mod_eq_of_lt (by omega)
    rw [this]; omega

/-- the corrected limits never exceed the new current index when they did not exceed the old one, and they never fall
below START_INDEX (stale table entries are compared against them) -/
theorem correct_limits (w : Win) (cycleLog maxDist curr : Nat) (hcur : curr < U32)
    (hpre : (correctOverflow w cycleLog maxDist curr).2.1 ≤ curr) (hl : w.lowLimit ≤ curr) (hd : w.dictLimit ≤ curr) :
    let r := correctOverflow w cycleLog maxDist curr
    ZSTD_WINDOW_START_INDEX ≤ r.2.2.lowLimit ∧ r.2.2.lowLimit ≤ r.2.1 ∧ ZSTD_WINDOW_START_INDEX ≤ r.2.2.dictLimit ∧ r.2.2.dictLimit ≤ r.2.1 := by
  have hk := correct_window_kept w cycleLog maxDist curr
  unfold correctOverflow at hpre hk ⊢
  simp only at hpre hk ⊢
  have hc := correction_eq cycleLog maxDist curr hcur hpre
  have h2 : ZSTD_WINDOW_START_INDEX ≤ newCurrentOf cycleLog maxDist curr := by omega
  have a := limitUpdate_bounds w.lowLimit _ curr _ hc hpre hl hcur h2
  have b := limitUpdate_bounds w.dictLimit _ curr _ hc hpre hd hcur h2
  exact ⟨a.1, a.2, b.1, b.2⟩

/-- **distances are preserved by the table reduction**: an entry that is recent enough to survive keeps its distance to the
current position; an entry older than correction + START_INDEX becomes 0, i.e. falls below every valid lowLimit -/
theorem reduce_preserves_distance (reducer v curr newCurr : Nat) (hr : reducer + ZSTD_WINDOW_START_INDEX < U32)
    (hc : newCurr = curr - reducer) (hrc : reducer ≤ curr) (hv : reducer + ZSTD_WINDOW_START_INDEX ≤ v) (hvc : v ≤ curr)
    (hm : v ≠ ZSTD_DUBT_UNSORTED_MARK) (pm : Bool) :
    newCurr - reduceCell pm reducer v = curr - v ∧ ZSTD_WINDOW_START_INDEX ≤ reduceCell pm reducer v := by
  unfold reduceCell
  have h1 : (reducer + ZSTD_WINDOW_START_INDEX) % U32 = reducer + ZSTD_WINDOW_START_INDEX := Nat.mod_eq_of_lt hr
  rw [h1]
  have : (pm && v == ZSTD_DUBT_UNSORTED_MARK) = false := by simp [hm]
  rw [this]
  simp only [Bool.false_eq_true, if_false]
  rw [if_neg (by omega)]
  omega

theorem reduce_kills_stale (reducer v : Nat) (hr : reducer + ZSTD_WINDOW_START_INDEX < U32)
    (hv : v < reducer + ZSTD_WINDOW_START_INDEX) : reduceCell false reducer v = 0 := by
  unfold reduceCell
  rw [Nat.mod_eq_of_lt hr]
  simp [hv]

/-- btlazy2's "unsorted" marker survives the reduction -/
theorem reduce_keeps_mark (reducer : Nat) : reduceCell true reducer ZSTD_DUBT_UNSORTED_MARK = ZSTD_DUBT_UNSORTED_MARK := by
  unfold reduceCell; simp

/-- with the standard trigger (index beyond ZSTD_CURRENT_MAX) a correction is always a real decrease for every window
log ≤ 31 and cycle log ≤ 30: the precondition `curr > newCurrent` asserted by the code follows from the call condition -/
theorem correct_pre_sound (w : Win) (cycleLog wlog curr : Nat) (hc : cycleLog ≤ 30) (hw : wlog ≤ 31) (hcur : ZSTD_CURRENT_MAX < curr) :
    (correctOverflow w cycleLog (2 ^ wlog) curr).2.1 < curr := by
  unfold correctOverflow newCurrentOf
  simp only
  have hpos : 0 < 2 ^ cycleLog := Nat.two_pow_pos _
  have hmod : curr % 2 ^ cycleLog < 2 ^ cycleLog := Nat.mod_lt _ hpos
  have hcs : 2 ^ cycleLog ≤ 2 ^ 30 := Nat.pow_le_pow_right (by decide) hc
  have hws : 2 ^ wlog ≤ 2 ^ 31 := Nat.pow_le_pow_right (by decide) hw
  unfold ZSTD_CURRENT_MAX at hcur
  unfold ZSTD_WINDOW_START_INDEX
  generalize curr % 2 ^ cycleLog = cc at *
  generalize 2 ^ cycleLog = cs at *
  generalize 2 ^ wlog = ws at *
  have e30 : (2 : Nat) ^ 30 = 1073741824 := by decide
  have e31 : (2 : Nat) ^ 31 = 2147483648 := by decide
  rw [e30] at hcs; rw [e31] at hws
  split <;> omega

example : (correctOverflow ⟨3758096390, 3758096390, 0⟩ 17 (2 ^ 20) 3758096500).1 = 3757047808 := by decide

/-! ### a long-lived context does not wear out: what it decides about its own memory at frame k depends on the job, not on k -/
section Wear
open ZstdVerif.Wear

/-- one reset of a static compression context whose counter is not beyond the limit: served iff the size holds the job, and the
counter does not move (a static context never counts, it could not act on the count) -/
theorem static_cctx_reset (size avail dur needed : Nat) (hd : dur ≤ ZSTD_WORKSPACETOOLARGE_MAXDURATION) :
    cReset true ⟨size, avail, dur⟩ needed = if needed ≤ size then .keep dur else .memory := by
  unfold cReset wasteful
  have hw : decide (dur > ZSTD_WORKSPACETOOLARGE_MAXDURATION) = false := by simp; omega
  simp only [hw, Bool.and_false, Bool.or_false, if_true]
  by_cases h : needed ≤ size
  · have : decide (size < needed) = false := by simp; omega
    simp [this, h]
  · have : decide (size < needed) = true := by simp; omega
    simp [this, h]

/-- **a static compression context never wears out**: over any history of frames (any number, any sizes, whatever each frame
leaves free) the outcome of every frame is a function of that frame's own need and of the fixed size only -/
theorem static_cctx_never_wears (size : Nat) (l : List (Nat × Nat)) :
    cRun true size 0 l = l.map (fun x => if x.1 ≤ size then COutcome.keep 0 else COutcome.memory) := by
  induction l with
  | nil => rfl
  | cons x rest ih =>
    obtain ⟨needed, avail⟩ := x
    have h := static_cctx_reset size avail 0 needed (Nat.zero_le _)
    unfold cRun
    simp only [h, List.map_cons]
    by_cases hn : needed ≤ size
    · simp only [hn, if_true]; rw [ih]
    · simp only [hn, if_false]; rw [ih]

/-- a heap compression context never answers "memory" by policy (only a failing allocator can make it fail) and whatever it
decides, the workspace it compresses with holds the job -/
theorem heap_cctx_reset_fits (w : CWs) (needed : Nat) :
    (∃ d, cReset false w needed = .keep d ∧ needed ≤ w.size) ∨ cReset false w needed = .resize needed := by
  unfold cReset
  simp only [Bool.false_eq_true, if_false]
  by_cases h : (decide (w.size < needed) || wasteful (bump w.dur w.avail 0) w.avail needed) = true
  · right; simp [h]
  · left
    refine ⟨bump w.dur w.avail 0, ?_, ?_⟩
    · simp [h]
    · have h2 : decide (w.size < needed) = false := by
        cases hh : decide (w.size < needed) <;> simp_all
      simp at h2; omega

theorem heap_cctx_never_refuses (size dur : Nat) (l : List (Nat × Nat)) : COutcome.memory ∉ cRun false size dur l := by
  induction l generalizing size dur with
  | nil => simp [cRun]
  | cons x rest ih =>
    obtain ⟨needed, avail⟩ := x
    rcases heap_cctx_reset_fits ⟨size, avail, dur⟩ needed with ⟨d, hk, _⟩ | hr
    · unfold cRun; simp only [hk]; simp [ih]
    · unfold cRun; simp only [hr]; simp [ih]

/-- **a static streaming decoder never wears out**: whatever its history (any buffer sizes, any counter value) a frame whose two
buffers fit in the room behind the context structure is never refused -/
theorem static_dstream_never_refuses (room needIn needOut : Nat) (b : DBufs) (h : needIn + needOut ≤ room) :
    ∀ b2, dReset (some room) b needIn needOut ≠ .memory b2 := by
  intro b2
  unfold dReset
  simp only
  split
  · have : ¬ (needIn + needOut > room) := by omega
    simp [this]
  · simp

/-- a refusal by a static streaming decoder is a statement about sizes only -/
theorem static_dstream_refusal_is_size (room needIn needOut : Nat) (b b2 : DBufs)
    (h : dReset (some room) b needIn needOut = .memory b2) : room < needIn + needOut := by
  apply Classical.byContradiction
  intro hn
  exact static_dstream_never_refuses room needIn needOut b (by omega) b2 h

/-- whenever the decoder goes on with a frame, its buffers hold what the frame needs -/
theorem dstream_buffers_suffice (room : Option Nat) (b : DBufs) (needIn needOut : Nat) :
    (∃ b2, dReset room b needIn needOut = .memory b2) ∨
    (needIn ≤ (dReset room b needIn needOut).bufs.inSize ∧ needOut ≤ (dReset room b needIn needOut).bufs.outSize) := by
  unfold dReset
  simp only
  split
  · cases room with
    | none => right; simp [DOutcome.bufs]
    | some r =>
      by_cases hr : needIn + needOut > r
      · left; simp [hr]
      · right; simp [hr, DOutcome.bufs]
  · rename_i hns
    right
    simp only [DOutcome.bufs]
    have h1 : decide (b.inSize < needIn) = false := by
      cases hh : decide (b.inSize < needIn) <;> simp_all
    have h2 : decide (b.outSize < needOut) = false := by
      cases hh : decide (b.outSize < needOut) <;> simp_all
    simp at h1 h2
    omega

/-- over any history of frames that each fit, a static streaming decoder refuses none -/
theorem static_dstream_never_wears (room : Nat) (l : List (Nat × Nat)) (hfit : ∀ x ∈ l, x.1 + x.2 ≤ room) :
    ∀ (b : DBufs), ∀ o ∈ dRun (some room) b l, ∀ b2, o ≠ .memory b2 := by
  induction l with
  | nil => intro b o ho; simp [dRun] at ho
  | cons x rest ih =>
    intro b o ho b2
    obtain ⟨needIn, needOut⟩ := x
    unfold dRun at ho
    simp only [List.mem_cons] at ho
    rcases ho with rfl | ho
    · exact static_dstream_never_refuses room needIn needOut b (hfit (needIn, needOut) (by simp)) b2
    · exact ih (fun y hy => hfit y (by simp [hy])) _ o ho b2

example : cReset true ⟨13100040, 13073144, 0⟩ 26121 = .keep 0 := by decide
example : cReset false ⟨10997624, 10975992, 129⟩ 20857 = .resize 20857 := by decide
example : cReset false ⟨10997624, 10975992, 127⟩ 20857 = .keep 128 := by decide

end Wear

end ZstdVerif.Props.C15
