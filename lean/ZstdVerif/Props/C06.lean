/-
C06 — capacity discipline and size bounds.
-/
import ZstdVerif.Model.Bound
import ZstdVerif.Model.Walker
import ZstdVerif.Props.C09
import ZstdVerif.Lemmas.ExecRT
import ZstdVerif.Lemmas.BoundRT
namespace ZstdVerif.Props.C06
open ZstdVerif ZstdVerif.Bound ZstdVerif.Gen

/-- the hand-written formula agrees with what the C compiler computes from the CURRENT macro on every boundary value
of the regenerated grid (a changed macro breaks this by `decide`) -/
theorem bound_matches_source : compressBoundGrid.all (fun p => compressBound p.1 = p.2) = true := by decide

/-- **the all-raw fallback always fits**: for every input size below the limit, a frame made of a maximal header, raw
128 KiB blocks and a checksum is no larger than ZSTD_compressBound — so single-pass compression can always succeed
by falling back to raw blocks. -/
theorem raw_fallback_fits (n : Nat) (h : n < ZSTD_MAX_INPUT_SIZE) : rawFrameSize n ≤ compressBound n := by
  unfold rawFrameSize nbBlocks compressBound BLK
  have : ¬ n ≥ ZSTD_MAX_INPUT_SIZE := by omega
  rw [if_neg this]
  unfold ZSTD_MAX_INPUT_SIZE at h
  split <;> split <;> omega

/-- the bound is monotone (not strictly: bound 0 = bound 1 = 64) -/
theorem bound_monotone (a b : Nat) (hab : a ≤ b) (hb : b < ZSTD_MAX_INPUT_SIZE) : compressBound a ≤ compressBound b := by
  unfold compressBound BLK
  have : ¬ a ≥ ZSTD_MAX_INPUT_SIZE := by omega
  have : ¬ b ≥ ZSTD_MAX_INPUT_SIZE := by omega
  simp only [*, if_false]
  split <;> split <;> omega

/-- the bound of a concatenation covers the bounds of the parts when each part is at least one block
(documented use: compress several inputs into one buffer) -/
theorem bound_superadditive (a b : Nat) (ha : BLK ≤ a) (hb : BLK ≤ b) (h : a + b < ZSTD_MAX_INPUT_SIZE) :
    compressBound a + compressBound b ≤ compressBound (a + b) + 1 := by
  unfold compressBound BLK at *
  have : ¬ a ≥ ZSTD_MAX_INPUT_SIZE := by omega
  have : ¬ b ≥ ZSTD_MAX_INPUT_SIZE := by omega
  have : ¬ a + b ≥ ZSTD_MAX_INPUT_SIZE := by omega
  simp only [*, if_false]
  rw [if_neg (by omega), if_neg (by omega), if_neg (by omega)]
  omega

/-- every block start leaves the 6 bytes `ZSTD_compress_frameChunk` demands, as long as what was written so far is
no more than the raw layout of the blocks already emitted -/
theorem per_block_guard (n done k : Nat) (h : n < ZSTD_MAX_INPUT_SIZE) (hk : k < nbBlocks n) (hd : done ≤ n)
    (hfull : done = k * BLK) : 18 + 3 * k + done + 6 ≤ compressBound n := by
  have := raw_fallback_fits n h
  unfold rawFrameSize at this
  have hb : k + 1 ≤ nbBlocks n := hk
  omega

/-- **frame inspectors**: the size reported for a frame does not depend on what follows it, and it never exceeds the
bytes available (so `findFrameCompressedSize` = what a decoder consumes) — restated from C09.frameSize_exact -/
theorem frameSize_indep_of_suffix (g : Walker.Get) (ip rem n extra : Nat) (h : Walker.frameSize g ip rem = .ok n) :
    Walker.frameSize g ip (rem + extra) = .ok n ∧ n ≤ rem :=
  let ⟨hle, _, hge, _⟩ := C09.frameSize_exact g ip rem n h
  ⟨hge (rem + extra) (by omega), hle⟩

example : compressBound 0 = 64 ∧ compressBound 131072 = 131584 := by decide


/-! ### decoding side of the capacity discipline -/

/-- **decode_never_exceeds_capacity**: for every input (valid or not), dictionary and capacity, a successful single-call decode of
the model decoder returns at most the capacity; the model's verdict and size are compared with ZSTD_decompress on every capacity of the
decode sweeps, which run in exact-size sanitizer-guarded destinations -/
theorem decode_never_exceeds_capacity {src : Bytes} {dict : Frame.Dict} {cap : Nat} {o : Frame.Opts} {res : ByteArray × Array Frame.FrameTrace}
    (h : Frame.decompressAll src dict cap o = .ok res) : res.1.size ≤ cap :=
  Frame.decompressAll_within_capacity h

/-! ### the bound against the bytes of the proved serializer (Lemmas/BoundRT.lean) -/

/-- **rawFrame_within_bound**: the total fallback the serializer really emits (`Serialize.rawFrame`: ZSTD_writeFrameHeader, one
ZSTD_noCompressBlock per block of ZSTD_compress_frameChunk, ZSTD_writeEpilogue - the bytes `C01.frame_roundtrip_raw` decodes back) is
never larger than ZSTD_compressBound, for every accepted parameter tuple (window log 10..31, hence block sizes from 1 KiB up) with a
truthful pledged size and every input below ZSTD_MAX_INPUT_SIZE -/
theorem rawFrame_within_bound (a : HeaderW.HArgs) (ha : a.wf) (x : ByteArray) (hp : a.contentSizeFlag = true → a.pledged = x.size)
    (hx : x.size < ZSTD_MAX_INPUT_SIZE) : (Serialize.rawFrame a x).size ≤ compressBound x.size :=
  BoundRT.rawFrame_within_bound a ha x hp hx

/-- exact size of the total fallback: header + content + 3 bytes per block + 4 bytes of checksum -/
theorem rawFrame_size (a : HeaderW.HArgs) (x : ByteArray) :
    (Serialize.rawFrame a x).size = (HeaderW.writeHeader a).length + x.size +
      3 * max 1 ((x.size + Serialize.blockSize a - 1) / Serialize.blockSize a) + (if a.checksum then 4 else 0) :=
  BoundRT.rawFrame_size a x

/-- any block size ≥ 808 (the library: ≥ 1024), or a single block: the all-raw frame fits; 808 is sharp (`BoundRT.bound_fails_below_808`) -/
theorem rawFrameWith_within_bound (a : HeaderW.HArgs) (bsz : Nat) (h1 : 1 ≤ bsz) (x : ByteArray)
    (hb : 808 ≤ bsz ∨ x.size ≤ bsz) (hx : x.size < ZSTD_MAX_INPUT_SIZE) :
    (Serialize.rawFrameWith a bsz x).size ≤ compressBound x.size :=
  BoundRT.rawFrameWith_within_bound a bsz h1 x hb hx

/-- frames with RLE / compressed blocks (`BlockEnc.serializeFrame2`) fit the bound when no block is stored larger than raw and all
blocks but the last are full blocks of at least 808 bytes -/
theorem serialized_within_bound (a : HeaderW.HArgs) (bs : List BlockEnc.BlockChoice2) (x : ByteArray) (bsz : Nat) (hb : 808 ≤ bsz)
    (hsum : BoundRT.contentLen bs = x.size) (hs : BoundRT.Shrinks bs BlockEnc.repStart) (hfull : BoundRT.FullBlocks bsz bs)
    (hx : x.size < ZSTD_MAX_INPUT_SIZE) : (BlockEnc.serializeFrame2 a bs x).size ≤ compressBound x.size :=
  BoundRT.serialized_within_bound a bs x bsz hb hsum hs hfull hx

end ZstdVerif.Props.C06
