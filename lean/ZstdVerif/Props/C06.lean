/-
C06 — capacity discipline and size bounds.
-/
import ZstdVerif.Model.Bound
import ZstdVerif.Model.Walker
import ZstdVerif.Props.C09
import ZstdVerif.Lemmas.ExecRT
namespace ZstdVerif.Props.C06
open ZstdVerif ZstdVerif.Bound ZstdVerif.Gen

/-- the hand-written formula agrees with what the C compiler computes from the CURRENT macro on every boundary value
of the regenerated grid (a changed macro breaks this by `decide`) -/
theorem bound_matches_source : compressBoundGrid.all (fun p => compressBound p.1 = p.2) = true := by decide

/-- **the all-raw fallback always fits**: for every input size below the limit, a frame made of a maximal header, raw
128 KiB blocks and a checksum is no larger than ZSTD_compressBound — so single-pass compression can always succeed
by falling back to raw blocks. -/
theorem raw_fallback_fits (n : Nat) (h : n < ZSTD_MAX_INPUT_SIZE) : rawFrameSize n ≤ compressBound n := by
  unfold rawFrameSize nbBlocks compressBound BLK
  have : ¬ n ≥ ZSTD_MAX_INPUT_SIZE := by omega
  rw [if_neg this]
  unfold ZSTD_MAX_INPUT_SIZE at h
  split <;> split <;> omega

/-- the bound is monotone (not strictly: bound 0 = bound 1 = 64) -/
theorem bound_monotone (a b : Nat) (hab : a ≤ b) (hb : b < ZSTD_MAX_INPUT_SIZE) : compressBound a ≤ compressBound b := by
  unfold compressBound BLK
  have : ¬ a ≥ ZSTD_MAX_INPUT_SIZE := by omega
  have : ¬ b ≥ ZSTD_MAX_INPUT_SIZE := by omega
  simp only [*, if_false]
  split <;> split <;> omega

/-- the bound of a concatenation covers the bounds of the parts when each part is at least one block
(documented use: compress several inputs into one buffer) -/
theorem bound_superadditive (a b : Nat) (ha : BLK ≤ a) (hb : BLK ≤ b) (h : a + b < ZSTD_MAX_INPUT_SIZE) :
    compressBound a + compressBound b ≤ compressBound (a + b) + 1 := by
  unfold compressBound BLK at *
  have : ¬ a ≥ ZSTD_MAX_INPUT_SIZE := by omega
  have : ¬ b ≥ ZSTD_MAX_INPUT_SIZE := by omega
  have : ¬ a + b ≥ ZSTD_MAX_INPUT_SIZE := by omega
  simp only [*, if_false]
  rw [if_neg (by omega), if_neg (by omega), if_neg (by omega)]
  omega

/-- every block start leaves the 6 bytes `ZSTD_compress_frameChunk` demands, as long as what was written so far is
no more than the raw layout of the blocks already emitted -/
theorem per_block_guard (n done k : Nat) (h : n < ZSTD_MAX_INPUT_SIZE) (hk : k < nbBlocks n) (hd : done ≤ n)
    (hfull : done = k * BLK) : 18 + 3 * k + done + 6 ≤ compressBound n := by
  have := raw_fallback_fits n h
  unfold rawFrameSize at this
  have hb : k + 1 ≤ nbBlocks n := hk
  omega

/-- **frame inspectors**: the size reported for a frame does not depend on what follows it, and it never exceeds the
bytes available (so `findFrameCompressedSize` = what a decoder consumes) — restated from C09.frameSize_exact -/
theorem frameSize_indep_of_suffix (g : Walker.Get) (ip rem n extra : Nat) (h : Walker.frameSize g ip rem = .ok n) :
    Walker.frameSize g ip (rem + extra) = .ok n ∧ n ≤ rem :=
  let ⟨hle, _, hge, _⟩ := C09.frameSize_exact g ip rem n h
  ⟨hge (rem + extra) (by omega), hle⟩

example : compressBound 0 = 64 ∧ compressBound 131072 = 131584 := by decide


/-! ### decoding side of the capacity discipline -/

/-- **decode_never_exceeds_capacity**: for every input (valid or not), dictionary and capacity, a successful single-call decode of
the model decoder returns at most the capacity; the model's verdict and size are compared with ZSTD_decompress on every capacity of the
decode sweeps, which run in exact-size sanitizer-guarded destinations -/
theorem decode_never_exceeds_capacity {src : Bytes} {dict : Frame.Dict} {cap : Nat} {o : Frame.Opts} {res : ByteArray × Array Frame.FrameTrace}
    (h : Frame.decompressAll src dict cap o = .ok res) : res.1.size ≤ cap :=
  Frame.decompressAll_within_capacity h

end ZstdVerif.Props.C06
