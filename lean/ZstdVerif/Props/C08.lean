/-
C08 — dictionaries: what an accepted dictionary guarantees, agreement of the two loaders, the table-reuse verdict, the ID rule.
-/
import ZstdVerif.Model.Dict
import ZstdVerif.Lemmas.DictRT
import ZstdVerif.Lemmas.DictTablesRT
namespace ZstdVerif.Props.C08
open ZstdVerif ZstdVerif.Dict ZstdVerif.Gen

/-- **repeat_valid_sound**: with the loop of the CURRENT source (Gen.DictRepeat.inspected is translated from it), a table marked
`valid` has a non-zero probability for EVERY symbol up to the required maximum and covers that maximum: the block coder, which
skips the per-symbol check for `valid` tables, can never be asked to encode a zero-probability symbol. -/
theorem repeat_valid_sound (norm : List Int) (dmax need : Nat) (h : dictNCountRepeat norm dmax need = .valid) :
    need ≤ dmax ∧ ∀ s, s ≤ need → norm.getD s 0 ≠ 0 := by
  unfold dictNCountRepeat at h
  split at h
  · cases h
  · rename_i hlt
    split at h
    · rename_i hall
      refine ⟨by omega, ?_⟩
      intro s hs
      have hm : s ∈ DictRepeat.inspected need := by
        simp [DictRepeat.inspected]; omega
      have := List.all_eq_true.mp hall s hm
      simpa using this
    · cases h

/-- the converse direction used by the compressor: a missing needed symbol forces `check` -/
theorem missing_symbol_forces_check (norm : List Int) (dmax need s : Nat) (hs : s ≤ need) (h0 : norm.getD s 0 = 0) :
    dictNCountRepeat norm dmax need = .check := by
  cases h : dictNCountRepeat norm dmax need with
  | check => rfl
  | valid => exact absurd h0 ((repeat_valid_sound norm dmax need h).2 s hs)

/-- **loaders_agree**: the compressor-side and decoder-side loaders accept exactly the same byte strings … -/
theorem loaders_agree (d : Bytes) : (acceptC d).isSome = (loadD d).toOption.isSome := by
  unfold acceptC loadD
  cases classify d <;> simp [Except.toOption]

/-- … and record the same dictionary ID, which is the one ZSTD_getDictID_fromDict reports -/
theorem loaders_same_id (d : Bytes) (D : Frame.Dict) (h : loadD d = .ok D) : acceptC d = some D.id ∧ D.id = dictIDFromDict d := by
  unfold loadD at h
  unfold acceptC dictIDFromDict
  unfold classify at *
  by_cases hr : isRaw d
  · simp only [hr, if_true] at h ⊢
    have hD := Except.ok.inj h
    rw [← hD]; exact ⟨rfl, rfl⟩
  · simp only [hr] at h ⊢
    generalize parseEntropy d = pe at h ⊢
    cases pe with
    | error w => simp at h
    | ok p =>
      simp only at h ⊢
      by_cases hq : repsOk p
      · simp only [hq, if_true] at h ⊢
        have hD := Except.ok.inj h
        rw [← hD, fullDict_id]; exact ⟨rfl, rfl⟩
      · simp [hq] at h

/-- **reps_in_content**: a dictionary with an entropy section is loaded only if each of its three repeat offsets lies in
[1, content size] - the first sequences of a frame can use them without reaching before the dictionary -/
theorem reps_in_content (d : Bytes) (p : Parsed) (h : classify d = .full p) : ∀ r ∈ p.reps, 1 ≤ r ∧ r ≤ p.contentSize := by
  unfold classify at h
  by_cases hr : isRaw d
  · simp [hr] at h
  · simp only [hr] at h
    generalize parseEntropy d = pe at h
    cases pe with
    | error w => simp at h
    | ok q =>
      simp only at h
      by_cases hq : repsOk q
      · simp only [hq, if_true] at h
        cases h
        intro r hr'
        have := List.all_eq_true.mp hq r hr'
        simp at this
        omega
      · simp [hq] at h

/-- **wrong_dict_refused**: a frame that names a dictionary ID is refused with dictionary_wrong under any dictionary carrying
another ID (including none), and is not refused on that ground when the IDs match or the frame names none -/
theorem wrong_dict_refused (fid did : Nat) : dictIDCheck fid did = some .dictWrong ↔ (fid ≠ 0 ∧ did ≠ fid) := by
  unfold dictIDCheck
  by_cases h1 : fid = 0 <;> by_cases h2 : did = fid <;> simp [h1, h2]

example : dictNCountRepeat [1, 2, 0, 5] 3 2 = .check ∧ dictNCountRepeat [1, 2, 3, 0, 5] 4 2 = .valid := by decide
example : dictIDCheck 7 8 = some .dictWrong ∧ dictIDCheck 0 8 = none ∧ dictIDCheck 7 7 = none := by decide

/-! ### the dictionary round trip through the full decoder model (Lemmas/DictRT.lean) -/

/-- **dict_roundtrip**: for every dictionary the decoder-side loader accepts (raw-content or formatted), every input and every valid
tiling of it into raw / RLE / compressed blocks whose matches may reach into the dictionary and whose first sequences may use the
dictionary's repeat offsets, the frame written with the dictionary loaded (header dictID absent, 0 or the dictionary's) is decoded by
ZSTD_decompress_usingDict (`Frame.decompressAll`) with that dictionary to exactly the input -/
theorem dict_roundtrip (d : Bytes) (D : Frame.Dict) (hload : loadD d = .ok D)
    (a : HeaderW.HArgs) (bs : List BlockEnc.BlockChoice2) (x : ByteArray)
    (hok : DictRT.FrameOKFrom D.content D.id (DictEnc.dictRep D) a bs x)
    (cap : Nat) (hcap : x.size ≤ cap) (o : Frame.Opts) (hml : o.magicless = false) (hmb : o.maxBlockSize = 0) :
    ∃ traces, Frame.decompressAll (DictEnc.serializeFrameDict D a bs x) D cap o = .ok (x, traces) :=
  DictRT.dict_roundtrip d D hload a bs x hok cap hcap o hml hmb

/-- what the loader guarantees about the repeat offsets it installs (positive; {1, 4, 8} for raw content; within the content for
formatted dictionaries) -/
theorem loadD_reps_ok {d : Bytes} {D : Frame.Dict} (h : loadD d = .ok D) :
    BlockRT.RepPos (DictEnc.dictRep D) ∧
    ((isRaw d = true ∧ D.id = 0 ∧ D.content = d ∧ DictEnc.dictRep D = BlockEnc.repStart) ∨
     (isRaw d = false ∧ D.id = d.le32 4 ∧ (DictEnc.dictRep D).r0 ≤ D.content.size ∧ (DictEnc.dictRep D).r1 ≤ D.content.size ∧
       (DictEnc.dictRep D).r2 ≤ D.content.size)) :=
  DictRT.loadD_reps_ok h

/-- **wrong_dict_refused_full**: the full decoder model returns dictionary_wrong on a serialized frame whose header names a dictionary
ID ≠ 0 other than the loaded dictionary's, whatever the frame's blocks -/
theorem wrong_dict_refused_full (rep0 : Rep.R) (a : HeaderW.HArgs) (ha : a.wf) (hnd : a.noDictID = false) (hid : a.dictID ≠ 0)
    (hm : a.magicless = false) (dict : Frame.Dict) (hne : dict.id ≠ a.dictID) (bs : List BlockEnc.BlockChoice2) (x : ByteArray)
    (cap : Nat) (o : Frame.Opts) (hml : o.magicless = false) :
    Frame.decompressAll (DictEnc.serializeFrameFrom rep0 a bs x) dict cap o = .error .dictWrong :=
  DictRT.wrong_dict_refused_full rep0 a ha hnd hid hm dict hne bs x cap o hml

/-! ### first blocks that REPEAT the dictionary's entropy tables (Lemmas/DictTablesRT.lean) -/

/-- **loadD_tables_match**: the entropy state the decoder-side loader installs (ZSTD_loadDEntropy: `litEntropy = fseEntropy = 1`) carries
exactly the tables the compressor starts from after ZSTD_loadCEntropy (`DictEnc.dictStart d`: for a formatted dictionary the three
sequence tables built from the counts FSE_readNCount returned and the Huffman table of the weights HUF_readStats returned - which are
PROVED acceptable: Kraft equality, depth ≤ 12 -; nothing for raw content), in the sense of the carrier relations of the block round trip -/
theorem loadD_tables_match {d : Bytes} {D : Frame.Dict} (h : loadD d = .ok D) :
    BlockRT.EntMatch (DictEnc.dictStart d).1 D.ent ∧ BlockRT.HufMatch (DictEnc.dictStart d).2 D.ent :=
  DictTablesRT.loadD_tables_match h

/-- for a formatted dictionary the start state is the dictionary's own tables (`set_repeat` / treeless literals in the first block
resolve to them) -/
theorem dictStart_full {d : Bytes} {p : Parsed} (h : classify d = .full p) :
    DictEnc.dictStart d = (some (DictEnc.dictTables p), some (DictEnc.dictHuf p)) :=
  DictTablesRT.dictStart_full h

/-- **dict_tables_roundtrip**: `dict_roundtrip` with the dictionary's ENTROPY TABLES on offer.  For every dictionary the decoder-side
loader accepts, every input and every tiling of it into raw / RLE / compressed blocks that is valid when the block loop starts from the
dictionary's tables (`DictTablesRT.FrameOKFromT`: matches may reach into the dictionary, first sequences may use its repeat offsets, the
FIRST block(s) with sequences may say `set_repeat` for LL / OF / ML = the dictionary's tables, the first block(s) with literals may be
TREELESS = Huffman-coded with the dictionary's table; afterwards tables are repeated from block to block as in `C01.roundtrip_treeless`),
the frame written by `DictEnc.serializeFrameDictTables` is decoded by ZSTD_decompress_usingDict (`Frame.decompressAll`) with that
dictionary to exactly the input.  `dict_roundtrip` is the special case of tilings that never look at the starting tables
(`DictTablesRT.frameOKFromT_of_frameOKFrom`, `DictTablesRT.frame_roundtrip_from_inst`). -/
theorem dict_tables_roundtrip (d : Bytes) (D : Frame.Dict) (hload : loadD d = .ok D)
    (a : HeaderW.HArgs) (bs : List BlockEnc.BlockChoice2) (x : ByteArray)
    (hok : DictTablesRT.FrameOKFromT D.content D.id (DictEnc.dictRep D) (DictEnc.dictStart d).1 (DictEnc.dictStart d).2 a bs x)
    (cap : Nat) (hcap : x.size ≤ cap) (o : Frame.Opts) (hml : o.magicless = false) (hmb : o.maxBlockSize = 0) :
    ∃ traces, Frame.decompressAll (DictEnc.serializeFrameDictTables d D a bs x) D cap o = .ok (x, traces) :=
  DictTablesRT.frame_roundtrip_compressed_dict_tables d D hload a bs x hok cap hcap o hml hmb

/-- the general form: ANY starting state (repeat offsets, previous sequence-table decisions, previous Huffman table) that the encoder
starts from and the decoder's loaded entropy state carries -/
theorem roundtrip_from_tables (rep0 : Rep.R) (hpos : BlockRT.RepPos rep0) (pt0 : Option BlockEnc.Tables) (hp0 : Option BlockEnc.HufTab)
    (a : HeaderW.HArgs) (bs : List BlockEnc.BlockChoice2) (x : ByteArray) (dict : Frame.Dict)
    (hok : DictTablesRT.FrameOKFromT dict.content dict.id rep0 pt0 hp0 a bs x) (hrep0 : SeqRT.repOf dict.ent.rep = rep0)
    (hem : BlockRT.EntMatch pt0 dict.ent) (hhm : BlockRT.HufMatch hp0 dict.ent)
    (cap : Nat) (hcap : x.size ≤ cap) (o : Frame.Opts) (hml : o.magicless = false) (hmb : o.maxBlockSize = 0) :
    ∃ traces, Frame.decompressAll (DictEnc.serializeFrameFromT rep0 pt0 hp0 a bs x) dict cap o = .ok (x, traces) :=
  DictTablesRT.frame_roundtrip_fromT rep0 hpos pt0 hp0 a bs x dict hok hrep0 hem hhm cap hcap o hml hmb

end ZstdVerif.Props.C08
