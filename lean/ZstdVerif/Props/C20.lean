/-
C20 — seekable format: any byte range reads back exactly.  Lookup correctness of the frame index search and
layout facts of the seek table.
-/
import ZstdVerif.Model.Seekable
import ZstdVerif.Lemmas.SeekRT
namespace ZstdVerif.Props.C20
open ZstdVerif ZstdVerif.Seekable

/-- loop invariant of the binary search: d lo ≤ pos < d hi is preserved, the interval shrinks, and with enough fuel
the loop ends with hi = lo + 1 -/
theorem searchLoop_correct (d : Nat → Nat) (pos : Nat) (fuel lo hi : Nat)
    (hlo : d lo ≤ pos) (hhi : pos < d hi) (hlt : lo < hi) (hf : hi - lo ≤ fuel + 1) :
    let r := searchLoop d pos fuel lo hi
    d r ≤ pos ∧ pos < d (r + 1) ∧ lo ≤ r ∧ r < hi := by
  induction fuel generalizing lo hi with
  | zero =>
    have : hi = lo + 1 := by omega
    subst this
    simp [searchLoop]; exact ⟨hlo, hhi⟩
  | succ f ih =>
    unfold searchLoop
    split
    · rename_i h1
      simp only
      split
      · rename_i hm
        have := ih (lo + (hi - lo) / 2) hi hm hhi (by omega) (by omega)
        simp only at this
        refine ⟨this.1, this.2.1, by omega, this.2.2.2⟩
      · rename_i hm
        have := ih lo (lo + (hi - lo) / 2) hlo (by omega) (by omega) (by omega)
        simp only at this
        refine ⟨this.1, this.2.1, this.2.2.1, by omega⟩
    · have : hi = lo + 1 := by omega
      subst this
      exact ⟨hlo, hhi, by omega, by omega⟩

/-- **lookup_correct**: for a position inside the content (d 0 = 0 ≤ pos < d n) the returned frame i satisfies
d i ≤ pos < d (i+1): the frame that contains the byte.  At or beyond the end the answer is n. -/
theorem lookup_correct (d : Nat → Nat) (n pos : Nat) (h0 : d 0 = 0) :
    (pos < d n → let i := offsetToFrameIndex d n pos; i < n ∧ d i ≤ pos ∧ pos < d (i + 1)) ∧
    (d n ≤ pos → offsetToFrameIndex d n pos = n) := by
  constructor
  · intro hp
    unfold offsetToFrameIndex
    rw [if_neg (by omega)]
    have hn : 0 < n := by
      rcases Nat.eq_zero_or_pos n with h | h
      · subst h; omega
      · exact h
    have := searchLoop_correct d pos n 0 n (by omega) hp hn (by omega)
    simp only at this ⊢
    exact ⟨this.2.2.2, this.1, this.2.1⟩
  · intro hp
    unfold offsetToFrameIndex
    rw [if_pos hp]

theorem flatMap_length_const {α β} (l : List α) (f : α → List β) (k : Nat) (h : ∀ a, (f a).length = k) :
    (l.flatMap f).length = l.length * k := by
  induction l with
  | nil => simp
  | cons a t ih => simp [List.flatMap_cons, h a, ih, Nat.succ_mul]; omega

theorem sum_map_const {α} (l : List α) (k : Nat) : (l.map (fun _ => k)).sum = l.length * k := by
  induction l with
  | nil => simp
  | cons a t ih => simp [ih, Nat.succ_mul]; omega

/-- the serialized table has exactly the size its own skippable header announces (8-byte skippable header + entries + 9-byte
footer): the writer's layout is self-consistent -/
theorem serialize_length (es : List Entry) (ck : Bool) :
    (serialize es ck).length = 8 + es.length * (if ck then 12 else 8) + 9 := by
  unfold serialize
  cases ck
  · have h := flatMap_length_const es (fun e => le32bytes e.cSize ++ le32bytes e.dSize ++ (if false = true then le32bytes e.checksum else [])) 8 (by intro a; simp [le32bytes])
    simp only [List.length_append, h, le32bytes, List.length_cons, List.length_nil]
    simp
    all_goals first | exact sum_map_const es 8 | exact sum_map_const es 12 | omega
  · have h := flatMap_length_const es (fun e => le32bytes e.cSize ++ le32bytes e.dSize ++ (if true = true then le32bytes e.checksum else [])) 12 (by intro a; simp [le32bytes])
    simp only [List.length_append, h, le32bytes, List.length_cons, List.length_nil]
    simp
    all_goals first | exact sum_map_const es 8 | exact sum_map_const es 12 | omega


/-- **seektable_roundtrip**: whatever precedes it in the archive, the seek table written for any list of frame entries (sizes and
checksums below 2^32, table size below 2^32 as in the writer's own limit) is read back by the loader as exactly those entries -
checksums included when the table carries them, zero otherwise - together with the checksum flag.  Writer and loader models are
each tied to contrib/seekable_format on every run (tblser / tbl). -/
theorem seektable_roundtrip (pre : List UInt8) (es : List Entry) (ck : Bool) (hf : ∀ e ∈ es, Fits e)
    (hn : es.length * 12 + 17 < 4294967296) :
    load (ByteArray.mk (pre ++ toBytes (serialize es ck)).toArray) = .ok (es.map (norm ck), ck) :=
  Seekable.seektable_roundtrip pre es ck hf hn

/-- hence the cumulative offsets the reader uses are the ones of the entries that were written -/
theorem offsets_roundtrip (pre : List UInt8) (es : List Entry) (ck : Bool) (hf : ∀ e ∈ es, Fits e)
    (hn : es.length * 12 + 17 < 4294967296) :
    (load (ByteArray.mk (pre ++ toBytes (serialize es ck)).toArray)).toOption.map (fun r => r.1.map (fun e => (e.cSize, e.dSize)))
      = some (es.map (fun e => (e.cSize, e.dSize))) := by
  rw [seektable_roundtrip pre es ck hf hn]
  simp [Except.toOption, norm]
  intro e _
  cases ck <;> simp

/-- **checksum column** (the frame log of the writer, `Seekable.expectedChecksums`, tied on every run by `cks`): one checksum per frame of the cut, each a
32-bit value (it fits the table's field, `Fits`), and without the checksum flag every one is 0.  The column is a function of the content and the frame cut only:
no call history (input chunking, output window sizes, how much of an offered chunk the inner compressor took) appears in it. -/
theorem checksum_column (x : Bytes) (ck : Bool) (off : Nat) (ds : List Nat) :
    (expectedChecksums x ck off ds).length = ds.length ∧
    (∀ c ∈ expectedChecksums x ck off ds, c < 4294967296) ∧
    (ck = false → ∀ c ∈ expectedChecksums x ck off ds, c = 0) := by
  induction ds generalizing off with
  | nil => simp [expectedChecksums]
  | cons d rest ih =>
    obtain ⟨h1, h2, h3⟩ := ih (off + d)
    have hc : frameChecksum x off d ck < 4294967296 := by
      unfold frameChecksum; split
      · exact Nat.mod_lt _ (by decide)
      · decide
    refine ⟨by simp [expectedChecksums, h1], ?_, ?_⟩
    · intro c hcm
      simp only [expectedChecksums, List.mem_cons] at hcm
      rcases hcm with rfl | hcm
      · exact hc
      · exact h2 c hcm
    · intro hk c hcm
      simp only [expectedChecksums, List.mem_cons] at hcm
      rcases hcm with rfl | hcm
      · simp [frameChecksum, hk]
      · exact h3 hk c hcm

/-- a frame's checksum is taken over exactly its own `len` bytes: the next frame's starts where this one's ends -/
theorem checksum_column_cons (x : Bytes) (ck : Bool) (off d : Nat) (rest : List Nat) :
    expectedChecksums x ck off (d :: rest) = frameChecksum x off d ck :: expectedChecksums x ck (off + d) rest := rfl

example : expectedChecksums (ByteArray.mk #[1, 2, 3]) false 0 [1, 2] = [0, 0] := by decide

example : Fits ⟨5, 10, 77⟩ ∧ norm false ⟨5, 10, 77⟩ = ⟨5, 10, 0⟩ := by
  unfold Fits; decide

example : offsetToFrameIndex (fun i => [0, 10, 20, 35].getD i 35) 3 19 = 1 := by decide
example : cumulative [⟨5, 10, 0⟩, ⟨7, 20, 0⟩] = [(0, 0), (5, 10), (12, 30)] := by decide

end ZstdVerif.Props.C20
