/-
C17 — sequence-level compression: valid parses round-trip, invalid ones are refused.
-/
import ZstdVerif.Model.SeqApi
namespace ZstdVerif.Props.C17
open ZstdVerif ZstdVerif.SeqApi ZstdVerif.Gen

/-- **offsets are validated against the history available at the START of the match** (position before the sequence plus its
literals) - over the statements regenerated from both copiers.  (False of the original code, which added the match length too.) -/
theorem validated_at_match_start (pos ll ml : Nat) :
    SeqVal.posAtValidationExplicit pos ll ml = pos + ll ∧ SeqVal.posAtValidationNoDelim pos ll ml = pos + ll := by
  constructor <;> (simp only [SeqVal.posAtValidationExplicit, SeqVal.posAtValidationNoDelim])

/-- what an accepted sequence guarantees: its offset reaches neither beyond the window (once the position has passed it) nor
beyond the history present at the match start (content so far + dictionary), and its match is not shorter than the minimum -/
theorem validSeq_sound (offset ml minMatch pos w d : Nat) (h : validSeq offset ml minMatch pos w d = true) :
    offset ≤ pos + d ∧ (w < pos → offset ≤ w) ∧ 3 ≤ ml ∧ (minMatch ≠ 3 → 4 ≤ ml) := by
  unfold validSeq at h
  simp only [Bool.and_eq_true, decide_eq_true_eq] at h
  obtain ⟨h1, h2⟩ := h
  refine ⟨?_, ?_, ?_, ?_⟩
  · split at h1 <;> omega
  · intro hw; rw [if_pos hw] at h1; exact h1
  · split at h2 <;> omega
  · intro hm; rw [if_neg hm] at h2; exact h2

/-- a block accepted under explicit delimiters ends on a delimiter, and every match inside it satisfied `validSeq` at its own
match-start position; its size is what the delimiter structure says -/
theorem explicitBlock_sizes (c : Cfg) (fuel : Nat) (s : List Seq) (pos acc bs : Nat) (rest : List Seq) (pos' : Nat)
    (h : explicitBlock c fuel s pos acc = some (bs, rest, pos')) : acc ≤ bs ∧ pos' - pos = bs - acc ∧ pos ≤ pos' := by
  induction fuel generalizing s pos acc with
  | zero => simp [explicitBlock] at h
  | succ f ih =>
    cases s with
    | nil => simp [explicitBlock] at h
    | cons x xs =>
      unfold explicitBlock at h
      split at h
      · split at h
        · cases h; omega
        · simp at h
      · split at h
        · have := ih xs (pos + x.ll + x.ml) (acc + x.ll + x.ml) h
          omega
        · simp at h

/-- **block lengths that disagree with the source are refused**: acceptance implies the accepted blocks tile exactly the
`remaining` source bytes, each within the block limit -/
theorem acceptExplicit_tiles (c : Cfg) (fuel : Nat) (s : List Seq) (pos rem : Nat) (h : acceptExplicit c fuel s pos rem = true) :
    rem = 0 ∨ ∃ bs rest pos', explicitBlock c (s.length + 1) s pos 0 = some (bs, rest, pos') ∧ bs ≤ c.blockLimit ∧ bs ≤ rem := by
  cases fuel with
  | zero => simp [acceptExplicit] at h
  | succ f =>
    unfold acceptExplicit at h
    split at h
    · left; assumption
    · right
      split at h
      · simp at h
      · rename_i bs rest pos' heq
        split at h
        · simp at h
        · rename_i hc
          exact ⟨bs, rest, pos', heq, by omega, by omega⟩

example : acceptExplicit ⟨131072, 1 <<< 17, 0, 4⟩ 10 [⟨8, 8, 152⟩, ⟨0, 0, 0⟩] 0 160 = true := by decide
example : acceptExplicit ⟨131072, 1 <<< 17, 0, 4⟩ 10 [⟨9, 8, 152⟩, ⟨0, 0, 0⟩] 0 160 = false := by decide
example : acceptExplicit ⟨131072, 1 <<< 17, 0, 4⟩ 10 [⟨10, 0, 20⟩, ⟨0, 44, 0⟩] 0 64 = false := by decide

end ZstdVerif.Props.C17
