/-
C17 — sequence-level compression: valid parses round-trip, invalid ones are refused.
-/
import ZstdVerif.Model.SeqApi
import ZstdVerif.Lemmas.SeqApiRep
namespace ZstdVerif.Props.C17
open ZstdVerif ZstdVerif.SeqApi ZstdVerif.Gen ZstdVerif.SeqApiRep

/-- **offsets are validated against the history available at the START of the match** (position before the sequence plus its
literals) - over the statements regenerated from both copiers.  (False of the original code, which added the match length too.) -/
theorem validated_at_match_start (pos ll ml : Nat) :
    SeqVal.posAtValidationExplicit pos ll ml = pos + ll ∧ SeqVal.posAtValidationNoDelim pos ll ml = pos + ll := by
  constructor <;> (simp only [SeqVal.posAtValidationExplicit, SeqVal.posAtValidationNoDelim])

/-- what an accepted sequence guarantees: its offset reaches neither beyond the window (once the position has passed it) nor
beyond the history present at the match start (content so far + dictionary), and its match is not shorter than the minimum -/
theorem validSeq_sound (offset ml minMatch pos w d : Nat) (h : validSeq offset ml minMatch pos w d = true) :
    offset ≤ pos + d ∧ (w < pos → offset ≤ w) ∧ 3 ≤ ml ∧ (minMatch ≠ 3 → 4 ≤ ml) := by
  unfold validSeq at h
  simp only [Bool.and_eq_true, decide_eq_true_eq] at h
  obtain ⟨h1, h2⟩ := h
  refine ⟨?_, ?_, ?_, ?_⟩
  · split at h1 <;> omega
  · intro hw; rw [if_pos hw] at h1; exact h1
  · split at h2 <;> omega
  · intro hm; rw [if_neg hm] at h2; exact h2

/-- a block accepted under explicit delimiters ends on a delimiter, and every match inside it satisfied `validSeq` at its own
match-start position; its size is what the delimiter structure says -/
theorem explicitBlock_sizes (c : Cfg) (fuel : Nat) (s : List Seq) (pos acc bs : Nat) (rest : List Seq) (pos' : Nat)
    (h : explicitBlock c fuel s pos acc = some (bs, rest, pos')) : acc ≤ bs ∧ pos' - pos = bs - acc ∧ pos ≤ pos' := by
  induction fuel generalizing s pos acc with
  | zero => simp [explicitBlock] at h
  | succ f ih =>
    cases s with
    | nil => simp [explicitBlock] at h
    | cons x xs =>
      unfold explicitBlock at h
      split at h
      · split at h
        · cases h; omega
        · simp at h
      · split at h
        · have := ih xs (pos + x.ll + x.ml) (acc + x.ll + x.ml) h
          omega
        · simp at h

/-- **block lengths that disagree with the source are refused**: acceptance implies the accepted blocks tile exactly the
`remaining` source bytes, each within the block limit -/
theorem acceptExplicit_tiles (c : Cfg) (fuel : Nat) (s : List Seq) (pos rem : Nat) (h : acceptExplicit c fuel s pos rem = true) :
    rem = 0 ∨ ∃ bs rest pos', explicitBlock c (s.length + 1) s pos 0 = some (bs, rest, pos') ∧ bs ≤ c.blockLimit ∧ bs ≤ rem := by
  cases fuel with
  | zero => simp [acceptExplicit] at h
  | succ f =>
    unfold acceptExplicit at h
    split at h
    · left; assumption
    · right
      split at h
      · simp at h
      · rename_i bs rest pos' heq
        split at h
        · simp at h
        · rename_i hc
          exact ⟨bs, rest, pos', heq, by omega, by omega⟩

example : acceptExplicit ⟨131072, 1 <<< 17, 0, 4⟩ 10 [⟨8, 8, 152⟩, ⟨0, 0, 0⟩] 0 160 = true := by decide
example : acceptExplicit ⟨131072, 1 <<< 17, 0, 4⟩ 10 [⟨9, 8, 152⟩, ⟨0, 0, 0⟩] 0 160 = false := by decide
example : acceptExplicit ⟨131072, 1 <<< 17, 0, 4⟩ 10 [⟨10, 0, 20⟩, ⟨0, 44, 0⟩] 0 64 = false := by decide

/-! ### the repeat-offset history the transcriber leaves for the next block (explicit delimiters, registered sequence producers) -/

/-- **the history handed to the next block is the decoder's.**  For a block of valid raw offsets transcribed by
ZSTD_copySequencesToSeqStoreExplicitBlockDelim - repcode search on or off, any number of sequences - the decoder, started from the same
history, resolves the stored Offset_Values back to the raw offsets, and the history it holds after the block is exactly what the transcriber
leaves in `nextCBlock->rep`: the internal parser that takes over the next block after a producer failure (fallback), or the transcriber of
the next block, starts from the decoder's state. -/
theorem storeExplicit_lockstep (search : Bool) (rep : Rep.R) (seqs : List Seq) (h0 : 1 ≤ rep.r0) (h1 : 1 ≤ rep.r1) (h2 : 1 ≤ rep.r2)
    (hq : ∀ s ∈ seqs, 1 ≤ s.offset) :
    (SeqRT.resolveAll rep (trisOf seqs (storeExplicit search rep seqs).1)).1.map (fun q => (q.ll, q.ml, q.offset))
        = seqs.map (fun s => (s.ll, s.ml, s.offset)) ∧
      (SeqRT.resolveAll rep (trisOf seqs (storeExplicit search rep seqs).1)).2 = (storeExplicit search rep seqs).2 := by
  cases search with
  | true => simpa [storeExplicit] using resolveAll_storeOn rep seqs h0 h1 h2 hq
  | false =>
    have := resolveAll_raw rep seqs hq
    simp only [storeExplicit, Bool.false_eq_true, if_false]
    rw [endRepOff_eq_pushAll]
    exact this

/-- with repcode search off the three-case tail of the transcriber (three or more sequences / exactly two / exactly one) is "every raw
offset of the block pushed in front, oldest entries dropped" - for every number of sequences -/
theorem endRepOff_pushes_every_offset (rep : Rep.R) (seqs : List Seq) :
    endRepOff rep seqs = seqs.foldl (fun r s => ⟨s.offset, r.r0, r.r1⟩) rep := endRepOff_eq_pushAll rep seqs

/-- a producer's answer is turned into exactly one of: a transcribed block, a hand-over to the internal parser, or an error; a block is
handed over / the call fails with sequenceProducer_failed only for an error code, an empty answer, or a full buffer without delimiter -
and which of the two is decided by ZSTD_c_enableSeqProducerFallback alone -/
theorem producer_failure_switch (search validate : Bool) (w d : Nat) (rep : Rep.R) (srcSize cap ret : Nat) (buf : List Seq) :
    (producerBlock search true validate w d rep srcSize cap ret buf = .fallback ↔
      producerBlock search false validate w d rep srcSize cap ret buf = .failed) ∧
    producerBlock search true validate w d rep srcSize cap ret buf ≠ .failed ∧
    producerBlock search false validate w d rep srcSize cap ret buf ≠ .fallback := by
  unfold producerBlock
  simp only []
  split
  · simp
  · split
    · simp
    · split
      · simp
      · split
        · simp
        · split
          · simp
          · split <;> simp

example : endRepOff ⟨1, 4, 8⟩ [⟨700, 5, 30⟩, ⟨1234, 3, 40⟩, ⟨4321, 2, 45⟩] = ⟨4321, 1234, 700⟩ := by decide
example : endRepOff ⟨1, 4, 8⟩ [⟨700, 5, 30⟩, ⟨1234, 3, 40⟩] = ⟨1234, 700, 1⟩ := by decide
example : endRepOff ⟨1, 4, 8⟩ [⟨700, 5, 30⟩] = ⟨700, 1, 4⟩ := by decide
example : (storeExplicit true ⟨1, 4, 8⟩ [⟨700, 5, 30⟩, ⟨700, 3, 40⟩, ⟨4, 0, 45⟩]) = ([703, 1, 2], ⟨4, 700, 1⟩) := by decide
example : producerBlock false true false (1 <<< 17) 0 ⟨1, 4, 8⟩ 100 40 41 [] = .fallback := by decide
example : producerBlock false false false (1 <<< 17) 0 ⟨1, 4, 8⟩ 100 40 41 [] = .failed := by decide
example : producerBlock false true false (1 <<< 17) 0 ⟨1, 4, 8⟩ 100 40 2 [⟨8, 10, 80⟩, ⟨0, 10, 0⟩] = .stored [11] 10 ⟨8, 1, 4⟩ := by decide
example : producerBlock false true false (1 <<< 17) 0 ⟨1, 4, 8⟩ 100 40 2 [⟨8, 10, 80⟩, ⟨0, 11, 0⟩] = .invalid := by decide

/-! ### ZSTD_mergeBlockDelimiters -/

/-- **merging block delimiters keeps the parse**: the merged list contains no delimiter, holds the real sequences of the input in order with
their offsets and match lengths, and describes the same number of bytes as the input once the literals of the trailing delimiters (the
frame's last literals) are added back - for any arrangement of delimiters: several in a row, leading, trailing, none. -/
theorem mergeDelims_keeps_parse (l : List Seq) :
    (∀ s ∈ mergeDelims l, isDelim s = false) ∧
    (mergeDelims l).map (fun s => (s.offset, s.ml)) = (l.filter (fun s => !isDelim s)).map (fun s => (s.offset, s.ml)) ∧
    total (mergeDelims l) + mergeDropped l = total l := by
  refine ⟨mergeGo_noDelim 0 l, mergeGo_matches 0 l, ?_⟩
  have := mergeGo_total 0 l
  simpa [mergeDelims, mergeDropped] using this

example : mergeDelims [⟨0, 1000, 0⟩, ⟨0, 1000, 0⟩, ⟨500, 100, 50⟩, ⟨0, 1850, 0⟩] = [⟨500, 2100, 50⟩] := by decide
example : mergeDropped [⟨0, 1000, 0⟩, ⟨0, 1000, 0⟩, ⟨500, 100, 50⟩, ⟨0, 1850, 0⟩, ⟨0, 7, 0⟩] = 1857 := by decide
example : mergeDelims [⟨9, 1, 5⟩, ⟨0, 3, 0⟩, ⟨0, 0, 0⟩, ⟨0, 4, 0⟩, ⟨9, 0, 5⟩, ⟨0, 0, 0⟩] = [⟨9, 1, 5⟩, ⟨9, 7, 5⟩] := by decide

end ZstdVerif.Props.C17
