/-
C05 — everything the compressor emits is a conformant, truthful frame.
Facts about the conformance predicate itself (what `Conform.checkFrame = []` guarantees per sequence).
-/
import ZstdVerif.Model.Conform
namespace ZstdVerif.Props.C05
open ZstdVerif ZstdVerif.Conform

/-- a sequence accepted by the window rule never reaches before the start of dictionary ++ content, has a non-zero
offset, and either stays within Window_Size or occurs in a block that ends inside the first Window_Size bytes -/
theorem offsetOk_sound (w d pos be off : Nat) (h : offsetOk w d pos be off = true) :
    1 ≤ off ∧ off ≤ pos + d ∧ (off ≤ w ∨ be ≤ w) := by
  unfold offsetOk at h
  simp only [Bool.and_eq_true, Bool.or_eq_true, decide_eq_true_eq] at h
  exact ⟨h.1.1, h.1.2, h.2⟩

/-- once the position has moved past the window (block end beyond Window_Size), an accepted offset is at most Window_Size:
no match reaches further back than the declared window -/
theorem window_enforced (w d pos be off : Nat) (h : offsetOk w d pos be off = true) (hbe : w < be) : off ≤ w := by
  obtain ⟨_, _, h3⟩ := offsetOk_sound w d pos be off h
  omega

/-- without a dictionary an accepted offset always points inside the content regenerated so far -/
theorem no_dict_offset_in_content (w pos be off : Nat) (h : offsetOk w 0 pos be off = true) : off ≤ pos := by
  obtain ⟨_, h2, _⟩ := offsetOk_sound w 0 pos be off h
  omega

example : offsetOk 1024 0 5000 6000 1024 = true ∧ offsetOk 1024 0 5000 6000 1025 = false := by decide

end ZstdVerif.Props.C05
