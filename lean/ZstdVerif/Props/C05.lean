/-
C05 — everything the compressor emits is a conformant, truthful frame.
Facts about the conformance predicate itself (what `Conform.checkFrame = []` guarantees per sequence).
-/
import ZstdVerif.Model.Conform
import ZstdVerif.Lemmas.HeaderW
namespace ZstdVerif.Props.C05
open ZstdVerif ZstdVerif.Conform

/-- a sequence accepted by the window rule never reaches before the start of dictionary ++ content, has a non-zero
offset, and either stays within Window_Size or occurs in a block that ends inside the first Window_Size bytes -/
theorem offsetOk_sound (w d pos be off : Nat) (h : offsetOk w d pos be off = true) :
    1 ≤ off ∧ off ≤ pos + d ∧ (off ≤ w ∨ be ≤ w) := by
  unfold offsetOk at h
  simp only [Bool.and_eq_true, Bool.or_eq_true, decide_eq_true_eq] at h
  exact ⟨h.1.1, h.1.2, h.2⟩

/-- once the position has moved past the window (block end beyond Window_Size), an accepted offset is at most Window_Size:
no match reaches further back than the declared window -/
theorem window_enforced (w d pos be off : Nat) (h : offsetOk w d pos be off = true) (hbe : w < be) : off ≤ w := by
  obtain ⟨_, _, h3⟩ := offsetOk_sound w d pos be off h
  omega

/-- without a dictionary an accepted offset always points inside the content regenerated so far -/
theorem no_dict_offset_in_content (w pos be off : Nat) (h : offsetOk w 0 pos be off = true) : off ≤ pos := by
  obtain ⟨_, h2, _⟩ := offsetOk_sound w 0 pos be off h
  omega


/-- **header_roundtrip** (truthful header): for every accepted argument tuple of ZSTD_writeFrameHeader - window log 10..31, any
pledged size below 2^64, any 32-bit dictionary ID, every combination of the content-size / no-dictID / checksum flags, with or
without magic number - the decoder-side header parser applied to the bytes the writer model emits, followed by ANY bytes, succeeds,
consumes exactly the header, and reports: the pledged size as frame content size (iff the content-size flag is on), the window
(the pledged size for single-segment frames, 2^windowLog otherwise), the dictionary ID (0 iff suppressed), the checksum flag.
The writer model is tied to ZSTD_writeFrameHeader function-level on every run (tools/props/c05.py: tie_header). -/
theorem header_roundtrip (a : HeaderW.HArgs) (ha : a.wf) (rest : List UInt8) :
    ∃ hd, Frame.getHeader (ByteArray.mk (HeaderW.writeHeader a ++ rest).toArray) 0 ((HeaderW.writeHeader a ++ rest).length) a.magicless = .ok hd ∧
      hd.headerSize = (HeaderW.writeHeader a).length ∧
      hd.fcs = (if a.contentSizeFlag then some a.pledged else none) ∧
      hd.windowSize = (if HeaderW.single a then a.pledged else 2 ^ a.windowLog) ∧
      hd.dictID = (if a.noDictID then 0 else a.dictID) ∧ hd.checksum = a.checksum ∧ hd.singleSegment = HeaderW.single a := by
  rcases a with ⟨wl, pl, cs, did, nd, ck, ml⟩
  obtain ⟨h1, h2, h3, h4⟩ := ha
  exact HeaderW.header_roundtrip wl pl did cs nd ck ml rest h1 h2 (by simpa using h3) (by simpa using h4)

/-- a single-segment frame announces a window equal to its content size, and only when that size fits the requested window -/
theorem single_segment_window (a : HeaderW.HArgs) (hs : HeaderW.single a = true) : a.contentSizeFlag = true ∧ a.pledged ≤ 2 ^ a.windowLog := by
  unfold HeaderW.single at hs
  simp only [Bool.and_eq_true, decide_eq_true_eq] at hs
  exact ⟨hs.1, hs.2⟩

example : (⟨17, 100000, true, 0x12345, false, true, false⟩ : HeaderW.HArgs).wf := by
  unfold HeaderW.HArgs.wf; decide

example : offsetOk 1024 0 5000 6000 1024 = true ∧ offsetOk 1024 0 5000 6000 1025 = false := by decide

end ZstdVerif.Props.C05
