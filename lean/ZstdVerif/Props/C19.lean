/-
C19 — the command-line tool: the sparse writer reproduces the bytes exactly; the file-operation protocol never loses data
at any kill point.
-/
import ZstdVerif.Model.Sparse
import ZstdVerif.Model.Cli
set_option linter.unusedSimpArgs false
namespace ZstdVerif.Props.C19
open ZstdVerif ZstdVerif.Sparse

/-! ### sparse writer -/

theorem replicate_add (a b : Nat) : List.replicate (a + b) (0 : UInt8) = List.replicate a 0 ++ List.replicate b 0 :=
  Eq.symm List.replicate_append_replicate

theorem zeroWords_spec (b : Bytes) : 8 * zeroWords b ≤ b.length ∧ b.take (8 * zeroWords b) = List.replicate (8 * zeroWords b) 0 := by
  fun_induction zeroWords b with
  | case1 b h ih =>
    obtain ⟨i1, i2⟩ := ih
    have hl : (b.drop 8).length = b.length - 8 := by simp
    refine ⟨by omega, ?_⟩
    have h8 : b.take 8 = List.replicate 8 0 := by
      apply List.ext_getElem
      · simp; omega
      · intro i h1 h2
        have := List.all_eq_true.mp h.2 (b.take 8)[i] (List.getElem_mem h1)
        simp at this
        rw [List.getElem_replicate]
        simpa using this
    have : 8 * (1 + zeroWords (b.drop 8)) = 8 + 8 * zeroWords (b.drop 8) := by omega
    rw [this, List.take_add, h8, i2, replicate_add]
  | case2 b h => simp

/-- what has been handed to the writer so far = materialised content followed by the pending zeros -/
def SInv (s : St) (written : Bytes) : Prop := s.content ++ List.replicate s.skips 0 = written

theorem seekWrite_inv (s : St) (w data : Bytes) (h : SInv s w) : SInv (seekWrite s data) (w ++ data) := by
  unfold SInv at *; simp [seekWrite, ← h]

theorem segment_inv (s : St) (w seg : Bytes) (h : SInv s w) : SInv (segment s seg) (w ++ seg) := by
  obtain ⟨z1, z2⟩ := zeroWords_spec seg
  unfold segment
  simp only
  split
  · rename_i heq
    unfold SInv at *
    simp only
    have : seg = List.replicate (8 * zeroWords seg) 0 := by
      have h2 := z2; rw [heq, List.take_length] at h2; rw [heq]; exact h2
    rw [← h, replicate_add, ← List.append_assoc]
    congr 1
    exact this.symm
  · have hsplit : seg = List.replicate (8 * zeroWords seg) 0 ++ seg.drop (8 * zeroWords seg) := by
      conv => lhs; rw [← List.take_append_drop (8 * zeroWords seg) seg]
      rw [z2]
    have h' : SInv { s with skips := s.skips + 8 * zeroWords seg } (w ++ List.replicate (8 * zeroWords seg) 0) := by
      unfold SInv at *; simp only; rw [replicate_add, ← List.append_assoc, h]
    have := seekWrite_inv _ _ (seg.drop (8 * zeroWords seg)) h'
    rw [List.append_assoc, ← hsplit] at this
    exact this

theorem body_inv (s : St) (b : Bytes) : ∀ w, SInv s w → SInv (body s b) (w ++ b) := by
  fun_induction body s b with
  | case1 s => intro w hw; simpa using hw
  | case2 s b h ih =>
    intro w hw
    have := ih (w ++ b.take segmentSize) (segment_inv s w _ hw)
    rw [List.append_assoc, List.take_append_drop] at this
    exact this

theorem takeWhile_zero (r : Bytes) : r.take ((r.takeWhile (· == 0)).length) = List.replicate ((r.takeWhile (· == 0)).length) 0 := by
  induction r with
  | nil => simp
  | cons a t ih =>
    by_cases h : a = 0
    · subst h; simp [List.takeWhile, List.replicate_succ, ih]
    · have : (a == 0) = false := by simpa using h
      simp [List.takeWhile, this]

theorem tail_inv (s : St) (w rest : Bytes) (h : SInv s w) : SInv (tail s rest) (w ++ rest) := by
  unfold tail
  split
  · rename_i he; subst he; simpa using h
  · simp only
    have tz := takeWhile_zero rest
    split
    · rename_i heq
      unfold SInv at *; simp only
      rw [heq, List.take_length] at tz
      rw [← h, replicate_add, ← List.append_assoc, heq]
      congr 1; exact tz.symm
    · have hsplit : rest = List.replicate ((rest.takeWhile (· == 0)).length) 0 ++ rest.drop ((rest.takeWhile (· == 0)).length) := by
        conv => lhs; rw [← List.take_append_drop ((rest.takeWhile (· == 0)).length) rest]
        rw [tz]
      have h' : SInv { s with skips := s.skips + (rest.takeWhile (· == 0)).length } (w ++ List.replicate ((rest.takeWhile (· == 0)).length) 0) := by
        unfold SInv at *; simp only; rw [replicate_add, ← List.append_assoc, h]
      have := seekWrite_inv _ _ (rest.drop ((rest.takeWhile (· == 0)).length)) h'
      rw [List.append_assoc, ← hsplit] at this
      exact this

theorem writeBuf_inv (s : St) (w buf : Bytes) (h : SInv s w) : SInv (writeBuf s buf) (w ++ buf) := by
  unfold writeBuf
  have h1 := body_inv s (buf.take (8 * (buf.length / 8))) w h
  have h2 := tail_inv _ _ (buf.drop (8 * (buf.length / 8))) h1
  rw [List.append_assoc, List.take_append_drop] at h2
  exact h2

theorem foldl_inv (bufs : List Bytes) : ∀ (s : St) (w : Bytes), SInv s w → SInv (bufs.foldl writeBuf s) (w ++ bufs.flatten) := by
  induction bufs with
  | nil => intro s w h; simpa using h
  | cons b bs ih =>
    intro s w h
    simp only [List.foldl_cons, List.flatten_cons]
    have := ih (writeBuf s b) (w ++ b) (writeBuf_inv s w b h)
    rw [List.append_assoc] at this
    exact this

/-- **sparse_eq_dense**: for every sequence of buffers of any sizes and contents, what the sparse writer leaves in the file
(after AIO_fwriteSparseEnd) is exactly their concatenation - the bytes the plain writer would have written -/
theorem sparse_eq_dense (bufs : List Bytes) : (writeAll bufs).content = bufs.flatten ∧ (writeAll bufs).skips = 0 := by
  have h := foldl_inv bufs {} [] (by simp [SInv])
  simp only [List.nil_append] at h
  unfold writeAll finish
  unfold SInv at h
  split
  · rename_i hp
    refine ⟨?_, rfl⟩
    simp only
    rw [← h]
    have : (bufs.foldl writeBuf {}).skips = ((bufs.foldl writeBuf {}).skips - 1) + 1 := by omega
    conv => rhs; rw [this, List.replicate_succ']
    simp
  · rename_i hp
    have h0 : (bufs.foldl writeBuf {}).skips = 0 := by omega
    rw [h0] at h
    exact ⟨by simpa using h, h0⟩

example : (writeAll [[0,0,0,0,0,0,0,0, 0,0,0,0,0,0,0,0, 0,0,5], [0,0,0]]).content.length = 22 := by rw [(sparse_eq_dense _).1]; rfl

/-! ### length view (Model/Sparse.lean `LSt`) and zero runs of any length -/

theorem abs_seekWrite (s : St) (d : Bytes) : (seekWrite s d).abs = seekWriteL s.abs d.length := by
  simp [seekWrite, seekWriteL, St.abs, Nat.add_assoc]

theorem abs_segment (s : St) (seg : Bytes) : (segment s seg).abs = segmentL s.abs seg := by
  unfold segment segmentL
  simp only
  split
  · rfl
  · rw [abs_seekWrite]; simp [St.abs]

theorem abs_body (s : St) (b : Bytes) : (body s b).abs = bodyL s.abs b := by
  fun_induction body s b with
  | case1 s => unfold bodyL; simp
  | case2 s b h ih => rw [ih, abs_segment]; conv => rhs; unfold bodyL; simp only [h, dite_false]

theorem abs_tail (s : St) (rest : Bytes) : (tail s rest).abs = tailL s.abs rest := by
  unfold tail tailL
  split
  · rfl
  · simp only
    split
    · rfl
    · rw [abs_seekWrite]; simp [St.abs]

theorem abs_writeBuf (s : St) (buf : Bytes) : (writeBuf s buf).abs = writeBufL s.abs buf := by
  unfold writeBuf writeBufL
  simp only
  rw [abs_tail, abs_body]

theorem abs_finish (s : St) : (finish s).abs = finishL s.abs := by
  unfold finish finishL
  by_cases h : s.skips > 0
  · have : s.content.length + (s.skips - 1) + 1 = s.content.length + s.skips := by omega
    simp [h, St.abs]; omega
  · simp [h, St.abs]

theorem abs_foldl (bufs : List Bytes) : ∀ s : St, (bufs.foldl writeBuf s).abs = bufs.foldl writeBufL s.abs := by
  induction bufs with
  | nil => intro s; rfl
  | cons b bs ih => intro s; simp only [List.foldl_cons]; rw [ih, abs_writeBuf]

/-- the length view computes exactly the size, pending skip and seek / write calls of the byte-level writer -/
theorem abs_writeAll (bufs : List Bytes) : (writeAll bufs).abs = finishL (bufs.foldl writeBufL {}) := by
  unfold writeAll
  rw [abs_finish, abs_foldl]
  rfl

theorem zeroWords_replicate (k r : Nat) (hr : r < 8) : zeroWords (List.replicate (8 * k + r) 0) = k := by
  induction k with
  | zero =>
    unfold zeroWords
    simp; omega
  | succ k ih =>
    unfold zeroWords
    have hd : List.drop 8 (List.replicate (8 * (k + 1) + r) (0 : UInt8)) = List.replicate (8 * k + r) 0 := by
      rw [List.drop_replicate]; congr 1; omega
    have hc : (List.replicate (8 * (k + 1) + r) (0 : UInt8)).length ≥ 8 ∧ ((List.replicate (8 * (k + 1) + r) (0 : UInt8)).take 8).all (· == 0) = true := by
      refine ⟨by simp; omega, ?_⟩
      simp [List.take_replicate]
    rw [dif_pos hc, hd, ih]; omega

theorem segmentL_zeros (l : LSt) (j : Nat) : segmentL l (List.replicate (8 * j) 0) = { l with skips := l.skips + 8 * j } := by
  unfold segmentL
  have := zeroWords_replicate j 0 (by omega)
  simp only [Nat.add_zero] at this
  simp [this]

theorem bodyL_zeros_aux (n : Nat) : ∀ l : LSt, 8 ∣ n → bodyL l (List.replicate n 0) = { l with skips := l.skips + n } := by
  induction n using Nat.strongRecOn with
  | _ n ih =>
    intro l hdiv
    unfold bodyL
    by_cases hn : n = 0
    · subst hn; simp
    · have hne : List.replicate n (0 : UInt8) ≠ [] := by
        intro h; have := congrArg List.length h; simp at this; omega
      rw [dif_neg hne, List.take_replicate, List.drop_replicate]
      obtain ⟨j, hj⟩ : ∃ j, min segmentSize n = 8 * j := by
        obtain ⟨q, hq⟩ := hdiv
        simp only [segmentSize]
        by_cases hc : 32768 ≤ n
        · exact ⟨4096, by omega⟩
        · exact ⟨q, by omega⟩
      obtain ⟨m, hm, hlt, hmd⟩ : ∃ m, n - segmentSize = m ∧ m < n ∧ 8 ∣ m := by
        refine ⟨n - segmentSize, rfl, ?_, ?_⟩
        · simp only [segmentSize]; omega
        · obtain ⟨q, hq⟩ := hdiv
          simp only [segmentSize]
          exact ⟨q - 4096, by omega⟩
      have hsum : 8 * j + m = n := by
        rw [← hj, ← hm]; simp only [segmentSize]; omega
      rw [hj, hm, segmentL_zeros, ih m hlt _ hmd]
      cases l
      simp only [LSt.mk.injEq, true_and, and_true]
      omega

theorem bodyL_zeros (k : Nat) (l : LSt) : bodyL l (List.replicate (8 * k) 0) = { l with skips := l.skips + 8 * k } :=
  bodyL_zeros_aux (8 * k) l ⟨k, rfl⟩

theorem tailL_zeros (l : LSt) (r : Nat) : tailL l (List.replicate r 0) = { l with skips := l.skips + r } := by
  unfold tailL
  by_cases h : r = 0
  · subst h; simp
  · have hne : List.replicate r (0 : UInt8) ≠ [] := by
      intro h'; have := congrArg List.length h'; simp at this; omega
    have htw : (List.replicate r (0 : UInt8)).takeWhile (· == 0) = List.replicate r 0 := by
      simp [List.takeWhile_replicate]
    simp [hne, htw]

/-- **a buffer of zeros issues nothing**: whatever its size and whatever is pending, the writer only adds its length to the pending skip -/
theorem writeBufL_zeros (l : LSt) (n : Nat) : writeBufL l (List.replicate n 0) = { l with skips := l.skips + n } := by
  unfold writeBufL
  simp only [List.length_replicate]
  have ht : (List.replicate n (0 : UInt8)).take (8 * (n / 8)) = List.replicate (8 * (n / 8)) 0 := by
    rw [List.take_replicate]; congr 1; omega
  have hd : (List.replicate n (0 : UInt8)).drop (8 * (n / 8)) = List.replicate (n - 8 * (n / 8)) 0 := by
    rw [List.drop_replicate]
  rw [ht, hd, bodyL_zeros, tailL_zeros]
  simp only
  congr 1
  omega

/-- the run-length shortcut of the driver is the fold over the individual zero buffers -/
theorem zerosL_eq (n count : Nat) : ∀ l : LSt, zerosL l n count = (List.replicate count (List.replicate n 0)).foldl writeBufL l := by
  induction count with
  | zero => intro l; simp [zerosL]
  | succ c ih =>
    intro l
    rw [List.replicate_succ, List.foldl_cons, writeBufL_zeros, ← ih]
    simp only [zerosL]
    congr 1
    rw [Nat.mul_succ]; omega

theorem writeItemL_eq (l : LSt) (it : Item) : writeItemL l it = it.expand.foldl writeBufL l := by
  cases it with
  | data b => rfl
  | zeros n count => exact zerosL_eq n count l

theorem foldl_items (items : List Item) : ∀ l : LSt, items.foldl writeItemL l = (items.flatMap Item.expand).foldl writeBufL l := by
  induction items with
  | nil => intro l; rfl
  | cons it its ih => intro l; simp only [List.foldl_cons, List.flatMap_cons, List.foldl_append]; rw [ih, writeItemL_eq]

/-- **sparse_big**: what the driver computes for a run-length coded sequence (zero runs of any length: 4 GiB, 8 GiB, ...) is the size and
the seek / write calls of the byte-level writer on the expanded buffers, and that size is the number of bytes handed in: no zero is lost
however long the run - the pending skip never wraps. -/
theorem sparse_big (items : List Item) :
    writeAllL items = (writeAll (items.flatMap Item.expand)).abs ∧
    (writeAllL items).size = ((items.flatMap Item.expand).flatten).length := by
  have h1 : writeAllL items = (writeAll (items.flatMap Item.expand)).abs := by
    rw [abs_writeAll]; unfold writeAllL; rw [foldl_items]
  refine ⟨h1, ?_⟩
  rw [h1]
  simp only [St.abs]
  rw [(sparse_eq_dense _).1]

/-! ### file-operation protocol -/

open Cli

/-- the user's data for `src` is recoverable: the source is still there untouched, or the destination has been written
completely and closed -/
def Recoverable (fs : FS) (src dst : String) : Prop := fs src = .old ∨ fs dst = .done

/-- **never_lose_data (one file)**: for every invocation, every environment (destination pre-existing or not, codec verdict)
and EVERY prefix of the operations performed for a source file - i.e. wherever the process is killed - the source is intact or
the destination is complete. -/
theorem file_never_loses (inv : Inv) (env : Env) (src dst : String) (hd : dstOf inv src = some dst) (hne : dst ≠ src)
    (fs0 : FS) (h0 : fs0 src = .old) (k : Nat) :
    Recoverable (exec fs0 ((fileOps inv env src).1.take k)) src dst := by
  have hne' : src ≠ dst := fun h => hne h.symm
  unfold fileOps Recoverable
  simp only [hd]
  by_cases c1 : (inv.mode == Mode.test || inv.toStdout) = true
  · simp only [c1, if_true]
    rcases k with _ | _ | _ | k <;> simp [exec, execOp, h0]
  · simp only [c1]
    by_cases c2 : (env.dstExists dst && !overwriteOk inv) = true
    · simp only [c2, if_true]
      rcases k with _ | _ | _ | k <;> simp [exec, execOp, h0]
    · simp only [c2]
      by_cases c3 : env.dstExists dst = true <;> by_cases c4 : env.codecOk src = true <;> by_cases c5 : rmActive inv = true <;>
        simp only [c3, c4, c5, if_true, if_false, Bool.false_eq_true, List.cons_append, List.nil_append, List.append_nil] <;>
        (rcases k with _ | _ | _ | _ | _ | _ | _ | _ | _ | _ | k <;> simp [exec, execOp, h0, hne, hne'])

/-- **src_removed_only_after_close**: the source is unlinked only in runs where the codec succeeded, and then only after the
destination has been closed complete (it is the last operation for that file) -/
theorem src_removed_only_after_close (inv : Inv) (env : Env) (src dst : String) (hd : dstOf inv src = some dst) (hne : dst ≠ src)
    (hu : Op.unlink src ∈ (fileOps inv env src).1) :
    env.codecOk src = true ∧ rmActive inv = true ∧
    ∃ pre, (fileOps inv env src).1 = pre ++ [Op.unlink src] ∧ Op.close dst true ∈ pre ∧ Op.unlink src ∉ pre := by
  have hne' : src ≠ dst := fun h => hne h.symm
  unfold fileOps at hu ⊢
  simp only [hd] at hu ⊢
  by_cases c1 : (inv.mode == Mode.test || inv.toStdout) = true
  · simp [c1] at hu
  · simp only [c1] at hu ⊢
    by_cases c2 : (env.dstExists dst && !overwriteOk inv) = true
    · simp [c2] at hu
    · simp only [c2] at hu ⊢
      by_cases c4 : env.codecOk src = true
      · by_cases c5 : rmActive inv = true
        · refine ⟨c4, c5, ?_⟩
          by_cases c3 : env.dstExists dst = true
          · refine ⟨[Op.openR src, Op.unlink dst, Op.openW dst, Op.sigOn dst, Op.sigOff, Op.close dst true, Op.close src false], ?_, ?_, ?_⟩
            · simp [c3, c4, c5]
            · simp
            · simp [hne']
          · refine ⟨[Op.openR src, Op.openW dst, Op.sigOn dst, Op.sigOff, Op.close dst true, Op.close src false], ?_, ?_, ?_⟩
            · simp [c3, c4, c5]
            · simp
            · simp
        · exfalso
          by_cases c3 : env.dstExists dst = true <;> simp [c3, c4, c5, hne'] at hu
      · exfalso
        by_cases c3 : env.dstExists dst = true <;> simp [c3, c4, hne'] at hu

/-- **rm_disabled_when_unsafe**: with the output on stdout or in test mode no source is ever removed, whatever --rm says -/
theorem rm_disabled_when_unsafe (inv : Inv) (env : Env) (src : String) (h : inv.toStdout = true ∨ inv.mode = .test) :
    ∀ p, Op.unlink p ∉ (fileOps inv env src).1 := by
  intro p
  unfold fileOps
  have : (inv.mode == Mode.test || inv.toStdout) = true := by
    rcases h with h | h <;> simp [h]
  simp [this]

/-- **no_clobber**: a destination that exists is neither opened for writing nor removed unless -f was given or the user answered "y" to the
question, which is only asked at display level >= 2 (`overwriteOk`); the file counts as failed -/
theorem no_clobber (inv : Inv) (env : Env) (src dst : String) (hd : dstOf inv src = some dst)
    (hout : (inv.mode == Mode.test || inv.toStdout) = false) (hex : env.dstExists dst = true) (hf : overwriteOk inv = false) :
    (fileOps inv env src).2 = false ∧ Op.openW dst ∉ (fileOps inv env src).1 ∧ Op.unlink dst ∉ (fileOps inv env src).1 := by
  unfold fileOps
  simp [hd, hout, hex, hf]

/-- **failure_leaves_no_artefact**: when the codec rejects the input, the partial destination is removed, the source stays, the
file counts as failed -/
theorem failure_leaves_no_artefact (inv : Inv) (env : Env) (src dst : String) (hd : dstOf inv src = some dst) (hne : dst ≠ src)
    (hout : (inv.mode == Mode.test || inv.toStdout) = false) (hgo : (env.dstExists dst && !overwriteOk inv) = false)
    (hbad : env.codecOk src = false) (fs0 : FS) (h0 : fs0 src = .old) :
    (fileOps inv env src).2 = false ∧ exec fs0 (fileOps inv env src).1 dst = .absent ∧ exec fs0 (fileOps inv env src).1 src = .old := by
  have hne' : src ≠ dst := fun h => hne h.symm
  unfold fileOps
  simp only [hd, hout, hgo, hbad]
  by_cases c3 : env.dstExists dst = true <;> simp [c3, exec, execOp, h0, hne, hne']

/-- **interrupt_safe**: whenever the SIGINT handler is armed, its target is the destination being written, never the source, and
the source has not been removed yet -/
theorem interrupt_safe (inv : Inv) (env : Env) (src dst : String) (hd : dstOf inv src = some dst) (hne : dst ≠ src)
    (fs0 : FS) (h0 : fs0 src = .old) (k : Nat) (t : String)
    (ht : interruptOps ((fileOps inv env src).1.take k) = some t) :
    t = dst ∧ exec fs0 ((fileOps inv env src).1.take k) src = .old := by
  have hne' : src ≠ dst := fun h => hne h.symm
  unfold fileOps at ht ⊢
  simp only [hd] at ht ⊢
  by_cases c1 : (inv.mode == Mode.test || inv.toStdout) = true
  · simp only [c1, if_true] at ht ⊢
    rcases k with _ | _ | _ | k <;> simp [interruptOps] at ht
  · simp only [c1] at ht ⊢
    by_cases c2 : (env.dstExists dst && !overwriteOk inv) = true
    · simp only [c2, if_true] at ht ⊢
      rcases k with _ | _ | _ | k <;> simp [interruptOps] at ht
    · simp only [c2] at ht ⊢
      by_cases c3 : env.dstExists dst = true <;> by_cases c4 : env.codecOk src = true <;> by_cases c5 : rmActive inv = true <;>
        simp only [c3, c4, c5, if_true, if_false, Bool.false_eq_true, List.cons_append, List.nil_append, List.append_nil] at ht ⊢ <;>
        (rcases k with _ | _ | _ | _ | _ | _ | _ | _ | _ | _ | k <;> simp [interruptOps, exec, execOp, h0, hne, hne'] at ht ⊢ <;> first | exact ht.symm | skip)

/-! ### the whole run: several files, one after the other -/

theorem exec_append (fs : FS) (a b : List Op) : exec fs (a ++ b) = exec (exec fs a) b := by
  simp [exec, List.foldl_append]

theorem execOp_untouched (fs : FS) (op : Op) (p : String) (h : p ∉ touches op) : execOp fs op p = fs p := by
  cases op with
  | openW q => simp [touches] at h; simp [execOp, h]
  | close q c => cases c <;> simp [touches] at h <;> simp [execOp, h]
  | unlink q => simp [touches] at h; simp [execOp, h]
  | openR q => rfl
  | sigOn q => rfl
  | sigOff => rfl
  | exit c => rfl

theorem exec_untouched (ops : List Op) : ∀ (fs : FS) (p : String), (∀ op ∈ ops, p ∉ touches op) → exec fs ops p = fs p := by
  induction ops with
  | nil => intro fs p _; rfl
  | cons o os ih =>
    intro fs p h
    simp only [exec, List.foldl_cons]
    have := ih (execOp fs o) p (fun op hop => h op (List.mem_cons_of_mem _ hop))
    simp only [exec] at this
    rw [this]
    exact execOp_untouched fs o p (h o (List.mem_cons_self ..))

/-- the operations for a source file change nothing but that file and its destination -/
theorem fileOps_touches_all (inv : Inv) (env : Env) (src : String) :
    ∀ op ∈ (fileOps inv env src).1, ∀ p ∈ touches op, p = src ∨ dstOf inv src = some p := by
  unfold fileOps
  by_cases c1 : (inv.mode == Mode.test || inv.toStdout) = true
  · simp [c1, touches]
  · simp only [c1]
    cases hd : dstOf inv src with
    | none => simp
    | some dst =>
      simp only
      by_cases c2 : (env.dstExists dst && !overwriteOk inv) = true
      · simp [c2, touches]
      · simp only [c2]
        by_cases c3 : env.dstExists dst = true <;> by_cases c4 : env.codecOk src = true <;> by_cases c5 : rmActive inv = true <;>
          simp [c3, c4, c5, touches]

theorem fileOps_touches (inv : Inv) (env : Env) (src : String) (op : Op) (hop : op ∈ (fileOps inv env src).1) (p : String) (hp : p ∈ touches op) :
    p = src ∨ dstOf inv src = some p := fileOps_touches_all inv env src op hop p hp

/-- sources and destinations of one run do not collide: no destination is also a source, two sources have different destinations -/
def Separate (inv : Inv) (files : List String) : Prop :=
  ∀ f ∈ files, ∀ d, dstOf inv f = some d → (∀ g ∈ files, d ≠ g) ∧ (∀ g ∈ files, g ≠ f → dstOf inv g ≠ some d)

theorem allOps_cons (inv : Inv) (env : Env) (f : String) (fs : List String) :
    (allOps inv env (f :: fs)).1 = (if env.srcExists f then (fileOps inv env f).1 else []) ++ (allOps inv env fs).1 := by
  simp only [allOps]
  split <;> rfl

theorem allOps_touches (inv : Inv) (env : Env) : ∀ (files : List String) (op : Op), op ∈ (allOps inv env files).1 → ∀ p ∈ touches op,
    ∃ g ∈ files, p = g ∨ dstOf inv g = some p := by
  intro files
  induction files with
  | nil => intro op hop; simp [allOps] at hop
  | cons f fs ih =>
    intro op hop p hp
    rw [allOps_cons] at hop
    rcases List.mem_append.mp hop with h | h
    · by_cases hs : env.srcExists f = true
      · simp only [hs, if_true] at h
        exact ⟨f, List.mem_cons_self .., fileOps_touches inv env f op h p hp⟩
      · simp [hs] at h
    · obtain ⟨g, hg, hh⟩ := ih op h p hp
      exact ⟨g, List.mem_cons_of_mem _ hg, hh⟩

/-- **never_lose_data**: for every invocation whose sources and destinations do not collide, every environment, and EVERY prefix of
the whole sequence of operations (every kill point of the run, whichever file is being processed): each source that existed is
intact, or its destination is complete. -/
theorem program_never_loses (inv : Inv) (env : Env) : ∀ (files : List String) (fs0 : FS), files.Nodup → Separate inv files →
    (∀ f ∈ files, fs0 f = .old) → ∀ (k : Nat) (f : String), f ∈ files → env.srcExists f = true → ∀ d, dstOf inv f = some d →
    Recoverable (exec fs0 ((allOps inv env files).1.take k)) f d := by
  intro files
  induction files with
  | nil => intro fs0 _ _ _ k f hf; cases hf
  | cons f0 rest ih =>
    intro fs0 hnd hsep hold k f hf hex d hd
    have hnd' := List.nodup_cons.mp hnd
    rw [allOps_cons, List.take_append, exec_append]
    -- operations of the first file
    let o1 := if env.srcExists f0 then (fileOps inv env f0).1 else []
    have ho1 : ∀ op ∈ o1.take k, ∀ p ∈ touches op, p = f0 ∨ dstOf inv f0 = some p := by
      intro op hop p hp
      have hop' : op ∈ o1 := List.mem_of_mem_take hop
      by_cases hs : env.srcExists f0 = true
      · simp only [o1, hs, if_true] at hop'
        exact fileOps_touches inv env f0 op hop' p hp
      · simp [o1, hs] at hop'
    rcases List.mem_cons.mp hf with rfl | hfr
    · -- the file in question is the first one: its own operations keep it recoverable, the later files cannot touch it
      have h1 : Recoverable (exec fs0 (o1.take k)) f d := by
        simp only [o1, hex, if_true]
        exact file_never_loses inv env f d hd (fun h => (hsep f (List.mem_cons_self ..) d hd).1 f (List.mem_cons_self ..) h) fs0 (hold f (List.mem_cons_self ..)) k
      have hlater : ∀ op ∈ ((allOps inv env rest).1.take (k - o1.length)), f ∉ touches op ∧ d ∉ touches op := by
        intro op hop
        have hop' := List.mem_of_mem_take hop
        constructor
        · intro hp
          obtain ⟨g, hg, hh⟩ := allOps_touches inv env rest op hop' f hp
          rcases hh with rfl | hh
          · exact hnd'.1 hg
          · exact (hsep g (List.mem_cons_of_mem _ hg) f hh).1 f (List.mem_cons_self ..) rfl
        · intro hp
          obtain ⟨g, hg, hh⟩ := allOps_touches inv env rest op hop' d hp
          rcases hh with rfl | hh
          · exact (hsep f (List.mem_cons_self ..) d hd).1 d (List.mem_cons_of_mem _ hg) rfl
          · have hgf : g ≠ f := fun h => hnd'.1 (h ▸ hg)
            exact (hsep f (List.mem_cons_self ..) d hd).2 g (List.mem_cons_of_mem _ hg) hgf hh
      unfold Recoverable at h1 ⊢
      rw [exec_untouched _ _ f (fun op hop => (hlater op hop).1), exec_untouched _ _ d (fun op hop => (hlater op hop).2)]
      exact h1
    · -- the file comes later: the first file's operations leave every later source untouched
      have hkeep : ∀ g ∈ rest, exec fs0 (o1.take k) g = .old := by
        intro g hg
        rw [exec_untouched _ _ g]
        · exact hold g (List.mem_cons_of_mem _ hg)
        · intro op hop hp
          rcases ho1 op hop g hp with rfl | hh
          · exact hnd'.1 hg
          · exact (hsep f0 (List.mem_cons_self ..) g hh).1 g (List.mem_cons_of_mem _ hg) rfl
      have hsep' : Separate inv rest := by
        intro g hg d' hd'
        obtain ⟨a, b⟩ := hsep g (List.mem_cons_of_mem _ hg) d' hd'
        exact ⟨fun x hx => a x (List.mem_cons_of_mem _ hx), fun x hx hne => b x (List.mem_cons_of_mem _ hx) hne⟩
      exact ih (exec fs0 (o1.take k)) hnd'.2 hsep' hkeep (k - o1.length) f hfr hex d hd

/-! ### several inputs into one destination (-o FILE) -/

theorem srcOps_touches (env : Env) : ∀ (files : List String), ∀ op ∈ (srcOps env files).1, touches op = [] := by
  intro files
  induction files with
  | nil => intro op hop; simp [srcOps] at hop
  | cons f fs ih =>
    intro op hop
    simp only [srcOps] at hop
    split at hop
    · simp only [List.cons_append, List.nil_append, List.mem_cons] at hop
      rcases hop with rfl | rfl | h
      · rfl
      · rfl
      · exact ih op h
    · exact ih op hop

theorem srcOps_no_unlink (env : Env) (files : List String) (p : String) : Op.unlink p ∉ (srcOps env files).1 := by
  intro h
  have := srcOps_touches env files _ h
  simp [touches] at this

theorem sharedOps_touches (inv : Inv) (env : Env) (out : String) : ∀ op ∈ (sharedOps inv env out).1, ∀ p ∈ touches op, p = out := by
  intro op hop p hp
  unfold sharedOps at hop
  split at hop
  · simp at hop
  · simp only [List.mem_append, List.mem_cons, List.not_mem_nil, or_false] at hop
    rcases hop with ((h | h) | h) | h
    · split at h
      · simp at h; subst h; simpa [touches] using hp
      · simp at h
    · subst h; simpa [touches] using hp
    · rw [srcOps_touches env inv.files op h] at hp; simp at hp
    · subst h
      cases hb : (srcOps env inv.files).2 <;> simp [hb, touches] at hp
      exact hp

theorem program_shared_touches (inv : Inv) (env : Env) (out : String) (h : sharedOut inv = some out) :
    ∀ op ∈ program inv env, ∀ p ∈ touches op, p = out := by
  intro op hop p hp
  unfold program at hop
  simp only [h, List.mem_append, List.mem_cons, List.not_mem_nil, or_false] at hop
  rcases hop with h1 | h1
  · exact sharedOps_touches inv env out op h1 p hp
  · subst h1; simp [touches] at hp

/-- **shared_sources_intact**: when several inputs go into the one destination named with -o, then at EVERY prefix of the run (every kill
point), whatever --rm, -f, the display level (-qq / -q / default / -v) and the answer at the prompt, every source other than that destination
is exactly as it was -/
theorem shared_sources_intact (inv : Inv) (env : Env) (out : String) (fs0 : FS) (k : Nat) (f : String) (hne : f ≠ out) (h0 : fs0 f = .old) :
    sharedOut inv = some out → exec fs0 ((program inv env).take k) f = .old := by
  intro h
  rw [exec_untouched _ _ f]
  · exact h0
  · intro op hop hp
    exact hne (program_shared_touches inv env out h op (List.mem_of_mem_take hop) f hp)

/-- **rm_disabled_shared**: in that mode no source is ever unlinked: --rm is switched off, at every display level -/
theorem rm_disabled_shared (inv : Inv) (env : Env) (out : String) (h : sharedOut inv = some out) (f : String) (hne : f ≠ out) :
    Op.unlink f ∉ program inv env := by
  intro hu
  exact hne (program_shared_touches inv env out h _ hu f (by simp [touches]))

/-- and `rmActive` says so: removal of sources is armed only when each source has a destination of its own -/
theorem rmActive_not_shared (inv : Inv) (h : rmActive inv = true) : sharedOut inv = none := by
  unfold rmActive at h
  simp only [Bool.and_eq_true, Option.isNone_iff_eq_none] at h
  exact h.2

/-- **shared_refused_quietly**: without -f and without a "y" (never asked for at -q / -qq) nothing at all is touched and the run fails -/
theorem shared_refused (inv : Inv) (env : Env) (out : String) (h : sharedOut inv = some out) (hno : overwriteOk inv = false) :
    program inv env = [.exit 1] := by
  unfold program
  simp [h, sharedOps, hno]

/-- the same for the complete program (the final `exit` changes no file) -/
theorem never_lose_data (inv : Inv) (env : Env) (fs0 : FS) (hnd : inv.files.Nodup) (hsep : Separate inv inv.files)
    (hold : ∀ f ∈ inv.files, fs0 f = .old) (k : Nat) (f : String) (hf : f ∈ inv.files) (hex : env.srcExists f = true)
    (d : String) (hd : dstOf inv f = some d) :
    Recoverable (exec fs0 ((program inv env).take k)) f d := by
  cases hso : sharedOut inv with
  | some out =>
    -- several inputs into one destination: nothing but that destination is ever touched
    have hout : inv.outName = some out := by
      unfold sharedOut at hso
      cases ho : inv.outName with
      | none => simp [ho] at hso
      | some o => simp only [ho] at hso; split at hso <;> simp_all
    have hdo : d = out := by
      unfold dstOf at hd; simp only [hout] at hd; exact (Option.some.inj hd).symm
    have hne : f ≠ out := fun h => (hsep f hf d hd).1 f hf (by rw [hdo, h])
    left
    exact shared_sources_intact inv env out fs0 k f hne (hold f hf) hso
  | none =>
    unfold program
    simp only [hso]
    rw [List.take_append, exec_append]
    have := program_never_loses inv env inv.files fs0 hnd hsep hold k f hf hex d hd
    unfold Recoverable at this ⊢
    rw [exec_untouched _ _ f, exec_untouched _ _ d]
    · exact this
    · intro op hop; have := List.mem_of_mem_take hop; simp at this; subst this; simp [touches]
    · intro op hop; have := List.mem_of_mem_take hop; simp at this; subst this; simp [touches]

example : Separate { mode := .compress, files := ["a", "b"] } ["a", "b"] := by
  intro f hf d hd
  simp [dstOf] at hd
  simp at hf
  rcases hf with rfl | rfl <;> subst hd <;> simp [dstOf] <;> decide

example : (program { mode := .compress, files := ["a"], rm := true } { dstExists := fun _ => false, srcExists := fun _ => true, codecOk := fun _ => true }) =
    [.openR "a", .openW "a.zst", .sigOn "a.zst", .sigOff, .close "a.zst" true, .close "a" false, .unlink "a", .exit 0] := by decide

example : (program { mode := .compress, files := ["a", "b"], rm := true, force := true, level := 0, outName := some "o" }
    { dstExists := fun p => p == "o", srcExists := fun _ => true, codecOk := fun _ => true }) =
    [.unlink "o", .openW "o", .openR "a", .close "a" false, .openR "b", .close "b" false, .close "o" true, .exit 0] := by decide

end ZstdVerif.Props.C19
