/-
C13 — allocation failure: what "clean" means and which protocols guarantee it.
-/
import ZstdVerif.Model.Ledger
import ZstdVerif.Gen.Cwksp
namespace ZstdVerif.Props.C13
open ZstdVerif ZstdVerif.Ledger

/-- state after releasing `bs` from a state whose live blocks include all of them -/
theorem run_frees (bs : List Nat) : ∀ (s : St), s.live.Nodup → bs.Nodup → (∀ b ∈ bs, b ∈ s.live) →
    (run s (bs.map Ev.free)).live = s.live.filter (fun x => !bs.contains x) ∧
    (run s (bs.map Ev.free)).doubleFrees = s.doubleFrees ∧ (run s (bs.map Ev.free)).foreignFrees = s.foreignFrees := by
  induction bs with
  | nil => intro s _ _ _; exact ⟨(List.filter_eq_self.mpr (by simp)).symm, rfl, rfl⟩
  | cons b bs ih =>
    intro s hl hb hin
    have hbl : b ∈ s.live := hin b (List.mem_cons_self ..)
    have hb' := List.nodup_cons.mp hb
    simp only [List.map_cons, run, List.foldl_cons, step, hbl, if_true]
    have h := ih { s with live := s.live.erase b, freed := b :: s.freed } (List.Nodup.erase b hl) hb'.2
      (by intro x hx
          have hne : x ≠ b := fun h => hb'.1 (h ▸ hx)
          exact (List.mem_erase_of_ne hne).mpr (hin x (List.mem_cons_of_mem _ hx)))
    simp only [run] at h
    refine ⟨?_, h.2.1, h.2.2⟩
    rw [h.1, List.Nodup.erase_eq_filter hl, List.filter_filter]
    apply List.filter_congr
    intro x _
    by_cases hxb : x = b
    · subst hxb; simp
    · have : (x == b) = false := by simpa using hxb
      simp [bne, this]
      intro _; exact hxb

theorem run_allocs (as : List (Nat × Nat)) : ∀ (s : St),
    (run s (as.map (fun p => Ev.alloc p.1 p.2))).live = (as.map (·.1)).reverse ++ s.live ∧
    (run s (as.map (fun p => Ev.alloc p.1 p.2))).doubleFrees = s.doubleFrees ∧
    (run s (as.map (fun p => Ev.alloc p.1 p.2))).foreignFrees = s.foreignFrees := by
  induction as with
  | nil => intro s; simp [run]
  | cons a as ih =>
    intro s
    simp only [List.map_cons, run, List.foldl_cons, step]
    have h := ih { s with live := a.1 :: s.live }
    simp only [run] at h
    refine ⟨?_, h.2.1, h.2.2⟩
    rw [h.1]; simp

theorem run_append (s : St) (a b : List Ev) : run s (a ++ b) = run (run s a) b := by
  simp [run, List.foldl_append]

/-- **ctor_unwinds**: a constructor that acquired any blocks (distinct addresses), met a failed request, and then released what it
had acquired IN ANY ORDER leaves a clean ledger.  (ZSTDMT_createCCtx_advanced_internal → ZSTDMT_freeCCtx, POOL_create_advanced →
POOL_free, ZSTD_createCDict_advanced_internal → ZSTD_freeCDict, … : the unwinding order differs from the acquisition order.) -/
theorem ctor_unwinds (as : List (Nat × Nat)) (bs : List Nat) (failed : Nat)
    (hnd : (as.map (·.1)).Nodup) (hp : bs.Perm (as.map (·.1))) :
    Clean (run {} (as.map (fun p => Ev.alloc p.1 p.2) ++ [Ev.fail failed] ++ bs.map Ev.free)) := by
  rw [run_append, run_append]
  obtain ⟨h1, h2, h3⟩ := run_allocs as {}
  let s1 := run (run {} (as.map (fun p => Ev.alloc p.1 p.2))) [Ev.fail failed]
  have hs1 : s1.live = (as.map (·.1)).reverse ∧ s1.doubleFrees = [] ∧ s1.foreignFrees = [] := by
    simp only [s1, run, List.foldl_cons, List.foldl_nil, step]
    simp only [run] at h1 h2 h3
    exact ⟨by rw [h1]; simp, h2, h3⟩
  have hbn : bs.Nodup := (List.Perm.nodup_iff hp).mpr hnd
  have hin : ∀ b ∈ bs, b ∈ s1.live := by
    intro b hb; rw [hs1.1]; exact List.mem_reverse.mpr ((List.Perm.mem_iff hp).mp hb)
  obtain ⟨g1, g2, g3⟩ := run_frees bs s1 (by rw [hs1.1]; exact (List.Perm.nodup_iff (List.reverse_perm _)).mpr hnd) hbn hin
  refine ⟨?_, by rw [g2]; exact hs1.2.1, by rw [g3]; exact hs1.2.2⟩
  rw [g1, List.filter_eq_nil_iff]
  intro a ha
  rw [hs1.1] at ha
  have : a ∈ bs := (List.Perm.mem_iff hp).mpr (List.mem_reverse.mp ha)
  simp [List.contains_iff_mem, this]

/-- a block that is acquired and not handed back is reported (the ledger cannot be clean) -/
theorem missing_free_leaks (s : St) (a n : Nat) (rest : List Ev) (hno : Ev.free a ∉ rest) :
    a ∈ (run (step s (.alloc a n)) rest).live := by
  suffices h : ∀ (t : St), a ∈ t.live → a ∈ (run t rest).live from h _ (by simp [step])
  induction rest with
  | nil => intro t ht; simpa [run] using ht
  | cons e es ih =>
    intro t ht
    simp only [run, List.foldl_cons]
    have hne : Ev.free a ∉ es := fun h => hno (List.mem_cons_of_mem _ h)
    apply ih hne
    cases e with
    | alloc b m => simp [step, ht]
    | fail m => simpa [step] using ht
    | free b =>
      have hba : b ≠ a := fun h => hno (h ▸ List.mem_cons_self ..)
      simp only [step]
      split
      · exact (List.mem_erase_of_ne (Ne.symm hba)).mpr ht
      · split <;> simpa using ht

/-- handing the same block back twice is reported, whatever happens in between and afterwards -/
theorem double_free_reported (s : St) (a : Nat) (mid rest : List Ev) (hl : a ∈ s.live) (hnd : s.live.Nodup)
    (hmid : ∀ e ∈ mid, (∃ m, e = .fail m)) :
    ¬ Clean (run s ([Ev.free a] ++ mid ++ [Ev.free a] ++ rest)) := by
  -- after the first free a is in `freed` and not live; fails change neither; the second free records it; records only grow
  have grow : ∀ (es : List Ev) (t : St), t.doubleFrees ≠ [] → (run t es).doubleFrees ≠ [] := by
    intro es
    induction es with
    | nil => intro t h; simpa [run] using h
    | cons e es ih =>
      intro t h
      simp only [run, List.foldl_cons]
      apply ih
      cases e with
      | alloc b m => simpa [step] using h
      | fail m => simpa [step] using h
      | free b =>
        simp only [step]
        split
        · simpa using h
        · split <;> simp_all
  have fails : ∀ (es : List Ev) (t : St), (∀ e ∈ es, ∃ m, e = Ev.fail m) → (run t es).live = t.live ∧ (run t es).freed = t.freed := by
    intro es
    induction es with
    | nil => intro t _; simp [run]
    | cons e es ih =>
      intro t h
      obtain ⟨m, rfl⟩ := h e (List.mem_cons_self ..)
      simp only [run, List.foldl_cons, step]
      have := ih { t with fails := t.fails + 1 } (fun e he => h e (List.mem_cons_of_mem _ he))
      simpa [run] using this
  intro hc
  rw [run_append, run_append, run_append] at hc
  have h1 : (run s [Ev.free a]).live = s.live.erase a ∧ (run s [Ev.free a]).freed = a :: s.freed := by
    simp [run, step, hl]
  obtain ⟨f1, f2⟩ := fails mid (run s [Ev.free a]) hmid
  have hnl : a ∉ (run (run s [Ev.free a]) mid).live := by
    rw [f1, h1.1]; exact fun h => (List.Nodup.mem_erase_iff hnd).mp h |>.1 rfl
  have hfr : a ∈ (run (run s [Ev.free a]) mid).freed := by rw [f2, h1.2]; exact List.mem_cons_self ..
  have h2 : (run (run (run s [Ev.free a]) mid) [Ev.free a]).doubleFrees ≠ [] := by
    generalize run (run s [Ev.free a]) mid = t at hnl hfr
    simp [run, step, hnl, hfr]
  exact grow rest _ h2 hc.2.1

/-! ### workspace ownership across failed resizes -/

/-- invariant of the ownership protocol when ZSTD_cwksp_free clears the descriptor: the ledger's live set is exactly what the
descriptor names -/
theorem history_clean (hist : List (Nat × Option Nat)) : ∀ (o : Owner) (s : St), s.live = o.ws.toList → s.doubleFrees = [] → s.foreignFrees = [] →
    (∀ p ∈ hist, ∀ b, p.2 = some b → b ∉ s.live ∧ b ∉ s.freed) →
    -- fresh answers are pairwise distinct
    (hist.filterMap (·.2)).Nodup →
    Clean (run s (history true o hist)) := by
  induction hist with
  | nil =>
    intro o s hl hd hf _ _
    cases ho : o.ws with
    | none => simp [history, release, ho, run, Clean, hl, hd, hf]
    | some a => simp [history, release, ho, run, step, Clean, hl, hd, hf]
  | cons p rest ih =>
    intro o s hl hd hf hfresh hnd
    obtain ⟨size, ans⟩ := p
    simp only [history]
    -- state after freeing the old block
    cases ho : o.ws with
    | none =>
      cases ans with
      | none =>
        simp only [resize, ho, if_true, List.nil_append, run_append]
        apply ih { ws := none } _ (by simp [run, step, hl, ho]) (by simp [run, step, hd]) (by simp [run, step, hf])
        · intro q hq b hb
          have := hfresh q (List.mem_cons_of_mem _ hq) b hb
          simpa [run, step] using this
        · simpa using hnd
      | some b =>
        simp only [resize, ho, List.nil_append, run_append]
        have hb := hfresh (size, some b) (List.mem_cons_self ..) b rfl
        have hnd' := List.nodup_cons.mp (by simpa using hnd : (b :: rest.filterMap (·.2)).Nodup)
        apply ih { ws := some b } _ (by simp [run, step, hl, ho]) (by simp [run, step, hd]) (by simp [run, step, hf])
        · intro q hq c hc
          have := hfresh q (List.mem_cons_of_mem _ hq) c hc
          have hcb : c ≠ b := by
            intro h; subst h
            exact hnd'.1 (List.mem_filterMap.mpr ⟨q, hq, hc⟩)
          simp [run, step, hl, ho, hcb, this.2]
        · exact hnd'.2
    | some a =>
      have hal : a ∈ s.live := by simp [hl, ho]
      cases ans with
      | none =>
        simp only [resize, ho, if_true, run_append]
        apply ih { ws := none } _ (by simp [run, step, hal, hl, ho]) (by simp [run, step, hal, hd]) (by simp [run, step, hal, hf])
        · intro q hq b hb
          have := hfresh q (List.mem_cons_of_mem _ hq) b hb
          have hba : b ≠ a := fun h => this.1 (h ▸ hal)
          simp [run, step, hal, hl, ho, hba, this.2]
        · simpa using hnd
      | some b =>
        simp only [resize, ho, run_append]
        have hb := hfresh (size, some b) (List.mem_cons_self ..) b rfl
        have hnd' := List.nodup_cons.mp (by simpa using hnd : (b :: rest.filterMap (·.2)).Nodup)
        apply ih { ws := some b } _ (by simp [run, step, hal, hl, ho]) (by simp [run, step, hal, hd]) (by simp [run, step, hal, hf])
        · intro q hq c hc
          have := hfresh q (List.mem_cons_of_mem _ hq) c hc
          have hcb : c ≠ b := by
            intro h; subst h
            exact hnd'.1 (List.mem_filterMap.mpr ⟨q, hq, hc⟩)
          have hca : c ≠ a := fun h => this.1 (h ▸ hal)
          simp [run, step, hal, hl, ho, hcb, hca, this.2]
        · exact hnd'.2

/-- **cwksp_fail_resettable**: with the ZSTD_cwksp_free of the CURRENT source (descriptor cleared: `Gen.Cwksp.freeClearsDescriptor`
is regenerated from zstd_cwksp.h), any history of workspace resizes - any of them failing - followed by ZSTD_freeCCtx hands every
block back exactly once. -/
theorem cwksp_fail_resettable (hist : List (Nat × Option Nat)) (hnd : (hist.filterMap (·.2)).Nodup) :
    Clean (run {} (history Gen.Cwksp.freeClearsDescriptor { ws := none } hist)) := by
  have hc : Gen.Cwksp.freeClearsDescriptor = true := by decide
  rw [hc]
  exact history_clean hist { ws := none } {} rfl rfl rfl (by intro p _ b _; simp) hnd

/-- the same protocol with a ZSTD_cwksp_free that keeps the stale descriptor is NOT clean: grow, fail to grow, free -/
theorem stale_descriptor_double_frees :
    ¬ Clean (run {} (history false { ws := none } [(100, some 1), (200, none)])) := by decide

example : Clean (run {} (history true { ws := none } [(100, some 1), (200, none), (200, some 2), (50, none)])) := by decide
example : Clean (run {} ([(1, 10), (2, 20), (3, 30)].map (fun p => Ev.alloc p.1 p.2) ++ [Ev.fail 40] ++ [2, 3, 1].map Ev.free)) := by decide

/-! ### objects the caller still owns must survive a failed call -/

theorem orun_append (s : OSt) (a b : List OEv) : orun s (a ++ b) = orun (orun s a) b := by
  simp [orun, List.foldl_append]

/-- the caller's declarations do not change what the allocator ledger sees: every theorem above applies to the projected log -/
theorem orun_base (evs : List OEv) : ∀ s : OSt, (orun s evs).base = run s.base (baseLog evs) := by
  induction evs with
  | nil => intro s; rfl
  | cons e es ih =>
    intro s
    cases e with
    | ev e =>
      have := ih (ostep s (.ev e))
      simpa [orun, run, baseLog, ostep] using this
    | own a =>
      have := ih (ostep s (.own a))
      simpa [orun, run, baseLog, ostep] using this
    | disown a =>
      have := ih (ostep s (.disown a))
      simpa [orun, run, baseLog, ostep] using this

/-- a recorded theft is never forgotten -/
theorem stolen_grows (evs : List OEv) : ∀ s : OSt, s.stolen ≠ [] → (orun s evs).stolen ≠ [] := by
  induction evs with
  | nil => intro s h; simpa [orun] using h
  | cons e es ih =>
    intro s h
    simp only [orun, List.foldl_cons]
    apply ih
    cases e with
    | ev e => simp [ostep, h]
    | own a => simpa [ostep] using h
    | disown a => simpa [ostep] using h

/-- **stolen_free_reported**: handing back a block while the caller still owns it (ZSTDMT_freeCCtx releasing the pool attached with
ZSTD_CCtx_refThreadPool, a context releasing a CDict / DDict it only references, ...) is reported whatever happens before and after -/
theorem stolen_free_reported (s : OSt) (pre rest : List OEv) (a : Nat) (h : a ∈ (orun s pre).owned) :
    ¬ OwnedIntact (orun s (pre ++ OEv.ev (.free a) :: rest)) := by
  rw [orun_append]
  simp only [orun, List.foldl_cons]
  apply stolen_grows
  simp [ostep, stolenBy, orun] at h ⊢
  simp [h]

/-- allocator events none of which hands back an owned block leave the owned objects alone -/
theorem intact_evs (es : List Ev) : ∀ s : OSt, (∀ a, Ev.free a ∈ es → a ∉ s.owned) →
    (orun s (es.map OEv.ev)).stolen = s.stolen ∧ (orun s (es.map OEv.ev)).owned = s.owned := by
  induction es with
  | nil => intro s _; simp [orun]
  | cons e es ih =>
    intro s h
    simp only [List.map_cons, orun, List.foldl_cons]
    have hs : (ostep s (.ev e)).stolen = s.stolen ∧ (ostep s (.ev e)).owned = s.owned := by
      cases e with
      | alloc b m => simp [ostep, stolenBy]
      | fail m => simp [ostep, stolenBy]
      | free b => simp [ostep, stolenBy, h b (List.mem_cons_self ..)]
    have := ih (ostep s (.ev e)) (by intro a ha; rw [hs.2]; exact h a (List.mem_cons_of_mem _ ha))
    simp only [orun] at this
    exact ⟨this.1.trans hs.1, this.2.trans hs.2⟩

theorem run_owns (as : List Nat) : ∀ s : OSt,
    (orun s (as.map OEv.own)).stolen = s.stolen ∧ (orun s (as.map OEv.own)).owned = as.reverse ++ s.owned := by
  induction as with
  | nil => intro s; simp [orun]
  | cons a as ih =>
    intro s
    simp only [List.map_cons, orun, List.foldl_cons]
    have := ih (ostep s (.own a))
    simp only [orun] at this
    exact ⟨this.1, by rw [this.2]; simp [ostep]⟩

theorem run_disowns (as : List Nat) : ∀ s : OSt,
    (orun s (as.map OEv.disown)).stolen = s.stolen ∧ (∀ x ∈ (orun s (as.map OEv.disown)).owned, x ∈ s.owned ∧ x ∉ as) := by
  induction as with
  | nil => intro s; simp [orun]
  | cons a as ih =>
    intro s
    simp only [List.map_cons, orun, List.foldl_cons]
    have := ih (ostep s (.disown a))
    simp only [orun] at this
    refine ⟨this.1, ?_⟩
    intro x hx
    have hx2 := this.2 x hx
    simp [ostep] at hx2
    simp [hx2]

theorem baseLog_append (a b : List OEv) : baseLog (a ++ b) = baseLog a ++ baseLog b := by
  simp [baseLog, List.filterMap_append]

theorem baseLog_ev (es : List Ev) : baseLog (es.map OEv.ev) = es := by
  induction es with
  | nil => rfl
  | cons e es ih => simpa [baseLog] using ih

theorem baseLog_own (as : List Nat) : baseLog (as.map OEv.own) = [] := by
  induction as with
  | nil => rfl
  | cons a as ih => simpa [baseLog] using ih

theorem baseLog_disown (as : List Nat) : baseLog (as.map OEv.disown) = [] := by
  induction as with
  | nil => rfl
  | cons a as ih => simpa [baseLog] using ih

/-- **referencing_ctor_unwinds**: a constructor that holds references to caller-owned blocks, acquires its own blocks, meets a failed
request and releases exactly its own acquisitions (any order) leaves the caller's objects alone, and once the caller has released them
the allocator ledger is clean.  (ZSTDMT_createCCtx_advanced_internal with a provided pool / referenced CDict, ZSTD_DCtx_refDDict with
the multi-DDict hash set, ZSTD_CCtx_refPrefix.) -/
theorem referencing_ctor_unwinds (refs as : List (Nat × Nat)) (bs : List Nat) (failed : Nat)
    (hnd : ((refs ++ as).map (·.1)).Nodup) (hp : bs.Perm (as.map (·.1))) :
    Clean (orun {} (refLifecycle refs as failed bs)).base ∧ OwnedIntact (orun {} (refLifecycle refs as failed bs)) := by
  have hnd2 : (refs.map (·.1) ++ as.map (·.1)).Nodup := by simpa using hnd
  have hdisj : ∀ b ∈ bs, b ∉ refs.map (·.1) := by
    intro b hb hr
    exact (List.nodup_append.mp hnd2).2.2 b hr b ((List.Perm.mem_iff hp).mp hb) rfl
  constructor
  · rw [orun_base]
    have hb : baseLog (refLifecycle refs as failed bs) =
        (refs ++ as).map (fun p => Ev.alloc p.1 p.2) ++ [Ev.fail failed] ++ (bs ++ refs.map (·.1)).map Ev.free := by
      simp only [refLifecycle, baseLog_append, baseLog_ev, baseLog_own, baseLog_disown]
      simp
    rw [hb]
    apply ctor_unwinds _ _ _ hnd
    rw [List.map_append]
    exact (List.perm_append_comm).trans (List.Perm.append_left _ hp)
  · unfold OwnedIntact refLifecycle
    rw [orun_append, orun_append, orun_append, orun_append]
    -- 1. the caller creates its objects
    have e1 := intact_evs (refs.map (fun p => Ev.alloc p.1 p.2)) {} (by intro a _; simp)
    generalize orun {} ((refs.map (fun p => Ev.alloc p.1 p.2)).map OEv.ev) = s1 at e1 ⊢
    -- 2. and declares them
    have e2 := run_owns (refs.map (·.1)) s1
    generalize orun s1 ((refs.map (·.1)).map OEv.own) = s2 at e2 ⊢
    have ho2 : s2.owned = (refs.map (·.1)).reverse := by rw [e2.2, e1.2]; simp
    -- 3. the constructor acquires, fails, unwinds
    have e3 := intact_evs (as.map (fun p => Ev.alloc p.1 p.2) ++ [Ev.fail failed] ++ bs.map Ev.free) s2 (by
      intro a ha
      have : a ∈ bs := by simpa using ha
      rw [ho2]; simpa using hdisj a this)
    generalize orun s2 ((as.map (fun p => Ev.alloc p.1 p.2) ++ [Ev.fail failed] ++ bs.map Ev.free).map OEv.ev) = s3 at e3 ⊢
    -- 4. the caller starts releasing
    have e4 := run_disowns (refs.map (·.1)) s3
    generalize orun s3 ((refs.map (·.1)).map OEv.disown) = s4 at e4 ⊢
    have ho4 : s4.owned = [] := by
      apply List.eq_nil_iff_forall_not_mem.mpr
      intro x hx
      have := e4.2 x hx
      rw [e3.2, ho2] at this
      exact this.2 (List.mem_reverse.mp this.1)
    -- 5. and hands its blocks back
    have e5 := intact_evs ((refs.map (·.1)).map Ev.free) s4 (by intro a _; simp [ho4])
    rw [e5.1, e4.1, e3.1, e2.1, e1.1]

/-- **mt_ctor_provided_pool_survives**: ZSTDMT_createCCtx_advanced_internal on a pool the caller attached, failing after any number of
its own acquisitions, with `providedFactory` recorded before the failure check: the pool's blocks are not handed back. -/
theorem mt_ctor_provided_pool_survives (pool : List Nat) (parts : List (Nat × Nat)) (failed : Nat) (s : OSt)
    (hown : s.stolen = []) (hd : ∀ p ∈ parts, p.1 ∉ s.owned) :
    OwnedIntact (orun s (mtCtorOnProvidedPool true pool parts failed)) := by
  unfold mtCtorOnProvidedPool OwnedIntact
  have := intact_evs (parts.map (fun p => Ev.alloc p.1 p.2) ++ [Ev.fail failed] ++ (if true then [] else pool.map Ev.free)
      ++ parts.map (fun p => Ev.free p.1)) s (by
    intro a ha
    have : ∃ p ∈ parts, p.1 = a := by simpa using ha
    obtain ⟨p, hp, rfl⟩ := this
    exact hd p hp)
  rw [this.1, hown]

/-- the same constructor with the flag recorded only after the failure check releases the caller's pool: reported -/
theorem mt_ctor_late_flag_steals :
    ¬ OwnedIntact (orun {} ([OEv.ev (.alloc 1 100), .ev (.alloc 2 50), .own 1, .own 2] ++ mtCtorOnProvidedPool false [2, 1] [(3, 10), (4, 20)] 30)) := by
  decide

example : OwnedIntact (orun {} ([OEv.ev (.alloc 1 100), .ev (.alloc 2 50), .own 1, .own 2] ++ mtCtorOnProvidedPool true [2, 1] [(3, 10), (4, 20)] 30
    ++ [.disown 1, .disown 2, .ev (.free 2), .ev (.free 1)])) := by decide
example : Clean (orun {} (refLifecycle [(1, 100), (2, 50)] [(3, 10), (4, 20)] 30 [4, 3])).base ∧ OwnedIntact (orun {} (refLifecycle [(1, 100), (2, 50)] [(3, 10), (4, 20)] 30 [4, 3])) := by decide

end ZstdVerif.Props.C13
