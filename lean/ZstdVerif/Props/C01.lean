/-
C01 — Lossless one-shot round trip.  (first theorems; more in later commits)
-/
import ZstdVerif.Model.Frame
namespace ZstdVerif.Props.C01
open ZstdVerif

/-- the reader consumes exactly the bits it is asked for: `left` decreases by `n` when `n ≤ left` -/
theorem read_consumes (r : BitR) (n : Nat) (h : n ≤ r.left) : (r.read n).2.left = r.left - n ∧ (r.read n).2.over = r.over := by
  unfold BitR.read; simp [h]

/-- overflow is sticky: once a read went below the stream start, `atEnd` can never hold again -/
theorem overflow_sticky (r : BitR) (n : Nat) (h : r.over = true) : (r.read n).2.over = true := by
  unfold BitR.read; split <;> simp [h]

theorem overflow_never_atEnd (r : BitR) (h : r.over = true) : r.atEnd = false := by
  unfold BitR.atEnd; simp [h]

example : (BitR.init (ByteArray.mk #[0x05]) 0 1).toOption.map (·.left) = some 2 := by decide

end ZstdVerif.Props.C01
