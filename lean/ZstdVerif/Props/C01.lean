/-
C01 — Lossless one-shot round trip.  (first theorems; more in later commits)
-/
import ZstdVerif.Model.Frame
import ZstdVerif.Model.Rep
import ZstdVerif.Lemmas.BitsRT
import ZstdVerif.Lemmas.FSERT
import ZstdVerif.Lemmas.HufRT
import ZstdVerif.Lemmas.ExecRT
import ZstdVerif.Lemmas.LitRT
import ZstdVerif.Lemmas.SeqRT
import ZstdVerif.Lemmas.FrameRT
import ZstdVerif.Lemmas.BlockRT
import ZstdVerif.Lemmas.DictTablesRT
import ZstdVerif.Lemmas.NCountRT
import ZstdVerif.Lemmas.SpreadRT
import ZstdVerif.Lemmas.DescribedTables
import ZstdVerif.Lemmas.WeightsRT
import ZstdVerif.Lemmas.WeightsDesc
namespace ZstdVerif.Props.C01
open ZstdVerif

/-- the reader consumes exactly the bits it is asked for: `left` decreases by `n` when `n ≤ left` -/
theorem read_consumes (r : BitR) (n : Nat) (h : n ≤ r.left) : (r.read n).2.left = r.left - n ∧ (r.read n).2.over = r.over := by
  unfold BitR.read; simp [h]

/-- overflow is sticky: once a read went below the stream start, `atEnd` can never hold again -/
theorem overflow_sticky (r : BitR) (n : Nat) (h : r.over = true) : (r.read n).2.over = true := by
  unfold BitR.read; split <;> simp [h]

theorem overflow_never_atEnd (r : BitR) (h : r.over = true) : r.atEnd = false := by
  unfold BitR.atEnd; simp [h]

/-! ### repeat offsets: encoder and decoder stay in lockstep -/

open Rep in
/-- **rep_lockstep**: for every history of non-zero repeat offsets, every raw offset ≥ 1 and either literal-length case, the decoder's
resolution of the offBase the compressor stores (ZSTD_finalizeOffBase) yields exactly that raw offset, and the decoder's new history
equals the compressor's (ZSTD_updateRep): the two sides can never drift apart, whatever sequence of matches is coded. -/
theorem rep_lockstep (r : Rep.R) (raw : Nat) (ll0 : Bool) (h0 : 1 ≤ r.r0) (h1 : 1 ≤ r.r1) (h2 : 1 ≤ r.r2) (hr : 1 ≤ raw) :
    resolve r (finalizeOffBase raw r ll0) (if ll0 then 1 else 0) = (raw, updateRep r (finalizeOffBase raw r ll0) ll0) := by
  obtain ⟨a, b, c⟩ := r
  simp only at h0 h1 h2
  unfold finalizeOffBase
  cases ll0 <;> simp only [Bool.not_false, Bool.not_true, Bool.true_and, Bool.false_and, if_true, if_false, Bool.false_eq_true]
  · -- literal length > 0
    by_cases e0 : raw = a
    · subst e0; simp [resolve, updateRep]
    · by_cases e1 : raw = b
      · subst e1; simp [e0, resolve, updateRep]; omega
      · by_cases e2 : raw = c
        · subst e2; simp [e0, e1, resolve, updateRep]; omega
        · have : raw + 3 > 3 := by omega
          simp [e0, e1, e2, resolve, updateRep, this]
  · -- literal length = 0: the codes shift by one, rep[0] - 1 becomes reachable
    by_cases e1 : raw = b
    · subst e1; simp [resolve, updateRep]
    · by_cases e2 : raw = c
      · subst e2; simp [e1, resolve, updateRep]; omega
      · by_cases e3 : raw = a - 1
        · subst e3; simp [e1, e2, resolve, updateRep]; omega
        · have : raw + 3 > 3 := by omega
          simp [e1, e2, e3, resolve, updateRep, this]

/-! ### length codes: every length is representable by its code -/

open Rep Gen in
/-- what the sequence coder relies on: the code's base is at most the value and the remainder fits in the code's extra bits -/
def CodeOk (base bits : List Nat) (code v : Nat) : Prop := base.getD code 0 ≤ v ∧ v < base.getD code 0 + 2 ^ bits.getD code 0

theorem log2_bounds (n : Nat) (h : n ≠ 0) : 2 ^ Nat.log2 n ≤ n ∧ n < 2 ^ (Nat.log2 n + 1) :=
  ⟨Nat.log2_self_le h, Nat.lt_log2_self⟩

open Rep Gen in
/-- **ll_code_roundtrip**: for every literal length below 2^17 (a block holds at most 2^17 bytes), LL_base[code] ≤ ll < LL_base[code] + 2^LL_bits[code]:
the decoder's `base + extra bits` reproduces the length -/
theorem ll_code_roundtrip (ll : Nat) (h : ll < 2 ^ 17) : CodeOk LL_base LL_bits (llCode ll) ll := by
  unfold llCode CodeOk
  by_cases hs : ll > 63
  · rw [if_pos hs]
    have hb := log2_bounds ll (by omega)
    -- log2 ll ∈ 6..16: the table rows 25..35 are 2^h with h extra bits
    have hlo : 6 ≤ Nat.log2 ll := by
      rcases Nat.lt_or_ge (Nat.log2 ll) 6 with hc | hc
      · have h1 : Nat.log2 ll + 1 ≤ 6 := by omega
        have h2 := Nat.pow_le_pow_right (by decide : 0 < 2) h1
        omega
      · exact hc
    have hhi : Nat.log2 ll ≤ 16 := by
      rcases Nat.lt_or_ge 16 (Nat.log2 ll) with hc | hc
      · have h1 : 17 ≤ Nat.log2 ll := by omega
        have h2 := Nat.pow_le_pow_right (by decide : 0 < 2) h1
        omega
      · exact hc
    have tab : ∀ k, k < 17 → 6 ≤ k → LL_base.getD (k + LL_deltaCode) 0 = 2 ^ k ∧ LL_bits.getD (k + LL_deltaCode) 0 = k := by decide
    obtain ⟨t1, t2⟩ := tab _ (by omega) hlo
    rw [t1, t2]
    have : 2 ^ Nat.log2 ll + 2 ^ Nat.log2 ll = 2 ^ (Nat.log2 ll + 1) := by rw [Nat.pow_succ]; omega
    omega
  · rw [if_neg hs]
    have hlt : ll < 64 := by omega
    have tab : ∀ v, v < 64 → LL_base.getD (LL_Code.getD v 0) 0 ≤ v ∧ v < LL_base.getD (LL_Code.getD v 0) 0 + 2 ^ LL_bits.getD (LL_Code.getD v 0) 0 := by decide
    exact tab ll hlt

open Rep Gen in
/-- **ml_code_roundtrip**: the same for match lengths (mlBase = matchLength - 3 < 2^17) -/
theorem ml_code_roundtrip (m : Nat) (h : m < 2 ^ 17) : CodeOk ML_base ML_bits (mlCode m) (m + 3) := by
  unfold mlCode CodeOk
  by_cases hs : m > 127
  · rw [if_pos hs]
    have hb := log2_bounds m (by omega)
    have hlo : 7 ≤ Nat.log2 m := by
      rcases Nat.lt_or_ge (Nat.log2 m) 7 with hc | hc
      · have h1 : Nat.log2 m + 1 ≤ 7 := by omega
        have h2 := Nat.pow_le_pow_right (by decide : 0 < 2) h1
        omega
      · exact hc
    have hhi : Nat.log2 m ≤ 16 := by
      rcases Nat.lt_or_ge 16 (Nat.log2 m) with hc | hc
      · have h1 : 17 ≤ Nat.log2 m := by omega
        have h2 := Nat.pow_le_pow_right (by decide : 0 < 2) h1
        omega
      · exact hc
    have tab : ∀ k, k < 17 → 7 ≤ k → ML_base.getD (k + ML_deltaCode) 0 = 2 ^ k + 3 ∧ ML_bits.getD (k + ML_deltaCode) 0 = k := by decide
    obtain ⟨t1, t2⟩ := tab _ (by omega) hlo
    rw [t1, t2]
    have : 2 ^ Nat.log2 m + 2 ^ Nat.log2 m = 2 ^ (Nat.log2 m + 1) := by rw [Nat.pow_succ]; omega
    omega
  · rw [if_neg hs]
    have hlt : m < 128 := by omega
    have tab : ∀ v, v < 128 → ML_base.getD (ML_Code.getD v 0) 0 ≤ v + 3 ∧ v + 3 < ML_base.getD (ML_Code.getD v 0) 0 + 2 ^ ML_bits.getD (ML_Code.getD v 0) 0 := by decide
    exact tab m hlt


/-! ### entropy layer: what the encoder side writes, the decoder model reads back (DESIGN §4 C01: bits / fse / huf round trips)

The encoder-side definitions (`BitW`, `FSE.ctableOf / encodeSymbol / encodeAll`, `HufEnc.codesOf / encode1`) mirror bitstream.h,
fse_compress.c / fse.h and huf_compress.c and are tied to those functions byte for byte on every run (tools/ent_bitw.py, ent_fse.py,
ent_huf.py); the decoder-side definitions are the ones Model/Block.lean and Model/Huf.lean decode real frames with. -/

open BitW in
/-- **bits_roundtrip**: for every list of bit fields (value, width ≤ 56) the byte string produced by the forward bit writer (BIT_addBits /
BIT_flushBits / BIT_closeCStream, any flush schedule: `BitW.flush_irrelevant`) is accepted by the backward reader (BIT_initDStream), which
then reads the fields back in reverse order, value for value, without over-read, and ends exactly at the end of the stream. -/
theorem bits_roundtrip (fs : List (Nat × Nat)) (hw : ∀ f ∈ fs, f.2 ≤ 56) :
    ∃ r0, BitR.init (ofFields fs) 0 (ofFields fs).size = .ok r0 ∧ r0.left = totalBits fs ∧ r0.over = false ∧
      (BitR.readList r0 (fs.reverse.map (·.2))).1 = fs.reverse.map (fun f => f.1 % 2 ^ f.2) ∧
      (BitR.readList r0 (fs.reverse.map (·.2))).2.over = false ∧
      (BitR.readList r0 (fs.reverse.map (·.2))).2.atEnd = true :=
  BitR.bits_roundtrip fs hw

open BitW in
/-- the same for a stream that sits anywhere inside a larger input (a block inside a frame), whatever bytes follow it -/
theorem bits_roundtrip_at (fs : List (Nat × Nat)) (hw : ∀ f ∈ fs, f.2 ≤ 56) (src : Bytes) (start : Nat)
    (hsrc : src.extract start (start + (ofFields fs).size) = ofFields fs) :
    ∃ r0, BitR.init src start (ofFields fs).size = .ok r0 ∧ r0.left = totalBits fs ∧ r0.over = false ∧
      (BitR.readList r0 (fs.reverse.map (·.2))).1 = fs.reverse.map (fun f => f.1 % 2 ^ f.2) ∧
      (BitR.readList r0 (fs.reverse.map (·.2))).2.over = false ∧
      (BitR.readList r0 (fs.reverse.map (·.2))).2.atEnd = true :=
  BitR.bits_roundtrip_at fs hw src start hsrc

/-- a decoder that asks for more bits than the encoder wrote can never end cleanly -/
theorem read_underflow_never_clean (r : BitR) (n : Nat) (h : r.left < n) : (r.read n).2.over = true ∧ (r.read n).2.atEnd = false :=
  BitR.read_underflow_sets_over r n h

open FSE in
/-- **fse_step_inverse** (the heart of tANS): for EVERY normalised distribution and EVERY symbol spreading that respects the counts, one
FSE_encodeSymbol step from state S with symbol s lands on a state whose decoding cell (the table Model/Block.lean decodes with) carries
exactly s, asks for exactly the number of bits the encoder flushed, and restores S from them. -/
theorem fse_step_inverse {syms : Array Nat} {norm : Array Int} {L S s S2 v nb : Nat} (hN : NormOK norm L) (hS : SpreadOK syms norm L)
    (hL : L ≤ 15) (hs : s < norm.size) (h0 : norm[s]! ≠ 0) (hS1 : 2 ^ L ≤ S) (hS2 : S < 2 ^ (L + 1))
    (h : encodeSymbol (ctableOf syms norm L) S s = (S2, (v, nb))) :
    2 ^ L ≤ S2 ∧ S2 < 2 ^ (L + 1) ∧
      ((cellsOf syms norm L)[S2 - 2 ^ L]!).sym = s ∧ ((cellsOf syms norm L)[S2 - 2 ^ L]!).nbBits = nb ∧
      ((cellsOf syms norm L)[S2 - 2 ^ L]!).newState + v = S - 2 ^ L :=
  step_inverse hN hS hL hs h0 hS1 hS2 h

open FSE in
/-- **fse_roundtrip**: a whole symbol sequence driven the way ZSTD_encodeSequences drives one table (FSE_initCState2 for the last symbol,
FSE_encodeSymbol backwards, FSE_flushCState) is decoded, the way ZSTD_decodeSequence drives one table, to exactly that sequence, and
the bit-field stack is exactly used up.  The two spreading facts are decidable; the driver evaluates them on every table of every
correspondence run, and `fse_default_tables_roundtrip` discharges them for the predefined distributions. -/
theorem fse_roundtrip {norm : Array Int} {L : Nat} (hN : NormOK norm L) (hL : L ≤ 14)
    (hS : spreadOK (spreadEnc norm L) norm L = true) (hE : spreadEnc norm L = spread norm L)
    (σ : List Nat) (hne : σ ≠ []) (hσ : ∀ s, s ∈ σ → s < norm.size ∧ norm[s]! ≠ 0) :
    decodeAll (buildCells norm L) L σ.length (encodeAll (buildCTable norm L) σ) = some (σ, []) :=
  build_roundtrip hN hL hS hE σ hne hσ

open FSE in
/-- **fse_spread_agree** (FSE_buildCTable_wksp, lib/compress/fse_compress.c, vs FSE_buildDTable_internal, lib/common/fse_decompress.c /
ZSTD_buildFSETable_body, lib/decompress/zstd_decompress_block.c): for EVERY normalised distribution (counts ≥ -1, a "less than one" count
taking one cell, the cells adding up to `2^L`) the encoder's own copy of the spreading code - low-probability symbols from the top, then
either its fast path (8-byte writes into `spread[]`, two cells dealt per turn) or the `step` walk that skips the low-probability area -
lays down exactly the table of the decoder-side spreading.  This was a run-time side condition (`spreadEncEqDec=true`). -/
theorem fse_spread_agree {norm : Array Int} {L : Nat} (hN : NormOK norm L) : spreadEnc norm L = spread norm L :=
  spreadEnc_eq_spread hN

open FSE in
/-- **fse_spread_complete**: for EVERY normalised distribution and every table of at least 16 cells (`4 ≤ L`; the format has
`FSE_MIN_TABLELOG = 5 ≤ L`) the spreading respects the counts - `2^L` positions, each holding a symbol of the alphabet, every symbol as
often as its normalised count says (once for -1, never for 0).  Reason: `step = (size>>1) + (size>>3) + 3` is odd and `size` a power
of two, so the first `size` positions of the walk are a rearrangement of all positions (`FSE.walk_perm`); the walk therefore meets each
free position exactly once, and the `while (position > highThreshold)` loop never runs out of its budget.  This was a run-time side
condition (`spreadOK=true`), stated for both procedures. -/
theorem fse_spread_complete {norm : Array Int} {L : Nat} (hN : NormOK norm L) (hL : 4 ≤ L) :
    spreadOK (spread norm L) norm L = true ∧ spreadOK (spreadEnc norm L) norm L = true := by
  have h := (spreadOK_iff _ _ _).2 (spread_ok hN hL)
  exact ⟨h, by rw [spreadEnc_eq_spread hN]; exact h⟩

open FSE in
/-- **fse_roundtrip_any_distribution**: `fse_roundtrip` with the two spreading facts proved instead of assumed -/
theorem fse_roundtrip_any_distribution {norm : Array Int} {L : Nat} (hN : NormOK norm L) (hL4 : 4 ≤ L) (hL : L ≤ 14)
    (σ : List Nat) (hne : σ ≠ []) (hσ : ∀ s, s ∈ σ → s < norm.size ∧ norm[s]! ≠ 0) :
    decodeAll (buildCells norm L) L σ.length (encodeAll (buildCTable norm L) σ) = some (σ, []) :=
  build_roundtrip hN hL (fse_spread_complete hN hL4).2 (spreadEnc_eq_spread hN) σ hne hσ

open FSE in
/-- the three predefined distributions of the format (dumped from the source each run): unconditional round trip -/
theorem fse_default_tables_roundtrip (σ : List Nat) (hne : σ ≠ []) :
    ((∀ s, s ∈ σ → s < 36) → decodeAll (buildCells Gen.LL_defaultNorm.toArray 6) 6 σ.length (encodeAll (buildCTable Gen.LL_defaultNorm.toArray 6) σ) = some (σ, [])) ∧
    ((∀ s, s ∈ σ → s < 29) → decodeAll (buildCells Gen.OF_defaultNorm.toArray 5) 5 σ.length (encodeAll (buildCTable Gen.OF_defaultNorm.toArray 5) σ) = some (σ, [])) ∧
    ((∀ s, s ∈ σ → s < 53) → decodeAll (buildCells Gen.ML_defaultNorm.toArray 6) 6 σ.length (encodeAll (buildCTable Gen.ML_defaultNorm.toArray 6) σ) = some (σ, [])) :=
  default_tables_roundtrip σ hne

open HufRT HufEnc Huf in
/-- **huf_table_inverts_code**: for every valid weight vector (Kraft sum = 2^log) and every symbol with a non-zero weight, the code the
compressor assigns (valPerRank rule of HUF_buildCTableFromTree / HUF_readCTable) followed by ANY further bits indexes a cell of the
decoding table (HUF_readDTableX1_wksp, the table Model/Huf.lean decodes with) that names that symbol and that code length. -/
theorem huf_table_inverts_code {weights : Array Nat} {log : Nat} (ok : WeightsOK weights log) (used : Nat) (s : Nat) (hs : s < weights.size) (hw : 0 < weights[s]) :
    ∃ val nb, (codesOf weights log)[s]? = some (val, nb) ∧ nb = log + 1 - weights[s] ∧ 1 ≤ nb ∧ nb ≤ log ∧ val < 2 ^ nb ∧
      ∀ x, x < 2 ^ (log - nb) → (buildTable ⟨weights, log, used⟩).cells[val * 2 ^ (log - nb) + x]? = some (s, nb) :=
  table_inverts_code ok used s hs hw

open HufRT HufEnc Huf in
/-- **huf_roundtrip**: whatever weight description the decoder accepts (`Huf.readStats` succeeds), literals coded with the codes those
weights define are decoded back exactly, consuming the stream exactly. -/
theorem huf_roundtrip (src : Bytes) (start n hmax : Nat) (st : Stats) (h : readStats src start n hmax = .ok st)
    (lits : List Nat) (hl : ∀ s ∈ lits, ∃ hs : s < st.weights.size, 0 < st.weights[s]) :
    decodeFields (buildTable st) lits.length (encode1 (codesOf st.weights st.tableLog) lits) = (lits, { bits := [], over := false }) :=
  stream_roundtrip_readStats src start n hmax st h lits hl

/-! ### literals section, at the level of bytes: what the literals writer emits, `Block.decodeLiterals` reads back -/

open HufEnc Huf HufRT BitW HufBytes in
/-- **huf_decode1_bytes**: one Huffman stream as BYTES - the codes of `lits` appended with the forward bit writer (HUF_compress1X_usingCTable),
read by `Huf.decode1` (HUF_decompress1X1 on the backward reader): exactly `lits`, stream exactly exhausted, no tolerated-laxity verdict -/
theorem huf_decode1_bytes (hsrc : Bytes) (hstart hn : Nat) (st : Stats)
    (hst : readStats hsrc hstart hn = .ok st) (lits : List Nat) (h : ∀ s ∈ lits, ∃ hs : s < st.weights.size, 0 < st.weights[s])
    (hlog : st.tableLog ≤ 56) (out : ByteArray) :
    decode1 (buildTable st) (ofFields (encode1 (codesOf st.weights st.tableLog) lits)) 0
      (ofFields (encode1 (codesOf st.weights st.tableLog) lits)).size lits.length out false = .ok (out ++ litBytes lits) :=
  huf_decode1_bytes_readStats hsrc hstart hn st hst lits h hlog out

open HufEnc Huf HufRT BitW HufBytes in
/-- **huf_decode4_bytes**: the four-stream layout (6-byte jump table, segments of (n+3)/4 symbols, HUF_compress4X_usingCTable) read by `Huf.decode4` -/
theorem huf_decode4_bytes {weights : Array Nat} {log : Nat} (ok : WeightsOK weights log) (hlog : log ≤ 56) (used : Nat)
    (lits : List Nat) (h : ∀ s ∈ lits, ∃ hs : s < weights.size, 0 < weights[s]) (blob : ByteArray)
    (hc : compress4 ofFields (codesOf weights log) lits = some blob) (out : ByteArray) :
    decode4 (buildTable ⟨weights, log, used⟩) blob 0 blob.size lits.length out = .ok (out ++ litBytes lits) :=
  HufBytes.huf_decode4_bytes ok hlog used lits h blob hc out

open LitEnc Block LitRT in
/-- **literals_roundtrip_raw**: a Raw literals section (ZSTD_noCompressLiterals, all three header formats) followed by any bytes -/
theorem literals_roundtrip_raw (lits : ByteArray) (src : Bytes) (start srcSize : Nat) (ent : Entropy) (bsm dstCap : Nat)
    (hsec : src.extract start (start + (rawLiterals lits).size) = rawLiterals lits)
    (h20 : lits.size < 2 ^ 20) (hbsm : lits.size ≤ bsm) (hcap : lits.size ≤ dstCap)
    (hsz : (rawLiterals lits).size ≤ srcSize) (hmin : Gen.MIN_CBLOCK_SIZE ≤ srcSize) :
    decodeLiterals src start srcSize ent bsm dstCap
      = .ok { lits := lits, used := (rawLiterals lits).size, ent := ent, mode := .raw, streams := 1 } :=
  LitRT.literals_roundtrip_raw lits src start srcSize ent bsm dstCap hsec h20 hbsm hcap hsz hmin

open LitEnc Block LitRT in
/-- **literals_roundtrip_rle**: an RLE literals section (ZSTD_compressRleLiteralsBlock) -/
theorem literals_roundtrip_rle (n : Nat) (b : UInt8) (src : Bytes) (start srcSize : Nat) (ent : Entropy) (bsm dstCap : Nat)
    (hsec : src.extract start (start + (rleLiterals (rleBytes n b)).size) = rleLiterals (rleBytes n b))
    (h20 : n < 2 ^ 20) (hbsm : n ≤ bsm) (hcap : n ≤ dstCap)
    (hsz : (rleLiterals (rleBytes n b)).size ≤ srcSize) (hmin : Gen.MIN_CBLOCK_SIZE ≤ srcSize) :
    decodeLiterals src start srcSize ent bsm dstCap
      = .ok { lits := rleBytes n b, used := (rleLiterals (rleBytes n b)).size, ent := ent, mode := .rle, streams := 1 } :=
  LitRT.literals_roundtrip_rle n b src start srcSize ent bsm dstCap hsec h20 hbsm hcap hsz hmin

open LitEnc Block LitRT HufRT HufEnc Huf HufBytes in
/-- **literals_roundtrip_compressed**: a Huffman-compressed literals section as ZSTD_compressLiterals lays it out (3/4/5-byte header, tree
description in the direct 4-bit form of HUF_writeCTable, one or four streams) is read back by `Block.decodeLiterals` as exactly the
literals, the section size, and the decoding table of those weights (`literals_roundtrip_compressed_of_stats` in Lemmas/LitRT covers any
tree description that `Huf.readStats` reads back, the FSE-compressed form included) -/
theorem literals_roundtrip_compressed (ws : List Nat) (last log : Nat) (ok : WeightsOK (ws.toArray.push last) log)
    (hlast : 0 < last) (hlog : log ≤ 12) (hr1 : 2 ≤ (ws ++ [last]).count 1) (hws : 1 ≤ ws.length)
    (single : Bool) (wh streams : ByteArray) (syms : List Nat) (hwh : directWeights ws = some wh)
    (hstreams : hufStreams single (codesOf (ws.toArray.push last) log) syms = some streams)
    (hsyms : ∀ s ∈ syms, ∃ hs : s < (ws.toArray.push last).size, 0 < (ws.toArray.push last)[s])
    (src : Bytes) (start srcSize : Nat) (ent : Entropy) (bsm dstCap : Nat)
    (hsec : src.extract start (start + (compressedLiterals single wh streams syms.length).size)
      = compressedLiterals single wh streams syms.length)
    (hsingle : single = true → syms.length < 1024)
    (hc : wh.size + streams.size < syms.length) (hn : syms.length ≤ 2 ^ 17)
    (hbsm : syms.length ≤ bsm) (hcap : syms.length ≤ dstCap)
    (hsz : (compressedLiterals single wh streams syms.length).size ≤ srcSize) :
    decodeLiterals src start srcSize ent bsm dstCap
      = .ok { lits := litBytes syms, used := (compressedLiterals single wh streams syms.length).size,
              ent := { ent with huf := some (buildTable ⟨ws.toArray.push last, log, wh.size⟩) }, mode := .compressed,
              streams := if single then 1 else 4 } :=
  LitRT.literals_roundtrip_compressed ws last log ok hlast hlog hr1 hws single wh streams syms hwh hstreams hsyms src start srcSize ent bsm dstCap
    hsec hsingle hc hn hbsm hcap hsz

open LitEnc Block LitRT HufRT HufEnc Huf HufBytes in
/-- **literals_roundtrip_treeless**: a TREELESS literals section as ZSTD_compressLiterals lays it out when HUF_compress{1,4}X_repeat re-used
the table of an earlier block (`hType = set_repeat`: 3/4/5-byte header, NO tree description, one or four streams under the codes of that
table's weights) is read back by `Block.decodeLiterals` as exactly the literals and the section size, in mode `treeless`, PROVIDED the decoder
holds the table built from those weights (`ent.huf`: installed by the block that described it, `literals_roundtrip_compressed`); the table
stays.  (Without a table the decoder refuses the section: dictionary_corrupted.) -/
theorem literals_roundtrip_treeless (single : Bool) (streams : ByteArray) (syms : List Nat) (weights : Array Nat)
    (log used : Nat) (ok : WeightsOK weights log) (hlog : log ≤ 56)
    (src : Bytes) (start srcSize : Nat) (ent : Entropy) (bsm dstCap : Nat)
    (hent : ent.huf = some (buildTable ⟨weights, log, used⟩))
    (hsec : src.extract start (start + (compressedLiterals single ByteArray.empty streams syms.length set_repeat).size)
      = compressedLiterals single ByteArray.empty streams syms.length set_repeat)
    (hsyms : ∀ s ∈ syms, ∃ hs : s < weights.size, 0 < weights[s])
    (hstreams : hufStreams single (codesOf weights log) syms = some streams)
    (hsingle : single = true → syms.length < 1024)
    (hc : streams.size < syms.length) (hn : syms.length ≤ 2 ^ 17)
    (hbsm : syms.length ≤ bsm) (hcap : syms.length ≤ dstCap)
    (hsz : (compressedLiterals single ByteArray.empty streams syms.length set_repeat).size ≤ srcSize) (h5 : 5 ≤ srcSize) :
    decodeLiterals src start srcSize ent bsm dstCap
      = .ok { lits := litBytes syms, used := (compressedLiterals single ByteArray.empty streams syms.length set_repeat).size,
              ent := { ent with huf := some (buildTable ⟨weights, log, used⟩) }, mode := .treeless,
              streams := if single then 1 else 4 } :=
  LitRT.literals_roundtrip_treeless single streams syms weights log used ok hlog src start srcSize ent bsm dstCap hent hsec hsyms hstreams
    hsingle hc hn hbsm hcap hsz h5

open LitEnc HufRT HufEnc Huf in
/-- **readStats_fse**: the FSE-COMPRESSED Huffman tree description - what HUF_writeCTable_wksp writes when HUF_compressWeights pays
(`LitEnc.fseWeights`: size byte < 128, FSE_writeNCount of the normalised counts of the weight values, the two-state FSE stream of
FSE_compress_usingCTable; tied byte for byte to the C functions by tools/ent_huf.py) - is read back by HUF_readStats (`Huf.readStats`,
through FSE_decompress_wksp = `FSE.decompressWeights`) as exactly the weights, the implied last weight, the table depth and the size.
The normalised counts are a decision (FSE_normalizeCount is not modelled): any counts `WeightsRT.WeightsFseOK` accepts. -/
theorem readStats_fse (ws : List Nat) (last log : Nat) (ok : WeightsOK (ws.toArray.push last) log) (hlast : 0 < last)
    (hlog : log ≤ 12) (hr1 : 2 ≤ (ws ++ [last]).count 1) (hws : ws.length ≤ 255) (norm : Array Int) (L : Nat)
    (hF : WeightsRT.WeightsFseOK norm L ws) (wh : ByteArray) (hwh : fseWeights norm L ws = some wh) (src : Bytes) (pos n : Nat)
    (hsrc : src.extract pos (pos + wh.size) = wh) (hn : wh.size ≤ n) :
    readStats src pos n = .ok ⟨ws.toArray.push last, log, wh.size⟩ :=
  WeightsRT.readStats_fse ws last log ok hlast hlog hr1 hws norm L hF wh hwh src pos n hsrc hn

open LitEnc HufRT Huf in
/-- **readStats_fse_any_distribution**: `readStats_fse` with side conditions on the normalised counts that speak about the distribution
only (`WeightsRT.WeightsDescOK`): the two spreading facts are theorems (Lemmas/SpreadRT.lean), not hypotheses -/
theorem readStats_fse_any_distribution (ws : List Nat) (last log : Nat) (ok : WeightsOK (ws.toArray.push last) log) (hlast : 0 < last)
    (hlog : log ≤ 12) (hr1 : 2 ≤ (ws ++ [last]).count 1) (hws : ws.length ≤ 255) (norm : Array Int) (L : Nat)
    (hF : WeightsRT.WeightsDescOK norm L ws) (wh : ByteArray) (hwh : fseWeights norm L ws = some wh) (src : Bytes) (pos n : Nat)
    (hsrc : src.extract pos (pos + wh.size) = wh) (hn : wh.size ≤ n) :
    readStats src pos n = .ok ⟨ws.toArray.push last, log, wh.size⟩ :=
  WeightsRT.readStats_fse ws last log ok hlast hlog hr1 hws norm L (WeightsRT.weightsFseOK_of_distribution hF) wh hwh src pos n hsrc hn

open LitEnc Block LitRT HufRT HufEnc Huf HufBytes in
/-- **literals_roundtrip_compressed_fse**: `literals_roundtrip_compressed` with the tree description the whole of HUF_writeCTable_wksp
writes (`LitEnc.treeDescr`): the weights FSE-compressed when that is smaller than the direct form, else direct -/
theorem literals_roundtrip_compressed_fse (ws : List Nat) (last log : Nat) (ok : WeightsOK (ws.toArray.push last) log)
    (hlast : 0 < last) (hlog : log ≤ 12) (hr1 : 2 ≤ (ws ++ [last]).count 1) (hws1 : 1 ≤ ws.length) (hws : ws.length ≤ 255)
    (norm : Array Int) (L : Nat) (hF : WeightsRT.WeightsFseOK norm L ws)
    (single : Bool) (wh streams : ByteArray) (syms : List Nat) (hwh : treeDescr norm L ws = some wh)
    (hstreams : hufStreams single (codesOf (ws.toArray.push last) log) syms = some streams)
    (hsyms : ∀ s ∈ syms, ∃ hs : s < (ws.toArray.push last).size, 0 < (ws.toArray.push last)[s])
    (src : Bytes) (start srcSize : Nat) (ent : Entropy) (bsm dstCap : Nat)
    (hsec : src.extract start (start + (compressedLiterals single wh streams syms.length).size)
      = compressedLiterals single wh streams syms.length)
    (hsingle : single = true → syms.length < 1024)
    (hc : wh.size + streams.size < syms.length) (hn : syms.length ≤ 2 ^ 17)
    (hbsm : syms.length ≤ bsm) (hcap : syms.length ≤ dstCap)
    (hsz : (compressedLiterals single wh streams syms.length).size ≤ srcSize) (h5 : 5 ≤ srcSize) :
    decodeLiterals src start srcSize ent bsm dstCap
      = .ok { lits := litBytes syms, used := (compressedLiterals single wh streams syms.length).size,
              ent := { ent with huf := some (buildTable ⟨ws.toArray.push last, log, wh.size⟩) }, mode := .compressed,
              streams := if single then 1 else 4 } :=
  WeightsRT.literals_roundtrip_compressed_fse ws last log ok hlast hlog hr1 hws1 hws norm L hF single wh streams syms hwh hstreams hsyms src
    start srcSize ent bsm dstCap hsec hsingle hc hn hbsm hcap hsz h5

/-! ### sequences section, at the level of bytes: what ZSTD_encodeSequences writes, `Block.decodeSeqs` reads back -/

section
open Gen FSE SeqEnc Rep SeqRT
variable {ctLL ctOF ctML : CTable} {llT ofT mlT : Array SeqCell} {okLL okOF okML : Nat → Prop}

/-- **seq_section_roundtrip**: for ANY three (encoding table, decoding table) pairs that invert each other (`SeqRT.Inverts`: established for
FSE-described tables by `inverts_build`, for the predefined tables by `inverts_default`, for RLE tables by `inverts_rle`; a repeated table is
the previous block's pair) and every non-empty sequence list within the format's ranges, the BYTES written by the model of
ZSTD_encodeSequences (three interleaved FSE states + extra bits through the forward bit writer) are read back by the decoder model's
`Block.decodeSeqs` - initialised exactly as `Block.prepare` does - as the same (literal length, match length, offset value) triples in
order; the stream ends exactly (`atEnd`, no over-read), and offsets / final repeat-offset history are those of `Rep.resolve`. -/
theorem seq_section_roundtrip (hLL : Inverts ctLL llT LL_base LL_bits okLL) (hOF : Inverts ctOF ofT OF_base OF_bits okOF)
    (hML : Inverts ctML mlT ML_base ML_bits okML) (seqs : List SeqIn) (hne : seqs ≠ [])
    (hok : ∀ s ∈ seqs, okLL (codesOf s).ll ∧ okOF (codesOf s).of ∧ okML (codesOf s).ml) (hrng : ∀ s ∈ seqs, InRange s)
    (rep0 : Array Nat) :
    ∃ r0, BitR.init (encodeSeqBytes ctLL ctOF ctML seqs) 0 (encodeSeqBytes ctLL ctOF ctML seqs).size = .ok r0 ∧
      let a := r0.read ctLL.tableLog
      let b := a.2.read ctOF.tableLog
      let c := b.2.read ctML.tableLog
      let sd := Block.decodeSeqs llT ofT mlT seqs.length a.1 b.1 c.1 c.2 rep0
      sd.seqs.toList.map (fun q => (q.ll, q.ml, q.ofValue)) = seqs.map (fun s => (s.litLength, s.mlBase + 3, s.offBase)) ∧
      sd.r.atEnd = true ∧ sd.r.over = false ∧
      sd.seqs.toList = (resolveAll (repOf rep0) (seqs.map triIn)).1 ∧
      sd.rep = repArr (resolveAll (repOf rep0) (seqs.map triIn)).2 :=
  SeqRT.seq_section_roundtrip hLL hOF hML seqs hne hok hrng rep0

/-- **seq_offsets_roundtrip**: composed with the repeat-offset lock step - when the compressor stores `offBase = ZSTD_finalizeOffBase(raw
offset)` along its own history (ZSTD_updateRep), the decoder recovers the RAW offsets, lengths and the same final history -/
theorem seq_offsets_roundtrip (hLL : Inverts ctLL llT LL_base LL_bits okLL) (hOF : Inverts ctOF ofT OF_base OF_bits okOF)
    (hML : Inverts ctML mlT ML_base ML_bits okML) (qs : List RawSeq) (hne : qs ≠ []) (rep0 : Array Nat)
    (h0 : 1 ≤ rep0[0]!) (h1 : 1 ≤ rep0[1]!) (h2 : 1 ≤ rep0[2]!)
    (hq : ∀ q ∈ qs, q.litLength < 2 ^ 17 ∧ q.mlBase < 2 ^ 17 ∧ 1 ≤ q.rawOffset ∧ q.rawOffset + 3 < 2 ^ 32)
    (hok : ∀ s ∈ (storeAll (repOf rep0) qs).1, okLL (codesOf s).ll ∧ okOF (codesOf s).of ∧ okML (codesOf s).ml) :
    ∃ r0, BitR.init (encodeSeqBytes ctLL ctOF ctML (storeAll (repOf rep0) qs).1) 0
        (encodeSeqBytes ctLL ctOF ctML (storeAll (repOf rep0) qs).1).size = .ok r0 ∧
      let a := r0.read ctLL.tableLog
      let b := a.2.read ctOF.tableLog
      let c := b.2.read ctML.tableLog
      let sd := Block.decodeSeqs llT ofT mlT qs.length a.1 b.1 c.1 c.2 rep0
      sd.seqs.toList.map (fun s => (s.ll, s.ml, s.offset)) = qs.map (fun q => (q.litLength, q.mlBase + 3, q.rawOffset)) ∧
      sd.r.atEnd = true ∧ sd.r.over = false ∧ sd.rep = repArr (storeAll (repOf rep0) qs).2 :=
  SeqRT.seq_offsets_roundtrip hLL hOF hML qs hne rep0 h0 h1 h2 hq hok
end

open Gen FSE SeqEnc Rep SeqRT in
/-- **seq_section_roundtrip_predefined**: blocks that use the three predefined tables - no hypothesis about tables left -/
theorem seq_section_roundtrip_predefined (seqs : List SeqIn) (hne : seqs ≠ [])
    (hrng : ∀ s ∈ seqs, s.litLength < 2 ^ 17 ∧ s.mlBase < 2 ^ 17 ∧ 1 ≤ s.offBase ∧ s.offBase < 2 ^ 29) (rep0 : Array Nat) :
    ∃ r0, BitR.init (encodeSeqBytes (buildCTable LL_defaultNorm.toArray LL_DEFAULTNORMLOG) (buildCTable OF_defaultNorm.toArray OF_DEFAULTNORMLOG)
          (buildCTable ML_defaultNorm.toArray ML_DEFAULTNORMLOG) seqs) 0
        (encodeSeqBytes (buildCTable LL_defaultNorm.toArray LL_DEFAULTNORMLOG) (buildCTable OF_defaultNorm.toArray OF_DEFAULTNORMLOG)
          (buildCTable ML_defaultNorm.toArray ML_DEFAULTNORMLOG) seqs).size = .ok r0 ∧
      let a := r0.read LL_DEFAULTNORMLOG
      let b := a.2.read OF_DEFAULTNORMLOG
      let c := b.2.read ML_DEFAULTNORMLOG
      let sd := Block.decodeSeqs LL_defaultDTable.toArray OF_defaultDTable.toArray ML_defaultDTable.toArray seqs.length a.1 b.1 c.1 c.2 rep0
      sd.seqs.toList.map (fun q => (q.ll, q.ml, q.ofValue)) = seqs.map (fun s => (s.litLength, s.mlBase + 3, s.offBase)) ∧
      sd.r.atEnd = true ∧ sd.r.over = false ∧
      sd.seqs.toList = (resolveAll (repOf rep0) (seqs.map triIn)).1 ∧
      sd.rep = repArr (resolveAll (repOf rep0) (seqs.map triIn)).2 :=
  SeqRT.seq_section_roundtrip_predefined seqs hne hrng rep0

/-! ### whole frames: the total fallback of the compressor round-trips, for EVERY input -/

open HeaderW Serialize FrameRT in
/-- **frame_roundtrip_raw** (`decode(compress(x)) = x` for the raw-block compressor): for every input `x` and every accepted frame-parameter tuple
(window log, content-size flag, checksum flag), the frame made of ZSTD_writeFrameHeader, raw blocks cut the way ZSTD_compress_frameChunk cuts them
(ZSTD_noCompressBlock) and ZSTD_writeEpilogue (XXH64 checksum) is decoded by the FULL decoder model (`Frame.decompressAll` = ZSTD_decompress:
header parse, block loop, content-size check, checksum verification) to exactly `x`, in any capacity ≥ |x|.  Every block of every frame may
always be emitted raw, so this is the compressor's total fallback; the serializer is tied byte for byte to those C functions and its frames
are decoded by the real ZSTD_decompress on every run (tools/ent_frame.py). -/
theorem frame_roundtrip_raw (a : HArgs) (ha : a.wf) (hnd : a.noDictID = true ∨ a.dictID = 0) (hm : a.magicless = false)
    (x : ByteArray) (hp : a.contentSizeFlag = true → a.pledged = x.size)
    (dict : Frame.Dict) (cap : Nat) (hcap : x.size ≤ cap) (o : Frame.Opts) (hml : o.magicless = false) (hmb : o.maxBlockSize = 0) :
    ∃ traces, Frame.decompressAll (rawFrame a x) dict cap o = .ok (x, traces) :=
  FrameRT.frame_roundtrip_raw a ha hnd hm x hp dict cap hcap o hml hmb

open HeaderW Serialize FrameRT in
/-- **frame_roundtrip_blocks**: the same for ANY tiling of `x` into raw and RLE blocks within the block-size limit -/
theorem frame_roundtrip_blocks (a : HArgs) (bs : List BlockChoice) (x : ByteArray) (hok : FrameOK a bs x)
    (dict : Frame.Dict) (cap : Nat) (hcap : x.size ≤ cap) (o : Frame.Opts) (hml : o.magicless = false) (hmb : o.maxBlockSize = 0) :
    ∃ traces, Frame.decompressAll (serializeFrame a bs x) dict cap o = .ok (x, traces) :=
  FrameRT.frame_roundtrip_blocks a bs x hok dict cap hcap o hml hmb

open HeaderW Serialize FrameRT in
/-- **multi_frame_roundtrip**: concatenations of such frames and skippable frames decode to the concatenation of the contents -/
theorem multi_frame_roundtrip (segs : List Segment) (hok : ∀ s ∈ segs, SegOK s) (dict : Frame.Dict) (cap : Nat)
    (hcap : (contentOf segs).size ≤ cap) (o : Frame.Opts) (hml : o.magicless = false) (hmb : o.maxBlockSize = 0) :
    ∃ traces, Frame.decompressAll (serializeSegs segs) dict cap o = .ok (contentOf segs, traces) :=
  FrameRT.multi_frame_roundtrip segs hok dict cap hcap o hml hmb

/-! ### the round trip of compressed blocks and of whole frames containing them: decode(serialize(ANY valid parse)) = x -/

open Gen FSE SeqEnc LitEnc BlockEnc Rep BlockRT in
/-- **block_roundtrip**: let `x` be a block's content, `prev` the frame content before it, `dict` the dictionary content, and `(lits, raws)` ANY
parse of `x` that is valid against that history (`Exec.ValidParse`: what a match finder may legally output - overlapping matches, repeat
offsets, dictionary matches included).  Store the offsets the way the compressor does (ZSTD_finalizeOffBase / ZSTD_updateRep along its history),
write the block body the way ZSTD_entropyCompressSeqStore_internal does (literals section raw / RLE / Huffman with a new table, described
directly or by FSE-compressed weights (treeless: `block_roundtrip_treeless`), nbSeq field, modes byte, RLE
symbols and FSE_writeNCount table descriptions, the three-state FSE bit stream; each sequence table predefined (`set_basic`), RLE (`set_rle`),
described in the block (`set_compressed`) or repeated from the previous block with sequences (`set_repeat`); `pt` = the resolved decisions of
that previous block, `none` if there is none).  Then `Block.decodeBlock` (ZSTD_decompressBlock_internal) on those bytes returns exactly the
content, leaves the decoder's repeat-offset history equal to the compressor's, and leaves the decoder carrying the sequence tables of
`nextTables pt t ..` (`EntMatch`) - so the next block starts in lock step.  Table hypotheses: `set_repeat` only when a previous block with
sequences exists (`hrp`), the decoder carries its tables (`hent`), the resolved decisions are acceptable to the decoder (`TablesOK`: for a
described table a normalised distribution with `5 ≤ tableLog ≤` LLFSELog / OffFSELog / MLFSELog, alphabet within MaxLL / MaxOff / MaxML, last
symbol present, and the two checked spreading facts) and express the codes of the sequences (`CodesOK`).  With `pt = none` and `t` made of
predefined / RLE tables these hold as before (`block_roundtrip_basic`). -/
theorem block_roundtrip (dict pre prev x lits : ByteArray) (raws : List SeqRT.RawSeq) (c : LitChoice) (t : Tables)
    (src : Bytes) (start : Nat) (ent : Block.Entropy) (bsm cap : Nat) (pt : Option Tables)
    (hv : Exec.ValidParse dict prev x lits (raws.map toSeq))
    (hx : x.size ≤ bsm) (hb17 : bsm ≤ 2 ^ 17) (hoff : ∀ q ∈ raws, q.rawOffset + 3 < 2 ^ 32)
    (hrep : RepPos (SeqRT.repOf ent.rep)) (hent : EntMatch pt ent)
    (hc : LitOK c lits) (hrp : usesRepeat t = true → pt.isSome = true) (hT : TablesOK (Tables.resolve (pt.getD {}) t))
    (hok : CodesOK (Tables.resolve (pt.getD {}) t) (SeqRT.storeAll (SeqRT.repOf ent.rep) raws).1)
    (H : FrameRT.Holds src start (serializeBlockBody c lits t (SeqRT.storeAll (SeqRT.repOf ent.rep) raws).1 (pt.getD {})))
    (hsize : (serializeBlockBody c lits t (SeqRT.storeAll (SeqRT.repOf ent.rep) raws).1 (pt.getD {})).size ≤ bsm)
    (hcap : pre.size + prev.size + x.size ≤ cap) :
    ∃ ent2 tr, Block.decodeBlock src start (serializeBlockBody c lits t (SeqRT.storeAll (SeqRT.repOf ent.rep) raws).1 (pt.getD {})).size
        ent dict { out := pre ++ prev, frameStart := pre.size, cap := cap } bsm = .ok (pre ++ prev ++ x, ent2, tr) ∧
      SeqRT.repOf ent2.rep = (SeqRT.storeAll (SeqRT.repOf ent.rep) raws).2 ∧ RepPos (SeqRT.repOf ent2.rep) ∧ tr.nbSeq = raws.length ∧
      EntMatch (nextTables pt t (SeqRT.storeAll (SeqRT.repOf ent.rep) raws).1) ent2 :=
  BlockRT.block_roundtrip dict pre prev x lits raws c t src start ent bsm cap pt hv hx hb17 hoff hrep hent hc hrp hT hok H hsize hcap

open Gen FSE SeqEnc LitEnc BlockEnc Rep BlockRT in
/-- **block_roundtrip_basic**: `block_roundtrip` for a block on its own (no `set_repeat`, nothing known about earlier blocks): the statement
as it read before `set_compressed` / `set_repeat` were covered, now also for described tables (`TablesOK t` is `True` for predefined / RLE
tables: `BlockRT.tablesOK_default`). -/
theorem block_roundtrip_basic (dict pre prev x lits : ByteArray) (raws : List SeqRT.RawSeq) (c : LitChoice) (t : Tables)
    (src : Bytes) (start : Nat) (ent : Block.Entropy) (bsm cap : Nat)
    (hv : Exec.ValidParse dict prev x lits (raws.map toSeq))
    (hx : x.size ≤ bsm) (hb17 : bsm ≤ 2 ^ 17) (hoff : ∀ q ∈ raws, q.rawOffset + 3 < 2 ^ 32)
    (hrep : RepPos (SeqRT.repOf ent.rep))
    (hc : LitOK c lits) (hnr : usesRepeat t = false) (hT : TablesOK t) (hok : CodesOK t (SeqRT.storeAll (SeqRT.repOf ent.rep) raws).1)
    (H : FrameRT.Holds src start (serializeBlockBody c lits t (SeqRT.storeAll (SeqRT.repOf ent.rep) raws).1))
    (hsize : (serializeBlockBody c lits t (SeqRT.storeAll (SeqRT.repOf ent.rep) raws).1).size ≤ bsm)
    (hcap : pre.size + prev.size + x.size ≤ cap) :
    ∃ ent2 tr, Block.decodeBlock src start (serializeBlockBody c lits t (SeqRT.storeAll (SeqRT.repOf ent.rep) raws).1).size ent dict
        { out := pre ++ prev, frameStart := pre.size, cap := cap } bsm = .ok (pre ++ prev ++ x, ent2, tr) ∧
      SeqRT.repOf ent2.rep = (SeqRT.storeAll (SeqRT.repOf ent.rep) raws).2 ∧ RepPos (SeqRT.repOf ent2.rep) ∧ tr.nbSeq = raws.length :=
  BlockRT.block_roundtrip_basic dict pre prev x lits raws c t src start ent bsm cap hv hx hb17 hoff hrep hc hnr hT hok H hsize hcap

open Gen FSE SeqEnc LitEnc BlockEnc Rep BlockRT in
/-- **block_roundtrip_treeless**: `block_roundtrip` with the fourth literals mode.  `hp` = the Huffman table (weights, depth) written by the
last earlier block of the frame whose literals section wrote one (`BlockEnc.nextHuf`; `none` if there is none).  The literals may then also
be TREELESS (`LitChoice.treeless`, `hType = set_repeat`: coded with that table, no tree description): `LitOK .treeless lits hp` asks that
such a table exists, that every literal has a code in it, and that the section is smaller than the literals; the decoder must carry the
table (`HufMatch hp ent`).  Afterwards it carries the table of `nextHuf hp c lits` (a block with a new table replaces it, every other block
keeps it) - the next block starts in lock step on the Huffman side too.  With `hp = none` this is `block_roundtrip`. -/
theorem block_roundtrip_treeless (dict pre prev x lits : ByteArray) (raws : List SeqRT.RawSeq) (c : LitChoice) (t : Tables)
    (src : Bytes) (start : Nat) (ent : Block.Entropy) (bsm cap : Nat) (pt : Option Tables) (hp : Option HufTab)
    (hv : Exec.ValidParse dict prev x lits (raws.map toSeq))
    (hx : x.size ≤ bsm) (hb17 : bsm ≤ 2 ^ 17) (hoff : ∀ q ∈ raws, q.rawOffset + 3 < 2 ^ 32)
    (hrep : RepPos (SeqRT.repOf ent.rep)) (hent : EntMatch pt ent) (hm : HufMatch hp ent)
    (hc : LitOK c lits hp) (hrp : usesRepeat t = true → pt.isSome = true) (hT : TablesOK (Tables.resolve (pt.getD {}) t))
    (hok : CodesOK (Tables.resolve (pt.getD {}) t) (SeqRT.storeAll (SeqRT.repOf ent.rep) raws).1)
    (H : FrameRT.Holds src start (serializeBlockBody c lits t (SeqRT.storeAll (SeqRT.repOf ent.rep) raws).1 (pt.getD {}) hp))
    (hsize : (serializeBlockBody c lits t (SeqRT.storeAll (SeqRT.repOf ent.rep) raws).1 (pt.getD {}) hp).size ≤ bsm)
    (hcap : pre.size + prev.size + x.size ≤ cap) :
    ∃ ent2 tr, Block.decodeBlock src start (serializeBlockBody c lits t (SeqRT.storeAll (SeqRT.repOf ent.rep) raws).1 (pt.getD {}) hp).size
        ent dict { out := pre ++ prev, frameStart := pre.size, cap := cap } bsm = .ok (pre ++ prev ++ x, ent2, tr) ∧
      SeqRT.repOf ent2.rep = (SeqRT.storeAll (SeqRT.repOf ent.rep) raws).2 ∧ RepPos (SeqRT.repOf ent2.rep) ∧ tr.nbSeq = raws.length ∧
      EntMatch (nextTables pt t (SeqRT.storeAll (SeqRT.repOf ent.rep) raws).1) ent2 ∧ HufMatch (nextHuf hp c lits) ent2 :=
  BlockRT.block_roundtrip_treeless dict pre prev x lits raws c t src start ent bsm cap pt hp hv hx hb17 hoff hrep hent hm hc hrp hT hok H hsize
    hcap

open HeaderW BlockEnc BlockRT in
/-- **roundtrip** (the headline statement of this property, for the modelled back end): for every input `x`, every accepted frame-parameter
tuple, and EVERY tiling of `x` into raw blocks, RLE blocks and compressed blocks each carrying ANY valid parse of its stretch (`FrameOK2`), the
frame written the way the compressor's back end writes it is decoded by the full decoder model (ZSTD_decompress) to exactly `x`.  The match
finders, the optimal parser, the block splitter and the mode heuristics only ever choose WHICH valid parse and tiling to emit; the theorem
quantifies over all of them.  Scope: sequence tables in all four modes of `symbolEncodingType_e` - predefined, RLE, described by
FSE_writeNCount (`set_compressed`; the normalised counts are a decision, any distribution `BlockRT.TableOK` accepts) and repeated from the
previous compressed block with sequences of the same frame (`set_repeat`; a dictionary's tables are not offered for repetition) - and
literals raw, RLE, or Huffman-compressed with a new table whose tree description is in direct form (`LitChoice.huffman`) or whatever
the whole of HUF_writeCTable_wksp writes, i.e. the weights FSE-COMPRESSED by HUF_compressWeights when that is smaller
(`LitChoice.huffmanFse`; the normalised counts of the weight values are a decision, any counts `WeightsRT.WeightsFseOK` accepts; the
description is read back by `readStats_fse`).  TREELESS literals (`set_repeat` of the Huffman table of an earlier block of the same frame)
are in the serializer too and covered by `roundtrip_treeless` below, which is this statement for the wider class of tilings `FrameOKT`
(`FrameOK2` = the tilings without treeless literals; `BlockRT.frameOKT_of_frameOK2`).  Not offered to the writer: the sequence tables
and the Huffman table of a DICTIONARY (`set_repeat` / treeless in the first block that could use them). -/
theorem roundtrip (a : HArgs) (bs : List BlockChoice2) (x : ByteArray) (dict : Frame.Dict)
    (hok : FrameOK2 dict.content a bs x) (hrep0 : SeqRT.repOf dict.ent.rep = repStart)
    (cap : Nat) (hcap : x.size ≤ cap) (o : Frame.Opts) (hml : o.magicless = false) (hmb : o.maxBlockSize = 0) :
    ∃ traces, Frame.decompressAll (serializeFrame2 a bs x) dict cap o = .ok (x, traces) :=
  BlockRT.frame_roundtrip_compressed a bs x dict hok hrep0 cap hcap o hml hmb

open HeaderW BlockEnc BlockRT in
/-- **roundtrip_treeless**: `roundtrip` for frames in which any compressed block may, in addition, use TREELESS literals
(`LitChoice.treeless`; ZSTD_compressLiterals with `hType = set_repeat`: the literals are Huffman-coded with the table of the last earlier
block OF THE SAME FRAME whose literals section wrote one - raw / RLE blocks and blocks with raw / RLE literals in between leave it in place -
and the section carries no tree description).  `FrameOKT` threads that table through the block list (`BlockEnc.nextHuf`) exactly as
`serializeBlocks2` does, starting from "none": a treeless block is allowed only behind a block that wrote a table, and only if every one of
its literals has a code in that table and the section is smaller than the literals (`BlockRT.TreelessOK`); that is also exactly when the
decoder accepts such a section (it fails with dictionary_corrupted when it holds no table).  The table re-used may have been described
in either form (direct or FSE-compressed weights).  Not offered to the writer: re-using a DICTIONARY's Huffman table in the first block. -/
theorem roundtrip_treeless (a : HArgs) (bs : List BlockChoice2) (x : ByteArray) (dict : Frame.Dict)
    (hok : FrameOKT dict.content a bs x) (hrep0 : SeqRT.repOf dict.ent.rep = repStart)
    (cap : Nat) (hcap : x.size ≤ cap) (o : Frame.Opts) (hml : o.magicless = false) (hmb : o.maxBlockSize = 0) :
    ∃ traces, Frame.decompressAll (serializeFrame2 a bs x) dict cap o = .ok (x, traces) :=
  BlockRT.frame_roundtrip_compressed_treeless a bs x dict hok hrep0 cap hcap o hml hmb

open BlockEnc BlockRT in
/-- **tableOK_of_distribution**: the table hypothesis of `block_roundtrip` / `roundtrip` (`BlockRT.TableOK`) follows from its distribution
part alone (`BlockRT.TableDescOK`: normalised distribution, `5 ≤ L ≤ maxLog`, alphabet within the limit, last symbol present) -/
theorem tableOK_of_distribution {maxSym maxLog : Nat} {c : SeqTableChoice} (h : TableDescOK maxSym maxLog c) : TableOK maxSym maxLog c :=
  BlockRT.tableOK_of_distribution h

open Gen FSE SeqEnc LitEnc BlockEnc Rep BlockRT in
/-- **block_roundtrip_described_tables**: `block_roundtrip` whose table hypothesis no longer mentions the spreading of symbols:
`TablesDescOK` asks of a described table (`set_compressed`) only a normalised distribution with `5 ≤ tableLog ≤` LLFSELog / OffFSELog /
MLFSELog, an alphabet within MaxLL / MaxOff / MaxML and its last symbol present -/
theorem block_roundtrip_described_tables (dict pre prev x lits : ByteArray) (raws : List SeqRT.RawSeq) (c : LitChoice) (t : Tables)
    (src : Bytes) (start : Nat) (ent : Block.Entropy) (bsm cap : Nat) (pt : Option Tables)
    (hv : Exec.ValidParse dict prev x lits (raws.map toSeq))
    (hx : x.size ≤ bsm) (hb17 : bsm ≤ 2 ^ 17) (hoff : ∀ q ∈ raws, q.rawOffset + 3 < 2 ^ 32)
    (hrep : RepPos (SeqRT.repOf ent.rep)) (hent : EntMatch pt ent)
    (hc : LitOK c lits) (hrp : usesRepeat t = true → pt.isSome = true) (hT : TablesDescOK (Tables.resolve (pt.getD {}) t))
    (hok : CodesOK (Tables.resolve (pt.getD {}) t) (SeqRT.storeAll (SeqRT.repOf ent.rep) raws).1)
    (H : FrameRT.Holds src start (serializeBlockBody c lits t (SeqRT.storeAll (SeqRT.repOf ent.rep) raws).1 (pt.getD {})))
    (hsize : (serializeBlockBody c lits t (SeqRT.storeAll (SeqRT.repOf ent.rep) raws).1 (pt.getD {})).size ≤ bsm)
    (hcap : pre.size + prev.size + x.size ≤ cap) :
    ∃ ent2 tr, Block.decodeBlock src start (serializeBlockBody c lits t (SeqRT.storeAll (SeqRT.repOf ent.rep) raws).1 (pt.getD {})).size
        ent dict { out := pre ++ prev, frameStart := pre.size, cap := cap } bsm = .ok (pre ++ prev ++ x, ent2, tr) ∧
      SeqRT.repOf ent2.rep = (SeqRT.storeAll (SeqRT.repOf ent.rep) raws).2 ∧ RepPos (SeqRT.repOf ent2.rep) ∧ tr.nbSeq = raws.length ∧
      EntMatch (nextTables pt t (SeqRT.storeAll (SeqRT.repOf ent.rep) raws).1) ent2 :=
  BlockRT.block_roundtrip_described_tables dict pre prev x lits raws c t src start ent bsm cap pt hv hx hb17 hoff hrep hent hc hrp hT hok H
    hsize hcap

open HeaderW BlockEnc BlockRT in
/-- **roundtrip_described_tables**: `roundtrip` under `FrameOK2D` = `FrameOK2` with `TablesDescOK` in place of `TablesOK`: no hypothesis on
the spreading of symbols is left; whatever normalised distribution the compressor decides to describe, the frame decodes to `x` -/
theorem roundtrip_described_tables (a : HArgs) (bs : List BlockChoice2) (x : ByteArray) (dict : Frame.Dict)
    (hok : FrameOK2D dict.content a bs x) (hrep0 : SeqRT.repOf dict.ent.rep = repStart)
    (cap : Nat) (hcap : x.size ≤ cap) (o : Frame.Opts) (hml : o.magicless = false) (hmb : o.maxBlockSize = 0) :
    ∃ traces, Frame.decompressAll (serializeFrame2 a bs x) dict cap o = .ok (x, traces) :=
  BlockRT.frame_roundtrip_described_tables a bs x dict hok hrep0 cap hcap o hml hmb

open BlockEnc BlockRT in
/-- the predefined tables accept every sequence of the format's usual ranges (offsets below 2^29 - 3): no table hypothesis is left for them -/
theorem codesOK_predefined (rep : Rep.R) (raws : List SeqRT.RawSeq)
    (h : ∀ q ∈ raws, q.litLength < 2 ^ 17 ∧ q.mlBase < 2 ^ 17 ∧ 1 ≤ q.rawOffset ∧ q.rawOffset + 3 < 2 ^ 29) :
    CodesOK {} (SeqRT.storeAll rep raws).1 :=
  BlockRT.codesOK_predefined rep raws h

/-! ### FSE table descriptions: FSE_writeNCount is read back by FSE_readNCount -/

open FSE NCountW NCountRT in
/-- **ncount_roundtrip**: for EVERY normalised distribution (counts >= -1 summing to 2^L, 5 <= L <= 12, last count non-zero - what ZSTD_buildCTable
passes) the description written by the model of FSE_writeNCount (variable-length count fields, zero-run codes in groups of 24 and 3, 16-bit flushes)
is read back by the decoder model's `FSE.readNCount` as exactly that distribution, that table log and that many bytes, whatever bytes follow it and
through both the >= 8 bytes and the padded < 8 bytes paths -/
theorem ncount_roundtrip (norm : Array Int) (L : Nat) (hN : NormOK norm L) (hL5 : 5 ≤ L) (hL12 : L ≤ 12)
    (hlast : norm[norm.size - 1]! ≠ 0) (maxSV : Nat) (hsz : norm.size ≤ maxSV + 1)
    (src : Bytes) (start n : Nat) (hn : (writeNCount norm L).size ≤ n)
    (hsrc : src.extract start (start + (writeNCount norm L).size) = writeNCount norm L) :
    FSE.readNCount src start n maxSV = .ok { norm := norm, tableLog := L, used := (writeNCount norm L).size } :=
  NCountRT.ncount_roundtrip norm L hN hL5 hL12 hlast maxSV hsz src start n hn hsrc

/-! ### sequence execution: any valid parse regenerates its source -/

open Exec in
/-- **exec_of_validParse**: let `lits`, `seqs` be ANY parse of the block content `x` that is valid against the history `dict ++ prev`
(`Exec.ValidParse`: literal runs equal the source bytes, every match has `1 ≤ offset ≤ position + |dict|` and repeats the bytes `offset`
behind it - overlapping matches and matches reaching into the dictionary included - and the trailing literals are the rest of `x`).
Then the sequence executor the decoder model runs (`Exec.run` = ZSTD_execSequence loop + last literals of ZSTD_decompressSequences_body)
returns exactly `prev ++ x` whenever the capacity admits it.  Whatever the match finders choose, validity of the parse is all the
round trip needs; `Exec.ValidParse` is decidable and is what the conformance predicate evaluates on every emitted frame. -/
theorem exec_of_validParse (dict prev x lits : ByteArray) (seqs : List Seq) (cap : Nat)
    (hv : ValidParse dict prev x lits seqs) (hcap : prev.size + x.size ≤ cap) :
    run dict { out := prev, frameStart := 0, cap := cap } lits seqs = .ok (prev ++ x) :=
  Exec.exec_of_validParse dict prev x lits seqs cap hv hcap

open Exec in
/-- the same inside a multi-frame output (`pre` = earlier frames' content, not part of this frame's history) -/
theorem exec_of_validParse_frame (dict pre prev x lits : ByteArray) (seqs : List Seq) (cap : Nat)
    (hv : ValidParse dict prev x lits seqs) (hcap : pre.size + prev.size + x.size ≤ cap) :
    run dict { out := pre ++ prev, frameStart := pre.size, cap := cap } lits seqs = .ok (pre ++ prev ++ x) :=
  Exec.exec_of_validParse_frame dict pre prev x lits seqs cap hv hcap

example : Rep.resolve ⟨1, 4, 8⟩ (Rep.finalizeOffBase 4 ⟨1, 4, 8⟩ false) 0 = (4, ⟨4, 1, 8⟩) := by decide

example : (BitR.init (ByteArray.mk #[0x05]) 0 1).toOption.map (·.left) = some 2 := by decide

/-! ### frames started from tables both sides already hold (a dictionary's): Lemmas/DictTablesRT.lean -/

/-- **roundtrip_from_tables**: `roundtrip_treeless` for a block loop started from ANY entropy state the encoder and the decoder share:
a positive repeat-offset history `rep0`, previous sequence-table decisions `pt0` and a previous Huffman table `hp0` whose decoding tables
the decoder's loaded dictionary carries (`BlockRT.EntMatch`, `BlockRT.HufMatch`).  The FIRST block with sequences may then say
`set_repeat`, the first block with literals may be treeless.  `roundtrip_treeless` is the instance `repStart`, `none`, `none`; with
the tables of a formatted dictionary (`Props.C08.loadD_tables_match`) this is `Props.C08.dict_tables_roundtrip`: the restriction "a
dictionary's tables are not offered for repetition" of `roundtrip` / `roundtrip_treeless` is lifted there. -/
theorem roundtrip_from_tables (rep0 : Rep.R) (hpos : BlockRT.RepPos rep0) (pt0 : Option BlockEnc.Tables) (hp0 : Option BlockEnc.HufTab)
    (a : HeaderW.HArgs) (bs : List BlockEnc.BlockChoice2) (x : ByteArray) (dict : Frame.Dict)
    (hok : DictTablesRT.FrameOKFromT dict.content dict.id rep0 pt0 hp0 a bs x) (hrep0 : SeqRT.repOf dict.ent.rep = rep0)
    (hem : BlockRT.EntMatch pt0 dict.ent) (hhm : BlockRT.HufMatch hp0 dict.ent)
    (cap : Nat) (hcap : x.size ≤ cap) (o : Frame.Opts) (hml : o.magicless = false) (hmb : o.maxBlockSize = 0) :
    ∃ traces, Frame.decompressAll (DictEnc.serializeFrameFromT rep0 pt0 hp0 a bs x) dict cap o = .ok (x, traces) :=
  DictTablesRT.frame_roundtrip_fromT rep0 hpos pt0 hp0 a bs x dict hok hrep0 hem hhm cap hcap o hml hmb

/-- the frames of `roundtrip` / `roundtrip_treeless` are the frames started from `repStartValue` and no tables -/
theorem serializeFrame2_eq_fromT (a : HeaderW.HArgs) (bs : List BlockEnc.BlockChoice2) (x : ByteArray) :
    BlockEnc.serializeFrame2 a bs x = DictEnc.serializeFrameFromT BlockEnc.repStart none none a bs x :=
  DictTablesRT.serializeFrame2_eq_fromT a bs x

end ZstdVerif.Props.C01
