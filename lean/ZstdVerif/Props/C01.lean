/-
C01 — Lossless one-shot round trip.  (first theorems; more in later commits)
-/
import ZstdVerif.Model.Frame
import ZstdVerif.Model.Rep
namespace ZstdVerif.Props.C01
open ZstdVerif

/-- the reader consumes exactly the bits it is asked for: `left` decreases by `n` when `n ≤ left` -/
theorem read_consumes (r : BitR) (n : Nat) (h : n ≤ r.left) : (r.read n).2.left = r.left - n ∧ (r.read n).2.over = r.over := by
  unfold BitR.read; simp [h]

/-- overflow is sticky: once a read went below the stream start, `atEnd` can never hold again -/
theorem overflow_sticky (r : BitR) (n : Nat) (h : r.over = true) : (r.read n).2.over = true := by
  unfold BitR.read; split <;> simp [h]

theorem overflow_never_atEnd (r : BitR) (h : r.over = true) : r.atEnd = false := by
  unfold BitR.atEnd; simp [h]

/-! ### repeat offsets: encoder and decoder stay in lockstep -/

open Rep in
/-- **rep_lockstep**: for every history of non-zero repeat offsets, every raw offset ≥ 1 and either literal-length case, the decoder's
resolution of the offBase the compressor stores (ZSTD_finalizeOffBase) yields exactly that raw offset, and the decoder's new history
equals the compressor's (ZSTD_updateRep): the two sides can never drift apart, whatever sequence of matches is coded. -/
theorem rep_lockstep (r : Rep.R) (raw : Nat) (ll0 : Bool) (h0 : 1 ≤ r.r0) (h1 : 1 ≤ r.r1) (h2 : 1 ≤ r.r2) (hr : 1 ≤ raw) :
    resolve r (finalizeOffBase raw r ll0) (if ll0 then 1 else 0) = (raw, updateRep r (finalizeOffBase raw r ll0) ll0) := by
  obtain ⟨a, b, c⟩ := r
  simp only at h0 h1 h2
  unfold finalizeOffBase
  cases ll0 <;> simp only [Bool.not_false, Bool.not_true, Bool.true_and, Bool.false_and, if_true, if_false, Bool.false_eq_true]
  · -- literal length > 0
    by_cases e0 : raw = a
    · subst e0; simp [resolve, updateRep]
    · by_cases e1 : raw = b
      · subst e1; simp [e0, resolve, updateRep]; omega
      · by_cases e2 : raw = c
        · subst e2; simp [e0, e1, resolve, updateRep]; omega
        · have : raw + 3 > 3 := by omega
          simp [e0, e1, e2, resolve, updateRep, this]
  · -- literal length = 0: the codes shift by one, rep[0] - 1 becomes reachable
    by_cases e1 : raw = b
    · subst e1; simp [resolve, updateRep]
    · by_cases e2 : raw = c
      · subst e2; simp [e1, resolve, updateRep]; omega
      · by_cases e3 : raw = a - 1
        · subst e3; simp [e1, e2, resolve, updateRep]; omega
        · have : raw + 3 > 3 := by omega
          simp [e1, e2, e3, resolve, updateRep, this]

/-! ### length codes: every length is representable by its code -/

open Rep Gen in
/-- what the sequence coder relies on: the code's base is at most the value and the remainder fits in the code's extra bits -/
def CodeOk (base bits : List Nat) (code v : Nat) : Prop := base.getD code 0 ≤ v ∧ v < base.getD code 0 + 2 ^ bits.getD code 0

theorem log2_bounds (n : Nat) (h : n ≠ 0) : 2 ^ Nat.log2 n ≤ n ∧ n < 2 ^ (Nat.log2 n + 1) :=
  ⟨Nat.log2_self_le h, Nat.lt_log2_self⟩

open Rep Gen in
/-- **ll_code_roundtrip**: for every literal length below 2^17 (a block holds at most 2^17 bytes), LL_base[code] ≤ ll < LL_base[code] + 2^LL_bits[code]:
the decoder's `base + extra bits` reproduces the length -/
theorem ll_code_roundtrip (ll : Nat) (h : ll < 2 ^ 17) : CodeOk LL_base LL_bits (llCode ll) ll := by
  unfold llCode CodeOk
  by_cases hs : ll > 63
  · rw [if_pos hs]
    have hb := log2_bounds ll (by omega)
    -- log2 ll ∈ 6..16: the table rows 25..35 are 2^h with h extra bits
    have hlo : 6 ≤ Nat.log2 ll := by
      rcases Nat.lt_or_ge (Nat.log2 ll) 6 with hc | hc
      · have h1 : Nat.log2 ll + 1 ≤ 6 := by omega
        have h2 := Nat.pow_le_pow_right (by decide : 0 < 2) h1
        omega
      · exact hc
    have hhi : Nat.log2 ll ≤ 16 := by
      rcases Nat.lt_or_ge 16 (Nat.log2 ll) with hc | hc
      · have h1 : 17 ≤ Nat.log2 ll := by omega
        have h2 := Nat.pow_le_pow_right (by decide : 0 < 2) h1
        omega
      · exact hc
    have tab : ∀ k, k < 17 → 6 ≤ k → LL_base.getD (k + LL_deltaCode) 0 = 2 ^ k ∧ LL_bits.getD (k + LL_deltaCode) 0 = k := by decide
    obtain ⟨t1, t2⟩ := tab _ (by omega) hlo
    rw [t1, t2]
    have : 2 ^ Nat.log2 ll + 2 ^ Nat.log2 ll = 2 ^ (Nat.log2 ll + 1) := by rw [Nat.pow_succ]; omega
    omega
  · rw [if_neg hs]
    have hlt : ll < 64 := by omega
    have tab : ∀ v, v < 64 → LL_base.getD (LL_Code.getD v 0) 0 ≤ v ∧ v < LL_base.getD (LL_Code.getD v 0) 0 + 2 ^ LL_bits.getD (LL_Code.getD v 0) 0 := by decide
    exact tab ll hlt

open Rep Gen in
/-- **ml_code_roundtrip**: the same for match lengths (mlBase = matchLength - 3 < 2^17) -/
theorem ml_code_roundtrip (m : Nat) (h : m < 2 ^ 17) : CodeOk ML_base ML_bits (mlCode m) (m + 3) := by
  unfold mlCode CodeOk
  by_cases hs : m > 127
  · rw [if_pos hs]
    have hb := log2_bounds m (by omega)
    have hlo : 7 ≤ Nat.log2 m := by
      rcases Nat.lt_or_ge (Nat.log2 m) 7 with hc | hc
      · have h1 : Nat.log2 m + 1 ≤ 7 := by omega
        have h2 := Nat.pow_le_pow_right (by decide : 0 < 2) h1
        omega
      · exact hc
    have hhi : Nat.log2 m ≤ 16 := by
      rcases Nat.lt_or_ge 16 (Nat.log2 m) with hc | hc
      · have h1 : 17 ≤ Nat.log2 m := by omega
        have h2 := Nat.pow_le_pow_right (by decide : 0 < 2) h1
        omega
      · exact hc
    have tab : ∀ k, k < 17 → 7 ≤ k → ML_base.getD (k + ML_deltaCode) 0 = 2 ^ k + 3 ∧ ML_bits.getD (k + ML_deltaCode) 0 = k := by decide
    obtain ⟨t1, t2⟩ := tab _ (by omega) hlo
    rw [t1, t2]
    have : 2 ^ Nat.log2 m + 2 ^ Nat.log2 m = 2 ^ (Nat.log2 m + 1) := by rw [Nat.pow_succ]; omega
    omega
  · rw [if_neg hs]
    have hlt : m < 128 := by omega
    have tab : ∀ v, v < 128 → ML_base.getD (ML_Code.getD v 0) 0 ≤ v + 3 ∧ v + 3 < ML_base.getD (ML_Code.getD v 0) 0 + 2 ^ ML_bits.getD (ML_Code.getD v 0) 0 := by decide
    exact tab m hlt

example : Rep.resolve ⟨1, 4, 8⟩ (Rep.finalizeOffBase 4 ⟨1, 4, 8⟩ false) 0 = (4, ⟨4, 1, 8⟩) := by decide

example : (BitR.init (ByteArray.mk #[0x05]) 0 1).toOption.map (·.left) = some 2 := by decide

end ZstdVerif.Props.C01
