/-
C18 — dictionary training: the output contract of ZDICT_finalizeDictionary (every trainer ends there), the ID rule, and the
protocol of the optimisers' shared result holder for every schedule of their worker threads.
-/
import ZstdVerif.Model.Train
import ZstdVerif.Lemmas.ListAux
namespace ZstdVerif.Props.C18
open ZstdVerif ZstdVerif.Train ZstdVerif.Gen

theorem minContent_eq : minContentSize = 8 := by decide

/-- **finalize_layout**: whenever ZDICT_finalizeDictionary does not report dstSize_tooSmall, the dictionary it writes is
header + padding + kept content, fits the capacity, keeps at most the content offered, and its content part (padding included) is
at least as long as the largest start repcode - so the three repeat offsets it records are valid for the loaders (C08.reps_in_content) -/
theorem finalize_layout (hSize contentIn cap dictSize pad kept : Nat) (hh : hSize ≤ cap)
    (h : finalizeLayout hSize contentIn cap = some (dictSize, pad, kept)) :
    dictSize = hSize + pad + kept ∧ dictSize ≤ cap ∧ kept ≤ contentIn ∧ minContentSize ≤ pad + kept := by
  rw [minContent_eq]
  unfold finalizeLayout at h
  rw [minContent_eq] at h
  by_cases c1 : cap < contentIn
  · simp [c1] at h
  · by_cases c2 : cap < ZDICT_DICTSIZE_MIN
    · simp [c1, c2] at h
    · simp only [c1, c2, if_false] at h
      by_cases c3 : hSize + contentIn > cap
      · simp only [c3, if_true] at h
        by_cases c4 : cap - hSize < 8
        · simp only [c4, if_true] at h
          by_cases c5 : hSize + 8 > cap
          · simp [c5] at h
          · simp only [c5, if_false, Option.some.injEq, Prod.mk.injEq] at h
            obtain ⟨rfl, rfl, rfl⟩ := h
            refine ⟨rfl, ?_, ?_, ?_⟩ <;> omega
        · simp only [c4, if_false, Option.some.injEq, Prod.mk.injEq] at h
          obtain ⟨rfl, rfl, rfl⟩ := h
          refine ⟨by omega, ?_, ?_, ?_⟩ <;> omega
      · simp only [c3, if_false] at h
        by_cases c4 : contentIn < 8
        · simp only [c4, if_true] at h
          by_cases c5 : hSize + 8 > cap
          · simp [c5] at h
          · simp only [c5, if_false, Option.some.injEq, Prod.mk.injEq] at h
            obtain ⟨rfl, rfl, rfl⟩ := h
            refine ⟨rfl, ?_, ?_, ?_⟩ <;> omega
        · simp only [c4, if_false, Option.some.injEq, Prod.mk.injEq] at h
          obtain ⟨rfl, rfl, rfl⟩ := h
          refine ⟨by omega, ?_, ?_, ?_⟩ <;> omega

/-- **compliant_id_range**: the ID chosen for the caller is never 0 and lies in the range reserved for unregistered dictionaries -/
theorem compliant_id_range (x : Nat) : 32768 ≤ compliantID x ∧ compliantID x < 2 ^ 31 ∧ compliantID x ≠ 0 := by
  unfold compliantID
  have : x % (2 ^ 31 - 32768) < 2 ^ 31 - 32768 := Nat.mod_lt _ (by decide)
  have h31 : (2 : Nat) ^ 31 = 2147483648 := by decide
  omega

/-- **check_params_sound**: accepted cover parameters exclude every division by zero / empty segment of the trainer:
0 < d ≤ k ≤ capacity and 0 < splitPoint ≤ 1 -/
theorem check_params_sound (k d : Nat) (sn sd : Int) (cap : Nat) (h : coverParamsOk k d sn sd cap = true) :
    0 < d ∧ d ≤ k ∧ k ≤ cap ∧ 0 < sn ∧ sn ≤ sd := by
  unfold coverParamsOk at h
  simp only [Bool.and_eq_true, Bool.not_eq_true', Bool.or_eq_false_iff, decide_eq_false_iff_not, beq_eq_false_iff_ne] at h
  omega

theorem fast_params_sound (k d : Nat) (sn sd : Int) (cap f a : Nat) (h : fastCoverParamsOk k d sn sd cap f a = true) :
    (d = 6 ∨ d = 8) ∧ d ≤ k ∧ k ≤ cap ∧ 0 < f ∧ f ≤ 31 ∧ 0 < a ∧ a ≤ 10 := by
  unfold fastCoverParamsOk at h
  simp only [Bool.and_eq_true, Bool.or_eq_true, beq_iff_eq, decide_eq_true_eq] at h
  have := check_params_sound k d sn sd cap h.1.1.1.1.1
  omega

/-! ### epochs: what the build loops rely on -/

/-- **epochs_sound**: with accepted parameters (k > 0) and AT LEAST ONE d-mer, COVER_computeEpochs divides by nothing that is zero and
returns a non-empty tiling that stays inside the d-mer range: 0 < num, 0 < size, num * size ≤ nbDmers (the loop `epoch = (epoch+1) % num`
and the positions `epoch*size .. epoch*size+size` are in range) -/
theorem epochs_sound (cap n k passes : Nat) (hk : 0 < k) (hp : 0 < passes) (hn : 0 < n) :
    ∃ num size, computeEpochs cap n k passes = some (num, size) ∧ 0 < num ∧ 0 < size ∧ num * size ≤ n := by
  unfold computeEpochs
  have h0 : ¬ (k = 0 ∨ passes = 0) := by omega
  simp only [h0, if_false]
  by_cases h1 : k * 10 ≤ n / max 1 (cap / k / passes)
  · simp only [h1, if_true]
    refine ⟨_, _, rfl, ?_, ?_, ?_⟩
    · exact Nat.lt_of_lt_of_le Nat.zero_lt_one (Nat.le_max_left _ _)
    · omega
    · rw [Nat.mul_comm]; exact Nat.div_mul_le_self _ _
  · simp only [h1, if_false]
    have hs : 0 < min (k * 10) n := by
      rw [Nat.lt_min]; omega
    have hne : ¬ (min (k * 10) n = 0) := by omega
    simp only [hne, if_false]
    refine ⟨_, _, rfl, ?_, hs, ?_⟩
    · exact Nat.div_pos (Nat.min_le_right _ _) hs
    · exact Nat.div_mul_le_self _ _

/-- **epochs_need_a_dmer**: the precondition cannot be dropped - with no d-mer the function has no value (the C code divides by zero) -/
theorem epochs_need_a_dmer (cap k passes : Nat) : computeEpochs cap 0 k passes = none := by
  unfold computeEpochs
  by_cases h0 : k = 0 ∨ passes = 0
  · simp [h0]
  · have hk : 0 < k := by omega
    simp [h0]
    omega

/-- **dmer_count_pos**: a training part accepted by the size rule has at least one d-mer and all of them lie inside it
(a d-mer read takes max(d,8) bytes) - the hypothesis of `epochs_sound` -/
theorem dmer_count_pos (t d n : Nat) (h : dmerCount t d = some n) : 0 < n ∧ n - 1 + max d 8 ≤ t := by
  unfold dmerCount at h
  by_cases hc : t < max d 8
  · simp [hc] at h
  · simp only [hc, if_false, Option.some.injEq] at h
    omega

/-- **ctx_init_sound**: a context accepted by the size rules gives every build loop (any capacity, any accepted k, cover's 4 passes or
fastCover's 1) a well-defined, non-empty epoch tiling inside the training part -/
theorem ctx_init_sound (total t nbTrain nbTest d n cap k passes : Nat) (h : ctxInit total t nbTrain nbTest d = some n) (hk : 0 < k) (hp : 0 < passes) :
    5 ≤ nbTrain ∧ 1 ≤ nbTest ∧ n - 1 + max d 8 ≤ t ∧
    ∃ num size, computeEpochs cap n k passes = some (num, size) ∧ 0 < num ∧ 0 < size ∧ num * size ≤ n := by
  unfold ctxInit at h
  by_cases h1 : total < max d 8 ∨ 2 ^ 32 - 1 ≤ total
  · rw [if_pos h1] at h
    exact absurd h (by simp)
  · by_cases h2 : nbTrain < 5 ∨ nbTest < 1
    · rw [if_neg h1, if_pos h2] at h
      exact absurd h (by simp)
    · rw [if_neg h1, if_neg h2] at h
      have hd := dmer_count_pos t d n h
      exact ⟨by omega, by omega, hd.2, epochs_sound cap n k passes hk hp hd.1⟩

/-! ### the optimisers' result holder, for every schedule -/

/-- counter invariant: liveJobs = dispatched − finished, finished jobs were dispatched, no job finishes twice -/
def BInv (s : Best) : Prop :=
  s.live + s.finished.length = s.dispatched.length ∧ (∀ p ∈ s.finished, p.1 ∈ s.dispatched) ∧ (s.finished.map (·.1)).Nodup ∧ s.dispatched.Nodup

theorem binv_step (s s' : Best) (e : BEv) (h : BInv s) (hs : bstep s e = some s') : BInv s' := by
  obtain ⟨h1, h2, h3, h4⟩ := h
  cases e with
  | dispatch j =>
    simp only [bstep] at hs
    split at hs
    · cases hs
    · rename_i hj
      cases hs
      refine ⟨by simp; omega, ?_, h3, List.nodup_cons.mpr ⟨hj, h4⟩⟩
      intro p hp; exact List.mem_cons_of_mem _ (h2 p hp)
  | finish j size =>
    simp only [bstep] at hs
    split at hs
    · rename_i hc
      cases hs
      refine ⟨by simp; omega, ?_, ?_, h4⟩
      · intro p hp
        rw [List.mem_append] at hp
        rcases hp with hp | hp
        · exact h2 p hp
        · simp at hp; subst hp; exact hc.1
      · simp only [List.map_append, List.map_cons, List.map_nil]
        rw [List.nodup_append]
        refine ⟨h3, by simp, ?_⟩
        intro a ha b hb
        simp at hb; subst hb
        intro hab; subst hab
        exact hc.2.1 ha
    · cases hs
  | waitReturn =>
    simp only [bstep] at hs
    split at hs <;> cases hs
    exact ⟨h1, h2, h3, h4⟩

theorem binv_run (evs : List BEv) : ∀ s s', BInv s → brun s evs = some s' → BInv s' := by
  induction evs with
  | nil => intro s s' h hr; simp [brun] at hr; exact hr ▸ h
  | cons e es ih =>
    intro s s' h hr
    simp only [brun] at hr
    split at hr
    · rename_i s1 h1; exact ih s1 s' (binv_step s s1 e h h1) hr
    · cases hr

/-- **wait_sound**: on every schedule, when COVER_best_wait returns every dispatched job has finished - provided the dispatcher
counts a job in (COVER_best_start) BEFORE handing it over, which is what `dispatch` means; the optimiser may then destroy the
shared context -/
theorem wait_sound (evs : List BEv) (s : Best) (hr : brun {} evs = some s) (hw : (bstep s .waitReturn).isSome = true) :
    ∀ j ∈ s.dispatched, j ∈ s.finished.map (·.1) := by
  have hinv : BInv s := binv_run evs {} s (by simp [BInv]) hr
  obtain ⟨h1, h2, h3, h4⟩ := hinv
  have hl : s.live = 0 := by
    simp only [bstep] at hw
    split at hw
    · assumption
    · simp at hw
  -- finished ids form a duplicate-free sublist of dispatched of the same length: they cover it
  have hlen : (s.finished.map (·.1)).length = s.dispatched.length := by simp; omega
  have hsub : ∀ a ∈ s.finished.map (·.1), a ∈ s.dispatched := by
    intro a ha
    obtain ⟨p, hp, rfl⟩ := List.mem_map.mp ha
    exact h2 p hp
  intro j hj
  by_cases hnj : j ∈ s.finished.map (·.1)
  · exact hnj
  · exfalso
    -- the finished ids are a duplicate-free list inside dispatched.erase j, which is one shorter: impossible
    have hsub' : ∀ a ∈ s.finished.map (·.1), a ∈ s.dispatched.erase j := by
      intro a ha
      have hne : a ≠ j := fun h => hnj (h ▸ ha)
      exact (List.mem_erase_of_ne hne).mpr (hsub a ha)
    have hle := List.nodup_subset_length_le h3 hsub'
    rw [List.length_erase_of_mem hj] at hle
    have : 0 < s.dispatched.length := List.length_pos_of_mem hj
    omega

/-- **best_is_min**: on every schedule the size kept in the holder is a lower bound of every finished candidate's size and is the
size of one of them (which one among equals depends on the finishing order: only nbThreads ≤ 1 makes the choice deterministic) -/
theorem best_is_min (evs : List BEv) : ∀ (s s' : Best),
    (∀ p ∈ s.finished, ∃ b, s.best = some b ∧ b.1 ≤ p.2) → (∀ b, s.best = some b → (b.2, b.1) ∈ s.finished) →
    brun s evs = some s' →
    (∀ p ∈ s'.finished, ∃ b, s'.best = some b ∧ b.1 ≤ p.2) ∧ (∀ b, s'.best = some b → (b.2, b.1) ∈ s'.finished) := by
  induction evs with
  | nil => intro s s' h1 h2 hr; simp [brun] at hr; subst hr; exact ⟨h1, h2⟩
  | cons e es ih =>
    intro s s' h1 h2 hr
    simp only [brun] at hr
    split at hr
    · rename_i s1 hs1
      refine ih s1 s' ?_ ?_ hr
      · cases e with
        | dispatch j => simp only [bstep] at hs1; split at hs1 <;> cases hs1; exact h1
        | waitReturn => simp only [bstep] at hs1; split at hs1 <;> cases hs1; exact h1
        | finish j size =>
          simp only [bstep] at hs1
          split at hs1
          · cases hs1
            intro p hp
            rw [List.mem_append] at hp
            cases hb : s.best with
            | none =>
              simp only [hb]
              rcases hp with hp | hp
              · obtain ⟨b, hb', _⟩ := h1 p hp; rw [hb] at hb'; cases hb'
              · simp at hp; subst hp; exact ⟨(size, j), by simp, Nat.le_refl _⟩
            | some b0 =>
              obtain ⟨bs, bj⟩ := b0
              simp only [hb]
              have hold : ∀ q ∈ s.finished, bs ≤ q.2 := by
                intro q hq
                obtain ⟨b, hb', hle⟩ := h1 q hq
                rw [hb] at hb'; cases hb'; exact hle
              by_cases hlt : size < bs
              · simp only [hlt, decide_true, if_true]
                refine ⟨(size, j), rfl, ?_⟩
                rcases hp with hp | hp
                · have := hold p hp; simp; omega
                · simp at hp; subst hp; simp
              · simp only [hlt, decide_false]
                refine ⟨(bs, bj), by simp, ?_⟩
                rcases hp with hp | hp
                · exact hold p hp
                · simp at hp; subst hp; simp; omega
          · cases hs1
      · cases e with
        | dispatch j => simp only [bstep] at hs1; split at hs1 <;> cases hs1; exact h2
        | waitReturn => simp only [bstep] at hs1; split at hs1 <;> cases hs1; exact h2
        | finish j size =>
          simp only [bstep] at hs1
          split at hs1
          · cases hs1
            intro b hb
            cases hb0 : s.best with
            | none => simp [hb0] at hb; subst hb; simp
            | some b0 =>
              obtain ⟨bs, bj⟩ := b0
              simp only [hb0] at hb
              by_cases hlt : size < bs
              · simp [hlt] at hb; subst hb; simp
              · simp [hlt] at hb; subst hb
                exact List.mem_append_left _ (h2 _ hb0)
          · cases hs1
    · cases hr

/-! ### the legacy trainer's candidate table (ZDICT_insertDictItem, tied at function level by `dins`) -/

theorem insertFromEnd_length (e : DictItem) (rev : List DictItem) : (insertFromEnd e rev).length = rev.length + 1 := by
  induction rev with
  | nil => simp [insertFromEnd]
  | cons x rest ih =>
    unfold insertFromEnd
    split <;> simp [ih]

/-- **table_insert_bounded** (memory safety of the insertion): in a table of `maxSize ≥ 2` slots holding at most `maxSize - 1` entries besides slot 0, an insertion
leaves at most `maxSize - 1` entries: the new table->pos (entries + 1) is at most `maxSize`, every slot written has an index ≤ maxSize - 1 - also when the table
was full (the lowest-ranked entry is dropped, not pushed to slot `maxSize`). -/
theorem table_insert_bounded (maxSize : Nat) (t : List DictItem) (e : DictItem) (hm : 2 ≤ maxSize) :
    (insertItem maxSize t e).length + 1 ≤ maxSize ∧ (insertItem maxSize t e).length ≤ t.length + 1 ∧
    (t.length + 1 < maxSize → (insertItem maxSize t e).length = t.length + 1) := by
  unfold insertItem
  rw [List.length_reverse, insertFromEnd_length, List.length_reverse, List.length_take]
  refine ⟨by omega, by omega, by omega⟩

theorem table_insertAll_bounded (maxSize : Nat) (es : List DictItem) (hm : 2 ≤ maxSize) : (insertAll maxSize es).length + 1 ≤ maxSize := by
  unfold insertAll
  suffices h : ∀ (t : List DictItem), t.length + 1 ≤ maxSize → (es.foldl (insertItem maxSize) t).length + 1 ≤ maxSize from h [] (by simp; omega)
  induction es with
  | nil => intro t ht; simpa using ht
  | cons e rest ih => intro t _; exact ih _ (table_insert_bounded maxSize t e hm).1

theorem insertFromEnd_mem (e : DictItem) (rev : List DictItem) : e ∈ insertFromEnd e rev := by
  induction rev with
  | nil => simp [insertFromEnd]
  | cons x rest ih =>
    unfold insertFromEnd
    split
    · exact List.mem_cons_of_mem _ ih
    · exact List.mem_cons_self

/-- the new candidate is always in the table afterwards (it replaces the lowest-ranked entry of a full table even when it ranks lower still), and nothing else is
added: every other entry was there before -/
theorem table_insert_mem (maxSize : Nat) (t : List DictItem) (e : DictItem) :
    e ∈ insertItem maxSize t e ∧ ∀ x ∈ insertItem maxSize t e, x = e ∨ x ∈ t := by
  unfold insertItem
  refine ⟨List.mem_reverse.mpr (insertFromEnd_mem e _), ?_⟩
  intro x hx
  have hx' := List.mem_reverse.mp hx
  have key : ∀ (rev : List DictItem), x ∈ insertFromEnd e rev → x = e ∨ x ∈ rev := by
    intro rev
    induction rev with
    | nil => intro h; simp [insertFromEnd] at h; exact Or.inl h
    | cons y rest ih =>
      intro h
      unfold insertFromEnd at h
      split at h
      · rcases List.mem_cons.mp h with h | h
        · exact Or.inr (h ▸ List.mem_cons_self)
        · rcases ih h with h | h
          · exact Or.inl h
          · exact Or.inr (List.mem_cons_of_mem _ h)
      · rcases List.mem_cons.mp h with h | h
        · exact Or.inl h
        · exact Or.inr h
  rcases key _ hx' with h | h
  · exact Or.inl h
  · exact Or.inr (List.mem_of_mem_take (List.mem_reverse.mp h))

/-- rank order of the used slots: savings never increase from slot 1 on -/
def Ranked (t : List DictItem) : Prop := t.Pairwise (fun a b => b.savings ≤ a.savings)

theorem insertFromEnd_ascending (e : DictItem) (rev : List DictItem) (h : rev.Pairwise (fun a b => a.savings ≤ b.savings)) :
    (insertFromEnd e rev).Pairwise (fun a b => a.savings ≤ b.savings) := by
  induction rev with
  | nil => simp [insertFromEnd]
  | cons x rest ih =>
    have hx : ∀ y ∈ rest, x.savings ≤ y.savings := fun y hy => List.rel_of_pairwise_cons h hy
    have hr := List.Pairwise.of_cons h
    unfold insertFromEnd
    split
    · rename_i hlt
      refine List.pairwise_cons.mpr ⟨?_, ih hr⟩
      intro y hy
      have key : ∀ (l : List DictItem), y ∈ insertFromEnd e l → y = e ∨ y ∈ l := by
        intro l
        induction l with
        | nil => intro h; simp [insertFromEnd] at h; exact Or.inl h
        | cons z zs ihz =>
          intro h
          unfold insertFromEnd at h
          split at h
          · rcases List.mem_cons.mp h with h | h
            · exact Or.inr (h ▸ List.mem_cons_self)
            · rcases ihz h with h | h
              · exact Or.inl h
              · exact Or.inr (List.mem_cons_of_mem _ h)
          · rcases List.mem_cons.mp h with h | h
            · exact Or.inl h
            · exact Or.inr h
      rcases key rest hy with h | h
      · subst h; omega
      · exact hx y h
    · rename_i hge
      refine List.pairwise_cons.mpr ⟨?_, h⟩
      intro y hy
      rcases List.mem_cons.mp hy with h | h
      · subst h; omega
      · have := hx y h; omega

/-- **table_insert_ranked**: the insertion keeps the rank order (what the size limit and the content builder of the legacy trainer rely on: best segments first) -/
theorem table_insert_ranked (maxSize : Nat) (t : List DictItem) (e : DictItem) (h : Ranked t) : Ranked (insertItem maxSize t e) := by
  unfold Ranked insertItem
  rw [List.pairwise_reverse]
  apply insertFromEnd_ascending
  rw [List.pairwise_reverse]
  exact List.Pairwise.sublist (List.take_sublist _ _) h

example : (insertAll 4 [⟨0, 5⟩, ⟨1, 9⟩, ⟨2, 1⟩, ⟨3, 7⟩, ⟨4, 7⟩, ⟨5, 3⟩]).map (·.id) = [1, 3, 5] := by decide
example : (insertAll 2 [⟨0, 5⟩, ⟨1, 9⟩, ⟨2, 1⟩]).map (·.id) = [2] := by decide      -- one usable slot: the newest candidate always takes it

example : finalizeLayout 100 2950 3000 = some (3000, 0, 2900) ∧ finalizeLayout 100 3 3000 = some (108, 5, 3) ∧ finalizeLayout 100 50 104 = none := by decide
example : (brun {} [.dispatch 0, .dispatch 1, .finish 1 90, .finish 0 70, .waitReturn]).map (·.best) = some (some (70, 0)) := by decide
example : brun {} [.dispatch 0, .waitReturn] = none := by decide      -- the wait cannot return while a counted job is outstanding

end ZstdVerif.Props.C18
