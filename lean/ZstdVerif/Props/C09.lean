/-
C09 — truncation, size lies and checksum damage are reported, never accepted.
Part 1 (Lemmas/WalkerRT.lean, same namespace, audited with this file): the frame walker and the pledged-size bookkeeping.
Part 2 (below): the full decoder model accepts only what the walker accepts, so the truncation theorems hold of the decoder itself.
-/
-- audit-parts: ZstdVerif/Lemmas/WalkerRT.lean
import ZstdVerif.Lemmas.WalkerRT
import ZstdVerif.Lemmas.TruncRT
import ZstdVerif.Model.Params
namespace ZstdVerif.Props.C09
open ZstdVerif

/-! ### the FULL decoder model (Frame.decompressAll = ZSTD_decompress): truncation, trailing bytes and header lies are refused

`Lemmas/TruncRT.lean` proves that whatever the full decoder accepts, the frame walker accepts with the same extents
(`decompressFrame_walks`, `decompressAll_walks`); the walker theorems above therefore transfer to the decoder itself. -/

open Frame TruncRT in
/-- **decoder_rejects_truncation**: if the decoder accepts `src`, then for every cut `k` that is not a frame boundary of `src` the decoder
rejects the prefix `src[0,k)` - with ANY dictionary, capacity and options: never a (shorter) success -/
theorem decoder_rejects_truncation {src : Bytes} {dict : Dict} {cap : Nat} {o : Opts} {out : ByteArray} {traces : Array FrameTrace}
    (hml : o.magicless = false) (h : decompressAll src dict cap o = .ok (out, traces))
    {k : Nat} (hk : k ≤ src.size) (hnb : ¬ FrameBoundary traces k) (dict2 : Dict) (cap2 : Nat) (o2 : Opts) (hml2 : o2.magicless = false) :
    ∃ e, decompressAll (src.extract 0 k) dict2 cap2 o2 = .error e :=
  TruncRT.decoder_rejects_truncation hml h hk hnb dict2 cap2 o2 hml2

open Frame TruncRT in
/-- a single accepted frame: EVERY proper non-empty prefix is rejected -/
theorem decoder_rejects_truncation_single {src : Bytes} {dict : Dict} {cap : Nat} {o : Opts} {out : ByteArray} {traces : Array FrameTrace}
    (hml : o.magicless = false) (h : decompressAll src dict cap o = .ok (out, traces)) (h1 : traces.size = 1)
    {k : Nat} (hk0 : 0 < k) (hk : k < src.size) (dict2 : Dict) (cap2 : Nat) (o2 : Opts) (hml2 : o2.magicless = false) :
    ∃ e, decompressAll (src.extract 0 k) dict2 cap2 o2 = .error e :=
  TruncRT.decoder_rejects_truncation_single hml h h1 hk0 hk dict2 cap2 o2 hml2

open Frame TruncRT in
/-- **decoder_rejects_trailing_garbage**: bytes appended to an accepted input are accepted only if they are themselves a whole number of frames -/
theorem decoder_rejects_trailing_garbage {src junk : Bytes} {dict0 : Dict} {cap0 : Nat} {o0 : Opts} {out0 : ByteArray} {traces0 : Array FrameTrace}
    (hml0 : o0.magicless = false) (h0 : decompressAll src dict0 cap0 o0 = .ok (out0, traces0))
    (hj : 0 < junk.size) (hg : ∀ rem2, ∃ e, Walker.frameSize (oracle junk) 0 rem2 = .error e)
    (dict : Dict) (cap : Nat) (o : Opts) (hml : o.magicless = false) :
    ∃ e, decompressAll (src ++ junk) dict cap o = .error e :=
  TruncRT.decoder_rejects_non_frame_tail hml0 h0 hj hg dict cap o hml

open Frame TruncRT in
/-- **decoder_header_truthful**: a frame the decoder accepts regenerated exactly the content size its header announces, carries the XXH64-derived
checksum of what was regenerated (unless verification is switched off), and names the dictionary that was supplied -/
theorem decoder_header_truthful {src : Bytes} {ip0 rem : Nat} {dict : Dict} {out0 : ByteArray} {cap : Nat} {o : Opts}
    {out : ByteArray} {used : Nat} {tr : FrameTrace}
    (h : decompressFrame src ip0 rem dict out0 cap o = .ok (out, used, tr)) {hd : Header} (hh : getHeader src ip0 rem o.magicless = .ok hd) :
    (∀ n, hd.fcs = some n → out.size - out0.size = n) ∧
    (hd.checksum = true → o.ignoreChecksum = false →
      src.le32 (ip0 + used - 4) = (XXH64.hashRange out out0.size (out.size - out0.size)).toNat &&& 0xFFFFFFFF) ∧
    (hd.dictID ≠ 0 → dict.id = hd.dictID) :=
  ⟨fun _ hn => TruncRT.decoder_fcs_enforced h hh hn, fun hc hi => (TruncRT.decoder_checksum_enforced h hh hc hi).2.2,
   fun hn => TruncRT.decoder_dictID_enforced h hh hn⟩

/-! ### decoder parameters and validation: what a ZSTD_DCtx decodes with is a function of its parameter values (Model/Params.lean, rows regenerated
from the source, defaults read back from a fresh context; tied to the real ZSTD_DCtx_setParameter / ZSTD_DCtx_reset / ZSTD_DCtx_getParameter and to
the decoding verdicts by the decoder histories of tools/props/c09.py) -/

/-- value of decompression parameter `id` in a context of the parameter model (0 when the tree has no such parameter) -/
def dval (c : Params.Ctx) (id : Nat) : Int :=
  match Gen.dparams.findIdx? (·.id == id) with
  | some k => (c.vals[k]?).getD 0
  | none => 0

/-- the options the decoder runs with: ZSTD_d_format (1000), ZSTD_d_forceIgnoreChecksum (1002), ZSTD_d_maxBlockSize (1005) -/
def dOpts (c : Params.Ctx) : Frame.Opts :=
  { magicless := dval c 1000 == 1, ignoreChecksum := dval c 1002 != 0, maxBlockSize := (dval c 1005).toNat }

/-- **dctx_reset_restores_validation**: after ZSTD_DCtx_reset with `parameters` or `session_and_parameters` - whatever was set before - the decoder
runs with the options of a fresh context: standard format, checksum VERIFIED, no block-size limit, default window limit -/
theorem dctx_reset_restores_validation (s s' : Params.Ctx) (r : Params.Reset) (hr : r ≠ .session) (h : Params.reset Gen.dparams s r = .ok s') :
    s' = Params.fresh Gen.dparams ∧ (dOpts s').ignoreChecksum = false ∧ (dOpts s').magicless = false ∧ (dOpts s').maxBlockSize = 0 ∧
    dval s' 100 = dval (Params.fresh Gen.dparams) 100 := by
  have hs : s' = Params.fresh Gen.dparams := by
    cases r with
    | session => exact absurd rfl hr
    | parameters =>
      unfold Params.reset at h
      simp only at h
      split at h
      · cases h
      · cases h; rfl
    | sessionAndParameters =>
      unfold Params.reset at h
      cases h; rfl
  subst hs
  refine ⟨rfl, ?_, ?_, ?_, rfl⟩ <;> decide

open Frame TruncRT in
/-- hence a frame with a checksum that a context accepts after such a reset carries the XXH64-derived checksum of what was regenerated -/
theorem checksum_enforced_after_reset (s s' : Params.Ctx) (r : Params.Reset) (hr : r ≠ .session) (hreset : Params.reset Gen.dparams s r = .ok s')
    {src : Bytes} {ip0 rem : Nat} {dict : Dict} {out0 : ByteArray} {cap : Nat} {out : ByteArray} {used : Nat} {tr : FrameTrace}
    (h : decompressFrame src ip0 rem dict out0 cap (dOpts s') = .ok (out, used, tr)) {hd : Header}
    (hh : getHeader src ip0 rem (dOpts s').magicless = .ok hd) (hc : hd.checksum = true) :
    src.le32 (ip0 + used - 4) = (XXH64.hashRange out out0.size (out.size - out0.size)).toNat &&& 0xFFFFFFFF :=
  (decoder_header_truthful h hh).2.1 hc (dctx_reset_restores_validation s s' r hr hreset).2.1

end ZstdVerif.Props.C09
