/-
Helper lemmas on the workspace allocator model: a reservation sequence whose rounded sizes (+ two alignment gaps) fit
between the cursors never fails and never returns NULL for a non-empty request.
-/
import ZstdVerif.Model.Cwksp
set_option linter.unusedSimpArgs false
namespace ZstdVerif.Cwksp

theorem align_mul (k a : Nat) (ha : 0 < a) : align (k * a) a = k * a := by
  unfold align
  have : (k * a + (a - 1)) / a = k := by
    rw [Nat.mul_comm k a, Nat.mul_add_div ha]
    have : (a - 1) / a = 0 := Nat.div_eq_of_lt (by omega)
    omega
  rw [this]

theorem align_ge (n a : Nat) (ha : 0 < a) : n ≤ align n a := by
  unfold align
  have h1 := Nat.div_add_mod (n + (a - 1)) a
  have h2 := Nat.mod_lt (n + (a - 1)) ha
  have h3 : a * ((n + (a - 1)) / a) = (n + (a - 1)) / a * a := Nat.mul_comm _ _
  omega

theorem ldm_table_aligned (h : Nat) (h3 : 3 ≤ h) : align (2 ^ h * 8) 64 = 2 ^ h * 8 := by
  have : 2 ^ h * 8 = 2 ^ (h - 3) * 64 := by
    have : h = (h - 3) + 3 := by omega
    rw [this, Nat.pow_add]; simp; omega
  rw [this]; exact align_mul _ 64 (by decide)

theorem need_cons (r : Req) (rs : List Req) : need (r :: rs) = r.bytes + need rs := by
  simp [need]

theorem need_append (a b : List Req) : need (a ++ b) = need a + need b := by
  simp [need, List.sum_append]

/-- result summary of a run: not failed, no NULL for a non-empty request -/
def Clean (x : Ws × List (Nat × Nat) × Nat) : Prop := x.1.failed = false ∧ x.2.2 = 0

theorem run_cons_some (w w1 : Ws) (r : Req) (rs : List Req) (g : Nat × Nat) (h : step w r = (w1, some g)) :
    run w (r :: rs) = ((run w1 rs).1, g :: (run w1 rs).2.1, (run w1 rs).2.2) := by
  simp [run, h]

theorem run_cons_none (w w1 : Ws) (r : Req) (rs : List Req) (h : step w r = (w1, none)) :
    run w (r :: rs) = ((run w1 rs).1, (run w1 rs).2.1, if r.bytes = 0 then (run w1 rs).2.2 else (run w1 rs).2.2 + 1) := by
  simp [run, h]

/-- after the object phase: everything fits between tableEnd and allocStart -/
theorem run_clean_late (rs : List Req) : ∀ (w : Ws), (∀ r ∈ rs, isObject r = false) → 1 ≤ w.phase → w.failed = false →
    w.tableEnd + need rs ≤ w.allocStart → Clean (run w rs) := by
  induction rs with
  | nil => intro w _ _ hf _; exact ⟨hf, rfl⟩
  | cons r rs ih =>
    intro w hobj hph hf hfit
    have hrest : ∀ q ∈ rs, isObject q = false := fun q hq => hobj q (List.mem_cons_of_mem _ hq)
    have hr := hobj r (List.mem_cons_self ..)
    rw [need_cons] at hfit
    cases r with
    | object n => simp [isObject] at hr
    | table n =>
      have hlt : ¬ w.phase < 1 := by omega
      have hok : ¬ (w.tableEnd + n > w.allocStart) := by simp [Req.bytes] at hfit; omega
      have hs : step w (.table n) = ({ w with tableEnd := w.tableEnd + n }, some (w.tableEnd, n)) := by
        simp [step, hlt, hok]
      rw [run_cons_some _ _ _ _ _ hs]
      have := ih { w with tableEnd := w.tableEnd + n } hrest hph hf (by simp [Req.bytes] at hfit ⊢; omega)
      exact ⟨this.1, this.2⟩
    | aligned n io =>
      -- advance keeps the cursors when phase ≥ 1
      have hadv : ∀ ph, ∃ w1, advance w ph = some w1 ∧ w1.tableEnd = w.tableEnd ∧ w1.allocStart = w.allocStart ∧ 1 ≤ w1.phase ∧ w1.failed = w.failed := by
        intro ph
        unfold advance
        by_cases h1 : ph > w.phase
        · have h2 : ¬ (w.phase < 1 ∧ ph ≥ 1) := by omega
          simp only [h1, h2, if_true, if_false]
          exact ⟨_, rfl, rfl, rfl, by simp; omega, rfl⟩
        · simp only [h1, if_false]
          exact ⟨_, rfl, rfl, rfl, hph, rfl⟩
      obtain ⟨w1, ha, ht, hal, hp1, hf1⟩ := hadv (if io then 1 else 2)
      simp only [Req.bytes] at hfit
      by_cases hz : align n 64 = 0
      · have hs : step w (.aligned n io) = (w1, none) := by simp [step, reserveInternal, ha, hz]
        rw [run_cons_none _ _ _ _ hs]
        have := ih w1 hrest hp1 (by rw [hf1]; exact hf) (by rw [ht, hal]; omega)
        refine ⟨this.1, ?_⟩
        simp [Req.bytes, hz]; exact this.2
      · have hok : ¬ (w1.allocStart < w1.tableEnd + align n 64) := by rw [ht, hal]; omega
        have hs : step w (.aligned n io) = ({ w1 with allocStart := w1.allocStart - align n 64 }, some (w1.allocStart - align n 64, align n 64)) := by
          simp [step, reserveInternal, ha, hz, reserveDown, hok]
        rw [run_cons_some _ _ _ _ _ hs]
        have := ih { w1 with allocStart := w1.allocStart - align n 64 } hrest hp1 (by simp; rw [hf1]; exact hf) (by simp; rw [ht, hal]; omega)
        exact ⟨this.1, this.2⟩
    | buffer n =>
      have hadv : ∃ w1, advance w 3 = some w1 ∧ w1.tableEnd = w.tableEnd ∧ w1.allocStart = w.allocStart ∧ 1 ≤ w1.phase ∧ w1.failed = w.failed := by
        unfold advance
        by_cases h1 : 3 > w.phase
        · have h2 : ¬ (w.phase < 1 ∧ 3 ≥ 1) := by omega
          simp only [h1, h2, if_true, if_false]
          exact ⟨_, rfl, rfl, rfl, by simp, rfl⟩
        · simp only [h1, if_false]
          exact ⟨_, rfl, rfl, rfl, hph, rfl⟩
      obtain ⟨w1, ha, ht, hal, hp1, hf1⟩ := hadv
      simp only [Req.bytes] at hfit
      by_cases hz : n = 0
      · have hs : step w (.buffer n) = (w1, none) := by simp [step, reserveInternal, ha, hz]
        rw [run_cons_none _ _ _ _ hs]
        have := ih w1 hrest hp1 (by rw [hf1]; exact hf) (by rw [ht, hal]; omega)
        refine ⟨this.1, ?_⟩
        simp [Req.bytes, hz]; exact this.2
      · have hok : ¬ (w1.allocStart < w1.tableEnd + n) := by rw [ht, hal]; omega
        have hs : step w (.buffer n) = ({ w1 with allocStart := w1.allocStart - n }, some (w1.allocStart - n, n)) := by
          simp [step, reserveInternal, ha, hz, reserveDown, hok]
        rw [run_cons_some _ _ _ _ _ hs]
        have := ih { w1 with allocStart := w1.allocStart - n } hrest hp1 (by simp; rw [hf1]; exact hf) (by simp; rw [ht, hal]; omega)
        exact ⟨this.1, this.2⟩

theorem isObject_object (n : Nat) : isObject (.object n) = true := rfl
theorem isObject_table (n : Nat) : isObject (.table n) = false := rfl
theorem isObject_aligned (n : Nat) (b : Bool) : isObject (.aligned n b) = false := rfl
theorem isObject_buffer (n : Nat) : isObject (.buffer n) = false := rfl

/-- from the object phase: objects first, then one 64-byte alignment gap (≤ 63 bytes), then everything else -/
theorem run_clean_early (rs : List Req) : ∀ (w : Ws), objectsFirst rs = true → w.phase = 0 → w.tableEnd = w.objectEnd →
    w.allocStart ≤ w.hi → w.failed = false → w.objectEnd + 63 + need rs ≤ w.allocStart → Clean (run w rs) := by
  induction rs with
  | nil => intro w _ _ _ _ hf _; exact ⟨hf, rfl⟩
  | cons r rs ih =>
    intro w hof hph hte hah hf hfit
    rw [need_cons] at hfit
    -- the advance out of the object phase
    have hadv : ∀ ph, 1 ≤ ph → ∃ w1, advance w ph = some w1 ∧ w1.tableEnd ≤ w.objectEnd + 63 ∧ w1.allocStart = w.allocStart ∧ 1 ≤ w1.phase ∧ w1.failed = w.failed := by
      intro ph h1
      unfold advance
      have h2 : ph > w.phase := by omega
      have h3 : w.phase < 1 ∧ ph ≥ 1 := by omega
      have h4 : ¬ (w.objectEnd + (64 - w.objectEnd % 64) % 64 > w.hi) := by omega
      simp only [h2, h3, h4, if_true, if_false, and_self]
      exact ⟨_, rfl, by simp; omega, rfl, by simp; omega, rfl⟩
    cases r with
    | object n =>
      simp only [objectsFirst, isObject_object, if_true] at hof
      simp only [Req.bytes] at hfit
      have hok : ¬ (w.phase ≠ 0 ∨ w.objectEnd + align n 8 > w.hi) := by omega
      have hs : step w (.object n) = ({ w with objectEnd := w.objectEnd + align n 8, tableEnd := w.objectEnd + align n 8 }, some (w.objectEnd, align n 8)) := by
        simp only [step, hok, if_false]
      rw [run_cons_some _ _ _ _ _ hs]
      have := ih { w with objectEnd := w.objectEnd + align n 8, tableEnd := w.objectEnd + align n 8 } hof hph rfl hah hf (by simp; omega)
      exact ⟨this.1, this.2⟩
    | table n =>
      simp only [objectsFirst, isObject_table, isObject_aligned, isObject_buffer] at hof
      have hrest : ∀ q ∈ rs, isObject q = false := by
        intro q hq
        have h0 : rs.all (fun q => !isObject q) = true := by simpa using hof
        have := List.all_eq_true.mp h0 q hq
        simpa using this
      obtain ⟨w1, ha, ht, hal, hp1, hf1⟩ := hadv 1 (Nat.le_refl 1)
      simp only [Req.bytes] at hfit
      have hlt : w.phase < 1 := by omega
      have hok : ¬ (w1.tableEnd + n > w1.allocStart) := by rw [hal]; omega
      have hs : step w (.table n) = ({ w1 with tableEnd := w1.tableEnd + n }, some (w1.tableEnd, n)) := by
        simp [step, hlt, ha, hok]
      rw [run_cons_some _ _ _ _ _ hs]
      have := run_clean_late rs { w1 with tableEnd := w1.tableEnd + n } hrest hp1 (by simp; rw [hf1]; exact hf) (by simp; rw [hal]; omega)
      exact ⟨this.1, this.2⟩
    | aligned n io =>
      simp only [objectsFirst, isObject_table, isObject_aligned, isObject_buffer] at hof
      have hrest : ∀ q ∈ rs, isObject q = false := by
        intro q hq
        have h0 : rs.all (fun q => !isObject q) = true := by simpa using hof
        have := List.all_eq_true.mp h0 q hq
        simpa using this
      obtain ⟨w1, ha, ht, hal, hp1, hf1⟩ := hadv (if io then 1 else 2) (by split <;> omega)
      simp only [Req.bytes] at hfit
      by_cases hz : align n 64 = 0
      · have hs : step w (.aligned n io) = (w1, none) := by simp [step, reserveInternal, ha, hz]
        rw [run_cons_none _ _ _ _ hs]
        have := run_clean_late rs w1 hrest hp1 (by rw [hf1]; exact hf) (by rw [hal]; omega)
        refine ⟨this.1, ?_⟩
        simp [Req.bytes, hz]; exact this.2
      · have hok : ¬ (w1.allocStart < w1.tableEnd + align n 64) := by rw [hal]; omega
        have hs : step w (.aligned n io) = ({ w1 with allocStart := w1.allocStart - align n 64 }, some (w1.allocStart - align n 64, align n 64)) := by
          simp [step, reserveInternal, ha, hz, reserveDown, hok]
        rw [run_cons_some _ _ _ _ _ hs]
        have := run_clean_late rs { w1 with allocStart := w1.allocStart - align n 64 } hrest hp1 (by simp; rw [hf1]; exact hf) (by simp; rw [hal]; omega)
        exact ⟨this.1, this.2⟩
    | buffer n =>
      simp only [objectsFirst, isObject_table, isObject_aligned, isObject_buffer] at hof
      have hrest : ∀ q ∈ rs, isObject q = false := by
        intro q hq
        have h0 : rs.all (fun q => !isObject q) = true := by simpa using hof
        have := List.all_eq_true.mp h0 q hq
        simpa using this
      obtain ⟨w1, ha, ht, hal, hp1, hf1⟩ := hadv 3 (by omega)
      simp only [Req.bytes] at hfit
      by_cases hz : n = 0
      · have hs : step w (.buffer n) = (w1, none) := by simp [step, reserveInternal, ha, hz]
        rw [run_cons_none _ _ _ _ hs]
        have := run_clean_late rs w1 hrest hp1 (by rw [hf1]; exact hf) (by rw [hal]; omega)
        refine ⟨this.1, ?_⟩
        simp [Req.bytes, hz]; exact this.2
      · have hok : ¬ (w1.allocStart < w1.tableEnd + n) := by rw [hal]; omega
        have hs : step w (.buffer n) = ({ w1 with allocStart := w1.allocStart - n }, some (w1.allocStart - n, n)) := by
          simp [step, reserveInternal, ha, hz, reserveDown, hok]
        rw [run_cons_some _ _ _ _ _ hs]
        have := run_clean_late rs { w1 with allocStart := w1.allocStart - n } hrest hp1 (by simp; rw [hf1]; exact hf) (by simp; rw [hal]; omega)
        exact ⟨this.1, this.2⟩

/-- **the sizing rule**: in a fresh workspace of `size` bytes at ANY address, a sequence (objects first) whose rounded sizes add up to
at most size - 126 never fails: the two alignment gaps cost at most 63 bytes each. -/
theorem init_run_clean (lo size : Nat) (rs : List Req) (hof : objectsFirst rs = true) (hfit : need rs + 126 ≤ size) :
    Clean (run (init lo size) rs) := by
  apply run_clean_early rs (init lo size) hof rfl rfl
  · simp [init, initialAllocStart]
  · rfl
  · simp only [init, initialAllocStart]; omega

end ZstdVerif.Cwksp
