/-
FSE (tANS) round trip: the decoding table built by `FSE.cellsOf` (FSE_buildDTable_internal / ZSTD_buildFSETable_body) is the exact inverse
of the encoder `FSE.ctableOf` / `FSE.encodeSymbol` (FSE_buildCTable_wksp / FSE_encodeSymbol), for every normalised distribution and every
symbol spreading that respects the counts.
-/
import ZstdVerif.Model.FSEEnc
namespace ZstdVerif.FSE

/-! ### `[i]!` after `set!` / `push` -/

theorem getBang_set_eq {α} [Inhabited α] (a : Array α) (i : Nat) (v : α) (h : i < a.size) : (a.set! i v)[i]! = v := by
  grind

theorem getBang_set_ne {α} [Inhabited α] (a : Array α) (i j : Nat) (v : α) (h : i ≠ j) : (a.set! i v)[j]! = a[j]! := by
  grind

theorem getBang_push_lt {α} [Inhabited α] (a : Array α) (x : α) (i : Nat) (h : i < a.size) : (a.push x)[i]! = a[i]! := by
  grind

theorem getBang_push_eq {α} [Inhabited α] (a : Array α) (x : α) : (a.push x)[a.size]! = x := by
  grind

/-! ### pure arithmetic -/

/-- a state of `L+1` bits shifted right by `k ≤ L` bits has `L-k+1` bits -/
theorem log2_shift {L y k : Nat} (hy : 2 ^ L ≤ y) (hy2 : y < 2 ^ (L + 1)) (hk : k ≤ L) :
    Nat.log2 (y / 2 ^ k) = L - k ∧ 2 ^ L ≤ y / 2 ^ k * 2 ^ k := by
  have hp : 0 < 2 ^ k := Nat.two_pow_pos k
  have e1 : 2 ^ (L - k) * 2 ^ k = 2 ^ L := by rw [← Nat.pow_add]; congr 1; omega
  have e2 : 2 ^ (L - k + 1) * 2 ^ k = 2 ^ (L + 1) := by rw [← Nat.pow_add]; congr 1; omega
  have h1 : 2 ^ (L - k) ≤ y / 2 ^ k := (Nat.le_div_iff_mul_le hp).2 (by omega)
  have h2 : y / 2 ^ k < 2 ^ (L - k + 1) := (Nat.div_lt_iff_lt_mul hp).2 (by omega)
  have h0 : y / 2 ^ k ≠ 0 := by have := Nat.two_pow_pos (L - k); omega
  refine ⟨(Nat.log2_eq_iff h0).2 ⟨h1, h2⟩, ?_⟩
  calc 2 ^ L = 2 ^ (L - k) * 2 ^ k := e1.symm
    _ ≤ y / 2 ^ k * 2 ^ k := Nat.mul_le_mul_right _ h1

/-- two different shifts cannot both land in `[c, 2c)` -/
theorem tile_unique {c y j k : Nat} (hj : c ≤ y / 2 ^ j ∧ y / 2 ^ j < 2 * c) (hk : c ≤ y / 2 ^ k ∧ y / 2 ^ k < 2 * c) :
    j = k := by
  have key : ∀ a b : Nat, a < b → c ≤ y / 2 ^ b → ¬ y / 2 ^ a < 2 * c := by
    intro a b hab hb
    have e : 2 ^ b = 2 ^ a * 2 * 2 ^ (b - a - 1) := by
      rw [Nat.mul_assoc, ← Nat.pow_succ', ← Nat.pow_add]; congr 1; omega
    have h1 : c * 2 ^ b ≤ y := (Nat.le_div_iff_mul_le (Nat.two_pow_pos b)).1 hb
    have h2 : 2 * c * 2 ^ a ≤ c * 2 ^ b := by
      rw [e]
      have : 1 ≤ 2 ^ (b - a - 1) := Nat.two_pow_pos _
      calc 2 * c * 2 ^ a = c * (2 ^ a * 2) * 1 := by rw [Nat.mul_one, Nat.mul_comm 2 c, Nat.mul_assoc, Nat.mul_comm 2]
        _ ≤ c * (2 ^ a * 2) * 2 ^ (b - a - 1) := Nat.mul_le_mul_left _ this
        _ = c * (2 ^ a * 2 * 2 ^ (b - a - 1)) := by rw [Nat.mul_assoc]
    have h3 : 2 * c ≤ y / 2 ^ a := (Nat.le_div_iff_mul_le (Nat.two_pow_pos a)).2 (Nat.le_trans h2 h1)
    omega
  rcases Nat.lt_trichotomy j k with h | h | h
  · exact absurd hj.2 (key j k h hk.1)
  · exact h
  · exact absurd hk.2 (key k j h hj.1)

/-- the number of bits FSE_encodeSymbol flushes for a symbol of count `c` in state `S` (`2^L ≤ S < 2^(L+1)`):
`L` for `c = 1`; otherwise `maxBitsOut = L - highbit(c-1)`, or one less when `S < c << maxBitsOut` -/
def encNb (L c S : Nat) : Nat :=
  if c = 1 then L else
    let m := L - Nat.log2 (c - 1)
    if c * 2 ^ m ≤ S then m else m - 1

/-- facts about `maxBitsOut` and `minStatePlus` for a count `c ≥ 2` -/
theorem maxBitsOut_facts {L c : Nat} (hc : 2 ≤ c) (hcL : c ≤ 2 ^ L) :
    1 ≤ L - Nat.log2 (c - 1) ∧ L - Nat.log2 (c - 1) ≤ L ∧ 2 ^ L < c * 2 ^ (L - Nat.log2 (c - 1)) ∧
      c * 2 ^ (L - Nat.log2 (c - 1)) ≤ 2 ^ (L + 1) ∧ 2 * 2 ^ (L - Nat.log2 (c - 1) - 1) = 2 ^ (L - Nat.log2 (c - 1)) ∧
      c * 2 ^ (L - Nat.log2 (c - 1) - 1) ≤ 2 ^ L ∧ 2 ^ (L + 1) ≤ 2 * c * 2 ^ (L - Nat.log2 (c - 1)) := by
  have h0 : c - 1 ≠ 0 := by omega
  have l1 : 2 ^ Nat.log2 (c - 1) ≤ c - 1 := Nat.log2_self_le h0
  have l2 : c - 1 < 2 ^ (Nat.log2 (c - 1) + 1) := Nat.lt_log2_self
  generalize Nat.log2 (c - 1) = h at *
  have hL : h < L := (Nat.pow_lt_pow_iff_right (by omega : 1 < 2)).1 (by omega)
  have e1 : 2 ^ h * 2 ^ (L - h) = 2 ^ L := by rw [← Nat.pow_add]; congr 1; omega
  have e2 : 2 ^ (h + 1) * 2 ^ (L - h) = 2 ^ (L + 1) := by rw [← Nat.pow_add]; congr 1; omega
  have e3 : 2 * 2 ^ (L - h - 1) = 2 ^ (L - h) := by rw [← Nat.pow_succ']; congr 1; omega
  have e4 : 2 ^ (h + 1) * 2 ^ (L - h - 1) = 2 ^ L := by rw [← Nat.pow_add]; congr 1; omega
  have p0 : 0 < 2 ^ (L - h) := Nat.two_pow_pos _
  have a1 : (2 ^ h + 1) * 2 ^ (L - h) ≤ c * 2 ^ (L - h) := Nat.mul_le_mul_right _ (by omega)
  have a2 : c * 2 ^ (L - h) ≤ 2 ^ (h + 1) * 2 ^ (L - h) := Nat.mul_le_mul_right _ (by omega)
  have a3 : c * 2 ^ (L - h - 1) ≤ 2 ^ (h + 1) * 2 ^ (L - h - 1) := Nat.mul_le_mul_right _ (by omega)
  have a4 : 2 ^ (h + 1) * 2 ^ (L - h) ≤ 2 * c * 2 ^ (L - h) := Nat.mul_le_mul_right _ (by rw [Nat.pow_succ]; omega)
  rw [Nat.add_mul, Nat.one_mul] at a1
  refine ⟨by omega, by omega, by omega, by omega, e3, by omega, by omega⟩

/-- the encoder's bit count brings the state into the interval `[c, 2c)` of the symbol -/
theorem encNb_spec {L c S : Nat} (hc : 1 ≤ c) (hcL : c ≤ 2 ^ L) (hS : 2 ^ L ≤ S) (hS2 : S < 2 ^ (L + 1)) :
    encNb L c S ≤ L ∧ c ≤ S / 2 ^ encNb L c S ∧ S / 2 ^ encNb L c S < 2 * c := by
  unfold encNb
  by_cases h1 : c = 1
  · subst h1
    simp only [if_true]
    have : S / 2 ^ L = 1 := by
      have a : 1 ≤ S / 2 ^ L := (Nat.le_div_iff_mul_le (Nat.two_pow_pos L)).2 (by omega)
      have b : S / 2 ^ L < 2 := (Nat.div_lt_iff_lt_mul (Nat.two_pow_pos L)).2 (by rw [Nat.pow_succ] at hS2; omega)
      omega
    omega
  · simp only [if_neg h1]
    obtain ⟨m1, m2, p1, p2, e3, p3, p4⟩ := maxBitsOut_facts (by omega : 2 ≤ c) hcL
    generalize L - Nat.log2 (c - 1) = m at *
    by_cases h2 : c * 2 ^ m ≤ S
    · simp only [if_pos h2]
      exact ⟨m2, (Nat.le_div_iff_mul_le (Nat.two_pow_pos m)).2 h2, (Nat.div_lt_iff_lt_mul (Nat.two_pow_pos m)).2 (by omega)⟩
    · simp only [if_neg h2]
      refine ⟨by omega, (Nat.le_div_iff_mul_le (Nat.two_pow_pos _)).2 (by omega), (Nat.div_lt_iff_lt_mul (Nat.two_pow_pos _)).2 ?_⟩
      rw [Nat.mul_comm 2 c, Nat.mul_assoc, e3]; omega

/-- KEY LEMMA.  For a count `1 ≤ c ≤ 2^L` and a state `2^L ≤ y < 2^(L+1)` exactly one shift `k` brings the state into the interval
`[c, 2c)` of the symbol; it is the number of bits the encoder flushes (`encNb`: FSE_encodeSymbol's `(state + deltaNbBits) >> 16`), and
it equals the decoder's `nbBits = L - highbit(nextState)` for the cell `nextState = y >> k`. -/
theorem tile {L c y : Nat} (hc : 1 ≤ c) (hcL : c ≤ 2 ^ L) (hy : 2 ^ L ≤ y) (hy2 : y < 2 ^ (L + 1)) :
    ∃ k, k ≤ L ∧ (c ≤ y / 2 ^ k ∧ y / 2 ^ k < 2 * c) ∧ k = encNb L c y ∧ k = L - Nat.log2 (y / 2 ^ k) ∧
      ∀ j, (c ≤ y / 2 ^ j ∧ y / 2 ^ j < 2 * c) → j = k := by
  obtain ⟨h1, h2, h3⟩ := encNb_spec hc hcL hy hy2
  refine ⟨encNb L c y, h1, ⟨h2, h3⟩, rfl, ?_, fun j hj => tile_unique hj ⟨h2, h3⟩⟩
  rw [(log2_shift hy hy2 h1).1]; omega

/-! ### counting occurrences in the spreading -/

/-- `rank l u`: how many earlier positions hold the same symbol as position `u` -/
def rank (l : List Nat) (u : Nat) : Nat := (l.take u).count l[u]!

theorem rank_lt_count {l : List Nat} {u : Nat} (hu : u < l.length) : rank l u < l.count l[u]! := by
  unfold rank
  generalize hx : l[u]! = x
  have h : l = l.take u ++ x :: l.drop (u + 1) := by subst hx; simp [hu]
  have h2 := congrArg (List.count x) h
  rw [List.count_append, List.count_cons_self] at h2
  omega

theorem rank_lt_rank {l : List Nat} {v w : Nat} (hvw : v < w) (hw : w < l.length) (he : l[v]! = l[w]!) : rank l v < rank l w := by
  have h := rank_lt_count (l := l.take w) (u := v) (by simp; omega)
  unfold rank at *
  have e1 : (l.take w)[v]! = l[v]! := by simp [hvw]
  have e2 : (l.take w).take v = l.take v := by rw [List.take_take]; congr 1; omega
  rw [e1, e2] at h
  rw [← he]; exact h

/-- the `r`-th occurrence (0-based) of a symbol exists when the symbol occurs more than `r` times -/
theorem exists_rank {l : List Nat} {s r : Nat} (h : r < l.count s) : ∃ u, u < l.length ∧ l[u]! = s ∧ rank l u = r := by
  induction l generalizing r with
  | nil => simp at h
  | cons a t ih =>
    rw [List.count_cons] at h
    by_cases ha : a = s
    · subst ha
      cases r with
      | zero => exact ⟨0, by simp, by simp, by simp [rank]⟩
      | succ r =>
        obtain ⟨u, hu, hs, hr⟩ := ih (r := r) (by simpa using h)
        refine ⟨u + 1, by simp; omega, by simpa using hs, ?_⟩
        unfold rank at *
        simp only [List.getElem!_cons_succ, List.take_succ_cons, hs] at hr ⊢
        rw [List.count_cons_self, hr]
    · have hb : (a == s) = false := by simpa using ha
      obtain ⟨u, hu, hs, hr⟩ := ih (r := r) (by simpa [hb] using h)
      refine ⟨u + 1, by simp; omega, by simpa using hs, ?_⟩
      unfold rank at *
      simp only [List.getElem!_cons_succ, List.take_succ_cons, hs] at hr ⊢
      rw [List.count_cons, hr]; simp [hb]

/-! ### distributions and spreadings -/

/-- `startOf norm s`: number of table cells owned by the symbols below `s` (`cumul[s]` of FSE_buildCTable_wksp) -/
def startOf (norm : Array Int) (s : Nat) : Nat := ((List.range s).map (cnt norm)).sum

theorem startOf_succ (norm : Array Int) (s : Nat) : startOf norm (s + 1) = startOf norm s + cnt norm s := by
  simp [startOf, List.range_succ]

theorem startOf_mono {norm : Array Int} {t s : Nat} (h : t < s) : startOf norm t + cnt norm t ≤ startOf norm s := by
  induction s with
  | zero => omega
  | succ s ih =>
    rw [startOf_succ]
    by_cases e : t = s
    · subst e; omega
    · have := ih (by omega); omega

/-- a normalised distribution for a table of `2^log` cells: counts `≥ -1` (-1 = "less than one", owns one cell) whose cells add up
to the table size.  `1 ≤ log` is needed (for `log = 0` the U32 `deltaNbBits = (0 << 16) - 1` wraps around). -/
def NormOK (norm : Array Int) (log : Nat) : Prop :=
  1 ≤ log ∧ (∀ s, s < norm.size → -1 ≤ norm[s]!) ∧ startOf norm norm.size = 2 ^ log

instance (norm : Array Int) (log : Nat) : Decidable (NormOK norm log) := by unfold NormOK; infer_instance

/-- `syms` (the symbol of every table position) respects the distribution: `2^log` positions, every position holds a symbol of the
alphabet, every symbol `s` occurs exactly `norm[s]` times (once when `norm[s] = -1`, never when `norm[s] = 0`) -/
def SpreadOK (syms : Array Nat) (norm : Array Int) (log : Nat) : Prop :=
  syms.size = 2 ^ log ∧ (∀ u, u < syms.size → syms[u]! < norm.size) ∧ (∀ s, s < norm.size → syms.toList.count s = cnt norm s)

instance (syms : Array Nat) (norm : Array Int) (log : Nat) : Decidable (SpreadOK syms norm log) := by unfold SpreadOK; infer_instance

/-- a pass over the positions that bumps one counter per position adds the number of occurrences -/
theorem foldl_bump (l : List Nat) (a : Array Nat) :
    (l.foldl (fun (h : Array Nat) s => h.set! s (h[s]! + 1)) a).size = a.size ∧
      ∀ s, s < a.size → (l.foldl (fun (h : Array Nat) s => h.set! s (h[s]! + 1)) a)[s]! = a[s]! + l.count s := by
  induction l generalizing a with
  | nil => simp
  | cons x t ih =>
    obtain ⟨h1, h2⟩ := ih (a.set! x (a[x]! + 1))
    simp only [List.foldl_cons]
    refine ⟨by rw [h1]; simp, fun s hs => ?_⟩
    rw [h2 s (by simpa using hs), List.count_cons]
    by_cases e : x = s
    · subst e; simp [hs]; omega
    · have : (x == s) = false := by simpa using e
      simp [this, hs]; grind

theorem nextInit_size (norm : Array Int) : (nextInit norm).size = norm.size := by simp [nextInit]

theorem nextInit_get {norm : Array Int} {s : Nat} (hs : s < norm.size) : (nextInit norm)[s]! = cnt norm s := by
  simp [nextInit, cnt, hs]

theorem histOf_spec (n : Nat) (syms : Array Nat) :
    (histOf n syms).size = n ∧ ∀ s, s < n → (histOf n syms)[s]! = syms.toList.count s := by
  unfold histOf
  rw [← Array.foldl_toList]
  obtain ⟨h1, h2⟩ := foldl_bump syms.toList (Array.replicate n 0)
  refine ⟨by simpa using h1, fun s hs => ?_⟩
  rw [h2 s (by simpa using hs)]; simp [hs]

/-- the run-time check `spreadOK` (Model/FSEEnc.lean) decides `SpreadOK` -/
theorem spreadOK_iff (syms : Array Nat) (norm : Array Int) (log : Nat) : spreadOK syms norm log = true ↔ SpreadOK syms norm log := by
  obtain ⟨h1, h2⟩ := histOf_spec norm.size syms
  unfold spreadOK SpreadOK
  simp only [Bool.and_eq_true, beq_iff_eq, Array.all_eq_true]
  constructor
  · rintro ⟨⟨a, b⟩, c⟩
    refine ⟨a, fun u hu => ?_, fun s hs => ?_⟩
    · have := b u hu; simpa [hu] using this
    · rw [← h2 s hs, c, nextInit_get hs]
  · rintro ⟨a, b, c⟩
    refine ⟨⟨a, fun u hu => ?_⟩, ?_⟩
    · have := b u hu; simpa [hu] using this
    · apply Array.ext
      · rw [h1, nextInit_size]
      · intro i hi1 hi2
        have hi : i < norm.size := by omega
        have e1 := h2 i hi
        have e2 := nextInit_get hi
        simp only [getElem!_pos, hi1, hi2] at e1 e2
        rw [e1, e2, c i hi]

/-! ### the decoding table, cell by cell -/

/-- the decoding cell of a position holding symbol `s` whose `symbolNext` counter stands at `ns` -/
def cellAt (L s ns : Nat) : Cell :=
  { sym := s, nbBits := L - highbit ns, newState := (ns <<< (L - highbit ns)) - (1 <<< L) }

theorem cells_fold (L : Nat) (l : List Nat) (nx : Array Nat) (cells : Array Cell) :
    (l.foldl (cellStep L) (nx, cells)).2.size = cells.size + l.length ∧
    (∀ i, i < cells.size → (l.foldl (cellStep L) (nx, cells)).2[i]! = cells[i]!) ∧
    ∀ i, i < l.length → l[i]! < nx.size →
      (l.foldl (cellStep L) (nx, cells)).2[cells.size + i]! = cellAt L l[i]! (nx[l[i]!]! + (l.take i).count l[i]!) := by
  induction l generalizing nx cells with
  | nil => simp
  | cons x t ih =>
    obtain ⟨h1, h2, h3⟩ := ih (nx.set! x (nx[x]! + 1)) (cells.push (cellAt L x nx[x]!))
    simp only [List.foldl_cons]
    have e : cellStep L (nx, cells) x = (nx.set! x (nx[x]! + 1), cells.push (cellAt L x nx[x]!)) := rfl
    rw [e]
    refine ⟨by rw [h1]; simp; omega, fun i hi => ?_, fun i hi hx => ?_⟩
    · rw [h2 i (by simp; omega), getBang_push_lt _ _ _ hi]
    · cases i with
      | zero =>
        rw [h2 _ (by simp)]; simp only [Nat.add_zero]; rw [getBang_push_eq]; simp
      | succ j =>
        have hj : j < t.length := by simpa using hi
        have hx2 : t[j]! < (nx.set! x (nx[x]! + 1)).size := by simpa using hx
        have := h3 j hj hx2
        simp only [Array.size_push] at this
        rw [show cells.size + (j + 1) = cells.size + 1 + j by omega, this]
        simp only [List.getElem!_cons_succ, List.take_succ_cons, List.count_cons]
        congr 1
        have hx3 : t[j]! < nx.size := by simpa using hx
        by_cases e : x = t[j]!
        · rw [← e, getBang_set_eq _ _ _ (by rw [e]; exact hx3)]; simp; omega
        · have : (x == t[j]!) = false := by simpa using e
          rw [getBang_set_ne _ _ _ _ e]; simpa using e

theorem cellsOf_size (syms : Array Nat) (norm : Array Int) (L : Nat) : (cellsOf syms norm L).size = syms.size := by
  unfold cellsOf
  rw [← Array.foldl_toList]
  have := (cells_fold L syms.toList (nextInit norm) (Array.mkEmpty syms.size)).1
  simpa using this

/-- the cell of position `u`: its symbol `s = syms[u]`, and the state `norm[s] + rank u` -/
theorem cellsOf_get {syms : Array Nat} {norm : Array Int} {L u : Nat} (hu : u < syms.size) (hs : syms[u]! < norm.size) :
    (cellsOf syms norm L)[u]! = cellAt L syms[u]! (cnt norm syms[u]! + rank syms.toList u) := by
  unfold cellsOf
  rw [← Array.foldl_toList]
  have e : syms.toList[u]! = syms[u]! := by simp [hu]
  have := (cells_fold L syms.toList (nextInit norm) (Array.mkEmpty syms.size)).2.2 u (by simpa using hu)
    (by rw [e, nextInit_size]; exact hs)
  rw [e] at this
  have hz : (Array.mkEmpty syms.size : Array Cell).size = 0 := by simp
  rw [hz, Nat.zero_add] at this
  rw [this, nextInit_get hs]; simp [rank, hu]

/-! ### the compression table, entry by entry -/

theorem cumul_fold (norm : Array Int) (k : Nat) :
    ((List.range k).foldl (fun (cum : Array Nat) u => cum.push (cum[u]! + cnt norm u)) #[0]).size = k + 1 ∧
    ∀ i, i ≤ k → ((List.range k).foldl (fun (cum : Array Nat) u => cum.push (cum[u]! + cnt norm u)) #[0])[i]! = startOf norm i := by
  induction k with
  | zero => refine ⟨by simp, fun i hi => ?_⟩; have : i = 0 := by omega
            subst this; simp [startOf]
  | succ k ih =>
    obtain ⟨h1, h2⟩ := ih
    rw [List.range_succ, List.foldl_append]
    simp only [List.foldl_cons, List.foldl_nil]
    refine ⟨by rw [Array.size_push, h1], fun i hi => ?_⟩
    by_cases e : i = k + 1
    · subst e
      rw [← h1, getBang_push_eq, h1, h2 k (by omega), startOf_succ]
    · rw [getBang_push_lt _ _ _ (by omega), h2 i (by omega)]

theorem cumulOf_spec (norm : Array Int) (L : Nat) :
    (cumulOf norm L).size = norm.size + 1 ∧ ∀ s, s < norm.size → (cumulOf norm L)[s]! = startOf norm s := by
  obtain ⟨h1, h2⟩ := cumul_fold norm norm.size
  unfold cumulOf
  refine ⟨by simp [h1], fun s hs => ?_⟩
  rw [getBang_set_ne _ _ _ _ (by omega), h2 s (by omega)]

theorem tt_fold (norm : Array Int) (L n k : Nat) :
    ((List.range k).foldl (ttStep norm L) (0, Array.mkEmpty n)).1 = startOf norm k ∧
    ((List.range k).foldl (ttStep norm L) (0, Array.mkEmpty n)).2.size = k ∧
    ∀ s, s < k → ((List.range k).foldl (ttStep norm L) (0, Array.mkEmpty n)).2[s]! = symTTOf norm L (startOf norm s) s := by
  induction k with
  | zero => simp [startOf]
  | succ k ih =>
    obtain ⟨h0, h1, h2⟩ := ih
    rw [List.range_succ, List.foldl_append]
    simp only [List.foldl_cons, List.foldl_nil]
    generalize List.foldl (ttStep norm L) (0, Array.mkEmpty n) (List.range k) = r at *
    obtain ⟨tot, arr⟩ := r
    simp only [ttStep] at *
    subst h0
    refine ⟨by rw [startOf_succ], by rw [Array.size_push, h1], fun s hs => ?_⟩
    by_cases e : s = k
    · subst e
      subst h1
      rw [getBang_push_eq]
    · rw [getBang_push_lt _ _ _ (by omega), h2 s (by omega)]

theorem symbolTTOf_get {norm : Array Int} {L s : Nat} (hs : s < norm.size) :
    (symbolTTOf norm L)[s]! = symTTOf norm L (startOf norm s) s :=
  (tt_fold norm L norm.size norm.size).2.2 s hs

/-- what `SpreadOK` and `NormOK` say about the list of symbols -/
structure ListOK (l : List Nat) (norm : Array Int) (N : Nat) : Prop where
  len : l.length = N
  sym : ∀ u, u < l.length → l[u]! < norm.size
  count : ∀ s, s < norm.size → l.count s = cnt norm s
  total : startOf norm norm.size = N

/-- the slot of position `u` in `tableU16[]` lies inside the table -/
theorem idx_lt {l : List Nat} {norm : Array Int} {N u : Nat} (ok : ListOK l norm N) (hu : u < l.length) :
    rank l u < cnt norm l[u]! ∧ startOf norm l[u]! + rank l u < N := by
  have h1 := rank_lt_count hu
  have h2 := ok.sym u hu
  rw [ok.count _ h2] at h1
  have h3 := startOf_mono (norm := norm) h2
  have h4 := ok.total
  omega

/-- different positions have different slots in `tableU16[]` -/
theorem idx_inj {l : List Nat} {norm : Array Int} {N v w : Nat} (ok : ListOK l norm N) (hvw : v < w) (hw : w < l.length) :
    startOf norm l[v]! + rank l v ≠ startOf norm l[w]! + rank l w := by
  by_cases e : l[v]! = l[w]!
  · have := rank_lt_rank hvw hw e
    rw [e]; omega
  · have a := idx_lt ok hw
    have b := idx_lt ok (show v < l.length by omega)
    rcases Nat.lt_or_gt_of_ne e with h | h
    · have := startOf_mono (norm := norm) h; omega
    · have := startOf_mono (norm := norm) h; omega

/-- loop invariant of "Build table" after the positions `pre` -/
def StInv (l : List Nat) (norm : Array Int) (N : Nat) (pre : List Nat) (st : Nat × Array Nat × Array Nat) : Prop :=
  st.1 = pre.length ∧ st.2.1.size = norm.size + 1 ∧ st.2.2.size = N ∧
    (∀ s, s < norm.size → st.2.1[s]! = startOf norm s + pre.count s) ∧
    (∀ v, v < pre.length → st.2.2[startOf norm l[v]! + rank l v]! = (N + v) % 65536)

theorem stStep_inv {l : List Nat} {norm : Array Int} {N : Nat} (ok : ListOK l norm N) {pre : List Nat} {x : Nat} {t : List Nat}
    (hl : l = pre ++ x :: t) {st : Nat × Array Nat × Array Nat} (inv : StInv l norm N pre st) :
    StInv l norm N (pre ++ [x]) (stStep N st x) := by
  obtain ⟨i1, i2, i3, i4, i5⟩ := inv
  have hk : pre.length < l.length := by rw [hl]; simp
  have hx : l[pre.length]! = x := by rw [hl]; simp
  have hxn : x < norm.size := by rw [← hx]; exact ok.sym _ hk
  have hr : rank l pre.length = pre.count x := by
    unfold rank; rw [hx, hl]; simp
  have hlt := idx_lt ok hk
  rw [hx, hr] at hlt
  have hc : st.2.1[x]! = startOf norm x + pre.count x := i4 x hxn
  unfold stStep
  refine ⟨by simp [i1], by simp [i2], by simp [i3], fun s hs => ?_, fun v hv => ?_⟩
  · simp only []
    rw [List.count_append]
    by_cases e : x = s
    · subst e; rw [getBang_set_eq _ _ _ (by omega), hc]; simp; omega
    · rw [getBang_set_ne _ _ _ _ e, i4 s hs]
      have : (x == s) = false := by simpa using e
      simp [List.count_cons, this]
  · simp only []
    rw [hc]
    by_cases e : v = pre.length
    · subst e
      rw [hx, hr, getBang_set_eq _ _ _ (by omega), i1]
    · have hv2 : v < pre.length := by simp at hv; omega
      have := idx_inj ok hv2 hk
      rw [hx, hr] at this
      rw [getBang_set_ne _ _ _ _ (Ne.symm this), i5 v hv2]

theorem st_fold {l : List Nat} {norm : Array Int} {N : Nat} (ok : ListOK l norm N) (suf pre : List Nat)
    (st : Nat × Array Nat × Array Nat) (hl : l = pre ++ suf) (inv : StInv l norm N pre st) :
    StInv l norm N l (suf.foldl (stStep N) st) := by
  induction suf generalizing pre st with
  | nil => simp at hl; subst hl; exact inv
  | cons x t ih =>
    simp only [List.foldl_cons]
    exact ih (pre ++ [x]) _ (by simp [hl]) (stStep_inv ok hl inv)

theorem listOK_of {syms : Array Nat} {norm : Array Int} {L : Nat} (hN : NormOK norm L) (hS : SpreadOK syms norm L) :
    ListOK syms.toList norm (2 ^ L) where
  len := by simpa using hS.1
  sym := fun u hu => by
    have hu2 : u < syms.size := by simpa using hu
    have := hS.2.1 u hu2
    simpa [hu2] using this
  count := hS.2.2
  total := hN.2.2

/-- `tableU16[cumul[s] + r] = tableSize + u` where `u` is the position of the `r`-th occurrence of `s` -/
theorem stateTable_get {syms : Array Nat} {norm : Array Int} {L u : Nat} (hN : NormOK norm L) (hS : SpreadOK syms norm L)
    (hu : u < syms.size) :
    (stateTableOf syms (cumulOf norm L) L)[startOf norm syms[u]! + rank syms.toList u]! = (2 ^ L + u) % 65536 := by
  have ok := listOK_of hN hS
  obtain ⟨c1, c2⟩ := cumulOf_spec norm L
  unfold stateTableOf
  rw [← Array.foldl_toList, Nat.shiftLeft_eq, Nat.one_mul]
  have inv := st_fold ok syms.toList [] (0, cumulOf norm L, Array.replicate (2 ^ L) 0) rfl
    ⟨rfl, c1, by simp, fun s hs => by simpa using c2 s hs, fun v hv => by simp at hv⟩
  have := inv.2.2.2.2 u (by simpa using hu)
  simpa [hu] using this

/-! ### one encoding step -/

/-- `deltaNbBits` of a symbol owning `c ≥ 1` cells -/
def dnb (L c : Nat) : Int :=
  if c = 1 then u32 (((L <<< 16 : Nat) : Int) - ((1 <<< L : Nat) : Int))
  else u32 ((((L - highbit (c - 1)) <<< 16 : Nat) : Int) - ((c <<< (L - highbit (c - 1)) : Nat) : Int))

theorem symTTOf_spec {norm : Array Int} {L tot s : Nat} (h1 : -1 ≤ norm[s]!) (h0 : norm[s]! ≠ 0) :
    1 ≤ cnt norm s ∧ (symTTOf norm L tot s).deltaFindState = (tot : Int) - (cnt norm s : Int) ∧
      (symTTOf norm L tot s).deltaNbBits = dnb L (cnt norm s) := by
  unfold symTTOf cnt dnb
  generalize norm[s]! = c at *
  by_cases e1 : c = -1
  · subst e1; simp
  · by_cases e2 : c = 1
    · subst e2; simp
    · have e3 : ¬ c.toNat = 1 := by omega
      have e4 : ((c.toNat : Nat) : Int) = c := by omega
      simp [e1, e2, e3, h0, e4]
      omega

theorem two_pow_le_32768 {L : Nat} (hL : L ≤ 15) : 2 ^ L ≤ 32768 := by
  have := Nat.pow_le_pow_right (by omega : 2 > 0) hL
  simpa using this

/-- FSE_encodeSymbol's `(U32)((value + deltaNbBits) >> 16)` is `encNb` -/
theorem enc_nb_eq {L c S : Nat} (hL1 : 1 ≤ L) (hL : L ≤ 15) (hc : 1 ≤ c) (hcL : c ≤ 2 ^ L) (hS1 : 2 ^ L ≤ S)
    (hS2 : S < 2 ^ (L + 1)) : (u32 (((S : Int) + dnb L c) >>> 16)).toNat = encNb L c S := by
  have hN := two_pow_le_32768 hL
  rw [Nat.pow_succ] at hS2
  unfold dnb encNb u32 highbit
  simp only [Int.shiftRight_eq_div_pow, Nat.shiftLeft_eq, Nat.one_mul, Nat.reducePow]
  by_cases h1 : c = 1
  · simp only [if_pos h1]
    omega
  · simp only [if_neg h1]
    obtain ⟨m1, m2, p1, p2, -, -, -⟩ := maxBitsOut_facts (by omega : 2 ≤ c) hcL
    rw [Nat.pow_succ] at p2
    generalize L - Nat.log2 (c - 1) = m at *
    generalize c * 2 ^ m = P at *
    by_cases h2 : P ≤ S
    · simp only [if_pos h2]; omega
    · simp only [if_neg h2]; omega

theorem cnt_le {norm : Array Int} {L s : Nat} (hN : NormOK norm L) (hs : s < norm.size) : cnt norm s ≤ 2 ^ L := by
  have := startOf_mono (norm := norm) hs
  have := hN.2.2
  omega

/-- FSE_encodeSymbol in closed form: `nb = encNb` bits are flushed, the next state is read at `cumul[s] + (S >> nb) - norm[s]` -/
theorem encodeSymbol_spec {syms : Array Nat} {norm : Array Int} {L S s : Nat} (hN : NormOK norm L) (hL : L ≤ 15)
    (hs : s < norm.size) (h0 : norm[s]! ≠ 0) (hS1 : 2 ^ L ≤ S) (hS2 : S < 2 ^ (L + 1)) :
    encodeSymbol (ctableOf syms norm L) S s =
      ((stateTableOf syms (cumulOf norm L) L)[startOf norm s + (S / 2 ^ encNb L (cnt norm s) S - cnt norm s)]!,
        (S % 2 ^ encNb L (cnt norm s) S, encNb L (cnt norm s) S)) := by
  obtain ⟨c1, t1, t2⟩ := symTTOf_spec (L := L) (tot := startOf norm s) (hN.2.1 s hs) h0
  have hcL := cnt_le hN hs
  have hnb := enc_nb_eq hN.1 hL c1 hcL hS1 hS2
  obtain ⟨n1, n2, n3⟩ := encNb_spec c1 hcL hS1 hS2
  unfold encodeSymbol ctableOf
  simp only []
  rw [symbolTTOf_get hs, t1, t2, hnb]
  have e : ((S : Int) >>> encNb L (cnt norm s) S + ((startOf norm s : Int) - (cnt norm s : Int))).toNat =
      startOf norm s + (S / 2 ^ encNb L (cnt norm s) S - cnt norm s) := by
    rw [Int.shiftRight_eq_div_pow, ← Int.natCast_ediv]
    omega
  rw [e]

/-- STEP INVERSE (the heart of tANS): decoding undoes one encoding step.  If FSE_encodeSymbol, in state `S`, encodes symbol `s` by
flushing the `nb`-bit field `v` and moving to state `S2`, then `S2` is again a valid state and the decoding cell of `S2` carries the
symbol `s`, reads `nb` bits, and `newState + v` gives back `S` (decoder states are encoder states minus `2^L`).
Bounds: `1 ≤ L` (in `NormOK`) and `L ≤ 15` (the C code asserts `tableLog < 16`: `tableU16[]` holds `U16` states up to `2^(L+1) - 1`, and
`deltaNbBits` relies on `2^(L+1) ≤ 2^16`). -/
theorem step_inverse {syms : Array Nat} {norm : Array Int} {L S s S2 v nb : Nat} (hN : NormOK norm L) (hS : SpreadOK syms norm L)
    (hL : L ≤ 15) (hs : s < norm.size) (h0 : norm[s]! ≠ 0) (hS1 : 2 ^ L ≤ S) (hS2 : S < 2 ^ (L + 1))
    (h : encodeSymbol (ctableOf syms norm L) S s = (S2, (v, nb))) :
    2 ^ L ≤ S2 ∧ S2 < 2 ^ (L + 1) ∧
      ((cellsOf syms norm L)[S2 - 2 ^ L]!).sym = s ∧ ((cellsOf syms norm L)[S2 - 2 ^ L]!).nbBits = nb ∧
      ((cellsOf syms norm L)[S2 - 2 ^ L]!).newState + v = S - 2 ^ L := by
  obtain ⟨c1, -, -⟩ := symTTOf_spec (L := L) (tot := startOf norm s) (hN.2.1 s hs) h0
  have hcL := cnt_le hN hs
  obtain ⟨n1, n2, n3⟩ := encNb_spec c1 hcL hS1 hS2
  rw [encodeSymbol_spec hN hL hs h0 hS1 hS2] at h
  simp only [Prod.mk.injEq] at h
  obtain ⟨h1, h2, h3⟩ := h
  rw [h3] at h1 h2 n1 n2 n3
  -- the position of the `(S >> nb) - c`-th occurrence of `s`
  obtain ⟨u, hu, hus, hur⟩ := exists_rank (l := syms.toList) (s := s) (r := S / 2 ^ nb - cnt norm s)
    (by rw [hS.2.2 s hs]; omega)
  have hu2 : u < syms.size := by simpa using hu
  have hus2 : syms[u]! = s := by simpa [hu2] using hus
  have hst := stateTable_get hN hS hu2
  rw [hus2, hur, h1] at hst
  have hN2 := two_pow_le_32768 hL
  have hsz := hS.1
  have hS2v : S2 = 2 ^ L + u := by omega
  have hcell := cellsOf_get (L := L) hu2 (by rw [hus2]; exact hs)
  rw [hus2, hur] at hcell
  have hidx : S2 - 2 ^ L = u := by omega
  have hns : cnt norm s + (S / 2 ^ nb - cnt norm s) = S / 2 ^ nb := by omega
  rw [hidx, hcell, hns]
  obtain ⟨g1, g2⟩ := log2_shift hS1 hS2 n1
  rw [Nat.pow_succ]
  refine ⟨by omega, by omega, rfl, ?_, ?_⟩
  · simp only [cellAt, highbit, g1]; omega
  · simp only [cellAt, highbit, g1, Nat.shiftLeft_eq, Nat.one_mul]
    rw [show L - (L - nb) = nb by omega, ← h2]
    have := Nat.div_add_mod S (2 ^ nb)
    rw [Nat.mul_comm] at this
    omega

/-! ### the first symbol (FSE_initCState2) -/

/-- FSE_initCState2: `value >> nbBitsOut` is exactly the count `c`, so the state read is the first one of the symbol.
Needs `L ≤ 14`: for `L = 15` and a count with `c << maxBitsOut > 2^15` the rounding `(deltaNbBits + (1<<15)) >> 16` gives `maxBitsOut - 1`
and the U32 subtraction wraps around (not reachable: FSE_MAX_TABLELOG = 12). -/
theorem init2_arith {L c : Nat} (hL1 : 1 ≤ L) (hL : L ≤ 14) (hc : 1 ≤ c) (hcL : c ≤ 2 ^ L) :
    (u32 ((((u32 (dnb L c + ((1 <<< 15 : Nat) : Int))) >>> 16).toNat <<< 16 : Nat) - dnb L c)) >>>
      ((u32 (dnb L c + ((1 <<< 15 : Nat) : Int))) >>> 16).toNat = (c : Int) := by
  have hN : 2 ^ L ≤ 16384 := by
    have := Nat.pow_le_pow_right (by omega : 2 > 0) hL
    simpa using this
  have key : ∃ nb : Nat, ((u32 (dnb L c + ((1 <<< 15 : Nat) : Int))) >>> 16).toNat = nb ∧
      u32 (((nb <<< 16 : Nat) : Int) - dnb L c) = ((c * 2 ^ nb : Nat) : Int) := by
    unfold dnb u32 highbit
    simp only [Int.shiftRight_eq_div_pow, Nat.shiftLeft_eq, Nat.one_mul, Nat.reducePow]
    by_cases h1 : c = 1
    · subst h1
      simp only [if_true, Nat.one_mul]
      refine ⟨L, by omega, by omega⟩
    · simp only [if_neg h1]
      obtain ⟨m1, m2, p1, p2, -, -, -⟩ := maxBitsOut_facts (by omega : 2 ≤ c) hcL
      rw [Nat.pow_succ] at p2
      generalize L - Nat.log2 (c - 1) = m at *
      generalize hP : c * 2 ^ m = P at *
      refine ⟨m, by omega, by rw [hP]; omega⟩
  obtain ⟨nb, k1, k2⟩ := key
  rw [k1, k2, Int.shiftRight_eq_div_pow, ← Int.natCast_ediv, Nat.mul_div_cancel _ (Nat.two_pow_pos nb)]

/-- FSE_initCState2 inverse: the first symbol costs nothing; the state chosen for it is valid and its decoding cell carries the symbol.
Bounds: `1 ≤ L` (in `NormOK`), `L ≤ 14` (see `init2_arith`). -/
theorem init2_inverse {syms : Array Nat} {norm : Array Int} {L s : Nat} (hN : NormOK norm L) (hS : SpreadOK syms norm L)
    (hL : L ≤ 14) (hs : s < norm.size) (h0 : norm[s]! ≠ 0) :
    2 ^ L ≤ initCState2 (ctableOf syms norm L) s ∧ initCState2 (ctableOf syms norm L) s < 2 ^ (L + 1) ∧
      ((cellsOf syms norm L)[initCState2 (ctableOf syms norm L) s - 2 ^ L]!).sym = s := by
  obtain ⟨c1, t1, t2⟩ := symTTOf_spec (L := L) (tot := startOf norm s) (hN.2.1 s hs) h0
  have hcL := cnt_le hN hs
  have e : initCState2 (ctableOf syms norm L) s = (stateTableOf syms (cumulOf norm L) L)[startOf norm s + 0]! := by
    unfold initCState2 ctableOf
    simp only []
    rw [symbolTTOf_get hs, t1, t2, init2_arith hN.1 hL c1 hcL]
    congr 1; omega
  obtain ⟨u, hu, hus, hur⟩ := exists_rank (l := syms.toList) (s := s) (r := 0) (by rw [hS.2.2 s hs]; omega)
  have hu2 : u < syms.size := by simpa using hu
  have hus2 : syms[u]! = s := by simpa [hu2] using hus
  have hst := stateTable_get hN hS hu2
  rw [hus2, hur] at hst
  have hN2 := two_pow_le_32768 (show L ≤ 15 by omega)
  have hsz := hS.1
  have hcell := cellsOf_get (L := L) hu2 (by rw [hus2]; exact hs)
  rw [e, hst, Nat.pow_succ]
  have hidx : (2 ^ L + u) % 65536 - 2 ^ L = u := by omega
  rw [hidx, hcell, hus2]
  exact ⟨by omega, by omega, rfl⟩

/-! ### the whole stream: the bit stream is a stack of (value, width) fields -/

/-- BIT_readBits(w) on the abstract stream: takes the top field, which must be exactly `w` bits wide -/
def pop (w : Nat) : List (Nat × Nat) → Option (Nat × List (Nat × Nat))
  | [] => none
  | (v, w2) :: rest => if w2 = w then some (v, rest) else none

/-- One table driven as ZSTD_decompressSequences / ZSTD_decodeSequence (zstd_decompress_block.c) drive each of their three tables, without
the extra bits: `n` times: emit `cells[state].sym`; then, EXCEPT AFTER THE LAST SYMBOL (`if (!isLastSeq)`: "don't update FSE state for last
Sequence"), ZSTD_updateFseStateWithDInfo: `state = cells[state].newState + BIT_readBits(cells[state].nbBits)`.
(The weight decoder FSE_decompress_usingDTable_generic of fse_decompress.c ends differently: it has two interleaved states, keeps updating
them and stops when BIT_reloadDStream reports `BIT_DStream_overflow`, i.e. when an update has read past the start of the stream; the last
symbol is then taken from the other state.  That variant matches FSE_compress_usingCTable, not modelled here.) -/
def decodeLoop (cells : Array Cell) : Nat → Nat → List (Nat × Nat) → Option (List Nat × List (Nat × Nat))
  | 0, _, stack => some ([], stack)
  | n + 1, st, stack =>
    let c := cells[st]!
    if n = 0 then some ([c.sym], stack)
    else match pop c.nbBits stack with
      | none => none
      | some (bits, stack2) =>
        match decodeLoop cells n (c.newState + bits) stack2 with
        | none => none
        | some (out, rest) => some (c.sym :: out, rest)

/-- ZSTD_initFseState (`state = BIT_readBits(tableLog)`) followed by `n` decoded symbols; returns the symbols and what is left of the stream -/
def decodeAll (cells : Array Cell) (L n : Nat) (stack : List (Nat × Nat)) : Option (List Nat × List (Nat × Nat)) :=
  match pop L stack with
  | none => none
  | some (st, stack2) => decodeLoop cells n st stack2

/-- encoding more symbols on top of a stream that decodes to `out` gives a stream that decodes to those symbols followed by `out` -/
theorem encodeLoop_decode {syms : Array Nat} {norm : Array Int} {L : Nat} (hN : NormOK norm L) (hS : SpreadOK syms norm L)
    (hL : L ≤ 15) (rev : List Nat) (hrev : ∀ s, s ∈ rev → s < norm.size ∧ norm[s]! ≠ 0) (S : Nat) (hS1 : 2 ^ L ≤ S)
    (hS2 : S < 2 ^ (L + 1)) (stack : List (Nat × Nat)) (out : List Nat) (rest : List (Nat × Nat)) (k : Nat)
    (hdec : decodeLoop (cellsOf syms norm L) (k + 1) (S - 2 ^ L) stack = some (out, rest)) :
    2 ^ L ≤ (encodeLoop (ctableOf syms norm L) rev S stack).1 ∧ (encodeLoop (ctableOf syms norm L) rev S stack).1 < 2 ^ (L + 1) ∧
      decodeLoop (cellsOf syms norm L) (rev.length + k + 1) ((encodeLoop (ctableOf syms norm L) rev S stack).1 - 2 ^ L)
        (encodeLoop (ctableOf syms norm L) rev S stack).2 = some (rev.reverse ++ out, rest) := by
  induction rev generalizing S stack out k with
  | nil => exact ⟨hS1, hS2, by simpa [encodeLoop] using hdec⟩
  | cons s t ih =>
    obtain ⟨hs, h0⟩ := hrev s (by simp)
    generalize hr : encodeSymbol (ctableOf syms norm L) S s = r
    obtain ⟨S2, v, nb⟩ := r
    obtain ⟨a1, a2, a3, a4, a5⟩ := step_inverse hN hS hL hs h0 hS1 hS2 hr
    have hdec2 : decodeLoop (cellsOf syms norm L) (k + 1 + 1) (S2 - 2 ^ L) ((v, nb) :: stack) = some (s :: out, rest) := by
      rw [decodeLoop]
      simp only [Nat.succ_ne_zero, if_false, pop, a4, if_true, a5, hdec, a3]
    have := ih (fun x hx => hrev x (by simp [hx])) S2 a1 a2 ((v, nb) :: stack) (s :: out) (k + 1) hdec2
    have e : encodeLoop (ctableOf syms norm L) (s :: t) S stack = encodeLoop (ctableOf syms norm L) t S2 ((v, nb) :: stack) := by
      rw [encodeLoop, hr]
    rw [e]
    have e2 : (s :: t).length + k + 1 = t.length + (k + 1) + 1 := by simp; omega
    have e3 : (s :: t).reverse ++ out = t.reverse ++ s :: out := by simp
    rw [e2, e3]
    exact this

/-- STREAM ROUND TRIP (one state, as in ZSTD_encodeSequences / ZSTD_decodeSequence): the encoder starts with FSE_initCState2 on the last
symbol, encodes the others in reverse order and flushes the state; the decoder reads the state, then emits one symbol per cell and
updates the state after every symbol but the last.  It gives back the symbols and consumes the stream exactly.
Hypotheses: `NormOK`, `SpreadOK`, `L ≤ 14` (for FSE_initCState2, see `init2_arith`; the rest needs `L ≤ 15`), at least one symbol, and
every symbol has a non-zero normalised count. -/
theorem stream_roundtrip {syms : Array Nat} {norm : Array Int} {L : Nat} (hN : NormOK norm L) (hS : SpreadOK syms norm L)
    (hL : L ≤ 14) (σ : List Nat) (hne : σ ≠ []) (hσ : ∀ s, s ∈ σ → s < norm.size ∧ norm[s]! ≠ 0) :
    decodeAll (cellsOf syms norm L) L σ.length (encodeAll (ctableOf syms norm L) σ) = some (σ, []) := by
  obtain ⟨last, rev, hrv⟩ : ∃ last rev, σ.reverse = last :: rev := by
    cases h : σ.reverse with
    | nil => exact absurd (List.reverse_eq_nil_iff.1 h) hne
    | cons a t => exact ⟨a, t, rfl⟩
  have hσ2 : σ = rev.reverse ++ [last] := by
    have := congrArg List.reverse hrv
    simpa using this
  obtain ⟨hs, h0⟩ := hσ last (by rw [hσ2]; simp)
  obtain ⟨i1, i2, i3⟩ := init2_inverse hN hS hL hs h0
  have hdec0 : decodeLoop (cellsOf syms norm L) (0 + 1) (initCState2 (ctableOf syms norm L) last - 2 ^ L) [] = some ([last], []) := by
    rw [decodeLoop]; simp [i3]
  obtain ⟨b1, b2, b3⟩ := encodeLoop_decode hN hS (by omega) rev (fun x hx => hσ x (by rw [hσ2]; simp [hx])) _ i1 i2 [] [last] [] 0 hdec0
  unfold encodeAll
  rw [hrv]
  simp only []
  generalize encodeLoop (ctableOf syms norm L) rev (initCState2 (ctableOf syms norm L) last) [] = r at *
  have hm : r.1 % 2 ^ L = r.1 - 2 ^ L := by
    rw [Nat.pow_succ] at b2
    rw [Nat.mod_eq_sub_mod b1, Nat.mod_eq_of_lt (by omega)]
  have hlen : σ.length = rev.length + 0 + 1 := by rw [hσ2]; simp
  unfold decodeAll flushCState
  have htl : (ctableOf syms norm L).tableLog = L := rfl
  simp only [htl, pop, if_true, hm]
  rw [hlen, b3, hσ2]

/-! ### the predefined distributions -/

/-- the three predefined distributions of the format (LL, OF, ML; tableLog 6, 5, 6) are normalised -/
theorem default_tables_normOK :
    NormOK Gen.LL_defaultNorm.toArray 6 ∧ NormOK Gen.OF_defaultNorm.toArray 5 ∧ NormOK Gen.ML_defaultNorm.toArray 6 := by
  decide +kernel

/-- the decoder's spreading respects the counts of the three predefined distributions -/
theorem default_tables_spreadOK :
    SpreadOK (spread Gen.LL_defaultNorm.toArray 6) Gen.LL_defaultNorm.toArray 6 ∧
    SpreadOK (spread Gen.OF_defaultNorm.toArray 5) Gen.OF_defaultNorm.toArray 5 ∧
    SpreadOK (spread Gen.ML_defaultNorm.toArray 6) Gen.ML_defaultNorm.toArray 6 := by
  decide +kernel

/-- on the three predefined distributions the encoder's own spreading code lays down the same symbols as the decoder's -/
theorem default_tables_spreadEnc_eq :
    spreadEnc Gen.LL_defaultNorm.toArray 6 = spread Gen.LL_defaultNorm.toArray 6 ∧
    spreadEnc Gen.OF_defaultNorm.toArray 5 = spread Gen.OF_defaultNorm.toArray 5 ∧
    spreadEnc Gen.ML_defaultNorm.toArray 6 = spread Gen.ML_defaultNorm.toArray 6 := by
  decide +kernel

/-- ROUND TRIP for the tables the two builders produce (FSE_buildCTable_wksp vs FSE_buildDTable_internal / ZSTD_buildFSETable_body),
given the two facts the differential run `tools/ent_fse.py` checks on every table (`spreadOK=true`, `spreadEncEqDec=true`) -/
theorem build_roundtrip {norm : Array Int} {L : Nat} (hN : NormOK norm L) (hL : L ≤ 14)
    (hS : spreadOK (spreadEnc norm L) norm L = true) (hE : spreadEnc norm L = spread norm L)
    (σ : List Nat) (hne : σ ≠ []) (hσ : ∀ s, s ∈ σ → s < norm.size ∧ norm[s]! ≠ 0) :
    decodeAll (buildCells norm L) L σ.length (encodeAll (buildCTable norm L) σ) = some (σ, []) := by
  unfold buildCells buildCTable
  rw [hE] at hS ⊢
  exact stream_roundtrip hN ((spreadOK_iff _ _ _).1 hS) hL σ hne hσ

/-- ROUND TRIP for the three predefined tables, unconditionally -/
theorem default_tables_roundtrip (σ : List Nat) (hne : σ ≠ []) :
    ((∀ s, s ∈ σ → s < 36) → decodeAll (buildCells Gen.LL_defaultNorm.toArray 6) 6 σ.length
        (encodeAll (buildCTable Gen.LL_defaultNorm.toArray 6) σ) = some (σ, [])) ∧
    ((∀ s, s ∈ σ → s < 29) → decodeAll (buildCells Gen.OF_defaultNorm.toArray 5) 5 σ.length
        (encodeAll (buildCTable Gen.OF_defaultNorm.toArray 5) σ) = some (σ, [])) ∧
    ((∀ s, s ∈ σ → s < 53) → decodeAll (buildCells Gen.ML_defaultNorm.toArray 6) 6 σ.length
        (encodeAll (buildCTable Gen.ML_defaultNorm.toArray 6) σ) = some (σ, [])) := by
  obtain ⟨n1, n2, n3⟩ := default_tables_normOK
  obtain ⟨s1, s2, s3⟩ := default_tables_spreadOK
  obtain ⟨e1, e2, e3⟩ := default_tables_spreadEnc_eq
  have nz1 : ∀ s, s < 36 → s < Gen.LL_defaultNorm.toArray.size ∧ Gen.LL_defaultNorm.toArray[s]! ≠ 0 := by decide +kernel
  have nz2 : ∀ s, s < 29 → s < Gen.OF_defaultNorm.toArray.size ∧ Gen.OF_defaultNorm.toArray[s]! ≠ 0 := by decide +kernel
  have nz3 : ∀ s, s < 53 → s < Gen.ML_defaultNorm.toArray.size ∧ Gen.ML_defaultNorm.toArray[s]! ≠ 0 := by decide +kernel
  unfold buildCells buildCTable
  rw [e1, e2, e3]
  exact ⟨fun h => stream_roundtrip n1 s1 (by omega) σ hne (fun s hs => nz1 s (h s hs)),
    fun h => stream_roundtrip n2 s2 (by omega) σ hne (fun s hs => nz2 s (h s hs)),
    fun h => stream_roundtrip n3 s3 (by omega) σ hne (fun s hs => nz3 s (h s hs))⟩

/-- non-vacuity: a concrete stream on the predefined offset-code table -/
example : encodeAll (buildCTable Gen.OF_defaultNorm.toArray 5) [1, 2, 3, 28, 0, 7, 7, 7] =
    [(23, 5), (14, 5), (5, 5), (27, 5), (0, 5), (6, 5), (6, 4), (6, 4)] := by decide +kernel

example : decodeAll (buildCells Gen.OF_defaultNorm.toArray 5) 5 8
    [(23, 5), (14, 5), (5, 5), (27, 5), (0, 5), (6, 5), (6, 4), (6, 4)] = some ([1, 2, 3, 28, 0, 7, 7, 7], []) := by decide +kernel

end ZstdVerif.FSE
