/-
Round trip of the FSE table DESCRIPTION (C01, last gap of the whole-frame theorem): what FSE_writeNCount (fse_compress.c, model
Model/NCountW.lean `writeNCount`) writes for a normalised distribution is read back by FSE_readNCount (entropy_common.c, model
Model/FSE.lean `readNCount`), whatever bytes follow the description, and exactly the description is consumed.

  A  `ctz_eq`, `reps_ge`, `reps_eq`       ZSTD_countTrailingZeros32(~bitStream | 0x80000000) >> 1 counts the leading `11` pairs
  B  `Win`, `win_load`, `refill_spec`     the reader's 32-bit container is a window of the number the buffer spells; the refill keeps the position
  C  `recLoop`, `skipZeros_eq`, `readNCount8_eq`   the reader's `for` loops as recursive functions
  D  `val`, `bits`, `take_fields`         streams of (value, width) fields, least significant first
  E  `WRep`, `rep_add`, `rep_flush`, `zeroRun_spec`, `writeCount_spec`   the writer's container spells the fields emitted so far
  F  `Sim`, `countField_sim`, `readCount_next`, `readCount_last`   the count part of one turn of the reader against the writer's
  G  `zeroRun_spec`, `zeroFields_facts`, `zloop`, `skipZeros_sim`    runs of zero counts on both sides
  H  `mainLoop_spec`, `sim_run`, `writeNCount_spec`, `ncount8_roundtrip`, `ncount_roundtrip`   the main loops; MAIN THEOREM
-/
import ZstdVerif.Model.NCountW
import ZstdVerif.Model.FSE
import ZstdVerif.Lemmas.FSERT
import ZstdVerif.Lemmas.BitsRT
namespace ZstdVerif.NCountRT
open ZstdVerif ZstdVerif.FSE ZstdVerif.NCountW

/-! ### A. counting the `11` pairs -/

theorem ctz_loop (y t : Nat) (hbit : y >>> t &&& 1 = 1) (hz : ∀ j, j < t → y >>> j &&& 1 = 0) :
    ∀ (n s c : Nat), s ≤ t → t < s + n →
    (forIn (m := Id) (List.range' s n) ((none : Option Nat), c) fun k __s =>
          if (y >>> k &&& 1 == 1) = true then ForInStep.done (some __s.snd, __s.snd)
          else ForInStep.yield (none, __s.snd + 1)) = (some (c + (t - s)), c + (t - s)) := by
  intro n
  induction n with
  | zero => intro s c h1 h2; omega
  | succ n ih =>
    intro s c h1 h2
    rw [List.range'_succ, List.forIn_cons]
    by_cases e : s = t
    · subst e
      simp only [hbit, BEq.rfl, if_true, Nat.sub_self, Nat.add_zero]
      rfl
    · have := hz s (by omega)
      simp only [this, Nat.reduceBEq, Bool.false_eq_true, if_false]
      show forIn (m := Id) (List.range' (s + 1) n) (none, c + 1) _ = _
      rw [ih (s + 1) (c + 1) (by omega) (by omega)]
      have e2 : c + 1 + (t - (s + 1)) = c + (t - s) := by omega
      rw [e2]

theorem ctz_eq (y t : Nat) (ht : t < 32) (hbit : y >>> t &&& 1 = 1) (hz : ∀ j, j < t → y >>> j &&& 1 = 0) : ctz y = t := by
  unfold ctz
  simp only [Id.run, bind, pure, Std.Legacy.Range.forIn_eq_forIn_range', Std.Legacy.Range.size]
  rw [ctz_loop y t hbit hz _ 0 0 (by omega) (by omega)]
  simp

theorem bit_eq (y j : Nat) : y >>> j &&& 1 = if y.testBit j then 1 else 0 := by
  have : y.testBit j = (1 &&& (y >>> j) != 0) := rfl
  rw [this, Nat.and_comm 1, Nat.and_one_is_mod]
  have := Nat.mod_two_eq_zero_or_one (y >>> j)
  rcases this with h | h <;> simp [h]

theorem low_bit (y m : Nat) (h : y.testBit m = true) : ∃ t, t ≤ m ∧ y.testBit t = true ∧ ∀ j, j < t → y.testBit j = false := by
  induction m using Nat.strongRecOn with
  | _ m ih =>
    by_cases e : ∃ j, j < m ∧ y.testBit j = true
    · obtain ⟨j, hj, hb⟩ := e
      obtain ⟨t, ht, h1, h2⟩ := ih j hj hb
      exact ⟨t, by omega, h1, h2⟩
    · refine ⟨m, Nat.le_refl _, h, fun j hj => ?_⟩
      cases hb : y.testBit j
      · rfl
      · exact absurd ⟨j, hj, hb⟩ e

/-- `ZSTD_countTrailingZeros32(~bitStream | 0x80000000) >> 1` -/
def reps (x : Nat) : Nat := ctz (mask32 (0xFFFFFFFF - x) ||| 0x80000000) >>> 1

theorem ybit (x j : Nat) (hx : x < 2 ^ 32) :
    (mask32 (0xFFFFFFFF - x) ||| 0x80000000).testBit j = ((decide (j < 32) && !x.testBit j) || decide (j = 31)) := by
  have e1 : 0xFFFFFFFF - x = 2 ^ 32 - (x + 1) := by omega
  have e2 : (0xFFFFFFFF : Nat) = 2 ^ 32 - 1 := by decide
  have e3 : (0x80000000 : Nat) = 2 ^ 31 := by decide
  unfold mask32
  rw [e1, e2, e3, Nat.testBit_or, Nat.testBit_and, Nat.testBit_two_pow_sub_succ hx, Nat.testBit_two_pow_sub_one, Nat.testBit_two_pow]
  by_cases h : j < 32 <;> by_cases h2 : j = 31 <;> simp [h, h2] <;> omega

theorem ctz_of_ones (x t : Nat) (hx : x < 2 ^ 32) (ht : t ≤ 31) (h1 : ∀ j, j < t → x.testBit j = true)
    (h0 : t = 31 ∨ x.testBit t = false) : ctz (mask32 (0xFFFFFFFF - x) ||| 0x80000000) = t := by
  apply ctz_eq _ t (by omega)
  · rw [bit_eq, ybit x t hx]
    rcases h0 with h | h
    · simp [h]
    · simp [h, show t < 32 by omega]
  · intro j hj
    rw [bit_eq, ybit x j hx, h1 j hj]
    simp; omega

theorem reps_ge (x : Nat) (hx : x < 2 ^ 32) (h : x % 2 ^ 24 = 2 ^ 24 - 1) : 12 ≤ reps x := by
  have hy : (mask32 (0xFFFFFFFF - x) ||| 0x80000000).testBit 31 = true := by rw [ybit x 31 hx]; simp
  obtain ⟨t, ht, b1, b2⟩ := low_bit _ 31 hy
  have hc : ctz (mask32 (0xFFFFFFFF - x) ||| 0x80000000) = t := by
    apply ctz_eq _ t (by omega)
    · rw [bit_eq, b1]; rfl
    · intro j hj; rw [bit_eq, b2 j hj]; rfl
  have h24 : 24 ≤ t := by
    apply Nat.le_of_not_lt
    intro hlt
    rw [ybit x t hx] at b1
    have : x.testBit t = true := by
      have := Nat.testBit_mod_two_pow x 24 t
      rw [h, Nat.testBit_two_pow_sub_one] at this
      simp [hlt] at this
      exact this
    simp [this] at b1
    omega
  unfold reps
  rw [hc, Nat.shiftRight_eq_div_pow]
  omega

theorem reps_eq (x k f : Nat) (hx : x < 2 ^ 32) (hk : k ≤ 14) (h1 : x % 2 ^ (2 * k) = 2 ^ (2 * k) - 1) (hf : x / 2 ^ (2 * k) % 4 = f)
    (hf3 : f < 3) :
    reps x = k := by
  have ones : ∀ j, j < 2 * k → x.testBit j = true := by
    intro j hj
    have := Nat.testBit_mod_two_pow x (2 * k) j
    rw [h1, Nat.testBit_two_pow_sub_one] at this
    simp [hj] at this
    exact this
  have b0 : x.testBit (2 * k) = decide (f % 2 = 1) := by
    have := Nat.testBit_div_two_pow x 0 (n := 2 * k)
    rw [Nat.zero_add] at this
    rw [← this, Nat.testBit_zero]
    generalize x / 2 ^ (2 * k) = q at *
    subst hf
    rw [show q % 4 % 2 = q % 2 by omega]
  have b1 : x.testBit (2 * k + 1) = decide (f / 2 % 2 = 1) := by
    have := Nat.testBit_div_two_pow x 1 (n := 2 * k)
    rw [Nat.add_comm 1] at this
    rw [← this, Nat.testBit_succ, Nat.testBit_zero]
    generalize x / 2 ^ (2 * k) = q at *
    subst hf
    rw [show q % 4 / 2 % 2 = q / 2 % 2 by omega]
  unfold reps
  by_cases e : f % 2 = 1
  · have : f = 1 := by omega
    subst this
    rw [ctz_of_ones x (2 * k + 1) hx (by omega) ?_ (Or.inr (by rw [b1]; simp))]
    · rw [Nat.shiftRight_eq_div_pow]; omega
    · intro j hj
      by_cases e2 : j = 2 * k
      · rw [e2, b0]; simp
      · exact ones j (by omega)
  · rw [ctz_of_ones x (2 * k) hx (by omega) ones (Or.inr (by rw [b0]; simp [e]))]
    rw [Nat.shiftRight_eq_div_pow]; omega

/-! ### B. the bit container of the reader -/

theorem le32_eq_toNatLE (b : ByteArray) (k : Nat) : b.le32 k = b.toNatLE k 4 := by
  unfold ByteArray.le32
  rw [show (4 : Nat) = 0+1+1+1+1 from rfl]
  simp only [ByteArray.toNatLE, Nat.shiftLeft_eq, Nat.add_assoc, Nat.reduceAdd, Nat.reducePow]
  omega

theorem le32_window (b : ByteArray) (iend ip : Nat) (h : ip + 4 ≤ iend) :
    b.le32 ip = b.toNatLE 0 iend / 2 ^ (8 * ip) % 2 ^ 32 := by
  have := ByteArray.toNatLE_window b 0 iend ip 4 h
  rw [Nat.zero_add] at this
  rw [le32_eq_toNatLE, ← this]

/-- the bit container of FSE_readNCount_body right after a (re)load: `bs = MEM_readLE32(ip) >> bc` seen as a window of the number `N` that
the whole buffer spells (little endian) -/
structure Win (N iend ip bc bs : Nat) : Prop where
  ip4 : ip + 4 ≤ iend
  val : bs = N / 2 ^ (8 * ip + bc) % 2 ^ (32 - bc)
  bc31 : bc ≤ 31
  near : bc ≤ 7 ∨ ip + 4 = iend

theorem win_load (b : ByteArray) (iend ip bc : Nat) (h : ip + 4 ≤ iend) (hbc : bc ≤ 31) (near : bc ≤ 7 ∨ ip + 4 = iend) :
    Win (b.toNatLE 0 iend) iend ip bc (b.le32 ip >>> bc) := by
  refine ⟨h, ?_, hbc, near⟩
  rw [le32_window b iend ip h, Nat.shiftRight_eq_div_pow, Nat.pow_add, ← Nat.div_div_eq_div_mul]
  have e : 2 ^ 32 = 2 ^ bc * 2 ^ (32 - bc) := by rw [← Nat.pow_add]; congr 1; omega
  rw [e, Nat.mod_mul_right_div_self]

theorem Win.lt {N iend ip bc bs : Nat} (w : Win N iend ip bc bs) : bs < 2 ^ 32 := by
  rw [w.val]
  have h1 : N / 2 ^ (8 * ip + bc) % 2 ^ (32 - bc) < 2 ^ (32 - bc) := Nat.mod_lt _ (Nat.two_pow_pos _)
  have h2 : 2 ^ (32 - bc) ≤ 2 ^ 32 := Nat.pow_le_pow_right (by omega) (by omega)
  omega

/-- the low `k ≤ 25` bits of the container are bits of `N`: 25 bits are loaded when `bc ≤ 7`; at the end of the buffer the container
holds everything that is left of `N` -/
theorem Win.mod {N iend ip bc bs : Nat} (w : Win N iend ip bc bs) (hN : N < 2 ^ (8 * iend)) (k : Nat) (hk : k ≤ 25) :
    bs % 2 ^ k = N / 2 ^ (8 * ip + bc) % 2 ^ k := by
  rw [w.val]
  rcases w.near with h | h
  · exact Nat.mod_mod_of_dvd _ (Nat.pow_dvd_pow 2 (by omega))
  · have hb := w.bc31
    have : N / 2 ^ (8 * ip + bc) < 2 ^ (32 - bc) := by
      rw [Nat.div_lt_iff_lt_mul (Nat.two_pow_pos _), ← Nat.pow_add]
      have : 32 - bc + (8 * ip + bc) = 8 * iend := by omega
      rw [this]; exact hN
    rw [Nat.mod_eq_of_lt this]

/-- at the end of the buffer the container is exactly what is left of `N` -/
theorem Win.all {N iend ip bc bs : Nat} (w : Win N iend ip bc bs) (hN : N < 2 ^ (8 * iend)) (h : ip + 4 = iend) :
    bs = N / 2 ^ (8 * ip + bc) := by
  rw [w.val]
  have hb := w.bc31
  have : N / 2 ^ (8 * ip + bc) < 2 ^ (32 - bc) := by
    rw [Nat.div_lt_iff_lt_mul (Nat.two_pow_pos _), ← Nat.pow_add]
    have : 32 - bc + (8 * ip + bc) = 8 * iend := by omega
    rw [this]; exact hN
  rw [Nat.mod_eq_of_lt this]

/-- the refill of FSE_readNCount_body keeps the bit position and reloads the window -/
theorem refill_spec (b : ByteArray) (iend ip bcN : Nat) (h4 : ip + 4 ≤ iend) (hbc : bcN ≤ 31) (hP : 8 * ip + bcN < 8 * iend) :
    ∃ ip2 bc2 : Nat, refill b iend ip (bcN : Int) = (ip2, (bc2 : Int), b.le32 ip2 >>> bc2) ∧ 8 * ip2 + bc2 = 8 * ip + bcN ∧
      Win (b.toNatLE 0 iend) iend ip2 bc2 (b.le32 ip2 >>> bc2) := by
  unfold refill
  have e3 : bcN >>> 3 = bcN / 8 := by rw [Nat.shiftRight_eq_div_pow]
  have e7 : bcN &&& 7 = bcN % 8 := Nat.and_two_pow_sub_one_eq_mod bcN 3
  simp only [Int.toNat_natCast, e3, e7]
  by_cases c : ip + 7 ≤ iend ∨ ip + bcN / 8 + 4 ≤ iend
  · rw [if_pos c]
    refine ⟨ip + bcN / 8, bcN % 8, rfl, by omega, ?_⟩
    exact win_load b iend _ _ (by omega) (by omega) (Or.inl (by omega))
  · rw [if_neg c]
    have e : ((bcN : Int) - 8 * ((iend - 4 - ip : Nat) : Int)).toNat = 8 * ip + bcN - 8 * (iend - 4) := by omega
    have e31 : (8 * ip + bcN - 8 * (iend - 4)) &&& 31 = 8 * ip + bcN - 8 * (iend - 4) := by
      rw [Nat.and_two_pow_sub_one_eq_mod _ 5]; omega
    simp only [e, e31]
    refine ⟨iend - 4, 8 * ip + bcN - 8 * (iend - 4), rfl, by omega, ?_⟩
    exact win_load b iend _ _ (by omega) (by omega) (Or.inr (by omega))

/-! ### C. the loops of the reader as recursive functions -/


/-- a `for` loop whose body ignores the index, as a recursive function -/
def recLoop {σ : Type} (f : σ → ForInStep σ) : Nat → σ → σ
  | 0, st => st
  | n + 1, st => match f st with
    | .done b => b
    | .yield b => recLoop f n b

theorem forIn_const {σ : Type} (f : σ → ForInStep σ) (n s0 : Nat) (init : σ) :
    forIn (m := Id) (List.range' s0 n) init (fun _ st => f st) = recLoop f n init := by
  induction n generalizing s0 init with
  | zero => rfl
  | succ n ih =>
    rw [List.range'_succ, List.forIn_cons]
    unfold recLoop
    cases h : f init with
    | done b => rfl
    | yield b => exact ih (s0 + 1) b

abbrev ZSt := Nat × Nat × Int × Nat × Nat

def zStep (b : Bytes) (iend : Nat) (st : ZSt) : ForInStep ZSt :=
  if st.1 < 12 then .done st
  else if st.2.1 + 7 ≤ iend then
    .yield (reps (b.le32 (st.2.1 + 3) >>> st.2.2.1.toNat), st.2.1 + 3, st.2.2.1, b.le32 (st.2.1 + 3) >>> st.2.2.1.toNat, st.2.2.2.2 + 36)
  else
    .yield (reps (b.le32 (iend - 4) >>> (((st.2.2.1 - 8 * (((iend - 7 : Nat) : Int) - (st.2.1 : Int))).toNat &&& 31 : Nat) : Int).toNat),
      iend - 4, (((st.2.2.1 - 8 * (((iend - 7 : Nat) : Int) - (st.2.1 : Int))).toNat &&& 31 : Nat) : Int),
      b.le32 (iend - 4) >>> (((st.2.2.1 - 8 * (((iend - 7 : Nat) : Int) - (st.2.1 : Int))).toNat &&& 31 : Nat) : Int).toNat, st.2.2.2.2 + 36)

def skipZerosR (b : Bytes) (iend maxSV1 : Nat) (s : RS) : RS :=
  let L := recLoop (zStep b iend) (maxSV1 / 36 + 2) (reps s.bitStream, s.ip, s.bitCount, s.bitStream, s.charnum)
  let repeats := L.1
  let ip := L.2.1
  let bitStream := L.2.2.2.1 >>> (2 * repeats)
  let bitCount := L.2.2.1 + 2 * repeats + 2
  let charnum := L.2.2.2.2 + 3 * repeats + (bitStream &&& 3)
  if charnum ≥ maxSV1 then
    { s with ip := ip, bitCount := bitCount, bitStream := bitStream, charnum := charnum, done := true }
  else
    { s with ip := (refill b iend ip bitCount).1, bitCount := (refill b iend ip bitCount).2.1,
             bitStream := (refill b iend ip bitCount).2.2, charnum := charnum }

theorem skipZeros_eq (b : Bytes) (iend m : Nat) (s : RS) : skipZeros b iend m s = skipZerosR b iend m s := by
  unfold skipZeros skipZerosR
  simp only [Id.run, bind, pure, Std.Legacy.Range.forIn_eq_forIn_range', Std.Legacy.Range.size, forIn_const, Nat.sub_zero, Nat.add_sub_cancel, Nat.div_one]
  rfl

def rStep (b : Bytes) (iend m : Nat) (s : RS) : ForInStep RS :=
  if s.done then .done s
  else if s.previous0 then
    if (skipZeros b iend m s).done then .done (skipZeros b iend m s)
    else .yield (readCount b iend m (skipZeros b iend m s))
  else .yield (readCount b iend m s)

theorem readNCount8_eq (b : Bytes) (hb maxSV : Nat) : readNCount8 b hb maxSV =
    (let tl := (b.le32 0 &&& 0xF) + Gen.FSE_MIN_TABLELOG
     if tl > Gen.FSE_TABLELOG_ABSOLUTE_MAX then .error .tableLogTooLarge else
     let s := recLoop (rStep b hb (maxSV + 1)) (maxSV + 1 + 2)
       { ip := 0, bitCount := 4, bitStream := b.le32 0 >>> 4, remaining := ((1 <<< tl) + 1 : Nat), threshold := ((1 <<< tl) : Nat),
         nbBits := tl + 1, charnum := 0, previous0 := false, norm := Array.replicate (maxSV + 1) 0, done := false }
     if s.remaining != 1 then .error (.corruptionAt "FSE:126") else
     if s.charnum > maxSV + 1 then .error (.corruptionAt "FSE:127") else
     if s.bitCount > 32 then .error (.corruptionAt "FSE:128") else
     .ok { norm := s.norm.extract 0 s.charnum, tableLog := tl, used := s.ip + ((s.bitCount.toNat + 7) >>> 3) }) := by
  unfold readNCount8
  simp only [Id.run, bind, pure, Std.Legacy.Range.forIn_eq_forIn_range', Std.Legacy.Range.size, forIn_const, Nat.sub_zero, Nat.add_sub_cancel, Nat.div_one]
  rfl

/-! ### D. streams of fields -/

/-- value of a stream of `(value, width)` fields laid down least significant first -/
def val : List (Nat × Nat) → Nat
  | [] => 0
  | f :: fs => f.1 + 2 ^ f.2 * val fs

/-- its length in bits -/
def bits : List (Nat × Nat) → Nat
  | [] => 0
  | f :: fs => f.2 + bits fs

/-- every value fits its width -/
def Fit (fs : List (Nat × Nat)) : Prop := ∀ f ∈ fs, f.1 < 2 ^ f.2

theorem bits_append (a b : List (Nat × Nat)) : bits (a ++ b) = bits a + bits b := by
  induction a with
  | nil => simp [bits]
  | cons f fs ih => simp only [List.cons_append, bits, ih]; omega

theorem val_append (a b : List (Nat × Nat)) : val (a ++ b) = val a + 2 ^ bits a * val b := by
  induction a with
  | nil => simp [val, bits]
  | cons f fs ih =>
    simp only [List.cons_append, val, bits, ih, Nat.pow_add, Nat.mul_add, Nat.mul_assoc, Nat.add_assoc]

theorem val_lt (fs : List (Nat × Nat)) (h : Fit fs) : val fs < 2 ^ bits fs := by
  induction fs with
  | nil => simp [val, bits]
  | cons f fs ih =>
    have h1 := h f (by simp)
    have h2 := ih (fun g hg => h g (by simp [hg]))
    simp only [val, bits, Nat.pow_add]
    have : 2 ^ f.2 * (val fs + 1) ≤ 2 ^ f.2 * 2 ^ bits fs := Nat.mul_le_mul_left _ h2
    rw [Nat.mul_add, Nat.mul_one] at this
    omega

theorem fit_append {a b : List (Nat × Nat)} (ha : Fit a) (hb : Fit b) : Fit (a ++ b) := by
  intro f hf
  rcases List.mem_append.1 hf with h | h
  · exact ha f h
  · exact hb f h

/-- reading a prefix of the stream off a number -/
theorem take_fields (N P : Nat) (a rest : List (Nat × Nat)) (ha : Fit a)
    (h : N / 2 ^ P % 2 ^ bits (a ++ rest) = val (a ++ rest)) :
    N / 2 ^ P % 2 ^ bits a = val a ∧ N / 2 ^ (P + bits a) % 2 ^ bits rest = val rest := by
  rw [bits_append, val_append, Nat.pow_add] at h
  have hl := val_lt a ha
  rw [Nat.pow_add 2 P, ← Nat.div_div_eq_div_mul]
  generalize N / 2 ^ P = X at h
  refine ⟨?_, ?_⟩
  · have := congrArg (· % 2 ^ bits a) h
    simp only [Nat.mod_mul_right_mod, Nat.add_mul_mod_self_left] at this
    rw [this, Nat.mod_eq_of_lt hl]
  · rw [← Nat.mod_mul_right_div_self, h, Nat.add_mul_div_left _ _ (Nat.two_pow_pos _), Nat.div_eq_of_lt hl, Nat.zero_add]

/-! ### E. the writer's container spells the fields emitted so far -/

/-- the bytes flushed so far followed by the content of the bit container spell the stream `pre` -/
structure WRep (c : BC) (pre : List (Nat × Nat)) : Prop where
  v : c.out.toNatLE 0 c.out.size + 2 ^ (8 * c.out.size) * c.bitStream = val pre
  t : 8 * c.out.size + c.bitCount = bits pre
  lt : c.bitStream < 2 ^ c.bitCount

theorem toNatLE_push (o : ByteArray) (x : UInt8) :
    (o.push x).toNatLE 0 (o.size + 1) = o.toNatLE 0 o.size + 2 ^ (8 * o.size) * x.toNat := by
  rw [ByteArray.toNatLE_add, Nat.zero_add]
  have e1 : (o.push x).toNatLE 0 o.size = o.toNatLE 0 o.size :=
    ByteArray.toNatLE_congr _ _ 0 0 _ (fun i hi => by rw [Nat.zero_add]; exact ByteArray.u8_push_lt o x i hi)
  have e2 : (o.push x).toNatLE o.size 1 = x.toNat := by
    simp only [ByteArray.toNatLE, ByteArray.u8_push_eq]; omega
  rw [e1, e2]

/-- `bitStream += x << bitCount; bitCount += n` with an `n`-bit value and room in the 32-bit container: no wrap-around, the field is
appended -/
theorem rep_add {c : BC} {pre : List (Nat × Nat)} (h : WRep c pre) (x n : Nat) (hx : x < 2 ^ n) (hr : c.bitCount + n ≤ 32) :
    WRep ((c.addS x).incr n) (pre ++ [(x, n)]) := by
  obtain ⟨hv, ht, hl⟩ := h
  have hb : c.bitStream + x * 2 ^ c.bitCount < 2 ^ (c.bitCount + n) := by
    rw [Nat.pow_add]
    have : (x + 1) * 2 ^ c.bitCount ≤ 2 ^ n * 2 ^ c.bitCount := Nat.mul_le_mul_right _ hx
    rw [Nat.add_mul, Nat.one_mul, Nat.mul_comm (2 ^ n)] at this
    omega
  have hb32 : c.bitStream + x * 2 ^ c.bitCount < 2 ^ 32 :=
    Nat.lt_of_lt_of_le hb (Nat.pow_le_pow_right (by omega) hr)
  have e : add32 c.bitStream (x <<< c.bitCount) = c.bitStream + x * 2 ^ c.bitCount := by
    unfold add32; rw [Nat.shiftLeft_eq, Nat.mod_eq_of_lt hb32]
  refine ⟨?_, ?_, ?_⟩
  · show c.out.toNatLE 0 c.out.size + 2 ^ (8 * c.out.size) * add32 c.bitStream (x <<< c.bitCount) = _
    rw [e, val_append, ← hv, ← ht]
    simp only [val, Nat.mul_zero, Nat.add_zero, Nat.pow_add, Nat.mul_add]
    rw [Nat.mul_comm x, Nat.mul_assoc, Nat.add_assoc]
  · show 8 * c.out.size + (c.bitCount + n) = _
    rw [bits_append, ← ht]; simp only [bits]; omega
  · show add32 c.bitStream (x <<< c.bitCount) < 2 ^ (c.bitCount + n)
    rw [e]; exact hb

/-- the 16-bit flush: two bytes leave the container, the stream is the same -/
theorem flush_val (out : ByteArray) (bs : Nat) :
    ((out.push (UInt8.ofNat bs)).push (UInt8.ofNat (bs >>> 8))).toNatLE 0 (out.size + 1 + 1)
      + 2 ^ (8 * (out.size + 1 + 1)) * (bs >>> 16) = out.toNatLE 0 out.size + 2 ^ (8 * out.size) * bs := by
  have e1 := toNatLE_push (out.push (UInt8.ofNat bs)) (UInt8.ofNat (bs >>> 8))
  rw [ByteArray.size_push] at e1
  rw [e1, toNatLE_push, BitW.ofNat_toNat, BitW.ofNat_toNat, Nat.shiftRight_eq_div_pow, Nat.shiftRight_eq_div_pow]
  have p1 : 2 ^ (8 * (out.size + 1)) = 2 ^ (8 * out.size) * 256 := by rw [Nat.mul_add, Nat.pow_add]
  have p2 : 2 ^ (8 * (out.size + 1 + 1)) = 2 ^ (8 * out.size) * 65536 := by
    rw [Nat.mul_add, Nat.mul_add, Nat.pow_add, Nat.pow_add, Nat.mul_assoc]
  rw [p1, p2, Nat.add_assoc, Nat.add_assoc, Nat.mul_assoc, Nat.mul_assoc, ← Nat.mul_add, ← Nat.mul_add]
  have e : bs % 256 + (256 * (bs / 2 ^ 8 % 256) + 65536 * (bs / 2 ^ 16)) = bs := by omega
  rw [e]

theorem rep_flush {pre : List (Nat × Nat)} (out : ByteArray) (bs bc : Nat) (h : WRep ⟨out, bs, bc⟩ pre) (h16 : 16 ≤ bc) :
    WRep ⟨((out.push (UInt8.ofNat bs)).push (UInt8.ofNat (bs >>> 8))), bs >>> 16, bc - 16⟩ pre := by
  obtain ⟨hv, ht, hl⟩ := h
  simp only [] at hv ht hl
  have hs : ((out.push (UInt8.ofNat bs)).push (UInt8.ofNat (bs >>> 8))).size = out.size + 1 + 1 := by
    rw [ByteArray.size_push, ByteArray.size_push]
  refine ⟨?_, ?_, ?_⟩
  · simp only [hs]; rw [← hv]; exact flush_val out bs
  · simp only [hs]; rw [← ht]; omega
  · simp only []
    rw [Nat.shiftRight_eq_div_pow, Nat.div_lt_iff_lt_mul (Nat.two_pow_pos _), ← Nat.pow_add]
    rw [show bc - 16 + 16 = bc by omega]; exact hl

theorem rep_flushIfOver16 {c : BC} {pre : List (Nat × Nat)} (h : WRep c pre) (h32 : c.bitCount ≤ 32) :
    WRep c.flushIfOver16 pre ∧ c.flushIfOver16.bitCount ≤ 16 := by
  unfold BC.flushIfOver16
  split
  · next h16 =>
    exact ⟨rep_flush c.out c.bitStream c.bitCount h (by omega), by show c.bitCount - 16 ≤ 16; omega⟩
  · next h16 => exact ⟨h, by omega⟩

theorem flushIfOver16_bc (c : BC) (h : c.bitCount ≤ 32) : c.flushIfOver16.bitCount ≤ 16 := by
  unfold BC.flushIfOver16
  split
  · show c.bitCount - 16 ≤ 16; omega
  · omega

/-! #### the distribution seen from symbol `i` on -/

/-- cells owned by the symbols from `i` on -/
def tl (norm : Array Int) (i : Nat) : Nat := startOf norm norm.size - startOf norm i

theorem startOf_le {norm : Array Int} {i j : Nat} (h : i ≤ j) : startOf norm i ≤ startOf norm j := by
  by_cases e : i = j
  · subst e; exact Nat.le_refl _
  · have := startOf_mono (norm := norm) (t := i) (s := j) (by omega); omega

theorem tl_succ {norm : Array Int} {i : Nat} (h : i < norm.size) : tl norm i = cnt norm i + tl norm (i + 1) := by
  unfold tl
  have := startOf_le (norm := norm) (i := i + 1) (j := norm.size) (by omega)
  rw [startOf_succ] at this ⊢
  omega

theorem tl_size (norm : Array Int) : tl norm norm.size = 0 := by unfold tl; omega

theorem tl_pos {norm : Array Int} {i : Nat} (h : i < norm.size) (hlast : norm[norm.size - 1]! ≠ 0) (hge : -1 ≤ norm[norm.size - 1]!) :
    1 ≤ tl norm i := by
  unfold tl
  have h1 := startOf_le (norm := norm) (i := i) (j := norm.size - 1) (by omega)
  have h2 : startOf norm (norm.size - 1 + 1) = startOf norm (norm.size - 1) + cnt norm (norm.size - 1) := startOf_succ _ _
  rw [show norm.size - 1 + 1 = norm.size by omega] at h2
  have h3 : 1 ≤ cnt norm (norm.size - 1) := by
    unfold cnt
    split
    · omega
    · next hne =>
      have : norm[norm.size - 1]! ≠ -1 := by simpa using hne
      omega
  omega

/-- `|count|` is the number of cells -/
theorem abs_cnt {norm : Array Int} {i : Nat} (hge : -1 ≤ norm[i]!) :
    (if norm[i]! < 0 then -norm[i]! else norm[i]!) = (cnt norm i : Int) := by
  unfold cnt
  by_cases e : norm[i]! = -1
  · simp [e]
  · have : (norm[i]! == -1) = false := by simpa using e
    simp only [this, Bool.false_eq_true, if_false]
    split <;> omega

/-- the part of the writer's state both sides agree on, for a normalised distribution: `remaining` is one more than the cells still to
come, `threshold = 2^(nbBits-1)` is the power of two with `threshold ≤ remaining < 2*threshold`, the container holds at most 16 bits -/
structure WOK (norm : Array Int) (L : Nat) (s : WS) : Prop where
  sym : s.symbol ≤ norm.size
  rem : s.remaining = (tl norm s.symbol : Int) + 1
  thr : s.threshold = ((2 ^ (s.nbBits - 1) : Nat) : Int)
  nb1 : 1 ≤ s.nbBits
  nbL : s.nbBits ≤ L + 1
  lo : s.threshold ≤ s.remaining
  hi : s.remaining < 2 * s.threshold
  bc : s.c.bitCount ≤ 16

theorem shrink_spec (rem : Int) (hrem : 1 ≤ rem) : ∀ (fuel nb : Nat) (thr : Int), nb ≤ fuel → 1 ≤ nb → thr = ((2 ^ (nb - 1) : Nat) : Int) →
    rem < 2 * thr →
    let r := shrink rem fuel nb thr
    1 ≤ r.1 ∧ r.1 ≤ nb ∧ r.2 = ((2 ^ (r.1 - 1) : Nat) : Int) ∧ r.2 ≤ rem ∧ rem < 2 * r.2 ∧ (¬ rem < thr → r = (nb, thr)) := by
  intro fuel
  induction fuel with
  | zero => intro nb thr h1 h2; omega
  | succ fuel ih =>
    intro nb thr h1 h2 h3 h4
    unfold shrink
    by_cases c : rem < thr
    · rw [if_pos c]
      have hnb : 2 ≤ nb := by
        rcases Nat.lt_or_ge nb 2 with h | h
        · have : nb = 1 := by omega
          subst this; simp at h3; omega
        · exact h
      obtain ⟨k, rfl⟩ : ∃ k, nb = k + 2 := ⟨nb - 2, by omega⟩
      have p : (2 : Nat) ^ (k + 2 - 1) = 2 * 2 ^ (k + 2 - 1 - 1) := by
        show 2 ^ (k + 1) = 2 * 2 ^ k
        rw [Nat.pow_succ]; omega
      have e : thr / 2 = ((2 ^ (k + 2 - 1 - 1) : Nat) : Int) := by
        rw [h3, p]; push_cast; omega
      have e2 : 2 * (thr / 2) = thr := by rw [e, h3, p]; push_cast; rfl
      obtain ⟨a1, a2, a3, a4, a5, a6⟩ := ih (k + 2 - 1) (thr / 2) (by omega) (by omega) e (by omega)
      exact ⟨a1, by omega, a3, a4, a5, fun h => absurd c h⟩
    · rw [if_neg c]
      exact ⟨h2, Nat.le_refl _, h3, by omega, h4, fun _ => rfl⟩

/-- the field of one count: value and width -/
def cfield (norm : Array Int) (s : WS) : Nat × Nat :=
  ((countOf norm s % 4294967296).toNat, s.nbBits - (if countOf norm s < maxOf s then 1 else 0))

theorem thr_facts {norm : Array Int} {L : Nat} {s : WS} (ok : WOK norm L s) (hL : L ≤ 12) :
    2 * 2 ^ (s.nbBits - 1) = 2 ^ s.nbBits ∧ 2 ^ (s.nbBits - 1) ≤ 4096 := by
  have h1 := ok.nb1
  have h2 := ok.nbL
  refine ⟨?_, ?_⟩
  · rw [show s.nbBits = (s.nbBits - 1) + 1 by omega, Nat.pow_succ, Nat.add_sub_cancel]; omega
  · exact Nat.le_trans (Nat.pow_le_pow_right (by omega) (show s.nbBits - 1 ≤ 12 by omega)) (by decide)

theorem count_facts {norm : Array Int} {L : Nat} {s : WS} (ok : WOK norm L s) (hN : ∀ i, i < norm.size → -1 ≤ norm[i]!)
    (hs : s.symbol < norm.size) :
    0 ≤ maxOf s ∧ maxOf s < s.threshold ∧ 0 ≤ countOf norm s ∧ countOf norm s < 2 * s.threshold ∧
    (countOf norm s < s.threshold → countOf norm s = norm[s.symbol]! + 1) ∧
    (s.threshold ≤ countOf norm s → countOf norm s = norm[s.symbol]! + 1 + maxOf s ∧ s.threshold ≤ norm[s.symbol]! + 1) ∧
    remOf norm s = (tl norm (s.symbol + 1) : Int) + 1 ∧ remOf norm s ≤ s.remaining ∧
    (remOf norm s = if norm[s.symbol]! ≥ 0 then s.remaining - norm[s.symbol]! else s.remaining + norm[s.symbol]!) := by
  have hc := hN _ hs
  have ha := abs_cnt hc
  have ht := tl_succ hs
  have hr := ok.rem
  have h1 := ok.lo
  have h2 := ok.hi
  unfold countOf maxOf remOf
  rw [ha]
  generalize norm[s.symbol]! = c at *
  generalize s.threshold = T at *
  generalize s.remaining = R at *
  refine ⟨by omega, by omega, ?_, ?_, ?_, ?_, by omega, by omega, ?_⟩
  · split <;> omega
  · split <;> omega
  · split <;> omega
  · split <;> omega
  · split <;> split at ha <;> omega

/-- FSE_writeNCount_generic, the count part of one turn, on a normalised distribution: never an error; the field `cfield` is appended,
the state stays well formed -/
theorem writeCount_spec {norm : Array Int} {L : Nat} {s : WS} (ok : WOK norm L s) (hN : ∀ i, i < norm.size → -1 ≤ norm[i]!)
    (hs : s.symbol < norm.size) (hL : L ≤ 12) :
    ∃ s2, writeCount norm s = some s2 ∧ WOK norm L s2 ∧ s2.symbol = s.symbol + 1 ∧ s2.remaining = remOf norm s ∧
      s2.previousIs0 = (norm[s.symbol]! == 0) ∧ (cfield norm s).1 < 2 ^ (cfield norm s).2 ∧ (cfield norm s).2 ≤ 13 ∧
      (1 < s.remaining → 1 ≤ (cfield norm s).2) ∧
      ∀ pre, WRep s.c pre → WRep s2.c (pre ++ [cfield norm s]) := by
  obtain ⟨f1, f2, f3, f4, f5, f6, f7, f8, f9⟩ := count_facts ok hN hs
  obtain ⟨t1, t2⟩ := thr_facts ok hL
  have hthr := ok.thr
  have hnb1 := ok.nb1
  have hnbL := ok.nbL
  have hlo := ok.lo
  have hhi := ok.hi
  have hrem := ok.rem
  have hrem1 : 1 ≤ remOf norm s := by rw [f7]; omega
  obtain ⟨a1, a2, a3, a4, a5, a6⟩ := shrink_spec (remOf norm s) hrem1 32 s.nbBits s.threshold (by omega) hnb1 hthr (by omega)
  have hv32 : countOf norm s % 4294967296 = countOf norm s := by
    apply Int.emod_eq_of_lt f3
    omega
  have hfit : (cfield norm s).1 < 2 ^ (cfield norm s).2 := by
    unfold cfield
    rw [hv32]
    by_cases c : countOf norm s < maxOf s
    · rw [if_pos c]
      show (countOf norm s).toNat < 2 ^ (s.nbBits - 1)
      omega
    · rw [if_neg c, Nat.sub_zero, ← t1]
      show (countOf norm s).toNat < 2 * 2 ^ (s.nbBits - 1)
      omega
  have hw13 : (cfield norm s).2 ≤ 13 := by unfold cfield; simp only []; split <;> omega
  have hw1 : 1 < s.remaining → 1 ≤ (cfield norm s).2 := by
    intro h
    unfold cfield; simp only []
    have : 2 ≤ s.nbBits := by
      rcases Nat.lt_or_ge s.nbBits 2 with h2 | h2
      · have : s.nbBits = 1 := by omega
        rw [this] at hthr; simp at hthr; omega
      · exact h2
    split <;> omega
  have hne : ¬ remOf norm s < 1 := by omega
  refine ⟨_, by unfold writeCount; rw [if_neg hne], ?_, rfl, rfl, ?_, hfit, hw13, hw1, ?_⟩
  · have hb : (((s.c.addS (countOf norm s % 4294967296).toNat).incr
        (s.nbBits - (if countOf norm s < maxOf s then 1 else 0)))).bitCount ≤ 32 := by
      show s.c.bitCount + _ ≤ 32
      have := ok.bc
      split <;> omega
    exact ⟨by show s.symbol + 1 ≤ norm.size; omega, by show remOf norm s = _; rw [f7], a3, a1, by
      show (shrink (remOf norm s) 32 s.nbBits s.threshold).1 ≤ L + 1; omega, a4, a5,
      flushIfOver16_bc _ hb⟩
  · show (countOf norm s == 1) = (norm[s.symbol]! == 0)
    have hpos : (0 : Int) < s.threshold := by rw [hthr]; exact_mod_cast Nat.two_pow_pos _
    have : countOf norm s = 1 ↔ norm[s.symbol]! = 0 := by
      by_cases c : countOf norm s < s.threshold
      · have := f5 c; omega
      · have := f6 (by omega); omega
    rw [Bool.eq_iff_iff]
    simp only [beq_iff_eq]
    exact this
  · intro pre h
    have hr : s.c.bitCount + (cfield norm s).2 ≤ 32 := by have := ok.bc; omega
    have h2 := rep_add h (cfield norm s).1 (cfield norm s).2 hfit hr
    exact (rep_flushIfOver16 h2 (by show s.c.bitCount + (cfield norm s).2 ≤ 32; exact hr)).1


/-! ### F. one turn of the reader against one turn of the writer -/

/-- the reader (`rs`) stands where the writer (`ws`) stood: same symbol, same `remaining` / `threshold` / `nbBits` / previous-is-zero
flag, the reader's bit position is the number of bits the writer had emitted, its container is a window of `N` at that position, the
counts booked so far are the distribution's, the rest of the array is still zero -/
structure Sim (N iend : Nat) (norm : Array Int) (m : Nat) (ws : WS) (rs : RS) : Prop where
  charnum : rs.charnum = ws.symbol
  rem : rs.remaining = ws.remaining
  thr : rs.threshold = ws.threshold
  nb : rs.nbBits = ws.nbBits
  p0 : rs.previous0 = ws.previousIs0
  live : rs.done = false
  win : ∃ bc : Nat, rs.bitCount = (bc : Int) ∧ Win N iend rs.ip bc rs.bitStream ∧ 8 * rs.ip + bc = 8 * ws.c.out.size + ws.c.bitCount
  nsz : rs.norm.size = m
  npre : ∀ i, i < ws.symbol → rs.norm[i]! = norm[i]!
  nzero : ∀ i, ws.symbol ≤ i → i < m → rs.norm[i]! = 0

theorem countField_sim {N iend m L : Nat} {norm : Array Int} {ws : WS} {rs : RS} (sim : Sim N iend norm m ws rs) (ok : WOK norm L ws)
    (hN : ∀ i, i < norm.size → -1 ≤ norm[i]!) (hs : ws.symbol < norm.size) (hL : L ≤ 12) (hNlt : N < 2 ^ (8 * iend))
    (bc : Nat) (hbc : rs.bitCount = (bc : Int)) (w : Win N iend rs.ip bc rs.bitStream)
    (hbits : N / 2 ^ (8 * rs.ip + bc) % 2 ^ (cfield norm ws).2 = (cfield norm ws).1) :
    countField rs = (norm[ws.symbol]!, ((bc + (cfield norm ws).2 : Nat) : Int)) := by
  obtain ⟨f1, f2, f3, f4, f5, f6, f7, f8, f9⟩ := count_facts ok hN hs
  obtain ⟨t1, t2⟩ := thr_facts ok hL
  have hthr := ok.thr
  have hnb1 := ok.nb1
  have hnbL := ok.nbL
  have hv32 : countOf norm ws % 4294967296 = countOf norm ws := by
    apply Int.emod_eq_of_lt f3
    omega
  unfold cfield at hbits
  rw [hv32] at hbits
  simp only [] at hbits
  unfold countField
  simp only [Id.run, pure, sim.thr, sim.rem, sim.nb, hbc]
  have hT : ws.threshold.toNat = 2 ^ (ws.nbBits - 1) := by rw [hthr]; exact Int.toNat_natCast _
  have m1 := w.mod hNlt (ws.nbBits - 1) (by omega)
  have m2 := w.mod hNlt ws.nbBits (by omega)
  rw [hT, t1, Nat.and_two_pow_sub_one_eq_mod, Nat.and_two_pow_sub_one_eq_mod, m1, m2]
  generalize N / 2 ^ (8 * rs.ip + bc) = X at *
  have hpos : 0 < 2 ^ (ws.nbBits - 1) := Nat.two_pow_pos _
  by_cases c : countOf norm ws < maxOf ws
  · rw [if_pos c] at hbits
    have e : (cfield norm ws).2 = ws.nbBits - 1 := by unfold cfield; simp only []; rw [if_pos c]
    rw [hbits, e]
    have hlt : ((countOf norm ws).toNat : Int) < 2 * ws.threshold - 1 - ws.remaining := by unfold maxOf at c; omega
    rw [if_pos hlt]
    have := f5 (by omega)
    congr 1
    · omega
  · rw [if_neg c, Nat.sub_zero] at hbits
    have e : (cfield norm ws).2 = ws.nbBits := by unfold cfield; simp only []; rw [if_neg c, Nat.sub_zero]
    have hlow : X % 2 ^ (ws.nbBits - 1) = (countOf norm ws).toNat % 2 ^ (ws.nbBits - 1) := by
      rw [← hbits, Nat.mod_mod_of_dvd _ (Nat.pow_dvd_pow 2 (by omega))]
    rw [hlow, hbits, e]
    by_cases c2 : countOf norm ws < ws.threshold
    · have h5 := f5 c2
      rw [Nat.mod_eq_of_lt (by omega)]
      have hge : ¬ ((countOf norm ws).toNat : Int) < 2 * ws.threshold - 1 - ws.remaining := by unfold maxOf at c; omega
      have hlt : ¬ ((countOf norm ws).toNat : Int) ≥ ws.threshold := by omega
      rw [if_neg hge, if_neg hlt]
      congr 1
      · omega
    · obtain ⟨h6, h7⟩ := f6 (by omega)
      rw [Nat.mod_eq_sub_mod (by omega), Nat.mod_eq_of_lt (by omega)]
      have hge : ¬ (((countOf norm ws).toNat - 2 ^ (ws.nbBits - 1) : Nat) : Int) < 2 * ws.threshold - 1 - ws.remaining := by
        unfold maxOf at h6 c; omega
      have hlt : ((countOf norm ws).toNat : Int) ≥ ws.threshold := by omega
      rw [if_neg hge, if_pos hlt]
      congr 1
      · unfold maxOf at h6; omega

theorem log2_of_thr {nb : Nat} {thr rem : Int} (_hnb : 1 ≤ nb) (hthr : thr = ((2 ^ (nb - 1) : Nat) : Int)) (lo : thr ≤ rem)
    (hi : rem < 2 * thr) : Nat.log2 rem.toNat = nb - 1 := by
  have hpos : 0 < 2 ^ (nb - 1) := Nat.two_pow_pos _
  rw [Nat.log2_eq_iff (by omega)]
  rw [Nat.pow_succ]
  omega

/-- FSE_readNCount_body, the count part of a turn that is not the last one -/
theorem readCount_next {iend m L : Nat} {b : Bytes} {norm : Array Int} {ws ws2 : WS} {rs : RS}
    (sim : Sim (b.toNatLE 0 iend) iend norm m ws rs) (ok : WOK norm L ws) (ok2 : WOK norm L ws2)
    (hsym2 : ws2.symbol = ws.symbol + 1) (hrem2 : ws2.remaining = remOf norm ws)
    (hrem3 : remOf norm ws = if norm[ws.symbol]! ≥ 0 then ws.remaining - norm[ws.symbol]! else ws.remaining + norm[ws.symbol]!)
    (hrem4 : remOf norm ws ≤ ws.remaining)
    (hp02 : ws2.previousIs0 = (norm[ws.symbol]! == 0)) (bc w : Nat) (hw : w ≤ 13)
    (hpos : 8 * ws2.c.out.size + ws2.c.bitCount = 8 * ws.c.out.size + ws.c.bitCount + w)
    (_hbc : rs.bitCount = (bc : Int)) (win : Win (b.toNatLE 0 iend) iend rs.ip bc rs.bitStream)
    (hP0 : 8 * rs.ip + bc = 8 * ws.c.out.size + ws.c.bitCount)
    (hcf : countField rs = (norm[ws.symbol]!, ((bc + w : Nat) : Int)))
    (hlive2 : 1 < ws2.remaining) (hm : ws.symbol + 1 < m) (hP : 8 * rs.ip + bc + w < 8 * iend) :
    Sim (b.toNatLE 0 iend) iend norm m ws2 (readCount b iend m rs) := by
  have hbcw : bc + w ≤ 31 := by
    rcases win.near with h | h <;> omega
  obtain ⟨ip2, bc2, hre, hpe, hwin2⟩ := refill_spec b iend rs.ip (bc + w) win.ip4 hbcw (by omega)
  have hlog := log2_of_thr ok2.nb1 ok2.thr ok2.lo ok2.hi
  have hch := sim.charnum
  have hnsz := sim.nsz
  have hcn : rs.charnum < rs.norm.size := by omega
  have hnd : ¬ (rs.charnum + 1 ≥ m) := by omega
  unfold readCount
  simp only [Id.run, pure, hcf, sim.rem, sim.thr, sim.nb, ← hrem3, ← hrem2, hre, hcn, if_true]
  have hn1 : ¬ ws2.remaining ≤ 1 := by omega
  have hthr2 : ((1 <<< (ws2.nbBits - 1) : Nat) : Int) = ws2.threshold := by
    rw [ok2.thr, Nat.shiftLeft_eq, Nat.one_mul]
  have hnb2 : highbit ws2.remaining.toNat + 1 = ws2.nbBits := by unfold highbit; rw [hlog]; have := ok2.nb1; omega
  have n1 : (rs.norm.set! rs.charnum norm[ws.symbol]!).size = m := by simpa using hnsz
  have n2 : ∀ i, i < ws2.symbol → (rs.norm.set! rs.charnum norm[ws.symbol]!)[i]! = norm[i]! := by
    intro i hi
    by_cases e : rs.charnum = i
    · subst e; rw [getBang_set_eq _ _ _ hcn, hch]
    · rw [getBang_set_ne _ _ _ _ e]; exact sim.npre i (by omega)
  have n3 : ∀ i, ws2.symbol ≤ i → i < m → (rs.norm.set! rs.charnum norm[ws.symbol]!)[i]! = 0 := by
    intro i hi him
    rw [getBang_set_ne _ _ _ _ (by omega)]
    exact sim.nzero i (by omega) him
  by_cases h1 : ws2.remaining < ws.threshold
  · simp only [h1, hn1, hnd, if_true, if_false, Bool.not_false, Bool.true_and, decide_false, Bool.false_eq_true, hnb2, hthr2]
    exact ⟨by show rs.charnum + 1 = _; omega, rfl, rfl, rfl, hp02.symm, sim.live, ⟨bc2, rfl, hwin2, by show 8 * ip2 + bc2 = _; omega⟩, n1, n2, n3⟩
  · simp only [h1, hnd, if_false, Bool.not_false, Bool.true_and, decide_false, Bool.false_eq_true]
    have hlog0 := log2_of_thr ok.nb1 ok.thr (by omega : ws.threshold ≤ ws2.remaining) (by have := ok.hi; omega)
    have enb : ws.nbBits = ws2.nbBits := by have := ok.nb1; have := ok2.nb1; omega
    have ethr : ws.threshold = ws2.threshold := by rw [ok.thr, ok2.thr, enb]
    exact ⟨by show rs.charnum + 1 = _; omega, rfl, ethr, enb, hp02.symm, sim.live, ⟨bc2, rfl, hwin2, by show 8 * ip2 + bc2 = _; omega⟩, n1, n2, n3⟩

/-- FSE_readNCount_body, the count part of the last turn (`remaining` reaches 1): the loop is left without a refill -/
theorem readCount_last {iend m L : Nat} {b : Bytes} {norm : Array Int} {N : Nat} {ws : WS} {rs : RS}
    (sim : Sim N iend norm m ws rs) (ok : WOK norm L ws) (hlive : 1 < ws.remaining)
    (hrem3 : remOf norm ws = if norm[ws.symbol]! ≥ 0 then ws.remaining - norm[ws.symbol]! else ws.remaining + norm[ws.symbol]!)
    (hrem1 : remOf norm ws = 1) (bcw : Int) (hcf : countField rs = (norm[ws.symbol]!, bcw)) (hm : ws.symbol < m) :
    (readCount b iend m rs).done = true ∧ (readCount b iend m rs).remaining = 1 ∧ (readCount b iend m rs).charnum = ws.symbol + 1 ∧
      (readCount b iend m rs).ip = rs.ip ∧ (readCount b iend m rs).bitCount = bcw ∧
      (readCount b iend m rs).norm = rs.norm.set! rs.charnum norm[ws.symbol]! := by
  have hch := sim.charnum
  have hnsz := sim.nsz
  have hcn : rs.charnum < rs.norm.size := by omega
  have h1 : (1 : Int) < ws.threshold := by have := ok.lo; have := ok.hi; omega
  unfold readCount
  simp only [Id.run, pure, hcf, sim.rem, sim.thr, sim.nb, ← hrem3, hrem1, hcn, if_true, h1, Int.le_refl, Bool.not_true, Bool.false_and,
    Bool.false_eq_true, if_false]
  exact ⟨trivial, trivial, by omega, trivial, trivial, trivial⟩

/-! ### G. runs of zero counts -/

/-- the fields of a run of `r` zero counts: `r/24` times sixteen 1-bits, `r%24/3` times `11`, then `r%3` on two bits -/
def zeroFields (r : Nat) : List (Nat × Nat) :=
  List.replicate (r / 24) (0xFFFF, 16) ++ (List.replicate (r % 24 / 3) (3, 2) ++ [(r % 3, 2)])

/-- the fields one turn of the main loop of FSE_writeNCount_generic emits -/
def turnFields (norm : Array Int) (A : Nat) (s : WS) : List (Nat × Nat) :=
  if s.previousIs0 then
    match zeroRun norm A s with
    | none => []
    | some s1 => zeroFields (s1.symbol - s.symbol) ++ [cfield norm s1]
  else [cfield norm s]

/-- the fields the main loop emits from state `s` on -/
def loopFields (norm : Array Int) (A : Nat) : Nat → WS → List (Nat × Nat)
  | 0, _ => []
  | fuel + 1, s =>
    if s.symbol < A ∧ s.remaining > 1 then
      match turn norm A s with
      | .next s1 => turnFields norm A s ++ loopFields norm A fuel s1
      | _ => []
    else []



theorem skipZeroCounts_spec (norm : Array Int) (A : Nat) : ∀ (fuel i : Nat), A - i ≤ fuel →
    i ≤ skipZeroCounts norm A fuel i ∧ (∀ k, i ≤ k → k < skipZeroCounts norm A fuel i → k < A ∧ norm[k]! = 0) ∧
    (skipZeroCounts norm A fuel i < A → norm[skipZeroCounts norm A fuel i]! ≠ 0) ∧ (i ≤ A → skipZeroCounts norm A fuel i ≤ A) := by
  intro fuel
  induction fuel with
  | zero =>
    intro i h
    unfold skipZeroCounts
    exact ⟨Nat.le_refl _, fun k h1 h2 => by omega, fun h2 => by omega, fun h => h⟩
  | succ fuel ih =>
    intro i h
    unfold skipZeroCounts
    by_cases c : i < A ∧ norm[i]! = 0
    · rw [if_pos c]
      obtain ⟨a1, a2, a3, a4⟩ := ih (i + 1) (by omega)
      refine ⟨by omega, ?_, a3, fun _ => a4 (by omega)⟩
      intro k h1 h2
      by_cases e : k = i
      · subst e; exact c
      · exact a2 k (by omega) h2
    · rw [if_neg c]
      refine ⟨Nat.le_refl _, fun k h1 h2 => by omega, fun h2 h0 => c ⟨h2, h0⟩, fun h => h⟩

theorem run24_spec (symbol : Nat) : ∀ (fuel : Nat) (c : BC) (start : Nat) (pre : List (Nat × Nat)), WRep c pre → c.bitCount ≤ 16 →
    start ≤ symbol → (symbol - start) / 24 < fuel →
    WRep (run24 symbol fuel c start).1 (pre ++ List.replicate ((symbol - start) / 24) (0xFFFF, 16)) ∧
    (run24 symbol fuel c start).1.bitCount = c.bitCount ∧ (run24 symbol fuel c start).2 = start + 24 * ((symbol - start) / 24) := by
  intro fuel
  induction fuel with
  | zero => intro c start pre _ _ _ h; omega
  | succ fuel ih =>
    intro c start pre rep hbc hs hf
    unfold run24
    by_cases h : symbol ≥ start + 24
    · rw [if_pos h]
      have r1 := rep_add rep 0xFFFF 16 (by decide) (by omega)
      have r2 := rep_flush _ _ _ r1 (by show 16 ≤ c.bitCount + 16; omega)
      have r3 : WRep (c.addS 0xFFFF).flush16 (pre ++ [(0xFFFF, 16)]) := by
        have e : c.bitCount + 16 - 16 = c.bitCount := by omega
        have := r2
        simp only [BC.addS] at this
        rw [e] at this
        exact this
      obtain ⟨a1, a2, a3⟩ := ih (c.addS 0xFFFF).flush16 (start + 24) _ r3 hbc (by omega)
        (by have : (symbol - (start + 24)) / 24 = (symbol - start) / 24 - 1 := by omega
            omega)
      have e2 : (symbol - start) / 24 = (symbol - (start + 24)) / 24 + 1 := by omega
      refine ⟨?_, a2, by rw [a3]; omega⟩
      rw [e2, List.replicate_succ]
      simpa [List.append_assoc] using a1
    · rw [if_neg h]
      have e : (symbol - start) / 24 = 0 := by omega
      rw [e]
      exact ⟨by simpa using rep, rfl, by omega⟩

theorem run3_spec (symbol : Nat) : ∀ (fuel : Nat) (c : BC) (start : Nat) (pre : List (Nat × Nat)), WRep c pre →
    start ≤ symbol → (symbol - start) / 3 < fuel → c.bitCount + 2 * ((symbol - start) / 3) ≤ 32 →
    WRep (run3 symbol fuel c start).1 (pre ++ List.replicate ((symbol - start) / 3) (3, 2)) ∧
    (run3 symbol fuel c start).1.bitCount = c.bitCount + 2 * ((symbol - start) / 3) ∧
    (run3 symbol fuel c start).2 = start + 3 * ((symbol - start) / 3) := by
  intro fuel
  induction fuel with
  | zero => intro c start pre _ _ h; omega
  | succ fuel ih =>
    intro c start pre rep hs hf hbc
    unfold run3
    by_cases h : symbol ≥ start + 3
    · rw [if_pos h]
      have e2 : (symbol - start) / 3 = (symbol - (start + 3)) / 3 + 1 := by omega
      have r1 := rep_add rep 3 2 (by decide) (by omega)
      obtain ⟨a1, a2, a3⟩ := ih ((c.addS 3).incr 2) (start + 3) _ r1 (by omega) (by omega)
        (by show c.bitCount + 2 + _ ≤ 32; omega)
      refine ⟨?_, by rw [a2]; show c.bitCount + 2 + _ = _; omega, by rw [a3]; omega⟩
      rw [e2, List.replicate_succ]
      simpa [List.append_assoc] using a1
    · rw [if_neg h]
      have e : (symbol - start) / 3 = 0 := by omega
      rw [e]
      exact ⟨by simpa using rep, rfl, by omega⟩

theorem tl_zero_run {norm : Array Int} {i : Nat} : ∀ (d : Nat), i + d ≤ norm.size → (∀ k, i ≤ k → k < i + d → norm[k]! = 0) →
    tl norm i = tl norm (i + d) := by
  intro d
  induction d with
  | zero => intro _ _; rfl
  | succ d ih =>
    intro h hz
    rw [ih (by omega) (fun k h1 h2 => hz k h1 (by omega)), tl_succ (by omega : i + d < norm.size)]
    have : cnt norm (i + d) = 0 := by simp [cnt, hz (i + d) (by omega) (by omega)]
    rw [this, Nat.zero_add]; rfl

/-- the container behind the zero run that ends at symbol `j` -/
def zrC (s : WS) (j : Nat) : BC :=
  (((run3 j 8 (run24 j (j / 24 + 1) s.c s.symbol).1 (run24 j (j / 24 + 1) s.c s.symbol).2).1.addS
    (j - (run3 j 8 (run24 j (j / 24 + 1) s.c s.symbol).1 (run24 j (j / 24 + 1) s.c s.symbol).2).2)).incr 2).flushIfOver16

theorem zrC_spec (s : WS) (j : Nat) (pre : List (Nat × Nat)) (rep : WRep s.c pre) (hbc : s.c.bitCount ≤ 16) (k1 : s.symbol ≤ j) :
    WRep (zrC s j) (pre ++ zeroFields (j - s.symbol)) ∧ (zrC s j).bitCount ≤ 16 := by
  obtain ⟨a1, a2, a3⟩ := run24_spec j (j / 24 + 1) s.c s.symbol pre rep hbc k1
    (by have : (j - s.symbol) / 24 ≤ j / 24 := Nat.div_le_div_right (by omega); omega)
  have e1 : j - (run24 j (j / 24 + 1) s.c s.symbol).2 = (j - s.symbol) % 24 := by rw [a3]; omega
  obtain ⟨b1, b2, b3⟩ := run3_spec j 8 (run24 j (j / 24 + 1) s.c s.symbol).1 (run24 j (j / 24 + 1) s.c s.symbol).2 _ a1
    (by rw [a3]; omega) (by rw [e1]; omega) (by rw [a2, e1]; omega)
  rw [e1] at b1 b2 b3
  have e2 : j - (run3 j 8 (run24 j (j / 24 + 1) s.c s.symbol).1 (run24 j (j / 24 + 1) s.c s.symbol).2).2 = (j - s.symbol) % 3 := by
    rw [b3, a3]; omega
  have c1 := rep_add b1 ((j - s.symbol) % 3) 2 (by omega) (by rw [b2, a2]; omega)
  have c2 := rep_flushIfOver16 c1 (by
    show (run3 j 8 (run24 j (j / 24 + 1) s.c s.symbol).1 (run24 j (j / 24 + 1) s.c s.symbol).2).1.bitCount + 2 ≤ 32
    rw [b2, a2]; omega)
  unfold zrC
  rw [e2]
  unfold zeroFields
  exact ⟨by simpa [List.append_assoc] using c2.1, c2.2⟩

/-- FSE_writeNCount_generic, the zero-run part of one turn, on a distribution whose last count is not zero: never the `break`; the
fields `zeroFields` of the run are appended, only `symbol` and the container move -/
theorem zeroRun_spec {norm : Array Int} {L : Nat} {s : WS} (ok : WOK norm L s) (hs : s.symbol < norm.size)
    (hlast : norm[norm.size - 1]! ≠ 0) (pre : List (Nat × Nat)) (rep : WRep s.c pre) :
    ∃ j, zeroRun norm norm.size s = some { s with c := zrC s j, symbol := j } ∧ WOK norm L { s with c := zrC s j, symbol := j } ∧
      s.symbol ≤ j ∧ j < norm.size ∧ (∀ k, s.symbol ≤ k → k < j → norm[k]! = 0) ∧
      WRep (zrC s j) (pre ++ zeroFields (j - s.symbol)) := by
  obtain ⟨k1, k2, k3, k4⟩ := skipZeroCounts_spec norm norm.size norm.size s.symbol (by omega)
  generalize hj : skipZeroCounts norm norm.size norm.size s.symbol = j at *
  have hjA : j < norm.size := by
    have := k4 (by omega)
    rcases Nat.lt_or_ge j norm.size with h | h
    · exact h
    · have := (k2 (norm.size - 1) (by omega) (by omega)).2
      exact absurd this hlast
  have hne : (j == norm.size) = false := by simp only [beq_eq_false_iff_ne, ne_eq]; omega
  obtain ⟨z1, z2⟩ := zrC_spec s j pre rep ok.bc k1
  refine ⟨j, ?_, ?_, k1, hjA, fun k h1 h2 => (k2 k h1 h2).2, z1⟩
  · unfold zeroRun; simp only [hj, hne, Bool.false_eq_true, if_false]; rfl
  · refine ⟨by show j ≤ norm.size; omega, ?_, ok.thr, ok.nb1, ok.nbL, ok.lo, ok.hi, z2⟩
    show s.remaining = (tl norm j : Int) + 1
    obtain ⟨d, rfl⟩ : ∃ d, j = s.symbol + d := ⟨j - s.symbol, by omega⟩
    rw [ok.rem, tl_zero_run d (by omega) (fun k h1 h2 => (k2 k h1 h2).2)]

theorem val_ones (w : Nat) (X : List (Nat × Nat)) : ∀ a : Nat,
    val (List.replicate a (2 ^ w - 1, w) ++ X) + 1 = 2 ^ (w * a) * (val X + 1) ∧
    bits (List.replicate a (2 ^ w - 1, w) ++ X) = w * a + bits X := by
  intro a
  induction a with
  | zero => simp
  | succ a ih =>
    obtain ⟨i1, i2⟩ := ih
    have hp := Nat.two_pow_pos w
    rw [List.replicate_succ, List.cons_append]
    refine ⟨?_, by simp only [bits, i2, Nat.mul_succ]; omega⟩
    simp only [val]
    have : 2 ^ w - 1 + 2 ^ w * val (List.replicate a (2 ^ w - 1, w) ++ X) + 1
        = 2 ^ w * (val (List.replicate a (2 ^ w - 1, w) ++ X) + 1) := by rw [Nat.mul_add, Nat.mul_one]; omega
    have e : 2 ^ (w * (a + 1)) = 2 ^ w * 2 ^ (w * a) := by rw [Nat.mul_succ, Nat.pow_add, Nat.mul_comm]
    rw [this, i1, e, Nat.mul_assoc]

/-- number of `11` pairs in front of the last 2-bit field of a run of `r` zero counts -/
def pairsOf (r : Nat) : Nat := 8 * (r / 24) + r % 24 / 3

theorem zeroFields_facts (r : Nat) :
    bits (zeroFields r) = 2 * pairsOf r + 2 ∧ val (zeroFields r) + 1 = 2 ^ (2 * pairsOf r) * (r % 3 + 1) ∧ Fit (zeroFields r) ∧
      r = 3 * pairsOf r + r % 3 := by
  obtain ⟨a1, a2⟩ := val_ones 2 [(r % 3, 2)] (r % 24 / 3)
  obtain ⟨b1, b2⟩ := val_ones 16 (List.replicate (r % 24 / 3) (3, 2) ++ [(r % 3, 2)]) (r / 24)
  have e1 : ((2 : Nat) ^ 2 - 1, 2) = (3, 2) := rfl
  have e2 : ((2 : Nat) ^ 16 - 1, 16) = (0xFFFF, 16) := rfl
  rw [e1] at a1 a2
  rw [e2] at b1 b2
  have hv : val [(r % 3, 2)] = r % 3 := by simp [val]
  have hb : bits [(r % 3, 2)] = 2 := by simp [bits]
  unfold zeroFields pairsOf
  refine ⟨by rw [b2, a2, hb]; omega, ?_, ?_, by omega⟩
  · rw [b1, a1, hv, ← Nat.mul_assoc, ← Nat.pow_add]
    congr 2; omega
  · intro f hf
    simp only [List.mem_append, List.mem_replicate, List.mem_singleton] at hf
    rcases hf with ⟨_, rfl⟩ | ⟨_, rfl⟩ | rfl
    · decide
    · decide
    · show r % 3 < 2 ^ 2; omega

theorem ones_mod (q : Nat) (hq : 1 ≤ q) : (2 ^ 24 * q - 1) % 2 ^ 24 = 2 ^ 24 - 1 ∧ (2 ^ 24 * q - 1) / 2 ^ 24 = q - 1 := by
  obtain ⟨p, rfl⟩ : ∃ p, q = p + 1 := ⟨q - 1, by omega⟩
  have e : 2 ^ 24 * (p + 1) - 1 = 2 ^ 24 * p + (2 ^ 24 - 1) := by omega
  rw [e, Nat.mul_add_mod, Nat.mul_add_div (by decide)]
  exact ⟨by decide, by simp⟩

/-- the `while (repeats >= 12)` loop of FSE_readNCount_body on `R` pending `11` pairs followed by a pair that is not `11`: it eats
`R / 12` groups of 12 pairs (24 bits, 36 symbols) and stops with `repeats = R % 12` -/
theorem zloop {b : Bytes} {iend : Nat} (h8 : 8 ≤ iend) : ∀ (fuel R ip bc bs cn f : Nat),
    Win (b.toNatLE 0 iend) iend ip bc bs →
    b.toNatLE 0 iend / 2 ^ (8 * ip + bc) % 2 ^ (2 * R) = 2 ^ (2 * R) - 1 →
    b.toNatLE 0 iend / 2 ^ (8 * ip + bc + 2 * R) % 4 = f → f < 3 → 8 * ip + bc + 2 * R + 2 ≤ 8 * iend → R / 12 < fuel →
    ∃ ip2 bc2 bs2 : Nat, recLoop (zStep b iend) fuel (reps bs, ip, (bc : Int), bs, cn) = (R % 12, ip2, (bc2 : Int), bs2, cn + 36 * (R / 12)) ∧
      Win (b.toNatLE 0 iend) iend ip2 bc2 bs2 ∧ 8 * ip2 + bc2 = 8 * ip + bc + 24 * (R / 12) := by
  have hNlt : b.toNatLE 0 iend < 2 ^ (8 * iend) := ByteArray.toNatLE_lt b 0 iend
  intro fuel
  induction fuel with
  | zero => intro R ip bc bs cn f _ _ _ _ _ h; omega
  | succ fuel ih =>
    intro R ip bc bs cn f w h1 h2 hf hend hfu
    conv => enter [1, ip2, 1, bc2, 1, bs2, 1, 1]; unfold recLoop
    by_cases hR : R < 12
    · have m := w.mod hNlt (2 * R + 2) (by omega)
      have p1 := BitR.window_mod _ _ _ 0 (2 * R) m (by omega)
      have p2 := BitR.window_mod _ _ _ (2 * R) 2 m (by omega)
      rw [Nat.pow_zero, Nat.div_one, Nat.div_one, h1] at p1
      rw [Nat.div_div_eq_div_mul, ← Nat.pow_add, h2] at p2
      have hreps := reps_eq bs R f w.lt (by omega) p1 p2 hf
      have hst : zStep b iend (reps bs, ip, (bc : Int), bs, cn) = .done (R, ip, (bc : Int), bs, cn) := by
        unfold zStep; simp only [hreps, hR, if_true]
      refine ⟨ip, bc, bs, ?_, w, by omega⟩
      rw [hst, Nat.mod_eq_of_lt hR, show R / 12 = 0 by omega]
      rfl
    · have e2R : 2 ^ (2 * R) = 2 ^ 24 * 2 ^ (2 * R - 24) := by rw [← Nat.pow_add]; congr 1; omega
      have hq : 1 ≤ 2 ^ (2 * R - 24) := Nat.two_pow_pos _
      obtain ⟨o1, o2⟩ := ones_mod _ hq
      have m := w.mod hNlt 24 (by omega)
      have hx24 : b.toNatLE 0 iend / 2 ^ (8 * ip + bc) % 2 ^ 24 = 2 ^ 24 - 1 := by
        rw [← Nat.mod_mod_of_dvd _ (Nat.pow_dvd_pow 2 (by omega : 24 ≤ 2 * R)), h1, e2R, o1]
      rw [hx24] at m
      have hge := reps_ge bs w.lt m
      have hn12 : ¬ reps bs < 12 := by omega
      -- the stream 24 bits further
      have hnext1 : b.toNatLE 0 iend / 2 ^ (8 * ip + bc + 24) % 2 ^ (2 * (R - 12)) = 2 ^ (2 * (R - 12)) - 1 := by
        rw [Nat.pow_add, ← Nat.div_div_eq_div_mul, show 2 * (R - 12) = 2 * R - 24 by omega, ← Nat.mod_mul_right_div_self, ← e2R, h1,
          e2R, o2]
      have hnext2 : b.toNatLE 0 iend / 2 ^ (8 * ip + bc + 24 + 2 * (R - 12)) % 4 = f := by
        rw [show 8 * ip + bc + 24 + 2 * (R - 12) = 8 * ip + bc + 2 * R by omega]; exact h2
      by_cases c7 : ip + 7 ≤ iend
      · have hst : zStep b iend (reps bs, ip, (bc : Int), bs, cn) =
            .yield (reps (b.le32 (ip + 3) >>> bc), ip + 3, (bc : Int), b.le32 (ip + 3) >>> bc, cn + 36) := by
          unfold zStep; simp only [hn12, if_false, Int.toNat_natCast, c7, if_true]
        have hbc7 : bc ≤ 7 := by rcases w.near with h | h <;> omega
        have w2 := win_load b iend (ip + 3) bc (by omega) (by omega) (Or.inl hbc7)
        obtain ⟨ip2, bc2, bs2, r1, r2, r3⟩ := ih (R - 12) (ip + 3) bc _ (cn + 36) f w2
          (by rw [show 8 * (ip + 3) + bc = 8 * ip + bc + 24 by omega]; exact hnext1)
          (by rw [show 8 * (ip + 3) + bc = 8 * ip + bc + 24 by omega]; exact hnext2) hf (by omega) (by omega)
        refine ⟨ip2, bc2, bs2, ?_, r2, by omega⟩
        rw [hst]
        show recLoop (zStep b iend) fuel (reps (b.le32 (ip + 3) >>> bc), ip + 3, (bc : Int), b.le32 (ip + 3) >>> bc, cn + 36) = _
        rw [r1, show (R - 12) % 12 = R % 12 by omega, show cn + 36 + 36 * ((R - 12) / 12) = cn + 36 * (R / 12) by omega]
      · have ebc : (((bc : Int) - 8 * (((iend - 7 : Nat) : Int) - (ip : Int))).toNat &&& 31) = 8 * ip + bc + 24 - 8 * (iend - 4) := by
          have hip := w.ip4
          have : ((bc : Int) - 8 * (((iend - 7 : Nat) : Int) - (ip : Int))).toNat = 8 * ip + bc + 24 - 8 * (iend - 4) := by omega
          rw [this, Nat.and_two_pow_sub_one_eq_mod _ 5]; omega
        have hst : zStep b iend (reps bs, ip, (bc : Int), bs, cn) =
            .yield (reps (b.le32 (iend - 4) >>> (8 * ip + bc + 24 - 8 * (iend - 4))), iend - 4,
              ((8 * ip + bc + 24 - 8 * (iend - 4) : Nat) : Int), b.le32 (iend - 4) >>> (8 * ip + bc + 24 - 8 * (iend - 4)), cn + 36) := by
          unfold zStep; simp only [hn12, if_false, c7, ebc, Int.toNat_natCast]
        have hip := w.ip4
        have w2 := win_load b iend (iend - 4) (8 * ip + bc + 24 - 8 * (iend - 4)) (by omega) (by omega) (Or.inr (by omega))
        obtain ⟨ip2, bc2, bs2, r1, r2, r3⟩ := ih (R - 12) (iend - 4) (8 * ip + bc + 24 - 8 * (iend - 4)) _ (cn + 36) f w2
          (by rw [show 8 * (iend - 4) + (8 * ip + bc + 24 - 8 * (iend - 4)) = 8 * ip + bc + 24 by omega]; exact hnext1)
          (by rw [show 8 * (iend - 4) + (8 * ip + bc + 24 - 8 * (iend - 4)) = 8 * ip + bc + 24 by omega]; exact hnext2) hf (by omega)
          (by omega)
        refine ⟨ip2, bc2, bs2, ?_, r2, by omega⟩
        rw [hst]
        show recLoop (zStep b iend) fuel (reps (b.le32 (iend - 4) >>> (8 * ip + bc + 24 - 8 * (iend - 4))), iend - 4,
              ((8 * ip + bc + 24 - 8 * (iend - 4) : Nat) : Int), b.le32 (iend - 4) >>> (8 * ip + bc + 24 - 8 * (iend - 4)), cn + 36) = _
        rw [r1, show (R - 12) % 12 = R % 12 by omega, show cn + 36 + 36 * ((R - 12) / 12) = cn + 36 * (R / 12) by omega]

/-- FSE_readNCount_body, the zero-run part of a turn, against the zero-run part of the writer's turn: the reader moves `charnum` to
the end of the run and its position behind the run's fields -/
theorem skipZeros_sim {iend m : Nat} {b : Bytes} {norm : Array Int} {ws : WS} {rs : RS} (h8 : 8 ≤ iend)
    (sim : Sim (b.toNatLE 0 iend) iend norm m ws rs) (j : Nat) (hj : ws.symbol ≤ j) (hjm : j < m)
    (hzero : ∀ k, ws.symbol ≤ k → k < j → norm[k]! = 0) (C : BC)
    (hposC : 8 * C.out.size + C.bitCount = 8 * ws.c.out.size + ws.c.bitCount + bits (zeroFields (j - ws.symbol)))
    (hbits : b.toNatLE 0 iend / 2 ^ (8 * ws.c.out.size + ws.c.bitCount) % 2 ^ bits (zeroFields (j - ws.symbol))
      = val (zeroFields (j - ws.symbol)))
    (hmore : 8 * ws.c.out.size + ws.c.bitCount + bits (zeroFields (j - ws.symbol)) < 8 * iend) :
    Sim (b.toNatLE 0 iend) iend norm m { ws with c := C, symbol := j } (skipZeros b iend m rs) := by
  have hNlt : b.toNatLE 0 iend < 2 ^ (8 * iend) := ByteArray.toNatLE_lt b 0 iend
  obtain ⟨bc, hbc, win, hP0⟩ := sim.win
  obtain ⟨z1, z2, z3, z4⟩ := zeroFields_facts (j - ws.symbol)
  generalize hR : pairsOf (j - ws.symbol) = R at *
  generalize hf : (j - ws.symbol) % 3 = f at *
  have hf3 : f < 3 := by omega
  rw [z1, ← hP0] at hbits hmore
  rw [z1] at hposC
  have hp := Nat.two_pow_pos (2 * R)
  have hZ : val (zeroFields (j - ws.symbol)) = 2 ^ (2 * R) * f + (2 ^ (2 * R) - 1) := by
    rw [Nat.mul_add, Nat.mul_one] at z2; omega
  rw [hZ] at hbits
  have e4 : 2 ^ (2 * R + 2) = 2 ^ (2 * R) * 4 := by rw [Nat.pow_add]
  have h1 : b.toNatLE 0 iend / 2 ^ (8 * rs.ip + bc) % 2 ^ (2 * R) = 2 ^ (2 * R) - 1 := by
    rw [← Nat.mod_mod_of_dvd _ (Nat.pow_dvd_pow 2 (by omega : 2 * R ≤ 2 * R + 2)), hbits, Nat.mul_add_mod,
      Nat.mod_eq_of_lt (by omega)]
  have h2 : b.toNatLE 0 iend / 2 ^ (8 * rs.ip + bc + 2 * R) % 4 = f := by
    rw [Nat.pow_add, ← Nat.div_div_eq_div_mul, ← Nat.mod_mul_right_div_self, ← e4, hbits, Nat.mul_add_div hp,
      Nat.div_eq_of_lt (by omega), Nat.add_zero]
  have hch := sim.charnum
  obtain ⟨ip2, bc2, bs2, l1, l2, l3⟩ := zloop h8 (m / 36 + 2) R rs.ip bc rs.bitStream rs.charnum f win h1 h2 hf3 (by omega) (by omega)
  have m2 := l2.mod hNlt (2 * (R % 12) + 2) (by omega)
  have p2 := BitR.window_mod _ _ _ (2 * (R % 12)) 2 m2 (by omega)
  rw [Nat.div_div_eq_div_mul, ← Nat.pow_add, show 8 * ip2 + bc2 + 2 * (R % 12) = 8 * rs.ip + bc + 2 * R by omega, h2] at p2
  have hlow : (bs2 >>> (2 * (R % 12))) &&& 3 = f := by
    rw [Nat.shiftRight_eq_div_pow, show (3 : Nat) = 2 ^ 2 - 1 from rfl, Nat.and_two_pow_sub_one_eq_mod]; exact p2
  have hbcN : bc2 + 2 * (R % 12) + 2 ≤ 31 := by rcases l2.near with h | h <;> omega
  obtain ⟨ip3, bc3, hre, hpe, hwin3⟩ := refill_spec b iend ip2 (bc2 + 2 * (R % 12) + 2) l2.ip4 hbcN (by omega)
  have ecast : (bc2 : Int) + 2 * ((R % 12 : Nat) : Int) + 2 = ((bc2 + 2 * (R % 12) + 2 : Nat) : Int) := by omega
  rw [skipZeros_eq]
  unfold skipZerosR
  simp only [hbc, l1, hlow, ecast, hre]
  have hcn : rs.charnum + 36 * (R / 12) + 3 * (R % 12) + f = j := by omega
  rw [hcn, if_neg (by omega)]
  refine ⟨rfl, sim.rem, sim.thr, sim.nb, sim.p0, sim.live, ⟨bc3, rfl, hwin3, by show 8 * ip3 + bc3 = 8 * C.out.size + C.bitCount; omega⟩,
    sim.nsz, ?_, ?_⟩
  · intro i hi
    have hi2 : i < j := hi
    show rs.norm[i]! = norm[i]!
    by_cases h : i < ws.symbol
    · exact sim.npre i h
    · rw [sim.nzero i (by omega) (by omega), hzero i (by omega) hi2]
  · intro i hi him
    exact sim.nzero i (by show ws.symbol ≤ i; have : j ≤ i := hi; omega) him

/-! ### H. the whole description -/

theorem live_rem {norm : Array Int} {L : Nat} {s : WS} (ok : WOK norm L s) (hs : s.symbol < norm.size)
    (hN : ∀ i, i < norm.size → -1 ≤ norm[i]!) (hlast : norm[norm.size - 1]! ≠ 0) : 1 < s.remaining := by
  have := tl_pos hs hlast (hN _ (by omega))
  rw [ok.rem]; omega

/-- one turn of the writer's main loop on a normalised distribution whose last count is not zero: never an error nor the `break`.
`s1` is the state between the zero-run part and the count part (`s` itself when the previous count was not 0), `zf` the fields of
the zero run -/
theorem turn_spec {norm : Array Int} {L : Nat} {s : WS} (ok : WOK norm L s) (hN : ∀ i, i < norm.size → -1 ≤ norm[i]!)
    (hs : s.symbol < norm.size) (hL : L ≤ 12) (hlast : norm[norm.size - 1]! ≠ 0) (pre : List (Nat × Nat)) (rep : WRep s.c pre) :
    ∃ s1 s2 zf, WOK norm L s1 ∧ s1.symbol < norm.size ∧ WRep s1.c (pre ++ zf) ∧ Fit zf ∧ writeCount norm s1 = some s2 ∧
      turn norm norm.size s = .next s2 ∧ turnFields norm norm.size s = zf ++ [cfield norm s1] ∧
      (s.previousIs0 = false → s1 = s ∧ zf = []) ∧
      (s.previousIs0 = true → ∃ j, s1 = { s with c := zrC s j, symbol := j } ∧ zf = zeroFields (j - s.symbol) ∧ s.symbol ≤ j ∧
        ∀ k, s.symbol ≤ k → k < j → norm[k]! = 0) := by
  by_cases hp : s.previousIs0 = true
  · obtain ⟨j, z1, z2, z3, z4, z5, z6⟩ := zeroRun_spec ok hs hlast pre rep
    obtain ⟨s2, h1, -⟩ := writeCount_spec z2 hN z4 hL
    refine ⟨_, s2, zeroFields (j - s.symbol), z2, z4, z6, (zeroFields_facts _).2.2.1, h1, ?_, ?_, (fun h => by rw [hp] at h; cases h),
      (fun _ => ⟨j, rfl, rfl, z3, z5⟩)⟩
    · unfold turn; rw [if_pos hp]; simp only [z1, h1]
    · unfold turnFields; rw [if_pos hp]; simp only [z1]
  · have hp2 : s.previousIs0 = false := by simpa using hp
    obtain ⟨s2, h1, -⟩ := writeCount_spec ok hN hs hL
    refine ⟨s, s2, [], ok, hs, by simpa using rep, fun f hf => by simp at hf, h1, ?_, ?_, (fun _ => ⟨rfl, rfl⟩),
      (fun h => by rw [hp2] at h; cases h)⟩
    · unfold turn; simp only [hp2, Bool.false_eq_true, if_false, h1]
    · unfold turnFields; simp only [hp2, Bool.false_eq_true, if_false, List.nil_append]

/-- the main loop of the writer on a normalised distribution whose last count is not zero: no error, `remaining` ends at 1, the
container spells the fields `loopFields` behind what it held -/
theorem mainLoop_spec {norm : Array Int} {L : Nat} (hN : ∀ i, i < norm.size → -1 ≤ norm[i]!) (hlast : norm[norm.size - 1]! ≠ 0)
    (hL : L ≤ 12) : ∀ (fuel : Nat) (s : WS) (pre : List (Nat × Nat)), WOK norm L s → WRep s.c pre →
    norm.size - s.symbol ≤ fuel →
    ∃ sF, mainLoop norm norm.size fuel s = some sF ∧ WRep sF.c (pre ++ loopFields norm norm.size fuel s) ∧ sF.remaining = 1 ∧
      sF.c.bitCount ≤ 16 ∧ Fit (loopFields norm norm.size fuel s) := by
  intro fuel
  induction fuel with
  | zero =>
    intro s pre ok rep hf
    have hsym := ok.sym
    have : s.symbol = norm.size := by omega
    refine ⟨s, rfl, by simpa [loopFields] using rep, ?_, ok.bc, by intro f hf; simp [loopFields] at hf⟩
    rw [ok.rem, this, tl_size]; rfl
  | succ fuel ih =>
    intro s pre ok rep hf
    by_cases hs : s.symbol < norm.size
    · have hr := live_rem ok hs hN hlast
      obtain ⟨s1, s2, zf, ok1, hs1, rep1, fit1, w1, w2, w3, c0, c1⟩ := turn_spec ok hN hs hL hlast pre rep
      obtain ⟨s2', w1', ok2, hsym2, hrem2, hp2, hfit, hw13, hw1, hrep⟩ := writeCount_spec ok1 hN hs1 hL
      rw [w1] at w1'; cases w1'
      have hmono : s.symbol < s2.symbol := by
        have h1 : s.symbol ≤ s1.symbol := by
          by_cases hp : s.previousIs0 = true
          · obtain ⟨j, e1, -, e3, -⟩ := c1 hp
            rw [e1]; exact e3
          · rw [(c0 (by simpa using hp)).1]; exact Nat.le_refl _
        omega
      obtain ⟨sF, f1, f2, f3, f4, f5⟩ := ih s2 (pre ++ zf ++ [cfield norm s1]) ok2 (hrep _ rep1) (by omega)
      have hlf : loopFields norm norm.size (fuel + 1) s = zf ++ [cfield norm s1] ++ loopFields norm norm.size fuel s2 := by
        conv => lhs; unfold loopFields
        rw [if_pos ⟨hs, hr⟩, w2, w3]
      refine ⟨sF, ?_, ?_, f3, f4, ?_⟩
      · unfold mainLoop; rw [if_pos ⟨hs, hr⟩, w2]; exact f1
      · rw [hlf]; simpa [List.append_assoc] using f2
      · rw [hlf]; exact fit_append (fit_append fit1 (fun f hf => by simp at hf; subst hf; exact hfit)) f5
    · have hsym := ok.sym
      have : s.symbol = norm.size := by omega
      refine ⟨s, ?_, ?_, ?_, ok.bc, ?_⟩
      · unfold mainLoop; rw [if_neg (by omega)]
      · unfold loopFields; rw [if_neg (by omega)]; simpa using rep
      · rw [ok.rem, this, tl_size]; rfl
      · unfold loopFields; rw [if_neg (by omega)]; intro f hf; simp at hf

theorem recLoop_done (b : Bytes) (iend m : Nat) (rs : RS) (h : rs.done = true) : ∀ n, recLoop (rStep b iend m) n rs = rs := by
  intro n
  cases n with
  | zero => rfl
  | succ n => unfold recLoop rStep; simp only [h, if_true]

/-- what the reader's loop leaves behind on a description: see `sim_run_noZero` -/
structure Final (norm : Array Int) (m T : Nat) (rs : RS) : Prop where
  rem : rs.remaining = 1
  charnum : rs.charnum = norm.size
  pos : ∃ bc : Nat, rs.bitCount = (bc : Int) ∧ 8 * rs.ip + bc = T ∧ bc ≤ 32
  nsz : rs.norm.size = m
  npre : ∀ i, i < norm.size → rs.norm[i]! = norm[i]!

/-- the main loop of the reader on the fields the writer's main loop emits: it stops behind the last count, exactly at the end of the
fields, with the distribution in its array -/
theorem sim_run {iend m L : Nat} {b : Bytes} {norm : Array Int} (h8 : 8 ≤ iend) (hN : ∀ i, i < norm.size → -1 ≤ norm[i]!)
    (hlast : norm[norm.size - 1]! ≠ 0) (hL : L ≤ 12) (hm : norm.size ≤ m) :
    ∀ (fuel : Nat) (ws : WS) (rs : RS) (pre : List (Nat × Nat)), WOK norm L ws → WRep ws.c pre →
    Sim (b.toNatLE 0 iend) iend norm m ws rs → ws.symbol < norm.size → norm.size - ws.symbol ≤ fuel →
    b.toNatLE 0 iend / 2 ^ bits pre % 2 ^ bits (loopFields norm norm.size fuel ws) = val (loopFields norm norm.size fuel ws) →
    bits pre + bits (loopFields norm norm.size fuel ws) ≤ 8 * iend →
    ∃ rsF, (∀ n, fuel < n → recLoop (rStep b iend m) n rs = rsF) ∧
      Final norm m (bits pre + bits (loopFields norm norm.size fuel ws)) rsF := by
  have hNlt : b.toNatLE 0 iend < 2 ^ (8 * iend) := ByteArray.toNatLE_lt b 0 iend
  intro fuel
  induction fuel with
  | zero => intro ws rs pre ok rep sim hs hf; omega
  | succ fuel ih =>
    intro ws0 rs0 pre0 ok0 rep0 sim0 hs0 hf0 hbits0 hend0
    have hr0 := live_rem ok0 hs0 hN hlast
    obtain ⟨ws, s2, zf, ok, hs, rep, fitz, w1, w2, w3, c0, c1⟩ := turn_spec ok0 hN hs0 hL hlast pre0 rep0
    obtain ⟨s2', w1', ok2, hsym2, hrem2, hp2, hfit, hw13, hw1, hrep⟩ := writeCount_spec ok hN hs hL
    rw [w1] at w1'; cases w1'
    have hr := live_rem ok hs hN hlast
    have hlf : loopFields norm norm.size (fuel + 1) ws0 = zf ++ ([cfield norm ws] ++ loopFields norm norm.size fuel s2) := by
      conv => lhs; unfold loopFields
      rw [if_pos ⟨hs0, hr0⟩, w2, w3]
      exact List.append_assoc _ _ _
    rw [hlf] at hbits0 hend0 ⊢
    obtain ⟨gz1, gz2⟩ := take_fields _ _ _ _ fitz hbits0
    rw [bits_append] at hend0 ⊢
    have hb1 : bits [cfield norm ws] = (cfield norm ws).2 := by simp [bits]
    have hbcf : 1 ≤ (cfield norm ws).2 := hw1 hr
    have hcfl : 1 ≤ bits ([cfield norm ws] ++ loopFields norm norm.size fuel s2) := by rw [bits_append, hb1]; omega
    -- the zero-run part: a reader state `rs` that stands where `ws` stands, and the loop continues with `readCount rs`
    have hmid : ∃ rs, Sim (b.toNatLE 0 iend) iend norm m ws rs ∧
        ∀ n, recLoop (rStep b iend m) (n + 1) rs0 = recLoop (rStep b iend m) n (readCount b iend m rs) := by
      have hnd : rs0.done = false := sim0.live
      by_cases hp : ws0.previousIs0 = true
      · obtain ⟨j, e1, e2, e3, e4⟩ := c1 hp
        have hPt := rep0.t
        have hPt2 := rep.t
        rw [bits_append] at hPt2
        have hsk := skipZeros_sim h8 sim0 j e3 (by rw [e1] at hs; have : j < norm.size := hs; omega) e4 (zrC ws0 j)
          (by rw [e1] at hPt2; rw [← e2]; have h : 8 * (zrC ws0 j).out.size + (zrC ws0 j).bitCount = bits pre0 + bits zf := hPt2
              omega)
          (by rw [← e2, hPt]; exact gz1)
          (by rw [← e2, hPt]; omega)
        rw [← e1] at hsk
        refine ⟨skipZeros b iend m rs0, hsk, ?_⟩
        intro n
        have hnp : rs0.previous0 = true := by rw [sim0.p0, hp]
        have hst : rStep b iend m rs0 = .yield (readCount b iend m (skipZeros b iend m rs0)) := by
          unfold rStep; simp only [hnd, hnp, hsk.live, Bool.false_eq_true, if_false, if_true]
        conv => lhs; unfold recLoop
        rw [hst]
      · have hpf : ws0.previousIs0 = false := by simpa using hp
        obtain ⟨e1, e2⟩ := c0 hpf
        refine ⟨rs0, by rw [e1]; exact sim0, ?_⟩
        intro n
        have hnp : rs0.previous0 = false := by rw [sim0.p0, hpf]
        have hst : rStep b iend m rs0 = .yield (readCount b iend m rs0) := by
          unfold rStep; simp only [hnd, hnp, Bool.false_eq_true, if_false]
        conv => lhs; unfold recLoop
        rw [hst]
    obtain ⟨rs, sim, hstep⟩ := hmid
    have hmono : ws0.symbol ≤ ws.symbol := by
      by_cases hp : ws0.previousIs0 = true
      · obtain ⟨j, e1, -, e3, -⟩ := c1 hp
        rw [e1]; exact e3
      · rw [(c0 (by simpa using hp)).1]; exact Nat.le_refl _
    have hbits : b.toNatLE 0 iend / 2 ^ bits (pre0 ++ zf) % 2 ^ bits ([cfield norm ws] ++ loopFields norm norm.size fuel s2)
        = val ([cfield norm ws] ++ loopFields norm norm.size fuel s2) := by rw [bits_append pre0 zf]; exact gz2
    have hend : bits (pre0 ++ zf) + bits ([cfield norm ws] ++ loopFields norm norm.size fuel s2) ≤ 8 * iend := by
      rw [bits_append pre0 zf]; omega
    have hTot : bits pre0 + (bits zf + bits ([cfield norm ws] ++ loopFields norm norm.size fuel s2))
        = bits (pre0 ++ zf) + bits ([cfield norm ws] ++ loopFields norm norm.size fuel s2) := by rw [bits_append pre0 zf]; omega
    rw [hTot]
    generalize pre0 ++ zf = pre at *
    clear hTot hbits0 hend0 gz1 gz2 c0 c1 hlf
    obtain ⟨f1, f2, f3, f4, f5, f6, f7, f8, f9⟩ := count_facts ok hN hs
    obtain ⟨bc, hbc, win, hP0⟩ := sim.win
    have hPt := rep.t
    have rep2 := hrep pre rep
    have hPt2 := rep2.t
    rw [bits_append] at hPt2
    have hb1 : bits [cfield norm ws] = (cfield norm ws).2 := by simp [bits]
    obtain ⟨g1, g2⟩ := take_fields _ _ _ _ (fun f hf => by simp at hf; subst hf; exact hfit) hbits
    rw [hb1] at g1 g2 hPt2
    have hv1 : val [cfield norm ws] = (cfield norm ws).1 := by simp [val]
    rw [hv1, ← hPt, ← hP0] at g1
    have hcf := countField_sim sim ok hN hs hL hNlt bc hbc win g1
    rw [bits_append, hb1] at hend ⊢
    by_cases hs2 : s2.symbol < norm.size
    · have hr2 := live_rem ok2 hs2 hN hlast
      -- the next field has at least one bit
      have hfuel : ∃ k, fuel = k + 1 := ⟨fuel - 1, by omega⟩
      obtain ⟨k, rfl⟩ := hfuel
      have hb2 : 1 ≤ bits (loopFields norm norm.size (k + 1) s2) := by
        obtain ⟨t1, t3, tz, tok1, ths1, -, -, tw1, tw2, tw3, -, -⟩ := turn_spec ok2 hN hs2 hL hlast _ rep2
        obtain ⟨_, _, _, _, _, _, _, _, thw1, _⟩ := writeCount_spec tok1 hN ths1 hL
        have := thw1 (live_rem tok1 ths1 hN hlast)
        conv => rhs; unfold loopFields
        rw [if_pos ⟨hs2, hr2⟩, tw2, tw3, bits_append, bits_append]; simp only [bits]; omega
      have sim2 := readCount_next sim ok ok2 hsym2 hrem2 f9 f8 hp2 bc (cfield norm ws).2 hw13 (by omega) hbc win hP0 hcf
        hr2 (by omega) (by omega)
      obtain ⟨rsF, r1, r2⟩ := ih s2 (readCount b iend m rs) (pre ++ [cfield norm ws]) ok2 rep2 sim2 hs2 (by omega)
        (by rw [bits_append, hb1]; exact g2) (by rw [bits_append, hb1]; omega)
      refine ⟨rsF, ?_, ?_⟩
      · intro n hn
        obtain ⟨n', rfl⟩ : ∃ n', n = n' + 1 := ⟨n - 1, by omega⟩
        rw [hstep]; exact r1 n' (by omega)
      · rw [bits_append, hb1, Nat.add_assoc] at r2; exact r2
    · have hsz : s2.symbol = norm.size := by have := ok2.sym; omega
      have hrem1 : remOf norm ws = 1 := by rw [f7, ← hsym2, hsz, tl_size]; rfl
      obtain ⟨l1, l2, l3, l4, l5, l6⟩ := readCount_last (b := b) sim ok hr f9 hrem1 _ hcf (by omega)
      have hlf2 : loopFields norm norm.size fuel s2 = [] := by
        cases fuel with
        | zero => rfl
        | succ k => unfold loopFields; rw [if_neg (by omega)]
      refine ⟨readCount b iend m rs, ?_, ?_⟩
      · intro n hn
        obtain ⟨n', rfl⟩ : ∃ n', n = n' + 1 := ⟨n - 1, by omega⟩
        rw [hstep, recLoop_done b iend m _ l1]
      · rw [hlf2] at hend ⊢
        simp only [bits, Nat.add_zero] at hend ⊢
        have hch := sim.charnum
        have hnsz := sim.nsz
        refine ⟨l2, by rw [l3]; omega, ⟨bc + (cfield norm ws).2, l5, by rw [l4]; omega, ?_⟩, by rw [l6]; simpa using hnsz, ?_⟩
        · rcases win.near with h | h <;> omega
        · intro i hi
          rw [l6]
          by_cases e : rs.charnum = i
          · subst e; rw [getBang_set_eq _ _ _ (by omega), hch]
          · rw [getBang_set_ne _ _ _ _ e]; exact sim.npre i (by omega)

/-! #### the bytes of the description -/

theorem u8_extract_lt (src : ByteArray) (s e i : Nat) (h1 : s + i < e) (h2 : s + i < src.size) :
    (src.extract s e).u8 i = src.u8 (s + i) := by
  have hi : i < (src.extract s e).size := by rw [ByteArray.size_extract]; omega
  rw [ByteArray.u8_of_lt _ _ hi, ByteArray.u8_of_lt _ _ h2, ByteArray.getElem_extract]

theorem toNatLE_prefix (b : ByteArray) (a c : Nat) : b.toNatLE 0 (a + c) % 2 ^ (8 * a) = b.toNatLE 0 a := by
  rw [ByteArray.toNatLE_add, Nat.add_mul_mod_self_left, Nat.mod_eq_of_lt (ByteArray.toNatLE_lt b 0 a)]

/-- the last flush of FSE_writeNCount_generic (`out[0] = bitStream; out[1] = bitStream>>8; out += (bitCount+7)/8`): the bytes
returned spell exactly the fields -/
theorem final_bytes (c : BC) (all : List (Nat × Nat)) (h : WRep c all) (hfit : Fit all) (hbc : c.bitCount ≤ 16) :
    (c.flush16.out.extract 0 (c.out.size + (c.bitCount + 7) / 8)).size = (bits all + 7) / 8 ∧
    (c.flush16.out.extract 0 (c.out.size + (c.bitCount + 7) / 8)).toNatLE 0 ((bits all + 7) / 8) = val all := by
  obtain ⟨hv, ht, hl⟩ := h
  have hV := val_lt all hfit
  have hXs : c.flush16.out.size = c.out.size + 1 + 1 := by
    show ((c.out.push _).push _).size = _
    rw [ByteArray.size_push, ByteArray.size_push]
  have hk : (bits all + 7) / 8 = c.out.size + (c.bitCount + 7) / 8 := by omega
  have hsz : (c.flush16.out.extract 0 (c.out.size + (c.bitCount + 7) / 8)).size = (bits all + 7) / 8 := by
    rw [ByteArray.size_extract, hXs]; omega
  refine ⟨hsz, ?_⟩
  have e1 : (c.flush16.out.extract 0 (c.out.size + (c.bitCount + 7) / 8)).toNatLE 0 ((bits all + 7) / 8)
      = c.flush16.out.toNatLE 0 ((bits all + 7) / 8) := by
    apply ByteArray.toNatLE_congr
    intro i hi
    rw [u8_extract_lt _ _ _ _ (by omega) (by rw [hXs]; omega), Nat.zero_add]
  rw [e1]
  have fv := flush_val c.out c.bitStream
  have hbs0 : c.bitStream >>> 16 = 0 := by
    rw [Nat.shiftRight_eq_div_pow]
    exact Nat.div_eq_of_lt (Nat.lt_of_lt_of_le hl (Nat.pow_le_pow_right (by omega) hbc))
  rw [hbs0, Nat.mul_zero, Nat.add_zero, hv] at fv
  obtain ⟨d, hd⟩ : ∃ d, c.out.size + 1 + 1 = (bits all + 7) / 8 + d := ⟨c.out.size + 2 - (bits all + 7) / 8, by omega⟩
  have := toNatLE_prefix c.flush16.out ((bits all + 7) / 8) d
  rw [← hd] at this
  have fv' : c.flush16.out.toNatLE 0 (c.out.size + 1 + 1) = val all := fv
  rw [fv'] at this
  rw [← this]
  exact Nat.mod_eq_of_lt (Nat.lt_of_lt_of_le hV (Nat.pow_le_pow_right (by omega) (by omega)))

/-- the state in front of the main loop -/
theorem init_spec {norm : Array Int} {L : Nat} (hN : NormOK norm L) (hL5 : 5 ≤ L) (hL12 : L ≤ 12) :
    WOK norm L (initState L) ∧ WRep (initState L).c [(L - 5, 4)] ∧ (initState L).previousIs0 = false ∧ (initState L).symbol = 0 := by
  obtain ⟨hL1, hge, hsum⟩ := hN
  have h0 : WRep (BC.mk ByteArray.empty 0 0) [] := ⟨by simp [ByteArray.toNatLE, val], by simp [bits], by simp⟩
  have e : (L + 2 ^ 32 - Gen.FSE_MIN_TABLELOG) % 2 ^ 32 = L - 5 := by unfold Gen.FSE_MIN_TABLELOG; omega
  have h1 := rep_add h0 (L - 5) 4 (by omega) (by show 0 + 4 ≤ 32; omega)
  have hp : 2 ≤ 2 ^ L := by
    have := Nat.pow_le_pow_right (show 0 < 2 by omega) hL1
    omega
  refine ⟨⟨Nat.zero_le _, ?_, ?_, by show 1 ≤ L + 1; omega, by show L + 1 ≤ L + 1; omega, ?_, ?_, by show 0 + 4 ≤ 16; omega⟩, ?_, rfl, rfl⟩
  · show (((1 <<< L : Nat) : Int)) + 1 = (tl norm 0 : Int) + 1
    unfold tl
    rw [hsum, Nat.shiftLeft_eq, Nat.one_mul]
    simp [startOf]
  · show ((1 <<< L : Nat) : Int) = ((2 ^ (L + 1 - 1) : Nat) : Int)
    rw [Nat.shiftLeft_eq, Nat.one_mul, Nat.add_sub_cancel]
  · show ((1 <<< L : Nat) : Int) ≤ ((1 <<< L : Nat) : Int) + 1
    omega
  · show ((1 <<< L : Nat) : Int) + 1 < 2 * ((1 <<< L : Nat) : Int)
    rw [Nat.shiftLeft_eq, Nat.one_mul]; omega
  · show WRep (((BC.mk ByteArray.empty 0 0).addS ((L + 2 ^ 32 - Gen.FSE_MIN_TABLELOG) % 2 ^ 32)).incr 4) _
    rw [e]; exact h1

/-- all the fields of the description: the 4-bit `tableLog - 5`, then what the main loop emits -/
def allFields (norm : Array Int) (L : Nat) : List (Nat × Nat) :=
  (L - 5, 4) :: loopFields norm norm.size norm.size (initState L)

/-- FSE_writeNCount on a normalised distribution whose last count is not zero: never an error; `(bits + 7) / 8` bytes that spell the fields -/
theorem writeNCount_spec {norm : Array Int} {L : Nat} (hN : NormOK norm L) (hL5 : 5 ≤ L) (hL12 : L ≤ 12)
    (hlast : norm[norm.size - 1]! ≠ 0) :
    (writeNCount norm L).size = (bits (allFields norm L) + 7) / 8 ∧
    (writeNCount norm L).toNatLE 0 ((bits (allFields norm L) + 7) / 8) = val (allFields norm L) ∧ Fit (allFields norm L) := by
  obtain ⟨i1, i2, i3, i4⟩ := init_spec hN hL5 hL12
  obtain ⟨sF, f1, f2, f3, f4, f5⟩ := mainLoop_spec hN.2.1 hlast hL12 norm.size (initState L) _ i1 i2 (by omega)
  have hfit : Fit (allFields norm L) := by
    intro f hf
    unfold allFields at hf
    rcases List.mem_cons.1 hf with e | e
    · subst e; show L - 5 < 2 ^ 4; omega
    · exact f5 f e
  have hrep : WRep sF.c (allFields norm L) := f2
  obtain ⟨b1, b2⟩ := final_bytes sF.c _ hrep hfit f4
  have e : writeNCount norm L = sF.c.flush16.out.extract 0 (sF.c.out.size + (sF.c.bitCount + 7) / 8) := by
    unfold writeNCount writeNCount? writeNCountGeneric
    simp only [f1, f3, bne_self_eq_false, Bool.false_eq_true, if_false, Option.getD_some]
  rw [e]
  exact ⟨b1, b2, hfit⟩

/-- FSE_readNCount_body on a buffer of at least 8 bytes whose low bits spell the fields of a description -/
theorem ncount8_roundtrip {norm : Array Int} {L : Nat} (hN : NormOK norm L) (hL5 : 5 ≤ L) (hL12 : L ≤ 12)
    (hlast : norm[norm.size - 1]! ≠ 0) (maxSV : Nat) (hsz : norm.size ≤ maxSV + 1)
    (b : Bytes) (hb : Nat) (h8 : 8 ≤ hb) (hfit : (bits (allFields norm L) + 7) / 8 ≤ hb)
    (hbits : b.toNatLE 0 hb % 2 ^ bits (allFields norm L) = val (allFields norm L)) :
    readNCount8 b hb maxSV = .ok { norm := norm, tableLog := L, used := (bits (allFields norm L) + 7) / 8 } := by
  obtain ⟨i1, i2, i3, i4⟩ := init_spec hN hL5 hL12
  obtain ⟨-, -, ffit⟩ := writeNCount_spec hN hL5 hL12 hlast
  have hsz0 : 0 < norm.size := by
    rcases Nat.eq_zero_or_pos norm.size with h | h
    · have := hN.2.2; rw [h] at this; simp [startOf] at this
      have := Nat.two_pow_pos L; omega
    · exact h
  have hb0 : b.toNatLE 0 hb / 2 ^ 0 % 2 ^ bits ([(L - 5, 4)] ++ loopFields norm norm.size norm.size (initState L))
      = val ([(L - 5, 4)] ++ loopFields norm norm.size norm.size (initState L)) := by
    rw [Nat.pow_zero, Nat.div_one]; exact hbits
  obtain ⟨g1, g2⟩ := take_fields _ _ _ _ (fun f hf => by simp at hf; subst hf; show L - 5 < 2 ^ 4; omega) hb0
  simp only [bits, val, Nat.add_zero, Nat.mul_zero, Nat.pow_zero, Nat.div_one, Nat.zero_add] at g1 g2
  have hT : bits (allFields norm L) = 4 + bits (loopFields norm norm.size norm.size (initState L)) := rfl
  have hle : b.le32 0 = b.toNatLE 0 hb % 2 ^ 32 := by
    have := le32_window b hb 0 (by omega)
    rw [Nat.mul_zero, Nat.pow_zero, Nat.div_one] at this; exact this
  have htl : (b.le32 0 &&& 0xF) + Gen.FSE_MIN_TABLELOG = L := by
    rw [hle, show (0xF : Nat) = 2 ^ 4 - 1 from rfl, Nat.and_two_pow_sub_one_eq_mod,
      Nat.mod_mod_of_dvd _ (Nat.pow_dvd_pow 2 (by omega : 4 ≤ 32)), g1]
    unfold Gen.FSE_MIN_TABLELOG; omega
  rw [readNCount8_eq]
  simp only [htl]
  rw [if_neg (by unfold Gen.FSE_TABLELOG_ABSOLUTE_MAX; omega)]
  have sim0 : Sim (b.toNatLE 0 hb) hb norm (maxSV + 1) (initState L)
      { ip := 0, bitCount := 4, bitStream := b.le32 0 >>> 4, remaining := ((1 <<< L) + 1 : Nat), threshold := ((1 <<< L) : Nat),
        nbBits := L + 1, charnum := 0, previous0 := false, norm := Array.replicate (maxSV + 1) 0, done := false } := by
    refine ⟨rfl, ?_, rfl, rfl, rfl, rfl, ⟨4, rfl, win_load b hb 0 4 (by omega) (by omega) (Or.inl (by omega)), rfl⟩, by simp, ?_, ?_⟩
    · show (((1 <<< L) + 1 : Nat) : Int) = ((1 <<< L : Nat) : Int) + 1
      push_cast; rfl
    · intro i hi; exact absurd hi (by show ¬ i < 0; omega)
    · intro i _ hi; simp [hi]
  obtain ⟨rsF, r1, r2⟩ := sim_run (b := b) (iend := hb) (m := maxSV + 1) h8 hN.2.1 hlast hL12 hsz norm.size (initState L) _
    [(L - 5, 4)] i1 i2 sim0 (by rw [i4]; exact hsz0) (by omega)
    (by simpa [bits] using g2) (by simp only [bits, Nat.add_zero]; omega)
  rw [r1 (maxSV + 1 + 2) (by omega)]
  obtain ⟨q1, q2, ⟨bc, q3, q4, q5⟩, q6, q7⟩ := r2
  simp only [bits, Nat.add_zero] at q4
  have c1 : (rsF.remaining != 1) = false := by rw [q1]; rfl
  have c2 : ¬ rsF.charnum > maxSV + 1 := by omega
  have c3 : ¬ rsF.bitCount > 32 := by rw [q3]; omega
  simp only [c1, Bool.false_eq_true, if_false, c2, c3]
  have e1 : rsF.norm.extract 0 rsF.charnum = norm := by
    apply Array.ext
    · rw [Array.size_extract, q6, q2]; omega
    · intro i h1 h2
      have := q7 i h2
      rw [getElem!_pos rsF.norm i (by omega), getElem!_pos norm i h2] at this
      rw [Array.getElem_extract]; simpa using this
  have e2 : rsF.ip + ((rsF.bitCount.toNat + 7) >>> 3) = (bits (allFields norm L) + 7) / 8 := by
    rw [q3, Int.toNat_natCast, Nat.shiftRight_eq_div_pow, hT]; omega
  rw [e1, e2]

theorem u8_append_left (a b : ByteArray) (i : Nat) (h : i < a.size) : (a ++ b).u8 i = a.u8 i := by
  rw [ByteArray.u8_of_lt _ _ (by rw [ByteArray.size_append]; omega), ByteArray.u8_of_lt _ _ h, ByteArray.getElem_append_left h]

/-- a buffer that starts with the bytes `D` spells, in its low bits, what `D` spells -/
theorem low_bits_of_prefix (buf D : ByteArray) (hb T : Nat) (V : Nat) (hD : D.size ≤ hb) (hT : T ≤ 8 * D.size)
    (hpre : ∀ i, i < D.size → buf.u8 i = D.u8 i) (hV : D.toNatLE 0 D.size = V) (hlt : V < 2 ^ T) :
    buf.toNatLE 0 hb % 2 ^ T = V := by
  obtain ⟨d, rfl⟩ : ∃ d, hb = D.size + d := ⟨hb - D.size, by omega⟩
  have h1 := toNatLE_prefix buf D.size d
  have h2 : buf.toNatLE 0 D.size = D.toNatLE 0 D.size :=
    ByteArray.toNatLE_congr _ _ 0 0 _ (fun i hi => by rw [Nat.zero_add]; exact hpre i hi)
  rw [h2, hV] at h1
  rw [← Nat.mod_mod_of_dvd _ (Nat.pow_dvd_pow 2 hT), h1, Nat.mod_eq_of_lt hlt]

/-- **ncount_roundtrip** (FSE_writeNCount, fse_compress.c <-> FSE_readNCount, entropy_common.c).  For every normalised distribution
`norm` (counts `≥ -1`, cells adding up to `2^L`) with `5 ≤ L ≤ 12` (FSE_MIN_TABLELOG .. FSE_MAX_TABLELOG) whose LAST count is not zero
(the writer is called with `maxSymbolValue` = the largest symbol that occurs: ZSTD_buildCTable passes the `max` of the histogram) and at
most `maxSV + 1` symbols: wherever the description `writeNCount norm L` sits in `src` (at `start`), WHATEVER bytes follow it, and for
every number `n` of available bytes that covers the description (both the `< 8` bytes padding path and the 4-bytes-ahead reads of
FSE_readNCount_body), the reader returns exactly `norm` (nothing trimmed, nothing padded), the table log `L`, and has consumed
exactly the bytes of the description. -/
theorem ncount_roundtrip (norm : Array Int) (L : Nat) (hN : NormOK norm L) (hL5 : 5 ≤ L) (hL12 : L ≤ 12)
    (hlast : norm[norm.size - 1]! ≠ 0) (maxSV : Nat) (hsz : norm.size ≤ maxSV + 1)
    (src : Bytes) (start n : Nat) (hn : (writeNCount norm L).size ≤ n)
    (hsrc : src.extract start (start + (writeNCount norm L).size) = writeNCount norm L) :
    FSE.readNCount src start n maxSV = .ok { norm := norm, tableLog := L, used := (writeNCount norm L).size } := by
  obtain ⟨w1, w2, w3⟩ := writeNCount_spec hN hL5 hL12 hlast
  have hV := val_lt _ w3
  have hDs := congrArg ByteArray.size hsrc
  rw [ByteArray.size_extract] at hDs
  have hpos : 0 < (writeNCount norm L).size := by
    rw [w1]; unfold allFields; simp only [bits]; omega
  have hin : start + (writeNCount norm L).size ≤ src.size := by omega
  have hu : ∀ i, i < (writeNCount norm L).size → src.u8 (start + i) = (writeNCount norm L).u8 i := by
    intro i hi
    rw [← hsrc, u8_extract_lt _ _ _ _ (by omega) (by omega)]
  rw [← w1] at w2
  unfold FSE.readNCount
  by_cases h8 : n < 8
  · rw [if_pos h8]
    have hbits := low_bits_of_prefix (src.extract start (start + n) ++ ByteArray.mk (Array.replicate (8 - n) 0)) (writeNCount norm L) 8
      (bits (allFields norm L)) _ (by omega) (by rw [w1]; omega)
      (fun i hi => by
        rw [u8_append_left _ _ _ (by rw [ByteArray.size_extract]; omega), u8_extract_lt _ _ _ _ (by omega) (by omega)]
        exact hu i hi) w2 hV
    have := ncount8_roundtrip hN hL5 hL12 hlast maxSV hsz _ 8 (by omega) (by rw [← w1]; omega) hbits
    simp only [this]
    rw [if_neg (by rw [← w1]; omega), w1]
  · rw [if_neg h8]
    have hbits := low_bits_of_prefix (src.extract start (start + n)) (writeNCount norm L) n
      (bits (allFields norm L)) _ hn (by rw [w1]; omega)
      (fun i hi => by
        rw [u8_extract_lt _ _ _ _ (by omega) (by omega)]
        exact hu i hi) w2 hV
    rw [ncount8_roundtrip hN hL5 hL12 hlast maxSV hsz _ n (by omega) (by rw [← w1]; omega) hbits, w1]

/-- the description is never empty -/
theorem writeNCount_size_pos (norm : Array Int) (L : Nat) (hN : NormOK norm L) (hL5 : 5 ≤ L) (hL12 : L ≤ 12)
    (hlast : norm[norm.size - 1]! ≠ 0) : 0 < (writeNCount norm L).size := by
  obtain ⟨w1, -, -⟩ := writeNCount_spec hN hL5 hL12 hlast
  rw [w1]; unfold allFields; simp only [bits]; omega

/-! non-vacuity: a distribution with `-1` counts and zero runs of 3, 24 and 26 symbols at table log 6 -/
example : NormOK (#[20, 0, 0, 0, 10, -1] ++ Array.replicate 24 0 ++ #[30] ++ Array.replicate 26 0 ++ #[3]) 6 := by decide

end ZstdVerif.NCountRT
