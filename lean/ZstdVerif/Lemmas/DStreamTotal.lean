/-
The model of `ZSTD_decompressStream` (Model/DStream.lean) on well-formed streams never takes its two internal error exits: the input
buffer always holds the stage's input (no CORRUPTION from zdss_load) and the loop fuel is never exhausted (no GENERIC).  With it the
output-side progress theorem of Lemmas/DStreamHint.lean holds without the "unless it reports an error" clause.
-/
import ZstdVerif.Lemmas.DStreamHint
import ZstdVerif.Lemmas.DStreamRing
namespace ZstdVerif.DStream
open ZstdVerif.Gen ZstdVerif.Stream

/-- the input buffer is sized for the frame (`inBuff` = max(blockSizeMax, 4)), the bodies of the blocks to come fit a block, and so does
what the stage machine expects next (the payload of a skippable frame is never buffered as a whole) -/
def Buf (s : State) : Prop :=
  max s.d.blockSizeMax 4 ≤ s.inBuffSize ∧ (∀ b ∈ s.blocks, b.cSize ≤ s.d.blockSizeMax) ∧
  (s.d.stage ≠ .skipFrame → s.d.expected ≤ max s.d.blockSizeMax 4)

/-- **the input-buffer invariant** (between calls and after every turn of the loop) -/
def BufInv (s : State) : Prop := InStage s → s.d.expected ≠ 0 → Buf s

theorem buf_start (frames : List FrameD) : BufInv (State.start frames) :=
  fun h => by rcases h with h | h | h <;> cases h

/-- the buffer-less header stages of `ZSTD_decompressContinue`, never entered by the streaming layer -/
def HdrStage (d : DCtx) : Prop :=
  d.stage = .getFrameHeaderSize ∨ d.stage = .decodeFrameHeader ∨ d.stage = .decodeSkippableHeader

/-- what `ZSTD_decompressContinue` expects next fits a block (or is a block header / the checksum) -/
theorem continue_expected (d : DCtx) (f : FrameD) (b : BlockD) (n : Nat) (hst : ¬ HdrStage d) (hb : b.cSize ≤ d.blockSizeMax)
    (he : d.stage ≠ .skipFrame → d.expected ≤ max d.blockSizeMax 4) : (d.continue f b n).1.expected ≤ max d.blockSizeMax 4 := by
  obtain ⟨stage, expected, bType, curRegen, decodedSize, headerSize, fcs, checksum, bsm, ws⟩ := d
  obtain ⟨ty, c, g, last⟩ := b
  simp only [HdrStage] at hst
  simp only at hb he
  cases stage
  · exact absurd (Or.inl rfl) hst
  · exact absurd (Or.inr (Or.inl rfl)) hst
  · simp only [DCtx.continue, DCtx.stDecodeBlockHeader, DCtx.endOfBlocks, ZSTD_blockHeaderSize]
    (repeat' split) <;> dsimp only <;> omega
  · have := he (by simp)
    simp only [DCtx.continue, DCtx.stDecompressBlock, DCtx.endOfBlocks, ZSTD_blockHeaderSize]
    (repeat' split) <;> dsimp only <;> omega
  · have := he (by simp)
    simp only [DCtx.continue, DCtx.stDecompressBlock, DCtx.endOfBlocks, ZSTD_blockHeaderSize]
    (repeat' split) <;> dsimp only <;> omega
  · simp only [DCtx.continue]; omega
  · exact absurd (Or.inr (Or.inr rfl)) hst
  · simp only [DCtx.continue]; omega

theorem head_cSize_le (bs : List BlockD) (m : Nat) (h : ∀ b ∈ bs, b.cSize ≤ m) : (bs.head?.getD default).cSize ≤ m := by
  cases bs with
  | nil => exact Nat.zero_le _
  | cons b r => exact h b (by simp)

theorem continueStream_buf_fields (s : State) (n : Nat) :
    (continueStream s n).inBuffSize = s.inBuffSize ∧ (∀ b ∈ (continueStream s n).blocks, b ∈ s.blocks) ∧
    (continueStream s n).d = (s.d.continue s.cur (s.blocks.head?.getD default) n).1 := by
  have hsub : ∀ b ∈ (if s.d.stage == .decodeBlockHeader then s.blocks.tail else s.blocks), b ∈ s.blocks := by
    intro b hb
    split at hb
    · exact List.mem_of_mem_tail hb
    · exact hb
  unfold continueStream
  dsimp only
  split
  · exact ⟨rfl, hsub, rfl⟩
  · exact ⟨rfl, hsub, rfl⟩

/-- a `ZSTD_decompressContinue` keeps the buffer facts -/
theorem buf_continueStream (s : State) (n : Nat) (h : Buf s) (hst : ¬ HdrStage s.d) : Buf (continueStream s n) := by
  obtain ⟨h1, h2, h3⟩ := h
  obtain ⟨a1, a2, a3⟩ := continueStream_buf_fields s n
  obtain ⟨_, b2, _⟩ := continue_params s.d s.cur (s.blocks.head?.getD default) n (fun e => hst (Or.inr (Or.inl e)))
  have hbs : (continueStream s n).d.blockSizeMax = s.d.blockSizeMax := by rw [a3]; exact b2
  refine ⟨by rw [hbs, a1]; exact h1, fun b hb => by rw [hbs]; exact h2 b (a2 b hb), fun _ => ?_⟩
  rw [hbs, a3]
  exact continue_expected s.d s.cur _ n hst (head_cSize_le s.blocks _ h2) h3

/-- the termination measure of the loop: twice the input left, plus one in zdss_flush (a flush turn takes no input, the next one does) -/
def mu (i : Nat) (s : State) (l : Loc) : Nat := 2 * (i - l.ip) + (if s.ss = .flush then 1 else 0)

theorem mu_le (i : Nat) (s : State) (l : Loc) : mu i s l ≤ 2 * (i - l.ip) + 1 := by
  unfold mu; split <;> omega

theorem mu_nonflush (i : Nat) (s : State) (l : Loc) (h : s.ss ≠ .flush) : mu i s l = 2 * (i - l.ip) := by
  unfold mu; rw [if_neg h]; rfl

/-- a turn of the loop keeps the buffer invariant, makes the measure smaller than `m` if the loop goes on, and does not `return` with
one of the two internal errors -/
def Tot (i m : Nat) : Out → Prop
  | .cont s1 l1 => BufInv s1 ∧ mu i s1 l1 < m
  | .stop s1 _ => BufInv s1
  | .ret s1 _ r => BufInv s1 ∧ r ≠ .err .corruption ∧ r ≠ .err .generic

theorem tot_stLoad (s : State) (l : Loc) (i : Nat) (hb : Buf s) (hst : ¬ HdrStage s.d)
    (hin : s.inPos < s.d.expected) (hip : l.ip ≤ i) : Tot i (2 * (i - l.ip)) (stLoad s l i) := by
  obtain ⟨h1, h2, h3⟩ := hb
  unfold stLoad
  dsimp only
  split
  · rename_i hc
    exfalso
    simp only [DCtx.isSkipFrame, Bool.and_eq_true, Bool.not_eq_true', beq_eq_false_iff_ne, ne_eq, DCtx.nextSrcSize] at hc
    obtain ⟨hc1, hc2⟩ := hc
    have := h3 hc1
    have := of_decide_eq_true hc2
    omega
  · split
    · exact fun _ _ => ⟨h1, h2, h3⟩
    · rename_i hl
      refine ⟨fun _ _ => buf_continueStream { s with inPos := 0 } _ ⟨h1, h2, h3⟩ hst, ?_⟩
      have := mu_le i (continueStream { s with inPos := 0 } s.d.nextSrcSize)
        { l with ip := l.ip + min (s.d.nextSrcSize - s.inPos) (i - l.ip) }
      simp only [DCtx.nextSrcSize] at hl this ⊢
      omega

theorem tot_stRead (s : State) (l : Loc) (i : Nat) (hss : s.ss = .read) (bi : BufInv s)
    (hne : ∀ a, s.d.nextSrcSizeWithInput a ≠ 0 → s.d.expected ≠ 0 ∧ ¬ HdrStage s.d) (hin : s.inPos = 0) (hip : l.ip ≤ i) :
    Tot i (2 * (i - l.ip)) (stRead s l i) := by
  unfold stRead
  dsimp only
  split
  · exact fun h => by rcases h with h | h | h <;> cases h
  · rename_i hn
    obtain ⟨he, hst⟩ := hne _ hn
    have hb := bi (Or.inl hss) he
    split
    · rename_i hav
      refine ⟨fun _ _ => buf_continueStream s _ hb hst, ?_⟩
      have := mu_le i (continueStream s (s.d.nextSrcSizeWithInput (i - l.ip))) { l with ip := l.ip + s.d.nextSrcSizeWithInput (i - l.ip) }
      dsimp only at this
      omega
    · split
      · exact bi
      · exact tot_stLoad { s with ss := .load } l i hb hst (by show s.inPos < s.d.expected; omega) hip

theorem tot_stFlush (s : State) (l : Loc) (i o : Nat) (hss : s.ss = .flush) (bi : BufInv s) :
    Tot i (2 * (i - l.ip) + 1) (stFlush s l o) := by
  have hb : s.d.expected ≠ 0 → Buf s := bi (Or.inr (Or.inr hss))
  unfold stFlush
  dsimp only
  split
  · split <;> split <;> exact ⟨fun _ he => hb he, by rw [mu_nonflush _ _ _ (by simp)]; dsimp only; omega⟩
  · exact fun _ he => hb he

theorem consumeHeader_buf (s : State) (f : FrameD) (hok : f.ok = true) :
    (consumeHeader s f).d.blockSizeMax = f.blockSizeMax ∧ (consumeHeader s f).blocks = f.blocks ∧
    (∀ b ∈ f.blocks, b.cSize ≤ f.blockSizeMax) ∧ ¬ HdrStage (consumeHeader s f).d ∧
    ((consumeHeader s f).d.stage ≠ .skipFrame → (consumeHeader s f).d.expected = 3) ∧ (consumeHeader s f).inPos = s.inPos := by
  cases hsk : f.skippable with
  | true =>
    obtain ⟨_, hbl, _, _⟩ := ok_skip hok hsk
    simp [consumeHeader, hsk, DCtx.setFrame, DCtx.begin, HdrStage, hbl]
  | false =>
    have hall : ∀ b ∈ f.blocks, b.cSize ≤ f.blockSizeMax := by
      simp only [FrameD.ok, hsk, Bool.false_eq_true, if_false, Bool.and_eq_true, List.all_eq_true] at hok
      intro b hb
      have := hok.1.1.1.2 b hb
      simp only [BlockD.ok, Bool.and_eq_true, decide_eq_true_eq] at this
      exact this.1.1
    simp [consumeHeader, hsk, DCtx.setFrame, DCtx.begin, HdrStage, ZSTD_blockHeaderSize]
    exact hall

theorem adaptBuffers_in (s : State) (a b : Nat) : a ≤ (adaptBuffers s a b).inBuffSize := by
  unfold adaptBuffers
  dsimp only
  split <;> split
  all_goals first
    | exact Nat.le_refl _
    | (rename_i hc; simp only [Bool.or_eq_true, decide_eq_true_eq, not_or, Nat.not_lt] at hc; exact hc.1.1)

/-- zdss_loadHeader keeps the invariant, takes input whenever it goes on, and returns only a hint or the window refusal -/
theorem tot_stLoadHeader (all : List FrameD) (hok : AllOk all) (T U i o : Nat) (s : State) (l : Loc) (hss : s.ss = .loadHeader)
    (h : Hdr all s l) (hb : Bd s l T U i o) (hlim : T + i ≤ sizeAll all) : Tot i (2 * (i - l.ip)) (stLoadHeader s l i o) := by
  obtain ⟨pre, hall, hp, _, _, hipl, _, _, _, hin, hlh, _⟩ := h
  have hip := hb.ip
  have htin := hb.tin
  have hvac : ∀ s2 : State, s2.ss = .loadHeader → BufInv s2 := fun s2 e h => by rw [InStage, e] at h; rcases h with h | h | h <;> cases h
  have hgap : hdrNeed s.frames.head? s.lhSize ≠ 0 → 0 < hdrNeed s.frames.head? s.lhSize - s.lhSize := by
    cases hfr : s.frames with
    | nil =>
      intro _
      have hsz : sizeAll all = sizeAll pre := by rw [hall, hfr]; simp
      have h5 : hdrNeed ([] : List FrameD).head? s.lhSize = 5 := rfl
      rw [h5]; omega
    | cons f fs =>
      intro hz
      have hfok := hok f (by rw [hall, hfr]; simp)
      obtain ⟨_, _, h6⟩ := ok_size hfok
      have := ((hdrNeed_some f s.lhSize h6).2 hz).1
      show 0 < hdrNeed (some f) s.lhSize - s.lhSize
      omega
  unfold stLoadHeader
  dsimp only
  split
  · split
    · unfold hdrShort
      exact ⟨hvac _ hss, (fun h => by cases h), (fun h => by cases h)⟩
    · rename_i hnz hsh
      refine ⟨hvac _ hss, ?_⟩
      rw [mu_nonflush _ _ _ (by show s.ss ≠ .flush; rw [hss]; simp)]
      dsimp only
      have := hgap hnz
      omega
  · split
    · rename_i f hf
      have hfok : f.ok = true := by
        cases hfr : s.frames with
        | nil => rw [hfr] at hf; cases hf
        | cons g gs => rw [hfr] at hf; injection hf with hf; exact hok f (by rw [hall, hfr, ← hf]; simp)
      unfold hdrComplete
      split
      · exact fun h => by rcases h with h | h | h <;> cases h
      · dsimp only
        obtain ⟨c1, c2, c3, c4, c5, c6⟩ := consumeHeader_buf s f hfok
        split
        · exact ⟨(fun h => by
            have : (consumeHeader s f).ss = s.ss := rfl
            rw [InStage, this, hss] at h
            rcases h with h | h | h <;> cases h), (fun h => by cases h), (fun h => by cases h)⟩
        · obtain ⟨r1, r2, _, r4, _⟩ := adaptBuffers_fields (consumeHeader s f) (max (consumeHeader s f).d.blockSizeMax 4)
            (DBuf.decodingBufferSize (consumeHeader s f).d.windowSize (consumeHeader s f).d.fcs (consumeHeader s f).d.blockSizeMax)
          have rin := adaptBuffers_in (consumeHeader s f) (max (consumeHeader s f).d.blockSizeMax 4)
            (DBuf.decodingBufferSize (consumeHeader s f).d.windowSize (consumeHeader s f).d.fcs (consumeHeader s f).d.blockSizeMax)
          refine tot_stRead _ l i rfl (fun _ _ => ⟨?_, ?_, ?_⟩) (fun a _ => ⟨?_, ?_⟩) ?_ hip
          · show max (adaptBuffers _ _ _).d.blockSizeMax 4 ≤ (adaptBuffers _ _ _).inBuffSize
            rw [r1]; exact rin
          · show ∀ b ∈ (adaptBuffers _ _ _).blocks, b.cSize ≤ (adaptBuffers _ _ _).d.blockSizeMax
            rw [r1, r2, c1, c2]; exact c3
          · show (adaptBuffers _ _ _).d.stage ≠ .skipFrame → (adaptBuffers _ _ _).d.expected ≤ max (adaptBuffers _ _ _).d.blockSizeMax 4
            rw [r1]; intro hs; rw [c5 hs]; omega
          · rename_i hn
            show (adaptBuffers _ _ _).d.expected ≠ 0
            have hn2 : (adaptBuffers (consumeHeader s f) _ _).d.nextSrcSizeWithInput a ≠ 0 := hn
            rw [r1] at hn2 ⊢
            rw [(consumeHeader_params s f).2.2.2.2.1 a] at hn2
            exact hn2
          · show ¬ HdrStage (adaptBuffers _ _ _).d
            rw [r1]; exact c4
          · show (adaptBuffers _ _ _).inPos = 0
            rw [r4, c6]; exact hin
    · exact hvac _ hss

theorem stageOk_nohdr {d : DCtx} {bs : List BlockD} (h : stageOk d bs) (he : d.expected ≠ 0) : ¬ HdrStage d := by
  intro hh
  rcases hh with e | e | e <;> simp [stageOk, e] at h
  exact he h

/-- **every turn of the loop** keeps the buffer invariant, decreases the measure, and does not return an internal error -/
theorem tot_micro (all : List FrameD) (hok : AllOk all) (T U i o : Nat) (s : State) (l : Loc) (hl : LInv all s l)
    (hb : Bd s l T U i o) (hlim : T + i ≤ sizeAll all) (bi : BufInv s) : Tot i (mu i s l) (micro s l i o) := by
  unfold micro
  unfold LInv at hl
  cases hss : s.ss <;> rw [hss] at hl <;> dsimp only
  · rw [mu_nonflush _ _ _ (by rw [hss]; simp)]
    obtain ⟨hi, ho, pre, hall, hti, hto, hheld⟩ := hl
    refine tot_stLoadHeader all hok T U i o (stInit s) l rfl ?_ ⟨hb.ip, hb.op, hb.tin, hb.tout⟩ hlim
    refine ⟨pre, hall, by show s.totalIn + l.ip = sizeAll pre + 0; omega, hto, ho, by show l.ip ≤ 0; omega, hheld, rfl, rfl, rfl, ?_, ?_⟩
    · intro f _; exact Nat.zero_le _
    · intro h0
      exfalso
      have : hdrNeed s.frames.head? 0 = 5 := by unfold hdrNeed; cases s.frames.head? <;> rfl
      have h1 : hdrNeed s.frames.head? 0 = 0 := h0
      omega
  · rw [mu_nonflush _ _ _ (by rw [hss]; simp)]
    exact tot_stLoadHeader all hok T U i o s l hss hl hb hlim
  · rw [mu_nonflush _ _ _ (by rw [hss]; simp)]
    rcases hl with ⟨pre, hall, fi⟩ | ⟨pre, hall, di⟩
    · refine tot_stRead s l i hss bi (fun a hn => ?_) (fi.inp0 (by rw [hss]; simp)) hb.ip
      have he := (stageOk_ring fi.stg).2 a hn
      exact ⟨he, stageOk_nohdr fi.stg he⟩
    · have hz : s.d.nextSrcSizeWithInput (i - l.ip) = 0 := by
        unfold DCtx.nextSrcSizeWithInput
        rcases di.st with e | e <;> simp [e, di.ex]
      rw [stRead_end s l i hz]
      exact fun h => by rcases h with h | h | h <;> cases h
  · rw [mu_nonflush _ _ _ (by rw [hss]; simp)]
    obtain ⟨pre, hall, fi⟩ := hl
    have hin := fi.inp1 hss
    have he : s.d.expected ≠ 0 := by omega
    exact tot_stLoad s l i (bi (Or.inr (Or.inl hss)) he) (stageOk_nohdr fi.stg he) hin hb.ip
  · have : mu i s l = 2 * (i - l.ip) + 1 := by unfold mu; rw [if_pos hss]
    rw [this]
    exact tot_stFlush s l i o hss bi

/-- how the loop can be left when the fuel covers the measure: never by running out of fuel, never with an internal error -/
def TotEnd : Out → Prop
  | .cont _ _ => False
  | .stop s1 _ => BufInv s1
  | .ret s1 _ r => BufInv s1 ∧ r ≠ .err .corruption ∧ r ≠ .err .generic

/-- **the loop fuel is never exhausted** (`loopFuel inAvail = 2 * inAvail + 4 > mu`), and the loop keeps the buffer invariant -/
theorem tot_loop (all : List FrameD) (hok : AllOk all) (T U i o : Nat) (hlim : T + i ≤ sizeAll all) :
    ∀ (fuel : Nat) (s : State) (l : Loc), LInv all s l → Bd s l T U i o → BufInv s → mu i s l < fuel →
      TotEnd (loop fuel s l i o) := by
  intro fuel
  induction fuel with
  | zero => intro s l _ _ _ h; exact absurd h (Nat.not_lt_zero _)
  | succ n ih =>
    intro s l hl hb bi hmu
    have hm := micro_ok all hok T U i o s l hl hb hlim
    have ht := tot_micro all hok T U i o s l hl hb hlim bi
    unfold loop
    cases hmic : micro s l i o with
    | cont s1 l1 =>
      rw [hmic] at hm ht
      exact ih s1 l1 hm.1 hm.2 ht.1 (by have := ht.2; omega)
    | stop s1 l1 => rw [hmic] at ht; exact ht
    | ret s1 c r => rw [hmic] at ht; exact ht

theorem result_no_err (s : State) (l : Loc) (i : Nat) : ∀ e, (result s l i).2.2 ≠ .err e := by
  unfold result
  (repeat' split) <;> exact fun e h => by cases h

theorem buf_result (s : State) (l : Loc) (i : Nat) (h : BufInv s) :
    BufInv (result s l i).1 ∧ ∀ e, (result s l i).2.2 ≠ .err e := by
  unfold result
  split
  · rename_i he
    have he0 : s.d.expected = 0 := he
    split
    · split
      · split
        · exact ⟨fun _ hne => absurd he0 hne, fun e h => by cases h⟩
        · exact ⟨h, fun e h => by cases h⟩
      · exact ⟨h, fun e h => by cases h⟩
    · split
      · exact ⟨h, fun e h => by cases h⟩
      · exact ⟨h, fun e h => by cases h⟩
  · exact ⟨h, fun e h => by cases h⟩

theorem buf_finish_core (s : State) (l : Loc) (i nf : Nat) (c1 c2 : Bool) (h : BufInv s) :
    BufInv (if c1 = true then (({ s with noFwd := nf } : State), (⟨0, 0, s.totalOut, .err .noForwardProgressDestFull⟩ : CallResult))
       else if c2 = true then ({ s with noFwd := nf }, ⟨0, 0, s.totalOut, .err .noForwardProgressInputEmpty⟩)
       else
         ({ (result { s with noFwd := nf } l i).1 with
              totalIn := (result { s with noFwd := nf } l i).1.totalIn + (result { s with noFwd := nf } l i).2.1,
              totalOut := (result { s with noFwd := nf } l i).1.totalOut + l.op },
          ⟨(result { s with noFwd := nf } l i).2.1, l.op, s.totalOut, (result { s with noFwd := nf } l i).2.2⟩)).1 ∧
    (if c1 = true then (({ s with noFwd := nf } : State), (⟨0, 0, s.totalOut, .err .noForwardProgressDestFull⟩ : CallResult))
       else if c2 = true then ({ s with noFwd := nf }, ⟨0, 0, s.totalOut, .err .noForwardProgressInputEmpty⟩)
       else
         ({ (result { s with noFwd := nf } l i).1 with
              totalIn := (result { s with noFwd := nf } l i).1.totalIn + (result { s with noFwd := nf } l i).2.1,
              totalOut := (result { s with noFwd := nf } l i).1.totalOut + l.op },
          ⟨(result { s with noFwd := nf } l i).2.1, l.op, s.totalOut, (result { s with noFwd := nf } l i).2.2⟩)).2.ret ≠ .err .corruption ∧
    (if c1 = true then (({ s with noFwd := nf } : State), (⟨0, 0, s.totalOut, .err .noForwardProgressDestFull⟩ : CallResult))
       else if c2 = true then ({ s with noFwd := nf }, ⟨0, 0, s.totalOut, .err .noForwardProgressInputEmpty⟩)
       else
         ({ (result { s with noFwd := nf } l i).1 with
              totalIn := (result { s with noFwd := nf } l i).1.totalIn + (result { s with noFwd := nf } l i).2.1,
              totalOut := (result { s with noFwd := nf } l i).1.totalOut + l.op },
          ⟨(result { s with noFwd := nf } l i).2.1, l.op, s.totalOut, (result { s with noFwd := nf } l i).2.2⟩)).2.ret ≠ .err .generic := by
  cases c1
  · cases c2
    · simp only [Bool.false_eq_true, if_false]
      obtain ⟨a, b⟩ := buf_result { s with noFwd := nf } l i h
      exact ⟨a, b _, b _⟩
    · simp only [Bool.false_eq_true, if_false, if_true]
      exact ⟨h, (fun h => by cases h), (fun h => by cases h)⟩
  · simp only [if_true]
    exact ⟨h, (fun h => by cases h), (fun h => by cases h)⟩

theorem buf_finish (s : State) (l : Loc) (i o : Nat) (h : BufInv s) :
    BufInv (finish s l i o).1 ∧ (finish s l i o).2.ret ≠ .err .corruption ∧ (finish s l i o).2.ret ≠ .err .generic :=
  buf_finish_core s l i _ _ _ h

/-- **no internal error**: on a well-formed stream a call never reports CORRUPTION (zdss_load: stage input larger than the input
buffer) nor GENERIC (loop fuel exhausted), and it keeps the buffer invariant -/
theorem step_total (all : List FrameD) (hok : AllOk all) (s : State) (hinv : Inv all s) (bi : BufInv s) (inAvail outCap : Nat)
    (hlim : s.totalIn + inAvail ≤ sizeAll all) :
    BufInv (step s inAvail outCap).1 ∧ (step s inAvail outCap).2.ret ≠ .err .corruption ∧
    (step s inAvail outCap).2.ret ≠ .err .generic := by
  have ht := tot_loop all hok s.totalIn s.totalOut inAvail outCap hlim (loopFuel inAvail) s {} hinv
    ⟨Nat.zero_le _, Nat.zero_le _, rfl, rfl⟩ bi (by have := mu_le inAvail s {}; unfold loopFuel; show mu inAvail s {} < _; simp only [] at this; omega)
  unfold step
  cases hlo : loop (loopFuel inAvail) s {} inAvail outCap with
  | cont s1 l1 => rw [hlo] at ht; exact ht.elim
  | stop s1 l1 => rw [hlo] at ht; exact buf_finish s1 l1 inAvail outCap ht
  | ret s1 c r => rw [hlo] at ht; exact ⟨ht.1, ht.2.1, ht.2.2⟩

theorem buf_run (all : List FrameD) (hok : AllOk all) (io : List (Nat × Nat)) :
    ∀ (s : State), Inv all s → BufInv s → Feasible all s io → Inv all (after s io) ∧ BufInv (after s io) := by
  induction io with
  | nil => intro s hi hr _; exact ⟨hi, hr⟩
  | cons p rest ih =>
    obtain ⟨i, o⟩ := p
    intro s hi hr hf
    obtain ⟨hlim, hne, hrest⟩ := hf
    exact ih _ ((step_ok all hok s hi i o hlim).2 hne).1 (step_total all hok s hi hr i o hlim).1 hrest

/-- a call that hands over output reports no error -/
theorem finish_progress (s : State) (l : Loc) (i o : Nat) (h : l.op ≠ 0) :
    (finish s l i o).2.produced = l.op ∧ ∀ e, (finish s l i o).2.ret ≠ .err e := by
  unfold finish
  simp only [h, decide_false, Bool.and_false, Bool.false_and, Bool.false_eq_true, if_false]
  exact ⟨trivial, result_no_err _ l i⟩

/-- **progress (output side), without exception**: on a well-formed stream, a call made in zdss_flush with pending output and output
room hands over at least one byte and reports no error - whatever input it is offered, even none -/
theorem progress_output_total (all : List FrameD) (hok : AllOk all) (s : State) (hinv : Inv all s) (bi : BufInv s)
    (inAvail outCap : Nat) (hlim : s.totalIn + inAvail ≤ sizeAll all) (hss : s.ss = .flush) (hpend : s.outStart < s.outEnd)
    (ho : 0 < outCap) : 0 < (step s inAvail outCap).2.produced ∧ ∀ e, (step s inAvail outCap).2.ret ≠ .err e := by
  obtain ⟨hmono, hnc⟩ := flush_call_mono s inAvail outCap hss hpend ho
  obtain ⟨_, t1, t2⟩ := step_total all hok s hinv bi inAvail outCap hlim
  unfold step at t1 t2 ⊢
  cases hlo : loop (loopFuel inAvail) s {} inAvail outCap with
  | cont s1 l1 => exact absurd hlo (hnc s1 l1)
  | ret s1 c r =>
    rw [hlo] at hmono t1 t2
    rcases hmono with he | he
    · exact absurd (show (returned s1 c r).2.ret = .err .corruption from he) t1
    · exact absurd (show (returned s1 c r).2.ret = .err .generic from he) t2
  | stop s1 l1 =>
    rw [hlo] at hmono
    have hop : l1.op ≠ 0 := by have : 1 ≤ l1.op := hmono; omega
    obtain ⟨hp, hne⟩ := finish_progress s1 l1 inAvail outCap hop
    refine ⟨?_, hne⟩
    show 0 < (finish s1 l1 inAvail outCap).2.produced
    rw [hp]
    exact hmono

/-- the buffer invariant holds after every feasible history -/
theorem buf_reachable (all : List FrameD) (hok : AllOk all) (io : List (Nat × Nat)) (hf : Feasible all (State.start all) io) :
    Inv all (after (State.start all) io) ∧ BufInv (after (State.start all) io) :=
  buf_run all hok io (State.start all) (inv_start all) (buf_start all) hf

/-! ## no error at all when input and output room are offered and every window is accepted -/

/-- the state an outcome of a turn carries -/
def Out.st : Out → State
  | .cont s _ => s
  | .stop s _ => s
  | .ret s _ _ => s

theorem continueStream_mw (s : State) (n : Nat) : (continueStream s n).maxWindowSize = s.maxWindowSize := by
  unfold continueStream
  dsimp only
  split <;> rfl

theorem stLoad_mw (s : State) (l : Loc) (i : Nat) : (stLoad s l i).st.maxWindowSize = s.maxWindowSize := by
  unfold stLoad
  dsimp only
  split
  · rfl
  · split
    · rfl
    · exact continueStream_mw _ _

theorem stRead_mw (s : State) (l : Loc) (i : Nat) : (stRead s l i).st.maxWindowSize = s.maxWindowSize := by
  unfold stRead
  dsimp only
  split
  · rfl
  · split
    · exact continueStream_mw _ _
    · split
      · rfl
      · exact stLoad_mw _ l i

theorem stFlush_mw (s : State) (l : Loc) (o : Nat) : (stFlush s l o).st.maxWindowSize = s.maxWindowSize := by
  unfold stFlush
  dsimp only
  split
  · split <;> split <;> rfl
  · rfl

theorem adaptBuffers_mw (s : State) (a b : Nat) : (adaptBuffers s a b).maxWindowSize = s.maxWindowSize := by
  unfold adaptBuffers
  dsimp only
  split <;> split <;> rfl

theorem stLoadHeader_mw (s : State) (l : Loc) (i o : Nat) : (stLoadHeader s l i o).st.maxWindowSize = s.maxWindowSize := by
  unfold stLoadHeader
  dsimp only
  split
  · split
    · rfl
    · rfl
  · split
    · unfold hdrComplete
      split
      · rfl
      · dsimp only
        split
        · rfl
        · rw [stRead_mw]
          exact adaptBuffers_mw _ _ _
    · rfl

/-- `maxWindowSize` (the parameter ZSTD_d_windowLogMax) is not touched by a turn of the loop -/
theorem micro_mw (s : State) (l : Loc) (i o : Nat) : (micro s l i o).st.maxWindowSize = s.maxWindowSize := by
  unfold micro
  cases s.ss <;> dsimp only
  · exact stLoadHeader_mw (stInit s) l i o
  · exact stLoadHeader_mw s l i o
  · exact stRead_mw s l i
  · exact stLoad_mw s l i
  · exact stFlush_mw s l o

/-- what a `return` from inside a turn can be: the header hint, CORRUPTION (zdss_load), or the window refusal of the frame at the head -/
def RetCls (s : State) (r : Ret) : Prop :=
  (∃ n, r = .hint n) ∨ r = .err .corruption ∨
  (r = .err .windowTooLarge ∧ (s.ss = .init ∨ s.ss = .loadHeader) ∧
    ∃ f, s.frames.head? = some f ∧ DBuf.effectiveWindow f.windowSize > s.maxWindowSize)

theorem micro_ret_cls (s : State) (l : Loc) (i o : Nat) (s1 : State) (c : Nat) (r : Ret)
    (h : micro s l i o = .ret s1 c r) : RetCls s r := by
  have hL : ∀ (s0 : State) l, stLoad s0 l i = .ret s1 c r → r = .err .corruption := by
    intro s0 l h
    unfold stLoad at h; dsimp only at h
    split at h
    · injection h with _ _ h3; exact h3.symm
    · split at h <;> cases h
  have hR : ∀ (s0 : State) l, stRead s0 l i = .ret s1 c r → r = .err .corruption := by
    intro s0 l h
    unfold stRead at h; dsimp only at h
    split at h
    · cases h
    · split at h
      · cases h
      · split at h
        · cases h
        · exact hL _ _ h
  have hH : ∀ (s0 : State) l, stLoadHeader s0 l i o = .ret s1 c r → (∃ n, r = .hint n) ∨ r = .err .corruption ∨
      (r = .err .windowTooLarge ∧ ∃ f, s0.frames.head? = some f ∧ DBuf.effectiveWindow f.windowSize > s0.maxWindowSize) := by
    intro s0 l h
    unfold stLoadHeader at h; dsimp only at h
    split at h
    · split at h
      · unfold hdrShort at h; injection h with _ _ h3; exact Or.inl ⟨_, h3.symm⟩
      · cases h
    · split at h
      · rename_i f hf
        unfold hdrComplete at h
        split at h
        · cases h
        · dsimp only at h
          split at h
          · rename_i hw
            injection h with _ _ h3
            exact Or.inr (Or.inr ⟨h3.symm, f, hf, hw⟩)
          · exact Or.inr (Or.inl (hR _ _ h))
      · cases h
  unfold micro at h
  cases hss : s.ss <;> rw [hss] at h <;> dsimp only at h
  · rcases hH (stInit s) _ h with a | a | ⟨a, b⟩
    · exact Or.inl a
    · exact Or.inr (Or.inl a)
    · exact Or.inr (Or.inr ⟨a, Or.inl hss, b⟩)
  · rcases hH s _ h with a | a | ⟨a, b⟩
    · exact Or.inl a
    · exact Or.inr (Or.inl a)
    · exact Or.inr (Or.inr ⟨a, Or.inr hss, b⟩)
  · exact Or.inr (Or.inl (hR _ _ h))
  · exact Or.inr (Or.inl (hL _ _ h))
  · unfold stFlush at h; dsimp only at h
    split at h
    · split at h <;> split at h <;> cases h
    · cases h

/-- every frame's (clamped) window is within the decoder's limit -/
def WindowsOk (all : List FrameD) (m : Nat) : Prop := ∀ f ∈ all, DBuf.effectiveWindow f.windowSize ≤ m

/-- the head of the frames still ahead is a frame of the stream -/
theorem head_mem (all : List FrameD) (s : State) (l : Loc) (hl : LInv all s l) (hss : s.ss = .init ∨ s.ss = .loadHeader)
    (f : FrameD) (hf : s.frames.head? = some f) : f ∈ all := by
  have key : ∃ pre, all = pre ++ s.frames := by
    unfold LInv at hl
    rcases hss with e | e <;> rw [e] at hl
    · obtain ⟨_, _, pre, hall, _⟩ := hl; exact ⟨pre, hall⟩
    · obtain ⟨pre, hall, _⟩ := hl; exact ⟨pre, hall⟩
  obtain ⟨pre, hall⟩ := key
  cases hfr : s.frames with
  | nil => rw [hfr] at hf; cases hf
  | cons g gs => rw [hfr] at hf; injection hf with hf; rw [hall, hfr, ← hf]; simp

/-- a `return` from inside the loop is the header hint, CORRUPTION or GENERIC - never the window refusal when every window is accepted -/
theorem loop_ret_cls (all : List FrameD) (hok : AllOk all) (m T U i o : Nat) (hwin : WindowsOk all m) (hlim : T + i ≤ sizeAll all) :
    ∀ (fuel : Nat) (s : State) (l : Loc), LInv all s l → Bd s l T U i o → s.maxWindowSize = m → ∀ s1 c r,
      loop fuel s l i o = .ret s1 c r → (∃ n, r = .hint n) ∨ r = .err .corruption ∨ r = .err .generic := by
  intro fuel
  induction fuel with
  | zero => intro s l _ _ _ s1 c r h; unfold loop at h; injection h with _ _ h3; exact Or.inr (Or.inr h3.symm)
  | succ n ih =>
    intro s l hl hb hmw s1 c r h
    have hm := micro_ok all hok T U i o s l hl hb hlim
    have hw := micro_mw s l i o
    unfold loop at h
    cases hmic : micro s l i o with
    | cont s2 l2 =>
      rw [hmic] at h hm hw
      exact ih s2 l2 hm.1 hm.2 (hw.trans hmw) s1 c r h
    | stop s2 l2 => rw [hmic] at h; cases h
    | ret s2 c2 r2 =>
      rw [hmic] at h
      injection h with _ _ h3
      subst h3
      rcases micro_ret_cls s l i o s2 c2 r2 hmic with hh | hc | ⟨_, hss, f, hf, hgt⟩
      · exact Or.inl hh
      · exact Or.inr (Or.inl hc)
      · exfalso
        have := hwin f (head_mem all s l hl hss f hf)
        omega

/-- with input and output room offered, the no-forward-progress errors cannot be raised -/
theorem finish_no_err (s : State) (l : Loc) (i o : Nat) (hi : 0 < i) (ho : 0 < o) : ∀ e, (finish s l i o).2.ret ≠ .err e := by
  have h1 : ∀ nf : Nat, (decide (l.ip = 0) && decide (l.op = 0) && decide (nf ≥ ZSTD_NO_FORWARD_PROGRESS_MAX) && decide (l.op = o)) = false := by
    intro nf
    by_cases a : l.op = 0
    · have : ¬ l.op = o := by omega
      simp [this]
    · simp [a]
  have h2 : ∀ nf : Nat, (decide (l.ip = 0) && decide (l.op = 0) && decide (nf ≥ ZSTD_NO_FORWARD_PROGRESS_MAX) && decide (l.ip = i)) = false := by
    intro nf
    by_cases a : l.ip = 0
    · have : ¬ l.ip = i := by omega
      simp [this]
    · simp [a]
  unfold finish
  dsimp only
  rw [h1, h2]
  simp only [Bool.false_eq_true, if_false]
  exact result_no_err _ l i

/-- **no error at all**: on a well-formed stream whose windows the decoder accepts, a call that is offered at least one byte of input
(within the stream) and one byte of output room reports no error -/
theorem step_no_error (all : List FrameD) (hok : AllOk all) (m : Nat) (hwin : WindowsOk all m) (s : State) (hinv : Inv all s)
    (bi : BufInv s) (hmw : s.maxWindowSize = m) (inAvail outCap : Nat) (hlim : s.totalIn + inAvail ≤ sizeAll all)
    (hi : 0 < inAvail) (ho : 0 < outCap) : ∀ e, (step s inAvail outCap).2.ret ≠ .err e := by
  obtain ⟨_, t1, t2⟩ := step_total all hok s hinv bi inAvail outCap hlim
  have hcls := loop_ret_cls all hok m s.totalIn s.totalOut inAvail outCap hwin hlim (loopFuel inAvail) s {} hinv
    ⟨Nat.zero_le _, Nat.zero_le _, rfl, rfl⟩ hmw
  unfold step at t1 t2 ⊢
  cases hlo : loop (loopFuel inAvail) s {} inAvail outCap with
  | cont s1 l1 => exact finish_no_err s1 l1 inAvail outCap hi ho
  | stop s1 l1 => exact finish_no_err s1 l1 inAvail outCap hi ho
  | ret s1 c r =>
    rw [hlo] at t1 t2
    rcases hcls s1 c r hlo with ⟨n, hn⟩ | hc | hc
    · intro e h
      have h2 : r = .err e := h
      rw [hn] at h2; cases h2
    · exact absurd (show (returned s1 c r).2.ret = .err .corruption from hc) t1
    · exact absurd (show (returned s1 c r).2.ret = .err .generic from hc) t2

theorem loop_mw (i o : Nat) : ∀ (fuel : Nat) (s : State) (l : Loc), (loop fuel s l i o).st.maxWindowSize = s.maxWindowSize := by
  intro fuel
  induction fuel with
  | zero => intro s l; rfl
  | succ n ih =>
    intro s l
    have hm := micro_mw s l i o
    unfold loop
    cases hmic : micro s l i o with
    | cont s1 l1 => rw [hmic] at hm; exact (ih s1 l1).trans hm
    | stop s1 l1 => rw [hmic] at hm; exact hm
    | ret s1 c r => rw [hmic] at hm; exact hm

theorem result_mw (s : State) (l : Loc) (i : Nat) : (result s l i).1.maxWindowSize = s.maxWindowSize := by
  unfold result
  (repeat' split) <;> rfl

theorem finish_mw_core (s : State) (l : Loc) (i nf : Nat) (c1 c2 : Bool) :
    (if c1 = true then (({ s with noFwd := nf } : State), (⟨0, 0, s.totalOut, .err .noForwardProgressDestFull⟩ : CallResult))
       else if c2 = true then ({ s with noFwd := nf }, ⟨0, 0, s.totalOut, .err .noForwardProgressInputEmpty⟩)
       else
         ({ (result { s with noFwd := nf } l i).1 with
              totalIn := (result { s with noFwd := nf } l i).1.totalIn + (result { s with noFwd := nf } l i).2.1,
              totalOut := (result { s with noFwd := nf } l i).1.totalOut + l.op },
          ⟨(result { s with noFwd := nf } l i).2.1, l.op, s.totalOut, (result { s with noFwd := nf } l i).2.2⟩)).1.maxWindowSize =
      s.maxWindowSize := by
  cases c1
  · cases c2
    · simp only [Bool.false_eq_true, if_false]
      exact result_mw { s with noFwd := nf } l i
    · rfl
  · rfl

/-- `maxWindowSize` is not touched by a call -/
theorem step_mw (s : State) (i o : Nat) : (step s i o).1.maxWindowSize = s.maxWindowSize := by
  have hl := loop_mw i o (loopFuel i) s {}
  unfold step
  cases hlo : loop (loopFuel i) s {} i o with
  | cont s1 l1 => rw [hlo] at hl; exact (finish_mw_core s1 l1 i _ _ _).trans hl
  | stop s1 l1 => rw [hlo] at hl; exact (finish_mw_core s1 l1 i _ _ _).trans hl
  | ret s1 c r => rw [hlo] at hl; exact hl

/-- every call of the segmentation offers its input within the stream (the caller cannot offer bytes that do not exist) -/
def Within (all : List FrameD) : State → List (Nat × Nat) → Prop
  | _, [] => True
  | s, (i, o) :: rest => s.totalIn + i ≤ sizeAll all ∧ Within all (step s i o).1 rest

/-- **every segmentation that offers input and output room in each call is feasible**: no call of it reports an error -/
theorem feasible_of_offered (all : List FrameD) (hok : AllOk all) (m : Nat) (hwin : WindowsOk all m) (io : List (Nat × Nat)) :
    ∀ (s : State), Inv all s → BufInv s → s.maxWindowSize = m → Within all s io → Offered io → Feasible all s io := by
  induction io with
  | nil => intro _ _ _ _ _ _; exact trivial
  | cons p rest ih =>
    obtain ⟨i, o⟩ := p
    intro s hi hb hmw hw hoff
    obtain ⟨hlim, hwr⟩ := hw
    obtain ⟨hpi, hpo, hoffr⟩ := hoff
    have hne := step_no_error all hok m hwin s hi hb hmw i o hlim hpi hpo
    exact ⟨hlim, hne, ih _ ((step_ok all hok s hi i o hlim).2 hne).1 (step_total all hok s hi hb i o hlim).1
      ((step_mw s i o).trans hmw) hwr hoffr⟩

/-- **any segmentation = one-shot, without an error hypothesis**: whatever positive input / output chunk sizes the caller uses on a
well-formed stream with accepted windows, no call fails, and once the model has produced as many bytes as the content holds, what it
produced is the content that single-call decoding yields -/
theorem model_any_offered_segmentation_eq_oneShot (all : List FrameD) (content : List Nat) (hok : AllOk all)
    (hwin : WindowsOk all ZSTD_MAXWINDOWSIZE_DEFAULT) (hlen : content.length = regenAll all) (io : List (Nat × Nat))
    (hw : Within all (State.start all) io) (hoff : Offered io)
    (hdone : (({} : DState).run (calls content (State.start all) io)).produced = content.length) :
    Feasible all (State.start all) io ∧ (({} : DState).run (calls content (State.start all) io)).output = content := by
  have hf := feasible_of_offered all hok _ hwin io (State.start all) (inv_start all) (buf_start all) rfl hw hoff
  exact ⟨hf, model_any_segmentation_eq_oneShot all content hok hlen io hf hdone⟩

/-- **bounded number of calls, without an error hypothesis** -/
theorem calls_bounded_offered (all : List FrameD) (hok : AllOk all) (hwin : WindowsOk all ZSTD_MAXWINDOWSIZE_DEFAULT)
    (io : List (Nat × Nat)) (hw : Within all (State.start all) io) (hoff : Offered io) :
    io.length ≤ sizeAll all + regenAll all := by
  have hf := feasible_of_offered all hok _ hwin io (State.start all) (inv_start all) (buf_start all) rfl hw hoff
  have := calls_bounded all hok io (State.start all) (inv_start all) hf hoff
  have hs : slack all (State.start all) = sizeAll all + regenAll all := by simp [slack, State.start]
  omega

/-- non-vacuity of `feasible_of_offered` / `step_no_error`: the hypotheses hold for the stream `[exFrame]` cut into 10 + 25 bytes -/
example : Feasible [exFrame] (State.start [exFrame]) [(10, 100), (25, 100)] := by
  have hok : AllOk [exFrame] := fun f hf => by
    have : f = exFrame := by simpa using hf
    subst this; decide
  have hwin : WindowsOk [exFrame] ZSTD_MAXWINDOWSIZE_DEFAULT := fun f hf => by
    have : f = exFrame := by simpa using hf
    subst this; decide +kernel
  exact feasible_of_offered [exFrame] hok _ hwin _ _ (inv_start _) (buf_start _) rfl
    ⟨by decide, by decide +kernel, trivial⟩ ⟨by decide, by decide, by decide, by decide, trivial⟩

end ZstdVerif.DStream
