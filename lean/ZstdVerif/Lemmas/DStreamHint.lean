/-
Output-side progress and the exactness of the input-size hint of the model of `ZSTD_decompressStream` (Model/DStream.lean).
Continues Lemmas/DStreamRT.lean: `progress_output`, `hint_exact`.
-/
import ZstdVerif.Lemmas.DStreamRT
namespace ZstdVerif.DStream
open ZstdVerif.Gen ZstdVerif.Stream

/-! ## progress on the output side -/

/-- the stages a loop that started inside a frame can be in -/
def InStage (s : State) : Prop := s.ss = .read ∨ s.ss = .load ∨ s.ss = .flush

theorem continueStream_ss (s : State) (n : Nat) : (continueStream s n).ss = .read ∨ (continueStream s n).ss = .flush := by
  unfold continueStream
  dsimp only
  split
  · exact Or.inl rfl
  · exact Or.inr rfl

/-- what one turn does to `op`, invariant-free: `op` never decreases, a turn that continues stays inside the frame stages, and a
`return` from a frame stage is one of two errors (input buffer too small for the stage: CORRUPTION; loop fuel exhausted: GENERIC) -/
def MonoOut (op : Nat) : Out → Prop
  | .cont s1 l1 => InStage s1 ∧ op ≤ l1.op
  | .stop _ l1 => op ≤ l1.op
  | .ret _ _ r => r = .err .corruption ∨ r = .err .generic

theorem stLoad_mono (s : State) (l : Loc) (inAvail : Nat) : MonoOut l.op (stLoad s l inAvail) := by
  unfold stLoad
  dsimp only
  split
  · exact Or.inl rfl
  · split
    · exact Nat.le_refl _
    · refine ⟨?_, Nat.le_refl _⟩
      rcases continueStream_ss { s with inPos := 0 } s.d.nextSrcSize with h | h
      · exact Or.inl h
      · exact Or.inr (Or.inr h)

theorem stRead_mono (s : State) (l : Loc) (inAvail : Nat) : MonoOut l.op (stRead s l inAvail) := by
  unfold stRead
  dsimp only
  split
  · exact Nat.le_refl _
  · split
    · refine ⟨?_, Nat.le_refl _⟩
      rcases continueStream_ss s (s.d.nextSrcSizeWithInput (inAvail - l.ip)) with h | h
      · exact Or.inl h
      · exact Or.inr (Or.inr h)
    · split
      · exact Nat.le_refl _
      · exact stLoad_mono _ l inAvail

theorem stFlush_mono (s : State) (l : Loc) (outCap : Nat) : MonoOut l.op (stFlush s l outCap) := by
  unfold stFlush
  dsimp only
  split
  · split <;> split <;> exact ⟨Or.inl rfl, Nat.le_add_right _ _⟩
  · exact Nat.le_add_right _ _

theorem micro_mono (s : State) (l : Loc) (inAvail outCap : Nat) (h : InStage s) : MonoOut l.op (micro s l inAvail outCap) := by
  unfold micro
  rcases h with h | h | h <;> rw [h]
  · exact stRead_mono s l inAvail
  · exact stLoad_mono s l inAvail
  · exact stFlush_mono s l outCap

theorem MonoOut.weaken {a b : Nat} (hab : a ≤ b) : ∀ {o : Out}, MonoOut b o → MonoOut a o
  | .cont _ _, h => ⟨h.1, Nat.le_trans hab h.2⟩
  | .stop _ _, h => Nat.le_trans hab h
  | .ret _ _ _, h => h

/-- **`op` never decreases along the loop** once it runs inside a frame, and such a loop never takes the `hdrShort` return -/
theorem loop_mono_out (inAvail outCap : Nat) : ∀ (fuel : Nat) (s : State) (l : Loc), InStage s →
    MonoOut l.op (loop fuel s l inAvail outCap) ∧ ∀ s1 l1, loop fuel s l inAvail outCap ≠ .cont s1 l1 := by
  intro fuel
  induction fuel with
  | zero => intro s l _; exact ⟨Or.inr rfl, fun _ _ h => by cases h⟩
  | succ n ih =>
    intro s l h
    have hm := micro_mono s l inAvail outCap h
    unfold loop
    cases hmic : micro s l inAvail outCap with
    | cont s1 l1 =>
      rw [hmic] at hm
      exact ⟨(ih s1 l1 hm.1).1.weaken hm.2, (ih s1 l1 hm.1).2⟩
    | stop s1 l1 => rw [hmic] at hm; exact ⟨hm, fun _ _ h => by cases h⟩
    | ret s1 c r => rw [hmic] at hm; exact ⟨hm, fun _ _ h => by cases h⟩

/-- the first turn of a call made in zdss_flush with pending output and output room hands over at least one byte -/
theorem stFlush_first (s : State) (outCap : Nat) (hpend : s.outStart < s.outEnd) (ho : 0 < outCap) :
    MonoOut 1 (stFlush s {} outCap) := by
  unfold stFlush
  dsimp only
  have h1 : 1 ≤ 0 + min (outCap - 0) (s.outEnd - s.outStart) := by omega
  split
  · split <;> split <;> exact ⟨Or.inl rfl, h1⟩
  · exact h1

/-- a call made in zdss_flush with pending output and output room: the loop ends with `1 ≤ op`, or with an internal error -/
theorem flush_call_mono (s : State) (inAvail outCap : Nat) (hss : s.ss = .flush) (hpend : s.outStart < s.outEnd) (ho : 0 < outCap) :
    MonoOut 1 (loop (loopFuel inAvail) s {} inAvail outCap) ∧
      ∀ s1 l1, loop (loopFuel inAvail) s {} inAvail outCap ≠ .cont s1 l1 := by
  have hfirst : micro s {} inAvail outCap = stFlush s {} outCap := by unfold micro; rw [hss]
  have hm := stFlush_first s outCap hpend ho
  show MonoOut 1 (loop (2 * inAvail + 3 + 1) s {} inAvail outCap) ∧ ∀ s1 l1, loop (2 * inAvail + 3 + 1) s {} inAvail outCap ≠ .cont s1 l1
  unfold loop
  rw [hfirst]
  cases hf : stFlush s {} outCap with
  | cont s1 l1 =>
    rw [hf] at hm
    have := loop_mono_out inAvail outCap (2 * inAvail + 3) s1 l1 hm.1
    exact ⟨this.1.weaken hm.2, this.2⟩
  | stop s1 l1 => rw [hf] at hm; exact ⟨hm, fun _ _ h => by cases h⟩
  | ret s1 c r => rw [hf] at hm; exact ⟨hm, fun _ _ h => by cases h⟩

/-- `progress_output` without the invariant: it is a property of the loop alone -/
theorem progress_output_core (s : State) (inAvail outCap : Nat) (hss : s.ss = .flush) (hpend : s.outStart < s.outEnd)
    (ho : 0 < outCap) (hne : ∀ e, (step s inAvail outCap).2.ret ≠ .err e) : 0 < (step s inAvail outCap).2.produced := by
  obtain ⟨hmono, hnc⟩ := flush_call_mono s inAvail outCap hss hpend ho
  unfold step at hne ⊢
  cases hlo : loop (loopFuel inAvail) s {} inAvail outCap with
  | cont s1 l1 => exact absurd hlo (hnc s1 l1)
  | ret s1 c r =>
    rw [hlo] at hne hmono
    rcases hmono with he | he
    · exact absurd (by show r = .err .corruption; exact he) (hne _)
    · exact absurd (by show r = .err .generic; exact he) (hne _)
  | stop s1 l1 =>
    rw [hlo] at hne hmono
    obtain ⟨nf, _, hp⟩ := finish_vals s1 l1 inAvail outCap hne
    show 0 < (finish s1 l1 inAvail outCap).2.produced
    rw [hp]
    exact hmono

/-- **progress (output side)**: a call made in zdss_flush with pending output and output room hands over at least one byte unless it
reports an error — even with no input at all (`inAvail = 0`) -/
theorem progress_output (all : List FrameD) (_hok : AllOk all) (s : State) (_hinv : Inv all s) (inAvail outCap : Nat)
    (_hlim : s.totalIn + inAvail ≤ sizeAll all) (hss : s.ss = .flush) (hpend : s.outStart < s.outEnd) (ho : 0 < outCap)
    (hne : ∀ e, (step s inAvail outCap).2.ret ≠ .err e) : 0 < (step s inAvail outCap).2.produced :=
  progress_output_core s inAvail outCap hss hpend ho hne

/-! ## the input-size hint is exact

A run in which every call is offered exactly the number of bytes the previous call asked for (`hintedRets`).  Each call of such a
run is a short, fixed sequence of turns of the loop (take a block body, flush it, take the next block header, stop on the empty
input); the lemmas below follow these turns one by one. -/

theorem loop_cont {n : Nat} {s : State} {l : Loc} {i o : Nat} {s1 : State} {l1 : Loc} (h : micro s l i o = .cont s1 l1) :
    loop (n + 1) s l i o = loop n s1 l1 i o := by
  rw [loop, h]

theorem loop_stop {n : Nat} {s : State} {l : Loc} {i o : Nat} {s1 : State} {l1 : Loc} (h : micro s l i o = .stop s1 l1) :
    loop (n + 1) s l i o = .stop s1 l1 := by
  rw [loop, h]

/-- more fuel does not change a loop that stops -/
theorem loop_fuel_succ (i o : Nat) : ∀ (n : Nat) (s : State) (l : Loc) (s2 : State) (l2 : Loc),
    loop n s l i o = .stop s2 l2 → loop (n + 1) s l i o = .stop s2 l2 := by
  intro n
  induction n with
  | zero => intro s l s2 l2 h; rw [loop] at h; cases h
  | succ n ih =>
    intro s l s2 l2 h
    rw [loop] at h
    rw [loop]
    cases hm : micro s l i o with
    | cont s1 l1 => rw [hm] at h; exact ih s1 l1 s2 l2 h
    | stop s1 l1 => rw [hm] at h; exact h
    | ret s1 c r => rw [hm] at h; cases h

theorem loop_fuel_le {i o n m : Nat} {s : State} {l : Loc} {s2 : State} {l2 : Loc} (h : loop n s l i o = .stop s2 l2) (hnm : n ≤ m) :
    loop m s l i o = .stop s2 l2 := by
  induction m with
  | zero => have : n = 0 := by omega
            subst this; exact h
  | succ m ih =>
    by_cases hn : n = m + 1
    · subst hn; exact h
    · exact loop_fuel_succ i o m s l s2 l2 (ih (by omega))

/-- nothing buffered on the input side, nothing pending on the output side, no byte withheld -/
structure Quiet (s : State) : Prop where
  inp : s.inPos = 0
  fl : s.outStart = s.outEnd
  host : s.hostage = false

/-- zdss_read with the whole stage in the input: one `ZSTD_decompressContinue` -/
theorem micro_read_take (s : State) (l : Loc) (i o n : Nat) (hss : s.ss = .read) (hn : s.d.nextSrcSizeWithInput (i - l.ip) = n)
    (h0 : n ≠ 0) (hle : n ≤ i - l.ip) : micro s l i o = .cont (continueStream s n) { l with ip := l.ip + n } := by
  unfold micro; rw [hss]
  unfold stRead; dsimp only
  rw [hn, if_neg h0, if_pos hle]

/-- zdss_read on an exhausted input -/
theorem micro_read_wait (s : State) (l : Loc) (i o : Nat) (hss : s.ss = .read) (hip : l.ip = i)
    (h0 : s.d.nextSrcSizeWithInput 0 ≠ 0) : micro s l i o = .stop s l := by
  unfold micro; rw [hss]
  unfold stRead; dsimp only
  have ha : i - l.ip = 0 := by omega
  rw [ha, if_neg h0, if_neg (by omega), if_pos rfl]

/-- zdss_read at the end of the frame -/
theorem micro_read_end (s : State) (l : Loc) (i o : Nat) (hss : s.ss = .read) (h0 : s.d.nextSrcSizeWithInput (i - l.ip) = 0) :
    micro s l i o = .stop { s with ss := .init } l := by
  unfold micro; rw [hss]
  unfold stRead; dsimp only
  rw [if_pos h0]

/-- zdss_flush with room for everything pending -/
theorem micro_flush_all (s : State) (l : Loc) (i o : Nat) (hss : s.ss = .flush) (hole : s.outStart ≤ s.outEnd)
    (hroom : s.outEnd - s.outStart ≤ o - l.op) :
    ∃ s1, micro s l i o = .cont s1 ⟨l.ip, l.op + (s.outEnd - s.outStart)⟩ ∧ s1.ss = .read ∧ s1.d = s.d ∧ s1.blocks = s.blocks ∧
      s1.inPos = s.inPos ∧ s1.hostage = s.hostage ∧ s1.outStart = s1.outEnd := by
  unfold micro; rw [hss]
  unfold stFlush; dsimp only
  have hmin : min (o - l.op) (s.outEnd - s.outStart) = s.outEnd - s.outStart := by omega
  rw [hmin, if_pos rfl]
  split <;> split <;> exact ⟨_, rfl, rfl, rfl, rfl, rfl, rfl, by first | rfl | (dsimp only; omega)⟩

/-- the hint `ZSTD_decompressStream` computes from the stage machine when nothing is buffered or pending -/
def hintOf (d : DCtx) : Nat :=
  if d.expected = 0 then 0 else d.expected + (if d.nextIsBlock then ZSTD_blockHeaderSize else 0)

/-- the tail of a call that took input and leaves nothing buffered or pending -/
theorem finish_quiet (s : State) (l : Loc) (i o : Nat) (hip : l.ip ≠ 0) (q : Quiet s) :
    finish s l i o = ({ s with noFwd := 0, totalIn := s.totalIn + l.ip, totalOut := s.totalOut + l.op },
      ⟨l.ip, l.op, s.totalOut, .hint (hintOf s.d)⟩) := by
  unfold finish result hintOf
  simp only [hip, decide_false, Bool.false_and, Bool.false_eq_true, if_false, DCtx.nextSrcSize, q.fl, q.host, q.inp, Nat.sub_zero]
  split <;> rfl

theorem step_of_stop (s : State) (i o k : Nat) (s2 : State) (l2 : Loc) (h : loop k s {} i o = .stop s2 l2) (hk : k ≤ loopFuel i)
    (hip : l2.ip ≠ 0) (q : Quiet s2) :
    step s i o = ({ s2 with noFwd := 0, totalIn := s2.totalIn + l2.ip, totalOut := s2.totalOut + l2.op },
      ⟨l2.ip, l2.op, s2.totalOut, .hint (hintOf s2.d)⟩) := by
  unfold step
  rw [loop_fuel_le h hk]
  exact finish_quiet s2 l2 i o hip q

/-! ### the stage machine in a hint-following run -/

theorem stDecodeBlockHeader_snd (d : DCtx) (b : BlockD) : (d.stDecodeBlockHeader b).2 = 0 := by
  unfold DCtx.stDecodeBlockHeader
  dsimp only
  split
  · rfl
  · split <;> rfl

/-- the stage reached by reading the header of block `b` -/
theorem dbh_facts (d0 : DCtx) (b : BlockD) :
    (d0.stDecodeBlockHeader b).1.checksum = d0.checksum ∧ (d0.stDecodeBlockHeader b).1.bType = b.ty ∧
    (d0.stDecodeBlockHeader b).1.curRegen = b.regen ∧
    (b.cSize ≠ 0 → (d0.stDecodeBlockHeader b).1.expected = b.cSize ∧
      (d0.stDecodeBlockHeader b).1.stage = if b.last then .decompressLastBlock else .decompressBlock) ∧
    (b.cSize = 0 → b.last = false → (d0.stDecodeBlockHeader b).1.expected = 3 ∧ (d0.stDecodeBlockHeader b).1.stage = .decodeBlockHeader) ∧
    (b.cSize = 0 → b.last = true → d0.checksum = true →
      (d0.stDecodeBlockHeader b).1.expected = 4 ∧ (d0.stDecodeBlockHeader b).1.stage = .checkChecksum) ∧
    (b.cSize = 0 → b.last = true → d0.checksum = false →
      (d0.stDecodeBlockHeader b).1.expected = 0 ∧ (d0.stDecodeBlockHeader b).1.stage = .getFrameHeaderSize) := by
  obtain ⟨ty, c, g, last⟩ := b
  by_cases hc : c = 0 <;> cases last <;> cases hck : d0.checksum <;>
    simp [DCtx.stDecodeBlockHeader, DCtx.endOfBlocks, hc, hck, ZSTD_blockHeaderSize]

theorem needed_of_stage (d : DCtx) (a : Nat) (h1 : d.stage ≠ .decompressBlock) (h2 : d.stage ≠ .decompressLastBlock) :
    d.nextSrcSizeWithInput a = d.expected := by
  unfold DCtx.nextSrcSizeWithInput
  simp [h1, h2]

theorem needed_block (d : DCtx) (a : Nat) (he : 1 ≤ d.expected) (ha : d.expected ≤ a) : d.nextSrcSizeWithInput a = d.expected := by
  unfold DCtx.nextSrcSizeWithInput
  split
  · rfl
  · split
    · rfl
    · omega

theorem needed_ne_zero (d : DCtx) (a : Nat) (he : d.expected ≠ 0) : d.nextSrcSizeWithInput a ≠ 0 := by
  unfold DCtx.nextSrcSizeWithInput
  split
  · exact he
  · split
    · exact he
    · omega

theorem dbh_needed_zero (d0 : DCtx) (b : BlockD) (a : Nat) (h : (d0.stDecodeBlockHeader b).1.expected = 0) :
    (d0.stDecodeBlockHeader b).1.nextSrcSizeWithInput a = 0 := by
  obtain ⟨_, _, _, f1, f2, f3, f4⟩ := dbh_facts d0 b
  by_cases hc : b.cSize = 0
  · cases hl : b.last with
    | false => have := (f2 hc hl).1; omega
    | true =>
      cases hck : d0.checksum with
      | true => have := (f3 hc hl hck).1; omega
      | false => rw [needed_of_stage _ _ (by rw [(f4 hc hl hck).2]; simp) (by rw [(f4 hc hl hck).2]; simp)]; exact h
  · have := (f1 hc).1; omega

theorem cs_hdr (s : State) (n : Nat) (b : BlockD) (rest : List BlockD) (hst : s.d.stage = .decodeBlockHeader)
    (hb : s.blocks = b :: rest) :
    continueStream s n = { s with d := (s.d.stDecodeBlockHeader b).1, blocks := rest, ss := .read } := by
  unfold continueStream
  simp [DCtx.continue, hst, hb, stDecodeBlockHeader_snd, DCtx.isSkipFrame]

/-- the state a call leaves when the last thing it did was to read the header of block `b` (the blocks after it: `rest`) -/
structure After (s : State) (ck : Bool) (b : BlockD) (rest : List BlockD) : Prop where
  q : Quiet s
  bl : s.blocks = rest
  d : ∃ d0 : DCtx, d0.checksum = ck ∧ s.d = (d0.stDecodeBlockHeader b).1
  ss : s.ss = if s.d.expected = 0 then .init else .read

/-- the last turn of a call that ends with a block header: zdss_read finds the input exhausted (or the frame complete) -/
theorem post_hdr (s : State) (l : Loc) (i o : Nat) (b : BlockD) (rest : List BlockD) (q : Quiet s)
    (hst : s.d.stage = .decodeBlockHeader) (hb : s.blocks = b :: rest) (hip : l.ip = i) :
    ∃ s2, micro (continueStream s 3) l i o = .stop s2 l ∧ After s2 s.d.checksum b rest := by
  rw [cs_hdr s 3 b rest hst hb]
  by_cases he : (s.d.stDecodeBlockHeader b).1.expected = 0
  · refine ⟨_, micro_read_end _ l i o rfl (dbh_needed_zero s.d b _ he), ⟨q.inp, q.fl, q.host⟩, rfl, ⟨s.d, rfl, rfl⟩, ?_⟩
    show SStage.init = if (s.d.stDecodeBlockHeader b).1.expected = 0 then .init else .read
    rw [if_pos he]
  · refine ⟨_, micro_read_wait _ l i o rfl hip (needed_ne_zero _ 0 he), ⟨q.inp, q.fl, q.host⟩, rfl, ⟨s.d, rfl, rfl⟩, ?_⟩
    show SStage.read = if (s.d.stDecodeBlockHeader b).1.expected = 0 then .init else .read
    rw [if_neg he]

/-- two turns: take a block header, stop -/
theorem hdr_turns (s : State) (l : Loc) (i o : Nat) (b : BlockD) (rest : List BlockD) (hss : s.ss = .read) (q : Quiet s)
    (hst : s.d.stage = .decodeBlockHeader) (he : s.d.expected = 3) (hb : s.blocks = b :: rest) (hip : l.ip + 3 = i) :
    ∃ s2 l2, loop 2 s l i o = .stop s2 l2 ∧ l2.ip = i ∧ After s2 s.d.checksum b rest := by
  have hn : s.d.nextSrcSizeWithInput (i - l.ip) = 3 := by
    rw [needed_of_stage _ _ (by rw [hst]; simp) (by rw [hst]; simp)]; exact he
  obtain ⟨s2, h2, ha⟩ := post_hdr s { l with ip := l.ip + 3 } i o b rest q hst hb hip
  exact ⟨s2, _, by rw [loop_cont (micro_read_take s l i o 3 hss hn (by omega) (by omega)), loop_stop h2], hip, ha⟩

theorem cs_body (s : State) (n : Nat) (hst : s.d.stage = .decompressBlock ∨ s.d.stage = .decompressLastBlock) :
    continueStream s n =
      if (s.d.stDecompressBlock n).2 = 0 then { s with d := (s.d.stDecompressBlock n).1, ss := .read }
      else { s with d := (s.d.stDecompressBlock n).1, outEnd := s.outStart + (s.d.stDecompressBlock n).2, ss := .flush } := by
  unfold continueStream
  rcases hst with hst | hst <;> simp [DCtx.continue, hst, DCtx.isSkipFrame]

/-- what the bytes of the current block regenerate once the whole body is there -/
def BlockD.out (b : BlockD) : Nat :=
  match b.ty with
  | .raw => b.cSize
  | _ => b.regen

/-- the stage reached by decoding a whole block body -/
theorem sdb_facts (d : DCtx) (c : Nat) (he : d.expected = c) :
    (d.stDecompressBlock c).2 = d.blockOut c ∧ (d.stDecompressBlock c).1.checksum = d.checksum ∧
    (d.stage = .decompressBlock → (d.stDecompressBlock c).1.stage = .decodeBlockHeader ∧ (d.stDecompressBlock c).1.expected = 3) ∧
    (d.stage = .decompressLastBlock → d.checksum = true →
      (d.stDecompressBlock c).1.stage = .checkChecksum ∧ (d.stDecompressBlock c).1.expected = 4) ∧
    (d.stage = .decompressLastBlock → d.checksum = false →
      (d.stDecompressBlock c).1.stage = .getFrameHeaderSize ∧ (d.stDecompressBlock c).1.expected = 0) := by
  obtain ⟨stage, expected, bType, curRegen, decodedSize, headerSize, fcs, checksum, bsm, ws⟩ := d
  simp only at he
  subst he
  cases stage <;> cases bType <;> cases checksum <;>
    simp [DCtx.stDecompressBlock, DCtx.blockOut, DCtx.endOfBlocks, ZSTD_blockHeaderSize]

/-- after a `ZSTD_decompressContinue`: either nothing was written (zdss_read again) or everything written fits the caller's room and
one more turn (zdss_flush) hands it over; either way the loop goes on in zdss_read with nothing pending -/
theorem settle (s1 : State) (l : Loc) (i o k : Nat) (P : State → Loc → Prop)
    (h : (s1.ss = .read ∧ s1.outStart = s1.outEnd) ∨
      (s1.ss = .flush ∧ s1.outStart ≤ s1.outEnd ∧ s1.outEnd - s1.outStart ≤ o - l.op))
    (hk : ∀ s3 l3, s3.ss = .read → s3.d = s1.d → s3.blocks = s1.blocks → s3.inPos = s1.inPos → s3.hostage = s1.hostage →
      s3.outStart = s3.outEnd → l3.ip = l.ip → ∃ s2 l2, loop k s3 l3 i o = .stop s2 l2 ∧ P s2 l2) :
    ∃ s2 l2, loop (k + 1) s1 l i o = .stop s2 l2 ∧ P s2 l2 := by
  rcases h with ⟨h1, h2⟩ | ⟨h1, h2, h3⟩
  · obtain ⟨s2, l2, hl, hp⟩ := hk s1 l h1 rfl rfl rfl rfl h2 rfl
    exact ⟨s2, l2, loop_fuel_succ i o k s1 l s2 l2 hl, hp⟩
  · obtain ⟨s3, hm, a1, a2, a3, a4, a5, a6⟩ := micro_flush_all s1 l i o h1 h2 h3
    obtain ⟨s2, l2, hl, hp⟩ := hk s3 ⟨l.ip, l.op + (s1.outEnd - s1.outStart)⟩ a1 a2 a3 a4 a5 a6 rfl
    exact ⟨s2, l2, by rw [loop_cont hm]; exact hl, hp⟩

/-- the first turns of a call that finds a whole block body in its input: decode it, hand the result over -/
theorem body_turns (s : State) (i o k c : Nat) (P : State → Loc → Prop) (hss : s.ss = .read) (q : Quiet s)
    (hst : s.d.stage = .decompressBlock ∨ s.d.stage = .decompressLastBlock) (he : s.d.expected = c) (hc : 1 ≤ c) (hci : c ≤ i)
    (hout : s.d.blockOut c ≤ o)
    (hk : ∀ s3 l3, s3.ss = .read → Quiet s3 → s3.d = (s.d.stDecompressBlock c).1 → s3.blocks = s.blocks → l3.ip = c →
      ∃ s2 l2, loop k s3 l3 i o = .stop s2 l2 ∧ P s2 l2) :
    ∃ s2 l2, loop (k + 2) s {} i o = .stop s2 l2 ∧ P s2 l2 := by
  have hn : s.d.nextSrcSizeWithInput (i - ({} : Loc).ip) = c := by
    rw [needed_block _ _ (by omega) (by show s.d.expected ≤ i - 0; omega)]; exact he
  have hm := micro_read_take s {} i o c hss hn (by omega) (by show c ≤ i - 0; omega)
  have hout2 : (s.d.stDecompressBlock c).2 ≤ o := by rw [(sdb_facts s.d c he).1]; exact hout
  rw [loop_cont hm, cs_body s c hst]
  apply settle _ _ i o k P
  · by_cases hz : (s.d.stDecompressBlock c).2 = 0
    · rw [if_pos hz]; exact Or.inl ⟨rfl, q.fl⟩
    · rw [if_neg hz]
      refine Or.inr ⟨rfl, ?_, ?_⟩
      · show s.outStart ≤ s.outStart + _; omega
      · show s.outStart + _ - s.outStart ≤ o - 0; omega
  · intro s3 l3 a1 a2 a3 a4 a5 a6 a7
    by_cases hz : (s.d.stDecompressBlock c).2 = 0
    · rw [if_pos hz] at a2 a3 a4 a5
      exact hk s3 l3 a1 ⟨a4.trans q.inp, a6, a5.trans q.host⟩ a2 a3 (by rw [a7]; show 0 + c = c; omega)
    · rw [if_neg hz] at a2 a3 a4 a5
      exact hk s3 l3 a1 ⟨a4.trans q.inp, a6, a5.trans q.host⟩ a2 a3 (by rw [a7]; show 0 + c = c; omega)

/-! ### the calls of a hint-following run -/

/-- the return value of the call that read the header of block `b` -/
def retAfter (ck : Bool) (b : BlockD) : Nat :=
  if b.cSize ≠ 0 then b.cSize + (if b.last then 0 else 3) else if b.last = false then 3 else if ck then 4 else 0

theorem After.body {s : State} {ck : Bool} {b : BlockD} {rest : List BlockD} (h : After s ck b rest) (hc : b.cSize ≠ 0) :
    s.ss = .read ∧ s.d.stage = (if b.last then .decompressLastBlock else .decompressBlock) ∧ s.d.expected = b.cSize ∧
    s.d.bType = b.ty ∧ s.d.curRegen = b.regen ∧ s.d.checksum = ck := by
  obtain ⟨d0, hck, hd⟩ := h.d
  obtain ⟨f0, f1, f2, f3, _⟩ := dbh_facts d0 b
  have hss := h.ss
  rw [hd] at hss ⊢
  rw [(f3 hc).1, if_neg hc] at hss
  exact ⟨hss, (f3 hc).2, (f3 hc).1, f1, f2, f0.trans hck⟩

theorem After.hdr {s : State} {ck : Bool} {b : BlockD} {rest : List BlockD} (h : After s ck b rest) (hc : b.cSize = 0)
    (hl : b.last = false) : s.ss = .read ∧ s.d.stage = .decodeBlockHeader ∧ s.d.expected = 3 ∧ s.d.checksum = ck := by
  obtain ⟨d0, hck, hd⟩ := h.d
  obtain ⟨f0, _, _, _, f4, _⟩ := dbh_facts d0 b
  have hss := h.ss
  rw [hd] at hss ⊢
  rw [(f4 hc hl).1, if_neg (by decide)] at hss
  exact ⟨hss, (f4 hc hl).2, (f4 hc hl).1, f0.trans hck⟩

/-- the decoder waits for the 4 checksum bytes -/
structure CkWait (s : State) : Prop where
  ss : s.ss = .read
  q : Quiet s
  stage : s.d.stage = .checkChecksum
  expected : s.d.expected = 4

theorem After.cksum {s : State} {b : BlockD} {rest : List BlockD} (h : After s true b rest) (hc : b.cSize = 0)
    (hl : b.last = true) : CkWait s := by
  obtain ⟨d0, hck, hd⟩ := h.d
  obtain ⟨_, _, _, _, _, f5, _⟩ := dbh_facts d0 b
  have hss := h.ss
  rw [hd] at hss
  rw [(f5 hc hl hck).1, if_neg (by decide)] at hss
  exact ⟨hss, h.q, by rw [hd]; exact (f5 hc hl hck).2, by rw [hd]; exact (f5 hc hl hck).1⟩

theorem After.hint {s : State} {ck : Bool} {b : BlockD} {rest : List BlockD} (h : After s ck b rest) :
    hintOf s.d = retAfter ck b := by
  obtain ⟨d0, hck, hd⟩ := h.d
  obtain ⟨_, _, _, f3, f4, f5, f6⟩ := dbh_facts d0 b
  rw [hd]
  unfold hintOf retAfter DCtx.nextIsBlock
  by_cases hc : b.cSize = 0
  · cases hl : b.last with
    | false => rw [(f4 hc hl).1, (f4 hc hl).2]; simp [hc]
    | true =>
      cases hk : ck with
      | true => rw [(f5 hc hl (hck.trans hk)).1, (f5 hc hl (hck.trans hk)).2]; simp [hc]
      | false => rw [(f6 hc hl (hck.trans hk)).1]; simp [hc]
  · rw [(f3 hc).1, (f3 hc).2]
    cases hl : b.last <;> simp [hc, ZSTD_blockHeaderSize]

theorem After.congr {s : State} {ck : Bool} {b : BlockD} {rest : List BlockD} (h : After s ck b rest) (x y z : Nat) :
    After { s with noFwd := x, totalIn := y, totalOut := z } ck b rest :=
  ⟨⟨h.q.inp, h.q.fl, h.q.host⟩, h.bl, h.d, h.ss⟩

theorem blockOut_eq (d : DCtx) (b : BlockD) (h1 : d.bType = b.ty) (h2 : d.curRegen = b.regen) : d.blockOut b.cSize = b.out := by
  unfold DCtx.blockOut BlockD.out
  rw [h1, h2]
  cases b.ty <;> rfl

/-- a call that is offered the body of a block which is not the last one and the header of the next block `b2` -/
theorem call_body_hdr (s : State) (o : Nat) (ck : Bool) (b b2 : BlockD) (rest2 : List BlockD) (h : After s ck b (b2 :: rest2))
    (hc : b.cSize ≠ 0) (hl : b.last = false) (hout : b.out ≤ o) :
    After (step s (b.cSize + 3) o).1 ck b2 rest2 ∧ (step s (b.cSize + 3) o).2.ret = .hint (retAfter ck b2) := by
  obtain ⟨hss, hst, he, hty, hrg, hck⟩ := h.body hc
  rw [hl] at hst
  have hst2 : s.d.stage = .decompressBlock := hst
  obtain ⟨_, g1, g2, _, _⟩ := sdb_facts s.d b.cSize he
  obtain ⟨s2, l2, hlo, hip, ha⟩ := body_turns s (b.cSize + 3) o 2 b.cSize (fun s2 l2 => l2.ip = b.cSize + 3 ∧ After s2 ck b2 rest2)
    hss h.q (Or.inl hst2) he (by omega) (by omega) (by rw [blockOut_eq _ _ hty hrg]; exact hout)
    (fun s3 l3 a1 a2 a3 a4 a5 => by
      obtain ⟨s2, l2, hlo, hip, ha⟩ := hdr_turns s3 l3 (b.cSize + 3) o b2 rest2 a1 a2 (by rw [a3]; exact (g2 hst2).1)
        (by rw [a3]; exact (g2 hst2).2) (by rw [a4]; exact h.bl) (by omega)
      rw [a3, g1, hck] at ha
      exact ⟨s2, l2, hlo, hip, ha⟩)
  rw [step_of_stop s (b.cSize + 3) o 4 s2 l2 hlo (by unfold loopFuel; omega) (by omega) ha.q]
  exact ⟨ha.congr _ _ _, by rw [ha.hint]⟩

/-- a call that is offered the header of block `b2` alone (the block before it was empty) -/
theorem call_hdr (s : State) (o : Nat) (ck : Bool) (b b2 : BlockD) (rest2 : List BlockD) (h : After s ck b (b2 :: rest2))
    (hc : b.cSize = 0) (hl : b.last = false) :
    After (step s 3 o).1 ck b2 rest2 ∧ (step s 3 o).2.ret = .hint (retAfter ck b2) := by
  obtain ⟨hss, hst, he, hck⟩ := h.hdr hc hl
  obtain ⟨s2, l2, hlo, hip, ha⟩ := hdr_turns s {} 3 o b2 rest2 hss h.q hst he h.bl rfl
  rw [hck] at ha
  rw [step_of_stop s 3 o 2 s2 l2 hlo (by unfold loopFuel; omega) (by omega) ha.q]
  exact ⟨ha.congr _ _ _, by rw [ha.hint]⟩

/-- a call that is offered the body of the last block -/
theorem call_last (s : State) (o : Nat) (ck : Bool) (b : BlockD) (h : After s ck b []) (hc : b.cSize ≠ 0) (hl : b.last = true)
    (hout : b.out ≤ o) :
    (step s b.cSize o).2.ret = .hint (if ck then 4 else 0) ∧ (ck = true → CkWait (step s b.cSize o).1) := by
  obtain ⟨hss, hst, he, hty, hrg, hck⟩ := h.body hc
  rw [hl] at hst
  have hst2 : s.d.stage = .decompressLastBlock := hst
  obtain ⟨_, g1, _, g3, g4⟩ := sdb_facts s.d b.cSize he
  obtain ⟨s2, l2, hlo, hip, hq, hd⟩ := body_turns s b.cSize o 1 b.cSize
    (fun s2 l2 => l2.ip = b.cSize ∧ Quiet s2 ∧ (if ck then s2.ss = .read ∧ s2.d.stage = .checkChecksum ∧ s2.d.expected = 4 else s2.d.expected = 0))
    hss h.q (Or.inr hst2) he (by omega) (Nat.le_refl _) (by rw [blockOut_eq _ _ hty hrg]; exact hout)
    (fun s3 l3 a1 a2 a3 a4 a5 => by
      cases hk : ck with
      | true =>
        obtain ⟨e1, e2⟩ := g3 hst2 (hck.trans hk)
        refine ⟨s3, l3, loop_stop (micro_read_wait s3 l3 b.cSize o a1 a5 (needed_ne_zero _ 0 (by rw [a3, e2]; decide))), a5, a2, ?_⟩
        rw [if_pos rfl, a3]
        exact ⟨a1, e1, e2⟩
      | false =>
        obtain ⟨e1, e2⟩ := g4 hst2 (hck.trans hk)
        refine ⟨_, l3, loop_stop (micro_read_end s3 l3 b.cSize o a1 ?_), a5, ⟨a2.inp, a2.fl, a2.host⟩, ?_⟩
        · rw [needed_of_stage _ _ (by rw [a3, e1]; simp) (by rw [a3, e1]; simp), a3, e2]
        · rw [if_neg (by decide)]
          show s3.d.expected = 0
          rw [a3, e2])
  rw [step_of_stop s b.cSize o 3 s2 l2 hlo (by unfold loopFuel; omega) (by omega) hq]
  cases hk : ck with
  | true =>
    rw [hk, if_pos rfl] at hd
    refine ⟨?_, fun _ => ⟨hd.1, ⟨hq.inp, hq.fl, hq.host⟩, hd.2.1, hd.2.2⟩⟩
    show Ret.hint (hintOf s2.d) = _
    unfold hintOf DCtx.nextIsBlock
    rw [hd.2.1, hd.2.2]; rfl
  | false =>
    rw [hk, if_neg (by decide)] at hd
    refine ⟨?_, fun h => by cases h⟩
    show Ret.hint (hintOf s2.d) = _
    unfold hintOf
    rw [if_pos hd]; rfl

theorem cs_ck (s : State) (n : Nat) (hst : s.d.stage = .checkChecksum) :
    continueStream s n = { s with d := { s.d with expected := 0, stage := .getFrameHeaderSize }, ss := .read } := by
  unfold continueStream
  simp [DCtx.continue, hst, DCtx.isSkipFrame]

/-- the call that is offered the 4 checksum bytes ends the frame -/
theorem call_cksum (s : State) (o : Nat) (h : CkWait s) : (step s 4 o).2.ret = .hint 0 := by
  have hn : s.d.nextSrcSizeWithInput (4 - ({} : Loc).ip) = 4 := by
    rw [needed_of_stage _ _ (by rw [h.stage]; simp) (by rw [h.stage]; simp)]; exact h.expected
  have hm := micro_read_take s {} 4 o 4 h.ss hn (by omega) (by show 4 ≤ 4 - 0; omega)
  rw [cs_ck s 4 h.stage] at hm
  have hm2 := micro_read_end { s with d := { s.d with expected := 0, stage := .getFrameHeaderSize }, ss := .read }
    { ({} : Loc) with ip := ({} : Loc).ip + 4 } 4 o rfl (needed_of_stage _ _ (by simp) (by simp))
  have hlo := (loop_cont (n := 1) hm).trans (loop_stop (n := 0) hm2)
  rw [step_of_stop s 4 o 2 _ _ hlo (by unfold loopFuel; omega) (by show 0 + 4 ≠ 0; omega) ⟨h.q.inp, h.q.fl, h.q.host⟩]
  rfl

/-! ### the run over the blocks of a frame -/

/-- the return values from the call that reads the header of the first block of `bs` on, up to the final 0 -/
def rets (ck : Bool) : List BlockD → List Nat
  | [] => []
  | [b] => (if b.cSize = 0 then [] else [b.cSize]) ++ (if ck then [4] else []) ++ [0]
  | b :: b2 :: rest => (b.cSize + 3) :: rets ck (b2 :: rest)

/-- the rest of a hint-following run after a call that returned `r` -/
def contRets (fuel : Nat) (s : State) (r room : Nat) : List Nat := if r = 0 then [] else hintedRets fuel s r room

theorem hintedRets_succ (fuel : Nat) (s : State) (h room r : Nat) (hr : (step s h room).2.ret = .hint r) :
    hintedRets (fuel + 1) s h room = r :: contRets fuel (step s h room).1 r room := by
  rw [hintedRets, hr]
  cases r with
  | zero => rfl
  | succ n => simp [contRets]

theorem run_blocks (ck : Bool) (room : Nat) : ∀ (rest : List BlockD) (b : BlockD) (s : State) (fuel : Nat), After s ck b rest →
    lastOk (b :: rest) = true → (∀ x ∈ b :: rest, x.out ≤ room) → rest.length + 2 ≤ fuel →
    retAfter ck b :: contRets fuel s (retAfter ck b) room = rets ck (b :: rest) := by
  intro rest
  induction rest with
  | nil =>
    intro b s fuel h hlast hout hfuel
    have hl : b.last = true := by simpa [lastOk] using hlast
    obtain ⟨f1, rfl⟩ : ∃ f1, fuel = f1 + 1 := ⟨fuel - 1, by simp only [List.length_nil] at hfuel; omega⟩
    by_cases hc : b.cSize = 0
    · cases ck with
      | true =>
        have hr : retAfter true b = 4 := by simp [retAfter, hc, hl]
        rw [hr]
        simp only [contRets, rets, hc, if_true, Nat.reduceEqDiff, if_false]
        rw [hintedRets_succ f1 s 4 room 0 (call_cksum s room (h.cksum hc hl))]
        simp [contRets]
      | false =>
        have hr : retAfter false b = 0 := by simp [retAfter, hc, hl]
        rw [hr]
        simp [contRets, rets, hc]
    · have hr : retAfter ck b = b.cSize := by simp [retAfter, hc, hl]
      obtain ⟨c1, c2⟩ := call_last s room ck b h hc hl (hout b (by simp))
      rw [hr]
      simp only [contRets, rets, hc, if_false]
      rw [hintedRets_succ f1 s b.cSize room _ c1]
      cases ck with
      | true =>
        obtain ⟨f2, rfl⟩ : ∃ f2, f1 = f2 + 1 := ⟨f1 - 1, by simp only [List.length_nil] at hfuel; omega⟩
        simp only [if_true, contRets, Nat.reduceEqDiff, if_false]
        rw [hintedRets_succ f2 _ 4 room 0 (call_cksum _ room (c2 rfl))]
        simp [contRets]
      | false => simp [contRets]
  | cons b2 rest2 ih =>
    intro b s fuel h hlast hout hfuel
    have hl : b.last = false ∧ lastOk (b2 :: rest2) = true := by simpa [lastOk] using hlast
    obtain ⟨f1, rfl⟩ : ∃ f1, fuel = f1 + 1 := ⟨fuel - 1, by simp only [List.length_cons] at hfuel; omega⟩
    have hout2 : ∀ x ∈ b2 :: rest2, x.out ≤ room := fun x hx => hout x (List.mem_cons_of_mem _ hx)
    have hfuel2 : rest2.length + 2 ≤ f1 := by simp only [List.length_cons] at hfuel; omega
    by_cases hc : b.cSize = 0
    · have hr : retAfter ck b = 3 := by simp [retAfter, hc, hl.1]
      obtain ⟨c1, c2⟩ := call_hdr s room ck b b2 rest2 h hc hl.1
      rw [hr]
      simp only [contRets, Nat.reduceEqDiff, if_false, rets, hc, Nat.zero_add]
      rw [hintedRets_succ f1 s 3 room _ c2, ih b2 _ f1 c1 hl.2 hout2 hfuel2]
    · have hr : retAfter ck b = b.cSize + 3 := by simp [retAfter, hc, hl.1]
      obtain ⟨c1, c2⟩ := call_body_hdr s room ck b b2 rest2 h hc hl.1 (hout b (by simp))
      rw [hr]
      simp only [contRets, Nat.add_eq_zero_iff, Nat.reduceEqDiff, and_false, if_false, rets]
      rw [hintedRets_succ f1 s (b.cSize + 3) room _ c2, ih b2 _ f1 c1 hl.2 hout2 hfuel2]

/-- `rets` is the block part of `Stream.hints`, closed by the final 0 -/
theorem rets_eq_go (f : FrameShape) : ∀ (bs : List BlockD), bs ≠ [] →
    rets f.checksum bs = hints.go f (bs.map (·.cSize)) ++ [0] := by
  intro bs
  induction bs with
  | nil => intro h; exact absurd rfl h
  | cons b rest ih =>
    intro _
    cases rest with
    | nil => simp [rets, hints.go]
    | cons b2 rest2 =>
      have := ih (by simp)
      simp only [rets, List.map_cons, hints.go, List.cons_append] at this ⊢
      rw [this]

/-! ### the two calls that load the frame header -/

theorem loop_ret {n : Nat} {s : State} {l : Loc} {i o : Nat} {s1 : State} {c : Nat} {r : Ret} (h : micro s l i o = .ret s1 c r) :
    loop (n + 1) s l i o = .ret s1 c r := by
  rw [loop, h]

/-- between the first and the second call: the 5 prefix bytes of the header of `f` are loaded -/
structure HdrWait (s : State) (f : FrameD) : Prop where
  ss : s.ss = .loadHeader
  lh : s.lhSize = 5
  fr : s.frames = [f]
  q : Quiet s
  mw : s.maxWindowSize = ZSTD_MAXWINDOWSIZE_DEFAULT

/-- the first call: offered `ZSTD_startingInputLength` = 5 bytes, asks for the rest of the header (and the first block header) -/
theorem call_first (f : FrameD) (room : Nat) (h6 : 6 ≤ f.headerSize) :
    (step (State.start [f]) 5 room).2.ret = .hint (if f.skippable then f.headerSize - 5 else f.headerSize - 5 + 3) ∧
    HdrWait (step (State.start [f]) 5 room).1 f := by
  have hm1 : micro (State.start [f]) {} 5 room = .cont { stInit (State.start [f]) with lhSize := 5 } ⟨5, 0⟩ := by
    simp [micro, State.start, stLoadHeader, stInit, hdrNeed, ZSTD_FRAMEHEADERSIZE_PREFIX]
  have hn : hdrNeed (some f) 5 = f.headerSize := by
    unfold hdrNeed
    simp only [ZSTD_FRAMEHEADERSIZE_PREFIX, Nat.lt_irrefl, if_false]
    rw [if_pos (by omega)]
  have hm2 : micro { stInit (State.start [f]) with lhSize := 5 } ⟨5, 0⟩ 5 room =
      .ret { stInit (State.start [f]) with lhSize := 5 } 5
        (.hint (if f.skippable then f.headerSize - 5 else f.headerSize - 5 + 3)) := by
    unfold micro stInit State.start stLoadHeader
    simp only [List.head?_cons, hn]
    rw [if_pos (by omega), if_pos (by omega)]
    unfold hdrShort
    simp only [List.head?_cons, Nat.sub_self, Nat.add_zero, ZSTD_FRAMEHEADERSIZE_MIN, ZSTD_blockHeaderSize]
    cases f.skippable
    · simp only [Bool.and_false, Bool.false_eq_true, if_false]
      rw [show max 6 f.headerSize = f.headerSize by omega]
    · simp
  have hlo : loop (loopFuel 5) (State.start [f]) {} 5 room = _ := (loop_cont (n := 12 + 1) hm1).trans (loop_ret (n := 12) hm2)
  unfold step
  rw [hlo]
  exact ⟨rfl, rfl, rfl, rfl, ⟨rfl, rfl, rfl⟩, rfl⟩

theorem stRead_take (s : State) (l : Loc) (i n : Nat) (hn : s.d.nextSrcSizeWithInput (i - l.ip) = n)
    (h0 : n ≠ 0) (hle : n ≤ i - l.ip) : stRead s l i = .cont (continueStream s n) { l with ip := l.ip + n } := by
  unfold stRead; dsimp only
  rw [hn, if_neg h0, if_pos hle]

theorem stRead_wait (s : State) (l : Loc) (i : Nat) (hip : l.ip = i) (h0 : s.d.nextSrcSizeWithInput 0 ≠ 0) :
    stRead s l i = .stop s l := by
  unfold stRead; dsimp only
  have ha : i - l.ip = 0 := by omega
  rw [ha, if_neg h0, if_neg (by omega), if_pos rfl]

theorem stRead_end (s : State) (l : Loc) (i : Nat) (h0 : s.d.nextSrcSizeWithInput (i - l.ip) = 0) :
    stRead s l i = .stop { s with ss := .init } l := by
  unfold stRead; dsimp only
  rw [if_pos h0]

/-- the turn of zdss_loadHeader that finds the header complete and goes on buffered (no single-pass shortcut, window accepted) -/
theorem hdr_complete_turn (s : State) (l : Loc) (i o : Nat) (f : FrameD) (hss : s.ss = .loadHeader) (hfr : s.frames.head? = some f)
    (hlh : s.lhSize = f.headerSize) (h6 : 6 ≤ f.headerSize) (hnsp : l.ip ≠ s.lhSize ∨ f.skippable = true)
    (hwin : DBuf.effectiveWindow f.windowSize ≤ s.maxWindowSize) :
    micro s l i o = stRead { adaptBuffers (consumeHeader s f) (max (consumeHeader s f).d.blockSizeMax 4)
      (DBuf.decodingBufferSize (consumeHeader s f).d.windowSize (consumeHeader s f).d.fcs (consumeHeader s f).d.blockSizeMax)
        with ss := .read } l i := by
  have hn : hdrNeed (some f) s.lhSize = 0 := (hdrNeed_some f s.lhSize h6).1.2 (by omega)
  have hsp : singlePass s l i o f = false := by
    unfold singlePass
    cases f.fcs with
    | none => rfl
    | some n =>
      rcases hnsp with h | h
      · simp [h]
      · simp [h]
  have hw : ¬ ((consumeHeader s f).d.windowSize > s.maxWindowSize) := by
    show ¬ (DBuf.effectiveWindow f.windowSize > s.maxWindowSize)
    omega
  unfold micro; rw [hss]
  unfold stLoadHeader
  simp only [hfr, hn, ne_eq, not_true_eq_false, if_false]
  unfold hdrComplete
  rw [hsp]
  simp only [Bool.false_eq_true, if_false]
  rw [if_neg hw]

theorem consumed_fields (s : State) (f : FrameD) (a b : Nat) :
    ({ adaptBuffers (consumeHeader s f) a b with ss := .read } : State).d = (consumeHeader s f).d ∧
    ({ adaptBuffers (consumeHeader s f) a b with ss := .read } : State).blocks = f.blocks ∧
    ({ adaptBuffers (consumeHeader s f) a b with ss := .read } : State).inPos = s.inPos ∧
    ({ adaptBuffers (consumeHeader s f) a b with ss := .read } : State).outStart = s.outStart ∧
    ({ adaptBuffers (consumeHeader s f) a b with ss := .read } : State).outEnd = s.outEnd ∧
    ({ adaptBuffers (consumeHeader s f) a b with ss := .read } : State).hostage = s.hostage ∧
    ({ adaptBuffers (consumeHeader s f) a b with ss := .read } : State).ss = .read := by
  obtain ⟨a1, a2, _, a4, a5, a6, _, _, _, a10, _⟩ := adaptBuffers_fields (consumeHeader s f) a b
  exact ⟨a1, a2, a4, a5, a6, a10, rfl⟩

theorem consumeHeader_zstd (s : State) (f : FrameD) (hsk : f.skippable = false) :
    (consumeHeader s f).d.stage = .decodeBlockHeader ∧ (consumeHeader s f).d.expected = 3 ∧ (consumeHeader s f).d.checksum = f.checksum := by
  simp [consumeHeader, hsk, DCtx.setFrame, DCtx.begin, ZSTD_blockHeaderSize]

theorem consumeHeader_skip (s : State) (f : FrameD) (hsk : f.skippable = true) :
    (consumeHeader s f).d.stage = .skipFrame ∧ (consumeHeader s f).d.expected = f.payload := by
  simp [consumeHeader, hsk, DCtx.setFrame, DCtx.begin]

/-- the first turn of the second call: the rest of the header is there -/
theorem hdr_load_turn (s : State) (i o : Nat) (f : FrameD) (h : HdrWait s f) (h6 : 6 ≤ f.headerSize) (hi : f.headerSize - 5 ≤ i) :
    micro s {} i o = .cont { s with lhSize := f.headerSize } ⟨f.headerSize - 5, 0⟩ := by
  have hn : hdrNeed (some f) 5 = f.headerSize := by
    unfold hdrNeed
    simp only [ZSTD_FRAMEHEADERSIZE_PREFIX, Nat.lt_irrefl, if_false]
    rw [if_pos (by omega)]
  have e : micro s {} i o = stLoadHeader s {} i o := by unfold micro; rw [h.ss]
  rw [e]
  unfold stLoadHeader
  simp only [h.fr, h.lh, List.head?_cons, hn]
  rw [if_pos (by omega), if_neg (by show ¬ (f.headerSize - 5 > i - 0); omega)]
  simp

/-- the second call on a zstd frame: the rest of the header and the header of the first block `b` -/
theorem call_second_zstd (s : State) (room : Nat) (f : FrameD) (b : BlockD) (rest : List BlockD) (h : HdrWait s f)
    (h6 : 6 ≤ f.headerSize) (hsk : f.skippable = false) (hwin : DBuf.effectiveWindow f.windowSize ≤ ZSTD_MAXWINDOWSIZE_DEFAULT)
    (hb : f.blocks = b :: rest) :
    After (step s (f.headerSize - 5 + 3) room).1 f.checksum b rest ∧
    (step s (f.headerSize - 5 + 3) room).2.ret = .hint (retAfter f.checksum b) := by
  have hm1 := hdr_load_turn s (f.headerSize - 5 + 3) room f h h6 (by omega)
  have hm2 := hdr_complete_turn { s with lhSize := f.headerSize } ⟨f.headerSize - 5, 0⟩ (f.headerSize - 5 + 3) room f h.ss
    (by show s.frames.head? = some f; rw [h.fr]; rfl) rfl (by omega) (Or.inl (by show f.headerSize - 5 ≠ f.headerSize; omega))
    (by show _ ≤ s.maxWindowSize; rw [h.mw]; exact hwin)
  obtain ⟨d1, d2, d3, d4, d5, d6, d7⟩ := consumed_fields { s with lhSize := f.headerSize } f
    (max (consumeHeader { s with lhSize := f.headerSize } f).d.blockSizeMax 4)
    (DBuf.decodingBufferSize (consumeHeader { s with lhSize := f.headerSize } f).d.windowSize
      (consumeHeader { s with lhSize := f.headerSize } f).d.fcs (consumeHeader { s with lhSize := f.headerSize } f).d.blockSizeMax)
  obtain ⟨e1, e2, e3⟩ := consumeHeader_zstd { s with lhSize := f.headerSize } f hsk
  generalize ({ adaptBuffers (consumeHeader { s with lhSize := f.headerSize } f)
      (max (consumeHeader { s with lhSize := f.headerSize } f).d.blockSizeMax 4)
      (DBuf.decodingBufferSize (consumeHeader { s with lhSize := f.headerSize } f).d.windowSize
        (consumeHeader { s with lhSize := f.headerSize } f).d.fcs (consumeHeader { s with lhSize := f.headerSize } f).d.blockSizeMax)
      with ss := .read } : State) = sR at hm2 d1 d2 d3 d4 d5 d6 d7
  have hq : Quiet sR := ⟨d3.trans h.q.inp, by rw [d4, d5]; exact h.q.fl, d6.trans h.q.host⟩
  have hst : sR.d.stage = .decodeBlockHeader := by rw [d1]; exact e1
  have hn : sR.d.nextSrcSizeWithInput (f.headerSize - 5 + 3 - (⟨f.headerSize - 5, 0⟩ : Loc).ip) = 3 := by
    rw [needed_of_stage _ _ (by rw [hst]; simp) (by rw [hst]; simp), d1]; exact e2
  rw [stRead_take sR _ _ 3 hn (by omega) (by show 3 ≤ f.headerSize - 5 + 3 - (f.headerSize - 5); omega)] at hm2
  obtain ⟨s2, hm3, ha⟩ := post_hdr sR { (⟨f.headerSize - 5, 0⟩ : Loc) with ip := (⟨f.headerSize - 5, 0⟩ : Loc).ip + 3 }
    (f.headerSize - 5 + 3) room b rest hq hst (by rw [d2]; exact hb) rfl
  rw [d1, e3] at ha
  have hlo := ((loop_cont (n := 2) hm1).trans (loop_cont (n := 1) hm2)).trans (loop_stop (n := 0) hm3)
  rw [step_of_stop s _ room 3 s2 _ hlo (by unfold loopFuel; omega) (by show f.headerSize - 5 + 3 ≠ 0; omega) ha.q]
  exact ⟨ha.congr _ _ _, by rw [ha.hint]⟩

/-! ### skippable frames -/

/-- the decoder waits for the payload of a skippable frame -/
structure SkipWait (s : State) (p : Nat) : Prop where
  ss : s.ss = .read
  q : Quiet s
  stage : s.d.stage = .skipFrame
  expected : s.d.expected = p

/-- the second call on a skippable frame: the last 3 bytes of its 8-byte header; asks for the payload, if any -/
theorem call_second_skip (s : State) (room : Nat) (f : FrameD) (h : HdrWait s f) (h8 : f.headerSize = 8) (hsk : f.skippable = true)
    (hwin : DBuf.effectiveWindow f.windowSize ≤ ZSTD_MAXWINDOWSIZE_DEFAULT) :
    (step s 3 room).2.ret = .hint f.payload ∧ (f.payload ≠ 0 → SkipWait (step s 3 room).1 f.payload) := by
  have hm1 := hdr_load_turn s 3 room f h (by omega) (by omega)
  have hm2 := hdr_complete_turn { s with lhSize := f.headerSize } ⟨f.headerSize - 5, 0⟩ 3 room f h.ss
    (by show s.frames.head? = some f; rw [h.fr]; rfl) rfl (by omega) (Or.inr hsk)
    (by show _ ≤ s.maxWindowSize; rw [h.mw]; exact hwin)
  obtain ⟨d1, d2, d3, d4, d5, d6, d7⟩ := consumed_fields { s with lhSize := f.headerSize } f
    (max (consumeHeader { s with lhSize := f.headerSize } f).d.blockSizeMax 4)
    (DBuf.decodingBufferSize (consumeHeader { s with lhSize := f.headerSize } f).d.windowSize
      (consumeHeader { s with lhSize := f.headerSize } f).d.fcs (consumeHeader { s with lhSize := f.headerSize } f).d.blockSizeMax)
  obtain ⟨e1, e2⟩ := consumeHeader_skip { s with lhSize := f.headerSize } f hsk
  generalize ({ adaptBuffers (consumeHeader { s with lhSize := f.headerSize } f)
      (max (consumeHeader { s with lhSize := f.headerSize } f).d.blockSizeMax 4)
      (DBuf.decodingBufferSize (consumeHeader { s with lhSize := f.headerSize } f).d.windowSize
        (consumeHeader { s with lhSize := f.headerSize } f).d.fcs (consumeHeader { s with lhSize := f.headerSize } f).d.blockSizeMax)
      with ss := .read } : State) = sR at hm2 d1 d2 d3 d4 d5 d6 d7
  have hq : Quiet sR := ⟨d3.trans h.q.inp, by rw [d4, d5]; exact h.q.fl, d6.trans h.q.host⟩
  have hst : sR.d.stage = .skipFrame := by rw [d1]; exact e1
  have hex : sR.d.expected = f.payload := by rw [d1]; exact e2
  have hn : ∀ a, sR.d.nextSrcSizeWithInput a = f.payload := fun a => by
    rw [needed_of_stage _ _ (by rw [hst]; simp) (by rw [hst]; simp)]; exact hex
  have hnb : sR.d.nextIsBlock = false := by unfold DCtx.nextIsBlock; rw [hst]; rfl
  by_cases hp : f.payload = 0
  · rw [stRead_end sR _ _ (by rw [hn]; exact hp)] at hm2
    have hlo := (loop_cont (n := 1) hm1).trans (loop_stop (n := 0) hm2)
    rw [step_of_stop s 3 room 2 _ _ hlo (by unfold loopFuel; omega) (by show f.headerSize - 5 ≠ 0; omega) ⟨hq.inp, hq.fl, hq.host⟩]
    refine ⟨?_, fun h => absurd hp h⟩
    show Ret.hint (hintOf sR.d) = _
    unfold hintOf
    rw [if_pos (hex.trans hp), hp]
  · rw [stRead_wait sR _ _ (by show f.headerSize - 5 = 3; omega) (by rw [hn]; exact hp)] at hm2
    have hlo := (loop_cont (n := 1) hm1).trans (loop_stop (n := 0) hm2)
    rw [step_of_stop s 3 room 2 _ _ hlo (by unfold loopFuel; omega) (by show f.headerSize - 5 ≠ 0; omega) hq]
    refine ⟨?_, fun _ => ⟨d7, ⟨hq.inp, hq.fl, hq.host⟩, hst, hex⟩⟩
    show Ret.hint (hintOf sR.d) = _
    unfold hintOf
    rw [if_neg (by rw [hex]; exact hp), hnb, hex]; rfl

theorem cs_skip (s : State) (n : Nat) (hst : s.d.stage = .skipFrame) :
    continueStream s n =
      { s with d := { s.d with expected := 0, stage := .getFrameHeaderSize }, outEnd := s.outStart + 0, ss := .flush } := by
  unfold continueStream
  simp [DCtx.continue, hst, DCtx.isSkipFrame]

/-- the call that is offered the payload of a skippable frame ends the frame -/
theorem call_skip (s : State) (o p : Nat) (h : SkipWait s p) (hp : p ≠ 0) : (step s p o).2.ret = .hint 0 := by
  have hn : s.d.nextSrcSizeWithInput (p - ({} : Loc).ip) = p := by
    rw [needed_of_stage _ _ (by rw [h.stage]; simp) (by rw [h.stage]; simp)]; exact h.expected
  have hm := micro_read_take s {} p o p h.ss hn hp (by show p ≤ p - 0; omega)
  have hcs := cs_skip s p h.stage
  obtain ⟨s2, l2, hlo, hip, hq, hex⟩ := settle (continueStream s p) { ({} : Loc) with ip := ({} : Loc).ip + p } p o 1
    (fun s2 l2 => l2.ip = p ∧ Quiet s2 ∧ s2.d.expected = 0)
    (Or.inr (by
      rw [hcs]
      exact ⟨rfl, by show s.outStart ≤ s.outStart + 0; omega, by show s.outStart + 0 - s.outStart ≤ o - 0; omega⟩))
    (fun s3 l3 a1 a2 a3 a4 a5 a6 a7 => by
      rw [hcs] at a2 a4 a5
      refine ⟨_, l3, loop_stop (micro_read_end s3 l3 p o a1 ?_), by rw [a7]; show 0 + p = p; omega,
        ⟨a4.trans h.q.inp, a6, a5.trans h.q.host⟩, ?_⟩
      · rw [needed_of_stage _ _ (by rw [a2]; simp) (by rw [a2]; simp), a2]
      · show s3.d.expected = 0
        rw [a2])
  have hlo2 := (loop_cont (n := 2) hm).trans hlo
  rw [step_of_stop s p o 3 s2 l2 hlo2 (by unfold loopFuel; omega) (by omega) hq]
  show Ret.hint (hintOf s2.d) = _
  unfold hintOf
  rw [if_pos hex]

/-! ### the theorem -/

theorem out_le_of_ok {b : BlockD} {bsMax : Nat} (h : b.ok bsMax = true) : b.out ≤ bsMax := by
  simp only [BlockD.ok, Bool.and_eq_true, decide_eq_true_eq] at h
  unfold BlockD.out
  cases hty : b.ty <;> simp only [hty, decide_eq_true_eq] at h ⊢ <;> omega

theorem ok_blocks {f : FrameD} (h : f.ok = true) (hs : f.skippable = false) : ∀ b ∈ f.blocks, b.out ≤ f.blockSizeMax := by
  simp only [FrameD.ok, hs, Bool.false_eq_true, if_false, Bool.and_eq_true, List.all_eq_true] at h
  intro b hb
  exact out_le_of_ok (h.1.1.1.2 b hb)

/-- the run of `hint_exact` with any sufficient number of calls allowed -/
theorem hint_exact_fuel (f : FrameD) (hok : f.ok = true) (room : Nat) (hroom : f.blockSizeMax ≤ room)
    (hwin : f.windowSize ≤ ZSTD_MAXWINDOWSIZE_DEFAULT) (fuel : Nat) (hfuel : f.blocks.length + 3 ≤ fuel) :
    hintedRets fuel (State.start [f]) 5 room = (Stream.hints f.shape).tail ++ [0] := by
  have hwin2 : DBuf.effectiveWindow f.windowSize ≤ ZSTD_MAXWINDOWSIZE_DEFAULT := by
    unfold DBuf.effectiveWindow ZSTD_MAXWINDOWSIZE_DEFAULT ZSTD_WINDOWLOG_ABSOLUTEMIN
    unfold ZSTD_MAXWINDOWSIZE_DEFAULT at hwin
    omega
  obtain ⟨_, _, h6⟩ := ok_size hok
  obtain ⟨f1, rfl⟩ : ∃ f1, fuel = f1 + 1 := ⟨fuel - 1, by omega⟩
  obtain ⟨f2, rfl⟩ : ∃ f2, f1 = f2 + 1 := ⟨f1 - 1, by omega⟩
  obtain ⟨c1, c2⟩ := call_first f room h6
  rw [hintedRets_succ _ _ 5 room _ c1]
  cases hsk : f.skippable with
  | true =>
    obtain ⟨h8, hbl, _, _⟩ := ok_skip hok hsk
    obtain ⟨k1, k2⟩ := call_second_skip _ room f c2 h8 hsk hwin2
    have e3 : f.headerSize - 5 = 3 := by omega
    simp only [if_true, contRets, e3, Nat.reduceEqDiff, if_false]
    rw [hintedRets_succ f2 _ 3 room _ k1]
    simp only [FrameD.shape, hsk, if_true, hints, e3, contRets]
    by_cases hp : f.payload = 0
    · simp [hp]
    · obtain ⟨f3, rfl⟩ : ∃ f3, f2 = f3 + 1 := ⟨f2 - 1, by omega⟩
      rw [if_neg hp, hintedRets_succ f3 _ f.payload room 0 (call_skip _ room f.payload (k2 hp) hp)]
      simp [hp, contRets]
  | false =>
    obtain ⟨_, hl, _, _⟩ := ok_zstd hok hsk
    cases hbl : f.blocks with
    | nil => rw [hbl] at hl; simp [lastOk] at hl
    | cons b rest =>
      obtain ⟨k1, k2⟩ := call_second_zstd _ room f b rest c2 h6 hsk hwin2 hbl
      have hne : f.headerSize - 5 + 3 ≠ 0 := by omega
      simp only [Bool.false_eq_true, if_false, contRets, hne]
      rw [hintedRets_succ f2 _ _ room _ k2]
      have hrun := run_blocks f.checksum room rest b _ f2 k1 (by rw [← hbl]; exact hl)
        (fun x hx => Nat.le_trans (ok_blocks hok hsk x (by rw [hbl]; exact hx)) hroom)
        (by rw [hbl] at hfuel; simp only [List.length_cons] at hfuel; omega)
      rw [hrun]
      have hsh : f.shape = ⟨false, f.headerSize, f.blocks.map (·.cSize), f.checksum, 0⟩ := by simp [FrameD.shape, hsk]
      have hgo := rets_eq_go f.shape (b :: rest) (by simp)
      rw [hsh] at hgo ⊢
      simp only at hgo
      rw [hgo, hbl]
      simp [hints]

/-- **the input-size hint is exact**: on a well-formed single frame `f` whose window the decoder accepts (at most
ZSTD_MAXWINDOWSIZE_DEFAULT = 2^27 + 1; a larger one is refused with the error `frameParameter_windowTooLarge`), with room for a whole
block in every call's output, feeding `ZSTD_decompressStream` exactly the number of bytes it asked for (5 at the start) yields exactly the
request sequence `Stream.hints` of the frame, closed by the 0 that reports the end of the frame -/
theorem hint_exact (f : FrameD) (hok : f.ok = true) (room : Nat) (hroom : f.blockSizeMax ≤ room)
    (hwin : f.windowSize ≤ ZSTD_MAXWINDOWSIZE_DEFAULT) :
    hintedRets (2 * f.blocks.length + 8) (State.start [f]) 5 room = (Stream.hints f.shape).tail ++ [0] :=
  hint_exact_fuel f hok room hroom hwin _ (by omega)

/-- non-vacuity of `hint_exact`: the requests on `exFrame` (35 bytes: header 6, blocks 3+5, 3+10, 3+1, checksum 4) -/
example : 5 :: hintedRets (2 * exFrame.blocks.length + 8) (State.start [exFrame]) 5 1024 = [5, 4, 8, 13, 1, 4, 0] := by
  rw [hint_exact exFrame (by decide) 1024 (by decide) (by decide)]
  decide

/-- a well-formed frame whose window (2^28) exceeds the decoder's default limit -/
def bigWindowFrame : FrameD :=
  { skippable := false, headerSize := 6, blocks := [⟨.raw, 1, 1, true⟩], checksum := false, fcs := none, windowSize := 2 ^ 28,
    blockSizeMax := 131072 }

/-- the window hypothesis of `hint_exact` cannot be dropped: on `bigWindowFrame` the second call of the hint-following run reports
`windowTooLarge` (as the C function does: `frameParameter_windowTooLarge`), so the run ends after the first request -/
example : bigWindowFrame.ok = true ∧ bigWindowFrame.blockSizeMax ≤ 131072 ∧
    hintedRets (2 * bigWindowFrame.blocks.length + 8) (State.start [bigWindowFrame]) 5 131072 = [4] ∧
    (Stream.hints bigWindowFrame.shape).tail ++ [0] = [4, 1, 0] := by decide +kernel

/-- non-vacuity of `progress_output`: after a call with 3 bytes of output room on the whole of `[exFrame]` two bytes of the first block
are pending in zdss_flush; a call with NO input hands them over -/
example : (step (State.start [exFrame]) 35 3).1.ss = .flush ∧
    (step (State.start [exFrame]) 35 3).1.outStart < (step (State.start [exFrame]) 35 3).1.outEnd ∧
    (step (step (State.start [exFrame]) 35 3).1 0 10).2 = ⟨0, 2, 3, .hint 3⟩ := by decide +kernel

/-! ### the pacing specification's frame size is the frame's compressed size -/

theorem shape_blocks_sum (bs : List BlockD) : ((bs.map (·.cSize)).map (· + 3)).sum = blocksSize bs := by
  induction bs with
  | nil => rfl
  | cons b r ih => simp only [List.map_cons, List.sum_cons, blocksSize, ZSTD_blockHeaderSize, ih]; omega

theorem shape_frameSize (f : FrameD) (hok : f.ok = true) : Stream.frameSize f.shape = frameSize f := by
  cases hsk : f.skippable with
  | true =>
    obtain ⟨h8, _, _, _⟩ := ok_skip hok hsk
    simp [FrameD.shape, Stream.frameSize, frameSize, hsk, h8, ZSTD_SKIPPABLEHEADERSIZE]
  | false =>
    simp only [FrameD.shape, Stream.frameSize, frameSize, hsk, Bool.false_eq_true, if_false, shape_blocks_sum, ckSize]

theorem shape_facts (f : FrameD) (hok : f.ok = true) :
    f.shape.blocks ≠ [] ∧ 5 ≤ f.shape.headerSize ∧ (f.shape.skippable = true → f.shape.headerSize = 8) := by
  obtain ⟨_, _, h6⟩ := ok_size hok
  cases hsk : f.skippable with
  | true =>
    obtain ⟨h8, _, _, _⟩ := ok_skip hok hsk
    simp [FrameD.shape, hsk, h8]
  | false =>
    obtain ⟨_, hl, _, _⟩ := ok_zstd hok hsk
    have := lastOk_ne_nil hl
    simp only [FrameD.shape, hsk, Bool.false_eq_true, if_false, ne_eq, List.map_eq_nil_iff]
    exact ⟨this, by omega, fun h => by cases h⟩

theorem hints_head (sh : FrameShape) : Stream.hints sh = 5 :: (Stream.hints sh).tail := by
  unfold Stream.hints
  split <;> rfl

end ZstdVerif.DStream
