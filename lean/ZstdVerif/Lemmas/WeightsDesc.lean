/-
The FSE-compressed Huffman tree description without spreading hypotheses: `WeightsRT.WeightsFseOK` asks, among the side conditions on the
normalised counts of the weight values, for the two spreading facts (`spreadOK (spreadEnc norm L) norm L`, `spreadEnc norm L = spread norm L`)
that used to be evaluated per table; Lemmas/SpreadRT.lean proves both for every distribution (`spread_ok`, `spreadEnc_eq_spread`), so the
conditions that remain speak about the distribution only.
-/
import ZstdVerif.Lemmas.WeightsRT
import ZstdVerif.Lemmas.SpreadRT
namespace ZstdVerif.WeightsRT
open ZstdVerif ZstdVerif.FSE

/-- `WeightsFseOK` minus the two spreading conjuncts -/
structure WeightsDescOK (norm : Array Int) (L : Nat) (ws : List Nat) : Prop where
  normOK : NormOK norm L
  log_ge : 5 ≤ L
  log_le : L ≤ 6
  last_ne : norm[norm.size - 1]! ≠ 0
  size_le : norm.size ≤ 13
  covers : ∀ w, w ∈ ws → w < norm.size ∧ norm[w]! ≠ 0
  not_rle : ∀ s, s < norm.size → cnt norm s < 2 ^ L

theorem weightsFseOK_of_distribution {norm : Array Int} {L : Nat} {ws : List Nat} (h : WeightsDescOK norm L ws) : WeightsFseOK norm L ws := by
  have hE := spreadEnc_eq_spread h.normOK
  refine ⟨h.normOK, h.log_ge, h.log_le, h.last_ne, h.size_le, ?_, hE, h.covers, h.not_rle⟩
  rw [hE]
  exact (spreadOK_iff _ _ _).2 (spread_ok h.normOK (by have := h.log_ge; omega))

end ZstdVerif.WeightsRT
