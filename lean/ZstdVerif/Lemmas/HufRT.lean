/-
The Huffman decoding table of the model (Huf.buildTable, tied to HUF_readDTableX1_wksp) inverts the encoder's code assignment
(HufEnc.codesOf, tied to HUF_buildCTableFromTree / HUF_readCTable) for every valid weight vector; stream round trip over an
abstract bit stack; the 4-stream segmentation of encoder and decoder agree.
-/
import ZstdVerif.Model.Huf
import ZstdVerif.Model.HufEnc
namespace ZstdVerif.HufRT
open ZstdVerif.HufEnc ZstdVerif.Huf

/-! ### weights -/

/-- number of cells a symbol of weight `w` occupies: `(1 << w) >> 1` -/
def wlen (w : Nat) : Nat := (1 <<< w) >>> 1

theorem wlen_zero : wlen 0 = 0 := by decide

theorem wlen_succ (w : Nat) : wlen (w + 1) = 2 ^ w := by
  simp only [wlen, Nat.shiftLeft_eq, Nat.shiftRight_eq_div_pow, Nat.one_mul, Nat.pow_succ]
  omega

theorem wlen_pos {w : Nat} (h : 0 < w) : wlen w = 2 ^ (w - 1) := by
  obtain ⟨k, rfl⟩ : ∃ k, w = k + 1 := ⟨w - 1, by omega⟩
  simp [wlen_succ]

/-- what HUF_readStats_body guarantees: 1 ≤ tableLog, all weights ≤ tableLog, Σ_{w>0} 2^(w-1) = 2^tableLog -/
structure WeightsOK (weights : Array Nat) (log : Nat) : Prop where
  log_pos : 1 ≤ log
  le_log : ∀ w ∈ weights.toList, w ≤ log
  kraft : kraftSum weights.toList = 2 ^ log

theorem weightsOK_iff (weights : Array Nat) (log : Nat) : weightsOK weights log = true ↔ WeightsOK weights log := by
  simp only [weightsOK, Bool.and_eq_true, decide_eq_true_eq, List.all_eq_true, beq_iff_eq, Nat.shiftLeft_eq, Nat.one_mul]
  constructor
  · rintro ⟨⟨h1, h2⟩, h3⟩; exact ⟨h1, h2, h3⟩
  · rintro ⟨h1, h2, h3⟩; exact ⟨⟨h1, h2⟩, h3⟩

instance (weights : Array Nat) (log : Nat) : Decidable (WeightsOK weights log) :=
  decidable_of_iff _ (weightsOK_iff weights log)

/-- cells occupied by the symbols of weight 1..k: Σ_{w=1..k} (number of symbols of weight w) * 2^(w-1) -/
def cellsUpTo (W : List Nat) : Nat → Nat
  | 0 => 0
  | k + 1 => cellsUpTo W k + W.count (k + 1) * 2 ^ k

/-- Σ over the symbols with 1 ≤ weight ≤ k of 2^(weight-1) -/
def kraftUpTo : List Nat → Nat → Nat
  | [], _ => 0
  | w :: ws, k => (if w ≤ k then wlen w else 0) + kraftUpTo ws k

theorem kraftUpTo_succ (W : List Nat) (k : Nat) : kraftUpTo W (k + 1) = kraftUpTo W k + W.count (k + 1) * 2 ^ k := by
  induction W with
  | nil => simp [kraftUpTo]
  | cons w ws ih =>
    simp only [kraftUpTo, ih, List.count_cons, beq_iff_eq]
    by_cases h1 : w = k + 1
    · subst h1
      simp only [show ¬ (k + 1 ≤ k) by omega, if_false, Nat.le_refl, if_true, wlen_succ, Nat.add_mul, Nat.one_mul]
      omega
    · by_cases h2 : w ≤ k
      · simp only [h2, show w ≤ k + 1 by omega, if_true, h1, if_false, Nat.add_zero]; omega
      · simp only [h2, show ¬ w ≤ k + 1 by omega, h1, if_false, Nat.add_zero]; omega

theorem kraftUpTo_zero (W : List Nat) : kraftUpTo W 0 = 0 := by
  induction W with
  | nil => rfl
  | cons w ws ih =>
    simp only [kraftUpTo, ih, Nat.le_zero]
    split
    · next h => subst h; rfl
    · rfl

theorem cellsUpTo_eq_kraftUpTo (W : List Nat) (k : Nat) : cellsUpTo W k = kraftUpTo W k := by
  induction k with
  | zero => simp [cellsUpTo, kraftUpTo_zero]
  | succ k ih => rw [cellsUpTo, kraftUpTo_succ, ih]

theorem kraftUpTo_eq_kraftSum (W : List Nat) (k : Nat) (h : ∀ w ∈ W, w ≤ k) : kraftUpTo W k = kraftSum W := by
  induction W with
  | nil => rfl
  | cons w ws ih =>
    have hw : w ≤ k := h w (List.mem_cons_self)
    simp only [kraftUpTo, kraftSum, hw, if_true, wlen]
    rw [ih (fun x hx => h x (List.mem_cons_of_mem _ hx))]

/-- Kraft equality in rank form -/
theorem cellsUpTo_log {weights : Array Nat} {log : Nat} (ok : WeightsOK weights log) :
    cellsUpTo weights.toList log = 2 ^ log := by
  rw [cellsUpTo_eq_kraftUpTo, kraftUpTo_eq_kraftSum _ _ ok.le_log, ok.kraft]

theorem cellsUpTo_mono (W : List Nat) {j k : Nat} (h : j ≤ k) : cellsUpTo W j ≤ cellsUpTo W k := by
  induction k with
  | zero => have : j = 0 := by omega
            subst this; exact Nat.le_refl _
  | succ k ih =>
    by_cases hj : j = k + 1
    · subst hj; exact Nat.le_refl _
    · have := ih (by omega)
      simp only [cellsUpTo]; omega

/-- the cells of the ranks above `j` come in multiples of 2^j -/
theorem cellsUpTo_tail_dvd (W : List Nat) (j k : Nat) (h : j ≤ k) : ∃ c, cellsUpTo W k = cellsUpTo W j + 2 ^ j * c := by
  induction k with
  | zero => have : j = 0 := by omega
            subst this; exact ⟨0, by simp⟩
  | succ k ih =>
    by_cases hj : j = k + 1
    · subst hj; exact ⟨0, by simp⟩
    · obtain ⟨c, hc⟩ := ih (by omega)
      refine ⟨c + W.count (k + 1) * 2 ^ (k - j), ?_⟩
      have hp : 2 ^ k = 2 ^ j * 2 ^ (k - j) := by rw [← Nat.pow_add]; congr 1; omega
      simp only [cellsUpTo, hc, hp, Nat.mul_add]
      rw [Nat.mul_comm (W.count (k + 1)) (2 ^ j * 2 ^ (k - j)), Nat.mul_assoc, Nat.mul_comm (2 ^ (k - j))]
      omega

/-- for valid weights the cells of ranks 1..j are a multiple of 2^j (j ≤ tableLog) -/
theorem two_pow_dvd_cellsUpTo {weights : Array Nat} {log : Nat} (ok : WeightsOK weights log) {j : Nat} (hj : j ≤ log) :
    2 ^ j ∣ cellsUpTo weights.toList j := by
  obtain ⟨c, hc⟩ := cellsUpTo_tail_dvd weights.toList j log hj
  rw [cellsUpTo_log ok] at hc
  have h1 : 2 ^ j ∣ 2 ^ log := Nat.pow_dvd_pow 2 hj
  have h2 : 2 ^ j ∣ 2 ^ j * c := Nat.dvd_mul_right _ _
  have : cellsUpTo weights.toList j = 2 ^ log - 2 ^ j * c := by omega
  rw [this]
  exact Nat.dvd_sub h1 h2

/-! ### the decoding table -/

/-- what `Huf.rankCells` writes for one (weight, symbol) pair -/
def rankG (log w : Nat) : Nat × Nat → List (Nat × Nat) :=
  fun (x, s) => if x == w then List.replicate ((1 <<< w) >>> 1) (s, log + 1 - w) else []

theorem rankCells_eq (W : List Nat) (log w : Nat) : rankCells W log w = W.zipIdx.flatMap (rankG log w) := rfl

theorem rankG_eq (log w a k : Nat) :
    rankG log w (a, k) = if a = w then List.replicate (wlen w) (k, log + 1 - w) else [] := by
  simp only [rankG, wlen, beq_iff_eq]

theorem rank_length (log w : Nat) (l : List Nat) (k : Nat) :
    ((l.zipIdx k).flatMap (rankG log w)).length = l.count w * wlen w := by
  induction l generalizing k with
  | nil => simp
  | cons a l ih =>
    simp only [List.zipIdx_cons, List.flatMap_cons, List.length_append, ih, List.count_cons, rankG_eq, beq_iff_eq]
    by_cases h : a = w
    · simp only [h, if_true, List.length_replicate, Nat.add_mul, Nat.one_mul]; omega
    · simp only [h, if_false, List.length_nil, Nat.add_zero, Nat.zero_add]

/-- inside one rank: the symbol at position `s` of weight `w` owns the `wlen w` cells after those of the earlier symbols of weight `w` -/
theorem rank_block (log w : Nat) (l : List Nat) (k s : Nat) (hs : s < l.length) (hw : l[s] = w) (x : Nat) (hx : x < wlen w) :
    ((l.zipIdx k).flatMap (rankG log w))[(l.take s).count w * wlen w + x]? = some (k + s, log + 1 - w) := by
  induction l generalizing k s with
  | nil => simp at hs
  | cons a l ih =>
    simp only [List.zipIdx_cons, List.flatMap_cons, rankG_eq]
    cases s with
    | zero =>
      simp only [List.getElem_cons_zero] at hw
      simp only [hw, if_true, List.take_zero, List.count_nil, Nat.zero_mul, Nat.zero_add, Nat.add_zero]
      rw [List.getElem?_append_left (by simpa using hx)]
      simp [hx]
    | succ s =>
      simp only [List.getElem_cons_succ] at hw
      have hs2 : s < l.length := by simpa using hs
      have := ih (k + 1) s hs2 hw
      simp only [List.take_succ_cons, List.count_cons, beq_iff_eq]
      by_cases h : a = w
      · simp only [h, if_true, Nat.add_mul, Nat.one_mul]
        rw [List.getElem?_append_right (by simp only [List.length_replicate]; omega)]
        simp only [List.length_replicate]
        rw [show (List.take s l).count w * wlen w + wlen w + x - wlen w = (List.take s l).count w * wlen w + x by omega, this]
        congr 2; omega
      · simp only [h, if_false, List.nil_append, Nat.add_zero]
        rw [this]; congr 2; omega

/-- ranks 1..k of the table -/
def flat (W : List Nat) (log k : Nat) : List (Nat × Nat) := (List.range' 1 k).flatMap (rankCells W log)

theorem tableCells_eq_flat (W : List Nat) (log : Nat) : tableCells W log = flat W log log := rfl

theorem rankCells_length (W : List Nat) (log k : Nat) : (rankCells W log (k + 1)).length = W.count (k + 1) * 2 ^ k := by
  rw [rankCells_eq, rank_length, wlen_succ]

theorem flat_succ (W : List Nat) (log k : Nat) : flat W log (k + 1) = flat W log k ++ rankCells W log (k + 1) := by
  simp only [flat, List.range'_1_concat, List.flatMap_append, List.flatMap_cons, List.flatMap_nil, List.append_nil, Nat.add_comm 1 k]

theorem flat_length (W : List Nat) (log k : Nat) : (flat W log k).length = cellsUpTo W k := by
  induction k with
  | zero => rfl
  | succ k ih => rw [flat_succ, List.length_append, ih, rankCells_length, cellsUpTo]

/-- rank `w` starts where the cells of ranks 1..w-1 end -/
theorem flat_block (W : List Nat) (log k w : Nat) (hw1 : 1 ≤ w) (hwk : w ≤ k) (j : Nat) (v : Nat × Nat)
    (h : (rankCells W log w)[j]? = some v) : (flat W log k)[cellsUpTo W (w - 1) + j]? = some v := by
  induction k with
  | zero => omega
  | succ k ih =>
    rw [flat_succ]
    by_cases hk : w = k + 1
    · subst hk
      rw [List.getElem?_append_right (by rw [flat_length]; simp), flat_length]
      simpa using h
    · have := ih (by omega)
      have hlt := (List.getElem?_eq_some_iff.mp this).1
      rw [List.getElem?_append_left hlt]; exact this

/-- for valid weights the ranks fill the table exactly -/
theorem tableCells_length {weights : Array Nat} {log : Nat} (ok : WeightsOK weights log) :
    (tableCells weights.toList log).length = 2 ^ log := by
  rw [tableCells_eq_flat, flat_length, cellsUpTo_log ok]

theorem buildTable_cells {weights : Array Nat} {log : Nat} (ok : WeightsOK weights log) (used : Nat) :
    (buildTable ⟨weights, log, used⟩).cells = (tableCells weights.toList log).toArray := by
  have hl := tableCells_length ok
  simp only [buildTable, Nat.shiftLeft_eq, Nat.one_mul, hl, Nat.sub_self, List.replicate_zero, List.append_nil]
  rw [← hl, List.take_length]

theorem buildTable_log (st : Stats) : (buildTable st).log = st.tableLog := rfl

/-! ### the encoder's code values -/

theorem nbBits_eq_iff {log a w : Nat} (ha : a ≤ log) (hw1 : 1 ≤ w) (hw : w ≤ log) :
    nbBitsOfWeight log a = log + 1 - w ↔ a = w := by
  unfold nbBitsOfWeight; split <;> omega

/-- HUF_writeCTable_wksp's `bitsToWeight` undoes HUF_readCTable's nbBits formula on the weights 0..tableLog (and vice versa on the
code lengths 0..tableLog): the weights the model receives from the library's code lengths describe the same code -/
theorem weightOfNbBits_nbBitsOfWeight {log w : Nat} (h : w ≤ log) : weightOfNbBits log (nbBitsOfWeight log w) = w := by
  unfold weightOfNbBits nbBitsOfWeight; split <;> split <;> omega

theorem nbBitsOfWeight_weightOfNbBits {log nb : Nat} (h : nb ≤ log) : nbBitsOfWeight log (weightOfNbBits log nb) = nb := by
  unfold weightOfNbBits nbBitsOfWeight; split <;> split <;> omega

/-- number of symbols of code length log+1-w = number of symbols of weight w -/
theorem count_nbBits {log w : Nat} (W : List Nat) (hW : ∀ a ∈ W, a ≤ log) (hw1 : 1 ≤ w) (hw : w ≤ log) :
    (W.map (nbBitsOfWeight log)).count (log + 1 - w) = W.count w := by
  induction W with
  | nil => rfl
  | cons a l ih =>
    have ha : a ≤ log := hW a List.mem_cons_self
    simp only [List.map_cons, List.count_cons, beq_iff_eq, nbBits_eq_iff ha hw1 hw,
      ih (fun x hx => hW x (List.mem_cons_of_mem _ hx))]

/-- `nbPerRank` as both C functions compute it -/
def nbPerRankOf (W : List Nat) (log : Nat) : Nat → Nat := fun n => (W.map (nbBitsOfWeight log)).count n

theorem minAfter_step {weights : Array Nat} {log : Nat} (ok : WeightsOK weights log) (k : Nat) (hk : k < log)
    (ih : minAfter (nbPerRankOf weights.toList log) log k * 2 ^ k = cellsUpTo weights.toList k) :
    (minAfter (nbPerRankOf weights.toList log) log k + nbPerRankOf weights.toList log (log - k)) % 2 = 0 ∧
    minAfter (nbPerRankOf weights.toList log) log (k + 1) * 2 ^ (k + 1) = cellsUpTo weights.toList (k + 1) := by
  have hc : nbPerRankOf weights.toList log (log - k) = weights.toList.count (k + 1) := by
    have := count_nbBits (w := k + 1) weights.toList ok.le_log (by omega) (by omega)
    rw [show log + 1 - (k + 1) = log - k by omega] at this
    exact this
  obtain ⟨c, hc2⟩ := two_pow_dvd_cellsUpTo ok (j := k + 1) (by omega)
  rw [show minAfter (nbPerRankOf weights.toList log) log (k + 1) = (minAfter (nbPerRankOf weights.toList log) log k +
    nbPerRankOf weights.toList log (log - k)) >>> 1 from rfl]
  generalize minAfter (nbPerRankOf weights.toList log) log k = m at ih
  have hm : (m + weights.toList.count (k + 1)) * 2 ^ k = 2 ^ k * (2 * c) := by
    rw [Nat.add_mul, ih, ← cellsUpTo, hc2, Nat.pow_succ, Nat.mul_assoc]
  have hpos : 0 < 2 ^ k := Nat.two_pow_pos k
  have hm2 : m + weights.toList.count (k + 1) = 2 * c := by
    rw [Nat.mul_comm] at hm
    exact Nat.eq_of_mul_eq_mul_left hpos hm
  refine ⟨by rw [hc, hm2]; omega, ?_⟩
  rw [hc, hm2, Nat.shiftRight_eq_div_pow, Nat.pow_one, Nat.mul_div_cancel_left c (by decide : 0 < 2), hc2, Nat.mul_comm]

/-- `min` after k turns, scaled to table cells, is the number of cells of the weights 1..k -/
theorem minAfter_closed {weights : Array Nat} {log : Nat} (ok : WeightsOK weights log) (k : Nat) (hk : k ≤ log) :
    minAfter (nbPerRankOf weights.toList log) log k * 2 ^ k = cellsUpTo weights.toList k := by
  induction k with
  | zero => simp [minAfter, cellsUpTo]
  | succ k ih => exact (minAfter_step ok k (by omega) (ih (by omega))).2

/-- `min >>= 1` never drops a one bit: `min + nbPerRank[n]` is even at every rank n = tableLog - k ≥ 1 -/
theorem minAfter_even {weights : Array Nat} {log : Nat} (ok : WeightsOK weights log) (k : Nat) (hk : k < log) :
    (minAfter (nbPerRankOf weights.toList log) log k + nbPerRankOf weights.toList log (log - k)) % 2 = 0 :=
  (minAfter_step ok k hk (minAfter_closed ok k (by omega))).1

/-- `valPerRank[nb] * 2^(log - nb)` = number of table cells occupied by all symbols of strictly smaller weight than
`log + 1 - nb` (i.e. strictly longer codes) -/
theorem valPerRank_closed_form {weights : Array Nat} {log : Nat} (ok : WeightsOK weights log) (nb : Nat)
    (h1 : 1 ≤ nb) (h2 : nb ≤ log) :
    valPerRank (nbPerRankOf weights.toList log) log nb * 2 ^ (log - nb) = cellsUpTo weights.toList (log - nb) := by
  simp only [valPerRank, h1, h2, and_self, if_true]
  exact minAfter_closed ok (log - nb) (by omega)

theorem assignVals_length (nbs : List Nat) (vpr : Nat → Nat) : (assignVals nbs vpr).length = nbs.length := by
  induction nbs generalizing vpr with
  | nil => rfl
  | cons a l ih => simp [assignVals, ih]

/-- "valPerRank[nbBits]++ in symbol order": symbol s gets the rank's start value plus the number of earlier symbols of its rank -/
theorem assignVals_getElem (nbs : List Nat) (vpr : Nat → Nat) (s : Nat) (hs : s < nbs.length) :
    (assignVals nbs vpr)[s]? = some (if nbs[s] = 0 then 0 else vpr nbs[s] + (nbs.take s).count nbs[s], nbs[s]) := by
  induction nbs generalizing vpr s with
  | nil => simp at hs
  | cons a l ih =>
    cases s with
    | zero => simp [assignVals]
    | succ s =>
      have hs2 : s < l.length := by simpa using hs
      simp only [assignVals, List.getElem?_cons_succ, ih _ s hs2, List.getElem_cons_succ, List.take_succ_cons,
        List.count_cons, beq_iff_eq]
      by_cases h0 : l[s] = 0
      · simp only [h0, if_true]
      · simp only [h0, if_false]
        by_cases ha : l[s] = a
        · simp only [ha, if_true]; congr 2; omega
        · simp only [ha, if_false, show ¬ (a = l[s]) from fun e => ha e.symm, Nat.add_zero]

theorem codesOf_size (weights : Array Nat) (log : Nat) : (codesOf weights log).size = weights.size := by
  simp [codesOf, codesOfNbBits, assignVals_length]

/-- closed form of the code of a symbol of non-zero weight -/
theorem codesOf_getElem {weights : Array Nat} {log : Nat} (ok : WeightsOK weights log) (s : Nat) (hs : s < weights.size)
    (hw : 0 < weights[s]) :
    (codesOf weights log)[s]? = some
      (valPerRank (nbPerRankOf weights.toList log) log (log + 1 - weights[s]) + (weights.toList.take s).count weights[s],
       log + 1 - weights[s]) := by
  have hwl : weights[s] ≤ log := ok.le_log _ (by simp)
  have hs2 : s < (weights.toList.map (nbBitsOfWeight log)).length := by simpa using hs
  have hnb : (weights.toList.map (nbBitsOfWeight log))[s] = log + 1 - weights[s] := by
    simp only [List.getElem_map, Array.getElem_toList, nbBitsOfWeight]
    rw [if_neg (by omega)]
  have hcnt : ((weights.toList.map (nbBitsOfWeight log)).take s).count (log + 1 - weights[s])
      = (weights.toList.take s).count weights[s] := by
    rw [← List.map_take]
    exact count_nbBits _ (fun a ha => ok.le_log a (List.mem_of_mem_take ha)) hw hwl
  simp only [codesOf, codesOfNbBits, List.getElem?_toArray]
  rw [assignVals_getElem _ _ s hs2, hnb, hcnt]
  simp only [show ¬ (log + 1 - weights[s] = 0) by omega, if_false]
  rfl

/-! ### the table inverts the code -/

/-- first cell of symbol `s` (weight w > 0): the cells of the smaller weights, then those of the earlier symbols of weight w -/
theorem tableCells_block {weights : Array Nat} {log : Nat} (ok : WeightsOK weights log) (s : Nat) (hs : s < weights.size)
    (hw : 0 < weights[s]) (x : Nat) (hx : x < 2 ^ (weights[s] - 1)) :
    (tableCells weights.toList log)[cellsUpTo weights.toList (weights[s] - 1)
        + (weights.toList.take s).count weights[s] * 2 ^ (weights[s] - 1) + x]? = some (s, log + 1 - weights[s]) := by
  have hwl : weights[s] ≤ log := ok.le_log _ (by simp)
  have hs2 : s < weights.toList.length := by simpa using hs
  have hb := rank_block log weights[s] weights.toList 0 s hs2 (by simp) x (by rw [wlen_pos hw]; exact hx)
  rw [wlen_pos hw, Nat.zero_add, ← rankCells_eq] at hb
  have := flat_block weights.toList log log weights[s] hw hwl _ _ hb
  rw [tableCells_eq_flat, Nat.add_assoc]; exact this

/-- MAIN LEMMA.  For valid weights, every symbol `s` of non-zero weight `w` has the code (val, nb) with nb = tableLog + 1 - w and
val < 2^nb, and whatever `tableLog - nb` bits follow the code in the stream, the cell of the decoding table found at the next
`tableLog` bits holds the symbol and its code length. -/
theorem table_inverts_code {weights : Array Nat} {log : Nat} (ok : WeightsOK weights log) (used : Nat)
    (s : Nat) (hs : s < weights.size) (hw : 0 < weights[s]) :
    ∃ val nb, (codesOf weights log)[s]? = some (val, nb) ∧ nb = log + 1 - weights[s] ∧ 1 ≤ nb ∧ nb ≤ log ∧ val < 2 ^ nb ∧
      ∀ x, x < 2 ^ (log - nb) → (buildTable ⟨weights, log, used⟩).cells[val * 2 ^ (log - nb) + x]? = some (s, nb) := by
  have hwl : weights[s] ≤ log := ok.le_log _ (by simp)
  refine ⟨_, _, codesOf_getElem ok s hs hw, rfl, by omega, by omega, ?_⟩
  have hsub : log - (log + 1 - weights[s]) = weights[s] - 1 := by omega
  have hval : (valPerRank (nbPerRankOf weights.toList log) log (log + 1 - weights[s])
        + (weights.toList.take s).count weights[s]) * 2 ^ (weights[s] - 1)
      = cellsUpTo weights.toList (weights[s] - 1) + (weights.toList.take s).count weights[s] * 2 ^ (weights[s] - 1) := by
    have := valPerRank_closed_form ok (log + 1 - weights[s]) (by omega) (by omega)
    rw [hsub] at this
    rw [Nat.add_mul, this]
  have hcell : ∀ x, x < 2 ^ (weights[s] - 1) → (buildTable ⟨weights, log, used⟩).cells[
      (valPerRank (nbPerRankOf weights.toList log) log (log + 1 - weights[s]) + (weights.toList.take s).count weights[s])
        * 2 ^ (weights[s] - 1) + x]? = some (s, log + 1 - weights[s]) := by
    intro x hx
    rw [buildTable_cells ok, List.getElem?_toArray, hval]
    exact tableCells_block ok s hs hw x hx
  constructor
  · have h0 := hcell 0 (Nat.two_pow_pos _)
    rw [buildTable_cells ok, List.getElem?_toArray] at h0
    have hlt := (List.getElem?_eq_some_iff.mp h0).1
    rw [tableCells_length ok, Nat.add_zero] at hlt
    have hp : 2 ^ log = 2 ^ (log + 1 - weights[s]) * 2 ^ (weights[s] - 1) := by
      rw [← Nat.pow_add]; congr 1; omega
    rw [hp] at hlt
    exact Nat.lt_of_mul_lt_mul_right hlt
  · intro x hx
    rw [hsub] at hx ⊢
    exact hcell x hx

/-- the same with the accessor used by `Huf.decode1` (`t.cells[idx]!`) -/
theorem table_inverts_code_bang {weights : Array Nat} {log : Nat} (ok : WeightsOK weights log) (used : Nat)
    (s : Nat) (hs : s < weights.size) (hw : 0 < weights[s]) (x : Nat) :
    let c := (codesOf weights log)[s]!
    c.2 = log + 1 - weights[s] ∧ c.1 < 2 ^ c.2 ∧
      (x < 2 ^ (log - c.2) → (buildTable ⟨weights, log, used⟩).cells[c.1 * 2 ^ (log - c.2) + x]! = (s, c.2)) := by
  obtain ⟨val, nb, h1, h2, _, _, h5, h6⟩ := table_inverts_code ok used s hs hw
  have hc : (codesOf weights log)[s]! = (val, nb) := by
    rw [getElem!_def, h1]
  simp only [hc]
  refine ⟨h2, h5, fun hx => ?_⟩
  rw [getElem!_def, h6 x hx]

/-! ### completeness and prefix-freeness: every table index is hit by exactly one (symbol, following bits) pair -/

theorem rank_cover (log w : Nat) (l : List Nat) (k j : Nat) (hj : j < ((l.zipIdx k).flatMap (rankG log w)).length) :
    ∃ s x, ∃ hs : s < l.length, l[s] = w ∧ x < wlen w ∧ j = (l.take s).count w * wlen w + x := by
  induction l generalizing k j with
  | nil => simp at hj
  | cons a l ih =>
    simp only [List.zipIdx_cons, List.flatMap_cons, List.length_append, rankG_eq] at hj
    by_cases h : a = w
    · simp only [h, if_true, List.length_replicate] at hj
      by_cases hlt : j < wlen w
      · exact ⟨0, j, by simp, by simpa using h, hlt, by simp⟩
      · obtain ⟨s, x, hs, h1, h2, h3⟩ := ih (k + 1) (j - wlen w) (by omega)
        refine ⟨s + 1, x, by simpa using hs, by simpa using h1, h2, ?_⟩
        simp only [List.take_succ_cons, List.count_cons, h, beq_self_eq_true, if_true, Nat.add_mul, Nat.one_mul]
        omega
    · simp only [h, if_false, List.length_nil, Nat.zero_add] at hj
      obtain ⟨s, x, hs, h1, h2, h3⟩ := ih (k + 1) j hj
      refine ⟨s + 1, x, by simpa using hs, by simpa using h1, h2, ?_⟩
      simp only [List.take_succ_cons, List.count_cons, beq_iff_eq, h, if_false, Nat.add_zero]
      exact h3

theorem flat_cover (W : List Nat) (log k idx : Nat) (h : idx < (flat W log k).length) :
    ∃ w j, 1 ≤ w ∧ w ≤ k ∧ j < (rankCells W log w).length ∧ idx = cellsUpTo W (w - 1) + j := by
  induction k with
  | zero => simp [flat] at h
  | succ k ih =>
    rw [flat_succ, List.length_append] at h
    by_cases hlt : idx < (flat W log k).length
    · obtain ⟨w, j, h1, h2, h3, h4⟩ := ih hlt
      exact ⟨w, j, h1, by omega, h3, h4⟩
    · rw [flat_length] at h hlt
      exact ⟨k + 1, idx - cellsUpTo W k, by omega, Nat.le_refl _, by omega, by simp only [Nat.add_sub_cancel]; omega⟩

/-- start of the block of symbol `s` in the table, in terms of its code -/
theorem code_scaled {weights : Array Nat} {log : Nat} (ok : WeightsOK weights log) (s : Nat) (hs : s < weights.size)
    (hw : 0 < weights[s]) :
    (valPerRank (nbPerRankOf weights.toList log) log (log + 1 - weights[s])
        + (weights.toList.take s).count weights[s]) * 2 ^ (weights[s] - 1)
      = cellsUpTo weights.toList (weights[s] - 1) + (weights.toList.take s).count weights[s] * 2 ^ (weights[s] - 1) := by
  have hwl : weights[s] ≤ log := ok.le_log _ (by simp)
  have := valPerRank_closed_form ok (log + 1 - weights[s]) (by omega) (by omega)
  rw [show log - (log + 1 - weights[s]) = weights[s] - 1 by omega] at this
  rw [Nat.add_mul, this]

/-- completeness: every index of the table is `code ++ following bits` of some symbol of non-zero weight -/
theorem table_complete {weights : Array Nat} {log : Nat} (ok : WeightsOK weights log) (idx : Nat) (h : idx < 2 ^ log) :
    ∃ s x, ∃ hs : s < weights.size, 0 < weights[s] ∧ x < 2 ^ (log - (codesOf weights log)[s]!.2) ∧
      idx = (codesOf weights log)[s]!.1 * 2 ^ (log - (codesOf weights log)[s]!.2) + x := by
  rw [← tableCells_length ok, tableCells_eq_flat] at h
  obtain ⟨w, j, hw1, hw2, hj, hidx⟩ := flat_cover _ _ _ _ h
  rw [rankCells_eq] at hj
  obtain ⟨s, x, hs, hws, hx, hjx⟩ := rank_cover _ _ _ _ _ hj
  have hs2 : s < weights.size := by simpa using hs
  have hws2 : weights[s] = w := by simpa using hws
  have hw : 0 < weights[s] := by omega
  have hc : (codesOf weights log)[s]! = (valPerRank (nbPerRankOf weights.toList log) log (log + 1 - weights[s])
      + (weights.toList.take s).count weights[s], log + 1 - weights[s]) := by
    rw [getElem!_def, codesOf_getElem ok s hs2 hw]
  refine ⟨s, x, hs2, hw, ?_⟩
  simp only [hc]
  have hsub : log - (log + 1 - weights[s]) = weights[s] - 1 := by omega
  rw [hsub, code_scaled ok s hs2 hw, hws2, ← wlen_pos hw1]
  exact ⟨hx, by omega⟩

/-- prefix-freeness: two (symbol, following bits) pairs that hit the same index are the same pair -/
theorem table_unique {weights : Array Nat} {log : Nat} (ok : WeightsOK weights log)
    (s1 s2 x1 x2 : Nat) (h1 : s1 < weights.size) (h2 : s2 < weights.size) (hw1 : 0 < weights[s1]) (hw2 : 0 < weights[s2])
    (hx1 : x1 < 2 ^ (log - (codesOf weights log)[s1]!.2)) (hx2 : x2 < 2 ^ (log - (codesOf weights log)[s2]!.2))
    (heq : (codesOf weights log)[s1]!.1 * 2 ^ (log - (codesOf weights log)[s1]!.2) + x1
         = (codesOf weights log)[s2]!.1 * 2 ^ (log - (codesOf weights log)[s2]!.2) + x2) :
    s1 = s2 ∧ x1 = x2 := by
  have a := (table_inverts_code_bang ok 0 s1 h1 hw1 x1).2.2 hx1
  have b := (table_inverts_code_bang ok 0 s2 h2 hw2 x2).2.2 hx2
  rw [heq, b] at a
  have hs : s2 = s1 := congrArg Prod.fst a
  subst hs
  exact ⟨rfl, by omega⟩

/-! ### stream round trip over an abstract bit stack

The forward bit writer appends fields (value, width) above the ones already written; the backward reader (`BitR`, Model/Bits.lean)
starts just below the end mark and consumes from the top.  Abstractly the stream is a stack of bits, listed here from the top,
each field most significant bit first.  `peekBits k` is `BitR.peek k` (the next `k` bits as a number, zero bits below the bottom of
the stream), `BitStack.skip k` is `BitR.skip k` (sticky `over` flag when more bits are consumed than are left), and
`bits = [] ∧ over = false` is `BitR.atEnd` / the `left = 0 ∧ ¬over` end condition of `Huf.decode1`.  That the byte-level writer and
reader implement this stack is the subject of the sibling bit-stream lemmas. -/

/-- the `n` low bits of `v`, most significant first -/
def bitsMSB (v : Nat) : Nat → List Bool
  | 0 => []
  | n + 1 => v.testBit n :: bitsMSB v n

/-- bits of the stream from the top, given the fields in the order they were appended -/
def stackBits (fields : List (Nat × Nat)) : List Bool := fields.reverse.flatMap fun f => bitsMSB f.1 f.2

/-- the next `k` bits from the top as a number, zero bits below the bottom -/
def peekBits : Nat → List Bool → Nat
  | 0, _ => 0
  | _ + 1, [] => 0
  | k + 1, b :: bs => b.toNat * 2 ^ k + peekBits k bs

structure BitStack where
  bits : List Bool
  over : Bool
deriving DecidableEq, Repr

def BitStack.peek (st : BitStack) (k : Nat) : Nat := peekBits k st.bits

def BitStack.skip (st : BitStack) (k : Nat) : BitStack :=
  if k ≤ st.bits.length then { st with bits := st.bits.drop k } else { bits := [], over := true }

/-- the loop of `Huf.decode1` (HUF_decompress1X1_usingDTable_internal_body): n times peek `log` bits, look up, consume nbBits -/
def decodeLoop (t : Table) : Nat → BitStack → List Nat × BitStack
  | 0, st => ([], st)
  | n + 1, st =>
    let c := t.cells[st.peek t.log]!
    let r := decodeLoop t n (st.skip c.2)
    (c.1 :: r.1, r.2)

def decodeFields (t : Table) (n : Nat) (fields : List (Nat × Nat)) : List Nat × BitStack :=
  decodeLoop t n { bits := stackBits fields, over := false }

theorem bitsMSB_length (v n : Nat) : (bitsMSB v n).length = n := by
  induction n with
  | zero => rfl
  | succ n ih => simp [bitsMSB, ih]

theorem peekBits_lt (k : Nat) (bs : List Bool) : peekBits k bs < 2 ^ k := by
  induction k generalizing bs with
  | zero => simp [peekBits]
  | succ k ih =>
    cases bs with
    | nil => simp only [peekBits]; exact Nat.two_pow_pos _
    | cons b bs =>
      have := ih bs
      simp only [peekBits, Nat.pow_succ]
      cases b <;> simp <;> omega

theorem testBit_toNat (v n : Nat) : (v.testBit n).toNat = v / 2 ^ n % 2 := by
  rw [Nat.testBit_eq_decide_div_mod_eq]
  rcases Nat.mod_two_eq_zero_or_one (v / 2 ^ n) with h | h <;> simp [h]

/-- peeking across a field: its value, then what follows -/
theorem peekBits_field (v n m : Nat) (rest : List Bool) :
    peekBits (n + m) (bitsMSB v n ++ rest) = v % 2 ^ n * 2 ^ m + peekBits m rest := by
  induction n with
  | zero => simp [bitsMSB, Nat.mod_one]
  | succ n ih =>
    rw [show n + 1 + m = (n + m) + 1 by omega]
    simp only [bitsMSB, List.cons_append, peekBits, ih, testBit_toNat]
    rw [Nat.mod_pow_succ (x := v) (b := 2) (k := n), Nat.add_mul, Nat.pow_add, Nat.mul_assoc (2 ^ n),
      Nat.mul_left_comm (v / 2 ^ n % 2)]
    omega

theorem stackBits_encode1 (codes : Array (Nat × Nat)) (lits : List Nat) :
    stackBits (encode1 codes lits) = lits.flatMap fun s => bitsMSB codes[s]!.1 codes[s]!.2 := by
  simp only [stackBits, encode1, List.map_reverse, List.reverse_reverse, List.flatMap_map]

theorem decodeLoop_roundtrip {weights : Array Nat} {log : Nat} (ok : WeightsOK weights log) (used : Nat) (lits : List Nat)
    (h : ∀ s ∈ lits, ∃ hs : s < weights.size, 0 < weights[s]) (over : Bool) :
    decodeLoop (buildTable ⟨weights, log, used⟩) lits.length
      { bits := lits.flatMap fun s => bitsMSB (codesOf weights log)[s]!.1 (codesOf weights log)[s]!.2, over := over }
      = (lits, { bits := [], over := over }) := by
  induction lits with
  | nil => rfl
  | cons s lits ih =>
    obtain ⟨hs, hw⟩ := h s List.mem_cons_self
    have ih2 := ih (fun x hx => h x (List.mem_cons_of_mem _ hx))
    have hwl : weights[s] ≤ log := ok.le_log _ (by simp)
    obtain ⟨hnb, hval, hcell⟩ := table_inverts_code_bang ok used s hs hw
      (peekBits (log - (codesOf weights log)[s]!.2)
        (lits.flatMap fun s => bitsMSB (codesOf weights log)[s]!.1 (codesOf weights log)[s]!.2))
    have hpeek : peekBits log (bitsMSB (codesOf weights log)[s]!.1 (codesOf weights log)[s]!.2 ++
          lits.flatMap fun s => bitsMSB (codesOf weights log)[s]!.1 (codesOf weights log)[s]!.2)
        = (codesOf weights log)[s]!.1 * 2 ^ (log - (codesOf weights log)[s]!.2) +
          peekBits (log - (codesOf weights log)[s]!.2)
            (lits.flatMap fun s => bitsMSB (codesOf weights log)[s]!.1 (codesOf weights log)[s]!.2) := by
      have := peekBits_field (codesOf weights log)[s]!.1 (codesOf weights log)[s]!.2 (log - (codesOf weights log)[s]!.2)
        (lits.flatMap fun s => bitsMSB (codesOf weights log)[s]!.1 (codesOf weights log)[s]!.2)
      rw [show (codesOf weights log)[s]!.2 + (log - (codesOf weights log)[s]!.2) = log by omega, Nat.mod_eq_of_lt hval] at this
      exact this
    have hc := hcell (peekBits_lt _ _)
    simp only [List.length_cons, List.flatMap_cons, decodeLoop, BitStack.peek, buildTable_log, hpeek, hc, BitStack.skip,
      List.length_append, bitsMSB_length, Nat.le_add_right, if_true, List.drop_left' (bitsMSB_length _ _), ih2]

/-- STREAM ROUND TRIP.  Decoding `lits.length` symbols from the fields the encoder appended returns `lits` and leaves the stack
exactly empty, never having read below its bottom - for every literal sequence whose symbols all have a non-zero weight. -/
theorem stream_roundtrip {weights : Array Nat} {log : Nat} (ok : WeightsOK weights log) (used : Nat) (lits : List Nat)
    (h : ∀ s ∈ lits, ∃ hs : s < weights.size, 0 < weights[s]) :
    decodeFields (buildTable ⟨weights, log, used⟩) lits.length (encode1 (codesOf weights log) lits)
      = (lits, { bits := [], over := false }) := by
  rw [decodeFields, stackBits_encode1]
  exact decodeLoop_roundtrip ok used lits h false

/-! ### the four streams -/

/-- HUF_compress4X_usingCTable_internal refuses `srcSize < 12` -/
theorem compress4_accepts {writer : List (Nat × Nat) → ByteArray} {codes : Array (Nat × Nat)} {lits : List Nat} {out : ByteArray}
    (h : compress4 writer codes lits = some out) : 12 ≤ lits.length := by
  unfold compress4 at h
  split at h
  · exact absurd h (by simp)
  · omega

/-- FOUR STREAMS.  The segments cut by the encoder's `(srcSize+3)/4` rule concatenate to the input, and their lengths are the four
regenerated sizes `Huf.decode4` (HUF_decompress4X1_usingDTable_internal_body) derives from the total: seg = (n+3)/4 three times and
n - 3*seg, and neither of the decoder's rejections (`n < 6`, `3*seg > n`) fires.  Holds from n = 6, so in particular for every
input the encoder accepts (n ≥ 12, `compress4_accepts`). -/
theorem four_streams_partition {α : Type} (lits : List α) (h : 6 ≤ lits.length) :
    (segments lits).1 ++ (segments lits).2.1 ++ (segments lits).2.2.1 ++ (segments lits).2.2.2 = lits ∧
    (segments lits).1.length = (lits.length + 3) / 4 ∧
    (segments lits).2.1.length = (lits.length + 3) / 4 ∧
    (segments lits).2.2.1.length = (lits.length + 3) / 4 ∧
    (segments lits).2.2.2.length = lits.length - 3 * ((lits.length + 3) / 4) ∧
    ¬ (lits.length < 6) ∧ ¬ (3 * ((lits.length + 3) / 4) > lits.length) := by
  simp only [segments]
  generalize hseg : (lits.length + 3) / 4 = seg
  have e2 : lits.drop (2 * seg) = (lits.drop seg).drop seg := by rw [List.drop_drop]; congr 1; omega
  have e3 : lits.drop (3 * seg) = ((lits.drop seg).drop seg).drop seg := by
    rw [List.drop_drop, List.drop_drop]; congr 1; omega
  refine ⟨?_, ?_, ?_, ?_, ?_, by omega, by omega⟩
  · rw [e2, e3, List.append_assoc, List.append_assoc, List.take_append_drop, List.take_append_drop, List.take_append_drop]
  · rw [List.length_take]; omega
  · rw [List.length_take, List.length_drop]; omega
  · rw [List.length_take, List.length_drop]; omega
  · rw [List.length_drop]

theorem u8_eq_toList (b : ByteArray) (i : Nat) : b.u8 i = (b.data.toList[i]?.map UInt8.toNat).getD 0 := by
  unfold ByteArray.u8
  split
  · next h =>
    have h2 : i < b.data.toList.length := by rw [Array.length_toList]; exact h
    rw [List.getElem?_eq_getElem h2]
    simp [ByteArray.getElem_eq_getElem_data]
  · next h =>
    have h2 : b.data.toList.length ≤ i := by rw [Array.length_toList]; exact Nat.le_of_not_lt h
    rw [List.getElem?_eq_none h2]; rfl

theorem le16_toList (n : Nat) : (HufEnc.le16 n).data.toList = [UInt8.ofNat (n % 256), UInt8.ofNat (n / 256 % 256)] := by
  rfl

/-- what `Huf.decode4` reads back from the encoder's layout: the three little-endian 16-bit jump-table entries are the sizes of the
first three streams, the fourth size is the remainder (`l4 = len - (6 + l1 + l2 + l3)`), and the `len < 10` rejection cannot fire -/
theorem layout4_parse {c1 c2 c3 c4 out : ByteArray} (h : layout4 c1 c2 c3 c4 = some out) :
    out.le16 0 = c1.size ∧ out.le16 2 = c2.size ∧ out.le16 4 = c3.size ∧
    out.size = 6 + c1.size + c2.size + c3.size + c4.size ∧ 10 ≤ out.size := by
  unfold layout4 at h
  split at h; · cases h
  split at h; · cases h
  split at h; · cases h
  split at h; · cases h
  cases h
  have hl : (HufEnc.le16 c1.size ++ HufEnc.le16 c2.size ++ HufEnc.le16 c3.size ++ c1 ++ c2 ++ c3 ++ c4).data.toList
      = UInt8.ofNat (c1.size % 256) :: UInt8.ofNat (c1.size / 256 % 256) :: UInt8.ofNat (c2.size % 256) :: UInt8.ofNat (c2.size / 256 % 256)
        :: UInt8.ofNat (c3.size % 256) :: UInt8.ofNat (c3.size / 256 % 256) :: (c1.data.toList ++ c2.data.toList ++ c3.data.toList ++ c4.data.toList) := by
    simp only [ByteArray.toList_data_append, le16_toList, List.cons_append, List.nil_append, List.append_assoc]
  have hs : ∀ n, (HufEnc.le16 n).size = 2 := by intro n; simp [HufEnc.le16, ByteArray.size_push]
  refine ⟨?_, ?_, ?_, ?_, ?_⟩
  · simp only [ByteArray.le16, u8_eq_toList, hl]
    simp [Nat.shiftLeft_eq]; omega
  · simp only [ByteArray.le16, u8_eq_toList, hl]
    simp [Nat.shiftLeft_eq]; omega
  · simp only [ByteArray.le16, u8_eq_toList, hl]
    simp [Nat.shiftLeft_eq]; omega
  · simp only [ByteArray.size_append, hs]
  · simp only [ByteArray.size_append, hs]; omega

/-! ### `Huf.readStats` establishes `WeightsOK` -/

theorem throw_bind_ne {α β} (e : Err) (f : α → R β) (x : β) : ((throw e : R α) >>= f) = Except.ok x → False := by
  intro h; cases h

theorem bind_ok {α β} {x : R α} {k : α → R β} {y : β} (h : (x >>= k) = Except.ok y) : ∃ a, x = .ok a ∧ k a = .ok y := by
  cases x with
  | error e => cases h
  | ok a => exact ⟨a, rfl, h⟩

/-- the part of `Huf.readStats` after the weights have been read -/
def statsTail (hufLogMax : Nat) (ws : Array Nat) (iSize : Nat) : R Stats := do
  let mut total := 0
  let mut rank1 := 0
  for w in ws do
    if w > hufLogMax then throw (.corruptionAt "Huf:40")
    if w == 1 then rank1 := rank1 + 1
    total := total + ((1 <<< w) >>> 1)
  if total == 0 then throw (.corruptionAt "Huf:43")
  let tableLog := highbit total + 1
  if tableLog > hufLogMax then throw (.corruptionAt "Huf:45")
  let rest := (1 <<< tableLog) - total
  let verif := 1 <<< highbit rest
  if verif != rest then throw (.corruptionAt "Huf:48")
  let last := highbit rest + 1
  if last == 1 then rank1 := rank1 + 1
  if rank1 < 2 || rank1 % 2 == 1 then throw (.corruptionAt "Huf:51")
  return { weights := ws.push last, tableLog := tableLog, used := iSize + 1 }

theorem readStats_tail (src : Bytes) (start n hmax : Nat) (st : Stats) (h : readStats src start n hmax = .ok st) : ∃ ws iSize, statsTail hmax ws iSize = .ok st := by
  unfold readStats at h
  extract_lets hb ws0 iSize0 t0 jpTail oSize iSize jpA jpB jpC jpD at h
  have hT : jpTail = fun _ ws iSize => statsTail hmax ws iSize := rfl
  split at h
  · exact (throw_bind_ne _ _ _ h).elim
  simp only [jpD] at h
  split at h
  · split at h
    · exact (throw_bind_ne _ _ _ h).elim
    simp only [jpB] at h
    split at h
    · exact (throw_bind_ne _ _ _ h).elim
    simp only [jpA] at h
    obtain ⟨ws, _, h⟩ := bind_ok h
    rw [hT] at h; exact ⟨ws, iSize, h⟩
  · split at h
    · exact (throw_bind_ne _ _ _ h).elim
    simp only [jpC] at h
    obtain ⟨ws, _, h⟩ := bind_ok h
    rw [hT] at h; exact ⟨ws, iSize0, h⟩

theorem kraftSum_append (a b : List Nat) : kraftSum (a ++ b) = kraftSum a + kraftSum b := by
  induction a with
  | nil => simp [kraftSum]
  | cons x l ih => simp only [List.cons_append, kraftSum, ih]; omega

theorem wlen_le_kraftSum {l : List Nat} {w : Nat} (h : w ∈ l) : wlen w ≤ kraftSum l := by
  induction l with
  | nil => cases h
  | cons x l ih =>
    rcases List.mem_cons.mp h with rfl | h
    · exact Nat.le_add_right _ _
    · exact Nat.le_trans (ih h) (Nat.le_add_left _ _)

/-- the weight loop of HUF_readStats_body: sums `(1 << w) >> 1`, rejects a weight above `hmax` -/
theorem weights_loop (hmax : Nat) (e : Err) (g : Nat → Nat → Nat) (f : Nat → Nat × Nat → R (ForInStep (Nat × Nat)))
    (hf : ∀ w s, f w s = if w > hmax then .error e else .ok (.yield (s.1 + (1 <<< w) >>> 1, g w s.2)))
    (l : List Nat) (s res : Nat × Nat) (h : forIn l s f = .ok res) :
    res.1 = s.1 + kraftSum l ∧ ∀ w ∈ l, w ≤ hmax := by
  induction l generalizing s with
  | nil =>
    simp only [List.forIn_nil] at h
    cases h; simp [kraftSum]
  | cons a l ih =>
    rw [List.forIn_cons, hf] at h
    split at h
    · cases h
    · have := ih _ h
      simp only [kraftSum] at this ⊢
      refine ⟨by omega, fun w hw => ?_⟩
      rcases List.mem_cons.mp hw with rfl | hw
      · omega
      · exact this.2 w hw

theorem stats_math (ws : Array Nat) (total : Nat) (ht : total = kraftSum ws.toList) (hpos : total ≠ 0)
    (hv : 1 <<< highbit (1 <<< (highbit total + 1) - total) = 1 <<< (highbit total + 1) - total) :
    WeightsOK (ws.push (highbit (1 <<< (highbit total + 1) - total) + 1)) (highbit total + 1) := by
  simp only [highbit, Nat.shiftLeft_eq, Nat.one_mul] at hv ⊢
  have hlt : total < 2 ^ (total.log2 + 1) := Nat.lt_log2_self
  generalize hr : 2 ^ (total.log2 + 1) - total = rest at hv
  have hrest0 : rest ≠ 0 := by omega
  have hrlt : rest < 2 ^ (total.log2 + 1) := by omega
  have hrl : rest.log2 < total.log2 + 1 := (Nat.log2_lt hrest0).mpr hrlt
  refine ⟨by omega, ?_, ?_⟩
  · intro w hw
    simp only [Array.toList_push, List.mem_append, List.mem_singleton] at hw
    rcases hw with hw | rfl
    · have h1 := wlen_le_kraftSum hw
      cases w with
      | zero => omega
      | succ k =>
        rw [wlen_succ] at h1
        have : 2 ^ k < 2 ^ (total.log2 + 1) := by omega
        have := (Nat.pow_lt_pow_iff_right (by decide : 1 < 2)).mp this
        omega
    · omega
  · rw [Array.toList_push, kraftSum_append]
    simp only [kraftSum, Nat.add_zero]
    have := wlen_succ rest.log2
    unfold wlen at this
    rw [this, hv, ← ht]; omega

theorem statsTail_ok (hmax : Nat) (ws : Array Nat) (iSize : Nat) (st : Stats) (h : statsTail hmax ws iSize = .ok st) :
    WeightsOK st.weights st.tableLog := by
  unfold statsTail at h
  extract_lets t0 at h
  obtain ⟨⟨total, rank1⟩, hloop, h⟩ := bind_ok h
  rw [← Array.forIn_toList] at hloop
  have hl := weights_loop hmax (.corruptionAt "Huf:40") (fun w r => if w == 1 then r + 1 else r) _
    (by intro w s; simp only []; split
        · rfl
        · split <;> rfl) _ _ _ hloop
  simp only [t0, Nat.zero_add] at hl
  simp only [] at h
  split at h
  · exact (throw_bind_ne _ _ _ h).elim
  split at h
  · exact (throw_bind_ne _ _ _ h).elim
  split at h
  · exact (throw_bind_ne _ _ _ h).elim
  rename_i hne _ hv
  have hmath := stats_math ws total hl.1 (by simpa using hne) (by simpa using hv)
  split at h <;> split at h <;> first | exact (throw_bind_ne _ _ _ h).elim | (cases h; exact hmath)

/-- what `Huf.readStats` (HUF_readStats_body) returns satisfies `WeightsOK` -/
theorem readStats_weightsOK (src : Bytes) (start n hmax : Nat) (st : Stats) (h : readStats src start n hmax = .ok st) :
    WeightsOK st.weights st.tableLog := by
  obtain ⟨ws, iSize, h2⟩ := readStats_tail src start n hmax st h
  exact statsTail_ok hmax ws iSize st h2

/-- the round trip for the table built from any weight header the decoder accepts -/
theorem stream_roundtrip_readStats (src : Bytes) (start n hmax : Nat) (st : Stats) (h : readStats src start n hmax = .ok st)
    (lits : List Nat) (hl : ∀ s ∈ lits, ∃ hs : s < st.weights.size, 0 < st.weights[s]) :
    decodeFields (buildTable st) lits.length (encode1 (codesOf st.weights st.tableLog) lits)
      = (lits, { bits := [], over := false }) :=
  stream_roundtrip (readStats_weightsOK src start n hmax st h) st.used lits hl

/-! ### non-vacuity -/

/-- weights 2,1,1 with tableLog 2 (codes 1, 00, 01) -/
example : WeightsOK #[2, 1, 1] 2 := by decide
example : codesOf #[2, 1, 1] 2 = #[(1, 1), (0, 2), (1, 2)] := by decide
example : (buildTable ⟨#[2, 1, 1], 2, 0⟩).cells = #[(1, 2), (2, 2), (0, 1), (0, 1)] := by decide
example : decodeFields (buildTable ⟨#[2, 1, 1], 2, 0⟩) 4 (encode1 (codesOf #[2, 1, 1] 2) [2, 0, 0, 1])
    = ([2, 0, 0, 1], { bits := [], over := false }) := by decide
/-- a weight vector with a zero weight and a length-limited shape -/
example : WeightsOK #[4, 0, 3, 1, 2, 0, 1] 4 := by decide

end ZstdVerif.HufRT
